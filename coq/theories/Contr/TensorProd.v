(* Property C04, the parts of the statement that were only covered by the dense oracle:
     A. pytreenet/contractions/tree_contraction.py  completely_contract_tree  (and TTNO.as_matrix on top of it)
     B. TreeTensorNetworkState.tensor_product_expectation_value / apply_operator (pytreenet/ttns/ttns.py)
     C. the orthogonality-centre shortcuts of scalar_product and single_site_operator_expectation_value
   as programs over the Layer-W store (TTN/Store.v), the block recursion of Contr/Blocks.v and
   absorb_into_open_legs of TEBD/Trotter.v.  Definitions only (executable); proofs are in TensorProdProofs.v. *)
From Coq Require Import List Arith Bool.
From PTN Require Import TTN.Store TTN.Inv TEBD.Trotter Contr.Blocks Contr.Closed.
Import ListNotations.

(* ==== A. completely_contract_tree ============================================================================== *)
(* one turn of `for child_id in children:` in _completely_contract_tree_rec: the recursive call on the child, then
   work_ttn.contract_nodes(current_node_id, child_id, new_identifier=current_node_id) *)
Definition cct_step (rec : store -> id -> list id -> option (store * list id)) (n : id)
           (acc : option (store * list id)) (c : id) : option (store * list id) :=
  match acc with
  | None => None
  | Some (s1, ord) =>
      match rec s1 c ord with
      | None => None
      | Some (s2, ord2) => match contract_nodes s2 n c n with Some s3 => Some (s3, ord2) | None => None end
      end
  end.

(* _completely_contract_tree_rec(work_ttn, current_node_id, contraction_order): the node is looked up (KeyError
   = None), `children = copy(current_node.children)` is the list the loop runs over, the identifier is appended to
   the order BEFORE the children are visited (pre-order) *)
Fixpoint cct_rec (fuel : nat) (s : store) (n : id) (ord : list id) : option (store * list id) :=
  match fuel with
  | O => None
  | S f => match aget n (nodes s) with
           | None => None
           | Some nd => fold_left (cct_step (cct_rec f) n) (children nd) (Some (s, ord ++ [n]))
           end
  end.

(* completely_contract_tree: returns work_ttn.tensors[work_ttn.root_id] (the logical tensor of the root of the
   contracted network) and the order; the final store is returned as well so that theorems can speak about it *)
Definition complete_contraction (s : store) : option (store * sarr * list id) :=
  match root s with
  | None => None
  | Some r =>
      match cct_rec (length (nodes s)) s r [] with
      | None => None
      | Some (s', ord) =>
          match root s' with
          | Some r' => match logical s' r' with Some t => Some (s', t, ord) | None => None end
          | None => None
          end
      end
  end.

(* TTNO.as_matrix: permutation = list(range(0, ndim, 2)) + list(range(1, ndim, 2)), transpose; the reshape to
   (dim, dim) is C-order and merges the first half / second half of the legs *)
Definition evens_odds (ndim : nat) : list nat :=
  map (fun k => 2 * k) (seq 0 ((ndim + 1) / 2)) ++ map (fun k => 2 * k + 1) (seq 0 (ndim / 2)).
Definition as_matrix (s : store) : option (sarr * list id) :=
  match complete_contraction s with
  | Some (_, t, ord) => Some (s_transpose (evens_odds (length (axes t))) t, ord)
  | None => None
  end.

(* the pre-order of the tree of a store (the ket_tree of Contr/Closed.v read in pre-order) and the open wires of a
   node (in node order), the vocabulary of the specification *)
Definition preorder (s : store) : list id := match ket_tree s with Some t => rnodes t | None => [] end.
Definition ow (s : store) (m : id) : list wire :=
  match aget m (nodes s) with Some nd => open_of nd (tens s m) | None => [] end.
(* the wire on the parent leg of a non-root node *)
Definition pw (s : store) (m : id) : list wire :=
  match aget m (nodes s) with Some nd => firstn (nparents nd) (lax s m nd) | None => [] end.

(* per-instance checker of the result (used by the harness as a cross-check of the universal theorem) *)
Definition complete_contraction_ok (s : store) : bool :=
  match complete_contraction s, root s with
  | Some (s', t, ord), Some r =>
      list_eqb (akeys (nodes s')) [r] && list_eqb ord (preorder s)
      && list_eqb (axes t) (flat_map (ow s) (preorder s))
      && list_eqb (sort_nat (atoms t)) (sort_nat (total_atoms s))
      && list_eqb (sort_nat (axes t ++ bnd t ++ bnd t)) (sort_nat (total_ends s))
      && forallb (fun m => forallb (fun w => memb w (bnd t)) (pw s m)) (akeys (nodes s))
  | _, _ => false
  end.

Definition asmat_case (ops : list op) :=
  let s := fst (run empty_store ops) in
  (observe s,
   match as_matrix s with
   | Some (t, ord) => Some (axes t, atoms t, bnd t, ord)
   | None => None
   end,
   wfb s && complete_contraction_ok s).

(* ==== B. tensor_product_expectation_value ======================================================================== *)
(* ttn.conjugate(): a deep copy whose tensors are conjugated.  In the diagram world the copy lives on its own
   wires and atoms (offsets), exactly like Blocks.conj_arr *)
Definition conj_sarr (woff aoff : nat) (t : sarr) : sarr :=
  {| axes := map (Nat.add woff) (axes t); atoms := map (Nat.add aoff) (atoms t); bnd := map (Nat.add woff) (bnd t) |}.
Definition conj_store (woff aoff : nat) (s : store) : store :=
  {| nodes := nodes s;
     tensors := map (fun kt => (fst kt, conj_sarr woff aoff (snd kt))) (tensors s);
     root := root s;
     dims := map (fun wd => (woff + fst wd, snd wd)) (dims s);
     next_wire := woff + next_wire s; next_atom := aoff + next_atom s; defs := [];
     atab := map (fun aw => (aoff + fst aw, map (Nat.add woff) (snd aw))) (atab s) |}.

(* TreeTensorNetworkState.apply_operator: absorb_into_open_legs for every factor, in dict order; a factor is
   (node identifier, shape of the operator tensor) *)
Fixpoint tp_apply (s : store) (ops : list (id * list nat)) : option store :=
  match ops with
  | [] => Some s
  | (n, shp) :: t => match absorb_open s n shp with Some s' => tp_apply s' t | None => None end
  end.

(* the general path: ttn = deepcopy(self); conj_ttn = ttn.conjugate(); ttn.apply_operator(operator);
   contract_two_ttns(ttn, conj_ttn) -- the conjugate copy is taken BEFORE the operators are applied *)
Definition tp_expectation (woff aoff : nat) (s : store) (ops : list (id * list nat)) : option garr :=
  let bra := conj_store woff aoff s in
  match tp_apply s ops with
  | Some ket => contract_two_ttns ket bra
  | None => None
  end.

(* ==== C. the orthogonality-centre shortcuts ======================================================================= *)
(* scalar_product() with a recorded centre: np.tensordot(tensor, tensor.conj(), axes=(all legs, all legs)) *)
Definition center_norm (woff aoff : nat) (s : store) (c : id) : option garr :=
  match tensor_of s c with
  | Some kt => let legs := seq 0 (length (gaxes kt)) in g_tensordot kt (conj_arr woff aoff kt) legs legs
  | None => None
  end.

(* the single-site operator as a diagram: one atom `a` on (output wire, input wire) *)
Definition op_arr (a : nat) (wo wi : wire) : garr := {| gaxes := [wo; wi]; gatoms := [a]; gbnd := []; gglue := [] |}.

(* single_site_operator_expectation_value at the centre: tensor_op = np.tensordot(tensor, operator, axes=(-1, 1));
   np.tensordot(tensor_op, tensor.conj(), axes=(all legs, all legs)).  The operator is the fresh atom
   next_atom s on the fresh wires (next_wire s, next_wire s + 1), as absorb_open would allocate them *)
Definition center_single_site (woff aoff : nat) (s : store) (c : id) : option garr :=
  match tensor_of s c with
  | Some kt =>
      let n := length (gaxes kt) in
      match g_tensordot kt (op_arr (next_atom s) (next_wire s) (S (next_wire s))) [n - 1] [1] with
      | Some top => let legs := seq 0 n in g_tensordot top (conj_arr woff aoff kt) legs legs
      | None => None
      end
  | None => None
  end.

(* scalar_product(other=None, use_orthogonal_center=True) on a state with recorded centre `ctr` *)
Definition scalar_product (woff aoff : nat) (s : store) (ctr : option id) : option garr :=
  match ctr with
  | Some c => center_norm woff aoff s c
  | None => contract_two_ttns s (conj_store woff aoff s)
  end.

(* tensor_product_expectation_value, the dispatch: empty product = scalar_product(); one factor on the recorded
   centre = the single-site shortcut; otherwise the general path *)
Definition tp_expectation_value (woff aoff : nat) (s : store) (ctr : option id) (ops : list (id * list nat)) : option garr :=
  match ops with
  | [] => scalar_product woff aoff s ctr
  | [(n, shp)] =>
      if opt_eqb ctr (Some n) then center_single_site woff aoff s n else tp_expectation woff aoff s ops
  | _ => tp_expectation woff aoff s ops
  end.

(* ---- the expected diagrams ------------------------------------------------------------------------------------- *)
(* position of site m among the factors *)
Definition factor_index (ops : list (id * list nat)) (m : id) : option nat := index_of m (map fst ops).
(* the glued pair at site m: (ket-side wire, conjugate copy's open wire); with a factor the ket-side wire is the
   factor's output wire next_wire s + i *)
Definition tp_pair (woff : nat) (s : store) (ops : list (id * list nat)) (m : id) : wire * wire :=
  match factor_index ops m with
  | Some i => (next_wire s + i, woff + open_wire s m)
  | None => (open_wire s m, woff + open_wire s m)
  end.
(* the atom-table rows apply_operator appends: factor i is the atom next_atom s + i on (output wire, the node's
   open wire) *)
Definition tp_rows (s : store) (ops : list (id * list nat)) : list (nat * list wire) :=
  map (fun im => (next_atom s + fst im, [next_wire s + fst im; open_wire s (fst (snd im))]))
      (combine (seq 0 (length ops)) ops).

(* executable forms of the hypotheses of the universal theorem for the general path *)
Definition tp_hyp (woff aoff : nat) (s : store) (ops : list (id * list nat)) : bool :=
  wfb s && two_ok s (conj_store woff aoff s)
  && nodupb (map fst ops)
  && forallb (fun o => amem (fst o) (nodes s)
                       && list_eqb (snd o) [wdim s (open_wire s (fst o)); wdim s (open_wire s (fst o))]) ops
  && Nat.leb (next_wire s + length ops) woff.

(* result checker of the general path, per instance *)
Definition tp_result_ok (woff aoff : nat) (s : store) (ops : list (id * list nat)) : bool :=
  match ket_tree s, tp_apply s ops, tp_expectation woff aoff s ops with
  | Some t, Some ket, Some g =>
      let bra := conj_store woff aoff s in
      list_eqb (gaxes g) []
      && list_eqb (sort_nat (gatoms g)) (sort_nat (all_atoms s bra (rnodes t) ++ seq (next_atom s) (length ops)))
      && list_eqb (sort_nat (gbnd g))
                  (sort_nat (edge_wires s bra (rdesc t) ++ inner_bnd s bra (rnodes t) ++ map (fun o => open_wire s (fst o)) ops))
      && list_eqb (map fst (sort_pairs (map norm_pair (gglue g)))) (map fst (sort_pairs (map norm_pair (map (tp_pair woff s ops) (rnodes t)))))
      && list_eqb (map snd (sort_pairs (map norm_pair (gglue g)))) (map snd (sort_pairs (map norm_pair (map (tp_pair woff s ops) (rnodes t)))))
      && list_eqb (map fst (atab ket)) (map fst (atab s ++ tp_rows s ops))
      && forallb (fun ab => list_eqb (snd (fst ab)) (snd (snd ab))) (combine (atab ket) (atab s ++ tp_rows s ops))
  | _, _, _ => false
  end.

Definition tp_case (kops : list op) (ops : list (id * list nat)) (ctr : list id) (woff aoff : nat) :=
  let s := fst (run empty_store kops) in
  let c := match ctr with c :: _ => Some c | [] => None end in
  (observe s,
   option_map summary (tp_expectation woff aoff s ops),
   match tp_apply s ops with Some k => atab k | None => [] end,
   option_map summary (tp_expectation_value woff aoff s c ops),
   option_map summary (scalar_product woff aoff s c),
   match c with Some c0 => option_map summary (center_single_site woff aoff s c0) | None => None end,
   (next_wire s, next_atom s),
   tp_hyp woff aoff s ops && tp_result_ok woff aoff s ops).
