(* Model of the singular-value selection in pytreenet/util/tensor_splitting.py:
     SVDParameters.check_truncation_parameters, value_truncation, _sum_truncation_index,
     sum_truncation, truncate_singular_values, renormalise_singular_values.
   Spectra are lists of rationals (the exact values of the doubles); tolerances are IEEE-like
   extended rationals (nan, -inf, finite, +inf); max_bond_dim is a Python int or float('inf').
   Definitions only; the proofs are in SelectProofs.v. *)
From Coq Require Import QArith List Bool Arith ZArith.
Import ListNotations.
Local Open Scope Q_scope.

(* ---- extended rationals with the float comparison semantics ---------------------- *)
Inductive ext := NaN | NegInf | Fin (q : Q) | PosInf.

Definition Qltb (x y : Q) : bool := negb (Qle_bool y x).

(* float `a > b`: False as soon as one side is nan *)
Definition ext_gtb (a b : ext) : bool :=
  match a, b with
  | NaN, _ | _, NaN => false
  | PosInf, PosInf => false
  | PosInf, _ => true
  | _, PosInf => false
  | NegInf, _ => false
  | Fin _, NegInf => true
  | Fin x, Fin y => Qltb y x
  end.

(* float `a < b` *)
Definition ext_ltb (a b : ext) : bool := ext_gtb b a.

(* Python's builtin max(a, b): the first argument unless the second is strictly greater
   (so max(nan, b) = nan and max(a, nan) = a) *)
Definition py_max (a b : ext) : ext := if ext_gtb b a then b else a.

(* rel_tol * s[0] : an extended float times a finite one; inf * 0 = nan *)
Definition ext_mul_q (a : ext) (x : Q) : ext :=
  match a with
  | NaN => NaN
  | Fin q => Fin (q * x)
  | PosInf => if Qltb 0 x then PosInf else if Qltb x 0 then NegInf else NaN
  | NegInf => if Qltb 0 x then NegInf else if Qltb x 0 then PosInf else NaN
  end.

(* total_tol ** 2 *)
Definition ext_sq (a : ext) : ext :=
  match a with NaN => NaN | Fin q => Fin (q * q) | _ => PosInf end.

(* numpy `x > cutoff` for a finite x *)
Definition above (c : ext) (x : Q) : bool := ext_gtb (Fin x) c.

(* ---- value rule ------------------------------------------------------------------ *)
(* min_singular_value_cutoff = max(rel_tol * s[0], total_tol) *)
Definition cutoff (rel tot : ext) (s0 : Q) : ext := py_max (ext_mul_q rel s0) tot.

(* s[s > cutoff]  (boolean mask: a filter, whatever the order of s) *)
Definition value_truncation (s : list Q) (tot rel : ext) : list Q :=
  match s with
  | [] => []                       (* s[0] raises IndexError; excluded by the caller *)
  | s0 :: _ => filter (above (cutoff rel tot s0)) s
  end.

(* ---- sum rule -------------------------------------------------------------------- *)
Definition sumsq (l : list Q) : Q := fold_right (fun x a => x * x + a) 0 l.
Definition qsum (l : list Q) : Q := fold_right Qplus 0 l.

(* the loop `for i, s_val in enumerate(reversed(s))` with its running trunc_sum; n = len(s) *)
Fixpoint sum_loop (normsq : Q) (norming : bool) (thresh : ext) (n : nat)
         (rs : list Q) (i : nat) (acc : Q) : nat :=
  match rs with
  | [] => 0%nat                                             (* "all singular values are truncated" *)
  | x :: r =>
      let acc' := acc + x * x in
      let comp := if norming then acc' / normsq else acc' in
      if ext_gtb (Fin comp) thresh then (n - i)%nat
      else sum_loop normsq norming thresh n r (S i) acc'
  end.

Definition sum_truncation_index (s : list Q) (tot : ext) (norming : bool) : nat :=
  let normsq := sumsq s in
  if Qeq_bool normsq 0 then 0%nat
  else sum_loop normsq norming (ext_sq tot) (length s) (rev s) 0%nat 0.

Definition sum_truncation (s : list Q) (tot : ext) (norming : bool) : list Q :=
  firstn (sum_truncation_index s tot norming) s.

(* ---- truncate_singular_values ---------------------------------------------------- *)
Inductive bond := BFin (m : nat) | BInf.

Record params := { max_bond : bond; rel_tol : ext; total_tol : ext;
                   renorm : bool; sum_trunc : bool; sum_renorm : bool }.

(* len(s_temp) > max_bond_dim ; an int is never > float('inf') *)
Definition exceeds (len : nat) (b : bond) : bool :=
  match b with BFin m => (m <? len)%nat | BInf => false end.

Definition bond_take (b : bond) (l : list Q) : list Q :=
  match b with BFin m => firstn m l | BInf => l end.
Definition bond_drop (b : bond) (l : list Q) : list Q :=
  match b with BFin m => skipn m l | BInf => [] end.

Definition s_temp (p : params) (s : list Q) : list Q :=
  if sum_trunc p then sum_truncation s (total_tol p) (sum_renorm p)
  else value_truncation s (total_tol p) (rel_tol p).

(* (new_s before renormalisation, s_trunc) *)
Definition select (p : params) (s : list Q) : list Q * list Q :=
  let t := s_temp p s in
  if exceeds (length t) (max_bond p) then (bond_take (max_bond p) t, bond_drop (max_bond p) s)
  else if (length t =? 0)%nat then (firstn 1 s, skipn 1 s)
  else (t, skipn (length t) s).

(* renormalise_singular_values: new_s unchanged when its sum is 0 (the guard added by the repair
   db7fff1; before it the result was 0/0 = nan), else new_s * norm_old / norm_new *)
Definition renormalise (s new_s : list Q) : list Q :=
  let a := qsum s in
  let b := qsum new_s in
  if Qeq_bool b 0 then new_s else map (fun x => x * a / b) new_s.

(* None: ValueError("No singular values to truncate!") *)
Definition truncate (p : params) (s : list Q) : option (list Q * list Q) :=
  match s with
  | [] => None
  | _ => let '(k, d) := select p s in
         Some (if renorm p then renormalise s k else k, d)
  end.

(* ---- SVDParameters.check_truncation_parameters ----------------------------------- *)
(* what max_bond_dim can be: a Python int (bool included), float('inf'), anything else *)
Inductive mbd_arg := MInt (z : Z) | MInf | MOther.
(* RaiseValue 0/1/2: the ValueError names max_bond_dim / rel_tol / total_tol *)
Inductive verdict := Accept | RaiseType | RaiseValue (which : nat).

Definition tol_rejected (t : ext) : bool :=
  ext_ltb t (Fin 0) && negb (match t with NegInf => true | _ => false end).

Definition validate (m : mbd_arg) (rel tot : ext) : verdict :=
  match m with
  | MOther => RaiseType
  | MInt z => if (z <=? 0)%Z then RaiseValue 0
              else if tol_rejected rel then RaiseValue 1
              else if tol_rejected tot then RaiseValue 2 else Accept
  | MInf => if tol_rejected rel then RaiseValue 1
            else if tol_rejected tot then RaiseValue 2 else Accept
  end.

Definition bond_of (m : mbd_arg) : option bond :=
  match m with MInt z => Some (BFin (Z.to_nat z)) | MInf => Some BInf | MOther => None end.
