(* [ext-C10E] proofs for Trunc/ErrorAlg.v: squared Frobenius error of one truncated SVD splitting = squared
   weight of the discarded singular values, exactly, over any commutative ring with a conjugation morphism. *)
From mathcomp Require Import all_ssreflect all_algebra.
From PTN Require Import Trunc.ErrorAlg.
Import GRing.Theory.
Set Implicit Arguments.
Unset Strict Implicit.
Unset Printing Implicit Defensive.
Local Open Scope ring_scope.

Section Proofs.
Variables (R : comRingType) (f : {rmorphism R -> R}).
Local Notation adj := (adj f).
Local Notation frob2 := (frob2 f).
Local Notation weight2 := (weight2 f).

Lemma adjM m n p (A : 'M[R]_(m, n)) (B : 'M[R]_(n, p)) : adj (A *m B) = adj B *m adj A.
Proof. by rewrite /adj map_mxM trmx_mul. Qed.

Lemma adj_diag n (d : 'rV[R]_n) : adj (diag_mx d) = diag_mx (map_mx f d).
Proof. by rewrite /adj map_diag_mx tr_diag_mx. Qed.

Lemma adjB m n (A B : 'M[R]_(m, n)) : adj (A - B) = adj A - adj B.
Proof. by rewrite /adj map_mxB linearB. Qed.

Lemma frob2_diag n (t : 'rV[R]_n) : frob2 (diag_mx t) = weight2 t.
Proof.
rewrite /frob2 adj_diag mulmx_diag mxtrace_diag /weight2.
by apply: eq_bigr => j _; rewrite !mxE.
Qed.

(* an isometry applied on the left / a co-isometry applied on the right does not change the squared norm *)
Lemma frob2_isoL p m n (W : 'M[R]_(p, m)) (E : 'M[R]_(m, n)) :
  adj W *m W = 1%:M -> frob2 (W *m E) = frob2 E.
Proof. by move=> hW; rewrite /frob2 adjM mulmxA -(mulmxA (adj E)) hW mulmx1. Qed.

Lemma frob2_isoR m n p (E : 'M[R]_(m, n)) (W : 'M[R]_(n, p)) :
  W *m adj W = 1%:M -> frob2 (E *m W) = frob2 E.
Proof.
by move=> hW; rewrite /frob2 adjM -mulmxA mxtrace_mulC -!mulmxA hW mulmx1.
Qed.

(* the squared norm of U diag(t) Vh is the squared weight of t *)
Lemma frob2_svd_prod m r n (U : 'M[R]_(m, r)) (t : 'rV[R]_r) (V : 'M[R]_(r, n)) :
  adj U *m U = 1%:M -> V *m adj V = 1%:M -> frob2 (svd_prod U t V) = weight2 t.
Proof.
move=> hU hV; rewrite /svd_prod frob2_isoR // frob2_isoL //.
exact: frob2_diag.
Qed.

Lemma svd_prodB m r n (U : 'M[R]_(m, r)) (s t : 'rV[R]_r) (V : 'M[R]_(r, n)) :
  svd_prod U s V - svd_prod U t V = svd_prod U (s - t) V.
Proof. by rewrite /svd_prod linearB /= mulmxBr mulmxBl. Qed.

Lemma weight2_discarded r k (s : 'rV[R]_r) :
  weight2 (s - keep k s) = \sum_(j < r | (k <= j)%N) f (s 0 j) * s 0 j.
Proof.
rewrite /weight2 [RHS]big_mkcond /=; apply: eq_bigr => j _.
rewrite !mxE ltnNge; case: (k <= j)%N => /=; first by rewrite subr0.
by rewrite subrr mulr0.
Qed.

(* MAIN: squared error of zeroing the singular values of index >= k *)
Theorem trunc_error_zeroed m r n (U : 'M[R]_(m, r)) (s : 'rV[R]_r) (V : 'M[R]_(r, n)) (k : nat) :
  adj U *m U = 1%:M -> V *m adj V = 1%:M ->
  frob2 (svd_prod U s V - svd_prod U (keep k s) V) = \sum_(j < r | (k <= j)%N) f (s 0 j) * s 0 j.
Proof. by move=> hU hV; rewrite svd_prodB frob2_svd_prod // weight2_discarded. Qed.

(* slicing the factors = zeroing the tail of the spectrum *)
Lemma keep_row_mx k d (s : 'rV[R]_(k + d)) : keep k s = row_mx (lsubmx s) 0.
Proof.
apply/rowP => j; rewrite !mxE; case: splitP => j' hj.
  by rewrite mxE; congr (s _ _); apply: val_inj.
by rewrite mxE.
Qed.

Theorem svd_trunc_zeroed m k d n (U : 'M[R]_(m, k + d)) (s : 'rV[R]_(k + d)) (V : 'M[R]_(k + d, n)) :
  svd_trunc U s V = svd_prod U (keep k s) V.
Proof.
rewrite keep_row_mx /svd_trunc /svd_prod -{2}(hsubmxK U) -{2}(vsubmxK V).
by rewrite diag_mx_row mul_row_block !mulmx0 addr0 add0r mul_row_col linear0 mulmx0 mul0mx addr0.
Qed.

Lemma weight2_keep_rsub k d (s : 'rV[R]_(k + d)) : weight2 (s - keep k s) = weight2 (rsubmx s).
Proof.
rewrite /weight2 big_split_ord /= big1 ?add0r.
  by apply: eq_bigr => i _; rewrite !mxE /= ltnNge leq_addr /= subr0.
by move=> i _; rewrite !mxE /= ltn_ord subrr mulr0.
Qed.

(* MAIN, in the shape of the code: the product of the sliced factors differs from the tensor by exactly the
   squared weight of the d discarded singular values s[k:] *)
Theorem trunc_error_sliced m k d n (U : 'M[R]_(m, k + d)) (s : 'rV[R]_(k + d)) (V : 'M[R]_(k + d, n)) :
  adj U *m U = 1%:M -> V *m adj V = 1%:M ->
  frob2 (svd_prod U s V - svd_trunc U s V) = weight2 (rsubmx s).
Proof. by move=> hU hV; rewrite svd_trunc_zeroed svd_prodB frob2_svd_prod // weight2_keep_rsub. Qed.

(* absorbing the singular values on either side (or half on each) does not change the product *)
Lemma contr_prod m r n (U : 'M[R]_(m, r)) (a b s : 'rV[R]_r) (V : 'M[R]_(r, n)) :
  (forall j, a 0 j * b 0 j = s 0 j) -> contr_left U a *m contr_right b V = svd_prod U s V.
Proof.
move=> hab; rewrite /contr_left /contr_right /svd_prod mulmxA -(mulmxA U) mulmx_diag.
by congr (_ *m diag_mx _ *m _); apply/rowP => j; rewrite mxE hab.
Qed.

(* centre gauge: the rest of the network acts on the split tensor as an isometry on the left and a co-isometry
   on the right; the global squared error is the local one *)
Theorem trunc_error_in_context p q m k d n (Wl : 'M[R]_(p, m)) (Wr : 'M[R]_(n, q))
    (U : 'M[R]_(m, k + d)) (s : 'rV[R]_(k + d)) (V : 'M[R]_(k + d, n)) :
  adj Wl *m Wl = 1%:M -> Wr *m adj Wr = 1%:M -> adj U *m U = 1%:M -> V *m adj V = 1%:M ->
  frob2 (Wl *m svd_prod U s V *m Wr - Wl *m svd_trunc U s V *m Wr) = weight2 (rsubmx s).
Proof.
move=> hl hr hU hV; rewrite -mulmxBl -mulmxBr frob2_isoR // frob2_isoL //.
exact: trunc_error_sliced.
Qed.

(* Pythagoras: kept and discarded parts are orthogonal, so the truncated tensor is not longer than the tensor *)
Theorem trunc_pythagoras m k d n (U : 'M[R]_(m, k + d)) (s : 'rV[R]_(k + d)) (V : 'M[R]_(k + d, n)) :
  adj U *m U = 1%:M -> V *m adj V = 1%:M ->
  frob2 (svd_prod U s V) = frob2 (svd_trunc U s V) + weight2 (rsubmx s) /\
  frob2 (svd_trunc U s V) = weight2 (lsubmx s).
Proof.
move=> hU hV; rewrite svd_trunc_zeroed !frob2_svd_prod //.
have ->: weight2 (keep k s) = weight2 (lsubmx s).
  rewrite keep_row_mx /weight2 big_split_ord /= [X in _ + X]big1 ?addr0.
    by apply: eq_bigr => i _; rewrite row_mxEl.
  by move=> i _; rewrite row_mxEr mxE mulr0.
split=> //; rewrite -{1}(hsubmxK s) /weight2 big_split_ord /=; congr (_ + _).
  by apply: eq_bigr => i _; rewrite row_mxEl.
by apply: eq_bigr => i _; rewrite row_mxEr.
Qed.

(* ---- the projector form (recursive_truncation) ------------------------------------------------------------ *)
Lemma adj_lsub_iso m k d (U : 'M[R]_(m, k + d)) : adj U *m U = 1%:M ->
  adj (lsubmx U) *m lsubmx U = 1%:M /\ adj (lsubmx U) *m rsubmx U = 0.
Proof.
move=> h; move: (h); rewrite -{1 2}(hsubmxK U) /adj map_row_mx tr_row_mx mul_col_row scalar_mx_block.
by case/eq_block_mx => h1 h2 _ _.
Qed.

Lemma svd_prod_split m k d n (U : 'M[R]_(m, k + d)) (s : 'rV[R]_(k + d)) (V : 'M[R]_(k + d, n)) :
  svd_prod U s V = svd_trunc U s V + svd_prod (rsubmx U) (rsubmx s) (dsubmx V).
Proof.
rewrite /svd_trunc /svd_prod -{1}(hsubmxK U) -{1}(hsubmxK s) -{1}(vsubmxK V).
by rewrite diag_mx_row mul_row_block !mulmx0 addr0 add0r mul_row_col.
Qed.

(* the projector pair of recursive_truncation: P = u[..., :k]; P P^dagger applied to the tensor on the split leg
   gives the product of the truncated factors *)
Theorem projector_is_truncation m k d n (U : 'M[R]_(m, k + d)) (s : 'rV[R]_(k + d)) (V : 'M[R]_(k + d, n)) :
  adj U *m U = 1%:M ->
  lsubmx U *m adj (lsubmx U) *m svd_prod U s V = svd_trunc U s V.
Proof.
move=> /adj_lsub_iso [h1 h0]; rewrite svd_prod_split mulmxDr /svd_trunc /svd_prod.
rewrite -!mulmxA (mulmxA (adj _) (lsubmx U)) h1 mul1mx.
by rewrite (mulmxA (adj _) (rsubmx U)) h0 mul0mx mulmx0 addr0.
Qed.

Theorem projector_error m k d n (U : 'M[R]_(m, k + d)) (s : 'rV[R]_(k + d)) (V : 'M[R]_(k + d, n)) :
  adj U *m U = 1%:M -> V *m adj V = 1%:M ->
  let A := svd_prod U s V in let P := lsubmx U in
  frob2 (A - P *m adj P *m A) = weight2 (rsubmx s).
Proof. by move=> hU hV /=; rewrite projector_is_truncation // trunc_error_sliced. Qed.
End Proofs.

(* ---- the two concrete readings ------------------------------------------------------------------------- *)
(* (1) any commutative ring, transposes standing for adjoints (exact for real tensors) *)
Section Transpose.
Variable R : comRingType.

Lemma adj_id m n (A : 'M[R]_(m, n)) : adj [rmorphism of idfun] A = A^T.
Proof. by rewrite /adj; congr (_^T); apply/matrixP => i j; rewrite mxE. Qed.

Theorem trunc_error_transpose m k d n (U : 'M[R]_(m, k + d)) (s : 'rV[R]_(k + d)) (V : 'M[R]_(k + d, n)) :
  U^T *m U = 1%:M -> V *m V^T = 1%:M ->
  let A := U *m diag_mx s *m V in
  let Ak := lsubmx U *m diag_mx (lsubmx s) *m usubmx V in
  \tr ((A - Ak)^T *m (A - Ak)) = \sum_j (rsubmx s) 0 j ^+ 2.
Proof.
move=> hU hV /=.
have := @trunc_error_sliced R [rmorphism of idfun] m k d n U s V.
by rewrite /frob2 !adj_id => /(_ hU hV) ->.
Qed.

Theorem trunc_error_transpose_zeroed m r n (U : 'M[R]_(m, r)) (s : 'rV[R]_r) (V : 'M[R]_(r, n)) (k : nat) :
  U^T *m U = 1%:M -> V *m V^T = 1%:M ->
  let A := U *m diag_mx s *m V in
  let Ak := U *m diag_mx (\row_j (if (j < k)%N then s 0 j else 0)) *m V in
  \tr ((A - Ak)^T *m (A - Ak)) = \sum_(j < r | (k <= j)%N) s 0 j ^+ 2.
Proof.
move=> hU hV /=.
have := @trunc_error_zeroed R [rmorphism of idfun] m r n U s V k.
by rewrite /frob2 !adj_id => /(_ hU hV) ->.
Qed.

Theorem trunc_error_transpose_context p q m k d n (Wl : 'M[R]_(p, m)) (Wr : 'M[R]_(n, q))
    (U : 'M[R]_(m, k + d)) (s : 'rV[R]_(k + d)) (V : 'M[R]_(k + d, n)) :
  Wl^T *m Wl = 1%:M -> Wr *m Wr^T = 1%:M -> U^T *m U = 1%:M -> V *m V^T = 1%:M ->
  let A := U *m diag_mx s *m V in
  let Ak := lsubmx U *m diag_mx (lsubmx s) *m usubmx V in
  let E := Wl *m A *m Wr - Wl *m Ak *m Wr in
  \tr (E^T *m E) = \sum_j (rsubmx s) 0 j ^+ 2.
Proof.
move=> hl hr hU hV /=.
have := @trunc_error_in_context R [rmorphism of idfun] p q m k d n Wl Wr U s V.
by rewrite /frob2 !adj_id => /(_ hl hr hU hV) ->.
Qed.
End Transpose.

(* (2) complex scalars (any numClosedFieldType), conjugate transposes *)
Section Complex.
Import Num.Theory.
Variable C : numClosedFieldType.
Local Notation "A ^*t" := ((map_mx (@conjC C) A)^T) (at level 8, format "A ^*t").

Lemma weight2_conj d (s : 'rV[C]_d) : weight2 [rmorphism of (@conjC C)] s = \sum_j `|s 0 j| ^+ 2.
Proof. by apply: eq_bigr => j _; rewrite normCK mulrC. Qed.

Theorem trunc_error_complex m k d n (U : 'M[C]_(m, k + d)) (s : 'rV[C]_(k + d)) (V : 'M[C]_(k + d, n)) :
  U^*t *m U = 1%:M -> V *m V^*t = 1%:M ->
  let A := U *m diag_mx s *m V in
  let Ak := lsubmx U *m diag_mx (lsubmx s) *m usubmx V in
  \tr ((A - Ak)^*t *m (A - Ak)) = \sum_j `|(rsubmx s) 0 j| ^+ 2.
Proof.
move=> hU hV /=; rewrite -weight2_conj.
exact: (@trunc_error_sliced C [rmorphism of (@conjC C)] m k d n U s V hU hV).
Qed.

Theorem trunc_error_complex_context p q m k d n (Wl : 'M[C]_(p, m)) (Wr : 'M[C]_(n, q))
    (U : 'M[C]_(m, k + d)) (s : 'rV[C]_(k + d)) (V : 'M[C]_(k + d, n)) :
  Wl^*t *m Wl = 1%:M -> Wr *m Wr^*t = 1%:M -> U^*t *m U = 1%:M -> V *m V^*t = 1%:M ->
  let A := U *m diag_mx s *m V in
  let Ak := lsubmx U *m diag_mx (lsubmx s) *m usubmx V in
  let E := Wl *m A *m Wr - Wl *m Ak *m Wr in
  \tr (E^*t *m E) = \sum_j `|(rsubmx s) 0 j| ^+ 2.
Proof.
move=> hl hr hU hV /=; rewrite -weight2_conj.
exact: (@trunc_error_in_context C [rmorphism of (@conjC C)] p q m k d n Wl Wr U s V hl hr hU hV).
Qed.
End Complex.

(* ---- non-vacuity: rectangular isometries over the integers ----------------------------------------------- *)
Section Example.
Local Open Scope ring_scope.
(* U = (1 0; 0 1; 0 0) is 3 x 2, Vh = (1 0 0 0; 0 1 0 0) is 2 x 4, s = (3, 2), one value kept *)
Definition ex_U : 'M[int]_(2 + 1, 1 + 1) := col_mx 1%:M 0.
Definition ex_V : 'M[int]_(1 + 1, 2 + 2) := row_mx 1%:M 0.
Definition ex_s : 'rV[int]_(1 + 1) := row_mx (const_mx 3) (const_mx 2).

Lemma ex_U_iso : ex_U^T *m ex_U = 1%:M.
Proof. by rewrite /ex_U tr_col_mx mul_row_col trmx1 mulmx1 trmx0 mul0mx addr0. Qed.
Lemma ex_V_iso : ex_V *m ex_V^T = 1%:M.
Proof. by rewrite /ex_V tr_row_mx mul_row_col trmx1 mulmx1 trmx0 mulmx0 addr0. Qed.

Lemma ex_error :
  let A := ex_U *m diag_mx ex_s *m ex_V in
  let Ak := lsubmx ex_U *m diag_mx (lsubmx ex_s) *m usubmx ex_V in
  \tr ((A - Ak)^T *m (A - Ak)) = 4 /\ A != Ak.
Proof.
have h := @trunc_error_transpose _ _ _ _ _ ex_U ex_s ex_V ex_U_iso ex_V_iso.
have e : \tr ((ex_U *m diag_mx ex_s *m ex_V - lsubmx ex_U *m diag_mx (lsubmx ex_s) *m usubmx ex_V)^T *m
              (ex_U *m diag_mx ex_s *m ex_V - lsubmx ex_U *m diag_mx (lsubmx ex_s) *m usubmx ex_V)) = 4 :> int.
  by rewrite h /ex_s row_mxKr big_ord1 mxE.
split=> //=; apply/eqP => hA; move: e; rewrite hA subrr trmx0 mul0mx mxtrace0.
by [].
Qed.
End Example.

(* ---- the projector pair of recursive_truncation, and "truncation never lengthens", in the two readings ---------- *)
Section TransposeProj.
Variable R : comRingType.
Theorem projector_error_transpose m k d n (U : 'M[R]_(m, k + d)) (s : 'rV[R]_(k + d)) (V : 'M[R]_(k + d, n)) :
  U^T *m U = 1%:M -> V *m V^T = 1%:M ->
  let A := U *m diag_mx s *m V in
  let P := lsubmx U in
  P *m P^T *m A = P *m diag_mx (lsubmx s) *m usubmx V /\
  \tr ((A - P *m P^T *m A)^T *m (A - P *m P^T *m A)) = \sum_j (rsubmx s) 0 j ^+ 2.
Proof.
move=> hU hV /=.
have h1 := @projector_is_truncation R [rmorphism of idfun] m k d n U s V.
have h2 := @projector_error R [rmorphism of idfun] m k d n U s V.
by move: h1 h2; rewrite /frob2 !adj_id => /(_ hU) h1 /(_ hU hV) /= h2; split; [exact: h1 | exact: h2].
Qed.
End TransposeProj.

Section ComplexOrder.
Import Num.Theory.
Variable C : numClosedFieldType.
Local Notation "A ^*t" := ((map_mx (@conjC C) A)^T) (at level 8, format "A ^*t").

Theorem projector_error_complex m k d n (U : 'M[C]_(m, k + d)) (s : 'rV[C]_(k + d)) (V : 'M[C]_(k + d, n)) :
  U^*t *m U = 1%:M -> V *m V^*t = 1%:M ->
  let A := U *m diag_mx s *m V in
  let P := lsubmx U in
  P *m P^*t *m A = P *m diag_mx (lsubmx s) *m usubmx V /\
  \tr ((A - P *m P^*t *m A)^*t *m (A - P *m P^*t *m A)) = \sum_j `|(rsubmx s) 0 j| ^+ 2.
Proof.
move=> hU hV /=; split.
  exact: (@projector_is_truncation C [rmorphism of (@conjC C)] m k d n U s V hU).
rewrite -weight2_conj.
exact: (@projector_error C [rmorphism of (@conjC C)] m k d n U s V hU hV).
Qed.

(* without renormalisation a truncation never lengthens the tensor; the squared norms are the kept / total weights *)
Theorem trunc_norm_le_complex m k d n (U : 'M[C]_(m, k + d)) (s : 'rV[C]_(k + d)) (V : 'M[C]_(k + d, n)) :
  U^*t *m U = 1%:M -> V *m V^*t = 1%:M ->
  let A := U *m diag_mx s *m V in
  let Ak := lsubmx U *m diag_mx (lsubmx s) *m usubmx V in
  \tr (A^*t *m A) = \tr (Ak^*t *m Ak) + \sum_j `|(rsubmx s) 0 j| ^+ 2 /\
  \tr (Ak^*t *m Ak) <= \tr (A^*t *m A).
Proof.
move=> hU hV /=.
have [h1 _] := @trunc_pythagoras C [rmorphism of (@conjC C)] m k d n U s V hU hV.
move: h1; rewrite weight2_conj /frob2 /svd_trunc /svd_prod /adj => h1; split=> //.
by rewrite h1 ler_addl sumr_ge0 // => j _; rewrite exprn_ge0.
Qed.
End ComplexOrder.
