(* [ext-C10E] proofs for Trunc/ErrorSelect.v *)
From Coq Require Import QArith List Bool Arith Lia Lqa Sorted.
From PTN Require Import Trunc.Select Trunc.SelectProofs Trunc.ErrorSelect.
Import ListNotations.
Local Open Scope Q_scope.

Lemma bmin_cap b n : cap_not_binding b n -> bmin b n = n.
Proof. destruct b; cbn; intros; lia. Qed.

Lemma gt_fin_fin_false a t : ext_gtb (Fin a) (Fin t) = false <-> a <= t.
Proof. cbn. apply Qltb_ge. Qed.

Lemma skipn_skipn_le {A} (l : list A) j k : (j <= k)%nat -> skipn k l = skipn (k - j) (skipn j l).
Proof. intros L. rewrite skipn_plus. f_equal. lia. Qed.

Lemma Forall_skipn {A} (P : A -> Prop) n l : Forall P l -> Forall P (skipn n l).
Proof.
  revert l; induction n as [|n IH]; intros l H; [exact H|].
  destruct l; [constructor|]. inversion H; subst. cbn. auto.
Qed.

(* ---- sum mode ---------------------------------------------------------------------------------------- *)
Section SumMode.
Variables (p : params) (s : list Q).
Hypothesis Hm : sum_trunc p = true.
Hypothesis Hne : s <> [].
Hypothesis Hb : bond_ok (max_bond p).
Let K := sum_truncation_index s (total_tol p) (sum_renorm p).
Let k := Nat.max 1 (bmin (max_bond p) K).

Lemma sum_discarded : discarded p s = skipn k s.
Proof.
  unfold discarded. destruct (sum_rule p s Hm Hne Hb) as (E & _). cbv zeta in E. fold K in E. fold k in E.
  now rewrite E.
Qed.

(* the weight (as the code measures it) of what is discarded does not exceed total_tol**2 in the float
   comparison, whenever max_bond_dim does not cut deeper than the tolerance *)
Lemma sum_not_exceeding : cap_not_binding (max_bond p) K -> ~ sumsq s == 0 ->
  ext_gtb (Fin (tail_weight s (sum_renorm p) k)) (ext_sq (total_tol p)) = false.
Proof.
  intros Hc Hnz. destruct (sum_rule p s Hm Hne Hb) as (_ & _ & _ & Hiff). cbv zeta in Hiff. fold K in Hiff.
  specialize (Hiff Hnz k).
  destruct (ext_gtb (Fin (tail_weight s (sum_renorm p) k)) (ext_sq (total_tol p))) eqn:E; auto.
  assert (k < K)%nat as L by (apply Hiff; reflexivity).
  unfold k in L. rewrite bmin_cap in L by exact Hc. lia.
Qed.

Lemma sum_error_bound t : total_tol p = Fin t -> cap_not_binding (max_bond p) K ->
  (sum_renorm p = false -> sq_error p s <= t * t) /\
  (sum_renorm p = true -> sq_error p s <= t * t * sumsq s).
Proof.
  intros Ht Hc. unfold sq_error. rewrite sum_discarded.
  pose proof (sumsq_nonneg s) as Hs0.
  assert (sumsq (skipn k s) <= sumsq s) as Hle.
  { rewrite <- (firstn_skipn k s) at 2. rewrite sumsq_app. pose proof (sumsq_nonneg (firstn k s)). lra. }
  pose proof (sumsq_nonneg (skipn k s)) as Hd0.
  pose proof (Qsq_nonneg t) as Ht0.
  destruct (Qeq_dec (sumsq s) 0) as [Z|NZ].
  - split; intros _; [lra|]. rewrite Z. lra.
  - pose proof (sum_not_exceeding Hc NZ) as F. rewrite Ht in F. cbn [ext_sq] in F.
    apply gt_fin_fin_false in F. unfold tail_weight, weight in F.
    split; intros Hr; rewrite Hr in F; [exact F|].
    assert (0 < sumsq s) as Hpos by lra.
    assert (sumsq (skipn k s) == sumsq (skipn k s) / sumsq s * sumsq s) as E by (field; exact NZ).
    rewrite E. apply Qmult_le_compat_r; lra.
Qed.

(* the hypothesis on max_bond_dim is necessary: when the cap cuts deeper, the discarded weight EXCEEDS the tolerance *)
Lemma sum_cap_binding_exceeds m : max_bond p = BFin m -> (m < K)%nat ->
  ext_gtb (Fin (tail_weight s (sum_renorm p) k)) (ext_sq (total_tol p)) = true.
Proof.
  intros Em L. destruct (sum_rule p s Hm Hne Hb) as (_ & _ & Hz & Hiff). cbv zeta in Hz, Hiff. fold K in Hz, Hiff.
  destruct (Qeq_dec (sumsq s) 0) as [Z|NZ]; [apply Hz in Z; lia|].
  apply (Hiff NZ). unfold k. rewrite Em. cbn [bmin]. rewrite Em in Hb. cbn [bond_ok] in Hb. lia.
Qed.

(* a tolerance nan, -inf or +inf: total_tol**2 is nan or +inf, no tail ever exceeds it, everything but the first value goes *)
Lemma sum_nonfinite_keeps_one : nonfinite (total_tol p) -> select p s = (firstn 1 s, skipn 1 s).
Proof.
  intros Hn. destruct (sum_rule p s Hm Hne Hb) as (E & _ & Hz & Hiff). cbv zeta in E, Hz, Hiff. fold K in E, Hz, Hiff.
  assert (K = 0%nat) as K0.
  { destruct (Qeq_dec (sumsq s) 0) as [Z|NZ]; [auto|].
    destruct K eqn:EK; auto. exfalso.
    assert (0 < S n)%nat as L by lia. apply (Hiff NZ) in L.
    destruct Hn as [H|[H|H]]; rewrite H in L; cbn in L; discriminate. }
  rewrite E, K0. destruct (max_bond p); cbn; rewrite ?Nat.min_0_r; reflexivity.
Qed.
End SumMode.

(* ---- value mode -------------------------------------------------------------------------------------- *)
Section ValueMode.
Variables (p : params) (s0 : Q) (r : list Q).
Hypothesis Hm : sum_trunc p = false.
Hypothesis Hd : descending (s0 :: r).
Hypothesis Hb : bond_ok (max_bond p).
Let s := s0 :: r.
Let c := cutoff (rel_tol p) (total_tol p) s0.
Let n := length (filter (above c) s).
Let k := Nat.max 1 (bmin (max_bond p) n).

Lemma value_discarded : discarded p s = skipn k s.
Proof.
  unfold discarded. destruct (value_rule p s0 r Hm Hd Hb) as (E & _). cbv zeta in E. fold s c n k in E.
  fold s. now rewrite E.
Qed.

(* nothing above the cutoff is discarded, as long as max_bond_dim does not bind *)
Lemma value_discarded_not_above : cap_not_binding (max_bond p) n ->
  Forall (fun x => above c x = false) (discarded p s).
Proof.
  intros Hc. rewrite value_discarded.
  destruct (value_rule p s0 r Hm Hd Hb) as (_ & _ & F). cbv zeta in F. fold s c n in F.
  assert (n <= k)%nat as L by (unfold k; rewrite bmin_cap by exact Hc; lia).
  rewrite (skipn_skipn_le s n k L). now apply Forall_skipn.
Qed.

Lemma value_discarded_below t : c = Fin t -> cap_not_binding (max_bond p) n ->
  Forall (fun x => x <= t) (discarded p s).
Proof.
  intros Ec Hc. pose proof (value_discarded_not_above Hc) as F. rewrite Ec in F.
  eapply Forall_impl; [|exact F]. cbn. intros x Hx. unfold above in Hx.
  now apply gt_fin_fin_false in Hx.
Qed.

(* a nan cutoff (rel_tol nan, or rel_tol = +-inf with s[0] = 0): `s > nan` is all False, one value survives *)
Lemma value_nan_keeps_one : c = NaN -> select p s = (firstn 1 s, skipn 1 s).
Proof.
  intros Ec. destruct (value_rule p s0 r Hm Hd Hb) as (E & _). cbv zeta in E. fold s c n in E.
  assert (n = 0%nat) as N0.
  { unfold n. rewrite Ec. rewrite filter_none; [reflexivity|].
    apply Forall_forall. intros x _. apply above_nan. }
  fold s. rewrite E, N0. destruct (max_bond p); cbn; rewrite ?Nat.min_0_r; reflexivity.
Qed.
End ValueMode.

(* the cutoff for finite tolerances, and for total_tol = -inf ("no absolute tolerance") *)
Lemma cutoff_fin_fin rel tot s0 :
  cutoff (Fin rel) (Fin tot) s0 = Fin (if Qltb (rel * s0) tot then tot else rel * s0).
Proof. unfold cutoff, py_max. cbn. now destruct (Qltb (rel * s0) tot). Qed.

Lemma cutoff_fin_neginf rel s0 : cutoff (Fin rel) NegInf s0 = Fin (rel * s0).
Proof. reflexivity. Qed.

Lemma cutoff_nan_l tot s0 : cutoff NaN tot s0 = NaN.
Proof. unfold cutoff. cbn. apply py_max_nan_l. Qed.

(* sums of values all below a threshold *)
Lemma qsum_le_count t l : Forall (fun x => x <= t) l -> qsum l <= inject_Z (Z.of_nat (length l)) * t.
Proof.
  induction 1 as [|x l Hx _ IH]; [rewrite qsum_nil; change (inject_Z (Z.of_nat (length (@nil Q)))) with 0; lra|].
  rewrite qsum_cons. cbn [length]. rewrite Nat2Z.inj_succ, <- Z.add_1_r, inject_Z_plus.
  set (a := inject_Z (Z.of_nat (length l))) in *. change (inject_Z 1) with 1. nra.
Qed.

Lemma sumsq_le_count t l : Forall (fun x => 0 <= x <= t) l ->
  sumsq l <= inject_Z (Z.of_nat (length l)) * (t * t).
Proof.
  induction 1 as [|x l Hx _ IH]; [rewrite sumsq_nil; change (inject_Z (Z.of_nat (length (@nil Q)))) with 0; lra|].
  rewrite sumsq_cons. cbn [length]. rewrite Nat2Z.inj_succ, <- Z.add_1_r, inject_Z_plus.
  set (a := inject_Z (Z.of_nat (length l))) in *. change (inject_Z 1) with 1.
  assert (x * x <= t * t) by nra. nra.
Qed.

(* value mode, finite tolerances: the whole statement in the terms of the property text *)
Lemma value_error_bound p s0 r rel tot :
  sum_trunc p = false -> descending (s0 :: r) -> bond_ok (max_bond p) ->
  rel_tol p = Fin rel -> total_tol p = Fin tot ->
  let s := s0 :: r in
  let thr := if Qltb (rel * s0) tot then tot else rel * s0 in
  cap_not_binding (max_bond p) (length (filter (above (Fin thr)) s)) ->
  let d := discarded p s in
  Forall (fun x => x <= thr) d /\
  qsum d <= inject_Z (Z.of_nat (length d)) * thr /\
  (Forall (fun x => 0 <= x) s -> sq_error p s <= inject_Z (Z.of_nat (length d)) * (thr * thr) /\
                                 sq_error p s <= qsum d * qsum d).
Proof.
  intros Hm Hd Hb Er Et s thr Hc d.
  assert (cutoff (rel_tol p) (total_tol p) s0 = Fin thr) as Ec by (rewrite Er, Et; apply cutoff_fin_fin).
  assert (Forall (fun x => x <= thr) d) as F.
  { apply (value_discarded_below p s0 r Hm Hd Hb thr Ec). now rewrite Ec. }
  split; [exact F|]. split; [now apply qsum_le_count|].
  intros Hnn. unfold sq_error. fold s. fold d.
  assert (Forall (fun x => 0 <= x) d) as Fd.
  { unfold d, s. rewrite (value_discarded p s0 r Hm Hd Hb). now apply Forall_skipn. }
  split; [|now apply sumsq_le_sq_sum].
  apply sumsq_le_count. apply Forall_forall. intros x Hx.
  rewrite Forall_forall in F, Fd. split; auto.
Qed.

(* without renormalisation truncate returns exactly the kept prefix and the discarded suffix, s = kept ++ discarded *)
Lemma truncate_no_renorm_split p s : s <> [] -> renorm p = false -> descending s -> bond_ok (max_bond p) ->
  exists kept, truncate p s = Some (kept, discarded p s) /\ s = kept ++ discarded p s /\ kept <> [].
Proof.
  intros Hne Hr Hd Hb. exists (fst (select p s)). split; [now apply no_renorm|].
  destruct (select_spec p s Hne Hd Hb) as (Hk & E1 & E2 & _). cbv zeta in *.
  unfold discarded. split.
  - rewrite E1 at 1. rewrite E2. symmetry. apply firstn_skipn.
  - intros E. rewrite E in Hk. cbn in Hk. lia.
Qed.

(* packaged forms used by Props/C10.v *)
Lemma sum_cap_binding_exceeds_m p s m :
  sum_trunc p = true -> s <> [] -> bond_ok (max_bond p) -> max_bond p = BFin m ->
  (m < sum_truncation_index s (total_tol p) (sum_renorm p))%nat ->
  discarded p s = skipn m s /\
  ext_gtb (Fin (tail_weight s (sum_renorm p) m)) (ext_sq (total_tol p)) = true.
Proof.
  intros Hm Hne Hb Em L.
  assert (Nat.max 1 (bmin (max_bond p) (sum_truncation_index s (total_tol p) (sum_renorm p))) = m) as Ek.
  { rewrite Em. cbn [bmin]. rewrite Em in Hb. cbn [bond_ok] in Hb. lia. }
  pose proof (sum_discarded p s Hm Hne Hb) as D. pose proof (sum_cap_binding_exceeds p s Hm Hne Hb m Em L) as X.
  rewrite Ek in D, X. auto.
Qed.

Lemma value_discarded_summary p s0 r :
  sum_trunc p = false -> descending (s0 :: r) -> bond_ok (max_bond p) ->
  let s := s0 :: r in
  let c := cutoff (rel_tol p) (total_tol p) s0 in
  cap_not_binding (max_bond p) (length (filter (above c) s)) ->
  Forall (fun x => above c x = false) (discarded p s) /\
  (forall t, c = Fin t -> Forall (fun x => x <= t) (discarded p s)) /\
  (forall rel, rel_tol p = Fin rel -> total_tol p = NegInf -> c = Fin (rel * s0)).
Proof.
  intros Hm Hd Hb s c Hc. split; [now apply value_discarded_not_above|]. split.
  - intros t Et. now apply value_discarded_below.
  - intros rel Er Et. unfold c. rewrite Er, Et. apply cutoff_fin_neginf.
Qed.
