(* [ext-C10E] Layer B of the truncation error bound (property C10): what the selection rule of
   truncate_singular_values (model Trunc/Select.v) implies about the size of what it discards.
   Definitions only; proofs in ErrorSelectProofs.v.

   `sq_error p s` -- the squared error of ONE truncation without renormalisation -- is DEFINED as the squared
   weight of the discarded values; Trunc/ErrorAlgProofs.v (trunc_error_sliced) proves that this is the squared
   Frobenius distance between the tensor and the product of the truncated factors. *)
From Coq Require Import QArith List Bool Arith.
From PTN Require Import Trunc.Select.
Import ListNotations.
Local Open Scope Q_scope.

(* the values truncate_singular_values drops (second component of its result) *)
Definition discarded (p : params) (s : list Q) : list Q := snd (select p s).

Definition sq_error (p : params) (s : list Q) : Q := sumsq (discarded p s).

(* max_bond_dim does not cut below what the tolerance criterion selects (n = length of s_temp) *)
Definition cap_not_binding (b : bond) (n : nat) : Prop :=
  match b with BFin m => (n <= m)%nat | BInf => True end.

(* a tolerance that is not a finite number: nan, -inf, +inf *)
Definition nonfinite (t : ext) : Prop := t = NaN \/ t = NegInf \/ t = PosInf.
