(* [ext-C10E] Layer A of the truncation error bound (property C10): the objects of ONE truncated singular
   value splitting as matrices over a commutative ring, MathComp 1.15 (ssreflect style).  Definitions only;
   the proofs are in ErrorAlgProofs.v.

   Modelling choices.
   * Scalars: any commutative ring R together with a ring morphism `f : R -> R` standing for complex
     conjugation.  `adj A` = transpose of the entrywise image under f.  With f = idfun this is the plain
     transpose (real case, or "transposes standing for adjoints"); with f = conjC over a numClosedFieldType it is
     the conjugate transpose.  No property of f beyond being a ring morphism is used.
   * A tensor split along a leg bipartition is the matrix whose rows are the u-legs and whose columns are the
     v-legs (tensor_svd reshapes exactly so); numpy's svd returns U (m x r), s (r), Vh (r x n).
   * `svd_trunc` is what truncated_tensor_svd returns multiplied out: u[..., :k], s[:k], vh[:k, ...]
     (pytreenet/util/tensor_splitting.py l. 423-428), r written as k + d.
   * the squared Frobenius norm is `\tr (adj A *m A)`; no square root is taken anywhere. *)
From mathcomp Require Import all_ssreflect all_algebra.
Import GRing.Theory.
Set Implicit Arguments.
Unset Strict Implicit.
Unset Printing Implicit Defensive.
Local Open Scope ring_scope.

Section Defs.
Variables (R : comRingType) (f : {rmorphism R -> R}).

Definition adj m n (A : 'M[R]_(m, n)) : 'M[R]_(n, m) := (map_mx f A)^T.

(* squared Frobenius norm *)
Definition frob2 m n (A : 'M[R]_(m, n)) : R := \tr (adj A *m A).

(* squared weight of a vector of singular values: sum of conj(s_j) * s_j *)
Definition weight2 d (s : 'rV[R]_d) : R := \sum_j f (s 0 j) * s 0 j.

(* U . diag(s) . Vh *)
Definition svd_prod m r n (U : 'M[R]_(m, r)) (s : 'rV[R]_r) (V : 'M[R]_(r, n)) : 'M[R]_(m, n) :=
  U *m diag_mx s *m V.

(* the spectrum with the entries of index >= k replaced by 0 *)
Definition keep r (k : nat) (s : 'rV[R]_r) : 'rV[R]_r := \row_j (if (j < k)%N then s 0 j else 0).

(* the product of the SLICED factors u[..., :k], diag(s[:k]), vh[:k, ...] *)
Definition svd_trunc m k d n (U : 'M[R]_(m, k + d)) (s : 'rV[R]_(k + d)) (V : 'M[R]_(k + d, n)) : 'M[R]_(m, n) :=
  svd_prod (lsubmx U) (lsubmx s) (usubmx V).

(* the two tensors contr_truncated_svd_splitting returns, for a splitting a .* b = s of the singular values:
   VCONTR a = 1, b = s; UCONTR a = s, b = 1; EQUAL a = b = sqrt s *)
Definition contr_left m r (U : 'M[R]_(m, r)) (a : 'rV[R]_r) : 'M[R]_(m, r) := U *m diag_mx a.
Definition contr_right r n (b : 'rV[R]_r) (V : 'M[R]_(r, n)) : 'M[R]_(r, n) := diag_mx b *m V.
End Defs.
