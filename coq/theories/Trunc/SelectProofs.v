(* Proofs about the singular-value selection model (Trunc/Select.v). *)
From Coq Require Import QArith List Bool Arith ZArith Lia Lqa Sorted Morphisms.
From PTN Require Import Trunc.Select.
Import ListNotations.
Local Open Scope Q_scope.

(* ---- comparisons ----------------------------------------------------------------- *)
Lemma Qltb_lt x y : Qltb x y = true <-> x < y.
Proof.
  unfold Qltb. rewrite negb_true_iff. split; intros H.
  - destruct (Qlt_le_dec x y) as [L|L]; auto.
    apply Qle_bool_iff in L. congruence.
  - destruct (Qle_bool y x) eqn:E; auto. apply Qle_bool_iff in E. lra.
Qed.

Lemma Qltb_ge x y : Qltb x y = false <-> y <= x.
Proof.
  unfold Qltb. rewrite negb_false_iff. apply Qle_bool_iff.
Qed.

Global Instance Qltb_comp : Proper (Qeq ==> Qeq ==> eq) Qltb.
Proof. intros a b E c d F. unfold Qltb. now rewrite E, F. Qed.

Lemma gt_fin_comp a b t : a == b -> ext_gtb (Fin a) t = ext_gtb (Fin b) t.
Proof. intros E. destruct t; cbn; auto. now rewrite E. Qed.

(* x > t and x <= y  ==>  y > t  (float comparison against a fixed threshold) *)
Lemma gt_fin_mono t a b : a <= b -> ext_gtb (Fin a) t = true -> ext_gtb (Fin b) t = true.
Proof.
  intros L. destruct t; cbn; auto. rewrite !Qltb_lt. lra.
Qed.

Lemma above_mono c x y : x <= y -> above c x = true -> above c y = true.
Proof. apply gt_fin_mono. Qed.

(* x > max(a, b)  <->  x > a and x > b, when the second argument is not nan *)
Lemma above_py_max a b x : b <> NaN -> above (py_max a b) x = above a x && above b x.
Proof.
  intros Hb. unfold above, py_max.
  destruct a as [| |qa|], b as [| |qb|]; try congruence; cbn; auto;
    try (destruct (Qltb _ _); reflexivity).
  destruct (Qltb qa qb) eqn:E; cbn.
  - destruct (Qltb qb x) eqn:F; [|now rewrite andb_false_r].
    rewrite andb_true_r. apply Qltb_lt in E, F. symmetry. apply Qltb_lt. lra.
  - destruct (Qltb qa x) eqn:F; cbn; auto.
    apply Qltb_ge in E. apply Qltb_lt in F. symmetry. apply Qltb_lt. lra.
Qed.

Lemma py_max_nan_r a : py_max a NaN = a.
Proof. unfold py_max. destruct a; reflexivity. Qed.

Lemma py_max_nan_l b : py_max NaN b = NaN.
Proof. unfold py_max. destruct b; reflexivity. Qed.

Lemma above_nan x : above NaN x = false.
Proof. reflexivity. Qed.

(* thresh = total_tol**2 is never below 0 *)
Lemma ext_sq_nonneg t a : a <= 0 -> ext_gtb (Fin a) (ext_sq t) = false.
Proof.
  intros Ha. destruct t; cbn; auto. apply Qltb_ge. nra.
Qed.

(* ---- descending lists and filters ------------------------------------------------ *)
Definition descending (s : list Q) : Prop := StronglySorted (fun a b => b <= a) s.

Lemma filter_none {A} (f : A -> bool) l : Forall (fun x => f x = false) l -> filter f l = [].
Proof. induction 1; cbn; auto. now rewrite H. Qed.

(* on a descending list an upward-closed predicate selects a prefix *)
Lemma desc_filter_split (f : Q -> bool) :
  (forall x y, x <= y -> f x = true -> f y = true) ->
  forall s, descending s ->
  let n := length (filter f s) in
  filter f s = firstn n s /\
  Forall (fun x => f x = true) (firstn n s) /\ Forall (fun x => f x = false) (skipn n s).
Proof.
  intros Hm s Hs. induction Hs as [|a l Hl IH Ha]; cbn.
  - repeat split; constructor.
  - destruct (f a) eqn:E; cbn.
    + destruct IH as (I1 & I2 & I3). repeat split; auto. now f_equal.
    + assert (Forall (fun x => f x = false) l) as Hn.
      { rewrite Forall_forall in *. intros x Hx. destruct (f x) eqn:F; auto.
        rewrite (Hm x a (Ha x Hx) F) in E. discriminate. }
      rewrite (filter_none f l Hn). cbn. repeat split; auto.
Qed.

Lemma filter_length_le {A} (f : A -> bool) l : (length (filter f l) <= length l)%nat.
Proof. induction l; cbn; auto. destruct (f a); cbn; lia. Qed.

Lemma firstn_min {A} k (s : list A) : firstn (Nat.min k (length s)) s = firstn k s.
Proof.
  destruct (Nat.le_ge_cases k (length s)).
  - now rewrite Nat.min_l.
  - rewrite Nat.min_r by auto. now rewrite !firstn_all2 by lia.
Qed.

(* ---- s_temp is a prefix ----------------------------------------------------------- *)
Lemma s_temp_length_le p s : (length (s_temp p s) <= length s)%nat.
Proof.
  unfold s_temp, sum_truncation, value_truncation. destruct (sum_trunc p).
  - rewrite firstn_length. lia.
  - destruct s; [cbn; lia|]. apply filter_length_le.
Qed.

Lemma s_temp_prefix p s : descending s -> s_temp p s = firstn (length (s_temp p s)) s.
Proof.
  intros Hs. unfold s_temp, sum_truncation, value_truncation. destruct (sum_trunc p).
  - rewrite firstn_length. now rewrite firstn_min.
  - destruct s as [|s0 r]; [reflexivity|].
    apply (desc_filter_split _ (above_mono _) _ Hs).
Qed.

(* ---- the clamp and the fallback ---------------------------------------------------- *)
Definition bond_ok (b : bond) : Prop := match b with BFin m => (1 <= m)%nat | BInf => True end.
Definition bmin (b : bond) (n : nat) : nat := match b with BFin m => Nat.min m n | BInf => n end.

(* number of kept values, for any list *)
Lemma select_length p s : s <> [] -> bond_ok (max_bond p) ->
  length (fst (select p s)) = Nat.max 1 (bmin (max_bond p) (length (s_temp p s))).
Proof.
  intros Hne Hb. unfold select. pose proof (s_temp_length_le p s) as Hle.
  set (t := s_temp p s) in *.
  destruct (max_bond p) as [m|]; cbn [exceeds bond_take bond_drop bmin bond_ok] in *.
  - destruct (Nat.ltb_spec m (length t)); cbn [fst].
    + rewrite firstn_length. lia.
    + destruct (Nat.eqb_spec (length t) 0); cbn [fst].
      * destruct s; [congruence|]. cbn [firstn length]. lia.
      * lia.
  - destruct (Nat.eqb_spec (length t) 0); cbn [fst].
    + destruct s; [congruence|]. cbn [firstn length]. lia.
    + lia.
Qed.

(* the kept part is a non-empty prefix no longer than the bond limit; the second component
   is the complementary suffix *)
Lemma select_spec p s : s <> [] -> descending s -> bond_ok (max_bond p) ->
  let k := length (fst (select p s)) in
  (1 <= k <= length s)%nat /\
  fst (select p s) = firstn k s /\ snd (select p s) = skipn k s /\
  (forall m, max_bond p = BFin m -> (k <= m)%nat).
Proof.
  intros Hne Hs Hb. pose proof (select_length p s Hne Hb) as Hlen.
  cbv zeta. rewrite Hlen. clear Hlen.
  pose proof (s_temp_length_le p s) as Hle. pose proof (s_temp_prefix p s Hs) as Hpre.
  unfold select. set (t := s_temp p s) in *.
  assert (1 <= length s)%nat as Hs1 by (destruct s; [congruence|cbn; lia]).
  destruct (max_bond p) as [m|]; cbn [exceeds bond_take bond_drop bmin bond_ok] in *.
  - destruct (Nat.ltb_spec m (length t)); cbn [fst snd].
    + replace (Nat.max 1 (Nat.min m (length t))) with m by lia.
      repeat split; try lia.
      * rewrite Hpre, firstn_firstn. f_equal. lia.
      * intros m' E. injection E as <-. lia.
    + destruct (Nat.eqb_spec (length t) 0); cbn [fst snd].
      * replace (Nat.max 1 (Nat.min m (length t))) with 1%nat by lia.
        repeat split; try lia. intros m' E. injection E as <-. lia.
      * replace (Nat.max 1 (Nat.min m (length t))) with (length t) by lia.
        repeat split; try lia; auto. intros m' E. injection E as <-. lia.
  - destruct (Nat.eqb_spec (length t) 0); cbn [fst snd].
    + replace (Nat.max 1 (length t)) with 1%nat by lia.
      repeat split; try lia. intros m' E. discriminate.
    + replace (Nat.max 1 (length t)) with (length t) by lia.
      repeat split; try lia; auto. intros m' E. discriminate.
Qed.

(* ---- value rule -------------------------------------------------------------------- *)
Lemma value_rule p s0 r : sum_trunc p = false -> descending (s0 :: r) -> bond_ok (max_bond p) ->
  let s := s0 :: r in
  let c := cutoff (rel_tol p) (total_tol p) s0 in
  let n := length (filter (above c) s) in
  let k := Nat.max 1 (bmin (max_bond p) n) in
  select p s = (firstn k s, skipn k s) /\
  Forall (fun x => above c x = true) (firstn n s) /\
  Forall (fun x => above c x = false) (skipn n s).
Proof.
  intros Hv Hs Hb. cbv zeta.
  assert (s_temp p (s0 :: r) = filter (above (cutoff (rel_tol p) (total_tol p) s0)) (s0 :: r)) as Ht.
  { unfold s_temp. rewrite Hv. reflexivity. }
  destruct (select_spec p (s0 :: r) ltac:(discriminate) Hs Hb) as (_ & H1 & H2 & _).
  rewrite (select_length p (s0 :: r) ltac:(discriminate) Hb), Ht in H1, H2.
  split.
  - rewrite (surjective_pairing (select p (s0 :: r))). now rewrite H1, H2.
  - apply (desc_filter_split _ (above_mono _) _ Hs).
Qed.

(* what "strictly above max(rel_tol * s_max, total_tol)" means for the usual parameters *)
Lemma above_cutoff rel tot s0 x : tot <> NaN ->
  above (cutoff rel tot s0) x = above (ext_mul_q rel s0) x && above tot x.
Proof. intros H. unfold cutoff. now apply above_py_max. Qed.

Lemma above_fin t x : above (Fin t) x = true <-> t < x.
Proof. unfold above; cbn. apply Qltb_lt. Qed.

Lemma above_neginf x : above NegInf x = true.
Proof. reflexivity. Qed.

Lemma above_posinf x : above PosInf x = false.
Proof. reflexivity. Qed.

Lemma mul_fin r s0 : ext_mul_q (Fin r) s0 = Fin (r * s0).
Proof. reflexivity. Qed.

Lemma mul_neginf_pos s0 : 0 < s0 -> ext_mul_q NegInf s0 = NegInf.
Proof. intros H. cbn. apply Qltb_lt in H. now rewrite H. Qed.

Lemma mul_posinf_pos s0 : 0 < s0 -> ext_mul_q PosInf s0 = PosInf.
Proof. intros H. cbn. apply Qltb_lt in H. now rewrite H. Qed.

Lemma mul_inf_zero a s0 : a = NegInf \/ a = PosInf -> s0 == 0 -> ext_mul_q a s0 = NaN.
Proof.
  intros H E.
  assert (Qltb 0 s0 = false) as A by (apply Qltb_ge; lra).
  assert (Qltb s0 0 = false) as B by (apply Qltb_ge; lra).
  destruct H as [->| ->]; cbn; now rewrite A, B.
Qed.

Lemma threshold_cases (t r s0 x : Q) :
  (above (Fin t) x = true <-> t < x) /\ above NegInf x = true /\ above PosInf x = false /\
  above NaN x = false /\
  ext_mul_q (Fin r) s0 = Fin (r * s0) /\
  (0 < s0 -> ext_mul_q NegInf s0 = NegInf /\ ext_mul_q PosInf s0 = PosInf) /\
  (s0 == 0 -> ext_mul_q NegInf s0 = NaN /\ ext_mul_q PosInf s0 = NaN).
Proof.
  repeat split; try reflexivity.
  - apply above_fin.
  - apply above_fin.
  - now apply mul_neginf_pos.
  - now apply mul_posinf_pos.
  - apply mul_inf_zero; auto.
  - apply mul_inf_zero; auto.
Qed.

(* largest element of a descending list is its head *)
Lemma desc_head_max s0 r : descending (s0 :: r) -> Forall (fun x => x <= s0) (s0 :: r).
Proof.
  intros H. inversion H; subst. constructor; [apply Qle_refl|]. assumption.
Qed.

(* ---- sum rule ---------------------------------------------------------------------- *)
Lemma Qsq_nonneg a : 0 <= a * a.
Proof.
  destruct (Qlt_le_dec a 0).
  - setoid_replace (a * a) with ((- a) * (- a)) by ring. apply Qmult_le_0_compat; lra.
  - apply Qmult_le_0_compat; lra.
Qed.

Lemma sumsq_nil : sumsq [] = 0. Proof. reflexivity. Qed.
Lemma sumsq_cons a l : sumsq (a :: l) = a * a + sumsq l. Proof. reflexivity. Qed.
Lemma qsum_nil : qsum [] = 0. Proof. reflexivity. Qed.
Lemma qsum_cons a l : qsum (a :: l) = a + qsum l. Proof. reflexivity. Qed.

Lemma sumsq_nonneg l : 0 <= sumsq l.
Proof.
  induction l; [rewrite sumsq_nil; lra|]. rewrite sumsq_cons. pose proof (Qsq_nonneg a). lra.
Qed.

Lemma sumsq_app l1 l2 : sumsq (l1 ++ l2) == sumsq l1 + sumsq l2.
Proof.
  induction l1; [rewrite sumsq_nil; cbn [app]; lra|].
  cbn [app]. rewrite !sumsq_cons, IHl1. lra.
Qed.

Lemma sumsq_rev l : sumsq (rev l) == sumsq l.
Proof.
  induction l; [reflexivity|]. cbn [rev].
  rewrite sumsq_app, IHl, !sumsq_cons, sumsq_nil. lra.
Qed.

Lemma Qsq_zero a : a * a == 0 -> a == 0.
Proof.
  intros H. destruct (Qeq_dec a 0) as [E|N]; auto. exfalso.
  apply Qmult_integral in H. tauto.
Qed.

Lemma sumsq_zero_all l : sumsq l == 0 -> Forall (fun x => x == 0) l.
Proof.
  induction l; intros H; constructor; rewrite sumsq_cons in H;
    pose proof (sumsq_nonneg l); pose proof (Qsq_nonneg a).
  - apply Qsq_zero. lra.
  - apply IHl. lra.
Qed.

Lemma all_zero_sumsq l : Forall (fun x => x == 0) l -> sumsq l == 0.
Proof. induction 1; [reflexivity|]. rewrite sumsq_cons, H, IHForall. lra. Qed.

Definition weight (normsq : Q) (norming : bool) (a : Q) : Q := if norming then a / normsq else a.

Lemma weight_comp nq nm a b : a == b -> weight nq nm a == weight nq nm b.
Proof. intros E. unfold weight. destruct nm; now rewrite E. Qed.

Lemma weight_mono nq nm a b : 0 < nq -> a <= b -> weight nq nm a <= weight nq nm b.
Proof.
  intros Hn L. unfold weight. destruct nm; auto.
  unfold Qdiv. apply Qmult_le_compat_r; auto. apply Qlt_le_weak, Qinv_lt_0_compat, Hn.
Qed.

Lemma weight_zero nq nm : weight nq nm 0 == 0.
Proof. unfold weight. destruct nm; [|lra]. unfold Qdiv. lra. Qed.

(* the loop: either it runs to the end (nothing exceeds) or it stops at the first k whose
   accumulated weight exceeds the threshold *)
Lemma sum_loop_spec nq nm th n : forall rs i acc,
  let A k := acc + sumsq (firstn k rs) in
  let K := sum_loop nq nm th n rs i acc in
  (K = 0%nat /\ forall k, (1 <= k <= length rs)%nat -> ext_gtb (Fin (weight nq nm (A k))) th = false) \/
  (exists k, (k < length rs)%nat /\ K = (n - (i + k))%nat /\
             ext_gtb (Fin (weight nq nm (A (S k)))) th = true /\
             forall k', (1 <= k' <= k)%nat -> ext_gtb (Fin (weight nq nm (A k'))) th = false).
Proof.
  induction rs as [|x r IH]; intros i acc; cbv zeta.
  - left. split; [reflexivity|]. cbn. intros k Hk. lia.
  - cbn [sum_loop]. fold (weight nq nm (acc + x * x)).
    destruct (ext_gtb (Fin (weight nq nm (acc + x * x))) th) eqn:E.
    + right. exists 0%nat. cbn [length]. split; [lia|]. split; [f_equal; lia|]. split.
      * rewrite <- E. apply gt_fin_comp, weight_comp. cbn [firstn]. rewrite sumsq_cons, sumsq_nil. lra.
      * intros k' Hk'. lia.
    + specialize (IH (S i) (acc + x * x)). cbv zeta in IH.
      assert (forall k, acc + x * x + sumsq (firstn k r) == acc + sumsq (firstn (S k) (x :: r))) as Hshift.
      { intros k. cbn [firstn]. rewrite sumsq_cons. lra. }
      destruct IH as [[HK Hall]|(k & Hk & HK & Hex & Hbelow)].
      * left. split; auto. intros k Hk. destruct k as [|k]; [lia|].
        cbn [length] in Hk. destruct k as [|k].
        -- rewrite <- E. apply gt_fin_comp, weight_comp. cbn [firstn]. rewrite sumsq_cons, sumsq_nil. lra.
        -- rewrite <- (Hall (S k)) by lia. apply gt_fin_comp, weight_comp. symmetry. apply Hshift.
      * right. exists (S k). cbn [length]. split; [lia|]. split; [rewrite HK; f_equal; lia|]. split.
        -- rewrite <- Hex. apply gt_fin_comp, weight_comp. symmetry. apply Hshift.
        -- intros k' Hk'. destruct k' as [|k']; [lia|]. destruct k' as [|k'].
           ++ rewrite <- E. apply gt_fin_comp, weight_comp. cbn [firstn]. rewrite sumsq_cons, sumsq_nil. lra.
           ++ rewrite <- (Hbelow (S k')) by lia. apply gt_fin_comp, weight_comp. symmetry. apply Hshift.
Qed.

Lemma sumsq_firstn_rev k s : sumsq (firstn k (rev s)) == sumsq (skipn (length s - k) s).
Proof. rewrite firstn_rev, sumsq_rev. reflexivity. Qed.

Lemma skipn_plus {A} a b : forall l : list A, skipn a (skipn b l) = skipn (a + b) l.
Proof.
  induction b as [|b IH]; intros l.
  - now rewrite Nat.add_0_r.
  - rewrite Nat.add_succ_r. destruct l as [|x l]; [now rewrite !skipn_nil|]. cbn [skipn]. apply IH.
Qed.

Lemma sumsq_skipn_antitone s j j' : (j <= j')%nat -> sumsq (skipn j' s) <= sumsq (skipn j s).
Proof.
  intros L. replace j' with ((j' - j) + j)%nat by lia.
  rewrite <- skipn_plus.
  rewrite <- (firstn_skipn (j' - j) (skipn j s)) at 2.
  rewrite sumsq_app. pose proof (sumsq_nonneg (firstn (j' - j) (skipn j s))). lra.
Qed.

(* weight of the tail s[j:] as the code measures it *)
Definition tail_weight (s : list Q) (norming : bool) (j : nat) : Q :=
  weight (sumsq s) norming (sumsq (skipn j s)).

(* the sum rule: a tail s[j:] exceeds the threshold exactly when it is longer than the
   discarded one; hence the discarded tail s[K:] is the longest tail that does not exceed *)
Lemma sum_index_spec s tot norming : ~ sumsq s == 0 ->
  let K := sum_truncation_index s tot norming in
  (K <= length s)%nat /\
  forall j, ext_gtb (Fin (tail_weight s norming j)) (ext_sq tot) = true <-> (j < K)%nat.
Proof.
  intros Hnz. cbv zeta. unfold sum_truncation_index.
  destruct (Qeq_bool (sumsq s) 0) eqn:Ez; [apply Qeq_bool_iff in Ez; contradiction|].
  assert (0 < sumsq s) as Hpos by (pose proof (sumsq_nonneg s); lra).
  set (n := length s). set (th := ext_sq tot).
  assert (forall j j', (j <= j')%nat -> ext_gtb (Fin (tail_weight s norming j')) th = true ->
                       ext_gtb (Fin (tail_weight s norming j)) th = true) as Hmono.
  { intros j j' L. apply gt_fin_mono. unfold tail_weight. apply weight_mono; auto.
    now apply sumsq_skipn_antitone. }
  assert (forall k, (k <= n)%nat ->
            ext_gtb (Fin (weight (sumsq s) norming (0 + sumsq (firstn k (rev s))))) th =
            ext_gtb (Fin (tail_weight s norming (n - k))) th) as Hconv.
  { intros k Hk. apply gt_fin_comp, weight_comp. rewrite sumsq_firstn_rev. fold n. lra. }
  pose proof (sum_loop_spec (sumsq s) norming th n (rev s) 0%nat 0) as Hl. cbv zeta in Hl.
  rewrite rev_length in Hl. fold n in Hl.
  destruct Hl as [[HK Hall]|(k & Hk & HK & Hex & Hbelow)]; rewrite HK.
  - split; [lia|]. intros j. split; [|lia]. intros Hj. exfalso.
    destruct (Nat.le_gt_cases n j) as [L|L].
    + (* empty tail: weight 0 *)
      assert (ext_gtb (Fin (tail_weight s norming j)) th = false) as F.
      { unfold th. apply ext_sq_nonneg. unfold tail_weight. rewrite skipn_all2 by (fold n; lia).
        cbn. rewrite weight_zero. lra. }
      congruence.
    + specialize (Hall (n - j)%nat ltac:(lia)). rewrite Hconv in Hall by lia.
      replace (n - (n - j))%nat with j in Hall by lia. congruence.
  - rewrite Hconv in Hex by lia. cbn [Nat.add] in *.
    split; [lia|]. intros j. split.
    + intros Hj. destruct (Nat.lt_ge_cases j (n - k)) as [L|L]; auto. exfalso.
      destruct (Nat.le_gt_cases n j) as [L'|L'].
      * assert (ext_gtb (Fin (tail_weight s norming j)) th = false) as F.
        { unfold th. apply ext_sq_nonneg. unfold tail_weight. rewrite skipn_all2 by (fold n; lia).
          cbn. rewrite weight_zero. lra. }
        congruence.
      * specialize (Hbelow (n - j)%nat ltac:(lia)). rewrite Hconv in Hbelow by lia.
        replace (n - (n - j))%nat with j in Hbelow by lia. congruence.
    + intros Hj. apply (Hmono j (n - S k)%nat); [lia|exact Hex].
Qed.

Lemma sum_index_zero s tot norming : sumsq s == 0 -> sum_truncation_index s tot norming = 0%nat.
Proof.
  intros E. unfold sum_truncation_index. apply Qeq_bool_iff in E. now rewrite E.
Qed.

Lemma sum_rule p s : sum_trunc p = true -> s <> [] -> bond_ok (max_bond p) ->
  let K := sum_truncation_index s (total_tol p) (sum_renorm p) in
  let k := Nat.max 1 (bmin (max_bond p) K) in
  select p s = (firstn k s, skipn k s) /\ (K <= length s)%nat /\
  (sumsq s == 0 -> K = 0%nat) /\
  (~ sumsq s == 0 -> forall j,
      ext_gtb (Fin (tail_weight s (sum_renorm p) j)) (ext_sq (total_tol p)) = true <-> (j < K)%nat).
Proof.
  intros Hm Hne Hb. cbv zeta.
  set (K := sum_truncation_index s (total_tol p) (sum_renorm p)).
  assert (K <= length s)%nat as HK.
  { destruct (Qeq_bool (sumsq s) 0) eqn:E.
    - apply Qeq_bool_iff in E. unfold K. rewrite sum_index_zero by auto. lia.
    - apply Qeq_bool_neq in E. now apply sum_index_spec. }
  assert (s_temp p s = firstn K s) as Ht by (unfold s_temp; now rewrite Hm).
  assert (length (s_temp p s) = K) as Hl by (rewrite Ht, firstn_length; lia).
  repeat split; auto.
  - pose proof (select_length p s Hne Hb) as Hlen. rewrite Hl in Hlen.
    (* prefix property without needing a descending list: s_temp is firstn K s *)
    unfold select in *. rewrite Ht in *. rewrite firstn_length in *.
    replace (Nat.min K (length s)) with K in * by lia.
    assert (1 <= length s)%nat as Hs1 by (destruct s; [congruence|cbn; lia]).
    destruct (max_bond p) as [m|]; cbn [exceeds bond_take bond_drop bmin bond_ok] in *.
    + destruct (Nat.ltb_spec m K).
      * replace (Nat.max 1 (Nat.min m K)) with m by lia.
        rewrite firstn_firstn. now replace (Nat.min m K) with m by lia.
      * destruct (Nat.eqb_spec K 0).
        -- now replace (Nat.max 1 (Nat.min m K)) with 1%nat by lia.
        -- now replace (Nat.max 1 (Nat.min m K)) with K by lia.
    + destruct (Nat.eqb_spec K 0).
      * now replace (Nat.max 1 K) with 1%nat by lia.
      * now replace (Nat.max 1 K) with K by lia.
  - intros E. now apply sum_index_zero.
  - now apply sum_index_spec.
  - now apply sum_index_spec.
Qed.

(* ---- all-zero spectrum: exactly the first value is kept ------------------------------ *)
Lemma zero_not_above_cutoff rel tot s0 x : s0 == 0 -> x == 0 -> above (cutoff rel tot s0) x = false.
Proof.
  intros E0 Ex. unfold cutoff, py_max, above.
  assert (ext_mul_q rel s0 = NaN \/ exists q, ext_mul_q rel s0 = Fin q /\ q == 0) as [->|(q & -> & Eq)].
  { destruct rel as [| |q|].
    - left. reflexivity.
    - left. apply mul_inf_zero; auto.
    - right. exists (q * s0). split; [reflexivity|]. rewrite E0. ring.
    - left. apply mul_inf_zero; auto. }
  - destruct tot; reflexivity.
  - destruct tot as [| |t|]; cbn.
    + apply Qltb_ge. lra.
    + apply Qltb_ge. lra.
    + destruct (Qltb q t) eqn:F; cbn.
      * apply Qltb_lt in F. apply Qltb_ge. lra.
      * apply Qltb_ge. lra.
    + reflexivity.
Qed.

Lemma all_zero_keeps_one p s : s <> [] -> Forall (fun x => x == 0) s -> bond_ok (max_bond p) ->
  select p s = (firstn 1 s, skipn 1 s).
Proof.
  intros Hne Hz Hb.
  assert (length (s_temp p s) = 0%nat) as Hl.
  { unfold s_temp. destruct (sum_trunc p).
    - unfold sum_truncation. rewrite sum_index_zero by now apply all_zero_sumsq. reflexivity.
    - destruct s as [|s0 r]; [congruence|]. cbn [value_truncation].
      rewrite filter_none; [reflexivity|].
      inversion Hz; subst. rewrite Forall_forall in *. intros x Hx.
      apply zero_not_above_cutoff; auto. }
  unfold select. rewrite Hl.
  destruct (max_bond p); cbn [exceeds]; [|reflexivity].
  destruct (Nat.ltb_spec m 0); [lia|reflexivity].
Qed.

(* ---- renormalisation ----------------------------------------------------------------- *)
Lemma qsum_map_scale c l : qsum (map (fun x => x * c) l) == qsum l * c.
Proof.
  induction l; [cbn [map]; rewrite qsum_nil; lra|].
  cbn [map]. rewrite !qsum_cons, IHl. lra.
Qed.

Lemma truncate_spec p s : s <> [] ->
  truncate p s =
  Some (if renorm p then renormalise s (fst (select p s)) else fst (select p s), snd (select p s)).
Proof.
  intros Hne. unfold truncate. destruct s; [congruence|].
  now rewrite (surjective_pairing (select p (q :: s))).
Qed.

Lemma truncate_none p s : truncate p s = None <-> s = [].
Proof.
  split.
  - destruct s; auto. rewrite truncate_spec by discriminate. discriminate.
  - intros ->. reflexivity.
Qed.

Lemma renorm_scales p s : s <> [] -> renorm p = true ->
  let kept := fst (select p s) in
  ~ qsum kept == 0 ->
  truncate p s = Some (map (fun x => x * qsum s / qsum kept) kept, snd (select p s)).
Proof.
  intros Hne Hr kept Hk. rewrite truncate_spec by auto. rewrite Hr. unfold renormalise.
  fold kept. destruct (Qeq_bool (qsum kept) 0) eqn:E; [apply Qeq_bool_iff in E; contradiction|].
  reflexivity.
Qed.

(* kept sum 0: nothing to rescale, the kept values are returned unchanged *)
Lemma renorm_zero p s : s <> [] -> renorm p = true -> qsum (fst (select p s)) == 0 ->
  truncate p s = Some (fst (select p s), snd (select p s)).
Proof.
  intros Hne Hr Hk. rewrite truncate_spec by auto. rewrite Hr. unfold renormalise.
  apply Qeq_bool_iff in Hk. now rewrite Hk.
Qed.

Lemma no_renorm p s : s <> [] -> renorm p = false ->
  truncate p s = Some (fst (select p s), snd (select p s)).
Proof. intros Hne Hr. rewrite truncate_spec by auto. now rewrite Hr. Qed.

(* whatever the flags, the result has as many values as the selection: renormalisation never
   changes the length *)
Lemma truncate_length p s : s <> [] ->
  exists k d, truncate p s = Some (k, d) /\ length k = length (fst (select p s)) /\ d = snd (select p s).
Proof.
  intros Hne. rewrite truncate_spec by auto. eexists; eexists; split; [reflexivity|]. split; auto.
  destruct (renorm p); auto. unfold renormalise.
  destruct (Qeq_bool _ _); auto. apply map_length.
Qed.

(* the rescaled vector has the l1 weight of the whole spectrum *)
Lemma renorm_preserves_sum s kept : ~ qsum kept == 0 ->
  qsum (map (fun x => x * qsum s / qsum kept) kept) == qsum s.
Proof.
  intros Hk.
  assert (forall l, qsum (map (fun x => x * qsum s / qsum kept) l) == qsum l * (qsum s / qsum kept)) as H.
  { induction l; [cbn [map]; rewrite qsum_nil; lra|].
    cbn [map]. rewrite !qsum_cons, IHl. unfold Qdiv. ring. }
  rewrite H. field. exact Hk.
Qed.

(* on a descending non-negative spectrum the guard fails only for the all-zero spectrum *)
Lemma kept_sum_zero_all_zero p s : s <> [] -> descending s -> Forall (fun x => 0 <= x) s ->
  bond_ok (max_bond p) -> qsum (fst (select p s)) == 0 -> Forall (fun x => x == 0) s.
Proof.
  intros Hne Hs Hnn Hb Hz.
  destruct (select_spec p s Hne Hs Hb) as ((Hk1 & _) & Hpre & _).
  destruct s as [|s0 r]; [congruence|].
  rewrite Hpre in Hz. destruct (length (fst (select p (s0 :: r)))) as [|k]; [lia|].
  cbn [firstn] in Hz. rewrite qsum_cons in Hz.
  assert (forall l, Forall (fun x => 0 <= x) l -> 0 <= qsum l) as Hq.
  { induction 1; [rewrite qsum_nil|rewrite qsum_cons]; lra. }
  inversion Hnn; subst.
  assert (0 <= qsum (firstn k r)) as Hf.
  { apply Hq. rewrite Forall_forall in *. intros x Hx. apply H2.
    rewrite <- (firstn_skipn k r). apply in_or_app. now left. }
  assert (s0 == 0) as E0 by lra.
  pose proof (desc_head_max s0 r Hs) as Hmax.
  rewrite Forall_forall in *. intros x Hx. specialize (Hmax x Hx). specialize (Hnn x Hx). lra.
Qed.

(* sqrt(sum of squares) <= sum, for non-negative values: the step from the Frobenius error of
   one truncation to "the sum of the discarded weights" *)
Lemma sumsq_le_sq_sum l : Forall (fun x => 0 <= x) l -> sumsq l <= qsum l * qsum l /\ 0 <= qsum l.
Proof.
  induction 1; [rewrite sumsq_nil, qsum_nil; lra|].
  rewrite sumsq_cons, qsum_cons. destruct IHForall as [I1 I2]. split; [|lra].
  assert (0 <= x * qsum l) by (apply Qmult_le_0_compat; auto).
  setoid_replace ((x + qsum l) * (x + qsum l)) with (x * x + qsum l * qsum l + 2 * (x * qsum l)) by ring.
  lra.
Qed.

(* ---- parameter validation -------------------------------------------------------------- *)
Definition tol_ok (t : ext) : Prop :=
  match t with Fin q => 0 <= q | _ => True end.

Lemma tol_rejected_spec t : tol_rejected t = false <-> tol_ok t.
Proof.
  unfold tol_rejected, ext_ltb. destruct t; cbn; try tauto.
  rewrite andb_true_r. rewrite Qltb_ge. tauto.
Qed.

Lemma validate_accept m rel tot :
  validate m rel tot = Accept <->
  (m = MInf \/ exists z, m = MInt z /\ (0 < z)%Z) /\ tol_ok rel /\ tol_ok tot.
Proof.
  rewrite <- !tol_rejected_spec. unfold validate. destruct m as [z| |].
  - destruct (Z.leb_spec z 0).
    + split; [discriminate|]. intros ([E|(z' & E & Hz)] & _); [discriminate|]. injection E as <-. lia.
    + destruct (tol_rejected rel); [split; [discriminate|intros (_ & E & _); discriminate]|].
      destruct (tol_rejected tot); [split; [discriminate|intros (_ & _ & E); discriminate]|].
      split; auto. intros _. repeat split; auto. right. now exists z.
  - destruct (tol_rejected rel); [split; [discriminate|intros (_ & E & _); discriminate]|].
    destruct (tol_rejected tot); [split; [discriminate|intros (_ & _ & E); discriminate]|].
    split; auto.
  - split; [discriminate|]. intros ([E|(z & E & _)] & _); discriminate.
Qed.

Lemma validate_type_error m rel tot : validate m rel tot = RaiseType <-> m = MOther.
Proof.
  unfold validate. destruct m as [z| |]; split; try discriminate; auto.
  - destruct (z <=? 0)%Z; [discriminate|]. destruct (tol_rejected rel); [discriminate|].
    destruct (tol_rejected tot); discriminate.
  - destruct (tol_rejected rel); [discriminate|]. destruct (tol_rejected tot); discriminate.
Qed.

(* accepted parameters give a usable bond limit *)
Lemma validate_bond_ok m rel tot : validate m rel tot = Accept ->
  exists b, bond_of m = Some b /\ bond_ok b.
Proof.
  intros H. apply validate_accept in H. destruct H as ([->|(z & -> & Hz)] & _).
  - exists BInf. split; [reflexivity|exact I].
  - exists (BFin (Z.to_nat z)). split; [reflexivity|]. cbn. lia.
Qed.
