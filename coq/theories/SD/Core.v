(* Algebraic core of the compressing Hamiltonian -> state diagram pipelines of
   pytreenet/ttno/state_diagram.py (StateDiagram.combine_subtrees / erase_subtree,
   cut_and_optimise / _create_combined_u_v_lists / _reconnect_hyperedges) and the skeleton of
   TTNO.from_state_diagram / _rec_zero_ttno / StateDiagram.obtain_tensor_shape
   (pytreenet/ttno/ttno_class.py) with TreeTensorNetwork.add_child_to_parent and the leg
   bookkeeping of core/node.py.  Definitions only; proofs are in CoreProofs.v.
   The state-diagram model itself (he, vx, sd, val, sd_denote, ...) is SD/Model.v. *)
From Coq Require Import List Arith Bool QArith.
From PTN Require Import Tree.RTree SD.Model.
Import ListNotations.
Local Close Scope Q_scope.

(* ====================================================================================== *)
(* 1. combine_subtrees: merging two vertices of one tree edge                              *)
(* ====================================================================================== *)
(* The child-side denotation of a vertex x of the edge (parent(c), c): the contraction of the
   sub-diagram hanging below x, i.e. `val` of the subtree rooted at c entered through x. *)
Definition child_side (t : rtree) (d : sd) (c : nat) (x : oid) : poly :=
  match subtree c t with Some tc => val (hes d) tc (Some x) | None => [] end.

(* the parent of c with its position data: (identifier, has it a parent leg?, its children) *)
Fixpoint find_parent (t : rtree) (hp : bool) (c : nat) : option (nat * bool * list rtree) :=
  match t with
  | RNode v cs => if existsb (fun k => Nat.eqb (rid k) c) cs then Some (v, hp, cs)
                  else first_some (fun k => find_parent k true c) cs
  end.

(* `father.vertices.remove(del_vertex); keep_vertex.add_hyperedge(father)`: in the vertex list of
   a hyperedge of the parent node (child part, in children order) the vertex of the edge to c
   is replaced by x1 when it is x2 *)
Fixpoint subst_at (cs : list rtree) (c : nat) (x1 x2 : oid) (vs : list oid) : list oid :=
  match cs, vs with
  | k :: cs', y :: vs' =>
      if Nat.eqb (rid k) c then (if oid_eqb y x2 then x1 else y) :: vs'
      else y :: subst_at cs' c x1 x2 vs'
  | _, _ => vs
  end.
(* the vertex a hyperedge of the parent node has on the edge to c *)
Fixpoint slot_vertex (cs : list rtree) (c : nat) (vs : list oid) : option oid :=
  match cs, vs with
  | k :: cs', y :: vs' => if Nat.eqb (rid k) c then Some y else slot_vertex cs' c vs'
  | _, _ => None
  end.

Definition set_verts (h : he) (vs : list oid) : he :=
  mkHe (hid h) (hnode h) (hlabel h) (hlam h) (hgam h) vs.
Definition child_part (hp : bool) (h : he) : list oid := if hp then tl (hverts h) else hverts h.

Definition redirect_he (p : nat) (hp : bool) (cs : list rtree) (c : nat) (x1 x2 : oid) (h : he) : he :=
  if Nat.eqb (hnode h) p then
    set_verts h (if hp then match hverts h with q :: r => q :: subst_at cs c x1 x2 r | [] => [] end
                 else subst_at cs c x1 x2 (hverts h))
  else h.
(* fathers_del = del_vertex.get_hyperedges_for_one_node_id(parent) *)
Definition is_father (p : nat) (hp : bool) (cs : list rtree) (c : nat) (x2 : oid) (h : he) : bool :=
  Nat.eqb (hnode h) p &&
  match slot_vertex cs c (child_part hp h) with Some y => oid_eqb y x2 | None => false end.

(* step 1 of the merge: only the redirection; the sub-diagram below x2 stays, unreachable *)
Definition merge_redirect (t : rtree) (c : nat) (x1 x2 : oid) (s : list he) : list he :=
  match find_parent t false c with
  | Some (p, hp, cs) => map (redirect_he p hp cs c x1 x2) s
  | None => s
  end.

(* erase_subtree(element2, erased=[del_vertex]): the hyperedges of node v entered through a
   dead vertex go, the vertices they have on the child edges are dead for the children.
   (Python walks from an erased vertex to *all* its hyperedges; that is the same set as long as
   an erased vertex carries no surviving hyperedge -- hypothesis `private` of the theorem;
   where it fails the Python code erases live parts of the diagram.) *)
Definition entered (dead : list oid) (v : nat) (h : he) : bool :=
  Nat.eqb (hnode h) v && match hverts h with q :: _ => omem q dead | [] => false end.
Definition heads (vss : list (list oid)) : list oid :=
  flat_map (fun vs => match vs with y :: _ => [y] | [] => [] end) vss.
Fixpoint dead_map (s : list he) (t : rtree) (dead : list oid) : list (nat * list oid) :=
  match t with
  | RNode v cs =>
      (v, dead) ::
      (fix go (cs : list rtree) (vss : list (list oid)) : list (nat * list oid) :=
         match cs with
         | [] => []
         | k :: cs' => dead_map s k (heads vss) ++ go cs' (map (@tl oid) vss)
         end) cs (map (fun h => tl (hverts h)) (filter (entered dead v) s))
  end.
Definition dead_of (M : list (nat * list oid)) (v : nat) : list oid :=
  match find (fun e => Nat.eqb (fst e) v) M with Some e => snd e | None => [] end.
Definition is_dead (M : list (nat * list oid)) (h : he) : bool :=
  match hverts h with q :: _ => omem q (dead_of M (hnode h)) | [] => false end.
Definition erase_hes (M : list (nat * list oid)) (s : list he) : list he :=
  filter (fun h => negb (is_dead M h)) s.

(* the whole step of combine_subtrees for one pair (element1 keeps x1, element2 loses x2) *)
Definition merge_dead (t : rtree) (c : nat) (x2 : oid) (s : list he) : list (nat * list oid) :=
  match subtree c t with Some tc => dead_map s tc [x2] | None => [] end.
Definition merge_hes (t : rtree) (c : nat) (x1 x2 : oid) (s : list he) : list he :=
  if oid_eqb x1 x2 then s
  else match find_parent t false c with
       | None => s                                   (* c is not a child of a node of t *)
       | Some _ => let s1 := merge_redirect t c x1 x2 s in erase_hes (merge_dead t c x2 s1) s1
       end.
(* vertex collections: del_vertex and the erased vertices go, keep_vertex gets the fathers *)
Definition merge_vxs (t : rtree) (c : nat) (x1 x2 : oid) (d : sd) : list vx :=
  if oid_eqb x1 x2 then vxs d
  else match find_parent t false c with
       | None => vxs d
       | Some (p, hp, cs) =>
           let fathers := map hid (filter (is_father p hp cs c x2) (hes d)) in
           let M := merge_dead t c x2 (merge_redirect t c x1 x2 (hes d)) in
           map (fun v => if oid_eqb (vxid v) x1 then mkVx (vxid v) (vedge v) (vhes v ++ fathers) else v)
               (filter (fun v => negb (omem (vxid v) (dead_of M (vedge v)))) (vxs d))
       end.
Definition merge (t : rtree) (c : nat) (x1 x2 : oid) (d : sd) : sd :=
  mkSd (merge_hes t c x1 x2 (hes d)) (merge_vxs t c x1 x2 d).

(* no surviving hyperedge of another node touches an erased vertex *)
Definition private (M : list (nat * list oid)) (s : list he) : Prop :=
  forall h k y, In h s -> is_dead M h = false -> hnode h <> k -> In y (hverts h) -> ~ In y (dead_of M k).
Definition privateb (M : list (nat * list oid)) (s : list he) : bool :=
  forallb (fun h => is_dead M h ||
                    forallb (fun e => Nat.eqb (hnode h) (fst e) ||
                                      forallb (fun y => negb (omem y (snd e))) (hverts h)) M) s.

(* ====================================================================================== *)
(* 2. cut_and_optimise: regrouping the cut along a vertex cover                            *)
(* ====================================================================================== *)
(* Everything lives in one commutative ring R (CoreProofs assumes `ring_theory`): the child-side
   values u_i of the hyperedges of the current node, the parent-side values v_j of the
   non-redundant V classes, the coefficient matrix Gamma (m x n), its factorisation
   Gamma = L * Gu * Rr with Gu of size m' x n' (Op_l, Gamma_u, Op_r of gaussian_elimination, or
   identity matrices for BIPARTITE).  `supp a b` is the edge relation of the BipartiteGraph
   (entries that are not 0), (Cu, Cv) the vertex cover. *)
Section Regroup.
  Variable R : Type.
  Variable r0 : R.
  Variables radd rmul : R -> R -> R.

  Definition rsum {A : Type} (l : list A) (f : A -> R) : R :=
    fold_right (fun a acc => radd (f a) acc) r0 l.

  (* sum_ij u_i Gamma_ij v_j: what the vertices of the cut edge contribute before the step *)
  Definition bilform (m n : nat) (G : nat -> nat -> R) (u v : nat -> R) : R :=
    rsum (seq 0 m) (fun i => rsum (seq 0 n) (fun j => rmul (rmul (u i) (G i j)) (v j))).
  (* entry (i, j) of L * Gu * Rr *)
  Definition mprod3 (m' n' : nat) (L Gu Rr : nat -> nat -> R) (i j : nat) : R :=
    rsum (seq 0 m') (fun a => rsum (seq 0 n') (fun b => rmul (rmul (L i a) (Gu a b)) (Rr b j))).
  (* u_list[a] = [(u_i, Op_l[i][a]) ...],  v_list[b] = [(v_j, Op_r[b][j]) ...] *)
  Definition ucomb (m : nat) (L : nat -> nat -> R) (u : nat -> R) (a : nat) : R :=
    rsum (seq 0 m) (fun i => rmul (L i a) (u i)).
  Definition vcomb (n : nat) (Rr : nat -> nat -> R) (v : nat -> R) (b : nat) : R :=
    rsum (seq 0 n) (fun j => rmul (Rr b j) (v j)).

  Variables (m n m' n' : nat) (L Gu Rr : nat -> nat -> R) (u v : nat -> R).
  Variable supp : nat -> nat -> bool.
  Variables Cu Cv : list nat.

  (* first loop of _reconnect_hyperedges: one new vertex per a in u_cover; the u-side gets the
     plain Op_l factors, every v-combination b adjacent to a gets Gamma_u[a][b] *)
  Definition row_vertex (a : nat) : R :=
    rmul (ucomb m L u a)
         (rsum (filter (supp a) (seq 0 n')) (fun b => rmul (Gu a b) (vcomb n Rr v b))).
  (* second loop: one new vertex per b in v_cover; only the edges (a, b) not used by the first
     loop (`if (i, j) not in edges: continue`), i.e. a not in u_cover *)
  Definition col_vertex (b : nat) : R :=
    rmul (rsum (filter (fun a => supp a b && negb (mem a Cu)) (seq 0 m'))
               (fun a => rmul (Gu a b) (ucomb m L u a)))
         (vcomb n Rr v b).
  Definition regrouped : R := radd (rsum Cu row_vertex) (rsum Cv col_vertex).

  (* which new vertex uses entry (a, b) of Gamma_u: rows first *)
  Definition uses (a b : nat) (w : nat + nat) : bool :=
    match w with
    | inl a' => Nat.eqb a' a
    | inr b' => Nat.eqb b' b && negb (mem a Cu)
    end.
  Definition new_vertices : list (nat + nat) := map inl Cu ++ map inr Cv.
End Regroup.

(* ====================================================================================== *)
(* 3. TTNO.from_state_diagram: the zero-filled skeleton                                    *)
(* ====================================================================================== *)
(* A node of the TTNO under construction: identifier, parent, children (GraphNode), the leg
   permutation and the shape of the linked tensor (Node._leg_permutation, Node._shape). *)
Record tnode := mkTn { tn_id : nat; tn_parent : option nat; tn_children : list nat;
                       tn_perm : list nat; tn_shape0 : list nat }.
(* Node.shape = permute_iterator(_shape, _leg_permutation): the shape ttno.tensors[id] has *)
Definition tn_shape (n : tnode) : list nat := map (fun i => nth i (tn_shape0 n) 0) (tn_perm n).
Definition tn_nneigh (n : tnode) : nat := length (opt_list (tn_parent n)) + length (tn_children n).
Definition tn_find (st : list tnode) (v : nat) : option tnode :=
  find (fun n => Nat.eqb (tn_id n) v) st.

(* list.pop(k), list.insert(k, a) *)
Fixpoint remove_at {A : Type} (k : nat) (l : list A) : list A :=
  match l, k with
  | [], _ => []
  | _ :: r, 0 => r
  | a :: r, S k' => a :: remove_at k' r
  end.
Fixpoint insert_at {A : Type} (k : nat) (a : A) (l : list A) : list A :=
  match k, l with
  | 0, _ => a :: l
  | S k', b :: r => b :: insert_at k' a r
  | S _, [] => [a]
  end.
Definition move_leg (from to : nat) (perm : list nat) : list nat :=
  insert_at to (nth from perm 0) (remove_at from perm).

(* number of vertices of the edge named by its child end c: len(vertex_coll.contained_vertices) *)
Definition nverts_on (d : sd) (c : nat) : nat :=
  length (filter (fun x => Nat.eqb (vedge x) c) (vxs d)).
(* total_shape[leg_index] = ... for leg_index = 0, 1, ...; None = IndexError *)
Fixpoint overwrite (news base : list nat) : option (list nat) :=
  match news, base with
  | [], _ => Some base
  | a :: news', _ :: base' => option_map (cons a) (overwrite news' base')
  | _ :: _, [] => None
  end.
(* StateDiagram.obtain_tensor_shape; pd = dimension of the conversion-dictionary entry of a
   label (None: no entry, KeyError) *)
Definition tensor_shape (pd : nat -> option nat) (t : rtree) (d : sd) (v : nat) : option (list nat) :=
  match find (fun h => Nat.eqb (hnode h) v) (hes d) with
  | None => None
  | Some h =>
      match pd (hlabel h) with
      | None => None
      | Some ph => overwrite (map (nverts_on d) (incident t v))
                             (repeat 0 (length (hverts h)) ++ [ph; ph])
      end
  end.

(* TreeTensorNetwork.add_child_to_parent(child, tensor, child_leg, parent_id, parent_leg):
   ensure_existence, ensure_shape_matching, ensure_uniqueness, _open_leg_checks on both nodes,
   the leg moves of open_leg_to_parent / open_leg_to_child, add_child *)
Definition add_child (st : list tnode) (c : nat) (shape : list nat) (cleg p pleg : nat) : option (list tnode) :=
  match tn_find st p with
  | None => None
  | Some pn =>
      match nth_error shape cleg, nth_error (tn_shape pn) pleg with
      | Some dc, Some dp =>
          if Nat.eqb dc dp
             && negb (existsb (fun n => Nat.eqb (tn_id n) c) st)
             && Nat.leb (tn_nneigh pn) pleg && Nat.ltb pleg (length (tn_perm pn))
          then Some (map (fun n => if Nat.eqb (tn_id n) p
                                   then mkTn (tn_id n) (tn_parent n) (tn_children n ++ [c])
                                             (move_leg pleg (tn_nneigh n) (tn_perm n)) (tn_shape0 n)
                                   else n) st
                     ++ [mkTn c (Some p) [] (move_leg cleg 0 (seq 0 (length shape))) shape])
          else None
      | _, _ => None
      end
  end.

(* TTNO._rec_zero_ttno(node_id): shape, parent_leg = nneighbours of the parent so far, attach
   with child leg 0, then the children in reference order *)
Fixpoint rec_zero (pd : nat -> option nat) (t0 : rtree) (d : sd) (p : nat) (t : rtree)
                  (st : list tnode) : option (list tnode) :=
  match t with
  | RNode v cs =>
      match tensor_shape pd t0 d v, tn_find st p with
      | Some shape, Some pn =>
          match add_child st v shape 0 p (tn_nneigh pn) with
          | Some st1 =>
              (fix go (cs : list rtree) (s : list tnode) : option (list tnode) :=
                 match cs with
                 | [] => Some s
                 | k :: cs' => match rec_zero pd t0 d v k s with Some s' => go cs' s' | None => None end
                 end) cs st1
          | None => None
          end
      | _, _ => None
      end
  end.
Fixpoint rec_zero_list (pd : nat -> option nat) (t0 : rtree) (d : sd) (v : nat) (cs : list rtree)
                       (s : list tnode) : option (list tnode) :=
  match cs with
  | [] => Some s
  | k :: cs' => match rec_zero pd t0 d v k s with Some s' => rec_zero_list pd t0 d v cs' s' | None => None end
  end.
(* TTNO.from_state_diagram up to the zero tensors *)
Definition ttno_build (pd : nat -> option nat) (t : rtree) (d : sd) : option (list tnode) :=
  match t with
  | RNode r cs =>
      match tensor_shape pd t d r with
      | Some shape => rec_zero_list pd t d r cs [mkTn r None [] (seq 0 (length shape)) shape]
      | None => None
      end
  end.
(* what the harness compares: per node in creation order (identifier, parent, children, shape) *)
Definition ttno_shape (pd : nat -> option nat) (t : rtree) (d : sd)
  : option (list (nat * option nat * list nat * list nat)) :=
  option_map (map (fun n => (tn_id n, tn_parent n, tn_children n, tn_shape n))) (ttno_build pd t d).
(* operator table as an association list label -> dimension *)
Definition pd_of (tbl : list (nat * nat)) (l : nat) : option nat := lookup l tbl.
(* the shape the structure theorem predicts: legs (parent, children..., out, in) *)
Definition phys_of (pd : nat -> option nat) (d : sd) (v : nat) : nat :=
  match find (fun h => Nat.eqb (hnode h) v) (hes d) with
  | Some h => match pd (hlabel h) with Some x => x | None => 0 end
  | None => 0
  end.
Definition shape_of (pd : nat -> option nat) (t : rtree) (d : sd) (v : nat) : list nat :=
  map (nverts_on d) (incident t v) ++ [phys_of pd d v; phys_of pd d v].
