(* ACCEPTANCE of the BIPARTITE driver (SD/Pipeline.v): with pairwise distinct operator strings the
   model returns Some (the code does not raise) for every non-empty term list on every tree.
   The invariant of SD/PipelineInv.v is extended by a Jc-free part `XF` for every frontier node:
   it carries a hyperedge, all its hyperedges have a coefficient != 0, every child node still to
   be cut carries a hyperedge, and the parent vertex of each of them is the cut vertex of some
   hyperedge of the frontier node. *)
From Coq Require Import List Arith Bool QArith Lia Permutation.
From PTN Require Bip.Model Bip.ModelProofs.
From PTN Require Import Tree.RTree Tree.RTreeProofs SD.Model SD.ModelProofs SD.Core SD.CoreProofs SD.Pipeline SD.PipelineProofs SD.PipelineInv.
Import ListNotations.
Local Close Scope Qc_scope.
Local Close Scope Q_scope.

(* ====================================================================================== *)
(* 1. classify never re-hashes (hence never fails)                                         *)
(* ====================================================================================== *)
Lemma classify_loop_some : forall hp cs c us vsl idx acc,
  (forall e e2, In e vsl -> (exists q, In q acc /\ In e2 (snd q)) \/ In e2 vsl -> e <> e2 ->
                hlabel e2 = hlabel e -> p_others hp cs c e2 = p_others hp cs c e -> conflict hp cs c us e e2 = false) ->
  NoDup (concat (map snd acc) ++ vsl) ->
  Forall (class_ok hp cs c) acc ->
  exists classes, classify_loop hp cs c us idx vsl acc = Some classes.
Proof.
  intros hp cs c us. induction vsl as [|e vsl IH]; intros idx acc Hnc ND Hok; cbn [classify_loop].
  - eauto.
  - assert (Hz : length (filter (conflict hp cs c us e) (class_elems (hlabel e, p_others hp cs c e, None) acc)) = 0).
    { rewrite filter_none; [reflexivity|]. intros e2 He2.
      destruct (class_elems_in _ _ _ He2) as [q [Hq Hin]].
      assert (Hkq : fst (fst q) = (hlabel e, p_others hp cs c e)).
      { unfold class_elems in He2.
        match type of He2 with In _ (match ?X with _ => _ end) => destruct X as [q'|] eqn:F end; [|destruct He2].
        apply find_some in F. destruct F as [Hq' Ek]. apply ckey_eqb_true in Ek. cbn [fst] in Ek.
        rewrite Forall_forall in Hok. destruct (Hok q' Hq') as [_ Hu']. destruct (Hok q Hq) as [_ Hu].
        destruct (Hu' e2 He2) as [A1 A2]. destruct (Hu e2 Hin) as [B1 B2].
        rewrite <- Ek. destruct (fst (fst q)) as [a b], (fst (fst q')) as [a' b']. cbn [fst snd] in *. congruence. }
      rewrite Forall_forall in Hok. destruct (Hok q Hq) as [_ Hu]. destruct (Hu e2 Hin) as [A1 A2].
      apply Hnc; [left; reflexivity | left; eauto | | rewrite A1, Hkq; reflexivity | rewrite A2, Hkq; reflexivity].
      intros E. subst e2.
      apply NoDup_remove_2 in ND. apply ND. apply in_or_app. left. apply in_concat. exists (snd q). split; auto. apply in_map. exact Hq. }
    rewrite Hz.
    apply IH.
    + intros a b Ha Hb Hne. apply Hnc; [right; exact Ha | | exact Hne].
      destruct Hb as [[q [Hq Hb]]|Hb]; [|right; right; exact Hb].
      assert (Hbin : In b (concat (map snd (add_to_class (hlabel e, p_others hp cs c e, None) e acc)))).
      { apply in_concat. exists (snd q). split; auto. apply in_map. exact Hq. }
      apply (Permutation_in _ (add_to_class_perm _ e acc)) in Hbin. apply in_app_or in Hbin.
      destruct Hbin as [Hbin|[Eb|[]]]; [|right; left; exact Eb].
      left. apply in_concat in Hbin. destruct Hbin as [l [Hl Hbl]]. apply in_map_iff in Hl. destruct Hl as [q' [El Hq']].
      exists q'. subst l. auto.
    + eapply Permutation_NoDup; [|exact ND].
      eapply perm_trans; [|apply Permutation_app_tail; apply Permutation_sym; apply add_to_class_perm].
      rewrite <- app_assoc. apply Permutation_refl.
    + apply add_to_class_ok. exact Hok.
Qed.

Lemma classify_some : forall s p hp cs c ccs Jc todo J,
  In (RNode c ccs) cs -> In (RNode c ccs) todo -> Jc (RNode c ccs) = J ->
  CutPar s p hp cs Jc todo -> BaseAt s J (RNode c ccs) -> NoDup (map fst J) ->
  exists classes, classify hp cs c (hes_at c s) (hes_at p s) = Some classes.
Proof.
  intros s p hp cs c ccs Jc todo J Hc Ht EJ [L S R] HB NDJ.
  unfold BaseAt in HB. cbn [rid rchildren] in HB.
  assert (Hcin : In c (map rid cs)) by (apply in_map_iff; exists (RNode c ccs); auto).
  apply (classify_loop_some hp cs c (hes_at c s) (hes_at p s) 0 []); try constructor.
  - intros e e2 He [[q [[] _]]|He2] Hne EL EO.
    destruct (S e _ He Ht) as (jf & Hjf & Es). destruct (S e2 _ He2 Ht) as (jf2 & Hjf2 & Es2). cbn [rid] in Es, Es2.
    rewrite EJ in Hjf, Hjf2.
    unfold conflict, p_cutv. rewrite Es, Es2, HB, !us_on_base by auto. cbn [leqb]. unfold oid_eqb. cbn [fst snd].
    destruct (Nat.eqb (fst jf) (fst jf2)) eqn:E; [|cbn [andb]; apply andb_false_r].
    apply Nat.eqb_eq in E. exfalso. apply Hne. eapply (NoDup_map_inj key1 (hes_at p s)); eauto. unfold key1. f_equal; auto.
    apply (hverts_of_parts hp cs c); auto. unfold p_cutv. rewrite Es, Es2, E. reflexivity.
  - cbn [map concat app]. eapply NoDup_map_inv. exact R.
Qed.

(* ====================================================================================== *)
(* 2. the extra invariant of a frontier node; Gamma has no empty row and no empty column    *)
(* ====================================================================================== *)
Definition XF (s : list he) (p : nat) (hp : bool) (cs todo : list rtree) : Prop :=
  hes_at p s <> [] /\
  (forall h, In h (hes_at p s) -> cnz (coef_of h) = true) /\
  (forall g, In g todo -> hes_at (rid g) s <> []) /\
  (forall g u, In g todo -> In u (hes_at (rid g) s) ->
     exists h, In h (hes_at p s) /\ p_cutv hp cs (rid g) h = Some (head_vertex u)).

Lemma gamma_entry_some : forall hp cs c u cl e,
  In e cl -> p_cutv hp cs c e = Some (head_vertex u) ->
  exists e', In e' cl /\ gamma_entry hp cs c u cl = Some (coef_of e').
Proof.
  intros hp cs c u cl e He Ee. unfold gamma_entry.
  destruct (find (fun e0 => oeqb oid_eqb (p_cutv hp cs c e0) (Some (head_vertex u))) (rev cl)) as [e'|] eqn:F.
  - apply find_some in F. destruct F as [Hin _]. apply in_rev in Hin. eauto.
  - exfalso. assert (Hr : In e (rev cl)) by (apply -> in_rev; exact He).
    pose proof (find_none _ _ F e Hr) as Hf. cbv beta in Hf. rewrite Ee in Hf. cbn [oeqb] in Hf. rewrite oid_eqb_refl in Hf. discriminate.
Qed.

Lemma nth_index : forall {A} (l : list A) (d a : A), In a l -> exists i, i < length l /\ nth i l d = a.
Proof. intros A l d a H. apply In_nth. exact H. Qed.

Section GammaFull.
  Variables (s : list he) (p : nat) (hp : bool) (cs : list rtree) (c : nat) (ccs : list rtree).
  Variables (Jc : rtree -> tlist) (todo : list rtree) (J : tlist).
  Hypothesis Hc : In (RNode c ccs) cs.
  Hypothesis Htodo : In (RNode c ccs) todo.
  Hypothesis EJ : Jc (RNode c ccs) = J.
  Hypothesis HCP : CutPar s p hp cs Jc todo.
  Hypothesis HB : BaseAt s J (RNode c ccs).
  Hypothesis HX : XF s p hp cs todo.
  Variable classes : list vclass.
  Hypothesis Hcl : classify hp cs c (hes_at c s) (hes_at p s) = Some classes.
  Let us := hes_at c s.
  Let m := length us.
  Let n := length classes.
  Let G := gamma hp cs c us classes.

  Lemma gf_m : 1 <= m.
  Proof.
    destruct HX as (_ & _ & X3 & _). specialize (X3 _ Htodo). cbn [rid] in X3. unfold m, us.
    destruct (hes_at c s); [contradiction | cbn [length]; lia].
  Qed.
  Lemma gf_n : 1 <= n.
  Proof.
    destruct HX as (X1 & _). destruct (classify_spec hp cs c _ _ classes Hcl) as [_ Hperm]. unfold n.
    destruct classes; [|cbn [length]; lia]. cbn [map concat] in Hperm. apply Permutation_nil in Hperm. contradiction.
  Qed.
  Lemma gf_class_of : forall h, In h (hes_at p s) -> exists j, j < n /\ In h (snd (nth j classes dq)).
  Proof.
    intros h Hh. destruct (classify_spec hp cs c _ _ classes Hcl) as [_ Hperm].
    apply (Permutation_in _ (Permutation_sym Hperm)) in Hh. apply in_concat in Hh. destruct Hh as [l [Hl Hh]].
    apply in_map_iff in Hl. destruct Hl as [q [E Hq]]. subst l. destruct (nth_index classes dq q Hq) as [j [Hj Ej]].
    exists j. rewrite Ej. auto.
  Qed.
  Lemma gf_supp : forall i j e, i < m -> j < n -> In e (snd (nth j classes dq)) ->
    p_cutv hp cs c e = Some (head_vertex (nth i us dummy_he)) -> gsupp G i j = true.
  Proof.
    intros i j e Hi Hj He Ee. unfold gsupp, G. rewrite gentry_gamma by assumption.
    destruct (gamma_entry_some hp cs c _ _ e He Ee) as [e' [He' Eg]]. rewrite Eg.
    destruct HX as (_ & X2 & _). apply X2. destruct (classify_spec hp cs c _ _ classes Hcl) as [_ Hperm].
    apply (Permutation_in _ Hperm). apply in_concat. exists (snd (nth j classes dq)). split; auto. apply in_map. apply nth_In. exact Hj.
  Qed.
  Lemma gf_row : forall i, i < m -> exists j, j < n /\ gsupp G i j = true.
  Proof.
    intros i Hi. destruct HX as (_ & _ & _ & X4).
    assert (Hu : In (nth i us dummy_he) (hes_at (rid (RNode c ccs)) s)) by (apply nth_In; exact Hi).
    destruct (X4 _ _ Htodo Hu) as [h [Hh Eh]]. cbn [rid] in Eh. destruct (gf_class_of h Hh) as [j [Hj Hin]].
    exists j. split; auto. eapply gf_supp; eauto.
  Qed.
  Lemma gf_col : forall j, j < n -> exists i, i < m /\ gsupp G i j = true.
  Proof.
    intros j Hj. destruct (classify_spec hp cs c _ _ classes Hcl) as [Hok Hperm]. rewrite Forall_forall in Hok.
    assert (Hq : In (nth j classes dq) classes) by (apply nth_In; exact Hj).
    destruct (Hok _ Hq) as [Hne _]. destruct (snd (nth j classes dq)) as [|e r] eqn:Eq; [contradiction|].
    assert (Hep : In e (hes_at p s)).
    { apply (Permutation_in _ Hperm). apply in_concat. exists (snd (nth j classes dq)). split; [apply in_map; exact Hq | rewrite Eq; left; reflexivity]. }
    destruct HCP as [L S R]. destruct (S e _ Hep Htodo) as (jf & Hjf & Es). cbn [rid] in Es. rewrite EJ in Hjf.
    unfold BaseAt in HB. cbn [rid rchildren] in HB.
    assert (Hu : In (bhe jf c ccs) us) by (unfold us; rewrite HB; apply (in_map (fun a => bhe a c ccs)); exact Hjf).
    destruct (nth_index us dummy_he _ Hu) as [i [Hi Ei]]. exists i. split; [exact Hi|].
    apply (gf_supp i j e Hi Hj); [rewrite Eq; left; reflexivity|]. fold us. rewrite Ei. exact Es.
  Qed.
End GammaFull.

(* ====================================================================================== *)
(* 3. every u and every class representative is placed on a new vertex                      *)
(* ====================================================================================== *)
Lemma resolve_first_U : forall oU oV nU nV pl sU sV q w i cf,
  In (w, (SU, i, cf)) pl -> ~ In i sU -> exists x, first_pl SU i (resolve oU oV nU nV pl sU sV q) = Some x.
Proof.
  intros oU oV nU nV. induction pl as [|[w' [[sd i'] cf']] pl IH]; intros sU sV q w i cf Hin Hn; [destruct Hin|].
  cbn [resolve]. destruct sd.
  - destruct (mem i' sU) eqn:E.
    + unfold first_pl. cbn [find is_pl r_side r_copy side_eqb Bool.eqb andb]. apply (IH sU sV (S q) w i cf); auto.
      destruct Hin as [Hin|Hin]; auto. inversion Hin; subst. apply mem_In in E. contradiction.
    + unfold first_pl. cbn [find is_pl r_side r_copy r_ix side_eqb Bool.eqb andb].
      destruct (Nat.eqb i' i) eqn:Ei; [eauto|]. apply Nat.eqb_neq in Ei. apply (IH (i' :: sU) sV q w i cf).
      * destruct Hin as [Hin|Hin]; auto. inversion Hin; subst. contradiction.
      * intros [H|H]; auto.
  - destruct Hin as [Hin|Hin]; [discriminate|].
    destruct (mem i' sV); unfold first_pl; cbn [find is_pl r_side r_copy r_ix side_eqb Bool.eqb andb]; eapply IH; eauto.
Qed.
Lemma resolve_first_V : forall oU oV nU nV pl sU sV q w j cf,
  In (w, (SV, j, cf)) pl -> ~ In j sV -> exists x, first_pl SV j (resolve oU oV nU nV pl sU sV q) = Some x.
Proof.
  intros oU oV nU nV. induction pl as [|[w' [[sd i'] cf']] pl IH]; intros sU sV q w j cf Hin Hn; [destruct Hin|].
  cbn [resolve]. destruct sd.
  - destruct Hin as [Hin|Hin]; [discriminate|].
    destruct (mem i' sU); unfold first_pl; cbn [find is_pl r_side r_copy r_ix side_eqb Bool.eqb andb]; eapply IH; eauto.
  - destruct (mem i' sV) eqn:E.
    + unfold first_pl. cbn [find is_pl r_side r_copy side_eqb Bool.eqb andb]. apply (IH sU sV (S q) w j cf); auto.
      destruct Hin as [Hin|Hin]; auto. inversion Hin; subst. apply mem_In in E. contradiction.
    + unfold first_pl. cbn [find is_pl r_side r_copy r_ix side_eqb Bool.eqb andb].
      destruct (Nat.eqb i' j) eqn:Ei; [eauto|]. apply Nat.eqb_neq in Ei. apply (IH sU (i' :: sV) q w j cf).
      * destruct Hin as [Hin|Hin]; auto. inversion Hin; subst. contradiction.
      * intros [H|H]; auto.
Qed.

Lemma number_pl_mem : forall {A} (L : list (list A)) k l a, In l L -> In a l -> exists w, In (w, a) (number_pl k L).
Proof.
  intros A L. induction L as [|x L IH]; intros k l a Hl Ha; [destruct Hl|]. cbn [number_pl]. destruct Hl as [E|Hl].
  - subst x. exists k. apply in_or_app. left. apply in_map. exact Ha.
  - destruct (IH (S k) l a Hl Ha) as [w Hw]. exists w. apply in_or_app. right. exact Hw.
Qed.

Section Placed.
  Variables (G : list (list (option coefq))) (m n : nat) (Cu Cv : list nat).
  Hypothesis Hcov : forall a b, a < m -> b < n -> gsupp G a b = true -> In a Cu \/ In b Cv.

  Lemma nv_in : forall l a, In l (map (row_pl G n) Cu ++ map (col_pl G m Cu) Cv) -> In a l -> In l (new_vertices_pl G m n Cu Cv).
  Proof. intros l a Hl Ha. unfold new_vertices_pl. apply filter_In. split; auto. destruct l; [destruct Ha | reflexivity]. Qed.

  Lemma placed_U : forall i j, i < m -> j < n -> gsupp G i j = true ->
    exists l cf, In l (new_vertices_pl G m n Cu Cv) /\ In (SU, i, cf) l.
  Proof.
    intros i j Hi Hj Hs. destruct (mem i Cu) eqn:E.
    - apply mem_In in E. exists (row_pl G n i), cone.
      assert (Hin : In (SU, i, cone) (row_pl G n i)).
      { unfold row_pl. destruct (filter (gsupp G i) (seq 0 n)) as [|j0 r] eqn:F; [|left; reflexivity].
        assert (Hj' : In j (filter (gsupp G i) (seq 0 n))) by (apply filter_In; split; [apply in_seq; lia | exact Hs]).
        rewrite F in Hj'. destruct Hj'. }
      split; [|exact Hin]. eapply nv_in; [|exact Hin]. apply in_or_app. left. apply in_map. exact E.
    - pose proof E as E'. apply mem_false in E'. destruct (Hcov i j Hi Hj Hs) as [H|H]; [contradiction|].
      exists (col_pl G m Cu j), (gcoef G i j).
      assert (Hin : In (SU, i, gcoef G i j) (col_pl G m Cu j)).
      { unfold col_pl.
        assert (Hi' : In i (filter (fun i => gsupp G i j && negb (mem i Cu)) (seq 0 m))).
        { apply filter_In. split; [apply in_seq; lia|]. rewrite Hs, E. reflexivity. }
        destruct (filter (fun i => gsupp G i j && negb (mem i Cu)) (seq 0 m)) as [|i0 r]; [destruct Hi'|].
        destruct Hi' as [Ei|Hi']; [subst i0; left; reflexivity|]. right. right. apply in_map_iff. exists i. auto. }
      split; [|exact Hin]. eapply nv_in; [|exact Hin]. apply in_or_app. right. apply in_map. exact H.
  Qed.
  Lemma placed_V : forall i j, i < m -> j < n -> gsupp G i j = true ->
    exists l cf, In l (new_vertices_pl G m n Cu Cv) /\ In (SV, j, cf) l.
  Proof.
    intros i j Hi Hj Hs. destruct (mem i Cu) eqn:E.
    - apply mem_In in E. exists (row_pl G n i), (gcoef G i j).
      assert (Hin : In (SV, j, gcoef G i j) (row_pl G n i)).
      { unfold row_pl.
        assert (Hj' : In j (filter (gsupp G i) (seq 0 n))) by (apply filter_In; split; [apply in_seq; lia | exact Hs]).
        destruct (filter (gsupp G i) (seq 0 n)) as [|j0 r] eqn:F; [destruct Hj'|]. right.
        apply in_map_iff. exists j. auto. }
      split; [|exact Hin]. eapply nv_in; [|exact Hin]. apply in_or_app. left. apply in_map. exact E.
    - pose proof E as E'. apply mem_false in E'. destruct (Hcov i j Hi Hj Hs) as [H|H]; [contradiction|].
      exists (col_pl G m Cu j), cone.
      assert (Hin : In (SV, j, cone) (col_pl G m Cu j)).
      { unfold col_pl.
        assert (Hi' : In i (filter (fun i => gsupp G i j && negb (mem i Cu)) (seq 0 m))).
        { apply filter_In. split; [apply in_seq; lia|]. rewrite Hs, E. reflexivity. }
        destruct (filter (fun i => gsupp G i j && negb (mem i Cu)) (seq 0 m)) as [|i0 r]; [destruct Hi'|].
        right. left. reflexivity. }
      split; [|exact Hin]. eapply nv_in; [|exact Hin]. apply in_or_app. right. apply in_map. exact H.
  Qed.

  (* every coefficient put on a hyperedge is != 0 *)
  Lemma gsupp_cnz : forall i j, gsupp G i j = true -> cnz (gcoef G i j) = true.
  Proof. intros i j H. unfold gsupp, gcoef in *. destruct (gentry G i j); [exact H | discriminate]. Qed.
  Lemma placed_cnz : forall l sd ix cf, In l (new_vertices_pl G m n Cu Cv) -> In (sd, ix, cf) l -> cnz cf = true.
  Proof.
    intros l sd ix cf Hl Ha. unfold new_vertices_pl in Hl. apply filter_In in Hl. destruct Hl as [Hl _].
    apply in_app_or in Hl. destruct Hl as [Hl|Hl]; apply in_map_iff in Hl; destruct Hl as [k [E Hk]]; subst l.
    - unfold row_pl in Ha. destruct (filter (gsupp G k) (seq 0 n)) as [|j0 r] eqn:F; [destruct Ha|].
      destruct Ha as [Ha|Ha]; [inversion Ha; reflexivity|]. apply in_map_iff in Ha. destruct Ha as [j [E Hj]]. inversion E; subst.
      rewrite <- F in Hj. apply filter_In in Hj. apply gsupp_cnz. tauto.
    - unfold col_pl in Ha. destruct (filter (fun i => gsupp G i k && negb (mem i Cu)) (seq 0 m)) as [|i0 r] eqn:F; [destruct Ha|].
      assert (Hall : forall i, In i (i0 :: r) -> gsupp G i k = true).
      { intros i Hi. rewrite <- F in Hi. apply filter_In in Hi. destruct Hi as [_ Hi]. apply andb_true_iff in Hi. tauto. }
      destruct Ha as [Ha|[Ha|Ha]].
      + inversion Ha; subst. apply gsupp_cnz. apply Hall. left. reflexivity.
      + inversion Ha. reflexivity.
      + apply in_map_iff in Ha. destruct Ha as [i [E Hi]]. inversion E; subst. apply gsupp_cnz. apply Hall. right. exact Hi.
  Qed.
End Placed.

(* ====================================================================================== *)
(* 4. one cut_and_optimise call does not fail                                               *)
(* ====================================================================================== *)
Lemma cut_diagram_accepts : forall p hp cs c ccs fr d Jc todo J,
  In (RNode c ccs) cs -> In (RNode c ccs) todo -> Jc (RNode c ccs) = J ->
  CutPar (hes d) p hp cs Jc todo -> BaseAt (hes d) J (RNode c ccs) -> NoDup (map fst J) ->
  XF (hes d) p hp cs todo ->
  exists res, cut_diagram p hp cs c fr d = Some res.
Proof.
  intros p hp cs c ccs fr d Jc todo J Hc Ht EJ HCP HB NDJ HX.
  destruct (classify_some (hes d) p hp cs c ccs Jc todo J Hc Ht EJ HCP HB NDJ) as [classes Hcl].
  pose proof (gf_m (hes d) p hp cs c ccs todo Ht HX classes Hcl) as Hm.
  pose proof (gf_n (hes d) p hp cs c todo HX classes Hcl) as Hn.
  pose proof (gf_row (hes d) p hp cs c ccs todo Ht HX classes Hcl) as Hrow.
  pose proof (gf_col (hes d) p hp cs c ccs Jc todo J Ht EJ HCP HB HX classes Hcl) as Hcol.
  cbv zeta in Hm, Hn, Hrow, Hcol.
  unfold cut_diagram. rewrite Hcl.
  set (us0 := hes_at c (hes d)) in *. set (m := length us0) in *. set (n := length classes) in *.
  set (G := gamma hp cs c us0 classes) in *.
  assert (Hmn : Nat.leb 1 m && Nat.leb 1 n = true) by (apply andb_true_iff; split; apply Nat.leb_le; assumption).
  rewrite Hmn.
  assert (Hok : PTN.Bip.ModelProofs.edges_ok m n (gedges G m n)).
  { intros u v Hin. apply gedges_in in Hin. tauto. }
  destruct (PTN.Bip.ModelProofs.mvc_main m n (gedges G m n) Hok) as (r & Em & Ea & _ & _ & R1 & R2 & R3 & R4 & Hcv & _).
  rewrite Em, Ea.
  assert (Hcov : forall a b, a < m -> b < n -> gsupp G a b = true -> In a (B.r_ucover r) \/ In b (B.r_vcover r)).
  { intros a b Ha Hb Hs. apply Hcv. apply gedges_in. auto. }
  set (reps0 := map (fun q : vclass => hd dummy_he (snd q)) classes) in *.
  set (nv := new_vertices_pl G m n (B.r_ucover r) (B.r_vcover r)) in *.
  set (rs0 := resolve (fun i => hid (nth i us0 dummy_he)) (fun j => hid (nth j reps0 dummy_he)) c p
                      (number_pl 0 nv) [] [] (fr + length nv)) in *.
  match goal with |- context [if ?b then _ else None] => assert (Hb : b = true) end.
  { apply andb_true_iff. split; apply forallb_forall.
    - intros i Hi. apply in_seq in Hi. destruct (Hrow i) as [j [Hj Hs]]; [lia|].
      destruct (placed_U G m n _ _ Hcov i j) as (l & cf & Hl & Ha); auto; [lia|].
      destruct (number_pl_mem nv 0 l _ Hl Ha) as [w Hw].
      destruct (resolve_first_U (fun i => hid (nth i us0 dummy_he)) (fun j => hid (nth j reps0 dummy_he)) c p
                                (number_pl 0 nv) [] [] (fr + length nv) w i cf Hw) as [x Hx]; [intros []|].
      fold rs0 in Hx. change (match first_pl SU i rs0 with Some _ => true | None => false end = true). rewrite Hx. reflexivity.
    - intros j Hj. apply in_seq in Hj. destruct (Hcol j) as [i [Hi Hs]]; [lia|].
      destruct (placed_V G m n _ _ Hcov i j) as (l & cf & Hl & Ha); auto; [lia|].
      destruct (number_pl_mem nv 0 l _ Hl Ha) as [w Hw].
      destruct (resolve_first_V (fun i => hid (nth i us0 dummy_he)) (fun j => hid (nth j reps0 dummy_he)) c p
                                (number_pl 0 nv) [] [] (fr + length nv) w j cf Hw) as [x Hx]; [intros []|].
      fold rs0 in Hx. change (match first_pl SV j rs0 with Some _ => true | None => false end = true). rewrite Hx. reflexivity. }
  rewrite Hb. eauto.
Qed.

(* ====================================================================================== *)
(* 5. the extra invariant after one cut                                                     *)
(* ====================================================================================== *)
Lemma drop_slot : forall cs c c' (vs vs' : list oid), length vs = length vs' -> c' <> c ->
  drop_at cs c vs = drop_at cs c vs' -> slot_vertex cs c' vs = slot_vertex cs c' vs'.
Proof.
  induction cs as [|k cs IH]; intros c c' vs vs' L Hne D; [destruct vs, vs'; reflexivity|].
  destruct vs as [|y vs], vs' as [|y' vs']; try discriminate; [reflexivity|].
  cbn [drop_at slot_vertex] in *. destruct (Nat.eqb (rid k) c) eqn:E.
  - apply Nat.eqb_eq in E. replace (Nat.eqb (rid k) c') with false by (symmetry; apply Nat.eqb_neq; congruence).
    subst vs'. reflexivity.
  - inversion D; subst. destruct (Nat.eqb (rid k) c'); [reflexivity|]. apply (IH c); auto.
Qed.
Lemma others_slot : forall (hp : bool) cs c c' h h', c' <> c ->
  length (hverts h) = (if hp then 1 else 0) + length cs -> length (hverts h') = (if hp then 1 else 0) + length cs ->
  p_others hp cs c h = p_others hp cs c h' -> p_cutv hp cs c' h = p_cutv hp cs c' h'.
Proof.
  intros hp cs c c' h h' Hne L L' O. unfold p_others, p_cutv, child_part in *. destruct hp.
  - destruct (hverts h) as [|q r]; [discriminate|]. destruct (hverts h') as [|q' r']; [discriminate|].
    cbn [firstn app tl length] in *. inversion O. apply (drop_slot cs c c'); auto; lia.
  - cbn [app] in O. apply (drop_slot cs c c'); auto; lia.
Qed.

Lemma newV_members : forall p hp cs c fr reps n rs h,
  (forall j, j < n -> exists x, first_pl SV j rs = Some x) ->
  In h (newV_of p hp cs c fr reps n rs) -> exists x v, In x rs /\ h = place_v p hp cs c fr v x.
Proof.
  intros p hp cs c fr reps n rs h HgV Hh. unfold newV_of in Hh. apply in_app_or in Hh.
  destruct Hh as [Hh|Hh]; apply in_map_iff in Hh; destruct Hh as [y [E Hy]].
  - apply in_seq in Hy. destruct (HgV y) as [x Hx]; [lia|]. rewrite Hx in E. unfold first_pl in Hx. apply find_some in Hx.
    destruct Hx as [Hin _]. eauto.
  - apply filter_In in Hy. destruct Hy as [Hin _]. eauto.
Qed.
Lemma newU_members : forall c fr us m rs h,
  (forall i, i < m -> exists x, first_pl SU i rs = Some x) ->
  In h (newU_of c fr us m rs) -> exists x u, In x rs /\ h = place_u c fr u x.
Proof.
  intros c fr us m rs h HgU Hh. unfold newU_of in Hh. apply in_app_or in Hh.
  destruct Hh as [Hh|Hh]; apply in_map_iff in Hh; destruct Hh as [y [E Hy]].
  - apply in_seq in Hy. destruct (HgU y) as [x Hx]; [lia|]. rewrite Hx in E. unfold first_pl in Hx. apply find_some in Hx.
    destruct Hx as [Hin _]. eauto.
  - apply filter_In in Hy. destruct Hy as [Hin _]. eauto.
Qed.

Lemma cut_step_X : forall t p hp cs c ccs st st' Jc todo,
  NoDup (ids t) -> node_at t false p hp cs -> In (RNode c ccs) cs -> In (RNode c ccs) todo -> incl todo cs ->
  cut_step t c st = Some st' ->
  BaseBelow (hes (p_sd st)) (Jc (RNode c ccs)) (RNode c ccs) ->
  CutPar (hes (p_sd st)) p hp cs Jc todo ->
  XF (hes (p_sd st)) p hp cs todo ->
  (forall todo', (forall g', In g' todo' -> In g' todo /\ rid g' <> c) -> XF (hes (p_sd st')) p hp cs todo') /\
  XF (hes (p_sd st')) c true ccs ccs.
Proof.
  intros t p hp cs c ccs st st' Jc todo ND Hn Hc Htodo Hincl Hstep HB HCP HX.
  assert (NDp : NoDup (ids (RNode p cs))) by (eapply is_subtree_wf; [eapply node_at_subtree; eauto | exact ND]).
  destruct (edge_tree_facts p cs c ccs NDp Hc) as (Hpc & _ & Hbelow).
  unfold cut_step in Hstep. change c with (rid (RNode c ccs)) in Hstep at 1.
  rewrite (find_parent_complete t false p hp cs (RNode c ccs) ND Hn Hc) in Hstep.
  destruct (cut_diagram p hp cs c (p_next st) (p_sd st)) as [[[[[d' rs] us] reps] nw]|] eqn:D; [|discriminate].
  inversion Hstep; subst st'. clear Hstep. cbn [p_sd p_hash p_next].
  destruct (cut_diagram_spec p hp cs c (p_next st) (p_sd st) d' rs us reps nw Hpc D)
    as (classes & r & Hcl & Eus & Ereps & Hmvc & Enw & Ers & HgU & HgV & Ep & Ec & Eo & _).
  set (s := hes (p_sd st)) in *. set (s' := hes d') in *. set (fr := p_next st) in *.
  set (J := Jc (RNode c ccs)) in *.
  pose proof (HB _ (sub_here _)) as HBc. unfold BaseAt in HBc. cbn [rid rchildren] in HBc. fold s in HBc.
  pose proof (gf_m s p hp cs c ccs todo Htodo HX classes Hcl) as Hm.
  pose proof (gf_n s p hp cs c todo HX classes Hcl) as Hnn.
  cbv zeta in Hm, Hnn.
  set (G := gamma hp cs c us classes) in *. set (m := length us) in *. set (n := length classes) in *.
  rewrite <- Eus in Hm. fold m in Hm.
  (* all coefficients that are placed are != 0 *)
  assert (Hcf : forall x, In x rs -> cnz (r_cf x) = true).
  { intros x Hx. pose proof (resolve_keys (fun i => hid (nth i us dummy_he)) (fun j => hid (nth j reps dummy_he)) c p
                              (number_pl 0 (new_vertices_pl G m n (B.r_ucover r) (B.r_vcover r))) [] [] (fr + nw)) as Hk.
    rewrite <- Ers in Hk. assert (Hin : In (rkey x) (map rkey rs)) by (apply in_map; exact Hx). rewrite Hk in Hin.
    unfold rkey in Hin. destruct (number_pl_in _ _ _ _ Hin) as [l [Hl Ha]].
    eapply placed_cnz; eauto. }
  destruct HX as (X1 & X2 & X3 & X4). pose proof HCP as [L S R].
  assert (Hcoef : forall v x, coef_of (place_v p hp cs c fr v x) = r_cf x)
    by (intros v x; unfold coef_of, place_v; cbn [hlam hgam]; destruct (r_cf x); reflexivity).
  assert (Hcoefu : forall u x, coef_of (place_u c fr u x) = r_cf x)
    by (intros u x; unfold coef_of, place_u; cbn [hlam hgam]; destruct (r_cf x); reflexivity).
  split.
  - intros todo' Htd. split; [|split; [|split]].
    + rewrite Ep. unfold newV_of. fold n. destruct n; [lia|]. cbn [seq map app]. discriminate.
    + intros h Hh. rewrite Ep in Hh. destruct (newV_members _ _ _ _ _ _ _ _ _ HgV Hh) as (x & v & Hx & E). subst h.
      rewrite Hcoef. apply Hcf. exact Hx.
    + intros g Hg. destruct (Htd g Hg) as [Hg' Hne]. rewrite Eo; [apply X3; exact Hg' | | exact Hne].
      intros E. eapply (wf_root_notin_child p cs g NDp); [apply Hincl; exact Hg'|]. rewrite <- E. apply rid_in_ids.
    + intros g u Hg Hu. destruct (Htd g Hg) as [Hg' Hne].
      assert (Hgp : rid g <> p).
      { intros E. eapply (wf_root_notin_child p cs g NDp); [apply Hincl; exact Hg'|]. rewrite <- E. apply rid_in_ids. }
      rewrite Eo in Hu by assumption. destruct (X4 g u Hg' Hu) as [h [Hh Eh]].
      destruct (gf_class_of s p hp cs c classes Hcl h Hh) as [j [Hj Hin]]. fold n in Hj.
      destruct (HgV j Hj) as [x Hx].
      exists (place_v p hp cs c fr (nth j reps dummy_he) x). split.
      * rewrite Ep. unfold newV_of. apply in_or_app. left. apply in_map_iff. exists j. rewrite Hx. split; [reflexivity | apply in_seq; lia].
      * rewrite <- Eh.
        assert (Hrep : In (nth j reps dummy_he) (hes_at p s)) by (rewrite Ereps; apply (rep_in s p hp cs c classes Hcl j Hj)).
        pose proof (L _ Hrep) as Lr. pose proof (L _ Hh) as Lh.
        assert (Nr : hp = true -> hverts (nth j reps dummy_he) <> []).
        { intros E. subst hp. intros E. rewrite E in Lr. discriminate. }
        transitivity (p_cutv hp cs (rid g) (nth j reps dummy_he)).
        { unfold p_cutv.
          assert (CPh : child_part hp (place_v p hp cs c fr (nth j reps dummy_he) x)
                        = set_at cs c (vertex_name c fr (r_w x)) (child_part hp (nth j reps dummy_he))).
          { unfold place_v. unfold child_part, p_set. cbn [hverts]. destruct hp; [|reflexivity].
            destruct (hverts (nth j reps dummy_he)) as [|q rr]; [exfalso; apply Nr; auto|]. reflexivity. }
          rewrite CPh. apply slot_set_at_other. exact Hne. }
        apply (others_slot hp cs c (rid g)); auto.
        destruct (classify_spec hp cs c _ _ classes Hcl) as [Hok _]. rewrite Forall_forall in Hok.
        assert (Hq : In (nth j classes dq) classes) by (apply nth_In; exact Hj).
        destruct (Hok _ Hq) as [Hne' Hu']. destruct (Hu' h Hin) as [_ O1].
        assert (Erj : nth j reps dummy_he = hd dummy_he (snd (nth j classes dq))).
        { rewrite Ereps. apply (nth_map_lt (fun q : vclass => hd dummy_he (snd q)) classes dq dummy_he _ Hj). }
        assert (Hrin : In (nth j reps dummy_he) (snd (nth j classes dq))).
        { rewrite Erj. destruct (snd (nth j classes dq)); [contradiction | left; reflexivity]. }
        destruct (Hu' _ Hrin) as [_ O2]. congruence.
  - assert (NDc : NoDup (ids (RNode c ccs))) by (eapply wf_child; eauto).
    pose proof (children_rid_nodup c ccs NDc) as NDr.
    assert (Hus : us = map (fun jf => bhe jf c ccs) J) by (rewrite Eus; exact HBc).
    assert (HJ : J <> []).
    { intros E. specialize (X3 _ Htodo). cbn [rid] in X3. apply X3. rewrite HBc, E. reflexivity. }
    assert (Hsame : forall g, In g ccs -> hes_at (rid g) s' = map (fun jf => bhe jf (rid g) (rchildren g)) J).
    { intros g Hg. destruct (Hbelow g (rid g) Hg (rid_in_ids g)) as [N1 N2]. rewrite Eo by assumption.
      apply (HB g). eapply sub_child; [exact Hg | apply sub_here]. }
    split; [|split; [|split]].
    + rewrite Ec. unfold newU_of. fold m. destruct m; [lia|]. cbn [seq map app]. discriminate.
    + intros h Hh. rewrite Ec in Hh. destruct (newU_members _ _ _ _ _ _ HgU Hh) as (x & u & Hx & E). subst h.
      rewrite Hcoefu. apply Hcf. exact Hx.
    + intros g Hg. rewrite (Hsame g Hg). destruct J; [contradiction | discriminate].
    + intros g u Hg Hu. rewrite (Hsame g Hg) in Hu. apply in_map_iff in Hu. destruct Hu as [jf [E Hjf]]. subst u.
      destruct (nth_index J dj jf Hjf) as [i [Hi Ei]].
      assert (Him : i < m) by (unfold m; rewrite Hus, map_length; exact Hi).
      destruct (HgU i Him) as [x Hx].
      exists (place_u c fr (nth i us dummy_he) x). split.
      * rewrite Ec. unfold newU_of. apply in_or_app. left. apply in_map_iff. exists i. rewrite Hx. split; [reflexivity | apply in_seq; lia].
      * rewrite Hus, (nth_map_lt (fun jf => bhe jf c ccs) J dj dummy_he i Hi), Ei.
        unfold p_cutv, child_part, place_u, head_vertex, bhe. cbn [hverts tl].
        apply (slot_vertex_map ccs g (fun _ => fst jf)); auto.
Qed.

Lemma cut_step_accepts : forall t p hp cs c ccs st Jc todo,
  NoDup (ids t) -> node_at t false p hp cs -> In (RNode c ccs) cs -> In (RNode c ccs) todo ->
  BaseBelow (hes (p_sd st)) (Jc (RNode c ccs)) (RNode c ccs) -> NoDup (map fst (Jc (RNode c ccs))) ->
  CutPar (hes (p_sd st)) p hp cs Jc todo -> XF (hes (p_sd st)) p hp cs todo ->
  exists st', cut_step t c st = Some st'.
Proof.
  intros t p hp cs c ccs st Jc todo ND Hn Hc Htodo HB NDJ HCP HX.
  unfold cut_step. change c with (rid (RNode c ccs)) at 1.
  rewrite (find_parent_complete t false p hp cs (RNode c ccs) ND Hn Hc).
  destruct (cut_diagram_accepts p hp cs c ccs (p_next st) (p_sd st) Jc todo _ Hc Htodo eq_refl HCP (HB _ (sub_here _)) NDJ HX)
    as [[[[[d' rs] us] reps] nw] E].
  rewrite E. eauto.
Qed.

(* ====================================================================================== *)
(* 6. combine_subtrees keeps the extra invariant                                            *)
(* ====================================================================================== *)
Lemma slot_subst_other : forall cs c c' x1 x2 vs, c' <> c -> slot_vertex cs c' (subst_at cs c x1 x2 vs) = slot_vertex cs c' vs.
Proof.
  induction cs as [|k cs IH]; intros c c' x1 x2 vs Hne; destruct vs as [|y vs]; cbn [subst_at slot_vertex]; auto.
  destruct (Nat.eqb (rid k) c) eqn:E; cbn [slot_vertex].
  - apply Nat.eqb_eq in E. replace (Nat.eqb (rid k) c') with false; [reflexivity|]. symmetry. apply Nat.eqb_neq. congruence.
  - destruct (Nat.eqb (rid k) c'); auto.
Qed.
Lemma slot_subst_same : forall cs c x1 x2 vs y, slot_vertex cs c vs = Some y ->
  slot_vertex cs c (subst_at cs c x1 x2 vs) = Some (if oid_eqb y x2 then x1 else y).
Proof.
  induction cs as [|k cs IH]; intros c x1 x2 vs y H; destruct vs as [|z vs]; cbn [subst_at slot_vertex] in *; try discriminate.
  destruct (Nat.eqb (rid k) c) eqn:E; cbn [slot_vertex]; rewrite ?E.
  - inversion H; subst. reflexivity.
  - apply IH. exact H.
Qed.

Section CombineX.
  Variables (t : rtree) (p : nat) (hp : bool) (cs : list rtree) (c : nat) (tc : rtree) (tb : list (oid * list nat)).
  Hypothesis ND : NoDup (ids t).
  Hypothesis HF : find_parent t false c = Some (p, hp, cs).
  Hypothesis HS : subtree c t = Some tc.

  Lemma merge_X : forall d Jc jf1 jf2,
    NoDup (map fst (Jc tc)) -> In jf1 (Jc tc) -> In jf2 (Jc tc) -> fst jf1 <> fst jf2 ->
    BaseBelow (hes d) (Jc tc) tc -> down (snd jf1) tc = down (snd jf2) tc -> Typed t (hes d) ->
    (forall h, In h (hes_at p (hes d)) -> PH tb p hp cs Jc h) ->
    XF (hes d) p hp cs cs ->
    XF (hes (merge t c (fst jf1, c) (fst jf2, c) d)) p hp cs cs.
  Proof.
    intros d Jc jf1 jf2 A H1 H2 Hne B Ed C D (X1 & X2 & X3 & X4).
    destruct (merge_step t p hp cs c tc tb ND HF HS d Jc jf1 jf2 A H1 H2 Hne B Ed C D) as (M1 & M2 & M3 & M4 & M5 & M6).
    destruct (cl_facts t p hp cs c tc ND HF HS) as (Ec & Hk & NDr & Hpc).
    destruct (find_parent_node_at _ _ _ _ _ _ HF) as [Hn _].
    assert (NDp : NoDup (ids (RNode p cs))) by (eapply is_subtree_wf; [eapply node_at_subtree; eauto | exact ND]).
    set (d1 := merge t c (fst jf1, c) (fst jf2, c) d) in *.
    assert (Ejc : upd_J Jc c (drop_term (fst jf2) (Jc tc)) tc = drop_term (fst jf2) (Jc tc))
      by (apply (upd_J_tc t p hp cs c tc ND HF HS)).
    assert (Hc1 : hes_at c (hes d1) = map (fun jf => bhe jf c (rchildren tc)) (drop_term (fst jf2) (Jc tc))).
    { pose proof (M1 tc (sub_here _)) as Hb. unfold BaseAt in Hb. rewrite Ec, Ejc in Hb. exact Hb. }
    assert (Hc0 : hes_at c (hes d) = map (fun jf => bhe jf c (rchildren tc)) (Jc tc)).
    { pose proof (B tc (sub_here _)) as Hb. unfold BaseAt in Hb. rewrite Ec in Hb. exact Hb. }
    assert (Hoth : forall g, In g cs -> rid g <> c -> hes_at (rid g) (hes d1) = hes_at (rid g) (hes d)).
    { intros g Hg Hgc. apply M5.
      - intros E. eapply (wf_root_notin_child p cs g NDp Hg). rewrite <- E. apply rid_in_ids.
      - intros Hin. apply Hgc. assert (g = tc) by (eapply (wf_children_eq p cs g tc (rid g)); eauto; apply rid_in_ids). subst g. exact Ec. }
    assert (Hshape : forall h, In h (hes_at p (hes d)) -> hnode h = p /\ (hp = true -> hverts h <> [])).
    { intros h Hh. split; [apply hes_at_in in Hh; tauto|]. intros E. destruct (D h Hh) as (_ & _ & _ & _ & _ & Hw & _).
      destruct (Hw E) as [w [r Ew]]. rewrite Ew. discriminate. }
    split; [|split; [|split]].
    - rewrite M4. destruct (hes_at p (hes d)); [contradiction | discriminate].
    - intros h Hh. rewrite M4 in Hh. apply in_map_iff in Hh. destruct Hh as [h0 [E Hh0]]. subst h.
      specialize (X2 _ Hh0). unfold redirect_he. destruct (Nat.eqb (hnode h0) p); exact X2.
    - intros g Hg. destruct (Nat.eq_dec (rid g) c) as [E|E].
      + rewrite E, Hc1. assert (Hin : In jf1 (drop_term (fst jf2) (Jc tc))) by (apply drop_term_in; auto).
        destruct (drop_term (fst jf2) (Jc tc)); [destruct Hin | discriminate].
      + rewrite Hoth by assumption. apply X3. exact Hg.
    - intros g u Hg Hu. destruct (Nat.eq_dec (rid g) c) as [E|E].
      + rewrite E in *. rewrite Hc1 in Hu. apply in_map_iff in Hu. destruct Hu as [jf [Eu Hjf]]. subst u.
        apply drop_term_in in Hjf. destruct Hjf as [Hjf Hjn].
        assert (Hu0 : In (bhe jf c (rchildren tc)) (hes_at (rid g) (hes d))).
        { rewrite E, Hc0. apply (in_map (fun a => bhe a c (rchildren tc))). exact Hjf. }
        destruct (X4 g _ Hg Hu0) as [h [Hh Eh]]. rewrite E in Eh. destruct (Hshape h Hh) as [S1 S2].
        exists (redirect_he p hp cs c (fst jf1, c) (fst jf2, c) h). split; [rewrite M4; apply in_map; exact Hh|].
        unfold p_cutv in *. rewrite child_part_redirect by assumption. rewrite (slot_subst_same _ _ _ _ _ _ Eh).
        unfold head_vertex, bhe. cbn [hverts]. rewrite oid_eqb_false; [reflexivity|]. intros Eq. inversion Eq. contradiction.
      + rewrite Hoth in Hu by assumption. destruct (X4 g u Hg Hu) as [h [Hh Eh]]. destruct (Hshape h Hh) as [S1 S2].
        exists (redirect_he p hp cs c (fst jf1, c) (fst jf2, c) h). split; [rewrite M4; apply in_map; exact Hh|].
        unfold p_cutv in *. rewrite child_part_redirect by assumption. rewrite slot_subst_other by exact E. exact Eh.
  Qed.

  Lemma combine_loop_X : forall Jrest Keep d Jc,
    Jc tc = Keep ++ Jrest -> CInv t p hp cs tc tb d Jc ->
    (forall jf, In jf (Keep ++ Jrest) -> hash_of tb (fst jf, c) = down (snd jf) tc) ->
    XF (hes d) p hp cs cs ->
    XF (hes (combine_loop t c tb (snap_of c tc Jrest) (seen_of c tc Keep) d)) p hp cs cs.
  Proof.
    destruct (cl_facts t p hp cs c tc ND HF HS) as (Ec & Hk & NDr & Hpc).
    induction Jrest as [|jf Jrest IH]; intros Keep d Jc EJ HI Htb HX.
    - cbn [snap_of map combine_loop]. exact HX.
    - cbn [snap_of map combine_loop]. fold (snap_of c tc Jrest).
      assert (Ehs : hash_of tb (hid (bhe jf c (rchildren tc))) = down (snd jf) tc).
      { unfold bhe. cbn [hid]. apply Htb. apply in_or_app. right. left. reflexivity. }
      rewrite Ehs. destruct HI as [A B C D].
      destruct (find (fun e => leqb Nat.eqb (fst e) (down (snd jf) tc)) (seen_of c tc Keep)) as [e|] eqn:F.
      + destruct (seen_find c tc Keep _ e F) as (jf1 & Hjf1 & Ee & Ed). subst e. cbn [snd]. unfold head_vertex, bhe. cbn [hverts].
        assert (H1 : In jf1 (Jc tc)) by (rewrite EJ; apply in_or_app; left; exact Hjf1).
        assert (H2 : In jf (Jc tc)) by (rewrite EJ; apply in_or_app; right; left; reflexivity).
        assert (Hne : fst jf1 <> fst jf).
        { rewrite EJ, map_app in A. cbn [map] in A. apply NoDup_remove_2 in A. intros E. apply A. rewrite <- E.
          apply in_or_app. left. apply in_map. exact Hjf1. }
        pose proof (merge_X d Jc jf1 jf A H1 H2 Hne B Ed C D HX) as HX1.
        destruct (merge_step t p hp cs c tc tb ND HF HS d Jc jf1 jf A H1 H2 Hne B Ed C D) as (M1 & M2 & M3 & M4 & M5 & M6).
        set (d1 := merge t c (fst jf1, c) (fst jf, c) d) in *.
        set (Jc1 := upd_J Jc c (drop_term (fst jf) (Jc tc))) in *.
        assert (EJ1 : Jc1 tc = Keep ++ Jrest).
        { unfold Jc1. rewrite (upd_J_tc t p hp cs c tc ND HF HS), EJ. apply drop_term_mid. rewrite <- EJ. exact A. }
        assert (HI1 : CInv t p hp cs tc tb d1 Jc1).
        { constructor; auto. rewrite EJ1. rewrite EJ in A. rewrite map_app in *. cbn [map] in A. eapply NoDup_remove_1; eauto. }
        apply (IH Keep d1 Jc1 EJ1 HI1); auto.
        intros x Hx. apply Htb. apply in_app_or in Hx. apply in_or_app. destruct Hx; [left|right; right]; auto.
      + unfold head_vertex, bhe. cbn [hverts].
        match goal with |- context [combine_loop t c tb (snap_of c tc Jrest) ?S d] =>
          assert (Es : S = seen_of c tc (Keep ++ [jf])) by (unfold seen_of; rewrite map_app; reflexivity); rewrite Es end.
        apply (IH (Keep ++ [jf]) d Jc); auto.
        * rewrite <- app_assoc. exact EJ.
        * constructor; auto.
        * intros x Hx. apply Htb. rewrite <- app_assoc in Hx. exact Hx.
  Qed.
End CombineX.

Lemma XF_frame : forall s s' p hp cs todo, hes_at p s' = hes_at p s ->
  (forall g, In g todo -> hes_at (rid g) s' = hes_at (rid g) s) -> XF s p hp cs todo -> XF s' p hp cs todo.
Proof.
  intros s s' p hp cs todo Ep Eg (X1 & X2 & X3 & X4). unfold XF. rewrite Ep. split; [exact X1|]. split; [exact X2|]. split.
  - intros g Hg. rewrite (Eg g Hg). apply X3. exact Hg.
  - intros g u Hg Hu. rewrite (Eg g Hg) in Hu. apply (X4 g u Hg Hu).
Qed.
Lemma XF_hp : forall t s p hp hp' cs, NoDup (ids t) -> node_at t false p hp cs -> node_at t false p hp' cs ->
  XF s p hp cs cs -> XF s p hp' cs cs.
Proof.
  intros t s p hp hp' cs ND Hn Hn' HX. destruct cs as [|g cs].
  - destruct HX as (X1 & X2 & _ & _). split; [exact X1|]. split; [exact X2|]. split; [intros g []|intros g u []].
  - pose proof (find_parent_complete t false p hp (g :: cs) g ND Hn (or_introl eq_refl)) as E1.
    pose proof (find_parent_complete t false p hp' (g :: cs) g ND Hn' (or_introl eq_refl)) as E2.
    rewrite E1 in E2. inversion E2. subst hp'. exact HX.
Qed.
(* every frontier node of the list satisfies the extra invariant *)
Definition XFI (t : rtree) (P : list rtree) (st : pst) : Prop :=
  forall tp hp, In tp P -> node_at t false (rid tp) hp (rchildren tp) ->
    XF (hes (p_sd st)) (rid tp) hp (rchildren tp) (rchildren tp).

Lemma combine_child_X : forall t p hp cs tb d Jc g,
  NoDup (ids t) -> node_at t false p hp cs -> In g cs ->
  Typed t (hes d) -> Mid t (hes d) tb p hp cs Jc -> XF (hes d) p hp cs cs ->
  XF (hes (combine_loop t (rid g) tb (hes_at (rid g) (hes d)) [] d)) p hp cs cs.
Proof.
  intros t p hp cs tb d Jc g ND Hn Hg HT [A B C] HX.
  assert (HS : subtree (rid g) t = Some g) by (eapply child_of_subtree; eauto).
  assert (HF : find_parent t false (rid g) = Some (p, hp, cs)) by (eapply find_parent_complete; eauto).
  destruct (C g Hg) as (C1 & C2 & C3).
  assert (Esnap : hes_at (rid g) (hes d) = snap_of (rid g) g (Jc g)).
  { unfold snap_of. apply (C1 g (sub_here _)). }
  rewrite Esnap.
  apply (combine_loop_X t p hp cs (rid g) g tb ND HF HS (Jc g) [] d Jc eq_refl); auto.
  - constructor; auto.
  - intros jf Hjf. apply (C3 g jf (sub_here _) Hjf).
Qed.

Lemma combine_children_X : forall t p hp cs, NoDup (ids t) -> node_at t false p hp cs ->
  forall gs st Jc, incl gs cs -> NoDup (map rid gs) ->
    Typed t (hes (p_sd st)) -> Mid t (hes (p_sd st)) (p_hash st) p hp cs Jc -> XF (hes (p_sd st)) p hp cs cs ->
    XF (hes (p_sd (combine_pass t (map rid gs) st))) p hp cs cs.
Proof.
  intros t p hp cs ND Hn. induction gs as [|g gs IH]; intros st Jc Hincl NDg HT HM HX.
  - exact HX.
  - cbn [map] in NDg. inversion NDg as [|? ? Hng NDg']; subst.
    assert (Hg : In g cs) by (apply Hincl; left; reflexivity).
    destruct (combine_child t p hp cs (p_hash st) (p_sd st) Jc g ND Hn Hg HT HM) as (J' & C1 & C2 & _).
    cbv zeta in C1, C2.
    pose proof (combine_child_X t p hp cs (p_hash st) (p_sd st) Jc g ND Hn Hg HT HM HX) as HX1.
    set (st1 := combine_subtrees t (rid g) st).
    assert (Est1 : p_sd st1 = combine_loop t (rid g) (p_hash st) (hes_at (rid g) (hes (p_sd st))) [] (p_sd st)) by reflexivity.
    assert (Eh1 : p_hash st1 = p_hash st) by reflexivity.
    unfold combine_pass. cbn [map fold_left]. fold st1. fold (combine_pass t (map rid gs) st1).
    apply (IH st1 (upd_J Jc (rid g) J')).
    + intros x Hx. apply Hincl. right. exact Hx.
    + exact NDg'.
    + rewrite Est1. exact C1.
    + rewrite Est1, Eh1. exact C2.
    + rewrite Est1. exact HX1.
Qed.

Lemma combine_level_X : forall t, NoDup (ids t) -> forall P st, NoDup (flat_map ids P) -> (forall tp, In tp P -> is_subtree tp t) ->
  Typed t (hes (p_sd st)) -> FI t false P st -> XFI t P st ->
  XFI t P (combine_pass t (map rid (flat_map rchildren P)) st).
Proof.
  intros t ND. induction P as [|tp P IH]; intros st NDP Hsub HT HF HXI.
  - intros tp hp [].
  - cbn [flat_map]. rewrite map_app, combine_pass_app.
    destruct (HF tp (or_introl eq_refl)) as (hp & Jc & Hn & HM & _). destruct tp as [p cs]. cbn [rid rchildren] in *.
    assert (NDp : NoDup (ids (RNode p cs))) by (eapply is_subtree_wf; [apply Hsub; left; reflexivity | exact ND]).
    destruct (combine_children t p hp cs ND Hn cs st Jc (incl_refl _) (children_rid_nodup p cs NDp) HT HM)
      as (Jc' & C1 & C2 & C3 & C4 & C5 & C6 & C7 & C8 & C9).
    pose proof (combine_children_X t p hp cs ND Hn cs st Jc (incl_refl _) (children_rid_nodup p cs NDp) HT HM
                  (HXI (RNode p cs) hp (or_introl eq_refl) Hn)) as HX1.
    set (st1 := combine_pass t (map rid cs) st) in *.
    assert (NDP' : NoDup (flat_map ids P)) by (cbn [flat_map] in NDP; apply NoDup_app_inv in NDP; tauto).
    assert (HF1 : FI t false P st1).
    { intros tp' Hp'. destruct (HF tp' (or_intror Hp')) as (hp' & Jc2 & Hn' & HM' & _). exists hp', Jc2.
      split; [exact Hn'|]. split; [|discriminate]. rewrite C5.
      apply (Mid_frame t (hes (p_sd st))); auto. intros v Hv. apply C8.
      destruct tp' as [p' cs']. cbn [rid rchildren] in *. eapply (disjoint_cons' (RNode p cs) P (RNode p' cs')); eauto. }
    assert (Hsub' : forall tp', In tp' P -> is_subtree tp' t) by (intros tp' Hp'; apply Hsub; right; exact Hp').
    assert (HXI1 : XFI t P st1).
    { intros tp' hp' Hp' Hn'. apply (XF_frame (hes (p_sd st))); [| |apply HXI; auto; right; exact Hp'].
      - apply C8. destruct tp' as [p' cs']. eapply (disjoint_cons' (RNode p cs) P (RNode p' cs')); eauto. left. reflexivity.
      - intros g Hg. apply C8. destruct tp' as [p' cs']. eapply (disjoint_cons' (RNode p cs) P (RNode p' cs')); eauto.
        cbn [rchildren] in Hg. right. apply in_flat_map. exists g. split; auto. apply rid_in_ids. }
    pose proof (IH st1 NDP' Hsub' C1 HF1 HXI1) as HXfin.
    destruct (combine_level t ND P st1 NDP' Hsub' C1 HF1) as (_ & _ & _ & _ & _ & I6 & _).
    intros tp' hp' [E|Hp'] Hn'; [|apply HXfin; auto]. subst tp'. cbn [rid rchildren] in *.
    apply (XF_hp t _ p hp hp' cs ND Hn Hn'). apply (XF_frame (hes (p_sd st1))); [| |exact HX1].
    + apply I6. eapply disjoint_cons; eauto. left. reflexivity.
    + intros g Hg. apply I6. eapply disjoint_cons; eauto. right. apply in_flat_map. exists g. split; auto. apply rid_in_ids.
Qed.

(* ====================================================================================== *)
(* 7. the cut pass of a level, the run                                                      *)
(* ====================================================================================== *)
Lemma cut_children_acc : forall t p hp cs, NoDup (ids t) -> node_at t false p hp cs ->
  forall gs st Jc, incl gs cs -> NoDup (map rid gs) ->
    Typed t (hes (p_sd st)) -> IdsBelow (p_next st) (hes (p_sd st)) -> TbBelow (p_next st) (p_hash st) ->
    CutPar (hes (p_sd st)) p hp cs Jc gs ->
    (forall g, In g gs -> ChildOK (hes (p_sd st)) (p_hash st) Jc g) ->
    XF (hes (p_sd st)) p hp cs gs ->
    exists st', cut_pass t (map rid gs) (Some st) = Some st' /\
      (forall g, In g gs -> XF (hes (p_sd st')) (rid g) true (rchildren g) (rchildren g)).
Proof.
  intros t p hp cs ND Hn.
  assert (NDp : NoDup (ids (RNode p cs))) by (eapply is_subtree_wf; [eapply node_at_subtree; eauto | exact ND]).
  induction gs as [|g gs IH]; intros st Jc Hincl NDg HT HI HTB HCP HCh HX.
  - exists st. split; [reflexivity | intros g []].
  - cbn [map] in NDg. inversion NDg as [|? ? Hng NDg']; subst.
    assert (Hg : In g cs) by (apply Hincl; left; reflexivity).
    destruct g as [c ccs]. cbn [rid] in *.
    destruct (HCh (RNode c ccs) (or_introl eq_refl)) as (B1 & B2 & B3 & B4).
    destruct (cut_step_accepts t p hp cs c ccs st Jc (RNode c ccs :: gs) ND Hn Hg (or_introl eq_refl) B1 B2 HCP HX) as [st1 S1].
    destruct (cut_effect t p hp cs c ccs st st1 Jc (RNode c ccs :: gs) ND Hn Hg (or_introl eq_refl) S1 B1 B2 B3 B4 HCP HT HI HTB)
      as (E1 & E2 & E3 & E4 & E5 & E6 & E7 & E8 & E9).
    destruct (cut_step_X t p hp cs c ccs st st1 Jc (RNode c ccs :: gs) ND Hn Hg (or_introl eq_refl) Hincl S1 B1 HCP HX) as [XA XB].
    assert (Hother : forall g', In g' gs -> rid g' <> c /\ In g' cs /\ forall x, In x (ids g') -> x <> p /\ x <> c).
    { intros g' Hg'. assert (Hg'c : In g' cs) by (apply Hincl; right; exact Hg').
      assert (Hr : rid g' <> c) by (intros E; apply Hng; rewrite <- E; apply in_map; exact Hg').
      split; [exact Hr|]. split; [exact Hg'c|]. intros x Hx. split.
      - intros E. subst x. eapply wf_root_notin_child; eauto.
      - intros E. subst x. apply Hr. assert (g' = RNode c ccs); [|subst g'; reflexivity].
        eapply (wf_children_eq p cs g' (RNode c ccs) c); eauto. left. reflexivity. }
    assert (Htd : forall g', In g' gs -> In g' (RNode c ccs :: gs) /\ rid g' <> c).
    { intros g' Hg'. split; [right; exact Hg' | destruct (Hother g' Hg') as [Hr _]; exact Hr]. }
    assert (Hincl' : incl gs cs) by (intros x Hx; apply Hincl; right; exact Hx).
    assert (HCh1 : forall g', In g' gs -> ChildOK (hes (p_sd st1)) (p_hash st1) Jc g').
    { intros g' Hg'. destruct (HCh g' (or_intror Hg')) as (C1 & C2 & C3 & C4). destruct (Hother g' Hg') as (Hr & Hgc & Hx).
      split; [|split; [exact C2|split; [exact C3|]]].
      * apply (BaseBelow_ext (hes (p_sd st))); auto. intros x Hxin. destruct (Hx x Hxin). apply E2; auto.
      * intros tx jf Htx Hjf. rewrite E3; [apply C4; auto|]. apply (HI _ (base_in _ _ _ _ _ C1 Htx Hjf)). }
    destruct (IH st1 Jc Hincl' NDg' E5 E6 E7 (E8 gs Htd) HCh1 (XA gs Htd)) as (st' & Hcut' & HXs).
    destruct (cut_children t p hp cs ND Hn gs st1 st' Jc Hincl' NDg' Hcut' E5 E6 E7 (E8 gs Htd) HCh1) as (_ & _ & _ & _ & I5 & _).
    exists st'. split.
    + unfold cut_pass. cbn [map fold_left rid]. rewrite S1. exact Hcut'.
    + intros g' [E|Hg']; [subst g'|apply HXs; exact Hg']. cbn [rid rchildren].
      assert (Hfr : forall v, In v (ids (RNode c ccs)) -> hes_at v (hes (p_sd st')) = hes_at v (hes (p_sd st1))).
      { intros v Hv. apply I5.
        - intros E. subst v. eapply (wf_root_notin_child p cs (RNode c ccs)); eauto.
        - intros Hin. apply in_map_iff in Hin. destruct Hin as [g' [Er Hg']]. destruct (Hother g' Hg') as (Hr & Hgc & _).
          apply Hr. assert (g' = RNode c ccs); [|subst g'; reflexivity].
          eapply (wf_children_eq p cs g' (RNode c ccs) v); eauto. rewrite <- Er. apply rid_in_ids. }
      apply (XF_frame (hes (p_sd st1))); [| |exact XB].
      * apply Hfr. left. reflexivity.
      * intros g Hgc. apply Hfr. right. apply in_flat_map. exists g. split; auto. apply rid_in_ids.
Qed.

Lemma cut_level_acc : forall t, NoDup (ids t) -> forall P st, NoDup (flat_map ids P) -> (forall tp, In tp P -> is_subtree tp t) ->
  GI t st -> FI t true P st -> XFI t P st ->
  exists st', cut_pass t (map rid (flat_map rchildren P)) (Some st) = Some st' /\ XFI t (flat_map rchildren P) st'.
Proof.
  intros t ND. induction P as [|tp P IH]; intros st NDP Hsub HG HF HXI.
  - exists st. split; [reflexivity | intros tp hp []].
  - destruct (HF tp (or_introl eq_refl)) as (hp & Jc & Hn & HM & HK). specialize (HK eq_refl).
    destruct tp as [p cs]. cbn [rid rchildren] in *.
    assert (NDp : NoDup (ids (RNode p cs))) by (eapply is_subtree_wf; [apply Hsub; left; reflexivity | exact ND]).
    destruct HG as (G1 & G2 & G3).
    pose proof (children_rid_nodup p cs NDp) as NDr.
    assert (HCh : forall g, In g cs -> ChildOK (hes (p_sd st)) (p_hash st) Jc g).
    { intros g Hg. destruct (mid_base _ _ _ _ _ _ _ HM g Hg) as (M1 & M2 & M3). split; [exact M1|]. split; [exact M2|]. split; [apply HK; exact Hg | exact M3]. }
    destruct (cut_children_acc t p hp cs ND Hn cs st Jc (incl_refl _) NDr G1 G2 G3 (mid_cutpar t _ _ p hp cs Jc NDr HM) HCh
                (HXI (RNode p cs) hp (or_introl eq_refl) Hn)) as (st1 & C1 & HXc).
    destruct (cut_children t p hp cs ND Hn cs st st1 Jc (incl_refl _) NDr C1 G1 G2 G3 (mid_cutpar t _ _ p hp cs Jc NDr HM) HCh)
      as (D1 & D2 & D3 & D4 & D5 & D6 & D7 & D8).
    assert (NDP' : NoDup (flat_map ids P)) by (cbn [flat_map] in NDP; apply NoDup_app_inv in NDP; tauto).
    assert (Hdis : forall tp' v, In tp' P -> In v (ids tp') -> v <> p /\ ~ In v (map rid cs)).
    { intros tp' v Hp' Hv. pose proof (disjoint_cons' (RNode p cs) P tp' v NDP Hp' Hv) as Hn'. split.
      - intros E. subst v. apply Hn'. left. reflexivity.
      - intros Hin. apply Hn'. apply in_map_iff in Hin. destruct Hin as [g [E Hg]]. subst v. eapply in_child_ids; eauto. apply rid_in_ids. }
    assert (Hsub' : forall tp', In tp' P -> is_subtree tp' t) by (intros tp' Hp'; apply Hsub; right; exact Hp').
    assert (HG1 : GI t st1) by (split; [exact D1|]; split; [exact D2 | exact D3]).
    assert (HF1 : FI t true P st1).
    { intros tp' Hp'. destruct (HF tp' (or_intror Hp')) as (hp' & Jc2 & Hn' & HM' & HK'). exists hp', Jc2.
      split; [exact Hn'|]. split; [|exact HK'].
      apply (Mid_stable t (hes (p_sd st)) (hes (p_sd st1)) (p_hash st) (p_hash st1) (p_next st)); auto.
      intros v Hv. destruct tp' as [p' cs']. cbn [rid rchildren] in *. destruct (Hdis (RNode p' cs') v Hp' Hv). apply D5; auto. }
    assert (HXI1 : XFI t P st1).
    { intros tp' hp' Hp' Hn'. apply (XF_frame (hes (p_sd st))); [| |apply HXI; auto; right; exact Hp'].
      - destruct (Hdis tp' (rid tp') Hp' (rid_in_ids tp')). apply D5; auto.
      - intros g Hg. assert (Hv : In (rid g) (ids tp')).
        { destruct tp' as [p' cs']. cbn [rchildren] in Hg. right. apply in_flat_map. exists g. split; auto. apply rid_in_ids. }
        destruct (Hdis tp' (rid g) Hp' Hv). apply D5; auto. }
    destruct (IH st1 NDP' Hsub' HG1 HF1 HXI1) as (st' & C2 & HXP).
    destruct (cut_level t ND P st1 st' NDP' Hsub' C2 HG1 HF1) as (_ & _ & I3 & _).
    exists st'. split.
    + cbn [flat_map rchildren]. rewrite map_app, cut_pass_app, C1. exact C2.
    + intros g hp' Hg Hn'. cbn [flat_map] in Hg. apply in_app_or in Hg. destruct Hg as [Hg|Hg]; [|apply HXP; auto].
      apply (XF_hp t _ (rid g) true hp' (rchildren g) ND (node_at_child t false p hp cs g Hn Hg) Hn').
      assert (Hfr : forall v, In v (ids g) -> hes_at v (hes (p_sd st')) = hes_at v (hes (p_sd st1))).
      { intros v Hv. apply I3. intros Hin. apply in_flat_map in Hin. destruct Hin as [tp' [Hp' Hv']].
        apply (disjoint_cons' (RNode p cs) P tp' v NDP Hp' Hv'). eapply in_child_ids; eauto. }
      apply (XF_frame (hes (p_sd st1))); [| |apply HXc; exact Hg].
      * apply Hfr. apply rid_in_ids.
      * intros g' Hg'. apply Hfr. destruct g as [gv gcs]. cbn [rchildren] in Hg'. right. apply in_flat_map. exists g'. split; auto. apply rid_in_ids.
Qed.

Lemma run_acc : forall t, NoDup (ids t) -> forall fuel P st,
  NoDup (flat_map ids P) -> (forall tp, In tp P -> is_subtree tp t) -> GI t st -> FI t false P st -> XFI t P st ->
  exists st', run_levels t (bfs_levels fuel (flat_map rchildren P)) st = Some st'.
Proof.
  intros t ND. induction fuel as [|f IH]; intros P st NDP Hsub HG HF HXI.
  - cbn [bfs_levels]. exists st. reflexivity.
  - cbn [bfs_levels]. destruct (flat_map rchildren P) as [|g0 lv0] eqn:El; [exists st; reflexivity|].
    rewrite <- El in *. clear El g0 lv0.
    unfold run_levels. cbn [fold_left run_level].
    set (lv := map rid (flat_map rchildren P)) in *.
    destruct HG as (G1 & G2 & G3).
    destruct (combine_level t ND P st NDP Hsub G1 HF) as (A1 & A2 & A3 & A4 & A5 & A6 & A7). fold lv in A1, A2, A3, A4, A5, A6, A7.
    pose proof (combine_level_X t ND P st NDP Hsub G1 HF HXI) as HX1. fold lv in HX1.
    assert (HG1 : GI t (combine_pass t lv st)).
    { split; [exact A1|]. split.
      - intros h Hh. destruct (A5 h Hh) as [h0 [H0 E0]]. rewrite E0, A4. apply G2. exact H0.
      - rewrite A3, A4. exact G3. }
    destruct (cut_level_acc t ND P _ NDP Hsub HG1 A2 HX1) as (st2 & C & HX2). fold lv in C.
    rewrite C.
    destruct (cut_level t ND P _ st2 NDP Hsub C HG1 A2) as (B1 & B2 & _).
    apply (IH (flat_map rchildren P) st2); auto.
    + apply children_disjoint. exact NDP.
    + intros g Hg. apply in_flat_map in Hg. destruct Hg as [tp [Hp Hg]].
      eapply is_subtree_trans; [apply is_subtree_child; exact Hg | apply Hsub; exact Hp].
Qed.

(* ====================================================================================== *)
(* 8. the compound diagram of non-vanishing terms; BIPARTITE from_hamiltonian accepts       *)
(* ====================================================================================== *)
Lemma indexed_in_snd : forall {A} (l : list A) j jt, In jt (indexed j l) -> In (snd jt) l.
Proof. intros A l j jt H. rewrite <- (indexed_snd l j). apply in_map. exact H. Qed.

Lemma init_XFI : forall t H, NoDup (ids t) -> H <> [] -> (forall tm, In tm H -> nz_term tm = true) ->
  XFI t [t] (pipe_init t H).
Proof.
  intros t H ND Hne Hnz tp hp [E|[]] Hn. subst tp. destruct t as [r cs]. cbn [rid rchildren] in *.
  apply (XF_hp (RNode r cs) _ r false hp cs ND (na_here r cs false) Hn).
  unfold pipe_init. cbn [p_sd].
  pose proof (base_hes_at_root (RNode r cs) H ND) as Er. cbn [rid rchildren] in Er.
  assert (Hg : forall g, In g cs -> hes_at (rid g) (hes (sd_base (RNode r cs) H))
                                   = map (fun jf => bhe jf (rid g) (rchildren g)) (map lab_of (indexed 0 H))).
  { intros g Hg. apply (base_hes_at_proper (RNode r cs) H g ND).
    - eapply sub_child; [exact Hg | apply sub_here].
    - cbn [rid]. intros E. eapply (wf_root_notin_child r cs g ND Hg). rewrite <- E. apply rid_in_ids. }
  assert (Hidx : indexed 0 H <> []) by (destruct H; [contradiction | discriminate]).
  split; [|split; [|split]].
  - rewrite Er. destruct (indexed 0 H); [contradiction | discriminate].
  - intros h Hh. rewrite Er in Hh. apply in_map_iff in Hh. destruct Hh as [jt [E Hjt]]. subst h.
    unfold coef_of, cnz. cbn [hlam hgam fst snd].
    pose proof (Hnz _ (indexed_in_snd H 0 jt Hjt)) as Hz. unfold nz_term in Hz. rewrite Hz. apply orb_true_r.
  - intros g Hg'. rewrite (Hg g Hg'). destruct (indexed 0 H); [contradiction | discriminate].
  - intros g u Hg' Hu. rewrite (Hg g Hg'), map_map in Hu. apply in_map_iff in Hu. destruct Hu as [jt [E Hjt]]. subst u.
    eexists. split; [rewrite Er; apply in_map; exact Hjt|].
    unfold p_cutv, child_part, head_vertex, bhe, lab_of. cbn [hverts fst snd].
    apply (slot_vertex_map cs g (fun _ => fst jt)); auto. eapply children_rid_nodup; eauto.
Qed.

Theorem bipartite_accepts : forall t H, NoDup (ids t) -> distinct_strings t H -> H <> [] ->
  exists d, from_hamiltonian_bipartite t H = Some d.
Proof.
  intros t H ND HD Hne. unfold from_hamiltonian_bipartite, from_hamiltonian_bipartite_st.
  destruct (live_terms H) as [|tm H'] eqn:EL.
  - destruct H as [|tm0 H0]; [contradiction|]. eexists. reflexivity.
  - destruct (run_acc t ND (size t) [t] (pipe_init t (tm :: H'))) as [st' R].
    + cbn [flat_map]. rewrite app_nil_r. exact ND.
    + intros tp [Etp|[]]. subst. apply sub_here.
    + apply init_GI. exact ND.
    + apply init_FI; auto. rewrite <- EL. apply distinct_live. exact HD.
    + apply init_XFI; auto; [discriminate|]. intros x Hx. rewrite <- EL in Hx. unfold live_terms in Hx.
      apply filter_In in Hx. tauto.
    + cbn [flat_map] in R. rewrite app_nil_r in R. unfold levels. rewrite R. eexists. reflexivity.
Qed.

Theorem bipartite_total : forall t H, NoDup (ids t) -> distinct_strings t H -> H <> [] ->
  exists d, from_hamiltonian_bipartite t H = Some d /\ peq (sd_denote t d) (ham_denote t H).
Proof.
  intros t H ND HD Hne. destruct (bipartite_accepts t H ND HD Hne) as [d E]. exists d. split; [exact E|].
  apply (bipartite_exact t H d ND HD E).
Qed.
