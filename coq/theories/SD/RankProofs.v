(* Proofs about SD/Rank.v: a certified non-singular r x r minor excludes every factorisation
   of the matrix through an inner dimension smaller than r. *)
From Coq Require Import List Arith Bool QArith Lia Setoid Morphisms.
From PTN Require Import SD.Rank.
Import ListNotations.
Local Open Scope Q_scope.

(* ---- finite sums ---------------------------------------------------------------------- *)
Lemma sumn_ext : forall n f g, (forall i, (i < n)%nat -> f i == g i) -> sumn n f == sumn n g.
Proof.
  induction n as [|n IH]; intros f g H; simpl; [reflexivity|].
  rewrite (IH f g), (H n); [reflexivity|lia|]. intros; apply H; lia.
Qed.

Global Instance sumn_proper n : Proper (pointwise_relation nat Qeq ==> Qeq) (sumn n).
Proof. intros f g H. apply sumn_ext. intros; apply H. Qed.

Lemma sumn_zero : forall n, sumn n (fun _ => 0) == 0.
Proof. induction n; simpl; [reflexivity|]. rewrite IHn. ring. Qed.

Lemma sumn_plus : forall n f g, sumn n (fun i => f i + g i) == sumn n f + sumn n g.
Proof. induction n; intros; simpl; [ring|]. rewrite IHn. ring. Qed.

Lemma sumn_mul_l : forall n c f, c * sumn n f == sumn n (fun i => c * f i).
Proof. induction n; intros; simpl; [ring|]. rewrite <- IHn. ring. Qed.

Lemma sumn_mul_r : forall n c f, sumn n f * c == sumn n (fun i => f i * c).
Proof. induction n; intros; simpl; [ring|]. rewrite <- IHn. ring. Qed.

Lemma sumn_swap : forall n m (f : nat -> nat -> Q),
  sumn n (fun i => sumn m (fun j => f i j)) == sumn m (fun j => sumn n (fun i => f i j)).
Proof.
  induction n as [|n IH]; intros m f; simpl.
  - rewrite sumn_zero. reflexivity.
  - rewrite IH. rewrite <- sumn_plus. reflexivity.
Qed.

Lemma sumn_lin : forall n c f g h,
  sumn n (fun b => (f b - c * g b) * h b) == sumn n (fun b => f b * h b) - c * sumn n (fun b => g b * h b).
Proof. induction n; intros; simpl; [ring|]. rewrite IHn. ring. Qed.

Lemma sumn_delta : forall r a v, (a < r)%nat -> sumn r (fun b => delta a b * v b) == v a.
Proof.
  induction r as [|r IH]; intros a v Ha; [lia|]. simpl.
  destruct (Nat.eq_dec a r) as [->|Hne].
  - unfold delta at 2. rewrite Nat.eqb_refl.
    rewrite (sumn_ext r _ (fun _ => 0)).
    + rewrite sumn_zero. ring.
    + intros i Hi. unfold delta. destruct (Nat.eqb r i) eqn:E; [apply Nat.eqb_eq in E; lia | ring].
  - rewrite IH by lia. unfold delta. destruct (Nat.eqb a r) eqn:E; [apply Nat.eqb_eq in E; lia | ring].
Qed.

(* ---- a bounded search ------------------------------------------------------------------ *)
Lemma bounded_nonzero : forall (k : nat) (g : nat -> Q),
  {q : nat | (q < k)%nat /\ ~ g q == 0} + {forall q, (q < k)%nat -> g q == 0}.
Proof.
  induction k as [|k IH]; intros g.
  - right. intros q Hq. lia.
  - destruct (IH g) as [[q [Hq Hn]]|Hall].
    + left. exists q. split; [lia|exact Hn].
    + destruct (Qeq_dec (g k) 0) as [E|E].
      * right. intros q Hq. destruct (Nat.eq_dec q k) as [->|]; [exact E | apply Hall; lia].
      * left. exists k. split; [lia|exact E].
Qed.

(* ---- more unknowns than equations: a non-trivial solution ------------------------------- *)
Lemma kernel_vector : forall (r k : nat) (A : nat -> nat -> Q), (k < r)%nat ->
  exists v : nat -> Q,
    (exists b, (b < r)%nat /\ ~ v b == 0) /\
    (forall l, (l < k)%nat -> sumn r (fun b => A l b * v b) == 0).
Proof.
  induction r as [|r IH]; intros k A Hk; [lia|].
  destruct (bounded_nonzero k (fun q => A q r)) as [[q [Hq Ha]]|Hall].
  - (* pivot row q: eliminate the last unknown *)
    destruct k as [|k]; [lia|].
    set (a := A q r) in *.
    set (sk := fun l => if Nat.ltb l q then l else S l).
    set (A' := fun l b => A (sk l) b - (A (sk l) r / a) * A q b).
    destruct (IH k A') as [v' [[b0 [Hb0 Hv0]] Hker]]; [lia|].
    set (s := sumn r (fun b => A q b * v' b)).
    set (v := fun b => if Nat.ltb b r then v' b else - s / a).
    assert (Hv : forall b, (b < r)%nat -> v b == v' b).
    { intros b Hb. unfold v. destruct (Nat.ltb b r) eqn:E; [reflexivity|]. apply Nat.ltb_ge in E. lia. }
    assert (Hvr : v r == - s / a).
    { unfold v. rewrite Nat.ltb_irrefl. reflexivity. }
    exists v. split.
    + exists b0. split; [lia|]. rewrite Hv by assumption. exact Hv0.
    + intros l Hl. simpl.
      rewrite (sumn_ext r _ (fun b => A l b * v' b)).
      2:{ intros b Hb. rewrite Hv by assumption. reflexivity. }
      rewrite Hvr.
      destruct (Nat.eq_dec l q) as [->|Hne].
      * fold s. fold a. field. exact Ha.
      * set (l' := if Nat.ltb l q then l else pred l).
        assert (Hl' : (l' < k)%nat /\ sk l' = l).
        { unfold l', sk. destruct (Nat.ltb l q) eqn:E.
          - rewrite E. apply Nat.ltb_lt in E. lia.
          - apply Nat.ltb_ge in E. assert (Hp : Nat.ltb (pred l) q = false) by (apply Nat.ltb_ge; lia).
            rewrite Hp. lia. }
        destruct Hl' as [Hl1 Hl2].
        pose proof (Hker l' Hl1) as Hk'. unfold A' in Hk'. rewrite Hl2 in Hk'.
        rewrite sumn_lin in Hk'. fold s in Hk'.
        assert (E : sumn r (fun b => A l b * v' b) == (A l r / a) * s).
        { rewrite <- (Qplus_0_r (A l r / a * s)). rewrite <- Hk'. ring. }
        rewrite E. fold a. field. exact Ha.
  - (* the last column vanishes on all rows: the last unit vector is a solution *)
    exists (fun b => if Nat.eqb b r then 1 else 0). split.
    + exists r. split; [lia|]. rewrite Nat.eqb_refl. intro H. discriminate H.
    + intros l Hl. simpl. rewrite Nat.eqb_refl.
      rewrite (sumn_ext r _ (fun _ => 0)).
      * rewrite sumn_zero. rewrite (Hall l Hl). ring.
      * intros i Hi. destruct (Nat.eqb i r) eqn:E; [apply Nat.eqb_eq in E; lia | ring].
Qed.

(* ---- the identity does not factor through a smaller dimension ---------------------------- *)
Lemma identity_no_factor : forall (r k : nat) (P Q' : nat -> nat -> Q), (k < r)%nat ->
  ~ (forall a b, (a < r)%nat -> (b < r)%nat -> sumn k (fun l => P a l * Q' l b) == delta a b).
Proof.
  intros r k P Q' Hk H.
  destruct (kernel_vector r k Q' Hk) as [v [[b0 [Hb0 Hv0]] Hker]].
  apply Hv0. rewrite <- (sumn_delta r b0 v Hb0).
  rewrite (sumn_ext r _ (fun b => sumn k (fun l => P b0 l * Q' l b) * v b)).
  2:{ intros b Hb. rewrite H by assumption. reflexivity. }
  rewrite (sumn_ext r _ (fun b => sumn k (fun l => P b0 l * (Q' l b * v b)))).
  2:{ intros b Hb. rewrite sumn_mul_r. apply sumn_ext. intros; ring. }
  rewrite sumn_swap.
  rewrite (sumn_ext k _ (fun _ => 0)); [apply sumn_zero|].
  intros l Hl. rewrite <- sumn_mul_l. rewrite (Hker l Hl). ring.
Qed.

(* ---- the certificate -------------------------------------------------------------------- *)
Lemma forallb_seq : forall (p : nat -> bool) n, forallb p (seq 0 n) = true -> forall i, (i < n)%nat -> p i = true.
Proof. intros p n H i Hi. rewrite forallb_forall in H. apply H. apply in_seq. lia. Qed.

Lemma forallb_nth : forall (p : nat -> bool) l i, forallb p l = true -> (i < length l)%nat -> p (nth i l 0%nat) = true.
Proof. intros p l i H Hi. rewrite forallb_forall in H. apply H. apply nth_In. exact Hi. Qed.

(* If the certificate is accepted, the m x n matrix M is not a product X * Y with inner
   dimension k < r = length rs: whatever X (m x k) and Y (k x n). *)
Theorem min_cert_sound : forall (M : mat) (m n : nat) (rs cs : list nat) (B : mat),
  min_cert M m n rs cs B = true ->
  forall (k : nat) (X Y : nat -> nat -> Q), (k < length rs)%nat ->
  ~ (forall i j, (i < m)%nat -> (j < n)%nat -> entry M i j == sumn k (fun l => X i l * Y l j)).
Proof.
  intros M m n rs cs B C k X Y Hk F. unfold min_cert in C.
  set (r := length rs) in *.
  apply andb_true_iff in C. destruct C as [C C4]. apply andb_true_iff in C. destruct C as [C C3].
  apply andb_true_iff in C. destruct C as [C1 C2]. apply Nat.eqb_eq in C1.
  apply (identity_no_factor r k (fun a l => X (nth a rs 0%nat) l)
           (fun l b => sumn r (fun c => Y l (nth c cs 0%nat) * entry B c b)) Hk).
  intros a b Ha Hb.
  pose proof (forallb_seq _ _ (forallb_seq _ _ C4 a Ha) b Hb) as E. apply Qeq_bool_eq in E.
  rewrite <- E.
  rewrite (sumn_ext r (fun c => entry M (nth a rs 0%nat) (nth c cs 0%nat) * entry B c b)
             (fun c => sumn k (fun l => X (nth a rs 0%nat) l * (Y l (nth c cs 0%nat) * entry B c b)))).
  2:{ intros c Hc. rewrite F.
      - rewrite sumn_mul_r. apply sumn_ext. intros; ring.
      - apply Nat.ltb_lt. apply (forallb_nth (fun i => Nat.ltb i m)); auto.
      - apply Nat.ltb_lt. apply (forallb_nth (fun j => Nat.ltb j n)); auto. rewrite C1. exact Hc. }
  rewrite sumn_swap. apply sumn_ext. intros l Hl. rewrite sumn_mul_l. reflexivity.
Qed.

(* the same for list matrices *)
Corollary min_cert_sound_lists : forall (M : mat) (m n : nat) (rs cs : list nat) (B : mat),
  min_cert M m n rs cs B = true ->
  forall (k : nat) (X Y : mat), (k < length rs)%nat ->
  ~ (forall i j, (i < m)%nat -> (j < n)%nat -> entry M i j == sumn k (fun l => entry X i l * entry Y l j)).
Proof. intros M m n rs cs B C k X Y. apply (min_cert_sound M m n rs cs B C k (entry X) (entry Y)). Qed.
