(* Proofs about SD/Core.v: the algebraic core of the compressing pipelines.
   1. peq (equality of coefficient functions) is a congruence for pmul, ++, prodc, val;
   2. merge_equal_subtrees_sound (combine_subtrees / erase_subtree);
   3. cut_regroup_sound (cut_and_optimise / _reconnect_hyperedges) over a commutative ring;
   4. structure_preserved (TTNO.from_state_diagram / _rec_zero_ttno). *)
From Coq Require Import List Arith Bool QArith Qcanon Lia Lqa Permutation Ring.
From PTN Require SGE.Model SGE.ModelProofs.
From PTN Require Import Tree.RTree Tree.RTreeProofs SD.Model SD.ModelProofs.
From PTN Require Import SD.Core.
Import ListNotations.
Local Close Scope Qc_scope.
Local Close Scope Q_scope.

(* ====================================================================================== *)
(* 1. peq is a congruence                                                                  *)
(* ====================================================================================== *)
Lemma key_dec : forall a b : key, {a = b} + {a <> b}.
Proof. decide equality; apply list_eq_dec; apply Nat.eq_dec. Qed.

Lemma key_eqb_false : forall a b, a <> b -> key_eqb a b = false.
Proof. intros a b H. destruct (key_eqb a b) eqn:E; auto. apply key_eqb_true in E. contradiction. Qed.

(* sum_{a in p} coefficient(a) * g(key a) *)
Fixpoint wsum (g : key -> Q) (p : poly) : Q :=
  match p with [] => 0%Q | a :: r => (fst a * g (snd a) + wsum g r)%Q end.
Fixpoint ksum (K : list key) (f : key -> Q) : Q :=
  match K with [] => 0%Q | k :: r => (f k + ksum r f)%Q end.

Lemma ksum_ext : forall K f g, (forall k, In k K -> (f k == g k)%Q) -> (ksum K f == ksum K g)%Q.
Proof.
  induction K as [|k K IH]; intros f g H; cbn [ksum]; [reflexivity|].
  rewrite (H k (or_introl eq_refl)), (IH f g); [reflexivity|]. intros; apply H; right; auto.
Qed.

Lemma ksum_add : forall K f g, (ksum K (fun k => f k + g k) == ksum K f + ksum K g)%Q.
Proof. induction K as [|k K IH]; intros; cbn [ksum]; [ring|]. rewrite IH. ring. Qed.

Lemma ksum_zero : forall K, (ksum K (fun _ => 0%Q) == 0)%Q.
Proof. induction K as [|k K IH]; cbn [ksum]; [reflexivity|]. rewrite IH. ring. Qed.

Lemma ksum_delta : forall K ka c (g : key -> Q), NoDup K -> In ka K ->
  (ksum K (fun k => (if key_eqb ka k then c else 0) * g k) == c * g ka)%Q.
Proof.
  induction K as [|k K IH]; intros ka c g ND Hin; [destruct Hin|].
  inversion ND as [|? ? Hk ND']; subst. cbn [ksum]. destruct Hin as [E|Hin].
  - subst ka. rewrite key_eqb_refl.
    rewrite (ksum_ext K _ (fun _ => 0%Q)).
    + rewrite ksum_zero. ring.
    + intros k' Hk'. rewrite key_eqb_false; [ring|]. intros E. subst. contradiction.
  - rewrite key_eqb_false by (intros E; subst; contradiction).
    rewrite (IH ka c g ND' Hin). ring.
Qed.

Lemma wsum_ksum : forall g K p, NoDup K -> (forall a, In a p -> In (snd a) K) ->
  (wsum g p == ksum K (fun k => coef p k * g k))%Q.
Proof.
  intros g K p ND. induction p as [|a p IH]; intros Hsub.
  - cbn [wsum coef]. rewrite (ksum_ext K _ (fun _ => 0%Q)) by (intros; ring).
    rewrite ksum_zero. reflexivity.
  - cbn [wsum coef].
    rewrite (ksum_ext K _ (fun k => (if key_eqb (snd a) k then fst a else 0) * g k + coef p k * g k)%Q).
    2:{ intros k _. destruct (key_eqb (snd a) k); ring. }
    rewrite ksum_add, ksum_delta by (auto; apply Hsub; left; auto).
    rewrite IH by (intros; apply Hsub; right; auto). reflexivity.
Qed.

(* the weighted sum only depends on the coefficient function *)
Lemma wsum_peq : forall g p p', peq p p' -> (wsum g p == wsum g p')%Q.
Proof.
  intros g p p' H.
  set (K := nodup key_dec (map snd p ++ map snd p')).
  assert (ND : NoDup K) by apply NoDup_nodup.
  rewrite (wsum_ksum g K p), (wsum_ksum g K p'); auto.
  - apply ksum_ext. intros k _. rewrite (H k). reflexivity.
  - intros a Ha. apply nodup_In. apply in_or_app. right. apply in_map. exact Ha.
  - intros a Ha. apply nodup_In. apply in_or_app. left. apply in_map. exact Ha.
Qed.

Lemma wsum_ext : forall g g' p, (forall k, (g k == g' k)%Q) -> (wsum g p == wsum g' p)%Q.
Proof. intros g g' p H. induction p as [|a p IH]; cbn [wsum]; [reflexivity|]. rewrite IH, (H (snd a)). reflexivity. Qed.

Definition hits (k : key) (ka kb : key) : Q := if key_eqb (kmul ka kb) k then 1%Q else 0%Q.

Lemma coef_map_mmul2 : forall a q k,
  (coef (map (mmul2 a) q) k == fst a * wsum (hits k (snd a)) q)%Q.
Proof.
  intros a q k. induction q as [|b q IH]; cbn [map coef wsum]; [ring|].
  unfold hits at 1. cbn [mmul2 fst snd]. destruct (key_eqb (kmul (snd a) (snd b)) k); rewrite IH; ring.
Qed.

Lemma coef_pmul : forall p q k,
  (coef (pmul p q) k == wsum (fun ka => wsum (hits k ka) q) p)%Q.
Proof.
  intros p q k. rewrite pmul_unfold. induction p as [|a p IH]; cbn [flat_map wsum coef]; [reflexivity|].
  rewrite coef_app, coef_map_mmul2, IH. reflexivity.
Qed.

Lemma pmul_peq : forall p p' q q', peq p p' -> peq q q' -> peq (pmul p q) (pmul p' q').
Proof.
  intros p p' q q' Hp Hq k. rewrite !coef_pmul.
  rewrite (wsum_peq _ p p' Hp). apply wsum_ext. intros ka. apply wsum_peq. exact Hq.
Qed.

Lemma peq_app : forall p p' q q', peq p p' -> peq q q' -> peq (p ++ q) (p' ++ q').
Proof. intros p p' q q' Hp Hq k. rewrite !coef_app, (Hp k), (Hq k). reflexivity. Qed.

Lemma peq_flat_map : forall {A} (f g : A -> poly) l,
  (forall a, In a l -> peq (f a) (g a)) -> peq (flat_map f l) (flat_map g l).
Proof.
  intros A f g l. induction l as [|a l IH]; intros H; cbn [flat_map]; [apply peq_refl|].
  apply peq_app; [apply H; left; auto | apply IH; intros; apply H; right; auto].
Qed.

Lemma prodc_peq : forall (f g : rtree -> oid -> poly) cs vs,
  (forall k y, In k cs -> peq (f k y) (g k y)) -> peq (prodc f cs vs) (prodc g cs vs).
Proof.
  intros f g. induction cs as [|c cs IH]; intros vs H; destruct vs as [|x vs]; cbn [prodc]; try apply peq_refl.
  apply pmul_peq; [apply H; left; auto | apply IH; intros; apply H; right; auto].
Qed.

(* ====================================================================================== *)
(* 2. combine_subtrees                                                                     *)
(* ====================================================================================== *)
Definition is_some {A : Type} (o : option A) : bool := match o with Some _ => true | None => false end.

(* node p occurs in t (entered with / without a parent leg: hp0) with parent-leg flag hp and
   children cs *)
Inductive node_at : rtree -> bool -> nat -> bool -> list rtree -> Prop :=
| na_here : forall v cs hp, node_at (RNode v cs) hp v hp cs
| na_child : forall v cs' hp0 k p hp cs, In k cs' -> node_at k true p hp cs ->
                                         node_at (RNode v cs') hp0 p hp cs.

Lemma node_at_subtree : forall t h0 p hp cs, node_at t h0 p hp cs -> is_subtree (RNode p cs) t.
Proof. intros t h0 p hp cs H. induction H; [apply sub_here | eapply sub_child; eauto]. Qed.

Lemma node_at_in : forall t h0 p hp cs, node_at t h0 p hp cs -> In p (ids t).
Proof.
  intros. eapply is_subtree_ids; [eapply node_at_subtree; eauto|]. simpl. left. reflexivity.
Qed.

Lemma node_at_det : forall t, NoDup (ids t) -> forall h0 p hp1 cs1 hp2 cs2,
  node_at t h0 p hp1 cs1 -> node_at t h0 p hp2 cs2 -> hp1 = hp2 /\ cs1 = cs2.
Proof.
  induction t as [v cs IH] using rtree_ind2. intros ND h0 p hp1 cs1 hp2 cs2 H1 H2.
  inversion H1; subst; inversion H2; subst; auto.
  - exfalso. eapply wf_root_notin_child; eauto. eapply node_at_in; eauto.
  - exfalso. eapply wf_root_notin_child; eauto. eapply node_at_in; eauto.
  - assert (k = k0).
    { eapply (wf_children_eq v cs k k0 p); eauto; eapply node_at_in; eauto. }
    subst k0. rewrite Forall_forall in IH. eapply (IH k); eauto. eapply wf_child; eauto.
Qed.

Lemma find_parent_node_at : forall t h0 c p hp cs, find_parent t h0 c = Some (p, hp, cs) ->
  node_at t h0 p hp cs /\ exists k, In k cs /\ rid k = c.
Proof.
  induction t as [v cs' IH] using rtree_ind2. intros h0 c p hp cs H. cbn [find_parent] in H.
  destruct (existsb (fun k => Nat.eqb (rid k) c) cs') eqn:E.
  - inversion H; subst. split; [constructor|]. apply existsb_exists in E. destruct E as [k [Hk Ek]].
    exists k. split; auto. apply Nat.eqb_eq. exact Ek.
  - apply first_some_In in H. destruct H as [k [Hk Hf]]. rewrite Forall_forall in IH.
    destruct (IH k Hk _ _ _ _ _ Hf) as [Hn Hex]. split; auto. eapply na_child; eauto.
Qed.

Lemma hnode_redirect : forall p hp cs c x1 x2 h, hnode (redirect_he p hp cs c x1 x2 h) = hnode h.
Proof. intros. unfold redirect_he. destruct (Nat.eqb (hnode h) p); reflexivity. Qed.

Lemma he_term_redirect : forall p hp cs c x1 x2 h, he_term (redirect_he p hp cs c x1 x2 h) = he_term h.
Proof. intros. unfold redirect_he. destruct (Nat.eqb (hnode h) p); reflexivity. Qed.

Lemma child_verts_redirect : forall p cs c x1 x2 h pv, hnode h = p ->
  child_verts pv (redirect_he p (is_some pv) cs c x1 x2 h)
  = option_map (subst_at cs c x1 x2) (child_verts pv h).
Proof.
  intros p cs c x1 x2 h pv E. unfold redirect_he. rewrite E, Nat.eqb_refl.
  destruct pv as [y|]; cbn [is_some child_verts set_verts hverts option_map]; [|reflexivity].
  destruct (hverts h) as [|q r]; [reflexivity|]. destruct (oid_eqb y q); reflexivity.
Qed.

Lemma prodc_subst : forall (f' f : rtree -> oid -> poly) c x1 x2 cs vs,
  (forall k y, In k cs -> peq (f' k y) (f k y)) ->
  (forall k, In k cs -> rid k = c -> peq (f k x1) (f k x2)) ->
  peq (prodc f' cs (subst_at cs c x1 x2 vs)) (prodc f cs vs).
Proof.
  intros f' f c x1 x2. induction cs as [|k cs IH]; intros vs H1 H2; destruct vs as [|y vs]; cbn [subst_at prodc]; try apply peq_refl.
  destruct (Nat.eqb (rid k) c) eqn:E; cbn [prodc].
  - apply pmul_peq; [|apply prodc_peq; intros; apply H1; right; auto].
    eapply peq_trans; [apply H1; left; auto|].
    destruct (oid_eqb y x2) eqn:Ey; [|apply peq_refl].
    apply oid_eqb_true in Ey. subst y. apply H2; [left; auto | apply Nat.eqb_eq; exact E].
  - apply pmul_peq; [apply H1; left; auto|]. apply IH; intros; [apply H1 | apply H2]; auto; right; auto.
Qed.

Lemma redirect_val : forall s p hp cs c x1 x2,
  (forall k, In k cs -> rid k = c -> peq (val s k (Some x1)) (val s k (Some x2))) ->
  forall t pv,
  (forall hp' cs', node_at t (is_some pv) p hp' cs' -> hp' = hp /\ cs' = cs) ->
  peq (val (map (redirect_he p hp cs c x1 x2) s) t pv) (val s t pv).
Proof.
  intros s p hp cs c x1 x2 Hside. induction t as [v cs' IH] using rtree_ind2. intros pv Hdet.
  rewrite Forall_forall in IH.
  assert (IHc : forall k y, In k cs' ->
            peq (val (map (redirect_he p hp cs c x1 x2) s) k (Some y)) (val s k (Some y))).
  { intros k y Hk. apply IH; auto. intros hp' cs'' Hn. apply Hdet. eapply na_child; eauto. }
  cbn [val]. rewrite flat_map_map. apply peq_flat_map. intros h Hh.
  rewrite hnode_redirect, he_term_redirect.
  destruct (Nat.eqb (hnode h) v) eqn:Ev; [|apply peq_refl]. apply Nat.eqb_eq in Ev.
  destruct (Nat.eq_dec v p) as [E|NE].
  - subst p. destruct (Hdet (is_some pv) cs' (na_here _ _ _)) as [E1 E2]. subst hp cs.
    rewrite child_verts_redirect by exact Ev.
    destruct (child_verts pv h) as [vs|]; cbn [option_map]; [|apply peq_refl].
    apply pmul_peq; [apply peq_refl|]. apply prodc_subst; auto.
  - assert (Eh : redirect_he p hp cs c x1 x2 h = h).
    { unfold redirect_he. rewrite Ev. destruct (Nat.eqb v p) eqn:E'; auto. apply Nat.eqb_eq in E'. contradiction. }
    rewrite Eh. destruct (child_verts pv h) as [vs|]; [|apply peq_refl].
    apply pmul_peq; [apply peq_refl|]. apply prodc_peq. auto.
Qed.

Lemma child_of_subtree : forall t h0 p hp cs k, NoDup (ids t) -> node_at t h0 p hp cs -> In k cs ->
  subtree (rid k) t = Some k.
Proof.
  intros t h0 p hp cs k ND Hn Hk. apply subtree_complete; auto.
  eapply is_subtree_trans; [|eapply node_at_subtree; eauto]. apply is_subtree_child. exact Hk.
Qed.

(* step 1: redirecting the parent-side hyperedges of x2 to x1 keeps the denotation *)
Theorem merge_redirect_sound : forall t c x1 x2 d, NoDup (ids t) ->
  peq (child_side t d c x1) (child_side t d c x2) ->
  peq (val (merge_redirect t c x1 x2 (hes d)) t None) (sd_denote t d).
Proof.
  intros t c x1 x2 d ND Hside. unfold merge_redirect, sd_denote.
  destruct (find_parent t false c) as [[[p hp] cs]|] eqn:F; [|apply peq_refl].
  destruct (find_parent_node_at _ _ _ _ _ _ F) as [Hn _].
  apply redirect_val.
  - intros k Hk Ek. unfold child_side in Hside.
    rewrite <- Ek, (child_of_subtree t false p hp cs k ND Hn Hk) in Hside. exact Hside.
  - intros hp' cs' Hn'. cbn [is_some] in Hn'. eapply node_at_det; eauto.
Qed.

(* ---- erasing the unreachable sub-diagram ------------------------------------------------ *)
Lemma omem_In : forall x l, omem x l = true <-> In x l.
Proof.
  intros x l. unfold omem. rewrite existsb_exists. split.
  - intros [y [Hy E]]. apply oid_eqb_true in E. subst. exact Hy.
  - intros H. exists x. split; auto. apply oid_eqb_refl.
Qed.

Lemma dead_not_entered : forall M h v pv, is_dead M h = true -> hnode h = v ->
  match pv with Some y => ~ In y (dead_of M v) | None => dead_of M v = [] end ->
  child_verts pv h = None.
Proof.
  intros M h v pv Hd Ev Hpv. unfold is_dead in Hd. rewrite Ev in Hd.
  destruct (hverts h) as [|q r] eqn:Eh; [discriminate|]. apply omem_In in Hd.
  destruct pv as [y|]; cbn [child_verts]; rewrite Eh.
  - destruct (oid_eqb y q) eqn:E; auto. apply oid_eqb_true in E. subst. contradiction.
  - rewrite Hpv in Hd. destruct Hd.
Qed.

Lemma erase_val : forall M s, private M s -> forall t, NoDup (ids t) -> forall pv,
  match pv with Some y => ~ In y (dead_of M (rid t)) | None => dead_of M (rid t) = [] end ->
  val (erase_hes M s) t pv = val s t pv.
Proof.
  intros M s Hpriv. induction t as [v cs IH] using rtree_ind2. intros ND pv Hpv.
  rewrite Forall_forall in IH. cbn [rid] in Hpv.
  cbn [val]. unfold erase_hes at 1.
  rewrite <- (flat_map_filter_nil _ (fun h => negb (is_dead M h)) s).
  2:{ intros h Hd. apply negb_false_iff in Hd. destruct (Nat.eqb (hnode h) v) eqn:Ev; auto.
      apply Nat.eqb_eq in Ev. rewrite (dead_not_entered M h v pv Hd Ev Hpv). reflexivity. }
  apply flat_map_ext_in. intros h Hh.
  destruct (Nat.eqb (hnode h) v) eqn:Ev; auto. apply Nat.eqb_eq in Ev.
  destruct (child_verts pv h) as [vs|] eqn:Ec; auto.
  destruct (is_dead M h) eqn:Hd.
  { rewrite (dead_not_entered M h v pv Hd Ev Hpv) in Ec. discriminate. }
  f_equal. apply prodc_ext. intros k y Hk Hy. apply IH; auto.
  - eapply wf_child; eauto.
  - apply (Hpriv h (rid k) y Hh Hd).
    + rewrite Ev. intros E. eapply wf_root_notin_child; eauto. rewrite E. apply rid_in_ids.
    + eapply child_verts_sub; eauto.
Qed.

(* keys of the dead map are nodes of the subtree *)
Lemma dead_map_keys : forall s t dead e, In e (dead_map s t dead) -> In (fst e) (ids t).
Proof.
  intros s. induction t as [v cs IH] using rtree_ind2. intros dead e H. cbn [dead_map] in H.
  destruct H as [H|H]; [subst; left; reflexivity|]. right. cbn [ids].
  rewrite Forall_forall in IH.
  revert H. generalize (map (fun h : he => tl (hverts h)) (filter (entered dead v) s)).
  induction cs as [|k cs IHcs]; intros vss H; [destruct H|].
  apply in_app_or in H. cbn [flat_map]. apply in_or_app. destruct H as [H|H].
  - left. eapply IH; [left; reflexivity | exact H].
  - right. eapply IHcs; [|exact H]. intros x Hx. apply IH. right. exact Hx.
Qed.

Lemma dead_of_notin : forall M v, (forall e, In e M -> fst e <> v) -> dead_of M v = [].
Proof.
  intros M v H. unfold dead_of. destruct (find (fun e => Nat.eqb (fst e) v) M) as [e|] eqn:F; auto.
  apply find_some in F. destruct F as [Hin E]. apply Nat.eqb_eq in E. exfalso. eapply H; eauto.
Qed.

Lemma proper_subtree_root : forall s t, NoDup (ids t) -> is_subtree s t -> s = t \/ ~ In (rid t) (ids s).
Proof.
  intros s t ND H. destruct H as [|i cs c Hc Hs]; [left; reflexivity|]. right. cbn [rid]. intros Hin.
  eapply wf_root_notin_child; eauto. eapply is_subtree_ids; eauto.
Qed.

Lemma child_not_root : forall t h0 p hp cs k, NoDup (ids t) -> node_at t h0 p hp cs -> In k cs ->
  ~ In (rid t) (ids k).
Proof.
  intros t h0 p hp cs k ND Hn Hk.
  assert (Hs : is_subtree (RNode p cs) t) by (eapply node_at_subtree; eauto).
  assert (Hsk : is_subtree k t) by (eapply is_subtree_trans; [apply (is_subtree_child (RNode p cs)); exact Hk | exact Hs]).
  destruct (proper_subtree_root k t ND Hsk) as [E|H]; auto.
  exfalso. subst k.
  assert (NDp : NoDup (ids (RNode p cs))) by (eapply is_subtree_wf; eauto).
  eapply (wf_root_notin_child p cs t NDp Hk). eapply node_at_in; eauto.
Qed.

(* combine_subtrees for one pair of hyperedges with equal hashes: redirect, then erase *)
Theorem merge_equal_subtrees_sound : forall t c x1 x2 d, NoDup (ids t) ->
  peq (child_side t d c x1) (child_side t d c x2) ->
  private (merge_dead t c x2 (merge_redirect t c x1 x2 (hes d))) (merge_redirect t c x1 x2 (hes d)) ->
  peq (sd_denote t (merge t c x1 x2 d)) (sd_denote t d).
Proof.
  intros t c x1 x2 d ND Hside Hpriv. unfold sd_denote at 1. unfold merge. cbn [hes]. unfold merge_hes.
  destruct (oid_eqb x1 x2); [apply peq_refl|].
  destruct (find_parent t false c) as [[[p hp] cs]|] eqn:F.
  2:{ apply peq_refl. }
  cbv zeta. eapply peq_trans; [|apply merge_redirect_sound; eauto].
  rewrite erase_val; auto; [apply peq_refl|].
  destruct (find_parent_node_at _ _ _ _ _ _ F) as [Hn [k [Hk Ek]]].
  apply dead_of_notin. intros e He E. unfold merge_dead in He.
  rewrite <- Ek, (child_of_subtree t false p hp cs k ND Hn Hk) in He.
  apply dead_map_keys in He. rewrite E in He. eapply child_not_root; eauto.
Qed.

Lemma privateb_sound : forall M s, privateb M s = true -> private M s.
Proof.
  intros M s H h k y Hh Hd Hk Hy Hin. unfold privateb in H. rewrite forallb_forall in H.
  specialize (H h Hh). rewrite Hd in H. cbn [orb] in H. rewrite forallb_forall in H.
  unfold dead_of in Hin. destruct (find (fun e => Nat.eqb (fst e) k) M) as [e|] eqn:F; [|destruct Hin].
  apply find_some in F. destruct F as [He Ek]. apply Nat.eqb_eq in Ek.
  specialize (H e He). apply orb_true_iff in H. destruct H as [H|H].
  - apply Nat.eqb_eq in H. congruence.
  - rewrite forallb_forall in H. specialize (H y Hy). apply negb_true_iff in H.
    apply omem_In in Hin. congruence.
Qed.

(* a certified diagram stays certified: the merge keeps exactness *)
Corollary merge_keeps_exact : forall t H c x1 x2 d, NoDup (ids t) ->
  peq (child_side t d c x1) (child_side t d c x2) ->
  privateb (merge_dead t c x2 (merge_redirect t c x1 x2 (hes d))) (merge_redirect t c x1 x2 (hes d)) = true ->
  peq (sd_denote t d) (ham_denote t H) ->
  peq (sd_denote t (merge t c x1 x2 d)) (ham_denote t H).
Proof.
  intros t H c x1 x2 d ND Hs Hp He. eapply peq_trans; [|exact He].
  apply merge_equal_subtrees_sound; auto. apply privateb_sound. exact Hp.
Qed.

(* ====================================================================================== *)
(* 3. cut_and_optimise: regrouping along a vertex cover                                    *)
(* ====================================================================================== *)
Section RegroupProofs.
  Variable R : Type.
  Variables (r0 r1 : R) (radd rmul rsub : R -> R -> R) (ropp : R -> R).
  Hypothesis Rth : ring_theory r0 r1 radd rmul rsub ropp eq.
  Add Ring Rring : Rth.
  Local Notation "a + b" := (radd a b).
  Local Notation "a * b" := (rmul a b).
  Local Notation rs := (rsum R r0 radd).

  Lemma rsum_ext : forall {A} (l : list A) f g, (forall a, In a l -> f a = g a) -> rs l f = rs l g.
  Proof.
    intros A l f g. induction l as [|a l IH]; intros H; cbn [rsum fold_right]; auto.
    unfold rsum in IH. rewrite IH by (intros; apply H; right; auto). rewrite (H a (or_introl eq_refl)). reflexivity.
  Qed.
  Lemma rsum_cons : forall {A} (a : A) l f, rs (a :: l) f = f a + rs l f.
  Proof. reflexivity. Qed.
  Lemma rsum_app : forall {A} (l l' : list A) f, rs (l ++ l') f = rs l f + rs l' f.
  Proof. intros A l l' f. induction l as [|a l IH]; [change (rs l' f = r0 + rs l' f); ring|]. cbn [app]. rewrite !rsum_cons, IH. ring. Qed.
  Lemma rsum_0 : forall {A} (l : list A), rs l (fun _ => r0) = r0.
  Proof. intros A l. induction l as [|a l IH]; [reflexivity|]. rewrite rsum_cons, IH. ring. Qed.
  Lemma rsum_add : forall {A} (l : list A) f g, rs l (fun a => f a + g a) = rs l f + rs l g.
  Proof. intros A l f g. induction l as [|a l IH]; [cbn; ring|]. rewrite !rsum_cons, IH. ring. Qed.
  Lemma rsum_mul_l : forall {A} (l : list A) c f, c * rs l f = rs l (fun a => c * f a).
  Proof. intros A l c f. induction l as [|a l IH]; [cbn; ring|]. rewrite !rsum_cons, <- IH. ring. Qed.
  Lemma rsum_mul_r : forall {A} (l : list A) c f, rs l f * c = rs l (fun a => f a * c).
  Proof. intros A l c f. induction l as [|a l IH]; [cbn; ring|]. rewrite !rsum_cons, <- IH. ring. Qed.
  Lemma rsum_swap : forall {A B} (la : list A) (lb : list B) f,
    rs la (fun a => rs lb (fun b => f a b)) = rs lb (fun b => rs la (fun a => f a b)).
  Proof.
    intros A B la lb f. induction la as [|a la IH].
    - cbn [rsum fold_right]. symmetry. apply rsum_0.
    - rewrite rsum_cons, IH, <- rsum_add. apply rsum_ext. intros b _. rewrite rsum_cons. reflexivity.
  Qed.
  Lemma rsum_swap3 : forall {A B C} (la : list A) (lb : list B) (lc : list C) f,
    rs la (fun a => rs lb (fun b => rs lc (fun c => f a b c)))
    = rs lc (fun c => rs la (fun a => rs lb (fun b => f a b c))).
  Proof.
    intros. rewrite (rsum_ext la _ (fun a => rs lc (fun c => rs lb (fun b => f a b c))))
      by (intros; apply rsum_swap).
    apply rsum_swap.
  Qed.
  Lemma rsum_swap22 : forall {A B C D} (la : list A) (lb : list B) (li : list C) (lj : list D) f,
    rs la (fun a => rs lb (fun b => rs li (fun i => rs lj (fun j => f a b i j))))
    = rs li (fun i => rs lj (fun j => rs la (fun a => rs lb (fun b => f a b i j)))).
  Proof.
    intros. rewrite (rsum_swap3 la lb li (fun a b i => rs lj (fun j => f a b i j))).
    apply rsum_ext. intros i _. apply (rsum_swap3 la lb lj (fun a b j => f a b i j)).
  Qed.
  Lemma rsum_filter : forall {A} (l : list A) p f,
    rs (filter p l) f = rs l (fun a => if p a then f a else r0).
  Proof.
    intros A l p f. induction l as [|a l IH]; [reflexivity|]. cbn [filter]. rewrite rsum_cons.
    destruct (p a); [rewrite rsum_cons, IH; reflexivity | rewrite IH; ring].
  Qed.
  Lemma rsum_perm : forall {A} (l l' : list A) f, Permutation l l' -> rs l f = rs l' f.
  Proof.
    intros A l l' f H. induction H; auto.
    - rewrite !rsum_cons, IHPermutation. reflexivity.
    - rewrite !rsum_cons. ring.
    - congruence.
  Qed.
  (* a duplicate-free list of indices below m as an indicator sum over range(m) *)
  Lemma rsum_sub : forall C m f, NoDup C -> (forall a, In a C -> a < m) ->
    rs C f = rs (seq 0 m) (fun a => if mem a C then f a else r0).
  Proof.
    intros C m f ND Hlt. rewrite <- (rsum_filter (seq 0 m) (fun a => mem a C) f).
    apply rsum_perm. apply NoDup_Permutation; auto.
    - apply NoDup_filter. apply seq_NoDup.
    - intros x. rewrite filter_In, in_seq, mem_In. split; [intros H; split; auto; split; [lia | apply Hlt; auto] | tauto].
  Qed.

  Variables (m n m' n' : nat) (L Gu Rr G : nat -> nat -> R) (u v : nat -> R).
  Variable supp : nat -> nat -> bool.
  Variables Cu Cv : list nat.
  (* Gamma = Op_l * Gamma_u * Op_r entry by entry *)
  Hypothesis Hfact : forall i j, i < m -> j < n -> G i j = mprod3 R r0 radd rmul m' n' L Gu Rr i j.
  (* the bipartite graph has an edge wherever Gamma_u is not zero *)
  Hypothesis Hsupp : forall a b, a < m' -> b < n' -> supp a b = false -> Gu a b = r0.
  (* (Cu, Cv) is a vertex cover of it *)
  Hypothesis Hcover : forall a b, a < m' -> b < n' -> supp a b = true -> In a Cu \/ In b Cv.
  Hypothesis HCu : NoDup Cu /\ forall a, In a Cu -> a < m'.
  Hypothesis HCv : NoDup Cv /\ forall b, In b Cv -> b < n'.

  Local Notation U := (ucomb R r0 radd rmul m L u).
  Local Notation V := (vcomb R r0 radd rmul n Rr v).
  Let T (a b : nat) : R := Gu a b * (U a * V b).

  (* the cut in terms of the virtual nodes: sum_ab Gamma_u[a][b] * U_a * V_b *)
  Lemma bilform_factor :
    bilform R r0 radd rmul m n G u v = rs (seq 0 m') (fun a => rs (seq 0 n') (fun b => T a b)).
  Proof.
    unfold bilform.
    transitivity (rs (seq 0 m) (fun i => rs (seq 0 n) (fun j =>
                    rs (seq 0 m') (fun a => rs (seq 0 n') (fun b => (u i * (L i a * Gu a b * Rr b j)) * v j))))).
    { apply rsum_ext. intros i Hi. apply rsum_ext. intros j Hj. apply in_seq in Hi. apply in_seq in Hj.
      rewrite Hfact by lia. unfold mprod3. rewrite rsum_mul_l, rsum_mul_r. apply rsum_ext. intros a _.
      rewrite rsum_mul_l, rsum_mul_r. reflexivity. }
    rewrite <- (rsum_swap22 (seq 0 m') (seq 0 n') (seq 0 m) (seq 0 n)
                  (fun a b i j => (u i * (L i a * Gu a b * Rr b j)) * v j)).
    apply rsum_ext. intros a _. apply rsum_ext. intros b _. unfold T, ucomb, vcomb.
    rewrite rsum_mul_r, rsum_mul_l. apply rsum_ext. intros i _.
    rewrite rsum_mul_l, rsum_mul_l. apply rsum_ext. intros j _. ring.
  Qed.

  Lemma T_unsupported : forall a b, a < m' -> b < n' -> supp a b = false -> T a b = r0.
  Proof. intros a b Ha Hb H. unfold T. rewrite (Hsupp a b Ha Hb H). ring. Qed.

  Lemma row_vertex_sum : forall a, a < m' ->
    row_vertex R r0 radd rmul m n n' L Gu Rr u v supp a = rs (seq 0 n') (fun b => T a b).
  Proof.
    intros a Ha. unfold row_vertex. rewrite rsum_filter, rsum_mul_l. apply rsum_ext. intros b Hb.
    apply in_seq in Hb. destruct (supp a b) eqn:E; [unfold T; ring|].
    rewrite T_unsupported by (auto; lia). ring.
  Qed.

  Lemma col_vertex_sum : forall b, b < n' ->
    col_vertex R r0 radd rmul m n m' L Gu Rr u v supp Cu b
    = rs (seq 0 m') (fun a => if mem a Cu then r0 else T a b).
  Proof.
    intros b Hb. unfold col_vertex. rewrite rsum_filter, rsum_mul_r. apply rsum_ext. intros a Ha.
    apply in_seq in Ha. destruct (mem a Cu); [rewrite andb_false_r; ring|]. rewrite andb_true_r.
    destruct (supp a b) eqn:E; [unfold T; ring|].
    rewrite T_unsupported by (auto; lia). ring.
  Qed.

  (* cut_and_optimise / _reconnect_hyperedges: the new vertices carry exactly the old cut *)
  Theorem cut_regroup_sound :
    bilform R r0 radd rmul m n G u v
    = regrouped R r0 radd rmul m n m' n' L Gu Rr u v supp Cu Cv.
  Proof.
    rewrite bilform_factor. unfold regrouped. destruct HCu as [NDu Hu]. destruct HCv as [NDv Hv].
    rewrite (rsum_ext Cu _ (fun a => rs (seq 0 n') (fun b => T a b)))
      by (intros; apply row_vertex_sum; auto).
    rewrite (rsum_ext Cv _ (fun b => rs (seq 0 m') (fun a => if mem a Cu then r0 else T a b)))
      by (intros; apply col_vertex_sum; auto).
    rewrite (rsum_sub Cu m') by auto. rewrite (rsum_sub Cv n') by auto.
    rewrite (rsum_ext (seq 0 n') _ (fun b => rs (seq 0 m') (fun a => if mem a Cu then r0 else T a b))).
    2:{ intros b Hb. apply in_seq in Hb. destruct (mem b Cv) eqn:Eb; auto.
        symmetry. etransitivity; [|apply (rsum_0 (seq 0 m'))]. apply rsum_ext. intros a Ha. apply in_seq in Ha.
        destruct (mem a Cu) eqn:Ea; auto. apply T_unsupported; try lia.
        destruct (supp a b) eqn:E; auto. exfalso.
        destruct (Hcover a b) as [H|H]; try lia; auto; apply mem_In in H; congruence. }
    rewrite (rsum_swap (seq 0 n') (seq 0 m') (fun b a => if mem a Cu then r0 else T a b)), <- rsum_add.
    apply rsum_ext. intros a _.
    destruct (mem a Cu); [rewrite rsum_0; ring|ring].
  Qed.
End RegroupProofs.

(* every entry of Gamma_u in the support is used by exactly one of the new vertices (rows first) *)
Lemma count_nodup : forall l a, NoDup l ->
  length (filter (fun x => Nat.eqb x a) l) = if mem a l then 1 else 0.
Proof.
  induction l as [|x l IH]; intros a ND; [reflexivity|]. inversion ND as [|? ? Hx ND']; subst.
  cbn [filter mem existsb]. fold (mem a l). rewrite (Nat.eqb_sym a x).
  destruct (Nat.eqb x a) eqn:E; cbn [orb length]; rewrite IH by auto; auto.
  apply Nat.eqb_eq in E. subst. apply mem_false in Hx. rewrite Hx. reflexivity.
Qed.

Theorem cover_assignment_unique : forall Cu Cv a b, NoDup Cu -> NoDup Cv -> In a Cu \/ In b Cv ->
  length (filter (uses Cu a b) (new_vertices Cu Cv)) = 1.
Proof.
  intros Cu Cv a b NDu NDv H. unfold new_vertices. rewrite filter_app, app_length.
  assert (E1 : forall l, length (filter (uses Cu a b) (map inl l)) = length (filter (fun x => Nat.eqb x a) l)).
  { induction l as [|x l IH]; [reflexivity|]. cbn [map filter uses]. destruct (Nat.eqb x a); cbn [length]; rewrite IH; reflexivity. }
  assert (E2 : forall l, length (filter (uses Cu a b) (map inr l))
                         = if mem a Cu then 0 else length (filter (fun y => Nat.eqb y b) l)).
  { induction l as [|y l IH]; [destruct (mem a Cu); reflexivity|]. cbn [map filter uses].
    destruct (mem a Cu); [rewrite andb_false_r; exact IH|]. rewrite andb_true_r.
    destruct (Nat.eqb y b); cbn [length]; rewrite IH; reflexivity. }
  rewrite E1, E2, !count_nodup by auto.
  destruct (mem a Cu) eqn:Ea; [reflexivity|]. destruct (mem b Cv) eqn:Eb; [reflexivity|].
  exfalso. destruct H as [H|H]; apply mem_In in H; congruence.
Qed.

(* ---- composition with C13: the factorisation gaussian_elimination returns ---------------- *)
Lemma sumn_rsum : forall n f, PTN.SGE.Model.sumn n f = rsum Qc (Q2Qc 0) Qcplus (seq 0 n) f.
Proof.
  induction n as [|k IH]; intros f; [reflexivity|].
  cbn [PTN.SGE.Model.sumn]. rewrite seq_S, (rsum_app Qc _ _ _ _ _ _ Qcrt), IH. cbn [plus rsum fold_right]. ring.
Qed.

(* For every non-empty rectangular Gamma: symbolic Gaussian elimination returns Op_l, Gamma_u, Op_r
   such that, for every vertex cover of the non-zero entries of Gamma_u and every symbol x (None =
   the constant part), the cut sum_ij u_i Gamma_ij[x] v_j is the sum over the new vertices. *)
Theorem cut_regroup_sge : forall (m n : nat) (M : PTN.SGE.Model.mat),
  length M = m /\ PTN.SGE.Model.rectE n M -> (1 <= m)%nat -> (1 <= n)%nat ->
  exists (L : PTN.SGE.Model.qmat) (M' : PTN.SGE.Model.mat) (Rr : PTN.SGE.Model.qmat) (m' n' : nat),
    PTN.SGE.Model.gaussian_elimination M = Some (L, M', Rr) /\
    (length M' = m' /\ PTN.SGE.Model.rectE n' M') /\
    forall (supp : nat -> nat -> bool) (Cu Cv : list nat),
      (forall a b, a < m' -> b < n' -> supp a b = false ->
                   forall x, PTN.SGE.Model.coef (PTN.SGE.Model.get M' a b) x = Q2Qc 0) ->
      (forall a b, a < m' -> b < n' -> supp a b = true -> In a Cu \/ In b Cv) ->
      (NoDup Cu /\ forall a, In a Cu -> a < m') -> (NoDup Cv /\ forall b, In b Cv -> b < n') ->
      forall (x : option nat) (u v : nat -> Qc),
        bilform Qc (Q2Qc 0) Qcplus Qcmult m n (fun i j => PTN.SGE.Model.coef (PTN.SGE.Model.get M i j) x) u v
        = regrouped Qc (Q2Qc 0) Qcplus Qcmult m n m' n'
            (PTN.SGE.Model.qget L) (fun a b => PTN.SGE.Model.coef (PTN.SGE.Model.get M' a b) x) (PTN.SGE.Model.qget Rr)
            u v supp Cu Cv.
Proof.
  intros m n M Hs Hm Hn.
  destruct (PTN.SGE.ModelProofs.ge_correct m n M Hs Hm Hn) as [L [M' [Rr [m' [n' [Hge [_ [_ [_ [_ [_ [HM' [_ Hprod]]]]]]]]]]]]].
  exists L, M', Rr, m', n'. split; [exact Hge|]. split; [exact HM'|].
  intros supp Cu Cv Hsupp Hcover HCu HCv x u v.
  apply (cut_regroup_sound Qc _ _ _ _ _ _ Qcrt); auto.
  intros i j Hi Hj. rewrite <- (Hprod i j x Hi Hj). unfold PTN.SGE.Model.prod3, mprod3.
  rewrite sumn_rsum. apply (rsum_ext Qc). intros a _. apply sumn_rsum.
Qed.

(* ====================================================================================== *)
(* 4. TTNO.from_state_diagram keeps the structure of the reference tree                    *)
(* ====================================================================================== *)
Lemma move_leg_same : forall (l : list nat) k, k < length l -> move_leg k k l = l.
Proof.
  unfold move_leg. induction l as [|a l IH]; intros k Hk; [cbn in Hk; lia|].
  destruct k as [|k]; [reflexivity|]. cbn [remove_at nth insert_at]. rewrite IH by (cbn in Hk; lia). reflexivity.
Qed.

Lemma map_nth_seq : forall (s : list nat), map (fun i => nth i s 0) (seq 0 (length s)) = s.
Proof.
  intros s. apply nth_ext with (d := 0) (d' := 0).
  - rewrite map_length, seq_length. reflexivity.
  - intros i Hi. rewrite map_length, seq_length in Hi.
    rewrite (nth_indep _ 0 (nth 0 s 0)) by (rewrite map_length, seq_length; exact Hi).
    rewrite (map_nth (fun i => nth i s 0)), seq_nth by exact Hi. reflexivity.
Qed.

Lemma overwrite_exact : forall news tail, overwrite news (repeat 0 (length news) ++ tail) = Some (news ++ tail).
Proof. induction news as [|a news IH]; intros tail; [reflexivity|]. cbn [length repeat app overwrite]. rewrite IH. reflexivity. Qed.

(* the final record of a node and of a whole subtree, in creation (pre-)order *)
Definition final_rec (shp : nat -> list nat) (p : option nat) (v : nat) (cs : list rtree) : tnode :=
  mkTn v p (map rid cs) (seq 0 (length (shp v))) (shp v).
Fixpoint final_recs (shp : nat -> list nat) (p : option nat) (t : rtree) : list tnode :=
  match t with RNode v cs => final_rec shp p v cs :: flat_map (final_recs shp (Some v)) cs end.
Definition addc (pn : tnode) (c : nat) : tnode :=
  mkTn (tn_id pn) (tn_parent pn) (tn_children pn ++ [c]) (tn_perm pn) (tn_shape0 pn).

Lemma final_recs_ids : forall shp t p, map tn_id (final_recs shp p t) = ids t.
Proof.
  intros shp. induction t as [v cs IH] using rtree_ind2. intros p. cbn [final_recs map ids tn_id final_rec]. f_equal.
  rewrite Forall_forall in IH. induction cs as [|k cs IHcs]; [reflexivity|]. cbn [flat_map]. rewrite map_app.
  rewrite IH by (left; auto). rewrite IHcs by (intros; apply IH; right; auto). reflexivity.
Qed.

Lemma tn_find_mid : forall pre pn post, (forall n, In n pre -> tn_id n <> tn_id pn) ->
  tn_find (pre ++ pn :: post) (tn_id pn) = Some pn.
Proof.
  intros pre pn post H. unfold tn_find. induction pre as [|a pre IH]; cbn [app find].
  - rewrite Nat.eqb_refl. reflexivity.
  - destruct (Nat.eqb (tn_id a) (tn_id pn)) eqn:E; [apply Nat.eqb_eq in E; exfalso; eapply H; eauto; left; auto|].
    apply IH. intros; apply H; right; auto.
Qed.

Lemma map_upd_other : forall (f : tnode -> tnode) p l, (forall n, In n l -> tn_id n <> p) ->
  map (fun n => if Nat.eqb (tn_id n) p then f n else n) l = l.
Proof.
  intros f p l H. induction l as [|a l IH]; [reflexivity|]. cbn [map].
  destruct (Nat.eqb (tn_id a) p) eqn:E; [apply Nat.eqb_eq in E; exfalso; eapply H; eauto; left; auto|].
  rewrite IH by (intros; apply H; right; auto). reflexivity.
Qed.

Section Build.
  Variable pd : nat -> option nat.
  Variable t0 : rtree.
  Variable d : sd.
  Variable shp : nat -> list nat.
  Variable ph : nat -> nat.
  Local Notation bond := (nverts_on d).

  (* obtain_tensor_shape on the nodes of k (all below the root of t0) *)
  Definition shapes_ok (k : rtree) : Prop :=
    forall v cs, is_subtree (RNode v cs) k ->
      tensor_shape pd t0 d v = Some (shp v) /\
      shp v = bond v :: map (fun c => bond (rid c)) cs ++ [ph v; ph v].

  Definition rz_spec (k : rtree) : Prop :=
    forall pre pn post,
      (forall n, In n (pre ++ post) -> tn_id n <> tn_id pn) ->
      tn_perm pn = seq 0 (length (tn_shape0 pn)) ->
      nth_error (tn_shape0 pn) (tn_nneigh pn) = Some (bond (rid k)) ->
      (forall x n, In x (ids k) -> In n (pre ++ pn :: post) -> tn_id n <> x) ->
      NoDup (ids k) -> shapes_ok k ->
      rec_zero pd t0 d (tn_id pn) k (pre ++ pn :: post)
      = Some (pre ++ addc pn (rid k) :: post ++ final_recs shp (Some (tn_id pn)) k).

  Lemma add_child_spec : forall pre pn post c shape,
    (forall n, In n (pre ++ post) -> tn_id n <> tn_id pn) ->
    tn_perm pn = seq 0 (length (tn_shape0 pn)) ->
    nth_error (tn_shape0 pn) (tn_nneigh pn) = nth_error shape 0 ->
    nth_error shape 0 <> None ->
    (forall n, In n (pre ++ pn :: post) -> tn_id n <> c) ->
    add_child (pre ++ pn :: post) c shape 0 (tn_id pn) (tn_nneigh pn)
    = Some (pre ++ addc pn c :: post ++ [mkTn c (Some (tn_id pn)) [] (seq 0 (length shape)) shape]).
  Proof.
    intros pre pn post c shape Huniq Hperm Hnth Hsome Hfresh. unfold add_child.
    rewrite tn_find_mid by (intros; apply Huniq; apply in_or_app; left; auto).
    assert (Hsh : tn_shape pn = tn_shape0 pn) by (unfold tn_shape; rewrite Hperm; apply map_nth_seq).
    rewrite Hsh, Hnth. destruct (nth_error shape 0) as [dc|] eqn:E0; [|contradiction].
    assert (Hlt : tn_nneigh pn < length (tn_shape0 pn)) by (apply nth_error_Some; rewrite Hnth; discriminate).
    rewrite Nat.eqb_refl, Nat.leb_refl. cbn [andb].
    assert (Hex : existsb (fun n => Nat.eqb (tn_id n) c) (pre ++ pn :: post) = false).
    { destruct (existsb (fun n => Nat.eqb (tn_id n) c) (pre ++ pn :: post)) eqn:Ex; auto.
      apply existsb_exists in Ex. destruct Ex as [n [Hn En]]. apply Nat.eqb_eq in En. exfalso. eapply Hfresh; eauto. }
    rewrite Hex. cbn [negb andb].
    assert (Hl : Nat.ltb (tn_nneigh pn) (length (tn_perm pn)) = true).
    { apply Nat.ltb_lt. rewrite Hperm, seq_length. exact Hlt. }
    rewrite Hl. f_equal. rewrite map_app. cbn [map]. rewrite Nat.eqb_refl.
    rewrite !map_upd_other by (intros; apply Huniq; apply in_or_app; auto).
    rewrite move_leg_same by (rewrite Hperm, seq_length; exact Hlt).
    rewrite move_leg_same.
    2:{ rewrite seq_length. destruct shape; [discriminate|cbn; lia]. }
    rewrite <- app_assoc. reflexivity.
  Qed.

  Lemma rec_zero_unfold : forall p v cs st,
    rec_zero pd t0 d p (RNode v cs) st =
    match tensor_shape pd t0 d v, tn_find st p with
    | Some shape, Some pn =>
        match add_child st v shape 0 p (tn_nneigh pn) with
        | Some st1 => rec_zero_list pd t0 d v cs st1
        | None => None
        end
    | _, _ => None
    end.
  Proof.
    intros p v cs st. cbn [rec_zero]. destruct (tensor_shape pd t0 d v); auto. destruct (tn_find st p); auto.
    destruct (add_child st v l 0 p (tn_nneigh t)) as [st1|]; auto.
    revert st1. induction cs as [|k cs IH]; intros st1; cbn [rec_zero_list]; auto.
    destruct (rec_zero pd t0 d v k st1); auto.
  Qed.

  Lemma skipn_S_tl : forall {A} n (l : list A), skipn (S n) l = tl (skipn n l).
  Proof. intros A. induction n as [|n IH]; intros l; destruct l as [|a l]; try reflexivity. cbn [skipn] in *. apply IH. Qed.

  Lemma nth_error_hd_skipn : forall {A} n (l : list A), nth_error l n = hd_error (skipn n l).
  Proof. intros A. induction n as [|n IH]; intros l; destruct l as [|a l]; try reflexivity. cbn [skipn nth_error]. apply IH. Qed.

  (* the loop over the children of v: rv is v's record so far *)
  Lemma rec_zero_list_spec : forall v todo, Forall rz_spec todo ->
    forall pre rv post tail,
      tn_id rv = v ->
      (forall n, In n (pre ++ post) -> tn_id n <> v) ->
      tn_perm rv = seq 0 (length (tn_shape0 rv)) ->
      skipn (tn_nneigh rv) (tn_shape0 rv) = map (fun c => bond (rid c)) todo ++ tail ->
      (forall x n, In x (flat_map ids todo) -> In n (pre ++ rv :: post) -> tn_id n <> x) ->
      NoDup (flat_map ids todo) -> (forall k, In k todo -> shapes_ok k) ->
      rec_zero_list pd t0 d v todo (pre ++ rv :: post)
      = Some (pre ++ mkTn v (tn_parent rv) (tn_children rv ++ map rid todo) (tn_perm rv) (tn_shape0 rv)
                  :: post ++ flat_map (final_recs shp (Some v)) todo).
  Proof.
    intros v todo. induction todo as [|k todo IH]; intros HF pre rv post tail Hid Huniq Hperm Hskip Hfresh ND Hshp.
    - cbn [rec_zero_list map flat_map]. rewrite !app_nil_r. destruct rv; cbn in *. subst. reflexivity.
    - inversion HF as [|? ? Hk HF']; subst. cbn [rec_zero_list].
      cbn [flat_map] in ND, Hfresh. cbn [map app] in Hskip.
      assert (Hnth : nth_error (tn_shape0 rv) (tn_nneigh rv) = Some (bond (rid k))).
      { rewrite nth_error_hd_skipn, Hskip. reflexivity. }
      destruct (NoDup_app_inv _ _ ND) as [ND1 [ND2 ND3]].
      rewrite (Hk pre rv post); auto.
      2:{ intros x n Hx Hn. apply Hfresh; auto. apply in_or_app; left; auto. }
      2:{ apply Hshp. left; auto. }
      set (rv1 := addc rv (rid k)).
      rewrite (IH HF' pre rv1 (post ++ final_recs shp (Some (tn_id rv)) k) tail); auto.
      + unfold rv1, addc. cbn [tn_parent tn_children tn_perm tn_shape0 map flat_map].
        rewrite <- !app_assoc. reflexivity.
      + intros n Hn. rewrite app_assoc in Hn. apply in_app_or in Hn. destruct Hn as [Hn|Hn]; [apply Huniq; auto|].
        assert (Hin : In (tn_id n) (ids k)) by (rewrite <- (final_recs_ids shp k (Some (tn_id rv))); apply in_map; auto).
        intros E. apply (Hfresh (tn_id n) rv); [apply in_or_app; left; auto | apply in_or_app; right; left; auto | congruence].
      + unfold rv1, addc, tn_nneigh. cbn [tn_perm tn_shape0 tn_parent tn_children].
        rewrite app_length. cbn [length]. rewrite Nat.add_assoc, Nat.add_1_r, skipn_S_tl.
        unfold tn_nneigh in Hskip. rewrite Hskip. reflexivity.
      + intros x n Hx Hn. unfold rv1 in Hn.
        assert (Hn' : In n (pre ++ rv :: post) \/ tn_id n = tn_id rv \/ In (tn_id n) (ids k)).
        { apply in_app_or in Hn. destruct Hn as [Hn|[Hn|Hn]].
          - left. apply in_or_app; left; auto.
          - right; left. subst n. reflexivity.
          - apply in_app_or in Hn. destruct Hn as [Hn|Hn].
            + left. apply in_or_app; right; right; auto.
            + right; right. rewrite <- (final_recs_ids shp k (Some (tn_id rv))). apply in_map; auto. }
        destruct Hn' as [Hn'|[Hn'|Hn']].
        * apply Hfresh; auto. apply in_or_app; right; auto.
        * rewrite Hn'. apply (Hfresh x rv); [apply in_or_app; right; auto | apply in_or_app; right; left; auto].
        * intros E. apply (ND3 (tn_id n)); auto. rewrite E. exact Hx.
      + intros k' Hk'. apply Hshp. right; auto.
  Qed.

  Lemma rz_all : forall k, rz_spec k.
  Proof.
    induction k as [v cs IH] using rtree_ind2. unfold rz_spec. intros pre pn post Huniq Hperm Hnth Hfresh ND Hshp.
    rewrite rec_zero_unfold.
    destruct (Hshp v cs (sub_here _)) as [Hts Hsv]. rewrite Hts.
    rewrite tn_find_mid by (intros; apply Huniq; apply in_or_app; left; auto).
    cbn [rid] in Hnth.
    rewrite (add_child_spec pre pn post v (shp v)); auto.
    2:{ rewrite Hsv. exact Hnth. }
    2:{ rewrite Hsv. discriminate. }
    2:{ intros n Hn. apply Hfresh; auto. left; reflexivity. }
    set (rv0 := mkTn v (Some (tn_id pn)) [] (seq 0 (length (shp v))) (shp v)).
    replace (pre ++ addc pn v :: post ++ [rv0]) with ((pre ++ addc pn v :: post) ++ rv0 :: [])
      by (rewrite <- app_assoc; reflexivity).
    inversion ND as [|? ? Hv NDc]; subst.
    rewrite (rec_zero_list_spec v cs IH (pre ++ addc pn v :: post) rv0 [] [ph v; ph v]); auto.
    - cbn [rid tn_parent tn_children tn_perm tn_shape0 rv0 final_recs final_rec app]. f_equal.
      rewrite <- !app_assoc. reflexivity.
    - intros n Hn. rewrite app_nil_r in Hn.
      assert (Hn' : exists n', In n' (pre ++ pn :: post) /\ tn_id n' = tn_id n).
      { apply in_app_or in Hn. destruct Hn as [Hn|[Hn|Hn]].
        - exists n. split; auto. apply in_or_app; left; auto.
        - exists pn. split; [apply in_or_app; right; left; auto | subst n; reflexivity].
        - exists n. split; auto. apply in_or_app; right; right; auto. }
      destruct Hn' as [n' [Hin E]]. rewrite <- E. apply Hfresh; auto. left; reflexivity.
    - cbn. rewrite Hsv. reflexivity.
    - intros x n Hx Hn.
      apply in_app_or in Hn. destruct Hn as [Hn|[Hn|[]]].
      + assert (Hn' : exists n', In n' (pre ++ pn :: post) /\ tn_id n' = tn_id n).
        { apply in_app_or in Hn. destruct Hn as [Hn|[Hn|Hn]].
          - exists n. split; auto. apply in_or_app; left; auto.
          - exists pn. split; [apply in_or_app; right; left; auto | subst n; reflexivity].
          - exists n. split; auto. apply in_or_app; right; right; auto. }
        destruct Hn' as [n' [Hin E]]. rewrite <- E. apply Hfresh; auto. right; exact Hx.
      + subst n. cbn [tn_id rv0]. intros E. subst x. contradiction.
    - intros k Hk v' cs' Hs. apply Hshp. eapply sub_child; eauto.
  Qed.
End Build.

Lemma tensor_shape_wf : forall pd t d, sd_wf t d = true ->
  (forall h, In h (hes d) -> pd (hlabel h) <> None) ->
  forall v, In v (ids t) ->
    tensor_shape pd t d v = Some (shape_of pd t d v) /\
    exists h, In h (hes d) /\ hnode h = v /\ pd (hlabel h) = Some (phys_of pd d v).
Proof.
  intros pd t d Hwf Hpd v Hv. unfold sd_wf in Hwf.
  apply andb_true_iff in Hwf. destruct Hwf as [Hwf Hex].
  apply andb_true_iff in Hwf. destruct Hwf as [Hwf _].
  apply andb_true_iff in Hwf. destruct Hwf as [_ Hhe].
  rewrite forallb_forall in Hex, Hhe. specialize (Hex v Hv).
  unfold tensor_shape, shape_of, phys_of.
  destruct (find (fun h => Nat.eqb (hnode h) v) (hes d)) as [h|] eqn:F.
  - apply find_some in F. destruct F as [Hh Ev]. apply Nat.eqb_eq in Ev.
    destruct (pd (hlabel h)) as [x|] eqn:Ep; [|exfalso; eapply Hpd; eauto].
    split; [|exists h; auto].
    specialize (Hhe h Hh). unfold he_wf in Hhe.
    apply andb_true_iff in Hhe. destruct Hhe as [Hhe _].
    apply andb_true_iff in Hhe. destruct Hhe as [_ Hlen]. apply Nat.eqb_eq in Hlen. rewrite Ev in Hlen.
    rewrite Hlen, <- (map_length (nverts_on d) (incident t v)). apply overwrite_exact.
  - exfalso. apply existsb_exists in Hex. destruct Hex as [h [Hh Ev]].
    pose proof (find_none _ _ F h Hh) as Hn. cbn in Hn. congruence.
Qed.

Lemma incident_root : forall r cs, NoDup (ids (RNode r cs)) -> incident (RNode r cs) r = map rid cs.
Proof.
  intros r cs ND. unfold incident. rewrite (parent_of_root (RNode r cs) ND : parent_of r (RNode r cs) = None).
  unfold children_ids. cbn [subtree]. rewrite Nat.eqb_refl. reflexivity.
Qed.

Lemma incident_inner : forall t v cs, NoDup (ids t) -> is_subtree (RNode v cs) t -> v <> rid t ->
  incident t v = v :: map rid cs.
Proof.
  intros t v cs ND Hs Hne. unfold incident.
  assert (Hv : In v (ids t)) by (eapply is_subtree_ids; eauto; left; reflexivity).
  destruct (parent_of_nonroot t v Hv Hne) as [p Hp].
  rewrite (parent_of_complete t p v ND Hp).
  unfold children_ids. rewrite (subtree_complete t (RNode v cs) ND Hs : subtree v t = Some (RNode v cs)). reflexivity.
Qed.

(* TTNO.from_state_diagram succeeds on a well-formed diagram and builds exactly these records *)
Theorem ttno_build_spec : forall pd t d, NoDup (ids t) -> sd_wf t d = true ->
  (forall h, In h (hes d) -> pd (hlabel h) <> None) ->
  ttno_build pd t d = Some (final_recs (shape_of pd t d) None t).
Proof.
  intros pd t d ND Hwf Hpd. destruct t as [r cs]. unfold ttno_build.
  destruct (tensor_shape_wf pd _ d Hwf Hpd r (or_introl eq_refl)) as [Hts _]. rewrite Hts.
  set (t := RNode r cs) in *.
  set (rv := mkTn r None [] (seq 0 (length (shape_of pd t d r))) (shape_of pd t d r)).
  change [rv] with ([] ++ rv :: []).
  inversion ND as [|? ? Hr NDc]; subst.
  assert (HF : Forall (rz_spec pd t d (shape_of pd t d) (phys_of pd d)) cs)
    by (apply Forall_forall; intros; apply rz_all).
  assert (H2 : forall n, In n (@nil tnode ++ []) -> tn_id n <> r) by (intros n []).
  assert (H4 : skipn (tn_nneigh rv) (tn_shape0 rv)
               = map (fun c => nverts_on d (rid c)) cs ++ [phys_of pd d r; phys_of pd d r]).
  { unfold rv, tn_nneigh. cbn [tn_parent tn_children tn_shape0 opt_list length plus skipn].
    unfold shape_of. unfold t. rewrite incident_root by exact ND. rewrite map_map. reflexivity. }
  assert (H5 : forall x n, In x (flat_map ids cs) -> In n ([] ++ rv :: []) -> tn_id n <> x).
  { intros x n Hx [Hn|[]]. subst n. cbn [tn_id rv]. intros E. subst x. contradiction. }
  assert (H7 : forall k, In k cs -> shapes_ok pd t d (shape_of pd t d) (phys_of pd d) k).
  { intros k Hk v cs' Hs.
    assert (Hst : is_subtree (RNode v cs') t) by (eapply sub_child; eauto).
    assert (Hv : In v (ids t)) by (eapply is_subtree_ids; eauto; left; reflexivity).
    split; [apply (tensor_shape_wf pd t d Hwf Hpd v Hv)|].
    unfold shape_of. rewrite (incident_inner t v cs' ND Hst).
    + rewrite map_cons, map_map. reflexivity.
    + cbn [rid t]. intros E. subst v. eapply (wf_root_notin_child r cs k ND Hk).
      eapply is_subtree_ids; eauto. left; reflexivity. }
  rewrite (rec_zero_list_spec pd t d _ _ r cs HF [] rv [] _ eq_refl H2 eq_refl H4 H5 NDc H7).
  cbn [app tn_parent tn_children tn_perm tn_shape0 rv final_recs final_rec]. reflexivity.
Qed.

Lemma final_recs_in : forall shp t p n, In n (final_recs shp p t) ->
  exists v cs q, n = final_rec shp q v cs /\ is_subtree (RNode v cs) t /\
    ((RNode v cs = t /\ q = p) \/ exists pp, q = Some pp /\ In (pp, v) (edges t)).
Proof.
  intros shp. induction t as [v cs IH] using rtree_ind2. intros p n Hn. cbn [final_recs] in Hn.
  destruct Hn as [Hn|Hn].
  - exists v, cs, p. split; auto. split; [apply sub_here | left; auto].
  - apply in_flat_map in Hn. destruct Hn as [k [Hk Hn]]. rewrite Forall_forall in IH.
    destruct (IH k Hk _ _ Hn) as [v' [cs' [q [E [Hs Hq]]]]].
    exists v', cs', q. split; auto. split; [eapply sub_child; eauto|]. right.
    destruct Hq as [[E1 E2]|[pp [E1 E2]]].
    + exists v. split; auto. subst k. apply (edges_root v cs (RNode v' cs') Hk).
    + exists pp. split; auto. eapply edges_child; eauto.
Qed.

(* identifiers, parent/child relations, child order, leg order, bond and physical dimensions *)
Theorem structure_preserved : forall pd t d, NoDup (ids t) -> sd_wf t d = true ->
  (forall h, In h (hes d) -> pd (hlabel h) <> None) ->
  exists st, ttno_build pd t d = Some st /\ map tn_id st = ids t /\
    forall n, In n st ->
      tn_parent n = parent_of (tn_id n) t /\
      tn_children n = children_ids t (tn_id n) /\
      tn_shape n = map (nverts_on d) (opt_list (option_map (fun _ => tn_id n) (tn_parent n)) ++ tn_children n)
                   ++ [phys_of pd d (tn_id n); phys_of pd d (tn_id n)] /\
      exists h, In h (hes d) /\ hnode h = tn_id n /\ pd (hlabel h) = Some (phys_of pd d (tn_id n)).
Proof.
  intros pd t d ND Hwf Hpd. exists (final_recs (shape_of pd t d) None t).
  split; [apply ttno_build_spec; auto|]. split; [apply final_recs_ids|].
  intros n Hn. destruct (final_recs_in _ _ _ _ Hn) as [v [cs [q [E [Hs Hq]]]]]. subst n.
  cbn [final_rec tn_id tn_parent tn_children].
  assert (Hv : In v (ids t)) by (eapply is_subtree_ids; eauto; left; reflexivity).
  assert (Hc : children_ids t v = map rid cs).
  { unfold children_ids. rewrite (subtree_complete t (RNode v cs) ND Hs : subtree v t = Some (RNode v cs)). reflexivity. }
  assert (Hp : q = parent_of v t).
  { destruct Hq as [[E1 E2]|[pp [E1 E2]]].
    - subst q. rewrite <- E1. symmetry. apply (parent_of_root (RNode v cs)). rewrite E1. exact ND.
    - subst q. symmetry. apply parent_of_complete; auto. }
  split; [exact Hp|]. split; [symmetry; exact Hc|]. split.
  - unfold tn_shape, final_rec. cbn [tn_perm tn_shape0]. rewrite map_nth_seq. unfold shape_of, incident.
    rewrite Hc, <- Hp. destruct q; reflexivity.
  - apply (tensor_shape_wf pd t d Hwf Hpd v Hv).
Qed.
