(* [ext-C01T] Bounded-exhaustive exactness of the literal TREE model (SD/TreeCmp.v) for unit coefficients:
   for EVERY rooted ordered tree with at most 4 nodes (small_trees), EVERY iteration order of the node dict that
   TreeStructure can have (parents before children: topo_orders), and EVERY list of pairwise different operator strings
   over two labels per site with unit coefficients (at most 4 terms on <= 3 nodes, at most 3 terms on 4 nodes:
   small_hams; 59 784 runs) the step checks tree_ok hold, hence (tree_exact_checked) the TREE diagram exists, is
   well-formed and denotes the Hamiltonian.  The finite domain is checked by vm_compute on the closed boolean
   tree_bounded_all and lifted with forallb_forall; the bound is part of the statement. *)
From Coq Require Import List Arith Bool QArith Lia.
From PTN Require Import Tree.RTree SD.Model SD.ModelProofs SD.Pipeline SD.TreeCmp SD.TreeCmpProofs.
Import ListNotations.
Local Close Scope Q_scope.

Lemma tree_bounded_all_true : tree_bounded_all = true.
Proof. vm_compute. reflexivity. Qed.

Lemma tree_checks_run : forall t order H j st,
  forallb (fun b : bool => b) (tree_checks_from t order j st H) = true -> exists st', tree_run t order j st H = Some st'.
Proof.
  intros t order H. induction H as [|tm H IH]; intros j st Hc.
  - eexists. reflexivity.
  - cbn [tree_checks_from] in Hc. cbn [tree_run]. destruct (tree_add t order j st tm) as [st1|].
    + apply forallb_id_cons in Hc. destruct Hc as [_ Hc]. exact (IH _ _ Hc).
    + cbn in Hc. discriminate.
Qed.

Lemma tree_ok_some : forall t order H, tree_ok t order H = true -> exists d, from_hamiltonian_tree t order H = Some d.
Proof.
  intros t order H Hok. unfold tree_ok, tree_checks in Hok. destruct H as [|tm H]; [cbn in Hok; discriminate|].
  apply forallb_id_cons in Hok. destruct Hok as [_ Hc]. destruct (tree_checks_run _ _ _ _ _ Hc) as [st' E].
  exists (tsd st'). unfold from_hamiltonian_tree, tree_final. rewrite E. reflexivity.
Qed.

Lemma small_trees_nodup : forall t, In t small_trees -> NoDup (ids t).
Proof.
  intros t Hin. unfold small_trees in Hin.
  repeat (destruct Hin as [<-|Hin]; [cbn; repeat constructor; cbn; intuition discriminate|]). destruct Hin.
Qed.

Lemma forallb3 : forall (A B C : Type) (la : list A) (fb : A -> list B) (fc : A -> list C) (p : A -> B -> C -> bool),
  forallb (fun a => forallb (fun b => forallb (fun c => p a b c) (fc a)) (fb a)) la = true ->
  forall a b c, In a la -> In b (fb a) -> In c (fc a) -> p a b c = true.
Proof.
  intros A B C la fb fc p H a b c Ha Hb Hc.
  rewrite forallb_forall in H. specialize (H a Ha). rewrite forallb_forall in H. specialize (H b Hb).
  rewrite forallb_forall in H. exact (H c Hc).
Qed.

Lemma tree_ok_bounded_of : tree_bounded_all = true -> forall t order labs,
  In t small_trees -> In order (topo_orders t) -> In labs (small_hams t) -> tree_ok t order (map unit_term labs) = true.
Proof.
  unfold tree_bounded_all. intro H.
  exact (forallb3 rtree (list nat) (list (list nat)) small_trees topo_orders small_hams
           (fun t order labs => tree_ok t order (map unit_term labs)) H).
Qed.
Definition tree_ok_bounded := tree_ok_bounded_of tree_bounded_all_true.

Theorem tree_exact_unit_bounded : forall t order labs,
  In t small_trees -> In order (topo_orders t) -> In labs (small_hams t) ->
  tree_ok t order (map unit_term labs) = true /\
  exists d, from_hamiltonian_tree t order (map unit_term labs) = Some d /\ sd_wf t d = true /\
            peq (sd_denote t d) (ham_denote t (map unit_term labs)).
Proof.
  intros t order labs Ht Ho Hl. pose proof (tree_ok_bounded t order labs Ht Ho Hl) as B. split; [exact B|].
  destruct (tree_ok_some t order (map unit_term labs) B) as [d Hd]. exists d. split; [exact Hd|].
  exact (tree_exact_checked t order (map unit_term labs) d (small_trees_nodup t Ht) B Hd).
Qed.
