(* [ext-C01S] Proofs about SD/PipelineSGE.v (the SGE variant of the driver):
   1. a cut of the SGE driver that does not use the elimination result (the revert branch of
      _apply_bipartite_to_gamma_u) IS the BIPARTITE cut of Pipeline.v, hence preserves sd_denote under cut_pre;
   2. one cut under the per-step check cut_check_sge (cut_pre for reverting cuts, the decidable comparison of the
      denotations for cuts that use the elimination result) preserves sd_denote;
   3. the SGE driver is exact whenever the checks hold along the run (pipeline_sge_ok). *)
From Coq Require Import List Arith Bool QArith Lia.
From PTN Require Import Tree.RTree SD.Model SD.ModelProofs SD.Core SD.CoreProofs SD.Pipeline SD.PipelineProofs SD.PipelineSGE.
Import ListNotations.
Local Close Scope Qc_scope.
Local Close Scope Q_scope.

(* ---- 1. the revert branch ------------------------------------------------------------------------------ *)
Lemma cut_step_sge_revert : forall t c st st',
  cut_uses_ge t c (p_sd st) = false -> cut_step_sge t c st = Some st' -> cut_step t c st = Some st'.
Proof.
  intros t c st st' Hu Hs. unfold cut_uses_ge in Hu. unfold cut_step_sge in Hs. unfold cut_step.
  destruct (find_parent t false c) as [[[p hp] cs]|]; [|discriminate].
  assert (E : cut_diagram_sge p hp cs c (p_next st) (p_sd st) = cut_diagram p hp cs c (p_next st) (p_sd st)
              \/ cut_diagram_sge p hp cs c (p_next st) (p_sd st) = None).
  { unfold cut_diagram_sge.
    destruct (classify hp cs c (hes_at c (hes (p_sd st))) (hes_at p (hes (p_sd st)))) as [classes|]; [|right; reflexivity].
    destruct (G.gaussian_elimination _) as [[[L Gu] R]|]; [|right; reflexivity].
    destruct (_ && _ && _ && _); [|right; reflexivity].
    destruct (B.mvc (B.mk_graph (length Gu) _ _)) as [ru|]; [|right; reflexivity].
    destruct (B.mvc (B.mk_graph (length (hes_at c (hes (p_sd st)))) _ _)) as [ro|]; [|right; reflexivity].
    destruct (B.r_assert ru && B.r_assert ro); [|right; reflexivity].
    apply negb_false_iff in Hu. rewrite Hu. left. reflexivity. }
  destruct E as [E|E]; rewrite E in Hs; [exact Hs | discriminate].
Qed.

Theorem cut_step_sge_revert_sound : forall t c st st', NoDup (ids t) ->
  cut_uses_ge t c (p_sd st) = false -> cut_pre t c (p_sd st) = true -> cut_step_sge t c st = Some st' ->
  peq (sd_denote t (p_sd st')) (sd_denote t (p_sd st)).
Proof.
  intros t c st st' ND Hu Hpre Hs. eapply cut_step_sound; eauto. apply cut_step_sge_revert; assumption.
Qed.

(* ---- 2. one cut under the per-step check ----------------------------------------------------------------- *)
Lemma denote_eqb_sound : forall t d d', denote_eqb t d d' = true -> peq (sd_denote t d') (sd_denote t d).
Proof.
  intros t d d' H. unfold denote_eqb in H.
  eapply peq_trans; [apply peq_sym; apply pnorm_peq|]. eapply peq_trans; [apply poly_eqb_peq; exact H|]. apply pnorm_peq.
Qed.

Theorem cut_step_sge_checked_sound : forall t c st st', NoDup (ids t) ->
  cut_check_sge t c st = true -> cut_step_sge t c st = Some st' ->
  peq (sd_denote t (p_sd st')) (sd_denote t (p_sd st)).
Proof.
  intros t c st st' ND Hc Hs. unfold cut_check_sge in Hc.
  destruct (cut_uses_ge t c (p_sd st)) eqn:U.
  - rewrite Hs in Hc. apply denote_eqb_sound. exact Hc.
  - eapply cut_step_sge_revert_sound; eauto.
Qed.

(* ---- 3. the driver ------------------------------------------------------------------------------------------ *)
Lemma cut_pass_sge_none : forall t lv, cut_pass_sge t lv None = None.
Proof. intros t lv. unfold cut_pass_sge. induction lv as [|c r IH]; [reflexivity|]. cbn [fold_left]. exact IH. Qed.

Lemma cut_pass_sge_sound : forall t lv st st', NoDup (ids t) ->
  forallb (fun b => b) (cut_checks_sge t lv (Some st)) = true ->
  cut_pass_sge t lv (Some st) = Some st' ->
  peq (sd_denote t (p_sd st')) (sd_denote t (p_sd st)).
Proof.
  intros t. induction lv as [|c r IH]; intros st st' ND H E.
  - inversion E. apply peq_refl.
  - cbn [cut_checks_sge forallb] in H. apply andb_true_iff in H. destruct H as [H1 H2].
    unfold cut_pass_sge in E. cbn [fold_left] in E. fold (cut_pass_sge t r (cut_step_sge t c st)) in E.
    destruct (cut_step_sge t c st) as [st1|] eqn:S; [|rewrite cut_pass_sge_none in E; discriminate].
    eapply peq_trans; [apply (IH st1 st'); auto|]. eapply cut_step_sge_checked_sound; eauto.
Qed.

Lemma run_levels_sge_none : forall t lvs, fold_left (run_level_sge t) lvs None = None.
Proof. intros t lvs. induction lvs as [|lv r IH]; [reflexivity|]. cbn [fold_left run_level_sge]. exact IH. Qed.

Lemma run_levels_sge_sound : forall t lvs st st', NoDup (ids t) ->
  forallb (fun b => b) (levels_checks_sge t lvs (Some st)) = true ->
  run_levels_sge t lvs st = Some st' ->
  peq (sd_denote t (p_sd st')) (sd_denote t (p_sd st)).
Proof.
  intros t. induction lvs as [|lv r IH]; intros st st' ND H E.
  - inversion E. apply peq_refl.
  - cbn [levels_checks_sge] in H. rewrite !forallb_app in H. apply andb_true_iff in H. destruct H as [H1 H].
    apply andb_true_iff in H. destruct H as [H2 H3].
    unfold run_levels_sge in E. cbn [fold_left run_level_sge] in E.
    destruct (cut_pass_sge t lv (Some (combine_pass t lv st))) as [st1|] eqn:C; [|rewrite run_levels_sge_none in E; discriminate].
    eapply peq_trans; [apply (IH st1 st'); auto|].
    eapply peq_trans; [eapply cut_pass_sge_sound; eauto|]. apply combine_pass_sound; auto.
Qed.

Theorem pipeline_sge_exact_checked : forall t H d, NoDup (ids t) ->
  pipeline_sge_ok t H = true -> pipeline_sge t H = Some d ->
  peq (sd_denote t d) (ham_denote t H).
Proof.
  intros t H d ND Hok E. unfold pipeline_sge, pipeline_sge_st in E.
  unfold pipeline_sge_ok, pipeline_sge_checks in Hok.
  destruct (live_terms H) as [|tm H'] eqn:EL.
  - destruct H as [|tm0 H0]; [discriminate|]. cbn [option_map] in E. inversion E; subst d.
    unfold pipe_init. cbn [p_sd]. apply base_exact_peq. exact ND.
  - destruct (run_levels_sge t (levels t) (pipe_init t (tm :: H'))) as [st'|] eqn:R; [|discriminate].
    cbn [option_map] in E. inversion E; subst d.
    eapply peq_trans; [eapply run_levels_sge_sound; eauto|].
    eapply peq_trans; [unfold pipe_init; cbn [p_sd]; apply base_exact_peq; exact ND|].
    rewrite <- EL. apply ham_denote_live.
Qed.

(* ---- 4. the elimination inside a cut: C13's exact factorisation applies --------------------------------------- *)
From Coq Require Import Qcanon.
From PTN Require SGE.ModelProofs.
Local Close Scope Qc_scope.
Local Close Scope Q_scope.

Lemma get_mat_of_gamma : forall Gm i j, G.get (mat_of_gamma Gm) i j = ent_of (gentry Gm i j).
Proof.
  intros Gm i j. unfold G.get, mat_of_gamma, gentry.
  change (@nil G.ent) with (map ent_of []). rewrite map_nth.
  change (G.Num (Q2Qc 0)) with (ent_of None). rewrite map_nth. reflexivity.
Qed.

Lemma mat_of_gamma_rect : forall hp cs c us classes,
  length (mat_of_gamma (gamma hp cs c us classes)) = length us /\
  G.rectE (length classes) (mat_of_gamma (gamma hp cs c us classes)).
Proof.
  intros hp cs c us classes. unfold mat_of_gamma, gamma. split.
  - rewrite !map_length. reflexivity.
  - unfold G.rectE. apply Forall_forall. intros r Hr.
    apply in_map_iff in Hr. destruct Hr as [r0 [E Hr0]]. subst r.
    apply in_map_iff in Hr0. destruct Hr0 as [u [E _]]. subst r0.
    rewrite !map_length. reflexivity.
Qed.

(* for every diagram and every tree edge with at least one hyperedge on either side, the gaussian_elimination call of
   cut_and_optimise returns (no IndexError, the while loops terminate), the reduced matrix is non-empty and not larger
   than Gamma, and Op_l * Gamma_u * Op_r = Gamma entry by entry as polynomials in the coefficient symbols *)
Theorem sge_cut_factorisation : forall hp cs c us classes,
  1 <= length us -> 1 <= length classes ->
  let Gm := gamma hp cs c us classes in
  exists (L : G.qmat) (Gu : G.mat) (R : G.qmat) (m' n' : nat),
    G.gaussian_elimination (mat_of_gamma Gm) = Some (L, Gu, R) /\
    m' <= length us /\ n' <= length classes /\ 1 <= m' /\ 1 <= n' /\
    length Gu = m' /\ G.ncols Gu = n' /\
    forall i j x, i < length us -> j < length classes ->
      G.prod3 m' n' L Gu R i j x = G.coef (ent_of (gentry Gm i j)) x.
Proof.
  intros hp cs c us classes Hm Hn Gm.
  destruct (mat_of_gamma_rect hp cs c us classes) as [Hl Hr].
  destruct (PTN.SGE.ModelProofs.ge_correct (length us) (length classes) (mat_of_gamma Gm) (conj Hl Hr) Hm Hn)
    as [L [Gu [R [m' [n' [E [H1 [H2 [H3 [H4 [HL [[HG1 HG2] [HR HP]]]]]]]]]]]]].
  exists L, Gu, R, m', n'. repeat split; auto.
  - unfold G.ncols. destruct Gu as [|r0 Gu']; [cbn in HG1; lia|]. cbn [hd]. inversion HG2; auto.
  - intros i j x Hi Hj. rewrite HP by assumption. rewrite get_mat_of_gamma. reflexivity.
Qed.
