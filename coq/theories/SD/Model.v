(* Model of the state diagrams of pytreenet/ttno (vertex.py, hyperedge.py, collections.py,
   single_term_diagram.py, StateDiagram.sum_states / get_state_diagram_compound /
   from_hamiltonian_base) and of Hamiltonian/TensorProduct.pad_with_identities.
   Definitions only; proofs are in ModelProofs.v.

   A tree is an `rtree` (Tree/RTree.v): node identifiers are nat, children are ordered
   (GraphNode.children).  The tree edge (parent(c), c) is named by its child end c.

   Python objects (Vertex, HyperEdge) have an identity (`identifier = uuid1()`); the model
   names them by pairs of naturals (`oid`): (term index, node) for the objects created for
   term number j, arbitrary fresh pairs for exported diagrams.

   A polynomial is a formal sum of monomials  q * (symbols) (x) (labels in DFS pre-order of the
   tree):  `poly = list (Q * key)`; semantic equality is pointwise equality of coefficients
   (`coef`); `pnorm` computes a normal form (sorted by key, equal keys merged, zeros dropped). *)
From Coq Require Import List Arith Bool QArith.
From PTN Require Import Tree.RTree.
Import ListNotations.
Local Close Scope Q_scope.

(* ---- object names -------------------------------------------------------------------- *)
Definition oid := (nat * nat)%type.
Definition oid_eqb (a b : oid) : bool := Nat.eqb (fst a) (fst b) && Nat.eqb (snd a) (snd b).
Definition omem (x : oid) (l : list oid) : bool := existsb (oid_eqb x) l.

(* HyperEdge: corr_node_id, label, lambda_coeff, gamma_coeff (0 stands for "1"), vertices.
   `hverts` lists the vertices in the node's neighbour order: the vertex of the parent edge
   first (absent at the root), then one vertex per child edge in children order.  (Python
   keeps `vertices` in creation order and recovers the leg through
   `neighbour_index`; the harness exports them already sorted by leg.) *)
Record he := mkHe { hid : oid; hnode : nat; hlabel : nat; hlam : Q; hgam : nat; hverts : list oid }.
(* Vertex: corr_edge (named by the child end), hyperedges *)
Record vx := mkVx { vxid : oid; vedge : nat; vhes : list oid }.
(* StateDiagram: the hyperedge collections / vertex collections flattened; the order of the
   hyperedges of one node and of the vertices of one edge (= bond index) is list order *)
Record sd := mkSd { hes : list he; vxs : list vx }.

(* ---- polynomials --------------------------------------------------------------------- *)
Definition key := (list nat * list nat)%type.      (* sorted multiset of symbols, labels *)
Definition poly := list (Q * key).

Fixpoint minsert (g : nat) (m : list nat) : list nat :=
  match m with
  | [] => [g]
  | h :: r => if Nat.leb g h then g :: m else h :: minsert g r
  end.
Definition mmul (a b : list nat) : list nat := fold_right minsert b a.
Definition mono (g : nat) : list nat := match g with O => [] | _ => [g] end.

Definition kmul (a b : key) : key := (mmul (fst a) (fst b), snd a ++ snd b).
Definition kone : key := ([], []).
Definition pone : poly := [(1%Q, kone)].
Definition pmul (p q : poly) : poly :=
  flat_map (fun a => map (fun b => (Qmult (fst a) (fst b), kmul (snd a) (snd b))) q) p.

Fixpoint list_cmp (a b : list nat) : comparison :=
  match a, b with
  | [], [] => Eq
  | [], _ :: _ => Lt
  | _ :: _, [] => Gt
  | x :: a', y :: b' => match Nat.compare x y with Eq => list_cmp a' b' | c => c end
  end.
Definition key_cmp (a b : key) : comparison :=
  match list_cmp (snd a) (snd b) with Eq => list_cmp (fst a) (fst b) | c => c end.
Definition key_eqb (a b : key) : bool := match key_cmp a b with Eq => true | _ => false end.

(* coefficient of a key: the meaning of a polynomial *)
Fixpoint coef (p : poly) (k : key) : Q :=
  match p with
  | [] => 0%Q
  | a :: r => if key_eqb (snd a) k then Qplus (fst a) (coef r k) else coef r k
  end.
Definition peq (p q : poly) : Prop := forall k, Qeq (coef p k) (coef q k).

(* normal form *)
Fixpoint pinsert (c : Q) (k : key) (p : poly) : poly :=
  match p with
  | [] => [(c, k)]
  | a :: r => match key_cmp k (snd a) with
              | Eq => (Qred (Qplus c (fst a)), snd a) :: r
              | Lt => (c, k) :: p
              | Gt => a :: pinsert c k r
              end
  end.
Definition psort (p : poly) : poly := fold_right (fun a acc => pinsert (fst a) (snd a) acc) [] p.
Definition pnorm (p : poly) : poly := filter (fun a => negb (Qeq_bool (fst a) 0)) (psort p).
Fixpoint poly_eqb (p q : poly) : bool :=
  match p, q with
  | [], [] => true
  | a :: p', b :: q' => Qeq_bool (fst a) (fst b) && key_eqb (snd a) (snd b) && poly_eqb p' q'
  | _, _ => false
  end.
(* first key on which two normal forms differ (diagnostics / refutation witnesses) *)
Fixpoint poly_diff (p q : poly) : option key :=
  match p, q with
  | [], [] => None
  | a :: p', b :: q' =>
      match key_cmp (snd a) (snd b) with
      | Eq => if Qeq_bool (fst a) (fst b) then poly_diff p' q' else Some (snd a)
      | Lt => Some (snd a)
      | Gt => Some (snd b)
      end
  | a :: _, [] => Some (snd a)
  | [], b :: _ => Some (snd b)
  end.

(* ---- denotation of a state diagram --------------------------------------------------- *)
Section Prodc.
  Variable f : rtree -> oid -> poly.
  (* product over the children, child j entered through the j-th child vertex *)
  Fixpoint prodc (cs : list rtree) (vs : list oid) : poly :=
    match cs, vs with
    | [], [] => pone
    | c :: cs', x :: vs' => pmul (f c x) (prodc cs' vs')
    | _, _ => []
    end.
End Prodc.

Definition he_term (h : he) : poly := [(hlam h, (mono (hgam h), [hlabel h]))].

(* the child vertices of h when its node is entered through parent vertex pv *)
Definition child_verts (pv : option oid) (h : he) : option (list oid) :=
  match pv with
  | None => Some (hverts h)
  | Some p => match hverts h with
              | q :: r => if oid_eqb p q then Some r else None
              | [] => None
              end
  end.

(* val s t pv: sum over all selections of one hyperedge per node of the subtree t that agree
   on the vertex of every edge of t and, at the top, on the parent vertex pv, of
   (product of lambdas) * (product of gammas) (x) labels.  It is written as the leaf-to-root
   contraction of the tensors TTNO.from_state_diagram fills: the entry of node v at
   (pv, child vertices vs) is the sum of the hyperedges of v sitting on exactly these
   vertices. *)
Fixpoint val (s : list he) (t : rtree) (pv : option oid) : poly :=
  match t with
  | RNode v cs =>
      flat_map (fun h =>
                  if Nat.eqb (hnode h) v then
                    match child_verts pv h with
                    | Some vs => pmul (he_term h) (prodc (fun c x => val s c (Some x)) cs vs)
                    | None => []
                    end
                  else []) s
  end.

Definition sd_denote (t : rtree) (d : sd) : poly := val (hes d) t None.

(* The same sum, selection by selection.  A selection of the subtree t is a tree of the same
   shape carrying one hyperedge per node (`stree`); `sels s t pv` enumerates the consistent
   ones (the hyperedge of every node sits on the vertex its parent's hyperedge points to;
   equal hyperedges at different list positions count separately), `wt` is the weight
   prod(lambda) * prod(gamma) (x) labels in pre-order.  ModelProofs.val_selections:
   val s t pv = map wt (sels s t pv). *)
Inductive stree : Type := SNode (h : he) (subs : list stree).
Section Selc.
  Variable f : rtree -> oid -> list stree.
  Fixpoint selc (cs : list rtree) (vs : list oid) : list (list stree) :=
    match cs, vs with
    | [], [] => [[]]
    | c :: cs', x :: vs' => flat_map (fun a => map (cons a) (selc cs' vs')) (f c x)
    | _, _ => []
    end.
End Selc.
Fixpoint sels (s : list he) (t : rtree) (pv : option oid) : list stree :=
  match t with
  | RNode v cs =>
      flat_map (fun h =>
                  if Nat.eqb (hnode h) v then
                    match child_verts pv h with
                    | Some vs => map (SNode h) (selc (fun c x => sels s c (Some x)) cs vs)
                    | None => []
                    end
                  else []) s
  end.
Definition mmul2 (a b : Q * key) : Q * key := (Qmult (fst a) (fst b), kmul (snd a) (snd b)).
Fixpoint wt (sg : stree) : Q * key :=
  match sg with
  | SNode h subs =>
      mmul2 (hlam h, (mono (hgam h), [hlabel h]))
            (fold_right (fun a acc => mmul2 (wt a) acc) (1%Q, kone) subs)
  end.
Definition wts (subs : list stree) : Q * key := fold_right (fun a acc => mmul2 (wt a) acc) (1%Q, kone) subs.
(* what a consistent selection is *)
Section All3.
  Variable P : rtree -> oid -> stree -> Prop.
  Fixpoint all3 (cs : list rtree) (vs : list oid) (subs : list stree) : Prop :=
    match cs, vs, subs with
    | [], [], [] => True
    | c :: cs', x :: vs', a :: subs' => P c x a /\ all3 cs' vs' subs'
    | _, _, _ => False
    end.
End All3.
Fixpoint sel_ok (s : list he) (t : rtree) (pv : option oid) (sg : stree) : Prop :=
  match t, sg with
  | RNode v cs, SNode h subs =>
      In h s /\ hnode h = v /\
      match child_verts pv h with
      | Some vs => all3 (fun c x a => sel_ok s c (Some x) a) cs vs subs
      | None => False
      end
  end.

(* ---- Hamiltonians -------------------------------------------------------------------- *)
(* a padded term: prefactor, symbol (0 = "1"), label of every node *)
Definition pterm := (Q * nat * (nat -> nat))%type.
Definition term_poly (t : rtree) (tm : pterm) : Q * key :=
  match tm with (lam, gam, f) => (lam, (mono gam, map f (ids t))) end.
Definition ham_denote (t : rtree) (H : list pterm) : poly := map (term_poly t) H.

(* TensorProduct.pad_with_identities(symbolic=True): a term is a dict node -> label; every
   node of the reference tree that is not a key gets "I<open dimension of the node>".
   `idlab d` is the label "I<d>", `dims` the open dimensions of the reference nodes. *)
Fixpoint lookup (x : nat) (l : list (nat * nat)) : option nat :=
  match l with
  | [] => None
  | (k, v) :: r => if Nat.eqb k x then Some v else lookup x r
  end.
Definition padf (idlab : nat -> nat) (dims : list (nat * nat)) (tm : list (nat * nat)) (v : nat) : nat :=
  match lookup v tm with
  | Some l => l
  | None => idlab (match lookup v dims with Some d => d | None => 0 end)
  end.
(* the KeyError / NotCompatibleException guard: every key of the term is a node *)
Definition term_compatible (t : rtree) (tm : list (nat * nat)) : bool :=
  forallb (fun kv => mem (fst kv) (ids t)) tm.
Definition uterm := (Q * nat * list (nat * nat))%type.
Definition pad_term (idlab : nat -> nat) (dims : list (nat * nat)) (u : uterm) : pterm :=
  match u with (lam, gam, tm) => (lam, gam, padf idlab dims tm) end.
Definition pad_ham (idlab : nat -> nat) (dims : list (nat * nat)) (t : rtree) (H : list uterm) : option (list pterm) :=
  if forallb (fun u => term_compatible t (snd u)) H then Some (map (pad_term idlab dims) H) else None.
(* label encoding used by the harness: "I<d>" is label d *)
Definition idlab_std (d : nat) : nat := d.

(* ---- SingleTermDiagram.from_single_term / _from_single_term_rec ----------------------- *)
(* objects of term j are named (j, node); the vertex of edge (p, c) is (j, c).  The
   coefficient is parked on the root hyperedge; every other hyperedge has (1, "1"). *)
Fixpoint st_hes (j : nat) (f : nat -> nat) (lam : Q) (gam : nat) (pv : option oid) (t : rtree) : list he :=
  match t with
  | RNode v cs =>
      mkHe (j, v) v (f v) lam gam (opt_list pv ++ map (fun c => (j, rid c)) cs)
      :: flat_map (fun c => st_hes j f 1%Q 0 (Some (j, rid c)) c) cs
  end.
(* vertices in creation order: all child edges of a node, then the recursion *)
Fixpoint st_vxs (j : nat) (t : rtree) : list vx :=
  match t with
  | RNode v cs =>
      map (fun c => mkVx (j, rid c) (rid c) [(j, v); (j, rid c)]) cs ++ flat_map (st_vxs j) cs
  end.
Definition single_term (j : nat) (t : rtree) (tm : pterm) : sd :=
  match tm with (lam, gam, f) => mkSd (st_hes j f lam gam None t) (st_vxs j t) end.

(* ---- StateDiagram.sum_states / get_state_diagram_compound / from_hamiltonian_base ------ *)
(* per node the hyperedge lists, per edge the vertex lists are concatenated; the objects keep
   their identity *)
Definition sd_sum (a b : sd) : sd := mkSd (hes a ++ hes b) (vxs a ++ vxs b).
Definition sd_empty : sd := mkSd [] [].
Fixpoint sd_base_from (j : nat) (t : rtree) (H : list pterm) (acc : sd) : sd :=
  match H with
  | [] => acc
  | tm :: H' => sd_base_from (S j) t H' (sd_sum acc (single_term j t tm))
  end.
Definition sd_base (t : rtree) (H : list pterm) : sd := sd_base_from 0 t H sd_empty.

(* ---- the checker ---------------------------------------------------------------------- *)
Definition sd_check (t : rtree) (H : list pterm) (d : sd) : bool :=
  poly_eqb (pnorm (sd_denote t d)) (pnorm (ham_denote t H)).
Definition sd_diff (t : rtree) (H : list pterm) (d : sd) : option key :=
  poly_diff (pnorm (sd_denote t d)) (pnorm (ham_denote t H)).

(* refutation with a witness: a key on which the raw sums really differ *)
Definition sd_refute (t : rtree) (H : list pterm) (d : sd) : bool :=
  match sd_diff t H d with
  | Some k => negb (Qeq_bool (coef (sd_denote t d) k) (coef (ham_denote t H) k))
  | None => false
  end.

(* ---- structural well-formedness of an exported diagram (used by the tie) --------------- *)
Definition vx_of (d : sd) (x : oid) : option vx := find (fun v => oid_eqb (vxid v) x) (vxs d).
Definition he_of (d : sd) (x : oid) : option he := find (fun h => oid_eqb (hid h) x) (hes d).
Fixpoint nodup_oid (l : list oid) : bool :=
  match l with [] => true | x :: r => negb (omem x r) && nodup_oid r end.
(* edges (named by child end) incident to node v in neighbour order *)
Definition incident (t : rtree) (v : nat) : list nat :=
  (match parent_of v t with Some _ => [v] | None => [] end) ++ children_ids t v.
Definition he_wf (t : rtree) (d : sd) (h : he) : bool :=
  mem (hnode h) (ids t) &&
  Nat.eqb (length (hverts h)) (length (incident t (hnode h))) &&
  forallb (fun xe => match vx_of d (fst xe) with
                     | Some v => Nat.eqb (vedge v) (snd xe) && omem (hid h) (vhes v)
                     | None => false end)
          (combine (hverts h) (incident t (hnode h))).
Definition vx_wf (t : rtree) (d : sd) (v : vx) : bool :=
  mem (vedge v) (ids t) && negb (Nat.eqb (vedge v) (rid t)) && nodup_oid (vhes v) &&
  forallb (fun x => match he_of d x with Some h => omem (vxid v) (hverts h) | None => false end) (vhes v).
Definition sd_wf (t : rtree) (d : sd) : bool :=
  nodup_oid (map hid (hes d)) && nodup_oid (map vxid (vxs d)) &&
  forallb (he_wf t d) (hes d) && forallb (vx_wf t d) (vxs d) &&
  forallb (fun v => existsb (fun h => Nat.eqb (hnode h) v) (hes d)) (ids t).

(* canonical form used to compare a diagram with the implementation's up to renaming of the
   uuids: per node (in pre-order) the list of (label, lambda as (numerator, denominator)
   -- Coq prints some Q values in decimal/hexadecimal notation --, gamma, bond indices of the
   vertices), per non-root node the number of vertices of its parent edge *)
Fixpoint index_in (x : oid) (e : nat) (l : list vx) (n : nat) : nat :=
  match l with
  | [] => n
  | v :: r => if Nat.eqb (vedge v) e then (if oid_eqb (vxid v) x then n else index_in x e r (S n))
              else index_in x e r n
  end.
Definition bond_index (d : sd) (x : oid) : nat :=
  match vx_of d x with Some v => index_in x (vedge v) (vxs d) 0 | None => 0 end.
Definition canon := (list (nat * list (nat * (Z * positive) * nat * list nat)) * list (nat * nat))%type.
Definition qpair (q : Q) : Z * positive := let r := Qred q in (Qnum r, Qden r).
(* the normal form of the denotation, coefficients as (numerator, denominator) *)
Definition sd_poly (t : rtree) (d : sd) : list ((Z * positive) * key) :=
  map (fun a => (qpair (fst a), snd a)) (pnorm (sd_denote t d)).
Definition sd_canon (t : rtree) (d : sd) : canon :=
  (map (fun v => (v, map (fun h => (hlabel h, qpair (hlam h), hgam h, map (bond_index d) (hverts h)))
                         (filter (fun h => Nat.eqb (hnode h) v) (hes d)))) (ids t),
   map (fun v => (v, length (filter (fun x => Nat.eqb (vedge x) v) (vxs d)))) (tl (ids t))).
