(* [ext-C01S] Model of the SGE variant of the driver of pytreenet/ttno/state_diagram.py:
     StateDiagram.from_hamiltonian(..., TTNOFinder.SGE) = from_hamiltonian_modified with self.SGE == True.
   The driver (compound diagram, zero-prefactor filter, BFS levels, combine_subtrees) is the one of
   SD/Pipeline.v and is re-used unchanged; only cut_and_optimise differs (lines 854-880):
     V_set / Gamma                      : Pipeline.classify / Pipeline.gamma (the same calls),
     gaussian_elimination(deepcopy(Gamma)) : SGE/Model.v `gaussian_elimination` (tied by c13.py) on the
                                          entry representation of that file (`ent`),
     _apply_bipartite_to_gamma_u        : bipartite graph of the non-zero entries of Gamma_u, its minimum vertex
                                          cover, the same for Gamma, and the revert test
                                          `len(u_cover + v_cover) >= len(u_cover_old + v_cover_old)`,
     _create_combined_u_v_lists         : the "virtual" u / v nodes: u_list[j] = the hyperedges u_i with
                                          Op_l[i][j] != 0 (i ascending), the first non-zero of row i takes u_i
                                          itself, every later one a _copy_node; likewise v_list[i] over the
                                          columns j of Op_r,
     _reconnect_hyperedges              : as in Pipeline.v (rows of the cover first, then columns), but a
                                          placement puts ALL members of a virtual node on the vertex, with
                                          coefficient (edge coefficient) * (operator entry); a virtual node needed
                                          a second time is copied member by member.
   When the revert test fires the code continues with Gamma, identity operators and the old cover: that is
   literally the BIPARTITE path, and the model calls Pipeline.cut_diagram there.
   Coefficients: SGE/Model.v's `ent` (Num q | Sym q s, q : Qc) inside the elimination; Pipeline.v's
   `coefq` = (Q, symbol number, 0 = "1") on the diagram; `ent_of` / `coef_of_ent` bridge the two.
   Definitions only; proofs are in PipelineSGEProofs.v. *)
From Coq Require Import List Arith Bool QArith Qcanon.
From PTN Require Import Tree.RTree SD.Model SD.Core SD.Pipeline.
From PTN Require SGE.Model.
Import ListNotations.
Local Close Scope Qc_scope.
Local Close Scope Q_scope.

Module G := PTN.SGE.Model.

(* ====================================================================================== *)
(* 1. the bridge between the two coefficient representations                               *)
(* ====================================================================================== *)
(* `Fraction(lambda) if gamma == "1" else (Fraction(lambda), gamma)`; never assigned = Fraction(0) *)
Definition ent_of (o : option coefq) : G.ent :=
  match o with
  | None => G.Num (Q2Qc 0)
  | Some (q, 0) => G.Num (Q2Qc q)
  | Some (q, S s) => G.Sym (Q2Qc q) (S s)
  end.
Definition coef_of_ent (e : G.ent) : coefq :=
  match e with G.Num q => (this q, 0) | G.Sym q s => (this q, s) end.
Definition mat_of_gamma (Gm : list (list (option coefq))) : G.mat := map (map ent_of) Gm.
Definition gamma_of_mat (M : G.mat) : list (list (option coefq)) := map (map (fun e => Some (coef_of_ent e))) M.

(* edges_enumerated[(i, j)] * lam, as (lambda_coeff, gamma_coeff) *)
Definition cscale (cf : coefq) (lam : Q) : coefq := (Qmult (fst cf) lam, snd cf).

(* ====================================================================================== *)
(* 2. _create_combined_u_v_lists                                                           *)
(* ====================================================================================== *)
(* a member of a virtual node: index of the original hyperedge (in us / in the representatives), the object
   that stands for it, whether that object is a copy, the operator entry *)
Definition member := (nat * oid * bool * Q)%type.

(* one original hyperedge (index k, object `orig`) against its line of the operator (row of Op_l / column of
   Op_r): every non-zero position `pos` yields a member tagged with pos; copies are numbered from q *)
Fixpoint a_line (k : nat) (orig : oid) (node : nat) (line : list Qc) (pos : nat) (dupl : bool) (q : nat)
  : list (nat * member) * nat :=
  match line with
  | [] => ([], q)
  | x :: r =>
      if Qc_eq_bool x (Q2Qc 0) then a_line k orig node r (S pos) dupl q
      else if dupl then
             let '(l, q') := a_line k orig node r (S pos) true (S q) in
             ((pos, (k, (q, node), true, this x)) :: l, q')
           else
             let '(l, q') := a_line k orig node r (S pos) true q in
             ((pos, (k, orig, false, this x)) :: l, q')
  end.
Fixpoint a_lines (origs : list oid) (node : nat) (lines : list (list Qc)) (k : nat) (q : nat)
  : list (nat * member) * nat :=
  match lines with
  | [] => ([], q)
  | ln :: r =>
      let '(l1, q1) := a_line k (nth k origs (0, 0)) node ln 0 false q in
      let '(l2, q2) := a_lines origs node r (S k) q1 in
      (l1 ++ l2, q2)
  end.
(* the list with tag `pos`, in creation order *)
Definition tagged (pos : nat) (l : list (nat * member)) : list member :=
  map snd (filter (fun e => Nat.eqb (fst e) pos) l).
Definition columns (n : nat) (R : list (list Qc)) : list (list Qc) :=
  map (fun j => map (fun row => nth j row (Q2Qc 0)) R) (seq 0 n).

(* ====================================================================================== *)
(* 3. _reconnect_hyperedges on virtual nodes                                               *)
(* ====================================================================================== *)
Section ResolveS.
  Variables (ulist vlist : nat -> list member) (nodeU nodeV : nat).
  Fixpoint copy_members (w : nat) (sd_ : side) (node : nat) (cf : coefq) (ms : list member) (q : nat) : list rpl :=
    match ms with
    | [] => []
    | (k, _, _, lam) :: r => mkR w sd_ k (cscale cf lam) true (q, node) :: copy_members w sd_ node cf r (S q)
    end.
  Definition keep_members (w : nat) (sd_ : side) (cf : coefq) (ms : list member) : list rpl :=
    map (fun mb => match mb with (k, x, cp, lam) => mkR w sd_ k (cscale cf lam) cp x end) ms.
  Fixpoint resolve_s (pl : list (nat * placement)) (seenU seenV : list nat) (q : nat) : list rpl :=
    match pl with
    | [] => []
    | (w, (SU, i, cf)) :: r =>
        if mem i seenU then copy_members w SU nodeU cf (ulist i) q ++ resolve_s r seenU seenV (q + length (ulist i))
        else keep_members w SU cf (ulist i) ++ resolve_s r (i :: seenU) seenV q
    | (w, (SV, j, cf)) :: r =>
        if mem j seenV then copy_members w SV nodeV cf (vlist j) q ++ resolve_s r seenU seenV (q + length (vlist j))
        else keep_members w SV cf (vlist j) ++ resolve_s r seenU (j :: seenV) q
    end.
End ResolveS.

Definition placed (x : oid) (rs : list rpl) : option rpl := find (fun y => oid_eqb (r_id y) x) rs.

(* ====================================================================================== *)
(* 4. cut_and_optimise with self.SGE == True                                               *)
(* ====================================================================================== *)
Definition cover_size (r : B.mvc_result) : nat := length (B.r_ucover r) + length (B.r_vcover r).

Section CutS.
  Variables (p : nat) (hp : bool) (cs : list rtree) (c : nat).
  Variable fr : nat.

  (* the diagram after the reconnection, given the operators, the reduced matrix and its cover *)
  Definition assemble_sge (d : sd) (us reps : list he) (red : list oid) (L : list (list Qc)) (Gu : G.mat)
             (R : list (list Qc)) (ru : B.mvc_result) : option (sd * list rpl * list he * list he * nat) :=
    let s := hes d in
    let m := length us in
    let n := length reps in
    let m' := length Gu in
    let n' := G.ncols Gu in
    let G' := gamma_of_mat Gu in
    let nv := new_vertices_pl G' m' n' (B.r_ucover ru) (B.r_vcover ru) in
    let nw := length nv in
    (* _create_combined_u_v_lists: copies for the u side first, then for the v side *)
    let '(tu, q1) := a_lines (map hid us) c L 0 (fr + nw) in
    let '(tv, q2) := a_lines (map hid reps) p (columns n R) 0 q1 in
    let rs := resolve_s (fun i => tagged i tu) (fun j => tagged j tv) c p (number_pl 0 nv) [] [] q2 in
    let acU := filter (fun mb => snd (fst mb)) (map snd tu) in      (* copies made by _create_combined_u_v_lists *)
    let acV := filter (fun mb => snd (fst mb)) (map snd tv) in
    let is_b := fun x : rpl => r_copy x && Nat.leb q2 (fst (r_id x)) in   (* copies made while reconnecting *)
    (* a hyperedge that ends up without a vertex on the cut edge: the diagram is not well-indexed *)
    if forallb (fun i => match first_pl SU i rs with Some _ => true | None => false end) (seq 0 m)
       && forallb (fun j => match first_pl SV j rs with Some _ => true | None => false end) (seq 0 n)
       && forallb (fun mb => match placed (snd (fst (fst mb))) rs with Some _ => true | None => false end) (acU ++ acV)
    then
      let pu := fun x : rpl => place_u c fr (nth (r_ix x) us dummy_he) x in
      let pv := fun x : rpl => place_v p hp cs c fr (nth (r_ix x) reps dummy_he) x in
      let of_placed := fun (f : rpl -> he) (mb : member) =>
                         match placed (snd (fst (fst mb))) rs with Some x => f x | None => dummy_he end in
      let copiesU := map (of_placed pu) acU ++ map pu (filter (fun x => is_pl SU true x && is_b x) rs) in
      let copiesV := map (of_placed pv) acV ++ map pv (filter (fun x => is_pl SV true x && is_b x) rs) in
      let newU := map (fun i => match first_pl SU i rs with Some x => pu x | None => dummy_he end) (seq 0 m) ++ copiesU in
      let newV := map (fun j => match first_pl SV j rs with Some x => pv x | None => dummy_he end) (seq 0 n) ++ copiesV in
      let copies := copiesU ++ copiesV in
      let rest := filter (fun h => negb (Nat.eqb (hnode h) p) && negb (Nat.eqb (hnode h) c)) s in
      let oldvx :=
        map (fun v => mkVx (vxid v) (vedge v)
                           (filter (fun x => negb (omem x red)) (vhes v)
                            ++ map hid (filter (fun h => omem (vxid v) (tl (hverts h))
                                                         || (Nat.eqb (hnode h) p && omem (vxid v) (hverts h))) copies)))
            (filter (fun v => negb (Nat.eqb (vedge v) c)) (vxs d)) in
      let newvx := map (fun w => mkVx (vertex_name c fr w) c (map r_id (filter (fun x => Nat.eqb (r_w x) w) rs))) (seq 0 nw) in
      Some (mkSd (rest ++ newV ++ newU) (oldvx ++ newvx), rs, us, reps, nw)
    else None.

  Definition cut_diagram_sge (d : sd) : option (sd * list rpl * list he * list he * nat) :=
    let s := hes d in
    let us := hes_at c s in
    let vsl := hes_at p s in
    match classify hp cs c us vsl with
    | None => None
    | Some classes =>
        let m := length us in
        let n := length classes in
        let Gm := gamma hp cs c us classes in
        (* gaussian_elimination(deepcopy(Gamma)): IndexError on an empty matrix *)
        match G.gaussian_elimination (mat_of_gamma Gm) with
        | None => None
        | Some (L, Gu, R) =>
            let m' := length Gu in
            let n' := G.ncols Gu in
            (* BipartiteGraph asserts at least one node on either side (both graphs are built) *)
            if Nat.leb 1 m && Nat.leb 1 n && Nat.leb 1 m' && Nat.leb 1 n' then
              match B.mvc (B.mk_graph m' n' (gedges (gamma_of_mat Gu) m' n')),
                    B.mvc (B.mk_graph m n (gedges Gm m n)) with
              | Some ru, Some ro =>
                  if B.r_assert ru && B.r_assert ro then
                    if Nat.leb (cover_size ro) (cover_size ru) then
                      (* not better: Gamma, identity operators, the old cover = the BIPARTITE path *)
                      cut_diagram p hp cs c fr d
                    else
                      assemble_sge d us (map (fun q => hd dummy_he (snd q)) classes)
                                   (flat_map (fun q => map hid (tl (snd q))) classes) L Gu R ru
                  else None
              | _, _ => None
              end
            else None
        end
    end.
End CutS.

Definition cut_step_sge (t : rtree) (c : nat) (st : pst) : option pst :=
  match find_parent t false c with
  | None => None
  | Some (p, hp, cs) =>
      match cut_diagram_sge p hp cs c (p_next st) (p_sd st) with
      | None => None
      | Some (d', rs, us, reps, nw) =>
          Some (mkP d'
                    (p_hash st ++ map (fun x => (r_id x, hash_of (p_hash st)
                                                            (hid (nth (r_ix x) (match r_side x with SU => us | SV => reps end) dummy_he))))
                                      (filter r_copy rs))
                    (p_next st + nw + length (filter r_copy rs)))
      end
  end.

(* does this cut use the elimination result (true) or revert to the BIPARTITE path (false)?  (diagnostics and
   the statement of the step theorems) *)
Definition cut_uses_ge (t : rtree) (c : nat) (d : sd) : bool :=
  match find_parent t false c with
  | None => false
  | Some (p, hp, cs) =>
      let us := hes_at c (hes d) in
      match classify hp cs c us (hes_at p (hes d)) with
      | None => false
      | Some classes =>
          let m := length us in
          let n := length classes in
          let Gm := gamma hp cs c us classes in
          match G.gaussian_elimination (mat_of_gamma Gm) with
          | None => false
          | Some (L, Gu, R) =>
              let m' := length Gu in
              let n' := G.ncols Gu in
              match B.mvc (B.mk_graph m' n' (gedges (gamma_of_mat Gu) m' n')),
                    B.mvc (B.mk_graph m n (gedges Gm m n)) with
              | Some ru, Some ro => negb (Nat.leb (cover_size ro) (cover_size ru))
              | _, _ => false
              end
          end
      end
  end.

(* ====================================================================================== *)
(* 5. the driver                                                                           *)
(* ====================================================================================== *)
Definition cut_pass_sge (t : rtree) (lv : list nat) (st : option pst) : option pst :=
  fold_left (fun a c => match a with Some x => cut_step_sge t c x | None => None end) lv st.
Definition run_level_sge (t : rtree) (st : option pst) (lv : list nat) : option pst :=
  match st with
  | Some x => cut_pass_sge t lv (Some (combine_pass t lv x))
  | None => None
  end.
Definition run_levels_sge (t : rtree) (lvs : list (list nat)) (st : pst) : option pst :=
  fold_left (run_level_sge t) lvs (Some st).
(* StateDiagram.from_hamiltonian(hamiltonian, ref_tree, TTNOFinder.SGE) on the padded terms *)
Definition pipeline_sge_st (t : rtree) (H : list pterm) : option pst :=
  match live_terms H with
  | [] => match H with [] => None | _ => Some (pipe_init t H) end
  | H' => run_levels_sge t (levels t) (pipe_init t H')
  end.
Definition pipeline_sge (t : rtree) (H : list pterm) : option sd := option_map p_sd (pipeline_sge_st t H).

(* the trace: state after the compound diagram, after every combine_subtrees, after every cut_and_optimise *)
Fixpoint cut_trace_sge (t : rtree) (lv : list nat) (st : option pst) : option pst * list (option pst) :=
  match lv with
  | [] => (st, [])
  | c :: r => let st1 := match st with Some x => cut_step_sge t c x | None => None end in
              let (st2, tr) := cut_trace_sge t r st1 in (st2, st1 :: tr)
  end.
Fixpoint levels_trace_sge (t : rtree) (lvs : list (list nat)) (st : option pst) : list (option pst) :=
  match lvs with
  | [] => []
  | lv :: r =>
      match st with
      | None => map (fun _ => None) (lv ++ lv) ++ levels_trace_sge t r None
      | Some x =>
          let (x1, tr1) := combine_trace t lv x in
          let (x2, tr2) := cut_trace_sge t lv (Some x1) in
          tr1 ++ tr2 ++ levels_trace_sge t r x2
      end
  end.
Definition pipeline_sge_trace (t : rtree) (H : list pterm) : list (option pst) :=
  match live_terms H with
  | [] => match H with [] => [] | _ => [Some (pipe_init t H)] end
  | H' => Some (pipe_init t H') :: levels_trace_sge t (levels t) (Some (pipe_init t H'))
  end.

(* ====================================================================================== *)
(* 6. per-instance checks along a run                                                      *)
(* ====================================================================================== *)
(* a cut that reverts to the BIPARTITE path is covered by Pipeline.cut_pre (C01_cut_step_sound); a cut that uses
   the elimination result is checked directly: the normal forms of the denotations before and after agree *)
Definition denote_eqb (t : rtree) (d d' : sd) : bool := poly_eqb (pnorm (sd_denote t d')) (pnorm (sd_denote t d)).
Definition cut_check_sge (t : rtree) (c : nat) (st : pst) : bool :=
  if cut_uses_ge t c (p_sd st) then
    match cut_step_sge t c st with Some st' => denote_eqb t (p_sd st) (p_sd st') | None => true end
  else cut_pre t c (p_sd st).
Fixpoint cut_checks_sge (t : rtree) (lv : list nat) (st : option pst) : list bool :=
  match lv with
  | [] => []
  | c :: r => match st with
              | Some x => cut_check_sge t c x :: cut_checks_sge t r (cut_step_sge t c x)
              | None => []
              end
  end.
Fixpoint levels_checks_sge (t : rtree) (lvs : list (list nat)) (st : option pst) : list bool :=
  match lvs with
  | [] => []
  | lv :: r =>
      match st with
      | None => []
      | Some x =>
          combine_pass_checks t lv x
          ++ cut_checks_sge t lv (Some (combine_pass t lv x))
          ++ levels_checks_sge t r (cut_pass_sge t lv (Some (combine_pass t lv x)))
      end
  end.
Definition pipeline_sge_checks (t : rtree) (H : list pterm) : list bool :=
  match live_terms H with
  | [] => []
  | H' => levels_checks_sge t (levels t) (Some (pipe_init t H'))
  end.
Definition pipeline_sge_ok (t : rtree) (H : list pterm) : bool := forallb (fun b => b) (pipeline_sge_checks t H).
(* which cuts of the run used the elimination result *)
Fixpoint cut_ge_flags (t : rtree) (lv : list nat) (st : option pst) : list bool :=
  match lv with
  | [] => []
  | c :: r => match st with
              | Some x => cut_uses_ge t c (p_sd x) :: cut_ge_flags t r (cut_step_sge t c x)
              | None => []
              end
  end.
Fixpoint levels_ge_flags (t : rtree) (lvs : list (list nat)) (st : option pst) : list bool :=
  match lvs with
  | [] => []
  | lv :: r =>
      match st with
      | None => []
      | Some x => cut_ge_flags t lv (Some (combine_pass t lv x))
                  ++ levels_ge_flags t r (cut_pass_sge t lv (Some (combine_pass t lv x)))
      end
  end.
Definition pipeline_sge_ge_flags (t : rtree) (H : list pterm) : list bool :=
  match live_terms H with
  | [] => []
  | H' => levels_ge_flags t (levels t) (Some (pipe_init t H'))
  end.
