(* Proofs about SD/Model.v: soundness of the state-diagram checker, exactness of the
   single-term diagram and of the uncompressed (BASE) construction, padding. *)
From Coq Require Import List Arith Bool QArith Lia Permutation.
From PTN Require Import Tree.RTree Tree.RTreeProofs SD.Model.
Import ListNotations.
Local Close Scope Q_scope.

(* ====================================================================================== *)
(* 1. keys, coefficients, normal forms                                                    *)
(* ====================================================================================== *)
Lemma oid_eqb_true : forall a b, oid_eqb a b = true -> a = b.
Proof.
  intros [a1 a2] [b1 b2] H. unfold oid_eqb in H. simpl in H.
  apply andb_true_iff in H. destruct H as [H1 H2].
  apply Nat.eqb_eq in H1. apply Nat.eqb_eq in H2. subst. reflexivity.
Qed.

Lemma oid_eqb_refl : forall a, oid_eqb a a = true.
Proof. intros [a1 a2]. unfold oid_eqb. simpl. rewrite !Nat.eqb_refl. reflexivity. Qed.

Lemma list_cmp_eq : forall a b, list_cmp a b = Eq -> a = b.
Proof.
  induction a as [|x a IH]; destruct b as [|y b]; simpl; intros H; try discriminate; auto.
  destruct (Nat.compare x y) eqn:E; try discriminate.
  apply Nat.compare_eq in E. subst. f_equal. apply IH. exact H.
Qed.

Lemma list_cmp_refl : forall a, list_cmp a a = Eq.
Proof. induction a as [|x a IH]; simpl; auto. rewrite Nat.compare_refl. exact IH. Qed.

Lemma key_cmp_eq : forall a b, key_cmp a b = Eq -> a = b.
Proof.
  intros [a1 a2] [b1 b2]. unfold key_cmp. simpl.
  destruct (list_cmp a2 b2) eqn:E2; try discriminate. intros E1.
  apply list_cmp_eq in E1. apply list_cmp_eq in E2. subst. reflexivity.
Qed.

Lemma key_eqb_true : forall a b, key_eqb a b = true -> a = b.
Proof. intros a b. unfold key_eqb. destruct (key_cmp a b) eqn:E; try discriminate. intros _. apply key_cmp_eq. exact E. Qed.

Lemma key_eqb_refl : forall a, key_eqb a a = true.
Proof. intros [a1 a2]. unfold key_eqb, key_cmp. simpl. rewrite !list_cmp_refl. reflexivity. Qed.

Lemma coef_app : forall p q k, (coef (p ++ q) k == coef p k + coef q k)%Q.
Proof.
  induction p as [|a p IH]; intros q k; simpl.
  - ring.
  - destruct (key_eqb (snd a) k); rewrite IH; ring.
Qed.

Lemma coef_pinsert : forall p c k k',
  (coef (pinsert c k p) k' == (if key_eqb k k' then c else 0) + coef p k')%Q.
Proof.
  induction p as [|a p IH]; intros c k k'; cbn [pinsert coef fst snd].
  - destruct (key_eqb k k'); ring.
  - destruct (key_cmp k (snd a)) eqn:E; cbn [pinsert coef fst snd].
    + apply key_cmp_eq in E. subst k.
      destruct (key_eqb (snd a) k'); [rewrite Qred_correct|]; ring.
    + destruct (key_eqb k k'); destruct (key_eqb (snd a) k'); ring.
    + destruct (key_eqb (snd a) k'); rewrite IH; destruct (key_eqb k k'); ring.
Qed.

Lemma coef_psort : forall p k, (coef (psort p) k == coef p k)%Q.
Proof.
  induction p as [|a p IH]; intros k; simpl; [reflexivity|].
  rewrite coef_pinsert. fold (psort p). rewrite IH.
  destruct (key_eqb (snd a) k); ring.
Qed.

Lemma coef_dropzero : forall p k,
  (coef (filter (fun a => negb (Qeq_bool (fst a) 0)) p) k == coef p k)%Q.
Proof.
  induction p as [|a p IH]; intros k; cbn [filter coef]; [reflexivity|].
  destruct (Qeq_bool (fst a) 0) eqn:E; cbn [negb coef fst snd].
  - apply Qeq_bool_eq in E. destruct (key_eqb (snd a) k); rewrite IH; [rewrite E|]; ring.
  - destruct (key_eqb (snd a) k); rewrite IH; reflexivity.
Qed.

Lemma coef_pnorm : forall p k, (coef (pnorm p) k == coef p k)%Q.
Proof. intros. unfold pnorm. rewrite coef_dropzero. apply coef_psort. Qed.

Lemma poly_eqb_peq : forall p q, poly_eqb p q = true -> peq p q.
Proof.
  induction p as [|[a ka] p IH]; destruct q as [|[b kb] q]; cbn [poly_eqb fst snd]; intros H k; try discriminate; [reflexivity|].
  apply andb_true_iff in H. destruct H as [H H3]. apply andb_true_iff in H. destruct H as [H1 H2].
  apply Qeq_bool_eq in H1. apply key_eqb_true in H2. subst kb. cbn [coef fst snd].
  destruct (key_eqb ka k); rewrite (IH q H3 k); [rewrite H1|]; reflexivity.
Qed.

Lemma peq_refl : forall p, peq p p.
Proof. intros p k. reflexivity. Qed.
Lemma peq_sym : forall p q, peq p q -> peq q p.
Proof. intros p q H k. symmetry. apply H. Qed.
Lemma peq_trans : forall p q r, peq p q -> peq q r -> peq p r.
Proof. intros p q r H1 H2 k. rewrite (H1 k). apply H2. Qed.

(* the checker is sound: a successful comparison of the normal forms means the state diagram
   and the Hamiltonian have the same coefficient on every key *)
Theorem sd_check_sound : forall t H d, sd_check t H d = true -> peq (sd_denote t d) (ham_denote t H).
Proof.
  intros t H d E. unfold sd_check in E. apply poly_eqb_peq in E.
  intros k. rewrite <- (coef_pnorm (sd_denote t d) k), <- (coef_pnorm (ham_denote t H) k). apply E.
Qed.

(* a differing key reported by poly_diff is a real difference when confirmed on the raw sums *)
Lemma refute_by_key : forall t H d k,
  ~ (coef (sd_denote t d) k == coef (ham_denote t H) k)%Q -> ~ peq (sd_denote t d) (ham_denote t H).
Proof. intros t H d k Hk Hp. apply Hk. apply Hp. Qed.

(* the refuter is sound: it only answers true with a key on which the two sums differ *)
Theorem sd_refute_sound : forall t H d, sd_refute t H d = true -> ~ peq (sd_denote t d) (ham_denote t H).
Proof.
  intros t H d E. unfold sd_refute in E. destruct (sd_diff t H d) as [k|]; [|discriminate].
  apply refute_by_key with (k := k). intro Hq. apply Qeq_eq_bool in Hq. rewrite Hq in E. discriminate.
Qed.

(* ====================================================================================== *)
(* 2. list-wise equality up to == on the coefficients                                     *)
(* ====================================================================================== *)
Definition meq (a b : Q * key) : Prop := (fst a == fst b)%Q /\ snd a = snd b.
Definition feq (p q : poly) : Prop := Forall2 meq p q.

Lemma feq_refl : forall p, feq p p.
Proof. induction p; constructor; auto. split; reflexivity. Qed.

Lemma feq_app : forall p p' q q', feq p p' -> feq q q' -> feq (p ++ q) (p' ++ q').
Proof. intros. apply Forall2_app; auto. Qed.

Lemma feq_trans : forall p q r, feq p q -> feq q r -> feq p r.
Proof.
  intros p q r H. revert r. induction H; intros r Hr; inversion Hr; subst; constructor.
  - destruct H as [H1 H2], H3 as [H3 H4]. split; [rewrite H1; exact H3 | congruence].
  - apply IHForall2. assumption.
Qed.

Lemma feq_peq : forall p q, feq p q -> peq p q.
Proof.
  intros p q H k. induction H as [|[a ka] [b kb] p q H Hf IH]; cbn [coef fst snd]; [reflexivity|].
  destruct H as [H1 H2]. cbn [fst snd] in H1, H2. subst kb.
  destruct (key_eqb ka k); rewrite IH; [rewrite H1|]; reflexivity.
Qed.

Lemma pmul_feq : forall p p' q q', feq p p' -> feq q q' -> feq (pmul p q) (pmul p' q').
Proof.
  intros p p' q q' Hp Hq. unfold pmul. induction Hp; simpl; [constructor|].
  apply feq_app; auto.
  destruct H as [H1 H2]. clear - H1 H2 Hq. induction Hq; simpl; constructor; auto.
  destruct H as [H3 H4]. split; simpl; [rewrite H1, H3; reflexivity | congruence].
Qed.

Lemma pmul_single : forall a k b k', pmul [(a, k)] [(b, k')] = [(Qmult a b, kmul k k')].
Proof. reflexivity. Qed.

Lemma mmul_nil_r : forall g, mmul (mono g) [] = mono g.
Proof. destruct g; reflexivity. Qed.

(* ====================================================================================== *)
(* 3. structural lemmas about val                                                          *)
(* ====================================================================================== *)
Lemma flat_map_nil_all : forall {A B} (f : A -> list B) l, (forall a, In a l -> f a = []) -> flat_map f l = [].
Proof.
  intros A B f l. induction l as [|a l IH]; intros H; simpl; auto.
  rewrite (H a (or_introl eq_refl)). simpl. apply IH. intros; apply H; right; auto.
Qed.

Lemma flat_map_filter_nil : forall {A B} (f : A -> list B) (p : A -> bool) l,
  (forall a, p a = false -> f a = []) -> flat_map f l = flat_map f (filter p l).
Proof.
  intros A B f p l H. induction l as [|a l IH]; simpl; auto.
  destruct (p a) eqn:E; simpl; rewrite IH; auto. rewrite (H a E). reflexivity.
Qed.

Lemma filter_filter_imp : forall {A} (p q : A -> bool) l,
  (forall a, q a = true -> p a = true) -> filter q (filter p l) = filter q l.
Proof.
  intros A p q l H. induction l as [|a l IH]; simpl; auto.
  destruct (p a) eqn:Ep; simpl.
  - rewrite IH. reflexivity.
  - destruct (q a) eqn:Eq; auto. rewrite (H a Eq) in Ep. discriminate.
Qed.

Lemma prodc_ext : forall (f g : rtree -> oid -> poly) cs vs,
  (forall c x, In c cs -> In x vs -> f c x = g c x) -> prodc f cs vs = prodc g cs vs.
Proof.
  intros f g cs. induction cs as [|c cs IH]; intros vs H; destruct vs as [|x vs]; simpl; auto.
  rewrite (H c x); [|left; auto|left; auto]. f_equal. apply IH. intros; apply H; right; auto.
Qed.

Lemma mem_ids_child : forall i cs c x, In c cs -> mem x (ids c) = true -> mem x (ids (RNode i cs)) = true.
Proof.
  intros i cs c x Hc Hx. apply mem_In. apply mem_In in Hx. eapply in_child_ids; eauto.
Qed.

(* val only looks at the hyperedges of the nodes of the subtree *)
Lemma val_filter : forall t s pv,
  val s t pv = val (filter (fun h => mem (hnode h) (ids t)) s) t pv.
Proof.
  induction t as [v cs IH] using rtree_ind2. intros s pv.
  set (P := fun h => mem (hnode h) (ids (RNode v cs))).
  cbn [val].
  rewrite (flat_map_filter_nil _ P s).
  2:{ intros h Hh. destruct (Nat.eqb (hnode h) v) eqn:E; auto.
      apply Nat.eqb_eq in E. unfold P in Hh. simpl in Hh. rewrite E, Nat.eqb_refl in Hh. discriminate. }
  apply flat_map_ext_in. intros h _.
  destruct (Nat.eqb (hnode h) v); auto. destruct (child_verts pv h) as [vs|]; auto.
  f_equal. apply prodc_ext. intros c x Hc _.
  rewrite Forall_forall in IH.
  rewrite (IH c Hc s). rewrite (IH c Hc (filter P s)).
  rewrite filter_filter_imp; auto.
  intros a Ha. unfold P. eapply mem_ids_child; eauto.
Qed.

Lemma val_irrel3 : forall t pre mid post pv,
  (forall h, In h pre -> ~ In (hnode h) (ids t)) ->
  (forall h, In h post -> ~ In (hnode h) (ids t)) ->
  val (pre ++ mid ++ post) t pv = val mid t pv.
Proof.
  intros t pre mid post pv H1 H2.
  rewrite (val_filter t (pre ++ mid ++ post)), (val_filter t mid).
  rewrite !filter_app.
  assert (E : forall l, (forall h, In h l -> ~ In (hnode h) (ids t)) ->
                        filter (fun h => mem (hnode h) (ids t)) l = []).
  { induction l as [|a l IHl]; intros Hl; simpl; auto.
    destruct (mem (hnode a) (ids t)) eqn:Em.
    - apply mem_In in Em. exfalso. apply (Hl a); [left; auto | exact Em].
    - apply IHl. intros; apply Hl; right; auto. }
  rewrite (E pre H1), (E post H2). simpl. rewrite app_nil_r. reflexivity.
Qed.

Definition allverts (s : list he) : list oid := flat_map hverts s.

Lemma allverts_in : forall s h x, In h s -> In x (hverts h) -> In x (allverts s).
Proof. intros. unfold allverts. apply in_flat_map. exists h. auto. Qed.

Lemma child_verts_sub : forall pv h vs x, child_verts pv h = Some vs -> In x vs -> In x (hverts h).
Proof.
  intros pv h vs x H Hx. destruct pv as [p|]; simpl in H.
  - destruct (hverts h) as [|q r]; try discriminate. destruct (oid_eqb p q); try discriminate.
    inversion H; subst. right. exact Hx.
  - inversion H; subst. exact Hx.
Qed.

Lemma child_verts_head : forall p h vs, child_verts (Some p) h = Some vs -> In p (hverts h).
Proof.
  intros p h vs H. simpl in H. destruct (hverts h) as [|q r]; try discriminate.
  destruct (oid_eqb p q) eqn:E; try discriminate. apply oid_eqb_true in E. subst. left. reflexivity.
Qed.

(* entering a subtree through a vertex of s1 never meets a hyperedge of s2 (and conversely)
   when s1 and s2 have no vertex in common *)
Lemma val_app_l : forall s1 s2, (forall x, In x (allverts s1) -> ~ In x (allverts s2)) ->
  forall t x, In x (allverts s1) -> val (s1 ++ s2) t (Some x) = val s1 t (Some x).
Proof.
  intros s1 s2 D. induction t as [v cs IH] using rtree_ind2. intros x Hx.
  cbn [val]. rewrite flat_map_app.
  rewrite (flat_map_nil_all _ s2).
  2:{ intros h Hh. destruct (Nat.eqb (hnode h) v); auto.
      destruct (child_verts (Some x) h) as [vs|] eqn:E; auto.
      exfalso. apply (D x Hx). eapply allverts_in; eauto. eapply child_verts_head; eauto. }
  rewrite app_nil_r. apply flat_map_ext_in. intros h Hh.
  destruct (Nat.eqb (hnode h) v); auto. destruct (child_verts (Some x) h) as [vs|] eqn:E; auto.
  f_equal. apply prodc_ext. intros c y Hc Hy. rewrite Forall_forall in IH. apply IH; auto.
  eapply allverts_in; eauto. eapply child_verts_sub; eauto.
Qed.

Lemma val_app_r : forall s1 s2, (forall x, In x (allverts s1) -> ~ In x (allverts s2)) ->
  forall t x, In x (allverts s2) -> val (s1 ++ s2) t (Some x) = val s2 t (Some x).
Proof.
  intros s1 s2 D. induction t as [v cs IH] using rtree_ind2. intros x Hx.
  cbn [val]. rewrite flat_map_app.
  rewrite (flat_map_nil_all _ s1).
  2:{ intros h Hh. destruct (Nat.eqb (hnode h) v); auto.
      destruct (child_verts (Some x) h) as [vs|] eqn:E; auto.
      exfalso. apply (D x); auto. eapply allverts_in; eauto. eapply child_verts_head; eauto. }
  cbn [app]. apply flat_map_ext_in. intros h Hh.
  destruct (Nat.eqb (hnode h) v); auto. destruct (child_verts (Some x) h) as [vs|] eqn:E; auto.
  f_equal. apply prodc_ext. intros c y Hc Hy. rewrite Forall_forall in IH. apply IH; auto.
  eapply allverts_in; eauto. eapply child_verts_sub; eauto.
Qed.

(* StateDiagram.sum_states: diagrams without a common vertex add up *)
Theorem sum_states_adds : forall t a b,
  (forall x, In x (allverts (hes a)) -> ~ In x (allverts (hes b))) ->
  sd_denote t (sd_sum a b) = sd_denote t a ++ sd_denote t b.
Proof.
  intros [v cs] a b D. unfold sd_denote, sd_sum. cbn [hes val]. rewrite flat_map_app. f_equal.
  - apply flat_map_ext_in. intros h Hh. destruct (Nat.eqb (hnode h) v); auto. cbn [child_verts].
    f_equal. apply prodc_ext. intros c y Hc Hy. apply val_app_l; auto. eapply allverts_in; eauto.
  - apply flat_map_ext_in. intros h Hh. destruct (Nat.eqb (hnode h) v); auto. cbn [child_verts].
    f_equal. apply prodc_ext. intros c y Hc Hy. apply val_app_r; auto. eapply allverts_in; eauto.
Qed.

(* ====================================================================================== *)
(* 4. the single-term diagram                                                              *)
(* ====================================================================================== *)
Definition val_he (s : list he) (v : nat) (cs : list rtree) (pv : option oid) (h : he) : poly :=
  if Nat.eqb (hnode h) v then
    match child_verts pv h with
    | Some vs => pmul (he_term h) (prodc (fun c x => val s c (Some x)) cs vs)
    | None => []
    end
  else [].

Lemma val_unfold : forall s v cs pv, val s (RNode v cs) pv = flat_map (val_he s v cs pv) s.
Proof. reflexivity. Qed.

Lemma fm_cons : forall {A B} (f : A -> list B) a l, flat_map f (a :: l) = f a ++ flat_map f l.
Proof. reflexivity. Qed.

Lemma map_flat_map : forall {A B C} (g : B -> C) (f : A -> list B) l,
  map g (flat_map f l) = flat_map (fun a => map g (f a)) l.
Proof. intros. induction l; simpl; auto. rewrite map_app, IHl. reflexivity. Qed.

Lemma st_hes_hnode : forall j f t lam gam pv h,
  In h (st_hes j f lam gam pv t) -> In (hnode h) (ids t).
Proof.
  intros j f. induction t as [v cs IH] using rtree_ind2. intros lam gam pv h Hh.
  cbn [st_hes] in Hh. destruct Hh as [<-|Hh].
  - left. reflexivity.
  - right. apply in_flat_map in Hh. destruct Hh as [c [Hc Hh]]. apply in_flat_map. exists c. split; auto.
    rewrite Forall_forall in IH. eapply IH; eauto.
Qed.

Lemma st_hes_verts : forall j f t lam gam pv x,
  In x (allverts (st_hes j f lam gam pv t)) -> In x (opt_list pv) \/ fst x = j.
Proof.
  intros j f. induction t as [v cs IH] using rtree_ind2. intros lam gam pv x Hx.
  cbn [st_hes] in Hx. unfold allverts in Hx. rewrite fm_cons in Hx. cbn [hverts] in Hx.
  apply in_app_or in Hx. destruct Hx as [Hx|Hx].
  - apply in_app_or in Hx. destruct Hx as [Hx|Hx]; [left; exact Hx|].
    right. apply in_map_iff in Hx. destruct Hx as [c [<- _]]. reflexivity.
  - right. apply in_flat_map in Hx. destruct Hx as [h [Hh Hx]].
    apply in_flat_map in Hh. destruct Hh as [c [Hc Hh]].
    rewrite Forall_forall in IH.
    destruct (IH c Hc 1%Q 0 (Some (j, rid c)) x) as [H|H]; auto.
    + eapply allverts_in; eauto.
    + simpl in H. destruct H as [<-|[]]. reflexivity.
Qed.

Lemma prodc_singletons : forall (G : rtree -> oid -> poly) (vxf : rtree -> oid) (L : rtree -> list nat) cs,
  (forall c, In c cs -> feq (G c (vxf c)) [(1%Q, (@nil nat, L c))]) ->
  feq (prodc G cs (map vxf cs)) [(1%Q, (@nil nat, flat_map L cs))].
Proof.
  intros G vxf L cs. induction cs as [|c cs IH]; intros H; cbn [prodc map flat_map].
  - apply feq_refl.
  - eapply feq_trans.
    + apply pmul_feq; [apply H; left; reflexivity | apply IH; intros; apply H; right; assumption].
    + rewrite pmul_single. constructor; [|constructor]. split; cbn [fst snd]; [ring | reflexivity].
Qed.

Lemma st_val : forall j f t, NoDup (ids t) -> forall lam gam pv,
  feq (val (st_hes j f lam gam pv t) t pv) [(lam, (mono gam, map f (ids t)))].
Proof.
  intros j f. induction t as [v cs IH] using rtree_ind2. intros ND lam gam pv.
  destruct (wf_inv _ _ ND) as [Hv [Hnd Hcs]].
  cbn [st_hes].
  set (S := fun c => st_hes j f 1%Q 0 (Some (j, rid c)) c).
  set (hv := mkHe (j, v) v (f v) lam gam (opt_list pv ++ map (fun c => (j, rid c)) cs)).
  rewrite val_unfold, fm_cons.
  rewrite (flat_map_nil_all _ (flat_map S cs)).
  2:{ intros h Hh. unfold val_he. destruct (Nat.eqb (hnode h) v) eqn:E; auto. exfalso.
      apply Nat.eqb_eq in E. apply Hv. rewrite <- E.
      apply in_flat_map in Hh. destruct Hh as [c [Hc Hh]]. apply in_flat_map. exists c. split; auto.
      eapply st_hes_hnode; eauto. }
  rewrite app_nil_r. unfold val_he. cbn [hnode hv]. rewrite Nat.eqb_refl.
  assert (Ecv : child_verts pv hv = Some (map (fun c => (j, rid c)) cs)).
  { destruct pv as [p|]; cbn [child_verts hv hverts opt_list app]; [rewrite oid_eqb_refl|]; reflexivity. }
  rewrite Ecv.
  eapply feq_trans.
  - apply pmul_feq; [apply feq_refl|].
    apply (prodc_singletons _ (fun c => (j, rid c)) (fun c => map f (ids c))).
    intros c Hc. destruct (in_split _ _ Hc) as [l1 [l2 El]].
    assert (Es : hv :: flat_map S cs = (hv :: flat_map S l1) ++ S c ++ flat_map S l2).
    { rewrite El, flat_map_app. reflexivity. }
    rewrite Es. rewrite val_irrel3.
    + rewrite Forall_forall in IH, Hcs. apply (IH c Hc (Hcs c Hc) 1%Q 0 (Some (j, rid c))).
    + intros h [<-|Hh] Hin.
      * apply Hv. apply in_flat_map. exists c. split; auto.
      * rewrite El in Hnd. destruct (flat_map_NoDup_split ids l1 c l2 Hnd) as [_ [_ Hd]].
        apply (Hd _ Hin). rewrite flat_map_app. apply in_or_app. left.
        apply in_flat_map in Hh. destruct Hh as [c' [Hc' Hh]]. apply in_flat_map. exists c'. split; auto.
        eapply st_hes_hnode; eauto.
    + intros h Hh Hin.
      rewrite El in Hnd. destruct (flat_map_NoDup_split ids l1 c l2 Hnd) as [_ [_ Hd]].
      apply (Hd _ Hin). rewrite flat_map_app. apply in_or_app. right.
      apply in_flat_map in Hh. destruct Hh as [c' [Hc' Hh]]. apply in_flat_map. exists c'. split; auto.
      eapply st_hes_hnode; eauto.
  - unfold he_term. cbn [hlam hgam hlabel hv]. rewrite pmul_single.
    constructor; [|constructor]. split; cbn [fst snd]; [ring|].
    unfold kmul. cbn [fst snd]. rewrite mmul_nil_r. cbn [ids map app]. rewrite map_flat_map. reflexivity.
Qed.

(* SingleTermDiagram.from_single_term: for every tree with distinct identifiers the diagram of
   (lam, gam, labels) denotes exactly lam * gam (x) labels *)
Theorem single_term_exact : forall j t tm, NoDup (ids t) ->
  feq (sd_denote t (single_term j t tm)) [term_poly t tm].
Proof.
  intros j t [[lam gam] f] ND. unfold sd_denote, single_term, term_poly. cbn [hes].
  apply st_val. exact ND.
Qed.

(* ====================================================================================== *)
(* 5. the uncompressed (BASE) construction                                                  *)
(* ====================================================================================== *)
Lemma sd_denote_empty : forall t, sd_denote t sd_empty = [].
Proof. intros [v cs]. reflexivity. Qed.

Lemma base_from_exact : forall t, NoDup (ids t) -> forall H j acc,
  (forall x, In x (allverts (hes acc)) -> fst x < j) ->
  feq (sd_denote t (sd_base_from j t H acc)) (sd_denote t acc ++ ham_denote t H).
Proof.
  intros t ND. induction H as [|tm H IH]; intros j acc Hacc; cbn [sd_base_from ham_denote map].
  - rewrite app_nil_r. apply feq_refl.
  - assert (Hst : forall x, In x (allverts (hes (single_term j t tm))) -> fst x = j).
    { intros x Hx. destruct tm as [[lam gam] f]. cbn [single_term hes] in Hx.
      apply st_hes_verts in Hx. destruct Hx as [[]|Hx]. exact Hx. }
    eapply feq_trans.
    + apply IH. intros x Hx. cbn [sd_sum hes] in Hx. unfold allverts in Hx. rewrite flat_map_app in Hx.
      apply in_app_or in Hx. destruct Hx as [Hx|Hx].
      * apply Hacc in Hx. lia.
      * apply Hst in Hx. lia.
    + rewrite sum_states_adds.
      2:{ intros x Hx Hx'. apply Hacc in Hx. apply Hst in Hx'. lia. }
      rewrite <- app_assoc. apply feq_app; [apply feq_refl|].
      change (term_poly t tm :: map (term_poly t) H) with ([term_poly t tm] ++ ham_denote t H).
      apply feq_app; [|apply feq_refl]. apply single_term_exact. exact ND.
Qed.

(* StateDiagram.from_hamiltonian_base: exact for every tree and every term list, duplicate
   and proportional terms included *)
Theorem base_exact : forall t H, NoDup (ids t) -> feq (sd_denote t (sd_base t H)) (ham_denote t H).
Proof.
  intros t H ND. unfold sd_base.
  pose proof (base_from_exact t ND H 0 sd_empty) as B. rewrite sd_denote_empty in B.
  apply B. intros x [].
Qed.

Corollary base_exact_peq : forall t H, NoDup (ids t) -> peq (sd_denote t (sd_base t H)) (ham_denote t H).
Proof. intros. apply feq_peq. apply base_exact. assumption. Qed.

(* ====================================================================================== *)
(* 6. padding                                                                               *)
(* ====================================================================================== *)
Theorem padding_identity : forall idlab dims t H Hp,
  pad_ham idlab dims t H = Some Hp ->
  length Hp = length H /\
  forall k lam gam tm, nth_error H k = Some (lam, gam, tm) ->
    exists f, nth_error Hp k = Some (lam, gam, f) /\
      (forall v l, lookup v tm = Some l -> f v = l) /\
      (forall v, lookup v tm = None ->
                 f v = idlab (match lookup v dims with Some d => d | None => 0 end)) /\
      (forall v l, lookup v tm = Some l -> In v (ids t)).
Proof.
  intros idlab dims t H Hp E. unfold pad_ham in E.
  destruct (forallb (fun u => term_compatible t (snd u)) H) eqn:Ec; [|discriminate].
  inversion E; subst Hp. clear E. split; [apply map_length|].
  intros k lam gam tm Hk. exists (padf idlab dims tm). split; [|split; [|split]].
  - rewrite nth_error_map, Hk. reflexivity.
  - intros v l Hl. unfold padf. rewrite Hl. reflexivity.
  - intros v Hl. unfold padf. rewrite Hl. reflexivity.
  - intros v l Hl. rewrite forallb_forall in Ec. apply nth_error_In in Hk. specialize (Ec _ Hk).
    cbn [snd] in Ec. unfold term_compatible in Ec. rewrite forallb_forall in Ec.
    clear - Hl Ec. induction tm as [|[k0 v0] tm IH]; cbn [lookup] in Hl; [discriminate|].
    destruct (Nat.eqb k0 v) eqn:E0.
    + apply Nat.eqb_eq in E0. subst. specialize (Ec (v, v0) (or_introl eq_refl)). apply mem_In in Ec. exact Ec.
    + apply IH; auto. intros x Hx. apply Ec. right. exact Hx.
Qed.

Lemma forallb_false_exists : forall {A} (p : A -> bool) l,
  forallb p l = false -> exists a, In a l /\ p a = false.
Proof.
  intros A p l. induction l as [|a l IH]; simpl; intros H; [discriminate|].
  destruct (p a) eqn:E.
  - destruct (IH H) as [b [Hb Hp]]. exists b. auto.
  - exists a. auto.
Qed.

(* the guard: padding is rejected exactly when some term acts on a site that is no node *)
Theorem padding_rejects : forall idlab dims t H,
  pad_ham idlab dims t H = None <->
  exists lam gam tm v l, In (lam, gam, tm) H /\ In (v, l) tm /\ ~ In v (ids t).
Proof.
  intros idlab dims t H. unfold pad_ham.
  destruct (forallb (fun u => term_compatible t (snd u)) H) eqn:Ec; split; intros Hx; try discriminate; auto.
  - exfalso. destruct Hx as [lam [gam [tm [v [l [H1 [H2 H3]]]]]]].
    rewrite forallb_forall in Ec. specialize (Ec _ H1). cbn [snd] in Ec.
    unfold term_compatible in Ec. rewrite forallb_forall in Ec. specialize (Ec _ H2). cbn [fst] in Ec.
    apply mem_In in Ec. contradiction.
  - apply forallb_false_exists in Ec.
    destruct Ec as [[[lam gam] tm] [H1 H2]]. cbn [snd] in H2. unfold term_compatible in H2.
    apply forallb_false_exists in H2. destruct H2 as [[v l] [H2 H3]]. cbn [fst] in H3.
    exists lam, gam, tm, v, l. repeat split; auto. intro Hin. apply mem_In in Hin. congruence.
Qed.

(* ====================================================================================== *)
(* 7. recorded witnesses (diagrams exported from the implementation)                       *)
(* ====================================================================================== *)
Local Open Scope Q_scope.
(* tree n0 - n1, the term A0(n0) A1(n1) twice, method SGE: both copies are merged, the
   multiplicity is lost (known finding C01-duplicate-terms) *)
Definition wit_dup_tree : rtree := RNode 0 [RNode 1 []].
Definition wit_dup_ham : list pterm :=
  map (pad_term idlab_std [(0, 2); (1, 2)]%nat) [(1, 0%nat, [(0, 12); (1, 22)]%nat); (1, 0%nat, [(0, 12); (1, 22)]%nat)].
Definition wit_dup_sd : sd :=
  mkSd [mkHe (0, 0)%nat 0 12 1 0 [(0, 0)%nat]; mkHe (0, 1)%nat 1 22 1 0 [(0, 0)%nat]]
       [mkVx (0, 0)%nat 1 [(0, 1); (0, 0)]%nat].
Lemma wit_dup_refuted : ~ peq (sd_denote wit_dup_tree wit_dup_sd) (ham_denote wit_dup_tree wit_dup_ham).
Proof. apply refute_by_key with (k := (@nil nat, [12; 22]%nat)). vm_compute. discriminate. Qed.

(* one node, terms 1*A0 + 2*A1, method TREE: the second hyperedge copies the coefficient of
   the first (known finding C01-tree-coefficients) *)
Definition wit_tree_tree : rtree := RNode 0 [].
Definition wit_tree_ham : list pterm :=
  map (pad_term idlab_std [(0, 2)]%nat) [(1, 0%nat, [(0, 12)]%nat); (2, 0%nat, [(0, 22)]%nat)].
Definition wit_tree_sd : sd :=
  mkSd [mkHe (0, 0)%nat 0 12 1 0 []; mkHe (0, 1)%nat 0 22 1 0 []] [].
Lemma wit_tree_refuted : ~ peq (sd_denote wit_tree_tree wit_tree_sd) (ham_denote wit_tree_tree wit_tree_ham).
Proof. apply refute_by_key with (k := (@nil nat, [22]%nat)). vm_compute. discriminate. Qed.

(* a diagram the SGE pipeline built for five terms (rational and symbolic coefficients, two
   proportional terms) on a four-node tree with a dimension-1 node *)
Definition wit_ok_tree : rtree := RNode 0 [RNode 2 [RNode 3 []]; RNode 1 []].
Definition wit_ok_ham : list pterm :=
  map (pad_term idlab_std [(0, 2); (1, 2); (2, 1); (3, 2)]%nat)
    [(2 # 3, 1%nat, [(0, 12); (1, 22)]%nat); (1, 0%nat, [(0, 12); (3, 12)]%nat); (-1 # 1, 2%nat, [(1, 22)]%nat);
     (1 # 2, 2%nat, [(0, 12); (1, 22)]%nat); (3 # 1, 0%nat, [(3, 12); (1, 22)]%nat)].
Definition wit_ok_sd : sd :=
  (mkSd [mkHe (0, 0)%nat 0 12 ((2) # 3) 1 [(0, 0); (0, 4)]%nat; mkHe (0, 1)%nat 0 12 ((1) # 1) 0 [(0, 1); (0, 5)]%nat;
         mkHe (0, 2)%nat 0 2 ((-1) # 1) 2 [(0, 0); (0, 4)]%nat; mkHe (0, 3)%nat 0 12 ((1) # 2) 2 [(0, 0); (0, 4)]%nat;
         mkHe (0, 4)%nat 0 2 ((3) # 1) 0 [(0, 1); (0, 4)]%nat; mkHe (0, 5)%nat 2 1 ((1) # 1) 0 [(0, 0); (0, 2)]%nat;
         mkHe (0, 6)%nat 2 1 ((1) # 1) 0 [(0, 1); (0, 3)]%nat; mkHe (0, 7)%nat 3 2 ((1) # 1) 0 [(0, 2)]%nat;
         mkHe (0, 8)%nat 3 12 ((1) # 1) 0 [(0, 3)]%nat; mkHe (0, 9)%nat 1 22 ((1) # 1) 0 [(0, 4)]%nat;
         mkHe (0, 10)%nat 1 2 ((1) # 1) 0 [(0, 5)]%nat]
        [mkVx (0, 0)%nat 2 [(0, 5); (0, 0); (0, 2); (0, 3)]%nat; mkVx (0, 1)%nat 2 [(0, 6); (0, 1); (0, 4)]%nat;
         mkVx (0, 2)%nat 3 [(0, 7); (0, 5)]%nat; mkVx (0, 3)%nat 3 [(0, 8); (0, 6)]%nat;
         mkVx (0, 4)%nat 1 [(0, 9); (0, 0); (0, 2); (0, 3); (0, 4)]%nat; mkVx (0, 5)%nat 1 [(0, 10); (0, 1)]%nat]).

(* ====================================================================================== *)
(* 8. bond dimensions of the single-term diagram (used by C12)                             *)
(* ====================================================================================== *)
Local Close Scope Q_scope.
Lemma ids_cons : forall t, ids t = rid t :: tl (ids t).
Proof. intros [v cs]. reflexivity. Qed.

Lemma st_vxs_edges : forall j t, Permutation (map vedge (st_vxs j t)) (tl (ids t)).
Proof.
  intros j. induction t as [v cs IH] using rtree_ind2.
  cbn [st_vxs ids tl]. rewrite map_app, map_map. cbn [vedge].
  induction cs as [|c cs IHcs]; cbn [map flat_map app]; [constructor|].
  inversion IH as [|c' cs' Hc Hcs]; subst.
  rewrite map_app. rewrite (ids_cons c). cbn [app]. apply perm_skip.
  eapply Permutation_trans; [apply Permutation_app_swap_app|].
  apply Permutation_app; [exact Hc | apply IHcs; exact Hcs].
Qed.

Definition nverts (d : sd) (c : nat) : nat := length (filter (fun x => Nat.eqb (vedge x) c) (vxs d)).

Lemma filter_count : forall (l : list vx) c,
  length (filter (fun x => Nat.eqb (vedge x) c) l) = count_occ Nat.eq_dec (map vedge l) c.
Proof.
  induction l as [|x l IH]; intros c; simpl; auto.
  destruct (Nat.eq_dec (vedge x) c) as [E|E].
  - rewrite (proj2 (Nat.eqb_eq _ _) E). simpl. rewrite IH. reflexivity.
  - rewrite (proj2 (Nat.eqb_neq _ _) E). apply IH.
Qed.

(* one vertex on every edge: a single-term Hamiltonian gives bond dimension one everywhere *)
Theorem single_term_bonds_one : forall j t tm c, NoDup (ids t) -> In c (tl (ids t)) ->
  nverts (single_term j t tm) c = 1.
Proof.
  intros j t [[lam gam] f] c ND Hc. unfold nverts, single_term. cbn [vxs].
  rewrite filter_count.
  rewrite (proj1 (Permutation_count_occ Nat.eq_dec _ _) (st_vxs_edges j t) c).
  assert (ND' : NoDup (tl (ids t))). { rewrite ids_cons in ND. inversion ND; assumption. }
  apply (proj1 (NoDup_count_occ' Nat.eq_dec (tl (ids t))) ND' c Hc).
Qed.

Lemma nverts_sum : forall a b c, nverts (sd_sum a b) c = nverts a c + nverts b c.
Proof. intros. unfold nverts, sd_sum. cbn [vxs]. rewrite filter_app, app_length. reflexivity. Qed.

Lemma base_from_bonds : forall t c, NoDup (ids t) -> In c (tl (ids t)) -> forall H j acc,
  nverts (sd_base_from j t H acc) c = nverts acc c + length H.
Proof.
  intros t c ND Hc. induction H as [|tm H IH]; intros j acc; cbn [sd_base_from length]; [lia|].
  rewrite IH, nverts_sum, (single_term_bonds_one j t tm c ND Hc). lia.
Qed.

(* the uncompressed construction has one vertex per term on every edge *)
Theorem base_bonds : forall t H c, NoDup (ids t) -> In c (tl (ids t)) -> nverts (sd_base t H) c = length H.
Proof. intros t H c ND Hc. unfold sd_base. rewrite (base_from_bonds t c ND Hc). reflexivity. Qed.

(* ====================================================================================== *)
(* 9. the denotation as an explicit sum over consistent selections                          *)
(* ====================================================================================== *)
Lemma pmul_unfold : forall p q, pmul p q = flat_map (fun a => map (mmul2 a) q) p.
Proof. reflexivity. Qed.

Lemma flat_map_map : forall {A B C} (g : A -> B) (f : B -> list C) l,
  flat_map f (map g l) = flat_map (fun a => f (g a)) l.
Proof. intros. induction l; simpl; auto. rewrite IHl. reflexivity. Qed.

Lemma prodc_selc : forall (f : rtree -> oid -> poly) (g : rtree -> oid -> list stree) cs vs,
  (forall c x, In c cs -> f c x = map wt (g c x)) -> prodc f cs vs = map wts (selc g cs vs).
Proof.
  intros f g. induction cs as [|c cs IH]; intros vs H; destruct vs as [|x vs]; cbn [prodc selc map]; auto.
  rewrite (H c x (or_introl eq_refl)). rewrite IH by (intros; apply H; right; assumption).
  rewrite pmul_unfold, flat_map_map, map_flat_map.
  apply flat_map_ext_in. intros a _. rewrite !map_map. reflexivity.
Qed.

(* val is the list of the weights of the consistent selections, selection by selection *)
Theorem val_selections : forall t s pv, val s t pv = map wt (sels s t pv).
Proof.
  induction t as [v cs IH] using rtree_ind2. intros s pv. cbn [val sels]. rewrite map_flat_map.
  apply flat_map_ext_in. intros h _.
  destruct (Nat.eqb (hnode h) v); auto. destruct (child_verts pv h) as [vs|]; auto.
  rewrite (prodc_selc _ (fun c x => sels s c (Some x))).
  2:{ intros c x Hc. rewrite Forall_forall in IH. apply IH. exact Hc. }
  unfold he_term. rewrite pmul_unfold. cbn [flat_map]. rewrite app_nil_r, !map_map. reflexivity.
Qed.

Lemma selc_spec : forall (g : rtree -> oid -> list stree) (P : rtree -> oid -> stree -> Prop) cs vs subs,
  (forall c x a, In c cs -> (In a (g c x) <-> P c x a)) ->
  (In subs (selc g cs vs) <-> all3 P cs vs subs).
Proof.
  intros g P. induction cs as [|c cs IH]; intros vs subs H.
  - destruct vs as [|x vs]; destruct subs as [|a subs]; cbn [selc all3].
    + split; auto. intros _. left. reflexivity.
    + split; [intros [E|[]]; discriminate | intros []].
    + split; intros [].
    + split; intros [].
  - destruct vs as [|x vs]; cbn [selc all3].
    + destruct subs; split; intros [].
    + destruct subs as [|a subs].
      * split; [|intros []]. intros Hin. apply in_flat_map in Hin. destruct Hin as [a' [_ Hin]].
        apply in_map_iff in Hin. destruct Hin as [r [E _]]. discriminate.
      * split.
        -- intros Hin. apply in_flat_map in Hin. destruct Hin as [a' [Ha Hin]].
           apply in_map_iff in Hin. destruct Hin as [r [E Hr]]. inversion E; subst. split.
           ++ apply (H c x a (or_introl eq_refl)). exact Ha.
           ++ apply IH; auto. intros; apply H; right; assumption.
        -- intros [Hp Hall]. apply in_flat_map. exists a. split.
           ++ apply (H c x a (or_introl eq_refl)). exact Hp.
           ++ apply in_map. apply IH; auto. intros; apply H; right; assumption.
Qed.

(* sels enumerates exactly the consistent selections *)
Theorem sels_spec : forall t s pv sg, In sg (sels s t pv) <-> sel_ok s t pv sg.
Proof.
  induction t as [v cs IH] using rtree_ind2. intros s pv [h' subs]. cbn [sels sel_ok]. rewrite in_flat_map.
  assert (SC : forall vs, In subs (selc (fun c x => sels s c (Some x)) cs vs) <->
                          all3 (fun c x a => sel_ok s c (Some x) a) cs vs subs).
  { intros vs. apply selc_spec. intros c x a Hc. rewrite Forall_forall in IH. apply IH. exact Hc. }
  split.
  - intros [h [Hh Hin]]. destruct (Nat.eqb (hnode h) v) eqn:E; [|destruct Hin].
    destruct (child_verts pv h) as [vs|] eqn:Ecv; [|destruct Hin].
    apply in_map_iff in Hin. destruct Hin as [r [Er Hr]]. inversion Er; subst.
    split; [exact Hh|]. split; [apply Nat.eqb_eq; exact E|]. rewrite Ecv. apply SC. exact Hr.
  - intros [Hh [Hv Hrest]]. exists h'. split; [exact Hh|].
    rewrite (proj2 (Nat.eqb_eq _ _) Hv). destruct (child_verts pv h') as [vs|]; [|destruct Hrest].
    apply in_map. apply SC. exact Hrest.
Qed.
