(* [ext-C01T] Proofs about the literal model of the TREE method (SD/TreeCmp.v).
   - tree_single_exact (all inputs): a one-term Hamiltonian gives the single-term diagram, which denotes the term.
   - tree_exact_checked (all trees / node orders / term lists, under the per-instance hypothesis tree_ok): if after
     every add_single_term of the model's run the decidable step check holds (new state sd_wf, denotation = old
     denotation + the added term, both evaluated through the verified normal form), the final diagram is well-formed
     and denotes the Hamiltonian.  Induction over the term list.
   - tree_coeff_refuted: the known finding C01-tree-coefficients as a statement about the literal model.
   NOT proved: that the step check holds for every diagram / every not-contained unit-coefficient term (the universal
   soundness of the marking algorithm). *)
From Coq Require Import List Arith Bool QArith Lia.
From PTN Require Import Tree.RTree SD.Model SD.ModelProofs SD.Pipeline SD.TreeCmp.
Import ListNotations.
Local Close Scope Q_scope.

Lemma forallb_id_cons : forall b l, forallb (fun x : bool => x) (b :: l) = true -> b = true /\ forallb (fun x : bool => x) l = true.
Proof. intros b l H. cbn in H. apply andb_true_iff in H. exact H. Qed.

(* what one successful step check gives *)
Lemma tree_step_ok_sound : forall t d tm d', tree_step_ok t d tm d' = true ->
  sd_wf t d' = true /\ peq (sd_denote t d') (sd_denote t d ++ [term_poly t tm]).
Proof.
  intros t d tm d' H. unfold tree_step_ok in H. apply andb_true_iff in H. destruct H as [Hw He]. split; [exact Hw|].
  apply poly_eqb_peq in He. intro k.
  rewrite <- (coef_pnorm (sd_denote t d') k), <- (coef_pnorm (sd_denote t d ++ [term_poly t tm]) k). apply He.
Qed.

Lemma peq_app : forall p p' q q', peq p p' -> peq q q' -> peq (p ++ q) (p' ++ q').
Proof. intros p p' q q' H1 H2 k. rewrite !coef_app, (H1 k), (H2 k). reflexivity. Qed.

(* the run from a state: every checked step adds its term *)
Lemma tree_run_checked : forall t order H j st st',
  forallb (fun b : bool => b) (tree_checks_from t order j st H) = true ->
  tree_run t order j st H = Some st' ->
  (sd_wf t (tsd st) = true -> sd_wf t (tsd st') = true) /\
  peq (sd_denote t (tsd st')) (sd_denote t (tsd st) ++ ham_denote t H).
Proof.
  intros t order H. induction H as [|tm H IH]; intros j st st' Hc Hr.
  - cbn in Hr. injection Hr as <-. split; [auto|]. unfold ham_denote. cbn [map]. rewrite app_nil_r. apply peq_refl.
  - cbn [tree_run] in Hr. cbn [tree_checks_from] in Hc. destruct (tree_add t order j st tm) as [st1|] eqn:Ea; [|discriminate].
    apply forallb_id_cons in Hc. destruct Hc as [Hs Hc].
    apply tree_step_ok_sound in Hs. destruct Hs as [Hw Hp].
    destruct (IH (S j) st1 st' Hc Hr) as [Hw' Hp']. split; [intros _; exact (Hw' Hw)|].
    eapply peq_trans; [exact Hp'|]. unfold ham_denote. cbn [map].
    change (term_poly t tm :: map (term_poly t) H) with ([term_poly t tm] ++ map (term_poly t) H).
    rewrite app_assoc. apply peq_app; [exact Hp | apply peq_refl].
Qed.

Theorem tree_exact_checked : forall t order H d, NoDup (ids t) ->
  tree_ok t order H = true -> from_hamiltonian_tree t order H = Some d ->
  sd_wf t d = true /\ peq (sd_denote t d) (ham_denote t H).
Proof.
  intros t order H d ND Hok Hd. unfold from_hamiltonian_tree, tree_final in Hd. unfold tree_ok, tree_checks in Hok.
  destruct H as [|tm H]; [discriminate|].
  apply forallb_id_cons in Hok. destruct Hok as [Hw0 Hc].
  destruct (tree_run t order 1 (tree_init t tm) H) as [st'|] eqn:Er; [|discriminate]. cbn in Hd. injection Hd as <-.
  destruct (tree_run_checked t order H 1 (tree_init t tm) st' Hc Er) as [Hw Hp]. split; [exact (Hw Hw0)|].
  eapply peq_trans; [exact Hp|]. unfold ham_denote. cbn [map].
  change (term_poly t tm :: map (term_poly t) H) with ([term_poly t tm] ++ map (term_poly t) H).
  apply peq_app; [|apply peq_refl].
  apply feq_peq. unfold tree_init, tsd. cbn [thes tvxs].
  replace (mkSd (hes (single_term 0 t tm)) (vxs (single_term 0 t tm))) with (single_term 0 t tm) by (destruct (single_term 0 t tm); reflexivity).
  apply single_term_exact. exact ND.
Qed.

(* one term: from_single_term only *)
Theorem tree_single_exact : forall t order tm, NoDup (ids t) ->
  from_hamiltonian_tree t order [tm] = Some (single_term 0 t tm) /\
  peq (sd_denote t (single_term 0 t tm)) (ham_denote t [tm]).
Proof.
  intros t order tm ND. split.
  - unfold from_hamiltonian_tree, tree_final, tree_run, tree_init, tsd. cbn [option_map thes tvxs].
    destruct (single_term 0 t tm); reflexivity.
  - apply feq_peq. apply single_term_exact. exact ND.
Qed.

(* ---- the known finding C01-tree-coefficients, on the literal model ------------------------------------- *)
Local Open Scope Q_scope.
(* two nodes n0 - n1; 1 * A(n0) B(n1)  +  (2/1) * A(n0) C(n1): the leaf walk finds nothing to share at n1 (labels
   differ) ... the root hyperedge A is not completely contained, so a second root hyperedge with coefficient 2 is
   created: this one is exact.  The wrong diagrams need a completely contained hyperedge on the ROOT: *)
(* (a) one node, 1*A + 2*B: the new hyperedge copies the coefficient 1 of the existing one *)
Definition wit_tc1_tree : rtree := RNode 0 [].
Definition wit_tc1_ham : list pterm := [(1, 0%nat, fun _ => 12%nat); (2, 0%nat, fun _ => 22%nat)].
(* (b) root n0 with leaves n1, n2; 1 * X(n1) Y(n0) Z(n2) + 3 * X(n1) W(n0) Z(n2): both leaf walks mark their vertex, the root
   hyperedge is completely contained with another label, the new root hyperedge W copies the coefficient 1 *)
Definition wit_tc2_tree : rtree := RNode 0 [RNode 1 []; RNode 2 []].
Definition wit_tc2_lab (y : nat) (v : nat) : nat := match v with O => y | 1%nat => 11%nat | _ => 13%nat end.
Definition wit_tc2_ham : list pterm := [(1, 0%nat, wit_tc2_lab 12); (3, 0%nat, wit_tc2_lab 14)].

Lemma tree_coeff_refuted_1 :
  exists d, from_hamiltonian_tree wit_tc1_tree [0%nat] wit_tc1_ham = Some d /\ sd_wf wit_tc1_tree d = true /\
            ~ peq (sd_denote wit_tc1_tree d) (ham_denote wit_tc1_tree wit_tc1_ham).
Proof.
  eexists. split; [vm_compute; reflexivity|]. split; [vm_compute; reflexivity|].
  apply sd_refute_sound. vm_compute. reflexivity.
Qed.
Lemma tree_coeff_refuted_2 : forall order, In order [[0; 1; 2]; [0; 2; 1]]%nat ->
  exists d, from_hamiltonian_tree wit_tc2_tree order wit_tc2_ham = Some d /\ sd_wf wit_tc2_tree d = true /\
            ~ peq (sd_denote wit_tc2_tree d) (ham_denote wit_tc2_tree wit_tc2_ham).
Proof.
  intros order [<-|[<-|[]]]; (eexists; split; [vm_compute; reflexivity|]; split; [vm_compute; reflexivity|];
  apply sd_refute_sound; vm_compute; reflexivity).
Qed.
