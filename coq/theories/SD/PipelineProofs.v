(* Proofs about SD/Pipeline.v (the driver of the BIPARTITE construction):
   0. the polynomials form a semiring up to peq: permutations, distributivity, associativity,
      scalar multiples (coefficients lambda * gamma) commute with products;
   1. locality of val: the value of the tree only depends on the value of the sub-diagram of a
      node p and on the hyperedge lists of the nodes outside it;
   2. the two-level normal form of the value at a tree edge (p, c);
   3. one cut step (cut_and_optimise, BIPARTITE) preserves sd_denote;
   4. one combine step preserves sd_denote under the checked merge preconditions;
   5. the driver: exactness of from_hamiltonian_bipartite under the checked step preconditions. *)
From Coq Require Import List Arith Bool QArith Lia Lqa Permutation.
From PTN Require Bip.Model Bip.ModelProofs.
From PTN Require Import Tree.RTree Tree.RTreeProofs SD.Model SD.ModelProofs SD.Core SD.CoreProofs SD.Pipeline.
Import ListNotations.
Local Close Scope Qc_scope.
Local Close Scope Q_scope.

(* ====================================================================================== *)
(* 0. polynomials up to peq                                                                *)
(* ====================================================================================== *)
Lemma peq_perm : forall p q, Permutation p q -> peq p q.
Proof.
  intros p q H k. induction H as [|a p q H IH|a b p|p q r H1 IH1 H2 IH2]; cbn [coef].
  - reflexivity.
  - destruct (key_eqb (snd a) k); rewrite IH; reflexivity.
  - destruct (key_eqb (snd b) k), (key_eqb (snd a) k); ring.
  - rewrite IH1. exact IH2.
Qed.

Lemma peq_nil_app : forall p q, peq p [] -> peq q [] -> peq (p ++ q) [].
Proof. intros p q Hp Hq. change (@nil (Q * key)) with (@nil (Q * key) ++ []). apply peq_app; auto. Qed.

Lemma peq_app_nil_r : forall p q, peq q [] -> peq (p ++ q) p.
Proof. intros p q H. rewrite <- (app_nil_r p) at 2. apply peq_app; [apply peq_refl | exact H]. Qed.
Lemma peq_app_nil_l : forall p q, peq p [] -> peq (p ++ q) q.
Proof. intros p q H. change q with ([] ++ q) at 2. apply peq_app; [exact H | apply peq_refl]. Qed.

Lemma pmul_nil_r : forall p, pmul p [] = [].
Proof. unfold pmul. induction p as [|a p IH]; cbn [flat_map map app]; auto. Qed.

Lemma pmul_app_l : forall p q r, pmul (p ++ q) r = pmul p r ++ pmul q r.
Proof. intros. unfold pmul. apply flat_map_app. Qed.

Lemma pmul_cons : forall a p q, pmul (a :: p) q = map (mmul2 a) q ++ pmul p q.
Proof. reflexivity. Qed.

Lemma pmul_app_r_perm : forall p q r, Permutation (pmul p (q ++ r)) (pmul p q ++ pmul p r).
Proof.
  induction p as [|a p IH]; intros q r; [constructor|].
  rewrite !pmul_cons, map_app.
  eapply perm_trans; [apply Permutation_app_head; apply IH|].
  rewrite <- !app_assoc. apply Permutation_app_head.
  rewrite !app_assoc. apply Permutation_app_tail. apply Permutation_app_comm.
Qed.
Lemma pmul_app_r : forall p q r, peq (pmul p (q ++ r)) (pmul p q ++ pmul p r).
Proof. intros. apply peq_perm. apply pmul_app_r_perm. Qed.

(* sums: flat_map over an index list *)
Lemma psum_perm : forall {A} (f : A -> poly) l l', Permutation l l' -> peq (flat_map f l) (flat_map f l').
Proof. intros. apply peq_perm. apply Permutation_flat_map. assumption. Qed.

Lemma psum_swap_perm : forall {A B} (f : A -> B -> poly) la lb,
  Permutation (flat_map (fun a => flat_map (f a) lb) la) (flat_map (fun b => flat_map (fun a => f a b) la) lb).
Proof.
  intros A B f la. induction la as [|a la IH]; intros lb; cbn [flat_map].
  - induction lb; cbn [flat_map]; auto.
  - eapply perm_trans; [apply Permutation_app_head; apply IH|].
    clear IH. induction lb as [|b lb IHb]; cbn [flat_map]; [constructor|].
    rewrite <- !app_assoc. apply Permutation_app_head.
    eapply perm_trans; [|apply Permutation_app_head; exact IHb].
    rewrite !app_assoc. apply Permutation_app_tail. apply Permutation_app_comm.
Qed.
Lemma psum_swap : forall {A B} (f : A -> B -> poly) la lb,
  peq (flat_map (fun a => flat_map (f a) lb) la) (flat_map (fun b => flat_map (fun a => f a b) la) lb).
Proof. intros. apply peq_perm. apply psum_swap_perm. Qed.

Lemma psum_filter : forall {A} (f : A -> poly) (p : A -> bool) l,
  flat_map f (filter p l) = flat_map (fun a => if p a then f a else []) l.
Proof. intros A f p l. induction l as [|a l IH]; cbn [filter flat_map]; auto. destruct (p a); cbn [flat_map app]; rewrite IH; reflexivity. Qed.

Lemma psum_nil : forall {A} (l : list A), flat_map (fun _ => @nil (Q * key)) l = [].
Proof. induction l; cbn [flat_map app]; auto. Qed.

Lemma psum_nil_peq : forall {A} (f : A -> poly) l, (forall a, In a l -> peq (f a) []) -> peq (flat_map f l) [].
Proof.
  intros A f l H. eapply peq_trans; [apply peq_flat_map; exact H|]. rewrite psum_nil. apply peq_refl.
Qed.

Lemma psum_add : forall {A} (f g : A -> poly) l,
  peq (flat_map (fun a => f a ++ g a) l) (flat_map f l ++ flat_map g l).
Proof.
  intros A f g l. apply peq_perm. induction l as [|a l IH]; cbn [flat_map]; [constructor|].
  eapply perm_trans; [apply Permutation_app_head; exact IH|].
  rewrite <- !app_assoc. apply Permutation_app_head.
  rewrite !app_assoc. apply Permutation_app_tail. apply Permutation_app_comm.
Qed.

(* a sum with at most one non-zero summand, selected by a boolean predicate *)
Lemma psum_unique : forall {A} (f : A -> poly) (p : A -> bool) l,
  (forall pre a mid b post, l = pre ++ a :: mid ++ b :: post -> p a = true -> p b = true -> False) ->
  flat_map (fun a => if p a then f a else []) l = match find p l with Some a => f a | None => [] end.
Proof.
  intros A f p l. induction l as [|a l IH]; intros H; cbn [flat_map find]; [reflexivity|].
  destruct (p a) eqn:E.
  - rewrite flat_map_nil_all; [apply app_nil_r|].
    intros b Hb. destruct (p b) eqn:Eb; auto. exfalso.
    apply in_split in Hb. destruct Hb as [mid [post Hl]]. subst l.
    apply (H [] a mid b post); auto.
  - cbn [app]. apply IH. intros pre x mid y post Hl. apply (H (a :: pre) x mid y post). rewrite Hl. reflexivity.
Qed.

Lemma pmul_psum_l : forall {A} (f : A -> poly) l q, pmul (flat_map f l) q = flat_map (fun a => pmul (f a) q) l.
Proof. intros A f l q. induction l as [|a l IH]; cbn [flat_map]; [reflexivity|]. rewrite pmul_app_l, IH. reflexivity. Qed.

Lemma pmul_psum_r : forall {A} (f : A -> poly) l p, peq (pmul p (flat_map f l)) (flat_map (fun a => pmul p (f a)) l).
Proof.
  intros A f l p. induction l as [|a l IH]; cbn [flat_map]; [rewrite pmul_nil_r; apply peq_refl|].
  eapply peq_trans; [apply pmul_app_r|]. apply peq_app; [apply peq_refl | exact IH].
Qed.

(* ---- the symbol multiset: insertion commutes ------------------------------------------- *)
Lemma minsert_comm : forall a b m, minsert a (minsert b m) = minsert b (minsert a m).
Proof.
  intros a b m. induction m as [|h r IH]; cbn [minsert].
  - destruct (Nat.leb a b) eqn:E1, (Nat.leb b a) eqn:E2; auto.
    + apply Nat.leb_le in E1, E2. assert (a = b) by lia. subst. reflexivity.
    + apply Nat.leb_gt in E1, E2. lia.
  - destruct (Nat.leb b h) eqn:Eb, (Nat.leb a h) eqn:Ea; cbn [minsert]; rewrite ?Ea, ?Eb.
    + destruct (Nat.leb a b) eqn:E1, (Nat.leb b a) eqn:E2; auto.
      * apply Nat.leb_le in E1, E2. assert (a = b) by lia. subst. reflexivity.
      * apply Nat.leb_gt in E1, E2. lia.
    + assert (E : Nat.leb a b = false). { apply Nat.leb_gt. apply Nat.leb_le in Eb. apply Nat.leb_gt in Ea. lia. }
      rewrite E. reflexivity.
    + assert (E : Nat.leb b a = false). { apply Nat.leb_gt. apply Nat.leb_le in Ea. apply Nat.leb_gt in Eb. lia. }
      rewrite E. reflexivity.
    + rewrite IH. reflexivity.
Qed.
Lemma mmul_minsert_l : forall g a b, mmul (minsert g a) b = minsert g (mmul a b).
Proof.
  intros g a b. unfold mmul. induction a as [|x a IH]; cbn [minsert fold_right]; [reflexivity|].
  destruct (Nat.leb g x); cbn [fold_right]; [reflexivity|]. rewrite IH. apply minsert_comm.
Qed.
Lemma mmul_minsert_r : forall g a b, mmul a (minsert g b) = minsert g (mmul a b).
Proof.
  intros g a b. unfold mmul. induction a as [|x a IH]; cbn [fold_right]; [reflexivity|].
  rewrite IH. apply minsert_comm.
Qed.
Lemma mmul_assoc : forall a b c, mmul (mmul a b) c = mmul a (mmul b c).
Proof.
  intros a b c. induction a as [|x a IH]; [reflexivity|].
  change (mmul (x :: a) b) with (minsert x (mmul a b)).
  change (mmul (x :: a) (mmul b c)) with (minsert x (mmul a (mmul b c))).
  rewrite mmul_minsert_l, IH. reflexivity.
Qed.
Lemma mmul_mono_l : forall g a b, mmul (mmul (mono g) a) b = mmul (mono g) (mmul a b).
Proof. intros. apply mmul_assoc. Qed.
Lemma mmul_mono_r : forall g a b, mmul a (mmul (mono g) b) = mmul (mono g) (mmul a b).
Proof.
  intros g a b. destruct g as [|g]; [reflexivity|].
  change (mmul (mono (S g)) b) with (minsert (S g) b).
  change (mmul (mono (S g)) (mmul a b)) with (minsert (S g) (mmul a b)).
  apply mmul_minsert_r.
Qed.

(* ---- scalar multiples: a coefficient lambda * gamma ------------------------------------- *)
Definition scal1 (c : coefq) : Q * key := (fst c, (mono (snd c), [])).
Definition pscale (c : coefq) (p : poly) : poly := map (mmul2 (scal1 c)) p.

Lemma pscale_pmul : forall c p, pmul [scal1 c] p = pscale c p.
Proof. intros. unfold pscale. rewrite pmul_cons. cbn [pmul flat_map]. apply app_nil_r. Qed.
Lemma pscale_peq : forall c p q, peq p q -> peq (pscale c p) (pscale c q).
Proof. intros c p q H. rewrite <- !pscale_pmul. apply pmul_peq; [apply peq_refl | exact H]. Qed.
Lemma pscale_app : forall c p q, pscale c (p ++ q) = pscale c p ++ pscale c q.
Proof. intros. apply map_app. Qed.
Lemma pscale_nil : forall c, pscale c [] = [].
Proof. reflexivity. Qed.
Lemma pscale_psum : forall {A} c (f : A -> poly) l, pscale c (flat_map f l) = flat_map (fun a => pscale c (f a)) l.
Proof. intros. unfold pscale. apply map_flat_map. Qed.

Lemma meq_refl : forall a, meq a a.
Proof. intros. split; reflexivity. Qed.

Lemma feq_map : forall (f g : Q * key -> Q * key) p, (forall a, meq (f a) (g a)) -> feq (map f p) (map g p).
Proof. intros f g p H. induction p; cbn [map]; constructor; auto. Qed.

Lemma pscale_pmul_l : forall c p q, feq (pmul (pscale c p) q) (pscale c (pmul p q)).
Proof.
  intros c p q. induction p as [|a p IH]; [constructor|].
  change (pscale c (a :: p)) with (mmul2 (scal1 c) a :: pscale c p).
  rewrite !pmul_cons, pscale_app.
  apply feq_app; [|exact IH]. unfold pscale. rewrite map_map. apply feq_map. intros b.
  destruct a as [qa [sa la]], b as [qb [sb lb]]. unfold mmul2, scal1, kmul, meq. cbn [fst snd app].
  split; [ring|]. rewrite mmul_mono_l. reflexivity.
Qed.
Lemma pscale_pmul_r : forall c p q, feq (pmul p (pscale c q)) (pscale c (pmul p q)).
Proof.
  intros c p q. induction p as [|a p IH]; [constructor|].
  rewrite !pmul_cons, pscale_app.
  apply feq_app; [|exact IH]. unfold pscale. rewrite !map_map. apply feq_map. intros b.
  destruct a as [qa [sa la]], b as [qb [sb lb]]. unfold mmul2, scal1, kmul, meq. cbn [fst snd app].
  split; [ring|]. rewrite mmul_mono_r. reflexivity.
Qed.

Lemma pscale_one : forall c p, (fst c == 1)%Q -> snd c = 0 -> feq (pscale c p) p.
Proof.
  intros [q g] p Hq Hg. cbn [fst snd] in *. subst g. unfold pscale.
  rewrite <- (map_id p) at 2. apply feq_map. intros [qa [sa la]].
  unfold mmul2, scal1, kmul, meq. cbn [fst snd app mono mmul fold_right]. split; [rewrite Hq; ring | reflexivity].
Qed.

Lemma peq_zero_coeffs : forall p, (forall a, In a p -> (fst a == 0)%Q) -> peq p [].
Proof.
  intros p H k. cbn [coef]. induction p as [|a p IH]; [reflexivity|]. cbn [coef].
  assert (Ha : (fst a == 0)%Q) by (apply H; left; reflexivity).
  assert (IH' : (coef p k == 0)%Q) by (apply IH; intros; apply H; right; assumption).
  destruct (key_eqb (snd a) k); [rewrite Ha, IH'; reflexivity | exact IH'].
Qed.
Lemma pscale_zero : forall c p, cnz c = false -> peq (pscale c p) [].
Proof.
  intros [q g] p H. unfold cnz in H. cbn [fst snd] in H. apply orb_false_iff in H. destruct H as [H1 H2].
  apply negb_false_iff in H1, H2. apply Nat.eqb_eq in H1. apply Qeq_bool_iff in H2. subst g.
  apply peq_zero_coeffs. intros a Ha. unfold pscale in Ha. apply in_map_iff in Ha. destruct Ha as [b [Eb _]].
  subst a. unfold mmul2, scal1. cbn [fst snd]. rewrite H2. ring.
Qed.

Lemma pscale_coef_eq : forall a b p, coef_eqb a b = true -> feq (pscale a p) (pscale b p).
Proof.
  intros [qa ga] [qb gb] p H. unfold coef_eqb in H. cbn [fst snd] in H. apply andb_true_iff in H. destruct H as [H1 H2].
  apply Qeq_bool_iff in H1. apply Nat.eqb_eq in H2. subst gb. unfold pscale. apply feq_map. intros [q [s l]].
  unfold mmul2, scal1, meq. cbn [fst snd]. split; [rewrite H1; reflexivity | reflexivity].
Qed.

(* he_term h is the coefficient times the label *)
Definition lab_term (l : nat) : poly := [(1%Q, (@nil nat, [l]))].
Lemma he_term_scale : forall h, feq (he_term h) (pscale (coef_of h) (lab_term (hlabel h))).
Proof.
  intros h. unfold he_term, pscale, lab_term, coef_of, scal1, mmul2, kmul. cbn [map fst snd app].
  constructor; [|constructor]. split; cbn [fst snd]; [ring|]. rewrite mmul_nil_r. reflexivity.
Qed.

(* ====================================================================================== *)
(* 1. locality of val                                                                      *)
(* ====================================================================================== *)
Lemma val_at : forall s v cs pv, val s (RNode v cs) pv = flat_map (val_he s v cs pv) (hes_at v s).
Proof.
  intros. rewrite val_unfold. unfold hes_at. apply flat_map_filter_nil.
  intros h Hh. unfold val_he. rewrite Hh. reflexivity.
Qed.

Lemma hes_at_in : forall v s h, In h (hes_at v s) <-> In h s /\ hnode h = v.
Proof. intros. unfold hes_at. rewrite filter_In, Nat.eqb_eq. tauto. Qed.

Lemma val_agree : forall t s s' pv, (forall v, In v (ids t) -> hes_at v s' = hes_at v s) ->
  val s' t pv = val s t pv.
Proof.
  induction t as [v cs IH] using rtree_ind2. intros s s' pv H. rewrite Forall_forall in IH.
  rewrite !val_at, (H v) by (left; reflexivity). apply flat_map_ext_in. intros h Hh.
  unfold val_he. destruct (Nat.eqb (hnode h) v); auto. destruct (child_verts pv h) as [vs|]; auto.
  f_equal. apply prodc_ext. intros k y Hk _. apply IH; auto.
  intros v' Hv'. apply H. eapply in_child_ids; eauto.
Qed.

(* the sub-diagram below node p may change as long as its value (for every parent vertex) does
   not: the value of the whole tree is unchanged *)
Lemma val_local : forall s s' p hp cs,
  (forall v, ~ In v (ids (RNode p cs)) -> hes_at v s' = hes_at v s) ->
  (forall pv, is_some pv = hp -> peq (val s' (RNode p cs) pv) (val s (RNode p cs) pv)) ->
  forall t h0, node_at t h0 p hp cs -> NoDup (ids t) ->
  forall pv, is_some pv = h0 -> peq (val s' t pv) (val s t pv).
Proof.
  intros s s' p hp cs Hout Hin t h0 Hn. induction Hn as [v cs0 hp0|v cs' hp0 k p hp cs Hk Hn IH]; intros ND pv Hpv.
  - apply Hin. exact Hpv.
  - assert (Hs : is_subtree (RNode p cs) k) by (eapply node_at_subtree; eauto).
    assert (Hv : ~ In v (ids (RNode p cs))).
    { intros Hc. eapply wf_root_notin_child; eauto. eapply is_subtree_ids; eauto. }
    rewrite !val_at, (Hout v Hv). apply peq_flat_map. intros h Hh.
    unfold val_he. destruct (Nat.eqb (hnode h) v); [|apply peq_refl].
    destruct (child_verts pv h) as [vs|]; [|apply peq_refl].
    apply pmul_peq; [apply peq_refl|]. apply prodc_peq. intros k' y Hk'.
    destruct (in_dec Nat.eq_dec p (ids k')) as [Hp|Hp].
    + assert (k' = k).
      { eapply (wf_children_eq v cs' k' k p); eauto. eapply is_subtree_ids; eauto. left. reflexivity. }
      subst k'. apply IH; auto. eapply wf_child; eauto.
    + rewrite (val_agree k' s s'); [apply peq_refl|]. intros v' Hv'. apply Hout.
      intros Hc. apply Hp.
      assert (k' = k).
      { eapply (wf_children_eq v cs' k' k v'); eauto. eapply is_subtree_ids; eauto. }
      subst k'. eapply is_subtree_ids; eauto. left. reflexivity.
Qed.

(* ====================================================================================== *)
(* 2. the value at a tree edge: a product with a hole                                      *)
(* ====================================================================================== *)
Section Hole.
  Variable D : rtree -> oid -> poly.
  Variable c : nat.
  (* the product over the children with X in the place of the child c; ws = the child vertices
     without the one of c *)
  Fixpoint holed (cs : list rtree) (ws : list oid) (X : poly) : poly :=
    match cs with
    | [] => []
    | k :: cs' => if Nat.eqb (rid k) c then pmul X (prodc D cs' ws)
                  else match ws with y :: ws' => pmul (D k y) (holed cs' ws' X) | [] => [] end
    end.

  Lemma prodc_holed : forall cs vs x X, slot_vertex cs c vs = Some x ->
    (forall k, In k cs -> rid k = c -> D k x = X) ->
    prodc D cs vs = holed cs (drop_at cs c vs) X.
  Proof.
    induction cs as [|k cs IH]; intros vs x X Hs HX; destruct vs as [|y vs]; cbn [slot_vertex] in Hs; try discriminate.
    cbn [prodc drop_at holed]. destruct (Nat.eqb (rid k) c) eqn:E.
    - inversion Hs; subst y. rewrite (HX k); [reflexivity | left; reflexivity | apply Nat.eqb_eq; exact E].
    - f_equal. eapply IH; eauto. intros; apply HX; auto. right. assumption.
  Qed.

  Lemma holed_app : forall cs ws X Y, peq (holed cs ws (X ++ Y)) (holed cs ws X ++ holed cs ws Y).
  Proof.
    induction cs as [|k cs IH]; intros ws X Y; cbn [holed]; [apply peq_refl|].
    destruct (Nat.eqb (rid k) c); [rewrite pmul_app_l; apply peq_refl|].
    destruct ws as [|y ws]; [apply peq_refl|].
    eapply peq_trans; [apply pmul_peq; [apply peq_refl | apply IH]|]. apply pmul_app_r.
  Qed.
  Lemma holed_nil : forall cs ws, peq (holed cs ws []) [].
  Proof.
    induction cs as [|k cs IH]; intros ws; cbn [holed]; [apply peq_refl|].
    destruct (Nat.eqb (rid k) c); [apply peq_refl|]. destruct ws as [|y ws]; [apply peq_refl|].
    eapply peq_trans; [apply pmul_peq; [apply peq_refl | apply IH]|]. rewrite pmul_nil_r. apply peq_refl.
  Qed.
  Lemma holed_peq : forall cs ws X Y, peq X Y -> peq (holed cs ws X) (holed cs ws Y).
  Proof.
    induction cs as [|k cs IH]; intros ws X Y H; cbn [holed]; [apply peq_refl|].
    destruct (Nat.eqb (rid k) c); [apply pmul_peq; [exact H | apply peq_refl]|].
    destruct ws as [|y ws]; [apply peq_refl|]. apply pmul_peq; [apply peq_refl | apply IH; exact H].
  Qed.
  Lemma holed_scale : forall cs ws a X, peq (holed cs ws (pscale a X)) (pscale a (holed cs ws X)).
  Proof.
    induction cs as [|k cs IH]; intros ws a X; cbn [holed]; [apply peq_refl|].
    destruct (Nat.eqb (rid k) c); [apply feq_peq; apply pscale_pmul_l|].
    destruct ws as [|y ws]; [apply peq_refl|].
    eapply peq_trans; [apply pmul_peq; [apply peq_refl | apply IH]|]. apply feq_peq. apply pscale_pmul_r.
  Qed.
  Lemma holed_psum : forall {A} cs ws (f : A -> poly) l,
    peq (holed cs ws (flat_map f l)) (flat_map (fun a => holed cs ws (f a)) l).
  Proof.
    intros A cs ws f l. induction l as [|a l IH]; cbn [flat_map]; [apply holed_nil|].
    eapply peq_trans; [apply holed_app|]. apply peq_app; [apply peq_refl | exact IH].
  Qed.
  Lemma holed_if : forall cs ws (b : bool) X,
    peq (holed cs ws (if b then X else [])) (if b then holed cs ws X else []).
  Proof. intros. destruct b; [apply peq_refl | apply holed_nil]. Qed.
End Hole.

Lemma holed_ext : forall D D' c cs ws X, NoDup (map rid cs) ->
  (forall k y, In k cs -> rid k <> c -> D k y = D' k y) -> holed D c cs ws X = holed D' c cs ws X.
Proof.
  intros D D' c. induction cs as [|k cs IH]; intros ws X ND H; cbn [holed]; [reflexivity|].
  cbn [map] in ND. inversion ND as [|? ? Hk ND']; subst.
  destruct (Nat.eqb (rid k) c) eqn:E.
  - f_equal. apply prodc_ext. intros k' y Hk' _. apply H; [right; assumption|].
    apply Nat.eqb_eq in E. intros E'. apply Hk. rewrite E, <- E'. apply in_map. exact Hk'.
  - destruct ws as [|y ws]; [reflexivity|]. rewrite (H k y); [|left; reflexivity|apply Nat.eqb_neq; exact E].
    f_equal. apply IH; auto. intros; apply H; auto. right. assumption.
Qed.

Definition enters (pv : option oid) (h : he) : bool :=
  match pv with
  | None => true
  | Some x => match hverts h with q :: _ => oid_eqb x q | [] => false end
  end.
Lemma child_verts_enters : forall pv h,
  child_verts pv h = if enters pv h then Some (child_part (is_some pv) h) else None.
Proof.
  intros [x|] h; cbn [child_verts enters is_some child_part]; [|reflexivity].
  destruct (hverts h) as [|q r]; [reflexivity|]. destruct (oid_eqb x q); reflexivity.
Qed.

Lemma children_rid_nodup : forall v cs, NoDup (ids (RNode v cs)) -> NoDup (map rid cs).
Proof.
  intros v cs ND. cbn [ids] in ND. inversion ND as [|? ? _ ND']; subst. clear ND.
  induction cs as [|k cs IH]; cbn [map]; [constructor|]. cbn [flat_map] in ND'.
  apply NoDup_app_inv in ND'. destruct ND' as [N1 [N2 N3]]. constructor; [|apply IH; exact N2].
  intros Hin. apply in_map_iff in Hin. destruct Hin as [k' [E Hk']].
  apply (N3 (rid k)); [apply rid_in_ids|]. apply in_flat_map. exists k'. split; auto. rewrite <- E. apply rid_in_ids.
Qed.

Lemma rid_unique_in : forall cs k k', NoDup (map rid cs) -> In k cs -> In k' cs -> rid k = rid k' -> k = k'.
Proof.
  induction cs as [|k0 cs IH]; intros k k' ND Hk Hk' E; [destruct Hk|].
  cbn [map] in ND. inversion ND as [|? ? Hn ND']; subst.
  destruct Hk as [Hk|Hk], Hk' as [Hk'|Hk']; try congruence.
  - subst k0. exfalso. apply Hn. rewrite E. apply in_map. exact Hk'.
  - subst k0. exfalso. apply Hn. rewrite <- E. apply in_map. exact Hk.
  - apply IH; auto.
Qed.

Lemma slot_vertex_some : forall cs c vs, length vs = length cs -> In c (map rid cs) ->
  exists x, slot_vertex cs c vs = Some x.
Proof.
  induction cs as [|k cs IH]; intros c vs L H; [destruct H|]. destruct vs as [|y vs]; [discriminate|].
  cbn [slot_vertex]. destruct (Nat.eqb (rid k) c) eqn:E; [eauto|]. apply IH; [cbn in L; lia|].
  destruct H as [H|H]; auto. apply Nat.eqb_neq in E. contradiction.
Qed.

Definition DD (s : list he) : rtree -> oid -> poly := fun k y => val s k (Some y).
Definition Eterm (s : list he) (ccs : list rtree) (labu : nat) (cvs : list oid) : poly :=
  pmul (lab_term labu) (prodc (DD s) ccs cvs).
Definition TT (s : list he) (c : nat) (cs ccs : list rtree) (lab : nat) (ws : list oid) (labu : nat) (cvs : list oid) : poly :=
  pmul (lab_term lab) (holed (DD s) c cs ws (Eterm s ccs labu cvs)).

Section TwoLevel.
  Variables (s : list he) (p : nat) (hp : bool) (cs : list rtree) (c : nat) (ccs : list rtree).
  Hypothesis Hc : In (RNode c ccs) cs.
  Hypothesis Hrid : NoDup (map rid cs).
  Hypothesis Hshape : cut_shape p hp cs c (length ccs) s = true.

  Lemma shape_u : forall u, In u (hes_at c s) -> exists q r, hverts u = q :: r.
  Proof.
    intros u Hu. unfold cut_shape in Hshape. apply andb_true_iff in Hshape. destruct Hshape as [H1 _].
    rewrite forallb_forall in H1. specialize (H1 u Hu). apply Nat.eqb_eq in H1.
    destruct (hverts u) as [|q r]; [discriminate|eauto].
  Qed.
  Lemma shape_v : forall h, In h (hes_at p s) -> length (child_part hp h) = length cs /\ (hp = true -> hverts h <> []).
  Proof.
    intros h Hh. unfold cut_shape in Hshape. apply andb_true_iff in Hshape. destruct Hshape as [_ H2].
    rewrite forallb_forall in H2. specialize (H2 h Hh). apply Nat.eqb_eq in H2. unfold child_part.
    destruct hp; [|split; [exact H2 | discriminate]].
    destruct (hverts h) as [|q r]; [discriminate|]. cbn [tl length] in *. split; [lia | discriminate].
  Qed.
  Lemma shape_slot : forall h, In h (hes_at p s) -> exists x, p_cutv hp cs c h = Some x.
  Proof.
    intros h Hh. unfold p_cutv. apply slot_vertex_some; [apply (shape_v h Hh)|].
    apply in_map_iff. exists (RNode c ccs). split; [reflexivity | exact Hc].
  Qed.

  Lemma child_value : forall x,
    peq (val s (RNode c ccs) (Some x))
        (flat_map (fun u => if oid_eqb x (head_vertex u)
                            then pscale (coef_of u) (Eterm s ccs (hlabel u) (tl (hverts u))) else [])
                  (hes_at c s)).
  Proof.
    intros x. rewrite val_at. apply peq_flat_map. intros u Hu.
    destruct (shape_u u Hu) as [q [r Eu]]. apply hes_at_in in Hu. destruct Hu as [_ Hn].
    unfold val_he. rewrite Hn, Nat.eqb_refl. cbn [child_verts]. unfold head_vertex. rewrite Eu. cbn [tl].
    destruct (oid_eqb x q); [|apply peq_refl].
    eapply peq_trans; [apply pmul_peq; [apply feq_peq; apply he_term_scale | apply peq_refl]|].
    apply feq_peq. apply pscale_pmul_l.
  Qed.

  Lemma two_level : forall pv, is_some pv = hp ->
    peq (val s (RNode p cs) pv)
        (flat_map (fun h => flat_map (fun u =>
           if enters pv h && oeqb oid_eqb (p_cutv hp cs c h) (Some (head_vertex u))
           then pscale (coef_of h) (pscale (coef_of u)
                  (TT s c cs ccs (hlabel h) (drop_at cs c (child_part hp h)) (hlabel u) (tl (hverts u))))
           else []) (hes_at c s)) (hes_at p s)).
  Proof.
    intros pv Hpv. rewrite val_at. apply peq_flat_map. intros h Hh.
    destruct (shape_slot h Hh) as [x Hx]. pose proof Hh as Hh'. apply hes_at_in in Hh'. destruct Hh' as [_ Hn].
    unfold val_he. rewrite Hn, Nat.eqb_refl, child_verts_enters, Hpv.
    destruct (enters pv h); cbn [andb]; [|rewrite psum_nil; apply peq_refl].
    rewrite Hx. cbn [oeqb].
    change (prodc (fun c0 x0 => val s c0 (Some x0)) cs (child_part hp h)) with (prodc (DD s) cs (child_part hp h)).
    rewrite (prodc_holed (DD s) c cs (child_part hp h) x (val s (RNode c ccs) (Some x))); [|exact Hx|].
    2:{ intros k Hk Ek. unfold DD.
        rewrite (rid_unique_in cs k (RNode c ccs)); auto. }
    eapply peq_trans; [apply pmul_peq; [apply feq_peq; apply he_term_scale | apply holed_peq; apply child_value]|].
    eapply peq_trans; [apply pmul_peq; [apply peq_refl | apply holed_psum]|].
    eapply peq_trans; [apply pmul_psum_r|]. apply peq_flat_map. intros u Hu.
    destruct (oid_eqb x (head_vertex u)).
    - eapply peq_trans; [apply pmul_peq; [apply peq_refl | apply holed_scale]|].
      eapply peq_trans; [apply feq_peq; apply pscale_pmul_l|]. apply pscale_peq.
      eapply peq_trans; [apply feq_peq; apply pscale_pmul_r|]. apply peq_refl.
    - eapply peq_trans; [apply pmul_peq; [apply peq_refl | apply holed_nil]|]. rewrite pmul_nil_r. apply peq_refl.
  Qed.
End TwoLevel.

(* ====================================================================================== *)
(* 3. cut_and_optimise                                                                     *)
(* ====================================================================================== *)
(* ---- small list facts ------------------------------------------------------------------- *)
Lemma leqb_eq : forall {A} (e : A -> A -> bool), (forall a b, e a b = true -> a = b) ->
  forall l l', leqb e l l' = true -> l = l'.
Proof.
  intros A e He. induction l as [|a l IH]; intros [|b l'] H; cbn [leqb] in H; try discriminate; auto.
  apply andb_true_iff in H. destruct H as [H1 H2]. f_equal; auto.
Qed.
Lemma nodup_oid_sound : forall l, nodup_oid l = true -> NoDup l.
Proof.
  induction l as [|x l IH]; intros H; [constructor|]. cbn [nodup_oid] in H. apply andb_true_iff in H.
  destruct H as [H1 H2]. constructor; auto. intros Hin. apply omem_In in Hin. rewrite Hin in H1. discriminate.
Qed.
Lemma flat_map_concat : forall {A B} (f : A -> list B) L, flat_map f (concat L) = flat_map (flat_map f) L.
Proof. intros A B f L. induction L as [|l L IH]; cbn [concat flat_map]; auto. rewrite flat_map_app, IH. reflexivity. Qed.
Lemma flat_map_nth_seq : forall {A B} (f : A -> list B) (d : A) l,
  flat_map f l = flat_map (fun i => f (nth i l d)) (seq 0 (length l)).
Proof.
  intros A B f d l. induction l as [|a l IH]; [reflexivity|]. cbn [length seq flat_map nth].
  rewrite IH, <- seq_shift, flat_map_map. reflexivity.
Qed.
Lemma map_nth_seq' : forall {A} (d : A) l, l = map (fun i => nth i l d) (seq 0 (length l)).
Proof.
  intros A d l. induction l as [|a l IH]; [reflexivity|]. cbn [length seq map nth].
  rewrite <- seq_shift, map_map. f_equal. exact IH.
Qed.
Lemma NoDup_flat_map_two : forall {A B} (g : A -> list B) pre a mid b post x,
  NoDup (flat_map g (pre ++ a :: mid ++ b :: post)) -> In x (g a) -> In x (g b) -> False.
Proof.
  intros A B g pre a mid b post x ND Ha Hb.
  rewrite flat_map_app in ND. apply NoDup_app_inv in ND. destruct ND as [_ [ND _]].
  cbn [flat_map] in ND. apply NoDup_app_inv in ND. destruct ND as [_ [_ H]].
  apply (H x Ha). rewrite flat_map_app. apply in_or_app. right. cbn [flat_map]. apply in_or_app. left. exact Hb.
Qed.

(* ---- the V classes ---------------------------------------------------------------------- *)
Section ClassInv.
  Variables (hp : bool) (cs : list rtree) (c : nat) (us : list he).
  Definition class_ok (q : vclass) : Prop :=
    snd q <> [] /\ forall e, In e (snd q) -> hlabel e = fst (fst (fst q)) /\ p_others hp cs c e = snd (fst (fst q)).

  Lemma ckey_eqb_true : forall a b, ckey_eqb a b = true -> fst a = fst b.
  Proof.
    intros [[la oa] ta] [[lb ob] tb] H. unfold ckey_eqb in H. cbn [fst snd] in *.
    apply andb_true_iff in H. destruct H as [H _]. apply andb_true_iff in H. destruct H as [H1 H2].
    apply Nat.eqb_eq in H1. apply (leqb_eq oid_eqb oid_eqb_true) in H2. subst. reflexivity.
  Qed.

  Lemma add_to_class_ok : forall tag e acc, Forall class_ok acc ->
    Forall class_ok (add_to_class (hlabel e, p_others hp cs c e, tag) e acc).
  Proof.
    intros tag e acc H. induction H as [|q acc Hq H IH]; cbn [add_to_class].
    - constructor; [|constructor]. split; [discriminate|]. intros e' [E|[]]. subst. auto.
    - destruct (ckey_eqb (fst q) (hlabel e, p_others hp cs c e, tag)) eqn:E.
      + constructor; auto. apply ckey_eqb_true in E. destruct Hq as [Hne Hq]. unfold class_ok. cbn [fst snd] in *. split.
        * intros Habs. apply app_eq_nil in Habs. destruct Habs. discriminate.
        * intros e' He'. apply in_app_or in He'. destruct He' as [He'|[He'|[]]]; [apply Hq; exact He'|].
          subst e'. rewrite E. cbn [fst snd]. auto.
      + constructor; auto.
  Qed.
  Lemma add_to_class_perm : forall k e acc,
    Permutation (concat (map snd (add_to_class k e acc))) (concat (map snd acc) ++ [e]).
  Proof.
    intros k e acc. induction acc as [|q acc IH]; cbn [add_to_class map concat]; [apply Permutation_refl|].
    destruct (ckey_eqb (fst q) k); cbn [map concat snd].
    - rewrite <- !app_assoc. apply Permutation_app_head. apply Permutation_app_comm.
    - rewrite <- app_assoc. apply Permutation_app_head. exact IH.
  Qed.
  Lemma classify_loop_spec : forall vsl idx acc classes,
    classify_loop hp cs c us idx vsl acc = Some classes -> Forall class_ok acc ->
    Forall class_ok classes /\ Permutation (concat (map snd classes)) (concat (map snd acc) ++ vsl).
  Proof.
    induction vsl as [|e vsl IH]; intros idx acc classes H Hok; cbn [classify_loop] in H.
    - inversion H; subst. split; auto. rewrite app_nil_r. apply Permutation_refl.
    - destruct (length (filter _ _)) as [|[|k]]; try discriminate.
      + destruct (IH _ _ _ H (add_to_class_ok None e acc Hok)) as [H1 H2]. split; auto.
        eapply perm_trans; [exact H2|]. eapply perm_trans; [apply Permutation_app_tail; apply add_to_class_perm|].
        rewrite <- app_assoc. apply Permutation_refl.
      + destruct (IH _ _ _ H (add_to_class_ok (Some idx) e acc Hok)) as [H1 H2]. split; auto.
        eapply perm_trans; [exact H2|]. eapply perm_trans; [apply Permutation_app_tail; apply add_to_class_perm|].
        rewrite <- app_assoc. apply Permutation_refl.
  Qed.
  Lemma classify_spec : forall vsl classes, classify hp cs c us vsl = Some classes ->
    Forall class_ok classes /\ Permutation (concat (map snd classes)) vsl.
  Proof. intros vsl classes H. apply (classify_loop_spec vsl 0 [] classes H). constructor. Qed.
End ClassInv.

Lemma drop_at_length_inv : forall (cs : list rtree) (c : nat) q q' (r r' : list oid),
  q :: drop_at cs c r = q' :: drop_at cs c r' -> q = q' /\ drop_at cs c r = drop_at cs c r'.
Proof. intros. inversion H. auto. Qed.

Section CutBefore.
  Variables (s : list he) (p : nat) (hp : bool) (cs : list rtree) (c : nat) (ccs : list rtree).
  Hypothesis Hc : In (RNode c ccs) cs.
  Hypothesis Hrid : NoDup (map rid cs).
  Hypothesis Hshape : cut_shape p hp cs c (length ccs) s = true.
  Hypothesis Hunit : cut_unit c s = true.
  Variable classes : list vclass.
  Hypothesis Hcl : classify hp cs c (hes_at c s) (hes_at p s) = Some classes.
  Hypothesis Hdist : cut_distinct hp cs c classes = true.
  Variable pv : option oid.
  Hypothesis Hpv : is_some pv = hp.

  Let us := hes_at c s.
  Let vsl := hes_at p s.
  Definition Xt (v u : he) : poly :=
    TT s c cs ccs (hlabel v) (drop_at cs c (child_part hp v)) (hlabel u) (tl (hverts u)).
  Definition rep_of (q : vclass) : he := hd dummy_he (snd q).

  Lemma class_members : forall q e, In q classes -> In e (snd q) -> In e vsl.
  Proof.
    intros q e Hq He. destruct (classify_spec hp cs c us vsl classes Hcl) as [_ Hperm].
    eapply Permutation_in; [exact Hperm|]. apply in_concat. exists (snd q). split; auto. apply in_map. exact Hq.
  Qed.
  Lemma class_rep_in : forall q, In q classes -> In (rep_of q) (snd q).
  Proof.
    intros q Hq. destruct (classify_spec hp cs c us vsl classes Hcl) as [Hok _].
    rewrite Forall_forall in Hok. destruct (Hok q Hq) as [Hne _]. unfold rep_of.
    destruct (snd q) as [|e r]; [contradiction|left; reflexivity].
  Qed.
  (* members of one class enter through the same parent vertex and have the same context *)
  Lemma class_uniform : forall q e, In q classes -> In e (snd q) ->
    enters pv e = enters pv (rep_of q) /\ forall u, Xt e u = Xt (rep_of q) u.
  Proof.
    intros q e Hq He. destruct (classify_spec hp cs c us vsl classes Hcl) as [Hok _].
    rewrite Forall_forall in Hok. destruct (Hok q Hq) as [_ Hu].
    destruct (Hu e He) as [L1 O1]. destruct (Hu _ (class_rep_in q Hq)) as [L2 O2].
    assert (O : p_others hp cs c e = p_others hp cs c (rep_of q)) by congruence.
    assert (L : hlabel e = hlabel (rep_of q)) by congruence.
    destruct (shape_v s p hp cs c ccs Hshape e (class_members q e Hq He)) as [_ N1].
    destruct (shape_v s p hp cs c ccs Hshape _ (class_members q _ Hq (class_rep_in q Hq))) as [_ N2].
    unfold p_others, child_part in O. unfold Xt, enters, child_part. rewrite L.
    destruct hp.
    - specialize (N1 eq_refl). specialize (N2 eq_refl).
      destruct (hverts e) as [|a r]; [contradiction|]. destruct (hverts (rep_of q)) as [|a' r']; [contradiction|].
      cbn [firstn app tl] in O. inversion O; subst. destruct pv as [x|]; [|discriminate].
      split; [reflexivity|]. intros u. cbn [tl]. congruence.
    - cbn [app] in O. destruct pv as [x|]; [discriminate|]. split; [reflexivity|]. intros u. rewrite O. reflexivity.
  Qed.

  Lemma unit_scale : forall u Y, In u us -> feq (pscale (coef_of u) Y) Y.
  Proof.
    intros u Y Hu. unfold cut_unit in Hunit. rewrite forallb_forall in Hunit. specialize (Hunit u Hu).
    apply andb_true_iff in Hunit. destruct Hunit as [H1 H2]. apply Qeq_bool_iff in H1. apply Nat.eqb_eq in H2.
    apply pscale_one; assumption.
  Qed.

  (* the sum over one class of the hyperedges on the vertex of u is the Gamma entry *)
  Lemma class_entry : forall q u Y, In q classes ->
    peq (flat_map (fun h => if oeqb oid_eqb (p_cutv hp cs c h) (Some (head_vertex u)) then pscale (coef_of h) Y else []) (snd q))
        (match gamma_entry hp cs c u (snd q) with Some cf => pscale cf Y | None => [] end).
  Proof.
    intros q u Y Hq.
    eapply peq_trans; [apply psum_perm; apply Permutation_rev|].
    rewrite (psum_unique (fun h => pscale (coef_of h) Y)
                         (fun h => oeqb oid_eqb (p_cutv hp cs c h) (Some (head_vertex u))) (rev (snd q))).
    - unfold gamma_entry. destruct (find _ (rev (snd q))); apply peq_refl.
    - intros pre a mid b post Hl Ha Hb.
      unfold cut_distinct in Hdist. rewrite forallb_forall in Hdist. specialize (Hdist q Hq).
      apply nodup_oid_sound in Hdist.
      assert (ND : NoDup (flat_map (fun e => opt_list (p_cutv hp cs c e)) (rev (snd q)))).
      { eapply Permutation_NoDup; [|exact Hdist]. apply Permutation_flat_map. apply Permutation_rev. }
      rewrite Hl in ND.
      assert (Ea : p_cutv hp cs c a = Some (head_vertex u)).
      { destruct (p_cutv hp cs c a) as [y|]; [|discriminate]. cbn [oeqb] in Ha. apply oid_eqb_true in Ha. congruence. }
      assert (Eb : p_cutv hp cs c b = Some (head_vertex u)).
      { destruct (p_cutv hp cs c b) as [y|]; [|discriminate]. cbn [oeqb] in Hb. apply oid_eqb_true in Hb. congruence. }
      eapply (NoDup_flat_map_two _ pre a mid b post (head_vertex u) ND); [rewrite Ea|rewrite Eb]; left; reflexivity.
  Qed.

  Definition M0 : poly :=
    flat_map (fun q => flat_map (fun u =>
      if enters pv (rep_of q)
      then match gamma_entry hp cs c u (snd q) with
           | Some cf => if cnz cf then pscale cf (Xt (rep_of q) u) else []
           | None => []
           end
      else []) us) classes.

  Lemma before_M0 : peq (val s (RNode p cs) pv) M0.
  Proof.
    eapply peq_trans; [apply (two_level s p hp cs c ccs Hc Hrid Hshape pv Hpv)|].
    destruct (classify_spec hp cs c us vsl classes Hcl) as [Hok Hperm].
    eapply peq_trans; [apply psum_perm; apply Permutation_sym; exact Hperm|].
    rewrite flat_map_concat, flat_map_map. unfold M0. apply peq_flat_map. intros q Hq.
    (* inside one class: replace every member by the representative, drop the unit coefficients *)
    apply (peq_trans _ (flat_map (fun h => flat_map (fun u =>
              if enters pv (rep_of q) && oeqb oid_eqb (p_cutv hp cs c h) (Some (head_vertex u))
              then pscale (coef_of h) (Xt (rep_of q) u) else []) us) (snd q))).
    { apply peq_flat_map. intros h Hh. apply peq_flat_map. intros u Hu.
      destruct (class_uniform q h Hq Hh) as [E1 E2]. rewrite E1. fold (Xt h u). rewrite (E2 u).
      destruct (enters pv (rep_of q) && _); [|apply peq_refl].
      apply pscale_peq. apply feq_peq. apply unit_scale. exact Hu. }
    eapply peq_trans; [apply psum_swap|]. apply peq_flat_map. intros u Hu.
    destruct (enters pv (rep_of q)); cbn [andb]; [|rewrite psum_nil; apply peq_refl].
    eapply peq_trans; [apply class_entry; exact Hq|].
    destruct (gamma_entry hp cs c u (snd q)) as [cf|]; [|apply peq_refl].
    destruct (cnz cf) eqn:E; [apply peq_refl | apply pscale_zero; exact E].
  Qed.
End CutBefore.

(* ---- regrouping a double sum over the support along a vertex cover (rows first) -------------- *)
Lemma psum_sub : forall (f : nat -> poly) C m, NoDup C -> (forall a, In a C -> a < m) ->
  peq (flat_map f C) (flat_map (fun a => if mem a C then f a else []) (seq 0 m)).
Proof.
  intros f C m ND Hlt. rewrite <- psum_filter. apply psum_perm. apply NoDup_Permutation; auto.
  - apply NoDup_filter. apply seq_NoDup.
  - intros x. rewrite filter_In, in_seq, mem_In. split; [intros H; split; auto; split; [lia | apply Hlt; auto] | tauto].
Qed.

Lemma cover_split : forall (Z : nat -> nat -> poly) (supp : nat -> nat -> bool) (m n : nat) (Cu Cv : list nat),
  NoDup Cu -> (forall a, In a Cu -> a < m) -> NoDup Cv -> (forall b, In b Cv -> b < n) ->
  (forall a b, a < m -> b < n -> supp a b = true -> In a Cu \/ In b Cv) ->
  peq (flat_map (fun i => flat_map (fun j => Z i j) (filter (supp i) (seq 0 n))) Cu
       ++ flat_map (fun j => flat_map (fun i => Z i j) (filter (fun i => supp i j && negb (mem i Cu)) (seq 0 m))) Cv)
      (flat_map (fun j => flat_map (fun i => if supp i j then Z i j else []) (seq 0 m)) (seq 0 n)).
Proof.
  intros Z supp m n Cu Cv NDu Hu NDv Hv Hcov.
  apply peq_sym. eapply peq_trans; [apply psum_swap|].
  (* split the rows into those of the cover and the others *)
  apply (peq_trans _ (flat_map (fun i => (if mem i Cu then flat_map (fun j => if supp i j then Z i j else []) (seq 0 n) else [])
                                        ++ (if mem i Cu then [] else flat_map (fun j => if supp i j then Z i j else []) (seq 0 n)))
                               (seq 0 m))).
  { apply peq_flat_map. intros i _. destruct (mem i Cu); [rewrite app_nil_r|]; apply peq_refl. }
  eapply peq_trans; [apply psum_add|]. apply peq_app.
  - apply peq_sym. eapply peq_trans; [apply (psum_sub _ Cu m NDu Hu)|].
    apply peq_flat_map. intros i _. destruct (mem i Cu); [|apply peq_refl]. rewrite psum_filter. apply peq_refl.
  - apply peq_sym. eapply peq_trans; [apply (psum_sub _ Cv n NDv Hv)|].
    apply (peq_trans _ (flat_map (fun j => flat_map (fun i => if mem i Cu then [] else if supp i j then Z i j else []) (seq 0 m)) (seq 0 n))).
    + apply peq_flat_map. intros j Hj. apply in_seq in Hj. destruct (mem j Cv) eqn:Ej.
      * rewrite psum_filter. apply peq_flat_map. intros i _. destruct (supp i j), (mem i Cu); apply peq_refl.
      * apply peq_sym. apply psum_nil_peq. intros i Hi. apply in_seq in Hi.
        destruct (mem i Cu) eqn:Ei; [apply peq_refl|]. destruct (supp i j) eqn:Es; [|apply peq_refl].
        exfalso. destruct (Hcov i j) as [H|H]; try lia; auto; apply mem_In in H; congruence.
    + eapply peq_trans; [apply psum_swap|]. apply peq_flat_map. intros i _.
      destruct (mem i Cu); [rewrite psum_nil|]; apply peq_refl.
Qed.

(* ---- numbered placements: pairs on the same vertex ---------------------------------------- *)
Lemma number_pl_ge : forall {A} (L : list (list A)) k w a, In (w, a) (number_pl k L) -> k <= w.
Proof.
  intros A L. induction L as [|l L IH]; intros k w a H; [destruct H|]. cbn [number_pl] in H.
  apply in_app_or in H. destruct H as [H|H].
  - apply in_map_iff in H. destruct H as [b [E _]]. inversion E. lia.
  - apply IH in H. lia.
Qed.

Lemma number_pl_diag : forall {A} (F : A -> A -> poly) (L : list (list A)) k,
  peq (flat_map (fun x => flat_map (fun y => if Nat.eqb (fst x) (fst y) then F (snd x) (snd y) else []) (number_pl k L)) (number_pl k L))
      (flat_map (fun l => flat_map (fun a => flat_map (fun b => F a b) l) l) L).
Proof.
  intros A F L. induction L as [|l L IH]; intros k; [apply peq_refl|]. cbn [number_pl flat_map].
  rewrite flat_map_app. apply peq_app.
  - rewrite flat_map_map. apply peq_flat_map. intros a _. rewrite flat_map_app, flat_map_map. cbn [fst snd].
    eapply peq_trans; [apply peq_app_nil_r|].
    2:{ apply peq_flat_map. intros b _. rewrite Nat.eqb_refl. apply peq_refl. }
    { apply psum_nil_peq. intros [w b] H. apply number_pl_ge in H. cbn [fst snd].
      destruct (Nat.eqb k w) eqn:E; [apply Nat.eqb_eq in E; lia | apply peq_refl]. }
  - eapply peq_trans; [|apply (IH (S k))]. apply peq_flat_map. intros [w a] H. apply number_pl_ge in H.
    rewrite flat_map_app, flat_map_map. cbn [fst snd].
    apply peq_app_nil_l.
    apply psum_nil_peq. intros b _. destruct (Nat.eqb w k) eqn:E; [apply Nat.eqb_eq in E; lia | apply peq_refl].
Qed.

(* ---- resolve: which placements take the hyperedge itself, which a copy ------------------- *)
Definition rkey (x : rpl) : nat * placement := (r_w x, (r_side x, r_ix x, r_cf x)).

Lemma resolve_keys : forall oU oV nU nV pl sU sV q, map rkey (resolve oU oV nU nV pl sU sV q) = pl.
Proof.
  intros oU oV nU nV. induction pl as [|[w [[sd i] cf]] pl IH]; intros sU sV q; [reflexivity|].
  cbn [resolve]. destruct sd.
  - destruct (mem i sU); cbn [map]; rewrite IH; reflexivity.
  - destruct (mem i sV); cbn [map]; rewrite IH; reflexivity.
Qed.

Lemma filter_split_perm : forall {A} (f g : A -> bool) l,
  Permutation (filter f l) (filter (fun x => f x && negb (g x)) l ++ filter (fun x => f x && g x) l).
Proof.
  intros A f g l. induction l as [|a l IH]; [constructor|]. cbn [filter].
  destruct (f a), (g a); cbn [andb negb app]; auto.
  - eapply perm_trans; [apply perm_skip; exact IH|]. apply Permutation_middle.
Qed.

Lemma NoDup_map_inj : forall {A B} (f : A -> B) l a b, NoDup (map f l) -> In a l -> In b l -> f a = f b -> a = b.
Proof.
  intros A B f l. induction l as [|x l IH]; intros a b ND Ha Hb E; [destruct Ha|].
  cbn [map] in ND. inversion ND as [|? ? Hn ND']; subst.
  destruct Ha as [Ha|Ha], Hb as [Hb|Hb]; try congruence.
  - subst x. exfalso. apply Hn. rewrite E. apply in_map. exact Hb.
  - subst x. exfalso. apply Hn. rewrite <- E. apply in_map. exact Ha.
  - apply IH; auto.
Qed.

Lemma side_eqb_true : forall a b, side_eqb a b = true -> a = b.
Proof. intros [] [] H; auto; discriminate. Qed.

(* the entries that are no copies have pairwise distinct indices (per side), outside `seen` *)
Lemma resolve_firsts : forall oU oV nU nV pl sU sV q,
  let rs := resolve oU oV nU nV pl sU sV q in
  NoDup (map r_ix (filter (is_pl SU false) rs)) /\ (forall x, In x (filter (is_pl SU false) rs) -> ~ In (r_ix x) sU) /\
  NoDup (map r_ix (filter (is_pl SV false) rs)) /\ (forall x, In x (filter (is_pl SV false) rs) -> ~ In (r_ix x) sV).
Proof.
  intros oU oV nU nV. induction pl as [|[w [[sd i] cf]] pl IH]; intros sU sV q rs.
  - repeat split; try constructor; intros x [].
  - subst rs. cbn [resolve]. destruct sd.
    + destruct (mem i sU) eqn:E.
      * cbn [filter is_pl r_side r_copy side_eqb Bool.eqb andb]. apply IH.
      * destruct (IH (i :: sU) sV q) as (A1 & A2 & A3 & A4).
        cbn [filter is_pl r_side r_copy side_eqb Bool.eqb andb map r_ix]. repeat split; auto.
        -- constructor; auto. intros Hin. apply in_map_iff in Hin. destruct Hin as [x [Ex Hx]].
           apply (A2 x Hx). left. auto.
        -- intros x [Hx|Hx]; [subst x; cbn [r_ix]; apply mem_false; exact E|].
           intros Hin. apply (A2 x Hx). right. exact Hin.
    + destruct (mem i sV) eqn:E.
      * cbn [filter is_pl r_side r_copy side_eqb Bool.eqb andb]. apply IH.
      * destruct (IH sU (i :: sV) q) as (A1 & A2 & A3 & A4).
        cbn [filter is_pl r_side r_copy side_eqb Bool.eqb andb map r_ix]. repeat split; auto.
        -- constructor; auto. intros Hin. apply in_map_iff in Hin. destruct Hin as [x [Ex Hx]].
           apply (A4 x Hx). left. auto.
        -- intros x [Hx|Hx]; [subst x; cbn [r_ix]; apply mem_false; exact E|].
           intros Hin. apply (A4 x Hx). right. exact Hin.
Qed.

(* the hyperedges of one side after the step, in the model's order (the originals by index, then the
   copies in creation order), are a permutation of all resolved placements of that side *)
Lemma firsts_copies_perm : forall (sd_ : side) (rs : list rpl) (k : nat),
  NoDup (map r_ix (filter (is_pl sd_ false) rs)) ->
  (forall x, In x rs -> r_side x = sd_ -> r_ix x < k) ->
  (forall i, i < k -> exists x, first_pl sd_ i rs = Some x) ->
  exists firsts, (forall i, i < k -> first_pl sd_ i rs = Some (nth i firsts (mkR 0 SU 0 cone false (0,0)))) /\
                 length firsts = k /\
                 Permutation (firsts ++ filter (is_pl sd_ true) rs) (filter (fun x => side_eqb (r_side x) sd_) rs).
Proof.
  intros sd_ rs k ND Hlt Hex.
  set (d := mkR 0 SU 0 cone false (0,0)).
  set (firsts := map (fun i => match first_pl sd_ i rs with Some x => x | None => d end) (seq 0 k)).
  exists firsts. split; [|split].
  - intros i Hi. unfold firsts. rewrite (nth_indep _ d (match first_pl sd_ 0 rs with Some x => x | None => d end)) by (rewrite map_length, seq_length; exact Hi).
    rewrite (map_nth (fun i => match first_pl sd_ i rs with Some x => x | None => d end) (seq 0 k) 0 i), seq_nth by exact Hi.
    cbn [plus]. destruct (Hex i Hi) as [x Hx]. rewrite Hx. reflexivity.
  - unfold firsts. rewrite map_length, seq_length. reflexivity.
  - eapply perm_trans; [|apply Permutation_sym; apply (filter_split_perm (fun x => side_eqb (r_side x) sd_) r_copy rs)].
    assert (E1 : filter (fun x => side_eqb (r_side x) sd_ && r_copy x) rs = filter (is_pl sd_ true) rs).
    { apply filter_ext. intros x. unfold is_pl. destruct (r_copy x); reflexivity. }
    assert (E2 : filter (fun x => side_eqb (r_side x) sd_ && negb (r_copy x)) rs = filter (is_pl sd_ false) rs).
    { apply filter_ext. intros x. unfold is_pl. destruct (r_copy x); reflexivity. }
    rewrite E1, E2. apply Permutation_app_tail.
    assert (Hfirst : forall i x, first_pl sd_ i rs = Some x -> In x (filter (is_pl sd_ false) rs) /\ r_ix x = i).
    { intros i x H. unfold first_pl in H. apply find_some in H. destruct H as [H1 H2]. apply andb_true_iff in H2.
      destruct H2 as [H2 H3]. apply Nat.eqb_eq in H3. split; auto. apply filter_In. auto. }
    assert (Hg : forall i, In i (seq 0 k) -> r_ix (match first_pl sd_ i rs with Some x => x | None => d end) = i).
    { intros i Hi. apply in_seq in Hi. destruct (Hex i) as [x Hx]; [lia|]. rewrite Hx. apply (Hfirst i x Hx). }
    apply NoDup_Permutation.
    + apply (NoDup_map_inv r_ix). unfold firsts. rewrite map_map.
      rewrite (map_ext_in _ (fun i => i) _ Hg), map_id. apply seq_NoDup.
    + eapply NoDup_map_inv. exact ND.
    + intros x. split.
      * intros Hx. unfold firsts in Hx. apply in_map_iff in Hx. destruct Hx as [i [Ei Hi]].
        apply in_seq in Hi. destruct (Hex i) as [y Hy]; [lia|]. rewrite Hy in Ei. subst y. apply (Hfirst i x Hy).
      * intros Hx. pose proof Hx as Hx'. apply filter_In in Hx'. destruct Hx' as [Hrs Hpl].
        unfold is_pl in Hpl. apply andb_true_iff in Hpl. destruct Hpl as [Hs _]. apply side_eqb_true in Hs.
        pose proof (Hlt x Hrs Hs) as Hk. destruct (Hex (r_ix x) Hk) as [y Hy].
        destruct (Hfirst _ y Hy) as [Hy1 Hy2].
        assert (y = x) by (eapply (NoDup_map_inj r_ix); eauto). subst y.
        unfold firsts. apply in_map_iff. exists (r_ix x). split; [rewrite Hy; reflexivity | apply in_seq; lia].
Qed.

(* ---- the cover returned by the verified minimum_vertex_cover ------------------------------- *)
Lemma gedges_in : forall G m n i j, In (i, j) (gedges G m n) <-> i < m /\ j < n /\ gsupp G i j = true.
Proof.
  intros G m n i j. unfold gedges. rewrite in_flat_map. split.
  - intros [i' [Hi' H]]. apply in_flat_map in H. destruct H as [j' [Hj' H]].
    destruct (gsupp G i' j') eqn:E; [|destruct H]. destruct H as [H|[]]. inversion H; subst.
    apply in_seq in Hi'. apply in_seq in Hj'. repeat split; auto; lia.
  - intros (Hi & Hj & Hs). exists i. split; [apply in_seq; lia|]. apply in_flat_map. exists j.
    split; [apply in_seq; lia|]. rewrite Hs. left. reflexivity.
Qed.

Lemma mvc_cover_facts : forall G m n r, B.mvc (B.mk_graph m n (gedges G m n)) = Some r ->
  NoDup (B.r_ucover r) /\ (forall a, In a (B.r_ucover r) -> a < m) /\
  NoDup (B.r_vcover r) /\ (forall b, In b (B.r_vcover r) -> b < n) /\
  (forall a b, a < m -> b < n -> gsupp G a b = true -> In a (B.r_ucover r) \/ In b (B.r_vcover r)).
Proof.
  intros G m n r H.
  assert (Hok : PTN.Bip.ModelProofs.edges_ok m n (gedges G m n)).
  { intros u v Hin. apply gedges_in in Hin. tauto. }
  destruct (PTN.Bip.ModelProofs.mvc_main m n (gedges G m n) Hok) as (r' & E & _ & _ & _ & R1 & R2 & R3 & R4 & Hc & _).
  fold B.mvc B.mk_graph in E. unfold B.mvc, B.mk_graph in H, E. rewrite E in H. inversion H; subst r'.
  repeat split; auto. intros a b Ha Hb Hs. apply Hc. apply gedges_in. auto.
Qed.

(* ---- the pairs (V placement, U placement) on one new vertex -------------------------------- *)
Section Fpl.
  Variables (en : nat -> bool) (X : nat -> nat -> poly).
  Definition Fpl (a b : placement) : poly :=
    match a, b with
    | (SV, j, cf), (SU, i, cf') => if en j then pscale cf (pscale cf' (X j i)) else []
    | _, _ => []
    end.
  Definition Hsum (l : list placement) : poly := flat_map (fun a => flat_map (fun b => Fpl a b) l) l.

  Lemma Fpl_SU_l : forall i cf b, Fpl (SU, i, cf) b = [].
  Proof. intros. reflexivity. Qed.
  Lemma Fpl_SV_r : forall a j cf, Fpl a (SV, j, cf) = [].
  Proof. intros [[[] i] c] j cf; reflexivity. Qed.

  Lemma Hsum_row : forall i c0 (g : nat -> coefq) js,
    Hsum ((SU, i, c0) :: map (fun j => (SV, j, g j)) js)
    = flat_map (fun j => if en j then pscale (g j) (pscale c0 (X j i)) else []) js.
  Proof.
    intros i c0 g js. unfold Hsum. rewrite fm_cons.
    rewrite (flat_map_nil_all (fun b => Fpl (SU, i, c0) b)) by (intros; apply Fpl_SU_l).
    cbn [app]. rewrite flat_map_map. apply flat_map_ext_in. intros j _. rewrite fm_cons.
    rewrite (flat_map_nil_all _ (map _ js)).
    - rewrite app_nil_r. reflexivity.
    - intros b Hb. apply in_map_iff in Hb. destruct Hb as [j' [E _]]. subst b. apply Fpl_SV_r.
  Qed.
  Lemma Hsum_col : forall j c0 (g : nat -> coefq) i0 r,
    Hsum ((SU, i0, g i0) :: (SV, j, c0) :: map (fun i => (SU, i, g i)) r)
    = flat_map (fun i => if en j then pscale c0 (pscale (g i) (X j i)) else []) (i0 :: r).
  Proof.
    intros j c0 g i0 r. unfold Hsum. rewrite fm_cons.
    rewrite (flat_map_nil_all (fun b => Fpl (SU, i0, g i0) b)) by (intros; apply Fpl_SU_l).
    cbn [app]. rewrite fm_cons. rewrite (flat_map_nil_all _ (map (fun i => (SU, i, g i)) r)).
    - rewrite app_nil_r. rewrite !fm_cons. rewrite Fpl_SV_r. cbn [app]. rewrite flat_map_map. reflexivity.
    - intros a Ha. apply in_map_iff in Ha. destruct Ha as [i [E _]]. subst a.
      apply flat_map_nil_all. intros; apply Fpl_SU_l.
  Qed.
  Lemma Hsum_nil : Hsum [] = [].
  Proof. reflexivity. Qed.
End Fpl.

Lemma pscale_cone : forall Y, feq (pscale cone Y) Y.
Proof. intros. apply pscale_one; reflexivity. Qed.

Section Placements.
  Variables (en : nat -> bool) (X : nat -> nat -> poly).
  Variables (G : list (list (option coefq))) (m n : nat) (Cu Cv : list nat).
  Hypothesis HCu : NoDup Cu /\ forall a, In a Cu -> a < m.
  Hypothesis HCv : NoDup Cv /\ forall b, In b Cv -> b < n.
  Hypothesis Hcov : forall a b, a < m -> b < n -> gsupp G a b = true -> In a Cu \/ In b Cv.

  Definition Zt (i j : nat) : poly := if en j then pscale (gcoef G i j) (X j i) else [].
  Definition Mform : poly :=
    flat_map (fun j => flat_map (fun i => if gsupp G i j then Zt i j else []) (seq 0 m)) (seq 0 n).

  Lemma Hsum_row_pl : forall i,
    peq (Hsum en X (row_pl G n i)) (flat_map (fun j => Zt i j) (filter (gsupp G i) (seq 0 n))).
  Proof.
    intros i. unfold row_pl. destruct (filter (gsupp G i) (seq 0 n)) as [|j0 js] eqn:E; [apply peq_refl|].
    rewrite (Hsum_row en X i cone (fun j => gcoef G i j) (j0 :: js)).
    apply peq_flat_map. intros j _. unfold Zt. destruct (en j); [|apply peq_refl].
    apply pscale_peq. apply feq_peq. apply pscale_cone.
  Qed.
  Lemma Hsum_col_pl : forall j,
    peq (Hsum en X (col_pl G m Cu j))
        (flat_map (fun i => Zt i j) (filter (fun i => gsupp G i j && negb (mem i Cu)) (seq 0 m))).
  Proof.
    intros j. unfold col_pl. destruct (filter _ (seq 0 m)) as [|i0 r] eqn:E; [apply peq_refl|].
    rewrite (Hsum_col en X j cone (fun i => gcoef G i j) i0 r).
    apply peq_flat_map. intros i _. unfold Zt. destruct (en j); [|apply peq_refl].
    apply feq_peq. apply pscale_cone.
  Qed.

  Lemma placements_sum : peq (flat_map (Hsum en X) (new_vertices_pl G m n Cu Cv)) Mform.
  Proof.
    unfold new_vertices_pl. rewrite psum_filter.
    rewrite (flat_map_ext _ (Hsum en X)) by (intros [|a l]; reflexivity).
    rewrite flat_map_app, !flat_map_map.
    eapply peq_trans; [apply peq_app; apply peq_flat_map; intros; [apply Hsum_row_pl | apply Hsum_col_pl]|].
    destruct HCu as [N1 R1]. destruct HCv as [N2 R2].
    apply (cover_split Zt (gsupp G) m n Cu Cv N1 R1 N2 R2 Hcov).
  Qed.
End Placements.

(* ---- the hyperedges after the step ---------------------------------------------------------- *)
Lemma set_at_length : forall cs c w vs, length (set_at cs c w vs) = length vs.
Proof.
  induction cs as [|k cs IH]; intros c w vs; destruct vs as [|y vs]; cbn [set_at]; auto.
  destruct (Nat.eqb (rid k) c); cbn [length]; auto.
Qed.
Lemma slot_set_at : forall cs c w vs y, slot_vertex cs c vs = Some y -> slot_vertex cs c (set_at cs c w vs) = Some w.
Proof.
  induction cs as [|k cs IH]; intros c w vs y H; destruct vs as [|z vs]; cbn [slot_vertex set_at] in *; try discriminate.
  destruct (Nat.eqb (rid k) c) eqn:E; cbn [slot_vertex]; rewrite ?E; eauto.
Qed.
Lemma drop_set_at : forall cs c w vs, drop_at cs c (set_at cs c w vs) = drop_at cs c vs.
Proof.
  induction cs as [|k cs IH]; intros c w vs; destruct vs as [|z vs]; cbn [drop_at set_at]; auto.
  destruct (Nat.eqb (rid k) c) eqn:E; cbn [drop_at]; rewrite ?E; auto. rewrite IH. reflexivity.
Qed.
Lemma number_pl_in : forall {A} (L : list (list A)) k w a, In (w, a) (number_pl k L) -> exists l, In l L /\ In a l.
Proof.
  intros A L. induction L as [|l L IH]; intros k w a H; [destruct H|]. cbn [number_pl] in H.
  apply in_app_or in H. destruct H as [H|H].
  - apply in_map_iff in H. destruct H as [b [E Hb]]. inversion E; subst. exists l. split; [left; reflexivity | exact Hb].
  - destruct (IH _ _ _ H) as [l' [H1 H2]]. exists l'. split; [right; exact H1 | exact H2].
Qed.
Lemma vn_eqb : forall c fr a b, oid_eqb (vertex_name c fr a) (vertex_name c fr b) = Nat.eqb a b.
Proof.
  intros. unfold vertex_name, oid_eqb. cbn [fst snd]. rewrite Nat.eqb_refl, andb_true_r.
  destruct (Nat.eqb a b) eqn:E.
  - apply Nat.eqb_eq in E. subst. apply Nat.eqb_refl.
  - apply Nat.eqb_neq. apply Nat.eqb_neq in E. lia.
Qed.

Lemma TT_agree : forall s s' c cs ccs lab ws labu cvs, NoDup (map rid cs) ->
  (forall k v, In k cs -> rid k <> c -> In v (ids k) -> hes_at v s' = hes_at v s) ->
  (forall g v, In g ccs -> In v (ids g) -> hes_at v s' = hes_at v s) ->
  TT s' c cs ccs lab ws labu cvs = TT s c cs ccs lab ws labu cvs.
Proof.
  intros s s' c cs ccs lab ws labu cvs ND H1 H2. unfold TT, Eterm. f_equal.
  rewrite (holed_ext (DD s') (DD s) c cs ws); auto.
  - f_equal. f_equal. apply prodc_ext. intros g y Hg _. unfold DD. apply val_agree. intros v Hv. eapply H2; eauto.
  - intros k y Hk Hne. unfold DD. apply val_agree. intros v Hv. eapply H1; eauto.
Qed.

Definition dq : vclass := ((0, [], None), []).
Definition dR : rpl := mkR 0 SU 0 cone false (0, 0).

Section CutAfter.
  Variables (s : list he) (p : nat) (hp : bool) (cs : list rtree) (c : nat) (ccs : list rtree) (fr : nat).
  Hypothesis Hc : In (RNode c ccs) cs.
  Hypothesis Hrid : NoDup (map rid cs).
  Hypothesis Hshape : cut_shape p hp cs c (length ccs) s = true.
  Hypothesis Hpc : p <> c.
  Hypothesis Htree1 : forall k v, In k cs -> rid k <> c -> In v (ids k) -> v <> p /\ v <> c.
  Hypothesis Htree2 : forall g v, In g ccs -> In v (ids g) -> v <> p /\ v <> c.
  Variable classes : list vclass.
  Hypothesis Hcl : classify hp cs c (hes_at c s) (hes_at p s) = Some classes.
  Variables Cu Cv : list nat.
  Let us := hes_at c s.
  Let vsl := hes_at p s.
  Let m := length us.
  Let n := length classes.
  Let G := gamma hp cs c us classes.
  Let reps := map (fun q => hd dummy_he (snd q)) classes.
  Hypothesis HCu : NoDup Cu /\ forall a, In a Cu -> a < m.
  Hypothesis HCv : NoDup Cv /\ forall b, In b Cv -> b < n.
  Hypothesis Hcov : forall a b, a < m -> b < n -> gsupp G a b = true -> In a Cu \/ In b Cv.
  Let nv := new_vertices_pl G m n Cu Cv.
  Variable rs : list rpl.
  Hypothesis Hkeys : map rkey rs = number_pl 0 nv.
  Hypothesis HfU : NoDup (map r_ix (filter (is_pl SU false) rs)).
  Hypothesis HfV : NoDup (map r_ix (filter (is_pl SV false) rs)).
  Hypothesis HgU : forall i, i < m -> exists x, first_pl SU i rs = Some x.
  Hypothesis HgV : forall j, j < n -> exists x, first_pl SV j rs = Some x.
  Let PU (x : rpl) : he := place_u c fr (nth (r_ix x) us dummy_he) x.
  Let PV (x : rpl) : he := place_v p hp cs c fr (nth (r_ix x) reps dummy_he) x.
  Variable s' : list he.
  Hypothesis Hp' : hes_at p s' =
    map (fun j => match first_pl SV j rs with Some x => place_v p hp cs c fr (nth j reps dummy_he) x | None => dummy_he end) (seq 0 n)
    ++ map PV (filter (is_pl SV true) rs).
  Hypothesis Hc' : hes_at c s' =
    map (fun i => match first_pl SU i rs with Some x => place_u c fr (nth i us dummy_he) x | None => dummy_he end) (seq 0 m)
    ++ map PU (filter (is_pl SU true) rs).
  Hypothesis Hother : forall v, v <> p -> v <> c -> hes_at v s' = hes_at v s.
  Variable pv : option oid.
  Hypothesis Hpv : is_some pv = hp.

  Lemma rep_in : forall j, j < n -> In (nth j reps dummy_he) vsl.
  Proof.
    intros j Hj. unfold reps. change dummy_he with ((fun q : vclass => hd dummy_he (snd q)) dq). rewrite map_nth.
    assert (Hq : In (nth j classes dq) classes) by (apply nth_In; exact Hj).
    eapply (class_members s p hp cs c classes Hcl); [exact Hq|]. apply (class_rep_in s p hp cs c classes Hcl). exact Hq.
  Qed.
  Lemma u_in : forall i, i < m -> In (nth i us dummy_he) us.
  Proof. intros. apply nth_In. assumption. Qed.

  Lemma rs_range : forall x, In x rs -> (r_side x = SU -> r_ix x < m) /\ (r_side x = SV -> r_ix x < n).
  Proof.
    intros x Hx. assert (Hk : In (rkey x) (number_pl 0 nv)) by (rewrite <- Hkeys; apply in_map; exact Hx).
    unfold rkey in Hk. apply number_pl_in in Hk. destruct Hk as [l [Hl Ha]].
    unfold nv, new_vertices_pl in Hl. apply filter_In in Hl. destruct Hl as [Hl _].
    destruct HCu as [_ R1]. destruct HCv as [_ R2].
    apply in_app_or in Hl. destruct Hl as [Hl|Hl]; apply in_map_iff in Hl; destruct Hl as [k [El Hk]]; subst l.
    - unfold row_pl in Ha. destruct (filter (gsupp G k) (seq 0 n)) as [|j0 js] eqn:E; [destruct Ha|].
      destruct Ha as [Ha|Ha].
      + inversion Ha. split; intros Hs; [apply R1; congruence | congruence].
      + apply in_map_iff in Ha. destruct Ha as [j [Ej Hj]]. inversion Ej. split; intros Hs; [congruence|].
        assert (Hin : In j (filter (gsupp G k) (seq 0 n))) by (rewrite E; exact Hj).
        apply filter_In in Hin. destruct Hin as [Hin _]. apply in_seq in Hin. lia.
    - unfold col_pl in Ha. destruct (filter _ (seq 0 m)) as [|i0 r] eqn:E; [destruct Ha|].
      assert (Hr : forall i, In i (i0 :: r) -> i < m).
      { intros i Hi. rewrite <- E in Hi. apply filter_In in Hi. destruct Hi as [Hi _]. apply in_seq in Hi. lia. }
      destruct Ha as [Ha|[Ha|Ha]].
      + inversion Ha. split; intros Hs; [apply Hr; left; congruence | congruence].
      + inversion Ha. split; intros Hs; [congruence | apply R2; congruence].
      + apply in_map_iff in Ha. destruct Ha as [i [Ei Hi]]. inversion Ei. split; intros Hs; [|congruence].
        apply Hr. right. congruence.
  Qed.

  (* what a placed hyperedge looks like *)
  Lemma PV_facts : forall x, r_ix x < n ->
    hnode (PV x) = p /\ enters pv (PV x) = enters pv (nth (r_ix x) reps dummy_he) /\
    p_cutv hp cs c (PV x) = Some (vertex_name c fr (r_w x)) /\
    drop_at cs c (child_part hp (PV x)) = drop_at cs c (child_part hp (nth (r_ix x) reps dummy_he)) /\
    length (hverts (PV x)) = length (hverts (nth (r_ix x) reps dummy_he)) /\
    coef_of (PV x) = r_cf x /\ hlabel (PV x) = hlabel (nth (r_ix x) reps dummy_he).
  Proof.
    intros x Hx. set (v := nth (r_ix x) reps dummy_he). assert (Hv : In v vsl) by (apply rep_in; exact Hx).
    destruct (shape_v s p hp cs c ccs Hshape v Hv) as [L N].
    destruct (shape_slot s p hp cs c ccs Hc Hshape v Hv) as [y Hy].
    unfold PV. fold v. unfold place_v, p_cutv, child_part, enters, coef_of, p_set in *. cbn [hnode hverts hlam hgam hlabel].
    split; [reflexivity|]. destruct hp.
    - specialize (N eq_refl). destruct (hverts v) as [|q r]; [contradiction|]. cbn [tl length] in *.
      rewrite drop_set_at, set_at_length. rewrite (slot_set_at _ _ _ _ _ Hy).
      destruct pv as [z|]; [|discriminate]. destruct (r_cf x). repeat split; reflexivity.
    - cbn [tl length] in *. rewrite drop_set_at, set_at_length, (slot_set_at _ _ _ _ _ Hy).
      destruct pv as [z|]; [discriminate|]. destruct (r_cf x). repeat split; reflexivity.
  Qed.
  Lemma PU_facts : forall x, r_ix x < m ->
    hnode (PU x) = c /\ head_vertex (PU x) = vertex_name c fr (r_w x) /\
    tl (hverts (PU x)) = tl (hverts (nth (r_ix x) us dummy_he)) /\
    length (hverts (PU x)) = length (hverts (nth (r_ix x) us dummy_he)) /\
    coef_of (PU x) = r_cf x /\ hlabel (PU x) = hlabel (nth (r_ix x) us dummy_he).
  Proof.
    intros x Hx. set (u := nth (r_ix x) us dummy_he). assert (Hu : In u us) by (apply u_in; exact Hx).
    destruct (shape_u s p hp cs c ccs Hshape u Hu) as [q [r Eu]].
    unfold PU. fold u. unfold place_u, head_vertex, coef_of. cbn [hnode hverts hlam hgam hlabel tl].
    rewrite Eu. cbn [tl length]. destruct (r_cf x). repeat split; reflexivity.
  Qed.

  Definition en_ (j : nat) : bool := enters pv (nth j reps dummy_he).
  Definition X_ (j i : nat) : poly := Xt s hp cs c ccs (nth j reps dummy_he) (nth i us dummy_he).

  (* the lists of hyperedges of the two nodes after the step *)
  Lemma after_lists : exists LV LU,
    hes_at p s' = map PV LV /\ hes_at c s' = map PU LU /\
    Permutation LV (filter (fun x => side_eqb (r_side x) SV) rs) /\
    Permutation LU (filter (fun x => side_eqb (r_side x) SU) rs).
  Proof.
    destruct (firsts_copies_perm SV rs n HfV) as [fV [FV1 [FV2 FV3]]]; auto.
    { intros x Hx Hs. apply (rs_range x Hx). exact Hs. }
    destruct (firsts_copies_perm SU rs m HfU) as [fU [FU1 [FU2 FU3]]]; auto.
    { intros x Hx Hs. apply (rs_range x Hx). exact Hs. }
    exists (fV ++ filter (is_pl SV true) rs), (fU ++ filter (is_pl SU true) rs).
    split; [|split; [|split; assumption]].
    - rewrite Hp', map_app. f_equal. rewrite (map_nth_seq' dR fV) at 1. rewrite FV2, map_map.
      apply map_ext_in. intros j Hj. apply in_seq in Hj. rewrite (FV1 j) by lia. unfold PV.
      assert (E : r_ix (nth j fV dR) = j).
      { pose proof (FV1 j) as H. unfold first_pl in H. specialize (H ltac:(lia)). apply find_some in H.
        destruct H as [_ H]. apply andb_true_iff in H. destruct H as [_ H]. apply Nat.eqb_eq in H. exact H. }
      rewrite E. reflexivity.
    - rewrite Hc', map_app. f_equal. rewrite (map_nth_seq' dR fU) at 1. rewrite FU2, map_map.
      apply map_ext_in. intros i Hi. apply in_seq in Hi. rewrite (FU1 i) by lia. unfold PU.
      assert (E : r_ix (nth i fU dR) = i).
      { pose proof (FU1 i) as H. unfold first_pl in H. specialize (H ltac:(lia)). apply find_some in H.
        destruct H as [_ H]. apply andb_true_iff in H. destruct H as [_ H]. apply Nat.eqb_eq in H. exact H. }
      rewrite E. reflexivity.
  Qed.

  Lemma shape_after : forall LV LU, hes_at p s' = map PV LV -> hes_at c s' = map PU LU ->
    (forall x, In x LV -> r_ix x < n) -> (forall x, In x LU -> r_ix x < m) ->
    cut_shape p hp cs c (length ccs) s' = true.
  Proof.
    intros LV LU E1 E2 R1 R2. pose proof Hshape as Hs0. unfold cut_shape in Hs0 |- *. rewrite E1, E2.
    apply andb_true_iff in Hs0. destruct Hs0 as [S1 S2]. rewrite forallb_forall in S1, S2.
    apply andb_true_iff. split; apply forallb_forall; intros h Hh; apply in_map_iff in Hh; destruct Hh as [x [Eh Hx]]; subst h.
    - destruct (PU_facts x (R2 x Hx)) as (_ & _ & _ & L & _). rewrite L. apply S1. apply u_in. apply R2. exact Hx.
    - destruct (PV_facts x (R1 x Hx)) as (_ & _ & _ & _ & L & _). rewrite L. apply S2. apply rep_in. apply R1. exact Hx.
  Qed.

  Definition Kk (a b : nat * placement) : poly :=
    if Nat.eqb (fst a) (fst b) then Fpl en_ X_ (snd a) (snd b) else [].

  Lemma after_Mform : peq (val s' (RNode p cs) pv) (Mform en_ X_ G m n).
  Proof.
    destruct after_lists as [LV [LU [E1 [E2 [P1 P2]]]]].
    assert (RV : forall x, In x LV -> In x rs /\ r_side x = SV /\ r_ix x < n).
    { intros x Hx. apply (Permutation_in _ P1) in Hx. apply filter_In in Hx. destruct Hx as [Hx Hs].
      apply side_eqb_true in Hs. repeat split; auto. apply (rs_range x Hx). exact Hs. }
    assert (RU : forall x, In x LU -> In x rs /\ r_side x = SU /\ r_ix x < m).
    { intros x Hx. apply (Permutation_in _ P2) in Hx. apply filter_In in Hx. destruct Hx as [Hx Hs].
      apply side_eqb_true in Hs. repeat split; auto. apply (rs_range x Hx). exact Hs. }
    assert (Hsh' : cut_shape p hp cs c (length ccs) s' = true).
    { apply (shape_after LV LU E1 E2); intros x Hx; [apply (RV x Hx) | apply (RU x Hx)]. }
    assert (HT : forall lab ws labu cvs, TT s' c cs ccs lab ws labu cvs = TT s c cs ccs lab ws labu cvs).
    { intros. apply TT_agree; [exact Hrid | intros k v Hk Hne Hv; destruct (Htree1 k v Hk Hne Hv); apply Hother; auto
                               | intros g v Hg Hv; destruct (Htree2 g v Hg Hv); apply Hother; auto]. }
    eapply peq_trans; [apply (two_level s' p hp cs c ccs Hc Hrid Hsh' pv Hpv)|].
    rewrite E1, E2, flat_map_map.
    (* the summand of a pair of placed hyperedges *)
    apply (peq_trans _ (flat_map (fun x => flat_map (fun y => Kk (rkey x) (rkey y)) LU) LV)).
    { apply peq_flat_map. intros x Hx. rewrite flat_map_map. apply peq_flat_map. intros y Hy.
      destruct (RV x Hx) as (_ & SVx & Rx). destruct (RU y Hy) as (_ & SUy & Ry).
      destruct (PV_facts x Rx) as (_ & A2 & A3 & A4 & _ & A6 & A7).
      destruct (PU_facts y Ry) as (_ & B2 & B3 & _ & B5 & B6).
      rewrite A2, A3, A4, A6, A7, B2, B3, B5, B6. cbn [oeqb]. rewrite vn_eqb.
      rewrite HT.
      unfold Kk, rkey. cbn [fst snd]. rewrite SVx, SUy. cbn [Fpl]. unfold en_, X_, Xt.
      destruct (enters pv (nth (r_ix x) reps dummy_he)), (Nat.eqb (r_w x) (r_w y)); apply peq_refl. }
    (* all resolved placements *)
    apply (peq_trans _ (flat_map (fun x => flat_map (fun y => Kk (rkey x) (rkey y)) rs) rs)).
    { eapply peq_trans; [apply psum_perm; exact P1|]. rewrite psum_filter.
      apply peq_flat_map. intros x Hx. destruct (side_eqb (r_side x) SV) eqn:Sx.
      - eapply peq_trans; [apply psum_perm; exact P2|]. rewrite psum_filter.
        apply peq_flat_map. intros y Hy. destruct (side_eqb (r_side y) SU) eqn:Sy; [apply peq_refl|].
        unfold Kk, rkey. cbn [fst snd]. destruct (r_side y); [discriminate|].
        rewrite Fpl_SV_r. destruct (Nat.eqb _ _); apply peq_refl.
      - apply peq_sym. apply psum_nil_peq. intros y _. unfold Kk, rkey. cbn [fst snd].
        destruct (r_side x); [|discriminate]. rewrite Fpl_SU_l. destruct (Nat.eqb _ _); apply peq_refl. }
    rewrite <- (flat_map_map rkey (fun a => flat_map (fun y => Kk a (rkey y)) rs) rs).
    rewrite (flat_map_ext (fun a => flat_map (fun y => Kk a (rkey y)) rs)
                          (fun a => flat_map (fun b => Kk a b) (map rkey rs)))
      by (intros a; rewrite flat_map_map; reflexivity).
    rewrite Hkeys. unfold Kk.
    eapply peq_trans; [apply (number_pl_diag (Fpl en_ X_) nv 0)|].
    apply (placements_sum en_ X_ G m n Cu Cv HCu HCv Hcov).
  Qed.
End CutAfter.

(* ---- the two normal forms coincide ----------------------------------------------------------- *)
Lemma nth_map_lt : forall {A B} (f : A -> B) l d d' i, i < length l -> nth i (map f l) d' = f (nth i l d).
Proof.
  intros A B f l d d'. induction l as [|a l IH]; intros i Hi; [cbn in Hi; lia|].
  destruct i as [|i]; [reflexivity|]. cbn [map nth]. apply IH. cbn in Hi. lia.
Qed.
Lemma gentry_gamma : forall hp cs c us classes i j, i < length us -> j < length classes ->
  gentry (gamma hp cs c us classes) i j = gamma_entry hp cs c (nth i us dummy_he) (snd (nth j classes dq)).
Proof.
  intros hp cs c us classes i j Hi Hj. unfold gentry, gamma.
  rewrite (nth_map_lt _ us dummy_he [] i Hi). rewrite (nth_map_lt _ classes dq None j Hj). reflexivity.
Qed.

Lemma M0_Mform : forall s hp cs c ccs classes pv,
  M0 s hp cs c ccs classes pv
  = Mform (en_ classes pv) (X_ s hp cs c ccs classes) (gamma hp cs c (hes_at c s) classes)
          (length (hes_at c s)) (length classes).
Proof.
  intros. unfold M0, Mform. rewrite (flat_map_nth_seq _ dq classes). apply flat_map_ext_in. intros j Hj.
  rewrite (flat_map_nth_seq _ dummy_he (hes_at c s)). apply flat_map_ext_in. intros i Hi.
  apply in_seq in Hj. apply in_seq in Hi.
  unfold Zt, gsupp, gcoef. rewrite gentry_gamma by lia. unfold en_, X_, rep_of.
  pose proof (nth_map_lt (fun q : vclass => hd dummy_he (snd q)) classes dq dummy_he j ltac:(lia)) as E.
  cbv beta in E. unfold vclass in E. rewrite E.
  destruct (gamma_entry _ _ _ _ _) as [cf|]; [|destruct (enters _ _); reflexivity].
  destruct (cnz cf), (enters pv _); reflexivity.
Qed.

Lemma filter_all : forall {A} (f : A -> bool) l, (forall x, In x l -> f x = true) -> filter f l = l.
Proof.
  intros A f l H. induction l as [|a l IH]; [reflexivity|]. cbn [filter]. rewrite (H a (or_introl eq_refl)).
  f_equal. apply IH. intros; apply H; right; assumption.
Qed.
Lemma filter_none : forall {A} (f : A -> bool) l, (forall x, In x l -> f x = false) -> filter f l = [].
Proof.
  intros A f l H. induction l as [|a l IH]; [reflexivity|]. cbn [filter]. rewrite (H a (or_introl eq_refl)).
  apply IH. intros; apply H; right; assumption.
Qed.
Lemma filter_filter_and : forall {A} (f g : A -> bool) l, filter f (filter g l) = filter (fun x => g x && f x) l.
Proof.
  intros A f g l. induction l as [|a l IH]; [reflexivity|]. cbn [filter].
  destruct (g a); cbn [filter andb]; [destruct (f a)|]; rewrite IH; reflexivity.
Qed.
Lemma hes_at_app : forall v a b, hes_at v (a ++ b) = hes_at v a ++ hes_at v b.
Proof. intros. apply filter_app. Qed.

(* tree facts around an edge (p, c) *)
Lemma edge_tree_facts : forall p cs c ccs, NoDup (ids (RNode p cs)) -> In (RNode c ccs) cs ->
  p <> c /\
  (forall k v, In k cs -> rid k <> c -> In v (ids k) -> v <> p /\ v <> c) /\
  (forall g v, In g ccs -> In v (ids g) -> v <> p /\ v <> c).
Proof.
  intros p cs c ccs ND Hc.
  assert (Hcin : In c (ids (RNode c ccs))) by (left; reflexivity).
  assert (Hnp : forall k v, In k cs -> In v (ids k) -> v <> p).
  { intros k v Hk Hv E. subst v. eapply wf_root_notin_child; eauto. }
  split; [intros E; apply (Hnp _ c Hc Hcin); auto|]. split.
  - intros k v Hk Hne Hv. split; [eapply Hnp; eauto|]. intros E. subst v. apply Hne.
    assert (k = RNode c ccs) by (eapply (wf_children_eq p cs k (RNode c ccs) c); eauto). subst k. reflexivity.
  - intros g v Hg Hv. split.
    + apply (Hnp (RNode c ccs) v Hc). eapply in_child_ids; eauto.
    + intros E. subst v. eapply (wf_root_notin_child c ccs g); eauto. eapply wf_child; eauto.
Qed.

Theorem cut_diagram_value : forall p hp cs c ccs fr d d' rs us reps nw,
  In (RNode c ccs) cs -> NoDup (ids (RNode p cs)) ->
  cut_shape p hp cs c (length ccs) (hes d) = true -> cut_unit c (hes d) = true ->
  (forall classes, classify hp cs c (hes_at c (hes d)) (hes_at p (hes d)) = Some classes ->
                   cut_distinct hp cs c classes = true) ->
  cut_diagram p hp cs c fr d = Some (d', rs, us, reps, nw) ->
  (forall v, v <> p -> v <> c -> hes_at v (hes d') = hes_at v (hes d)) /\
  forall pv, is_some pv = hp -> peq (val (hes d') (RNode p cs) pv) (val (hes d) (RNode p cs) pv).
Proof.
  intros p hp cs c ccs fr d d' rs us reps nw Hc ND Hshape Hunit Hdist H.
  destruct (edge_tree_facts p cs c ccs ND Hc) as [Hpc [Ht1 Ht2]].
  pose proof (children_rid_nodup p cs ND) as Hrid.
  unfold cut_diagram in H.
  destruct (classify hp cs c (hes_at c (hes d)) (hes_at p (hes d))) as [classes|] eqn:Hcl; [|discriminate].
  specialize (Hdist classes eq_refl).
  set (us0 := hes_at c (hes d)) in *. set (m := length us0) in *. set (n := length classes) in *.
  set (G := gamma hp cs c us0 classes) in *.
  destruct (Nat.leb 1 m && Nat.leb 1 n); [|discriminate].
  destruct (B.mvc (B.mk_graph m n (gedges G m n))) as [r|] eqn:Hmvc; [|discriminate].
  destruct (B.r_assert r); [|discriminate].
  set (reps0 := map (fun q : vclass => hd dummy_he (snd q)) classes) in *.
  set (nv := new_vertices_pl G m n (B.r_ucover r) (B.r_vcover r)) in *.
  set (rs0 := resolve (fun i => hid (nth i us0 dummy_he)) (fun j => hid (nth j reps0 dummy_he)) c p
                      (number_pl 0 nv) [] [] (fr + length nv)) in *.
  destruct (forallb _ (seq 0 m) && forallb _ (seq 0 n)) eqn:Hguard; [|discriminate].
  apply andb_true_iff in Hguard. destruct Hguard as [HgU HgV]. rewrite forallb_forall in HgU, HgV.
  inversion H; subst d' rs us reps nw. clear H. cbn [hes].
  assert (HgU' : forall i, i < m -> exists x, first_pl SU i rs0 = Some x).
  { intros i Hi. assert (Hi' : In i (seq 0 m)) by (apply in_seq; lia). specialize (HgU i Hi').
    change (match first_pl SU i rs0 with Some _ => true | None => false end = true) in HgU.
    destruct (first_pl SU i rs0); [eauto | discriminate]. }
  assert (HgV' : forall j, j < n -> exists x, first_pl SV j rs0 = Some x).
  { intros j Hj. assert (Hj' : In j (seq 0 n)) by (apply in_seq; lia). specialize (HgV j Hj').
    change (match first_pl SV j rs0 with Some _ => true | None => false end = true) in HgV.
    destruct (first_pl SV j rs0); [eauto | discriminate]. }
  destruct (mvc_cover_facts G m n r Hmvc) as (N1 & R1 & N2 & R2 & Hcov).
  destruct (resolve_firsts (fun i => hid (nth i us0 dummy_he)) (fun j => hid (nth j reps0 dummy_he)) c p
                           (number_pl 0 nv) [] [] (fr + length nv)) as (F1 & _ & F2 & _).
  fold rs0 in F1, F2.
  set (newV := map (fun j => match first_pl SV j rs0 with Some x => place_v p hp cs c fr (nth j reps0 dummy_he) x | None => dummy_he end) (seq 0 n)
               ++ map (fun x => place_v p hp cs c fr (nth (r_ix x) reps0 dummy_he) x) (filter (is_pl SV true) rs0)).
  set (newU := map (fun i => match first_pl SU i rs0 with Some x => place_u c fr (nth i us0 dummy_he) x | None => dummy_he end) (seq 0 m)
               ++ map (fun x => place_u c fr (nth (r_ix x) us0 dummy_he) x) (filter (is_pl SU true) rs0)).
  set (rest := filter (fun h => negb (Nat.eqb (hnode h) p) && negb (Nat.eqb (hnode h) c)) (hes d)).
  assert (HnV : forall h, In h newV -> hnode h = p).
  { intros h Hh. unfold newV in Hh. apply in_app_or in Hh. destruct Hh as [Hh|Hh]; apply in_map_iff in Hh; destruct Hh as [x [E Hx]]; subst h.
    - apply in_seq in Hx. destruct (HgV' x) as [y Hy]; [lia|]. rewrite Hy. reflexivity.
    - reflexivity. }
  assert (HnU : forall h, In h newU -> hnode h = c).
  { intros h Hh. unfold newU in Hh. apply in_app_or in Hh. destruct Hh as [Hh|Hh]; apply in_map_iff in Hh; destruct Hh as [x [E Hx]]; subst h.
    - apply in_seq in Hx. destruct (HgU' x) as [y Hy]; [lia|]. rewrite Hy. reflexivity.
    - reflexivity. }
  assert (Hrest : forall v, hes_at v rest = if Nat.eqb v p || Nat.eqb v c then [] else hes_at v (hes d)).
  { intros v. unfold rest, hes_at. rewrite filter_filter_and.
    destruct (Nat.eqb v p) eqn:E1.
    { apply Nat.eqb_eq in E1. subst v. cbn [orb]. apply filter_none. intros x _.
      destruct (Nat.eqb (hnode x) p), (Nat.eqb (hnode x) c); reflexivity. }
    destruct (Nat.eqb v c) eqn:E2.
    { apply Nat.eqb_eq in E2. subst v. cbn [orb]. apply filter_none. intros x _.
      destruct (Nat.eqb (hnode x) p), (Nat.eqb (hnode x) c); reflexivity. }
    cbn [orb]. apply filter_ext. intros x. destruct (Nat.eqb (hnode x) v) eqn:E; [|apply andb_false_r].
    apply Nat.eqb_eq in E. rewrite E, E1, E2. reflexivity. }
  assert (Ep : hes_at p (rest ++ newV ++ newU) = newV).
  { rewrite !hes_at_app, Hrest, Nat.eqb_refl. cbn [orb app].
    unfold hes_at at 1. rewrite filter_all by (intros x Hx; apply Nat.eqb_eq; apply HnV; exact Hx).
    unfold hes_at. rewrite filter_none; [apply app_nil_r|]. intros x Hx. apply Nat.eqb_neq. rewrite (HnU x Hx). auto. }
  assert (Ec : hes_at c (rest ++ newV ++ newU) = newU).
  { rewrite !hes_at_app, Hrest, Nat.eqb_refl, orb_true_r. cbn [app].
    unfold hes_at at 1. rewrite filter_none by (intros x Hx; apply Nat.eqb_neq; rewrite (HnV x Hx); auto).
    unfold hes_at. cbn [app]. apply filter_all. intros x Hx. apply Nat.eqb_eq. apply HnU. exact Hx. }
  assert (Eo : forall v, v <> p -> v <> c -> hes_at v (rest ++ newV ++ newU) = hes_at v (hes d)).
  { intros v Hvp Hvc. rewrite !hes_at_app, Hrest.
    apply Nat.eqb_neq in Hvp. apply Nat.eqb_neq in Hvc. rewrite Hvp, Hvc. cbn [orb].
    unfold hes_at at 2 3. rewrite !filter_none; [rewrite !app_nil_r; reflexivity | |].
    - intros x Hx. apply Nat.eqb_neq. rewrite (HnU x Hx). apply Nat.eqb_neq in Hvc. auto.
    - intros x Hx. apply Nat.eqb_neq. rewrite (HnV x Hx). apply Nat.eqb_neq in Hvp. auto. }
  split; [exact Eo|]. intros pv Hpv.
  eapply peq_trans; [|apply peq_sym; apply (before_M0 (hes d) p hp cs c ccs Hc Hrid Hshape Hunit classes Hcl Hdist pv Hpv)].
  rewrite M0_Mform.
  apply (after_Mform (hes d) p hp cs c ccs fr Hc Hrid Hshape Hpc Ht1 Ht2 classes Hcl (B.r_ucover r) (B.r_vcover r)
                     (conj N1 R1) (conj N2 R2) Hcov rs0); auto.
  apply resolve_keys.
Qed.

(* ---- one cut step preserves the denotation ----------------------------------------------------- *)
Theorem cut_step_sound : forall t c st st', NoDup (ids t) ->
  cut_pre t c (p_sd st) = true -> cut_step t c st = Some st' ->
  peq (sd_denote t (p_sd st')) (sd_denote t (p_sd st)).
Proof.
  intros t c st st' ND Hpre Hstep. unfold cut_pre in Hpre. unfold cut_step in Hstep.
  destruct (find_parent t false c) as [[[p hp] cs]|] eqn:F; [|discriminate].
  destruct (subtree c t) as [tc|] eqn:S; [|discriminate].
  destruct (cut_diagram p hp cs c (p_next st) (p_sd st)) as [[[[[d' rs] us] reps] nw]|] eqn:D; [|discriminate].
  inversion Hstep; subst st'. cbn [p_sd]. clear Hstep.
  apply andb_true_iff in Hpre. destruct Hpre as [Hpre Hd]. apply andb_true_iff in Hpre. destruct Hpre as [Hsh Hun].
  destruct (find_parent_node_at _ _ _ _ _ _ F) as [Hn [k [Hk Ek]]].
  assert (tc = k).
  { rewrite <- Ek, (child_of_subtree t false p hp cs k ND Hn Hk) in S. congruence. }
  subst tc. destruct k as [c' ccs]. cbn [rid] in Ek. subst c'. cbn [rchildren] in Hsh.
  assert (NDp : NoDup (ids (RNode p cs))) by (eapply is_subtree_wf; [eapply node_at_subtree; eauto | exact ND]).
  destruct (cut_diagram_value p hp cs c ccs (p_next st) (p_sd st) d' rs us reps nw Hk NDp Hsh Hun) as [Ho Hv]; auto.
  { intros classes Hcl. rewrite Hcl in Hd. exact Hd. }
  unfold sd_denote.
  apply (val_local (hes (p_sd st)) (hes d') p hp cs) with (h0 := false); auto.
  intros v Hv'. apply Ho.
  - intros E. apply Hv'. subst v. left. reflexivity.
  - intros E. apply Hv'. subst v. right. apply in_flat_map. exists (RNode c ccs). split; [exact Hk | left; reflexivity].
Qed.

(* ====================================================================================== *)
(* 4. combine_subtrees under the checked merge preconditions                               *)
(* ====================================================================================== *)
Lemma pnorm_peq : forall p, peq (pnorm p) p.
Proof. intros p k. apply coef_pnorm. Qed.

Lemma merge_pre_sound : forall t c x1 x2 d, NoDup (ids t) -> merge_pre t c x1 x2 d = true ->
  peq (sd_denote t (merge t c x1 x2 d)) (sd_denote t d).
Proof.
  intros t c x1 x2 d ND H. unfold merge_pre in H. apply andb_true_iff in H. destruct H as [H1 H2].
  apply merge_equal_subtrees_sound; auto.
  - eapply peq_trans; [apply peq_sym; apply pnorm_peq|]. eapply peq_trans; [apply poly_eqb_peq; exact H1|]. apply pnorm_peq.
  - apply privateb_sound. exact H2.
Qed.

Lemma combine_loop_sound : forall t c tb snap seen d, NoDup (ids t) ->
  forallb (fun b => b) (combine_checks t c tb snap seen d) = true ->
  peq (sd_denote t (combine_loop t c tb snap seen d)) (sd_denote t d).
Proof.
  intros t c tb. induction snap as [|e2 r IH]; intros seen d ND H; cbn [combine_loop combine_checks] in *; [apply peq_refl|].
  destruct (find _ seen) as [e|].
  - cbn [forallb] in H. apply andb_true_iff in H. destruct H as [H1 H2].
    eapply peq_trans; [apply IH; auto|]. apply merge_pre_sound; auto.
  - apply IH; auto.
Qed.

Theorem combine_subtrees_sound : forall t c st, NoDup (ids t) -> combine_pre t c st = true ->
  peq (sd_denote t (p_sd (combine_subtrees t c st))) (sd_denote t (p_sd st)).
Proof. intros t c st ND H. unfold combine_subtrees. cbn [p_sd]. apply combine_loop_sound; auto. Qed.

(* ====================================================================================== *)
(* 5. the driver under the checked step preconditions                                      *)
(* ====================================================================================== *)
Lemma combine_pass_sound : forall t lv st, NoDup (ids t) ->
  forallb (fun b => b) (combine_pass_checks t lv st) = true ->
  peq (sd_denote t (p_sd (combine_pass t lv st))) (sd_denote t (p_sd st)).
Proof.
  intros t. induction lv as [|c r IH]; intros st ND H; [apply peq_refl|].
  cbn [combine_pass_checks forallb] in H. apply andb_true_iff in H. destruct H as [H1 H2].
  unfold combine_pass. cbn [fold_left]. fold (combine_pass t r (combine_subtrees t c st)).
  eapply peq_trans; [apply IH; auto|]. apply combine_subtrees_sound; auto.
Qed.

Lemma cut_pass_none : forall t lv, cut_pass t lv None = None.
Proof. intros t lv. unfold cut_pass. induction lv as [|c r IH]; [reflexivity|]. cbn [fold_left]. exact IH. Qed.

Lemma cut_pass_sound : forall t lv st st', NoDup (ids t) ->
  forallb (fun b => b) (cut_pre_trace t lv (Some st)) = true ->
  cut_pass t lv (Some st) = Some st' ->
  peq (sd_denote t (p_sd st')) (sd_denote t (p_sd st)).
Proof.
  intros t. induction lv as [|c r IH]; intros st st' ND H E.
  - inversion E. apply peq_refl.
  - cbn [cut_pre_trace forallb] in H. apply andb_true_iff in H. destruct H as [H1 H2].
    unfold cut_pass in E. cbn [fold_left] in E. fold (cut_pass t r (cut_step t c st)) in E.
    destruct (cut_step t c st) as [st1|] eqn:S; [|rewrite cut_pass_none in E; discriminate].
    eapply peq_trans; [apply (IH st1 st'); auto|]. eapply cut_step_sound; eauto.
Qed.

Lemma run_levels_none : forall t lvs, fold_left (run_level t) lvs None = None.
Proof. intros t lvs. induction lvs as [|lv r IH]; [reflexivity|]. cbn [fold_left run_level]. exact IH. Qed.

Lemma run_levels_sound : forall t lvs st st', NoDup (ids t) ->
  forallb (fun b => b) (levels_checks t lvs (Some st)) = true ->
  run_levels t lvs st = Some st' ->
  peq (sd_denote t (p_sd st')) (sd_denote t (p_sd st)).
Proof.
  intros t. induction lvs as [|lv r IH]; intros st st' ND H E.
  - inversion E. apply peq_refl.
  - cbn [levels_checks] in H. rewrite !forallb_app in H. apply andb_true_iff in H. destruct H as [H1 H].
    apply andb_true_iff in H. destruct H as [H2 H3].
    unfold run_levels in E. cbn [fold_left run_level] in E.
    destruct (cut_pass t lv (Some (combine_pass t lv st))) as [st1|] eqn:C; [|rewrite run_levels_none in E; discriminate].
    eapply peq_trans; [apply (IH st1 st'); auto|].
    eapply peq_trans; [eapply cut_pass_sound; eauto|]. apply combine_pass_sound; auto.
Qed.

(* terms with a vanishing prefactor do not change the Hamiltonian *)
Lemma ham_denote_live : forall t H, peq (ham_denote t (live_terms H)) (ham_denote t H).
Proof.
  intros t H. induction H as [|tm H IH]; [apply peq_refl|]. unfold live_terms in *. cbn [filter].
  destruct (nz_term tm) eqn:E; cbn [ham_denote map].
  - change (term_poly t tm :: map (term_poly t) (filter nz_term H)) with ([term_poly t tm] ++ ham_denote t (filter nz_term H)).
    change (term_poly t tm :: map (term_poly t) H) with ([term_poly t tm] ++ ham_denote t H).
    apply peq_app; [apply peq_refl | exact IH].
  - eapply peq_trans; [exact IH|]. apply peq_sym.
    change (term_poly t tm :: map (term_poly t) H) with ([term_poly t tm] ++ ham_denote t H).
    apply peq_app_nil_l. apply peq_zero_coeffs. intros a [Ea|[]]. subst a.
    unfold nz_term in E. apply negb_false_iff in E. apply Qeq_bool_iff in E.
    destruct tm as [[lam gam] f]. cbn [term_poly fst] in *. exact E.
Qed.

(* BIPARTITE from_hamiltonian is exact whenever the decidable step preconditions hold along the run *)
Theorem pipeline_exact_checked : forall t H d, NoDup (ids t) ->
  pipeline_ok t H = true -> from_hamiltonian_bipartite t H = Some d ->
  peq (sd_denote t d) (ham_denote t H).
Proof.
  intros t H d ND Hok E. unfold from_hamiltonian_bipartite, from_hamiltonian_bipartite_st in E.
  unfold pipeline_ok, pipeline_checks in Hok.
  destruct (live_terms H) as [|tm H'] eqn:EL.
  - destruct H as [|tm0 H0]; [discriminate|]. cbn [option_map] in E. inversion E; subst d.
    unfold pipe_init. cbn [p_sd]. apply base_exact_peq. exact ND.
  - destruct (run_levels t (levels t) (pipe_init t (tm :: H'))) as [st'|] eqn:R; [|discriminate].
    cbn [option_map] in E. inversion E; subst d.
    eapply peq_trans; [eapply run_levels_sound; eauto|].
    eapply peq_trans; [unfold pipe_init; cbn [p_sd]; apply base_exact_peq; exact ND|].
    rewrite <- EL. apply ham_denote_live.
Qed.
