(* Model of the DRIVER of the BIPARTITE construction of pytreenet/ttno/state_diagram.py:
     StateDiagram.from_hamiltonian (dispatch on TTNOFinder.BIPARTITE),
     from_hamiltonian_modified (compound diagram, BFS over the tree edges level by level, per
       level first combine_subtrees on every edge, then cut_and_optimise on every edge),
     get_state_diagrams / calculate_hashes (subtree hashes),
     combine_subtrees (grouping the hyperedges of the child node by subtree hash, erase_subtree,
       redirection of the fathers: Core.merge),
     cut_and_optimise with self.SGE == False:
       _generate_non_redundant_V_dict (V classes by v_hash, the re-hash branch),
       _setup_gamma_matrix (Gamma with overwriting assignments), _remove_all_vertices_cut_site,
       _remove_reduntant_v_hyperedges, _apply_bipartite_to_gamma (edges of the bipartite graph,
       minimum_vertex_cover = Bip/Model.v `mvc`), _create_combined_u_v_lists with identity
       matrices, _reconnect_hyperedges (rows of the cover first, then columns; copies through
       _copy_node whenever a hyperedge is needed a second time).
   Definitions only; proofs are in PipelineProofs.v.  The state-diagram model is SD/Model.v, the
   vertex merge is SD/Core.v.

   Conventions.  The tree edge (parent(c), c) is named by its child end c.  Python object
   identities (uuids) are names `oid`; objects created by the pipeline get names (k, node) with
   k counting up from the number of terms (`p_next`); nothing depends on the names except their
   distinctness.  sha256 values are modelled by what is hashed: the subtree hash of a hyperedge
   is the list of labels of its term on the subtree in pre-order (label + concatenation of the
   children's digests, digests have a fixed length, the number of children is fixed per node),
   the v_hash of a parent hyperedge is (label, its vertices outside the cut edge, tag) where the
   tag is None or, after the re-hash with a fresh uuid, the position of the hyperedge.
   gaussian_elimination(deepcopy(Gamma)) is also called on the BIPARTITE path; its result is
   discarded there and it is not part of this model (an exception of it would surface in the
   correspondence check as an implementation error). *)
From Coq Require Import List Arith Bool QArith.
From PTN Require Import Tree.RTree SD.Model SD.Core.
From PTN Require Bip.Model.
Import ListNotations.
Local Close Scope Q_scope.

Module B := PTN.Bip.Model.

(* ====================================================================================== *)
(* 0. small helpers                                                                        *)
(* ====================================================================================== *)
Fixpoint leqb {A : Type} (e : A -> A -> bool) (a b : list A) : bool :=
  match a, b with
  | [], [] => true
  | x :: a', y :: b' => e x y && leqb e a' b'
  | _, _ => false
  end.
Definition oeqb {A : Type} (e : A -> A -> bool) (a b : option A) : bool :=
  match a, b with
  | None, None => true
  | Some x, Some y => e x y
  | _, _ => false
  end.

Definition hes_at (v : nat) (s : list he) : list he := filter (fun h => Nat.eqb (hnode h) v) s.

(* a coefficient lambda * gamma (gamma = 0 stands for "1") *)
Definition coefq := (Q * nat)%type.
Definition cone : coefq := (1%Q, 0).
Definition coef_of (h : he) : coefq := (hlam h, hgam h).
Definition coef_eqb (a b : coefq) : bool := Qeq_bool (fst a) (fst b) && Nat.eqb (snd a) (snd b).
(* `Gamma[i][j] != 0`: an entry is a Fraction when gamma == "1" and a tuple otherwise *)
Definition cnz (e : coefq) : bool := negb (Nat.eqb (snd e) 0) || negb (Qeq_bool (fst e) 0).

(* ====================================================================================== *)
(* 1. the pipeline state, hashes, the compound diagram                                     *)
(* ====================================================================================== *)
(* the diagram, HyperEdge.hash of every hyperedge, the next unused object number *)
Record pst := mkP { p_sd : sd; p_hash : list (oid * list nat); p_next : nat }.

Definition hash_of (tb : list (oid * list nat)) (x : oid) : list nat :=
  match find (fun e => oid_eqb (fst e) x) tb with Some e => snd e | None => [] end.

(* calculate_hashes on the single-term diagram of term j *)
Fixpoint st_hashes (j : nat) (f : nat -> nat) (t : rtree) : list (oid * list nat) :=
  match t with RNode v cs => ((j, v), map f (ids t)) :: flat_map (st_hashes j f) cs end.
Fixpoint base_hashes (j : nat) (t : rtree) (H : list pterm) : list (oid * list nat) :=
  match H with
  | [] => []
  | (_, _, f) :: H' => st_hashes j f t ++ base_hashes (S j) t H'
  end.
(* get_state_diagrams + get_state_diagram_compound *)
Definition pipe_init (t : rtree) (H : list pterm) : pst :=
  mkP (sd_base t H) (base_hashes 0 t H) (length H).

(* ====================================================================================== *)
(* 2. combine_subtrees(local_hyperedges = copy of the hyperedges of c, parent)             *)
(* ====================================================================================== *)
(* element.find_vertex(parent) for a hyperedge of a non-root node: the first vertex in leg
   order (ValueError in Python when there is none; never on a well-indexed diagram) *)
Definition head_vertex (h : he) : oid := match hverts h with q :: _ => q | [] => (0, 0) end.

(* `combined` maps a hash to the first hyperedge with it; only its parent vertex is used *)
Fixpoint combine_loop (t : rtree) (c : nat) (tb : list (oid * list nat)) (snap : list he)
                      (seen : list (list nat * oid)) (d : sd) : sd :=
  match snap with
  | [] => d
  | e2 :: r =>
      let hs := hash_of tb (hid e2) in
      match find (fun e => leqb Nat.eqb (fst e) hs) seen with
      | Some e => combine_loop t c tb r seen (merge t c (snd e) (head_vertex e2) d)
      | None => combine_loop t c tb r (seen ++ [(hs, head_vertex e2)]) d
      end
  end.
Definition combine_subtrees (t : rtree) (c : nat) (st : pst) : pst :=
  mkP (combine_loop t c (p_hash st) (hes_at c (hes (p_sd st))) [] (p_sd st)) (p_hash st) (p_next st).

(* ====================================================================================== *)
(* 3. cut_and_optimise(local_vs = copy of the hyperedges of parent, current_node, parent)  *)
(* ====================================================================================== *)
(* --- the vertex a hyperedge of the parent node has on the cut edge, and the others ------ *)
Fixpoint set_at (cs : list rtree) (c : nat) (w : oid) (vs : list oid) : list oid :=
  match cs, vs with
  | k :: cs', y :: vs' => if Nat.eqb (rid k) c then w :: vs' else y :: set_at cs' c w vs'
  | _, _ => vs
  end.
Fixpoint drop_at (cs : list rtree) (c : nat) (vs : list oid) : list oid :=
  match cs, vs with
  | k :: cs', y :: vs' => if Nat.eqb (rid k) c then vs' else y :: drop_at cs' c vs'
  | _, _ => vs
  end.
Section ParentSide.
  Variables (hp : bool) (cs : list rtree) (c : nat).
  Definition p_cutv (h : he) : option oid := slot_vertex cs c (child_part hp h).
  Definition p_others (h : he) : list oid :=
    (if hp then firstn 1 (hverts h) else []) ++ drop_at cs c (child_part hp h).
  Definition p_set (w : oid) (h : he) : list oid :=
    if hp then match hverts h with q :: r => q :: set_at cs c w r | [] => [] end
    else set_at cs c w (hverts h).
End ParentSide.

(* --- _generate_non_redundant_V_dict ------------------------------------------------------ *)
(* v_hash: label, number and sorted identifiers of the vertices outside the cut edge (here: the
   vertices in leg order, equal as lists iff equal as sorted lists because a vertex belongs to
   one edge), and the tag of the re-hash *)
Definition ckey := (nat * list oid * option nat)%type.
Definition ckey_eqb (a b : ckey) : bool :=
  Nat.eqb (fst (fst a)) (fst (fst b)) && leqb oid_eqb (snd (fst a)) (snd (fst b))
  && oeqb Nat.eqb (snd a) (snd b).
Definition vclass := (ckey * list he)%type.

(* v.get_hyperedges_for_one_node_id(current_node) for the vertex x of the cut edge *)
Definition us_on (us : list he) (x : option oid) : list oid :=
  match x with
  | Some y => map hid (filter (fun u => oid_eqb (head_vertex u) y) us)
  | None => []
  end.
Fixpoint add_to_class (k : ckey) (e : he) (acc : list vclass) : list vclass :=
  match acc with
  | [] => [(k, [e])]
  | q :: r => if ckey_eqb (fst q) k then (fst q, snd q ++ [e]) :: r else q :: add_to_class k e r
  end.
Definition class_elems (k : ckey) (acc : list vclass) : list he :=
  match find (fun q => ckey_eqb (fst q) k) acc with Some q => snd q | None => [] end.

Section Classify.
  Variables (hp : bool) (cs : list rtree) (c : nat) (us : list he).
  (* `(coefficients differ) and compare_lists_by_identity(u-lists of the two cut vertices)` *)
  Definition conflict (e e2 : he) : bool :=
    negb (coef_eqb (coef_of e) (coef_of e2))
    && leqb oid_eqb (us_on us (p_cutv hp cs c e)) (us_on us (p_cutv hp cs c e2)).
  (* one conflict: the element gets a fresh class; two or more: every further re-hash leaves an
     empty list in V_set and _remove_reduntant_v_hyperedges dies with IndexError -> None *)
  Fixpoint classify_loop (idx : nat) (vsl : list he) (acc : list vclass) : option (list vclass) :=
    match vsl with
    | [] => Some acc
    | e :: r =>
        let k0 : ckey := (hlabel e, p_others hp cs c e, None) in
        match length (filter (conflict e) (class_elems k0 acc)) with
        | 0 => classify_loop (S idx) r (add_to_class k0 e acc)
        | 1 => classify_loop (S idx) r (add_to_class (hlabel e, p_others hp cs c e, Some idx) e acc)
        | _ => None
        end
    end.
  Definition classify (vsl : list he) : option (list vclass) := classify_loop 0 vsl [].

  (* --- _setup_gamma_matrix: Gamma[u][class of element] = coefficient of element, for every
     element of local_vs in order and every u on its cut vertex; later assignments overwrite
     earlier ones, so the entry is the coefficient of the LAST element of the class (class lists
     are in local_vs order) whose cut vertex carries u; None = never assigned (Fraction(0)) *)
  Definition gamma_entry (u : he) (cl : list he) : option coefq :=
    match find (fun e => oeqb oid_eqb (p_cutv hp cs c e) (Some (head_vertex u))) (rev cl) with
    | Some e => Some (coef_of e)
    | None => None
    end.
  Definition gamma (classes : list vclass) : list (list (option coefq)) :=
    map (fun u => map (fun q => gamma_entry u (snd q)) classes) us.
End Classify.

Definition gentry (G : list (list (option coefq))) (i j : nat) : option coefq := nth j (nth i G []) None.
Definition gcoef (G : list (list (option coefq))) (i j : nat) : coefq :=
  match gentry G i j with Some e => e | None => (0%Q, 0) end.
(* edges_enumerated: the entries that are != 0 *)
Definition gsupp (G : list (list (option coefq))) (i j : nat) : bool :=
  match gentry G i j with Some e => cnz e | None => false end.
Definition gedges (G : list (list (option coefq))) (m n : nat) : list (nat * nat) :=
  flat_map (fun i => flat_map (fun j => if gsupp G i j then [(i, j)] else []) (seq 0 n)) (seq 0 m).

(* --- _reconnect_hyperedges --------------------------------------------------------------- *)
(* One new vertex per row of the cover that has edges, then one per column of the cover that
   still has unused edges.  A placement puts (an instance of) u_i or of the representative of
   class j on the vertex with a coefficient. *)
Inductive side := SU | SV.
Definition side_eqb (a b : side) : bool := match a, b with SU, SU => true | SV, SV => true | _, _ => false end.
Definition placement := (side * nat * coefq)%type.

Section Reconnect.
  Variables (G : list (list (option coefq))) (m n : nat) (Cu : list nat).
  (* `for i in u_cover: for j in bigraph.adj_u[i]` (adjacency lists are ascending) *)
  Definition row_pl (i : nat) : list placement :=
    match filter (gsupp G i) (seq 0 n) with
    | [] => []
    | js => (SU, i, cone) :: map (fun j => (SV, j, gcoef G i j)) js
    end.
  (* `for j in v_cover: for i in bigraph.adj_v[j]: if (i, j) not in edges: continue` *)
  Definition col_pl (j : nat) : list placement :=
    match filter (fun i => gsupp G i j && negb (mem i Cu)) (seq 0 m) with
    | [] => []
    | i0 :: r => (SU, i0, gcoef G i0 j) :: (SV, j, cone) :: map (fun i => (SU, i, gcoef G i j)) r
    end.
End Reconnect.
Definition new_vertices_pl (G : list (list (option coefq))) (m n : nat) (Cu Cv : list nat) : list (list placement) :=
  filter (fun l => match l with [] => false | _ => true end) (map (row_pl G n) Cu ++ map (col_pl G m Cu) Cv).

(* a placement resolved to an object: the first use of u_i / of a representative takes the
   hyperedge itself, every later use a copy (`if i in used_us`, `if j in used_vs`) *)
Record rpl := mkR { r_w : nat; r_side : side; r_ix : nat; r_cf : coefq; r_copy : bool; r_id : oid }.
Fixpoint number_pl {A : Type} (w : nat) (l : list (list A)) : list (nat * A) :=
  match l with
  | [] => []
  | x :: r => map (fun a => (w, a)) x ++ number_pl (S w) r
  end.
Section Resolve.
  Variables (origU origV : nat -> oid) (nodeU nodeV : nat).
  Fixpoint resolve (pl : list (nat * placement)) (seenU seenV : list nat) (q : nat) : list rpl :=
    match pl with
    | [] => []
    | (w, (SU, i, cf)) :: r =>
        if mem i seenU then mkR w SU i cf true (q, nodeU) :: resolve r seenU seenV (S q)
        else mkR w SU i cf false (origU i) :: resolve r (i :: seenU) seenV q
    | (w, (SV, j, cf)) :: r =>
        if mem j seenV then mkR w SV j cf true (q, nodeV) :: resolve r seenU seenV (S q)
        else mkR w SV j cf false (origV j) :: resolve r seenU (j :: seenV) q
    end.
End Resolve.

Definition is_pl (sd_ : side) (cp : bool) (x : rpl) : bool := side_eqb (r_side x) sd_ && Bool.eqb (r_copy x) cp.
Definition first_pl (sd_ : side) (ix : nat) (l : list rpl) : option rpl :=
  find (fun x => is_pl sd_ false x && Nat.eqb (r_ix x) ix) l.

Definition dummy_he : he := mkHe (0, 0) 0 0 0%Q 0 [].

Section Cut.
  Variables (p : nat) (hp : bool) (cs : list rtree) (c : nat).
  Variable fr : nat.            (* numbers >= fr are unused *)
  Definition vertex_name (w : nat) : oid := (fr + w, c).
  (* u.vertices gets the new vertex, the coefficient is assigned *)
  Definition place_u (u : he) (x : rpl) : he :=
    mkHe (r_id x) c (hlabel u) (fst (r_cf x)) (snd (r_cf x)) (vertex_name (r_w x) :: tl (hverts u)).
  Definition place_v (v : he) (x : rpl) : he :=
    mkHe (r_id x) p (hlabel v) (fst (r_cf x)) (snd (r_cf x)) (p_set hp cs c (vertex_name (r_w x)) v).

  Definition cut_diagram (d : sd) : option (sd * list rpl * list he * list he * nat) :=
    let s := hes d in
    let us := hes_at c s in
    let vsl := hes_at p s in
    match classify hp cs c us vsl with
    | None => None
    | Some classes =>
        let m := length us in
        let n := length classes in
        let G := gamma hp cs c us classes in
        if Nat.leb 1 m && Nat.leb 1 n then
          match B.mvc (B.mk_graph m n (gedges G m n)) with
          | Some r =>
              if B.r_assert r then
                let reps := map (fun q => hd dummy_he (snd q)) classes in
                let red := flat_map (fun q => map hid (tl (snd q))) classes in
                let nv := new_vertices_pl G m n (B.r_ucover r) (B.r_vcover r) in
                let nw := length nv in
                let rs := resolve (fun i => hid (nth i us dummy_he)) (fun j => hid (nth j reps dummy_he)) c p
                                  (number_pl 0 nv) [] [] (fr + nw) in
                (* a u or a representative without any edge keeps no vertex on the cut edge: the code
                   builds a diagram that is not well-indexed (TTNO.from_state_diagram then fails) *)
                if forallb (fun i => match first_pl SU i rs with Some _ => true | None => false end) (seq 0 m)
                   && forallb (fun j => match first_pl SV j rs with Some _ => true | None => false end) (seq 0 n)
                then
                  let newU := map (fun i => match first_pl SU i rs with
                                            | Some x => place_u (nth i us dummy_he) x | None => dummy_he end) (seq 0 m)
                              ++ map (fun x => place_u (nth (r_ix x) us dummy_he) x) (filter (is_pl SU true) rs) in
                  let newV := map (fun j => match first_pl SV j rs with
                                            | Some x => place_v (nth j reps dummy_he) x | None => dummy_he end) (seq 0 n)
                              ++ map (fun x => place_v (nth (r_ix x) reps dummy_he) x) (filter (is_pl SV true) rs) in
                  let copies := map (fun x => place_u (nth (r_ix x) us dummy_he) x) (filter (is_pl SU true) rs)
                                ++ map (fun x => place_v (nth (r_ix x) reps dummy_he) x) (filter (is_pl SV true) rs) in
                  let rest := filter (fun h => negb (Nat.eqb (hnode h) p) && negb (Nat.eqb (hnode h) c)) s in
                  let oldvx :=
                    map (fun v => mkVx (vxid v) (vedge v)
                                       (filter (fun x => negb (omem x red)) (vhes v)
                                        ++ map hid (filter (fun h => omem (vxid v) (tl (hverts h))
                                                                     || (Nat.eqb (hnode h) p && omem (vxid v) (hverts h))) copies)))
                        (filter (fun v => negb (Nat.eqb (vedge v) c)) (vxs d)) in
                  let newvx := map (fun w => mkVx (vertex_name w) c (map r_id (filter (fun x => Nat.eqb (r_w x) w) rs))) (seq 0 nw) in
                  Some (mkSd (rest ++ newV ++ newU) (oldvx ++ newvx), rs, us, reps, nw)
                else None
              else None
          | None => None
          end
        else None
    end.
End Cut.

Definition cut_step (t : rtree) (c : nat) (st : pst) : option pst :=
  match find_parent t false c with
  | None => None
  | Some (p, hp, cs) =>
      match cut_diagram p hp cs c (p_next st) (p_sd st) with
      | None => None
      | Some (d', rs, us, reps, nw) =>
          Some (mkP d'
                    (p_hash st ++ map (fun x => (r_id x, hash_of (p_hash st)
                                                            (hid (nth (r_ix x) (match r_side x with SU => us | SV => reps end) dummy_he))))
                                      (filter r_copy rs))
                    (p_next st + nw + length (filter r_copy rs)))
      end
  end.

(* ====================================================================================== *)
(* 4. from_hamiltonian_modified: the BFS over the tree edges                               *)
(* ====================================================================================== *)
(* the queue level by level: the children of the root, then the children of the nodes of the
   previous level, in the order of the reference tree's children lists *)
Fixpoint bfs_levels (fuel : nat) (lv : list rtree) : list (list nat) :=
  match fuel with
  | 0 => []
  | S f => match lv with
           | [] => []
           | _ => map rid lv :: bfs_levels f (flat_map rchildren lv)
           end
  end.
Definition levels (t : rtree) : list (list nat) := bfs_levels (size t) (rchildren t).

Definition combine_pass (t : rtree) (lv : list nat) (st : pst) : pst :=
  fold_left (fun a c => combine_subtrees t c a) lv st.
Definition cut_pass (t : rtree) (lv : list nat) (st : option pst) : option pst :=
  fold_left (fun a c => match a with Some x => cut_step t c x | None => None end) lv st.
Definition run_level (t : rtree) (st : option pst) (lv : list nat) : option pst :=
  match st with
  | Some x => cut_pass t lv (Some (combine_pass t lv x))
  | None => None
  end.
Definition run_levels (t : rtree) (lvs : list (list nat)) (st : pst) : option pst :=
  fold_left (run_level t) lvs (Some st).

(* StateDiagram.from_hamiltonian(hamiltonian, ref_tree, TTNOFinder.BIPARTITE) on the padded terms;
   None = the code raises (no term: the compound diagram is None) or leaves a diagram that is not
   well-indexed (see cut_diagram); terms with prefactor 0 are dropped first (repo commit 2e422fd) *)
(* `[sd for sd, term in zip(state_diagrams, hamiltonian.terms) if term[0] != 0]`: the single-term diagrams of
   the terms with a vanishing prefactor are dropped (prefactor test only: a symbol mapped to 0 stays) *)
Definition nz_term (tm : pterm) : bool := negb (Qeq_bool (fst (fst tm)) 0).
Definition live_terms (H : list pterm) : list pterm := filter nz_term H.
(* `if len(state_diagrams) == 0: return cls.from_hamiltonian_base(hamiltonian, ref_tree)`: the BASE diagram of
   the FULL term list (for an empty term list its compound diagram is None and the next attribute access raises) *)
Definition from_hamiltonian_bipartite_st (t : rtree) (H : list pterm) : option pst :=
  match live_terms H with
  | [] => match H with [] => None | _ => Some (pipe_init t H) end
  | H' => run_levels t (levels t) (pipe_init t H')
  end.
Definition from_hamiltonian_bipartite (t : rtree) (H : list pterm) : option sd :=
  option_map p_sd (from_hamiltonian_bipartite_st t H).

(* ====================================================================================== *)
(* 5. the preconditions of one cut, as checkers                                            *)
(* ====================================================================================== *)
(* shape of the hyperedges of the two nodes of the edge: one vertex per leg *)
Definition cut_shape (p : nat) (hp : bool) (cs : list rtree) (c : nat) (nccs : nat) (s : list he) : bool :=
  forallb (fun h => Nat.eqb (length (hverts h)) (S nccs)) (hes_at c s)
  && forallb (fun h => Nat.eqb (length (hverts h)) ((if hp then 1 else 0) + length cs)) (hes_at p s).
(* the hyperedges of the child node carry no coefficient (it is ignored and overwritten) *)
Definition cut_unit (c : nat) (s : list he) : bool :=
  forallb (fun u => Qeq_bool (hlam u) 1 && Nat.eqb (hgam u) 0) (hes_at c s).
(* no two hyperedges of one V class sit on the same vertex of the cut edge (otherwise the second
   assignment to Gamma[u][class] overwrites the first: C01-duplicate-terms) *)
Definition cut_distinct (hp : bool) (cs : list rtree) (c : nat) (classes : list vclass) : bool :=
  forallb (fun q => nodup_oid (flat_map (fun e => opt_list (p_cutv hp cs c e)) (snd q))) classes.
Definition cut_pre (t : rtree) (c : nat) (d : sd) : bool :=
  match find_parent t false c, subtree c t with
  | Some (p, hp, cs), Some tc =>
      cut_shape p hp cs c (length (rchildren tc)) (hes d) && cut_unit c (hes d)
      && match classify hp cs c (hes_at c (hes d)) (hes_at p (hes d)) with
         | Some classes => cut_distinct hp cs c classes
         | None => false
         end
  | _, _ => false
  end.

(* ====================================================================================== *)
(* 6. the trace of the driver, for the correspondence with the implementation              *)
(* ====================================================================================== *)
(* the state after get_state_diagram_compound, after every combine_subtrees call and after every
   cut_and_optimise call, in the order of the calls; None from the first failing call on *)
Fixpoint combine_trace (t : rtree) (lv : list nat) (st : pst) : pst * list (option pst) :=
  match lv with
  | [] => (st, [])
  | c :: r => let st1 := combine_subtrees t c st in
              let (st2, tr) := combine_trace t r st1 in (st2, Some st1 :: tr)
  end.
Fixpoint cut_trace (t : rtree) (lv : list nat) (st : option pst) : option pst * list (option pst) :=
  match lv with
  | [] => (st, [])
  | c :: r => let st1 := match st with Some x => cut_step t c x | None => None end in
              let (st2, tr) := cut_trace t r st1 in (st2, st1 :: tr)
  end.
Fixpoint levels_trace (t : rtree) (lvs : list (list nat)) (st : option pst) : list (option pst) :=
  match lvs with
  | [] => []
  | lv :: r =>
      match st with
      | None => map (fun _ => None) (lv ++ lv) ++ levels_trace t r None
      | Some x =>
          let (x1, tr1) := combine_trace t lv x in
          let (x2, tr2) := cut_trace t lv (Some x1) in
          tr1 ++ tr2 ++ levels_trace t r x2
      end
  end.
Definition pipeline_trace (t : rtree) (H : list pterm) : list (option pst) :=
  match live_terms H with
  | [] => match H with [] => [] | _ => [Some (pipe_init t H)] end
  | H' => Some (pipe_init t H') :: levels_trace t (levels t) (Some (pipe_init t H'))
  end.

(* equality of canonical forms (Model.sd_canon) *)
Definition qp_eqb (a b : Z * positive) : bool := Z.eqb (fst a) (fst b) && Pos.eqb (snd a) (snd b).
Definition centry_eqb (a b : nat * (Z * positive) * nat * list nat) : bool :=
  match a, b with
  | (l1, q1, g1, v1), (l2, q2, g2, v2) => Nat.eqb l1 l2 && qp_eqb q1 q2 && Nat.eqb g1 g2 && leqb Nat.eqb v1 v2
  end.
Definition canon_eqb (a b : canon) : bool :=
  leqb (fun x y => Nat.eqb (fst x) (fst y) && leqb centry_eqb (snd x) (snd y)) (fst a) (fst b)
  && leqb (fun x y => Nat.eqb (fst x) (fst y) && Nat.eqb (snd x) (snd y)) (snd a) (snd b).

(* per step: 0 = the model fails here, 1 = canonical forms differ, 2 = equal but the model's state
   is not sd_wf, 3 = equal and well-formed.  `obs` = the canonical forms of the implementation's
   diagrams after the corresponding calls (None: the implementation's diagram is not well-indexed
   there / the call raised) *)
Definition step_verdict (t : rtree) (m : option pst) (o : option canon) : nat :=
  match m, o with
  | None, None => 3
  | None, Some _ => 0
  | Some _, None => 1
  | Some st, Some cn => if canon_eqb (sd_canon t (p_sd st)) cn then (if sd_wf t (p_sd st) then 3 else 2) else 1
  end.
Fixpoint trace_verdicts (t : rtree) (ms : list (option pst)) (os : list (option canon)) : list nat :=
  match ms, os with
  | m :: ms', o :: os' => step_verdict t m o :: trace_verdicts t ms' os'
  | _, _ => []
  end.
(* the preconditions of the step theorems along the trace: cut_pre before every cut *)
Fixpoint cut_pre_trace (t : rtree) (lv : list nat) (st : option pst) : list bool :=
  match lv with
  | [] => []
  | c :: r => match st with
              | Some x => cut_pre t c (p_sd x) :: cut_pre_trace t r (cut_step t c x)
              | None => []
              end
  end.

(* ====================================================================================== *)
(* 7. the preconditions of the step theorems along a run (decidable forms)                 *)
(* ====================================================================================== *)
(* Core.merge_equal_subtrees_sound: equal child sides (compared through normal forms) and the
   privacy of the erased sub-diagram *)
Definition merge_pre (t : rtree) (c : nat) (x1 x2 : oid) (d : sd) : bool :=
  poly_eqb (pnorm (child_side t d c x1)) (pnorm (child_side t d c x2))
  && privateb (merge_dead t c x2 (merge_redirect t c x1 x2 (hes d))) (merge_redirect t c x1 x2 (hes d)).
Fixpoint combine_checks (t : rtree) (c : nat) (tb : list (oid * list nat)) (snap : list he)
                        (seen : list (list nat * oid)) (d : sd) : list bool :=
  match snap with
  | [] => []
  | e2 :: r =>
      let hs := hash_of tb (hid e2) in
      match find (fun e => leqb Nat.eqb (fst e) hs) seen with
      | Some e => merge_pre t c (snd e) (head_vertex e2) d
                  :: combine_checks t c tb r seen (merge t c (snd e) (head_vertex e2) d)
      | None => combine_checks t c tb r (seen ++ [(hs, head_vertex e2)]) d
      end
  end.
Definition combine_pre (t : rtree) (c : nat) (st : pst) : bool :=
  forallb (fun b => b) (combine_checks t c (p_hash st) (hes_at c (hes (p_sd st))) [] (p_sd st)).
Fixpoint combine_pass_checks (t : rtree) (lv : list nat) (st : pst) : list bool :=
  match lv with
  | [] => []
  | c :: r => combine_pre t c st :: combine_pass_checks t r (combine_subtrees t c st)
  end.
Fixpoint levels_checks (t : rtree) (lvs : list (list nat)) (st : option pst) : list bool :=
  match lvs with
  | [] => []
  | lv :: r =>
      match st with
      | None => []
      | Some x =>
          combine_pass_checks t lv x
          ++ cut_pre_trace t lv (Some (combine_pass t lv x))
          ++ levels_checks t r (cut_pass t lv (Some (combine_pass t lv x)))
      end
  end.
Definition pipeline_checks (t : rtree) (H : list pterm) : list bool :=
  match live_terms H with
  | [] => []
  | H' => levels_checks t (levels t) (Some (pipe_init t H'))
  end.
Definition pipeline_ok (t : rtree) (H : list pterm) : bool := forallb (fun b => b) (pipeline_checks t H).
