(* The invariant of the BFS run of the BIPARTITE driver (SD/Pipeline.v): with pairwise distinct
   operator strings every step precondition holds, hence from_hamiltonian_bipartite is exact.
   1. the base-shaped region below the frontier: value of a vertex, effect of a merge;
   2. combine_subtrees on a base-shaped child;
   3. cut_and_optimise: the parent keeps pairwise different hyperedges, the child becomes a
      frontier node;
   4. the level induction. *)
From Coq Require Import List Arith Bool QArith Lia Permutation.
From PTN Require Bip.Model.
From PTN Require Import Tree.RTree Tree.RTreeProofs SD.Model SD.ModelProofs SD.Core SD.CoreProofs SD.Pipeline SD.PipelineProofs.
Import ListNotations.
Local Close Scope Qc_scope.
Local Close Scope Q_scope.

(* ====================================================================================== *)
(* 1. the base-shaped region                                                               *)
(* ====================================================================================== *)
(* the terms alive in a sub-diagram: (index, labels) *)
Definition tlist := list (nat * (nat -> nat)).
(* the hyperedge of a term at a non-root node v with children cs, as SingleTermDiagram builds it *)
Definition bhe (jf : nat * (nat -> nat)) (v : nat) (cs : list rtree) : he :=
  mkHe (fst jf, v) v (snd jf v) 1%Q 0 ((fst jf, v) :: map (fun g => (fst jf, rid g)) cs).
Definition BaseAt (s : list he) (J : tlist) (tv : rtree) : Prop :=
  hes_at (rid tv) s = map (fun jf => bhe jf (rid tv) (rchildren tv)) J.
Definition BaseBelow (s : list he) (J : tlist) (tv : rtree) : Prop :=
  forall tx, is_subtree tx tv -> BaseAt s J tx.
Definition down (f : nat -> nat) (tv : rtree) : list nat := map f (ids tv).

Lemma BaseBelow_child : forall s J v cs g, BaseBelow s J (RNode v cs) -> In g cs -> BaseBelow s J g.
Proof. intros s J v cs g H Hg tx Hx. apply H. eapply sub_child; eauto. Qed.

Lemma flat_map_pick : forall {A B} (f : A -> list B) l a0, NoDup l -> In a0 l ->
  (forall a, In a l -> a <> a0 -> f a = []) -> flat_map f l = f a0.
Proof.
  intros A B f l a0. induction l as [|a l IH]; intros ND Hin H; [destruct Hin|].
  inversion ND as [|? ? Hn ND']; subst. cbn [flat_map]. destruct Hin as [E|Hin].
  - subst a. rewrite flat_map_nil_all; [apply app_nil_r|].
    intros b Hb. apply H; [right; exact Hb|]. intros E. subst. contradiction.
  - rewrite (H a); [|left; reflexivity|intros E; subst; contradiction]. cbn [app].
    apply IH; auto. intros b Hb Hne. apply H; auto. right. exact Hb.
Qed.

Lemma NoDup_fst : forall {A B} (l : list (A * B)), NoDup (map fst l) -> NoDup l.
Proof. intros A B l H. eapply NoDup_map_inv. exact H. Qed.

Lemma oid_eqb_false : forall a b, a <> b -> oid_eqb a b = false.
Proof. intros a b H. destruct (oid_eqb a b) eqn:E; auto. apply oid_eqb_true in E. contradiction. Qed.

(* the value below the vertex of an alive term: its labels on the subtree *)
Lemma base_child_side : forall s J, NoDup (map fst J) -> forall tv, BaseBelow s J tv ->
  forall jf, In jf J -> feq (val s tv (Some (fst jf, rid tv))) [(1%Q, (@nil nat, down (snd jf) tv))].
Proof.
  intros s J NDJ. induction tv as [v cs IH] using rtree_ind2. intros HB jf Hjf. rewrite Forall_forall in IH.
  rewrite val_at. pose proof (HB (RNode v cs) (sub_here _)) as Hat. unfold BaseAt in Hat. cbn [rid rchildren] in *.
  rewrite Hat, flat_map_map.
  rewrite (flat_map_pick _ J jf (NoDup_fst J NDJ) Hjf).
  2:{ intros a Ha Hne. unfold val_he, bhe. cbn [hnode hverts child_verts]. rewrite Nat.eqb_refl.
      rewrite oid_eqb_false; [reflexivity|]. intros E. inversion E. apply Hne.
      eapply (NoDup_map_inj fst J); eauto. }
  unfold val_he, bhe. cbn [hnode hverts child_verts]. rewrite Nat.eqb_refl, oid_eqb_refl.
  eapply feq_trans.
  - apply pmul_feq; [apply feq_refl|].
    apply (prodc_singletons _ (fun g => (fst jf, rid g)) (fun g => down (snd jf) g)).
    intros g Hg. apply (IH g Hg); auto. eapply BaseBelow_child; eauto.
  - unfold he_term. cbn [hlam hgam hlabel]. rewrite pmul_single.
    constructor; [|constructor]. split; cbn [fst snd]; [ring|].
    unfold kmul, down. cbn [fst snd mono mmul fold_right ids map app]. rewrite map_flat_map. reflexivity.
Qed.

(* ---- erasing the sub-diagram of one term ---------------------------------------------------- *)
Definition drop_term (j : nat) (J : tlist) : tlist := filter (fun jf => negb (Nat.eqb (fst jf) j)) J.

Lemma dead_of_cons : forall k d M x, dead_of ((k, d) :: M) x = if Nat.eqb k x then d else dead_of M x.
Proof. intros. unfold dead_of. cbn [find fst snd]. destruct (Nat.eqb k x); reflexivity. Qed.
Lemma dead_of_app : forall M1 M2 x, dead_of (M1 ++ M2) x =
  if existsb (fun e => Nat.eqb (fst e) x) M1 then dead_of M1 x else dead_of M2 x.
Proof.
  induction M1 as [|[k d] M1 IH]; intros M2 x; [reflexivity|]. cbn [app existsb fst]. rewrite !dead_of_cons.
  destruct (Nat.eqb k x); [reflexivity|]. cbn [orb]. apply IH.
Qed.
Lemma dead_map_key_in : forall s t dead x, In x (ids t) -> existsb (fun e => Nat.eqb (fst e) x) (dead_map s t dead) = true.
Proof.
  intros s. induction t as [v cs IH] using rtree_ind2. intros dead x Hx. rewrite Forall_forall in IH.
  cbn [dead_map existsb fst]. destruct Hx as [Hx|Hx]; [subst; rewrite Nat.eqb_refl; reflexivity|].
  apply orb_true_iff. right. cbn [ids] in Hx.
  revert Hx. generalize (map (fun h : he => tl (hverts h)) (filter (entered dead v) s)).
  induction cs as [|k cs IHcs]; intros vss Hx; [destruct Hx|]. cbn [flat_map] in Hx.
  rewrite existsb_app. apply in_app_or in Hx. destruct Hx as [Hx|Hx].
  - rewrite (IH k (or_introl eq_refl)); auto.
  - apply orb_true_iff. right. apply IHcs; auto. intros k' Hk'. apply IH. right. exact Hk'.
Qed.
Lemma dead_map_key_notin : forall s t dead x, ~ In x (ids t) -> existsb (fun e => Nat.eqb (fst e) x) (dead_map s t dead) = false.
Proof.
  intros s t dead x H. destruct (existsb _ _) eqn:E; auto. exfalso. apply existsb_exists in E.
  destruct E as [e [He Ex]]. apply Nat.eqb_eq in Ex. apply dead_map_keys in He. rewrite Ex in He. contradiction.
Qed.

Lemma filter_map_comm : forall {A B} (f : A -> B) (p : B -> bool) l, filter p (map f l) = map f (filter (fun a => p (f a)) l).
Proof. intros A B f p l. induction l as [|a l IH]; [reflexivity|]. cbn [map filter]. destruct (p (f a)); cbn [map]; rewrite IH; reflexivity. Qed.

Lemma entered_filter : forall dead v s, filter (entered dead v) s
  = filter (fun h => match hverts h with q :: _ => omem q dead | [] => false end) (hes_at v s).
Proof. intros. unfold hes_at. rewrite filter_filter_and. reflexivity. Qed.

Lemma filter_fst_unique : forall (J : tlist) jf, NoDup (map fst J) -> In jf J ->
  filter (fun a => Nat.eqb (fst a) (fst jf)) J = [jf].
Proof.
  induction J as [|a J IH]; intros jf ND Hin; [destruct Hin|]. cbn [map] in ND. inversion ND as [|? ? Hn ND']; subst.
  cbn [filter]. destruct Hin as [E|Hin].
  - subst a. rewrite Nat.eqb_refl. f_equal. apply filter_none. intros b Hb. apply Nat.eqb_neq. intros E.
    apply Hn. rewrite <- E. apply in_map. exact Hb.
  - destruct (Nat.eqb (fst a) (fst jf)) eqn:E; [|apply IH; auto]. apply Nat.eqb_eq in E. exfalso.
    apply Hn. rewrite E. apply in_map. exact Hin.
Qed.

Definition dead_go (s : list he) : list rtree -> list (list oid) -> list (nat * list oid) :=
  fix go (cs : list rtree) (vss : list (list oid)) : list (nat * list oid) :=
    match cs with
    | [] => []
    | k :: cs' => dead_map s k (heads vss) ++ go cs' (map (@tl oid) vss)
    end.
Lemma dead_map_go : forall s v cs dead,
  dead_map s (RNode v cs) dead = (v, dead) :: dead_go s cs (map (fun h => tl (hverts h)) (filter (entered dead v) s)).
Proof. reflexivity. Qed.
Lemma dead_go_base : forall s j cs, dead_go s cs [map (fun g => (j, rid g)) cs] = flat_map (fun k => dead_map s k [(j, rid k)]) cs.
Proof. intros s j. induction cs as [|k cs IH]; [reflexivity|]. cbn [dead_go map heads flat_map app tl]. f_equal. exact IH. Qed.

(* the dead map of erase_subtree on a base-shaped region: the vertices of the erased term *)
Lemma dead_base : forall s J, NoDup (map fst J) -> forall jf, In jf J ->
  forall tv, NoDup (ids tv) -> BaseBelow s J tv ->
  forall x, In x (ids tv) -> dead_of (dead_map s tv [(fst jf, rid tv)]) x = [(fst jf, x)].
Proof.
  intros s J NDJ jf Hjf. induction tv as [v cs IH] using rtree_ind2. intros ND HB x Hx. rewrite Forall_forall in IH.
  cbn [dead_map rid]. rewrite dead_of_cons. destruct (Nat.eqb v x) eqn:Ev; [apply Nat.eqb_eq in Ev; subst; reflexivity|].
  destruct Hx as [Hx|Hx]; [subst; rewrite Nat.eqb_refl in Ev; discriminate|].
  pose proof (HB (RNode v cs) (sub_here _)) as Hat. unfold BaseAt in Hat. cbn [rid rchildren] in Hat.
  rewrite entered_filter, Hat, filter_map_comm, map_map.
  assert (Ef : filter (fun a : nat * (nat -> nat) =>
                         match hverts (bhe a v cs) with q :: _ => omem q [(fst jf, v)] | [] => false end) J = [jf]).
  { rewrite <- (filter_fst_unique J jf NDJ Hjf). apply filter_ext. intros a. unfold bhe. cbn [hverts omem existsb oid_eqb fst snd].
    unfold oid_eqb. cbn [fst snd]. rewrite Nat.eqb_refl, andb_true_r, orb_false_r. reflexivity. }
  rewrite Ef. cbn [map bhe hverts tl].
  change (dead_of (dead_go s cs [map (fun g => (fst jf, rid g)) cs]) x = [(fst jf, x)]).
  rewrite dead_go_base. clear Ef Hat.
  destruct (wf_inv _ _ ND) as [Hv [Hnd Hcs]]. rewrite Forall_forall in Hcs. cbn [ids] in Hx.
  apply in_flat_map in Hx. destruct Hx as [k [Hk Hxk]].
  destruct (in_split _ _ Hk) as [l1 [l2 El]]. rewrite El, flat_map_app. cbn [flat_map].
  rewrite El in Hnd. destruct (flat_map_NoDup_split ids l1 k l2 Hnd) as [_ [_ Hd]].
  rewrite dead_of_app.
  assert (E1 : existsb (fun e => Nat.eqb (fst e) x) (flat_map (fun k0 => dead_map s k0 [(fst jf, rid k0)]) l1) = false).
  { destruct (existsb _ _) eqn:E; auto. exfalso. apply existsb_exists in E. destruct E as [e [He Ex]].
    apply Nat.eqb_eq in Ex. apply in_flat_map in He. destruct He as [k' [Hk' He]]. apply dead_map_keys in He.
    apply (Hd x Hxk). rewrite flat_map_app. apply in_or_app. left. apply in_flat_map. exists k'. split; auto. rewrite <- Ex. exact He. }
  rewrite E1, dead_of_app, (dead_map_key_in s k _ x Hxk).
  apply IH; auto. rewrite El in HB. eapply BaseBelow_child; [exact HB|]. apply in_or_app. right. left. reflexivity.
Qed.

(* ---- effect of one merge on the hyperedge lists ---------------------------------------------- *)
Lemma hes_at_map : forall (f : he -> he) v s, (forall h, hnode (f h) = hnode h) -> hes_at v (map f s) = map f (hes_at v s).
Proof.
  intros f v s H. unfold hes_at. rewrite filter_map_comm. f_equal. apply filter_ext. intros h. rewrite H. reflexivity.
Qed.
Lemma hes_at_filter : forall (q : he -> bool) v s, hes_at v (filter q s) = filter q (hes_at v s).
Proof. intros. unfold hes_at. rewrite !filter_filter_and. apply filter_ext. intros h. apply andb_comm. Qed.

Lemma redirect_other : forall p hp cs c x1 x2 h, hnode h <> p -> redirect_he p hp cs c x1 x2 h = h.
Proof. intros. unfold redirect_he. destruct (Nat.eqb (hnode h) p) eqn:E; auto. apply Nat.eqb_eq in E. contradiction. Qed.

Lemma hes_at_redirect : forall p hp cs c x1 x2 v s,
  hes_at v (map (redirect_he p hp cs c x1 x2) s)
  = if Nat.eqb v p then map (redirect_he p hp cs c x1 x2) (hes_at p s) else hes_at v s.
Proof.
  intros. rewrite hes_at_map by (intros; apply hnode_redirect).
  destruct (Nat.eqb v p) eqn:E; [apply Nat.eqb_eq in E; subst; reflexivity|].
  rewrite <- (map_id (hes_at v s)) at 2. apply map_ext_in. intros h Hh. apply redirect_other.
  apply hes_at_in in Hh. destruct Hh as [_ Hn]. rewrite Hn. apply Nat.eqb_neq. exact E.
Qed.

Lemma BaseBelow_ext : forall s s' J tv, (forall x, In x (ids tv) -> hes_at x s' = hes_at x s) ->
  BaseBelow s J tv -> BaseBelow s' J tv.
Proof.
  intros s s' J tv H HB tx Hx. unfold BaseAt. rewrite H; [apply HB; exact Hx|].
  eapply is_subtree_ids; eauto. apply rid_in_ids.
Qed.

Section MergeEffect.
  Variables (t : rtree) (p : nat) (hp : bool) (cs : list rtree) (c : nat) (tc : rtree).
  Hypothesis ND : NoDup (ids t).
  Hypothesis HF : find_parent t false c = Some (p, hp, cs).
  Hypothesis HS : subtree c t = Some tc.
  Variables (s : list he) (J : tlist) (jf1 jf2 : nat * (nat -> nat)).
  Hypothesis NDJ : NoDup (map fst J).
  Hypothesis H1 : In jf1 J.
  Hypothesis H2 : In jf2 J.
  Hypothesis Hne : fst jf1 <> fst jf2.
  Hypothesis HB : BaseBelow s J tc.
  Let x1 : oid := (fst jf1, c).
  Let x2 : oid := (fst jf2, c).
  Let s1 := merge_redirect t c x1 x2 s.
  Let M := merge_dead t c x2 s1.

  Lemma me_tc : rid tc = c /\ is_subtree tc t /\ NoDup (ids tc) /\ ~ In p (ids tc).
  Proof.
    destruct (subtree_sound _ _ _ HS) as [E Hs]. split; [exact E|]. split; [exact Hs|]. split; [eapply is_subtree_wf; eauto|].
    destruct (find_parent_node_at _ _ _ _ _ _ HF) as [Hn [k [Hk Ek]]].
    assert (tc = k). { rewrite <- Ek, (child_of_subtree t false p hp cs k ND Hn Hk) in HS. congruence. }
    subst k. assert (NDp : NoDup (ids (RNode p cs))) by (eapply is_subtree_wf; [eapply node_at_subtree; eauto | exact ND]).
    eapply wf_root_notin_child; eauto.
  Qed.
  Lemma me_s1 : s1 = map (redirect_he p hp cs c x1 x2) s.
  Proof. unfold s1, merge_redirect. rewrite HF. reflexivity. Qed.
  Lemma me_base1 : BaseBelow s1 J tc.
  Proof.
    destruct me_tc as (_ & _ & _ & Hp). apply (BaseBelow_ext s); auto. intros x Hx. rewrite me_s1, hes_at_redirect.
    destruct (Nat.eqb x p) eqn:E; auto. apply Nat.eqb_eq in E. subst. contradiction.
  Qed.
  Lemma me_dead_in : forall x, In x (ids tc) -> dead_of M x = [(fst jf2, x)].
  Proof.
    intros x Hx. destruct me_tc as (Ec & _ & NDc & _). unfold M, merge_dead. rewrite HS.
    unfold x2. rewrite <- Ec. apply (dead_base s1 J NDJ jf2 H2 tc NDc me_base1 x Hx).
  Qed.
  Lemma me_dead_out : forall x, ~ In x (ids tc) -> dead_of M x = [].
  Proof.
    intros x Hx. unfold M, merge_dead. rewrite HS. apply dead_of_notin. intros e He E. apply dead_map_keys in He.
    rewrite E in He. contradiction.
  Qed.

  Lemma me_hes : merge_hes t c x1 x2 s = erase_hes M s1.
  Proof.
    unfold merge_hes. rewrite oid_eqb_false, HF; [reflexivity|]. unfold x1, x2. intros E. inversion E. contradiction.
  Qed.

  Lemma me_at_p : hes_at p (merge_hes t c x1 x2 s) = map (redirect_he p hp cs c x1 x2) (hes_at p s).
  Proof.
    rewrite me_hes. unfold erase_hes. rewrite hes_at_filter, me_s1, hes_at_redirect, Nat.eqb_refl.
    apply filter_all. intros h Hh. apply in_map_iff in Hh. destruct Hh as [h0 [E Hh0]]. subst h.
    apply hes_at_in in Hh0. destruct Hh0 as [_ Hn]. unfold is_dead. rewrite hnode_redirect, Hn.
    destruct me_tc as (_ & _ & _ & Hp). rewrite (me_dead_out p Hp). destruct (hverts _); reflexivity.
  Qed.
  Lemma me_at_out : forall v, v <> p -> ~ In v (ids tc) -> hes_at v (merge_hes t c x1 x2 s) = hes_at v s.
  Proof.
    intros v Hvp Hv. rewrite me_hes. unfold erase_hes. rewrite hes_at_filter, me_s1, hes_at_redirect.
    apply Nat.eqb_neq in Hvp. rewrite Hvp. apply filter_all. intros h Hh.
    apply hes_at_in in Hh. destruct Hh as [_ Hn]. unfold is_dead. rewrite Hn, (me_dead_out v Hv). destruct (hverts h); reflexivity.
  Qed.
  Lemma me_base : BaseBelow (merge_hes t c x1 x2 s) (drop_term (fst jf2) J) tc.
  Proof.
    intros tx Hx. unfold BaseAt. rewrite me_hes. unfold erase_hes. rewrite hes_at_filter.
    rewrite (me_base1 tx Hx). rewrite filter_map_comm. unfold drop_term. f_equal. apply filter_ext. intros a.
    unfold is_dead, bhe. cbn [hverts hnode].
    rewrite me_dead_in by (eapply is_subtree_ids; eauto; apply rid_in_ids).
    cbn [omem existsb]. unfold oid_eqb. cbn [fst snd]. rewrite Nat.eqb_refl, andb_true_r, orb_false_r. reflexivity.
  Qed.
End MergeEffect.

(* ---- vertex names carry their edge ------------------------------------------------------------ *)
Definition Typed (t : rtree) (s : list he) : Prop :=
  forall h y, In h s -> In y (hverts h) -> snd y = hnode h \/ parent_of (snd y) t = Some (hnode h).

Lemma find_parent_parent_of : forall t h0 c p hp cs, NoDup (ids t) -> find_parent t h0 c = Some (p, hp, cs) ->
  parent_of c t = Some p.
Proof.
  intros t h0 c p hp cs ND H. destruct (find_parent_node_at _ _ _ _ _ _ H) as [Hn [k [Hk Ek]]].
  apply parent_of_complete; auto. subst c. eapply edges_subtree; [eapply node_at_subtree; eauto|].
  apply edges_root. exact Hk.
Qed.

Lemma parent_in_subtree : forall t tc k pp, NoDup (ids t) -> is_subtree tc t -> In k (ids tc) -> k <> rid tc ->
  parent_of k t = Some pp -> In pp (ids tc).
Proof.
  intros t tc k pp ND Hs Hk Hne Hp. destruct (parent_of_nonroot tc k Hk Hne) as [p' Hp'].
  assert (p' = pp).
  { eapply (edges_child_unique t p' pp k ND); [eapply edges_subtree; eauto | apply parent_of_sound; exact Hp]. }
  subst p'. apply (edges_in_ids tc pp k Hp').
Qed.

Lemma bhe_verts_fst : forall jf v cs y, In y (hverts (bhe jf v cs)) -> fst y = fst jf.
Proof.
  intros jf v cs y H. unfold bhe in H. cbn [hverts] in H. destruct H as [H|H]; [subst; reflexivity|].
  apply in_map_iff in H. destruct H as [g [E _]]. subst. reflexivity.
Qed.

Lemma subst_at_in : forall cs c x1 x2 vs y, In y (subst_at cs c x1 x2 vs) -> y = x1 \/ In y vs.
Proof.
  induction cs as [|k cs IH]; intros c x1 x2 vs y H; destruct vs as [|z vs]; cbn [subst_at] in H; auto.
  destruct (Nat.eqb (rid k) c).
  - destruct H as [H|H]; [|right; right; exact H]. destruct (oid_eqb z x2); [left; auto | right; left; exact H].
  - destruct H as [H|H]; [right; left; exact H|]. destruct (IH _ _ _ _ _ H) as [E|E]; [left; exact E | right; right; exact E].
Qed.
Lemma redirect_verts_in : forall p hp cs c x1 x2 h y, In y (hverts (redirect_he p hp cs c x1 x2 h)) -> y = x1 \/ In y (hverts h).
Proof.
  intros p hp cs c x1 x2 h y H. unfold redirect_he in H. destruct (Nat.eqb (hnode h) p); [|right; exact H].
  cbn [set_verts hverts] in H. destruct hp.
  - destruct (hverts h) as [|q r]; [destruct H|]. destruct H as [H|H]; [right; left; exact H|].
    destruct (subst_at_in _ _ _ _ _ _ H) as [E|E]; [left; exact E | right; right; exact E].
  - apply subst_at_in in H. exact H.
Qed.

Section MergeSound.
  Variables (t : rtree) (p : nat) (hp : bool) (cs : list rtree) (c : nat) (tc : rtree).
  Hypothesis ND : NoDup (ids t).
  Hypothesis HF : find_parent t false c = Some (p, hp, cs).
  Hypothesis HS : subtree c t = Some tc.
  Variables (d : sd) (J : tlist) (jf1 jf2 : nat * (nat -> nat)).
  Hypothesis NDJ : NoDup (map fst J).
  Hypothesis H1 : In jf1 J.
  Hypothesis H2 : In jf2 J.
  Hypothesis Hne : fst jf1 <> fst jf2.
  Hypothesis HB : BaseBelow (hes d) J tc.
  Hypothesis Hdown : down (snd jf1) tc = down (snd jf2) tc.
  Hypothesis HT : Typed t (hes d).
  Local Notation x1 := (fst jf1, c).
  Local Notation x2 := (fst jf2, c).
  Hypothesis Hp : forall h, In h (hes_at p (hes d)) -> ~ In x2 (hverts (redirect_he p hp cs c x1 x2 h)).

  Lemma typed_redirect : Typed t (map (redirect_he p hp cs c x1 x2) (hes d)).
  Proof.
    intros h y Hh Hy. apply in_map_iff in Hh. destruct Hh as [h0 [E Hh0]]. subst h. rewrite hnode_redirect.
    destruct (redirect_verts_in _ _ _ _ _ _ _ _ Hy) as [Ey|Hy0]; [|apply (HT h0 y Hh0 Hy0)].
    subst y. unfold redirect_he in Hy. destruct (Nat.eqb (hnode h0) p) eqn:En.
    - apply Nat.eqb_eq in En. right. cbn [snd]. rewrite En. eapply find_parent_parent_of; eauto.
    - apply (HT h0 x1 Hh0 Hy).
  Qed.

  Lemma merge_private : private (merge_dead t c x2 (merge_redirect t c x1 x2 (hes d))) (merge_redirect t c x1 x2 (hes d)).
  Proof.
    destruct (me_tc t p hp cs c tc ND HF HS) as (Ec & Hsub & NDc & Hpc).
    pose proof (me_s1 t p hp cs c HF (hes d) jf1 jf2) as Es1.
    intros h k y Hh Hd Hk Hy Hin.
    destruct (in_dec Nat.eq_dec k (ids tc)) as [Hkc|Hkc].
    2:{ rewrite (me_dead_out t c tc HS (hes d) jf1 jf2 k Hkc) in Hin. destruct Hin. }
    rewrite (me_dead_in t p hp cs c tc ND HF HS (hes d) J jf1 jf2 NDJ H2 HB k Hkc) in Hin.
    destruct Hin as [Ey|[]]. subst y.
    assert (Hty : Typed t (merge_redirect t c x1 x2 (hes d))) by (rewrite Es1; apply typed_redirect).
    destruct (Hty h _ Hh Hy) as [E|E]; cbn [snd] in E; [congruence|].
    destruct (Nat.eq_dec k c) as [Ekc|Ekc].
    - subst k. rewrite (find_parent_parent_of t false c p hp cs ND HF) in E. inversion E as [En].
      assert (Hh' : In h (hes_at p (merge_redirect t c x1 x2 (hes d)))) by (apply hes_at_in; auto).
      rewrite Es1, hes_at_redirect, Nat.eqb_refl in Hh'. apply in_map_iff in Hh'. destruct Hh' as [h0 [Eh Hh0]]. subst h.
      apply (Hp h0 Hh0). exact Hy.
    - assert (Hpp : In (hnode h) (ids tc)).
      { apply (parent_in_subtree t tc k (hnode h) ND Hsub Hkc); auto. congruence. }
      destruct (proj1 (subtree_Some_iff (hnode h) tc) Hpp) as [tx Htx]. destruct (subtree_sound _ _ _ Htx) as [Er Hsx].
      pose proof (me_base1 t p hp cs c tc ND HF HS (hes d) J jf1 jf2 HB tx Hsx) as Hat. unfold BaseAt in Hat. rewrite Er in Hat.
      assert (Hh' : In h (hes_at (hnode h) (merge_redirect t c x1 x2 (hes d)))) by (apply hes_at_in; auto).
      rewrite Hat in Hh'. apply in_map_iff in Hh'. destruct Hh' as [jf [Eh Hjf]].
      assert (Ej : fst jf = fst jf2). { rewrite <- Eh in Hy. apply bhe_verts_fst in Hy. cbn [fst] in Hy. congruence. }
      unfold is_dead in Hd. rewrite <- Eh in Hd. unfold bhe in Hd. cbn [hverts hnode] in Hd.
      rewrite (me_dead_in t p hp cs c tc ND HF HS (hes d) J jf1 jf2 NDJ H2 HB (hnode h) Hpp) in Hd.
      rewrite Ej in Hd. cbn [omem existsb] in Hd. rewrite oid_eqb_refl in Hd. discriminate.
  Qed.

  Lemma merge_sound_base : peq (sd_denote t (merge t c x1 x2 d)) (sd_denote t d).
  Proof.
    apply merge_equal_subtrees_sound; auto; [|apply merge_private].
    destruct (me_tc t p hp cs c tc ND HF HS) as (Ec & _). unfold child_side. rewrite HS. rewrite <- Ec.
    eapply peq_trans; [apply feq_peq; apply (base_child_side (hes d) J NDJ tc HB jf1 H1)|].
    rewrite Hdown. apply peq_sym. apply feq_peq. apply (base_child_side (hes d) J NDJ tc HB jf2 H2).
  Qed.
End MergeSound.

(* ====================================================================================== *)
(* 2. combine_subtrees on a base-shaped child                                              *)
(* ====================================================================================== *)
Definition upd_J (Jc : rtree -> tlist) (c : nat) (J' : tlist) : rtree -> tlist :=
  fun g => if Nat.eqb (rid g) c then J' else Jc g.

(* a hyperedge of the frontier node p: origin labels fo, its child vertices are vertices of alive terms
   of the children with the origin's labels below *)
Definition PH (tb : list (oid * list nat)) (p : nat) (hp : bool) (cs : list rtree) (Jc : rtree -> tlist) (h : he) : Prop :=
  exists (fo : nat -> nat) (a : rtree -> nat),
    hlabel h = fo p /\ hash_of tb (hid h) = fo p :: flat_map (down fo) cs /\
    child_part hp h = map (fun g => (a g, rid g)) cs /\
    (hp = true -> exists w r, hverts h = (w, p) :: r) /\
    forall g, In g cs -> exists jf, In jf (Jc g) /\ a g = fst jf /\ down (snd jf) g = down fo g.

Lemma subst_at_map : forall cs c x1 x2 (a : rtree -> nat), NoDup (map rid cs) ->
  subst_at cs c (x1, c) (x2, c) (map (fun g => (a g, rid g)) cs)
  = map (fun g => ((if Nat.eqb (rid g) c then (if Nat.eqb (a g) x2 then x1 else a g) else a g), rid g)) cs.
Proof.
  induction cs as [|k cs IH]; intros c x1 x2 a ND; [reflexivity|]. cbn [map] in ND. inversion ND as [|? ? Hn ND']; subst.
  cbn [map subst_at]. destruct (Nat.eqb (rid k) c) eqn:E.
  - apply Nat.eqb_eq in E. f_equal.
    + unfold oid_eqb. cbn [fst snd]. rewrite E, Nat.eqb_refl, andb_true_r. destruct (Nat.eqb (a k) x2); reflexivity.
    + apply map_ext_in. intros g Hg. destruct (Nat.eqb (rid g) c) eqn:Eg; [|reflexivity].
      apply Nat.eqb_eq in Eg. exfalso. apply Hn. rewrite E, <- Eg. apply in_map. exact Hg.
  - f_equal. apply IH. exact ND'.
Qed.

Lemma child_part_redirect : forall p hp cs c x1 x2 h, hnode h = p -> (hp = true -> hverts h <> []) ->
  child_part hp (redirect_he p hp cs c x1 x2 h) = subst_at cs c x1 x2 (child_part hp h).
Proof.
  intros p hp cs c x1 x2 h E Hne. unfold redirect_he. rewrite E, Nat.eqb_refl. unfold child_part. cbn [set_verts hverts].
  destruct hp; [|reflexivity]. destruct (hverts h) as [|q r]; [exfalso; apply Hne; auto|]. reflexivity.
Qed.

Lemma drop_term_in : forall j J jf, In jf (drop_term j J) <-> In jf J /\ fst jf <> j.
Proof.
  intros. unfold drop_term. rewrite filter_In, negb_true_iff, Nat.eqb_neq. tauto.
Qed.
Lemma drop_term_mid : forall K jf R, NoDup (map fst (K ++ jf :: R)) -> drop_term (fst jf) (K ++ jf :: R) = K ++ R.
Proof.
  intros K jf R ND. unfold drop_term. rewrite filter_app. cbn [filter]. rewrite Nat.eqb_refl. cbn [negb].
  rewrite map_app in ND. cbn [map] in ND. apply NoDup_remove in ND. destruct ND as [ND Hn].
  rewrite !filter_all; auto; intros a Ha; apply negb_true_iff; apply Nat.eqb_neq; intros E; apply Hn; rewrite <- E;
    apply in_or_app; [right|left]; apply in_map; exact Ha.
Qed.
Lemma NoDup_fst_drop : forall j J, NoDup (map fst J) -> NoDup (map fst (drop_term j J)).
Proof. intros. unfold drop_term. apply PTN.Bip.ModelProofs.NoDup_map_filter. assumption. Qed.

Lemma leqb_refl_nat : forall l, leqb Nat.eqb l l = true.
Proof. induction l as [|a l IH]; [reflexivity|]. cbn [leqb]. rewrite Nat.eqb_refl. exact IH. Qed.
Lemma leqb_nat_eq : forall l l', leqb Nat.eqb l l' = true -> l = l'.
Proof. apply leqb_eq. intros a b H. apply Nat.eqb_eq. exact H. Qed.

Lemma Typed_filter : forall t q s, Typed t s -> Typed t (filter q s).
Proof. intros t q s H h y Hh Hy. apply filter_In in Hh. destruct Hh as [Hh _]. eapply H; eauto. Qed.

Section MergeStep.
  Variables (t : rtree) (p : nat) (hp : bool) (cs : list rtree) (c : nat) (tc : rtree) (tb : list (oid * list nat)).
  Hypothesis ND : NoDup (ids t).
  Hypothesis HF : find_parent t false c = Some (p, hp, cs).
  Hypothesis HS : subtree c t = Some tc.
  Variables (d : sd) (Jc : rtree -> tlist) (jf1 jf2 : nat * (nat -> nat)).
  Hypothesis NDJ : NoDup (map fst (Jc tc)).
  Hypothesis H1 : In jf1 (Jc tc).
  Hypothesis H2 : In jf2 (Jc tc).
  Hypothesis Hne : fst jf1 <> fst jf2.
  Hypothesis HB : BaseBelow (hes d) (Jc tc) tc.
  Hypothesis Hdown : down (snd jf1) tc = down (snd jf2) tc.
  Hypothesis HT : Typed t (hes d).
  Hypothesis HP : forall h, In h (hes_at p (hes d)) -> PH tb p hp cs Jc h.
  Local Notation x1 := (fst jf1, c).
  Local Notation x2 := (fst jf2, c).
  Local Notation Jc' := (upd_J Jc c (drop_term (fst jf2) (Jc tc))).

  Lemma ms_facts : rid tc = c /\ In tc cs /\ NoDup (map rid cs) /\ p <> c.
  Proof.
    destruct (find_parent_node_at _ _ _ _ _ _ HF) as [Hn [k [Hk Ek]]].
    assert (tc = k). { rewrite <- Ek, (child_of_subtree t false p hp cs k ND Hn Hk) in HS. congruence. }
    subst k. assert (NDp : NoDup (ids (RNode p cs))) by (eapply is_subtree_wf; [eapply node_at_subtree; eauto | exact ND]).
    repeat split; auto; [eapply children_rid_nodup; eauto|].
    intros E. eapply (wf_root_notin_child p cs tc NDp Hk). rewrite E, <- Ek. apply rid_in_ids.
  Qed.

  Lemma ms_ph : forall h, In h (hes_at p (hes d)) -> PH tb p hp cs Jc' (redirect_he p hp cs c x1 x2 h).
  Proof.
    intros h Hh. destruct ms_facts as (Ec & Hk & NDr & Hpc).
    destruct (HP h Hh) as (fo & a & L & Hh' & CP & Hw & Hal).
    pose proof Hh as Hn. apply hes_at_in in Hn. destruct Hn as [_ Hn].
    exists fo, (fun g => if Nat.eqb (rid g) c then (if Nat.eqb (a g) (fst jf2) then fst jf1 else a g) else a g).
    assert (Hr : redirect_he p hp cs c x1 x2 h = set_verts h (hverts (redirect_he p hp cs c x1 x2 h))).
    { unfold redirect_he. rewrite Hn, Nat.eqb_refl. reflexivity. }
    split; [rewrite Hr; exact L|]. split; [rewrite Hr; exact Hh'|]. split.
    - rewrite child_part_redirect; auto.
      + rewrite CP. apply subst_at_map. exact NDr.
      + intros E. destruct (Hw E) as [w [r Ew]]. rewrite Ew. discriminate.
    - split.
      + intros E. destruct (Hw E) as [w [r Ew]]. unfold redirect_he. rewrite Hn, Nat.eqb_refl. subst hp.
        cbn [set_verts hverts]. rewrite Ew. eauto.
      + intros g Hg. destruct (Hal g Hg) as (jf & Hjf & Ea & Ed). unfold upd_J.
        destruct (Nat.eqb (rid g) c) eqn:Eg; [|exists jf; auto].
        apply Nat.eqb_eq in Eg. assert (g = tc) by (apply (rid_unique_in cs); auto; congruence). subst g.
        destruct (Nat.eqb (a tc) (fst jf2)) eqn:Ea2.
        * apply Nat.eqb_eq in Ea2. exists jf1. split; [apply drop_term_in; auto|]. split; [reflexivity|].
          assert (jf = jf2) by (eapply (NoDup_map_inj fst (Jc tc)); eauto; congruence). subst jf. congruence.
        * apply Nat.eqb_neq in Ea2. exists jf. split; [apply drop_term_in; split; auto; congruence|]. auto.
  Qed.

  Lemma ms_notin : forall h, In h (hes_at p (hes d)) -> ~ In x2 (hverts (redirect_he p hp cs c x1 x2 h)).
  Proof.
    intros h Hh Hin. destruct ms_facts as (Ec & Hk & NDr & Hpc).
    destruct (ms_ph h Hh) as (fo & a & _ & _ & CP & Hw & Hal).
    assert (Hcp : ~ In x2 (child_part hp (redirect_he p hp cs c x1 x2 h))).
    { rewrite CP. intros Hi. apply in_map_iff in Hi. destruct Hi as [g [E Hg]]. inversion E as [[Ea Er]].
      destruct (Hal g Hg) as (jf & Hjf & Ea' & _). unfold upd_J in Hjf. rewrite Er, Nat.eqb_refl in Hjf.
      apply drop_term_in in Hjf. destruct Hjf as [_ Hjf]. congruence. }
    unfold child_part in Hcp. destruct hp; [|contradiction].
    destruct (Hw eq_refl) as [w [r Ew]]. rewrite Ew in Hin, Hcp. cbn [tl] in Hcp. destruct Hin as [E|Hin]; [|contradiction].
    inversion E. contradiction.
  Qed.

  Lemma merge_step :
    BaseBelow (hes (merge t c x1 x2 d)) (Jc' tc) tc /\
    (forall h, In h (hes_at p (hes (merge t c x1 x2 d))) -> PH tb p hp cs Jc' h) /\
    Typed t (hes (merge t c x1 x2 d)) /\
    hes_at p (hes (merge t c x1 x2 d)) = map (redirect_he p hp cs c x1 x2) (hes_at p (hes d)) /\
    (forall v, v <> p -> ~ In v (ids tc) -> hes_at v (hes (merge t c x1 x2 d)) = hes_at v (hes d)) /\
    peq (sd_denote t (merge t c x1 x2 d)) (sd_denote t d).
  Proof.
    destruct ms_facts as (Ec & Hk & NDr & Hpc). unfold merge. cbn [hes].
    assert (Ejc : Jc' tc = drop_term (fst jf2) (Jc tc)) by (unfold upd_J; rewrite Ec, Nat.eqb_refl; reflexivity).
    split; [rewrite Ejc; eapply me_base; eauto|].
    assert (Ep : hes_at p (merge_hes t c x1 x2 (hes d)) = map (redirect_he p hp cs c x1 x2) (hes_at p (hes d))).
    { eapply me_at_p; eauto. }
    split; [intros h Hh; rewrite Ep in Hh; apply in_map_iff in Hh; destruct Hh as [h0 [E Hh0]]; subst h; apply ms_ph; exact Hh0|].
    split.
    { rewrite (me_hes t p hp cs c HF (hes d) jf1 jf2 Hne). unfold erase_hes. apply Typed_filter.
      rewrite (me_s1 t p hp cs c HF (hes d) jf1 jf2). eapply typed_redirect; eauto. }
    split; [exact Ep|]. split; [intros v Hv1 Hv2; eapply me_at_out; eauto|].
    eapply merge_sound_base; eauto. exact ms_notin.
  Qed.
End MergeStep.

Definition key2 (tb : list (oid * list nat)) (hp : bool) (h : he) : option oid * list nat :=
  (if hp then hd_error (hverts h) else None, hash_of tb (hid h)).

Lemma PH_ext : forall tb p hp cs Jc Jc' h, (forall g, In g cs -> Jc' g = Jc g) -> PH tb p hp cs Jc h -> PH tb p hp cs Jc' h.
Proof.
  intros tb p hp cs Jc Jc' h E (fo & a & L & Hh & CP & Hw & Hal). exists fo, a. repeat split; auto.
  intros g Hg. rewrite (E g Hg). apply Hal. exact Hg.
Qed.

Lemma key2_redirect : forall tb p hp cs c x1 x2 h, key2 tb hp (redirect_he p hp cs c x1 x2 h) = key2 tb hp h.
Proof.
  intros. unfold key2, redirect_he. destruct (Nat.eqb (hnode h) p); [|reflexivity]. cbn [set_verts hid hverts].
  destruct hp; [|reflexivity]. destruct (hverts h); reflexivity.
Qed.

Section CombineLoop.
  Variables (t : rtree) (p : nat) (hp : bool) (cs : list rtree) (c : nat) (tc : rtree) (tb : list (oid * list nat)).
  Hypothesis ND : NoDup (ids t).
  Hypothesis HF : find_parent t false c = Some (p, hp, cs).
  Hypothesis HS : subtree c t = Some tc.

  Definition snap_of (J : tlist) : list he := map (fun jf => bhe jf c (rchildren tc)) J.
  Definition seen_of (K : tlist) : list (list nat * oid) := map (fun jf => (down (snd jf) tc, (fst jf, c))) K.

  Record CInv (d : sd) (Jc : rtree -> tlist) : Prop := {
    ci_nd : NoDup (map fst (Jc tc));
    ci_base : BaseBelow (hes d) (Jc tc) tc;
    ci_typed : Typed t (hes d);
    ci_ph : forall h, In h (hes_at p (hes d)) -> PH tb p hp cs Jc h }.

  Lemma cl_facts : rid tc = c /\ In tc cs /\ NoDup (map rid cs) /\ p <> c.
  Proof. eapply ms_facts; eauto. Qed.

  Lemma CInv_ext : forall d Jc Jc', (forall g, In g cs -> Jc' g = Jc g) -> CInv d Jc -> CInv d Jc'.
  Proof.
    intros d Jc Jc' E [A B C D]. destruct cl_facts as (_ & Hk & _). constructor; try rewrite (E tc Hk); auto.
    intros h Hh. eapply PH_ext; [|apply D; exact Hh]. exact E.
  Qed.
  Lemma upd_J_same : forall Jc J g, In g cs -> Jc tc = J -> upd_J Jc c J g = Jc g.
  Proof.
    intros Jc J g Hg E. destruct cl_facts as (Ec & Hk & NDr & _). unfold upd_J.
    destruct (Nat.eqb (rid g) c) eqn:Eg; auto. apply Nat.eqb_eq in Eg.
    assert (g = tc) by (apply (rid_unique_in cs); auto; congruence). subst g. auto.
  Qed.
  Lemma upd_J_tc : forall Jc J, upd_J Jc c J tc = J.
  Proof. intros. destruct cl_facts as (Ec & _). unfold upd_J. rewrite Ec, Nat.eqb_refl. reflexivity. Qed.
  Lemma upd_J_upd : forall Jc J1 J2 g, upd_J (upd_J Jc c J1) c J2 g = upd_J Jc c J2 g.
  Proof. intros. unfold upd_J. destruct (Nat.eqb (rid g) c); reflexivity. Qed.

  Lemma seen_find : forall K hs e, find (fun e => leqb Nat.eqb (fst e) hs) (seen_of K) = Some e ->
    exists jf, In jf K /\ e = (down (snd jf) tc, (fst jf, c)) /\ down (snd jf) tc = hs.
  Proof.
    intros K hs e H. apply find_some in H. destruct H as [Hin Heq]. unfold seen_of in Hin.
    apply in_map_iff in Hin. destruct Hin as [jf [E Hjf]]. subst e. cbn [fst] in Heq.
    exists jf. repeat split; auto. apply leqb_nat_eq. exact Heq.
  Qed.
  Lemma seen_find_none : forall K hs, find (fun e => leqb Nat.eqb (fst e) hs) (seen_of K) = None ->
    forall jf, In jf K -> down (snd jf) tc <> hs.
  Proof.
    intros K hs H jf Hjf E.
    assert (Hin : In (down (snd jf) tc, (fst jf, c)) (seen_of K)) by (unfold seen_of; apply in_map_iff; exists jf; auto).
    pose proof (find_none _ _ H _ Hin) as Hf. cbn [fst] in Hf. rewrite E, leqb_refl_nat in Hf. discriminate.
  Qed.

  Lemma combine_loop_inv : forall Jrest Keep d Jc,
    Jc tc = Keep ++ Jrest -> CInv d Jc ->
    (forall jf, In jf (Keep ++ Jrest) -> hash_of tb (fst jf, c) = down (snd jf) tc) ->
    NoDup (map (fun jf => down (snd jf) tc) Keep) ->
    exists Jfin,
      CInv (combine_loop t c tb (snap_of Jrest) (seen_of Keep) d) (upd_J Jc c Jfin) /\
      NoDup (map (fun jf => down (snd jf) tc) Jfin) /\ incl Jfin (Keep ++ Jrest) /\
      map (key2 tb hp) (hes_at p (hes (combine_loop t c tb (snap_of Jrest) (seen_of Keep) d))) = map (key2 tb hp) (hes_at p (hes d)) /\
      (forall v, v <> p -> ~ In v (ids tc) ->
         hes_at v (hes (combine_loop t c tb (snap_of Jrest) (seen_of Keep) d)) = hes_at v (hes d)) /\
      peq (sd_denote t (combine_loop t c tb (snap_of Jrest) (seen_of Keep) d)) (sd_denote t d).
  Proof.
    destruct cl_facts as (Ec & Hk & NDr & Hpc).
    induction Jrest as [|jf Jrest IH]; intros Keep d Jc EJ HI Htb NDK.
    - exists Keep. cbn [snap_of map combine_loop]. rewrite app_nil_r in *.
      split; [eapply CInv_ext; [|exact HI]; intros g Hg; apply upd_J_same; auto|].
      split; [exact NDK|]. split; [apply incl_refl|]. split; [reflexivity|]. split; [reflexivity | apply peq_refl].
    - cbn [snap_of map combine_loop]. fold (snap_of Jrest).
      assert (Ehs : hash_of tb (hid (bhe jf c (rchildren tc))) = down (snd jf) tc).
      { unfold bhe. cbn [hid]. apply Htb. apply in_or_app. right. left. reflexivity. }
      rewrite Ehs. destruct HI as [A B C D].
      destruct (find (fun e => leqb Nat.eqb (fst e) (down (snd jf) tc)) (seen_of Keep)) as [e|] eqn:F.
      + (* merge jf into the keeper jf1 *)
        destruct (seen_find Keep _ e F) as (jf1 & Hjf1 & Ee & Ed). subst e. cbn [snd]. unfold head_vertex, bhe. cbn [hverts].
        assert (H1 : In jf1 (Jc tc)) by (rewrite EJ; apply in_or_app; left; exact Hjf1).
        assert (H2 : In jf (Jc tc)) by (rewrite EJ; apply in_or_app; right; left; reflexivity).
        assert (Hne : fst jf1 <> fst jf).
        { rewrite EJ, map_app in A. cbn [map] in A. apply NoDup_remove_2 in A. intros E. apply A. rewrite <- E.
          apply in_or_app. left. apply in_map. exact Hjf1. }
        destruct (merge_step t p hp cs c tc tb ND HF HS d Jc jf1 jf A H1 H2 Hne B Ed C D) as (M1 & M2 & M3 & M4 & M5 & M6).
        set (d1 := merge t c (fst jf1, c) (fst jf, c) d) in *.
        set (Jc1 := upd_J Jc c (drop_term (fst jf) (Jc tc))) in *.
        assert (EJ1 : Jc1 tc = Keep ++ Jrest).
        { unfold Jc1. rewrite upd_J_tc, EJ. apply drop_term_mid. rewrite <- EJ. exact A. }
        assert (HI1 : CInv d1 Jc1).
        { constructor; auto. rewrite EJ1. rewrite EJ in A. rewrite map_app in *. cbn [map] in A. eapply NoDup_remove_1; eauto. }
        destruct (IH Keep d1 Jc1 EJ1 HI1) as (Jfin & I1 & I2 & I3 & I4 & I5 & I6); auto.
        { intros x Hx. apply Htb. apply in_app_or in Hx. apply in_or_app. destruct Hx; [left|right; right]; auto. }
        exists Jfin. split; [eapply CInv_ext; [|exact I1]; intros g Hg; unfold Jc1; symmetry; apply upd_J_upd|].
        split; [exact I2|]. split; [intros x Hx; apply I3 in Hx; apply in_app_or in Hx; apply in_or_app; destruct Hx; [left|right; right]; auto|].
        split; [rewrite I4, M4, map_map; apply map_ext; intros h; apply key2_redirect|].
        split; [intros v Hv1 Hv2; rewrite I5, M5; auto|].
        eapply peq_trans; [exact I6 | exact M6].
      + (* jf is a keeper *)
        unfold head_vertex, bhe. cbn [hverts].
        match goal with |- context [combine_loop t c tb (snap_of Jrest) ?S d] =>
          assert (Es : S = seen_of (Keep ++ [jf])) by (unfold seen_of; rewrite map_app; reflexivity); rewrite Es end.
        destruct (IH (Keep ++ [jf]) d Jc) as (Jfin & I1 & I2 & I3 & I4 & I5 & I6).
        * rewrite <- app_assoc. exact EJ.
        * constructor; auto.
        * intros x Hx. apply Htb. rewrite <- app_assoc in Hx. exact Hx.
        * rewrite map_app. cbn [map]. apply NoDup_app_intro; auto; [constructor; [intros []|constructor]|].
          intros x Hx [E|[]]. apply in_map_iff in Hx. destruct Hx as [jf' [E' Hjf']].
          apply (seen_find_none Keep _ F jf' Hjf'). congruence.
        * exists Jfin. rewrite <- app_assoc in I3. split; [exact I1|]. split; [exact I2|]. split; [exact I3|].
          split; [exact I4|]. split; [exact I5 | exact I6].
  Qed.
End CombineLoop.

Lemma node_at_child_in : forall t h0 p hp cs g, node_at t h0 p hp cs -> In g cs -> In (rid g) (flat_map ids (rchildren t)).
Proof.
  intros t h0 p hp cs g Hn Hg. induction Hn as [v cs0 hp0|v cs' hp0 k p hp cs Hk Hn IH]; cbn [rchildren].
  - apply in_flat_map. exists g. split; auto. apply rid_in_ids.
  - apply in_flat_map. exists k. split; auto. destruct k as [kv kcs]. cbn [rchildren] in IH. right. apply IH. exact Hg.
Qed.

Lemma find_parent_notin : forall t h0 c, ~ In c (ids t) -> find_parent t h0 c = None.
Proof.
  intros t h0 c H. destruct (find_parent t h0 c) as [[[p hp] cs]|] eqn:F; auto. exfalso. apply H.
  destruct (find_parent_node_at _ _ _ _ _ _ F) as [Hn [k [Hk Ek]]]. subst c.
  eapply is_subtree_ids; [eapply node_at_subtree; eauto|]. eapply in_child_ids; eauto. apply rid_in_ids.
Qed.

Lemma find_parent_complete : forall t h0 p hp cs g, NoDup (ids t) -> node_at t h0 p hp cs -> In g cs ->
  find_parent t h0 (rid g) = Some (p, hp, cs).
Proof.
  intros t h0 p hp cs g ND Hn Hg. induction Hn as [v cs0 hp0|v cs' hp0 k p hp cs Hk Hn IH].
  - cbn [find_parent]. replace (existsb (fun k => Nat.eqb (rid k) (rid g)) cs0) with true; [reflexivity|].
    symmetry. apply existsb_exists. exists g. split; auto. apply Nat.eqb_refl.
  - cbn [find_parent].
    assert (Hin : In (rid g) (ids k)).
    { eapply is_subtree_ids; [eapply node_at_subtree; eauto|]. eapply in_child_ids; eauto. apply rid_in_ids. }
    assert (Hnr : rid g <> rid k).
    { pose proof (node_at_child_in k true p hp cs g Hn Hg) as H. intros E. rewrite E in H.
      assert (NDk : NoDup (ids k)) by (eapply wf_child; eauto). clear - H NDk. destruct k as [kv kcs].
      cbn [rid rchildren ids] in H, NDk. inversion NDk. contradiction. }
    replace (existsb (fun k0 => Nat.eqb (rid k0) (rid g)) cs') with false.
    2:{ symmetry. destruct (existsb _ cs') eqn:E; auto. exfalso. apply existsb_exists in E. destruct E as [k' [Hk' Ek']].
        apply Nat.eqb_eq in Ek'. assert (k' = k).
        { eapply (wf_children_eq v cs' k' k (rid g)); eauto. rewrite <- Ek'. apply rid_in_ids. }
        subst k'. congruence. }
    destruct (in_split _ _ Hk) as [l1 [l2 El]]. rewrite El, first_some_app.
    replace (first_some (fun k0 => find_parent k0 true (rid g)) l1) with (@None (nat * bool * list rtree)).
    + cbn [first_some]. rewrite IH; auto; eapply wf_child; eauto.
    + symmetry. apply first_some_None. intros k' Hk'. apply find_parent_notin. intros Hc.
      assert (k' = k).
      { eapply (wf_children_eq v cs' k' k (rid g)); eauto. rewrite El. apply in_or_app. left. exact Hk'. }
      subst k'. rewrite El in ND. cbn [ids] in ND. inversion ND as [|? ? _ ND']; subst.
      rewrite flat_map_app in ND'. cbn [flat_map] in ND'. apply NoDup_app_inv in ND'. destruct ND' as [_ [_ Hd]].
      apply (Hd (rid k)); [apply in_flat_map; exists k; split; auto; apply rid_in_ids | apply in_or_app; left; apply rid_in_ids].
Qed.

(* ---- the frontier node: all its child edges are still uncut --------------------------------- *)
Record Mid (t : rtree) (s : list he) (tb : list (oid * list nat)) (p : nat) (hp : bool) (cs : list rtree)
           (Jc : rtree -> tlist) : Prop := {
  mid_ph : forall h, In h (hes_at p s) -> PH tb p hp cs Jc h;
  mid_T : NoDup (map (key2 tb hp) (hes_at p s));
  mid_base : forall g, In g cs -> BaseBelow s (Jc g) g /\ NoDup (map fst (Jc g)) /\
               (forall tx jf, is_subtree tx g -> In jf (Jc g) -> hash_of tb (fst jf, rid tx) = down (snd jf) tx) }.

(* the hashes of the alive terms of child g are pairwise different (after combine_subtrees on g) *)
Definition Kept (Jc : rtree -> tlist) (g : rtree) : Prop := NoDup (map (fun jf => down (snd jf) g) (Jc g)).

Lemma Mid_frame : forall t s s' tb p hp cs Jc, (forall v, In v (ids (RNode p cs)) -> hes_at v s' = hes_at v s) ->
  Mid t s tb p hp cs Jc -> Mid t s' tb p hp cs Jc.
Proof.
  intros t s s' tb p hp cs Jc H [A B C]. constructor.
  - rewrite H by (left; reflexivity). exact A.
  - rewrite H by (left; reflexivity). exact B.
  - intros g Hg. destruct (C g Hg) as (C1 & C2 & C3). split; [|split; auto].
    apply (BaseBelow_ext s); auto. intros x Hx. apply H. eapply in_child_ids; eauto.
Qed.

(* one combine_subtrees call on a child of the frontier node *)
Lemma combine_child : forall t p hp cs tb d Jc g,
  NoDup (ids t) -> node_at t false p hp cs -> In g cs ->
  Typed t (hes d) -> Mid t (hes d) tb p hp cs Jc ->
  exists J',
    let d' := combine_loop t (rid g) tb (hes_at (rid g) (hes d)) [] d in
    Typed t (hes d') /\ Mid t (hes d') tb p hp cs (upd_J Jc (rid g) J') /\ Kept (upd_J Jc (rid g) J') g /\
    incl J' (Jc g) /\
    (forall v, ~ In v (ids (RNode p cs)) -> hes_at v (hes d') = hes_at v (hes d)) /\
    (forall g', In g' cs -> g' <> g -> forall v, In v (ids g') -> hes_at v (hes d') = hes_at v (hes d)) /\
    peq (sd_denote t d') (sd_denote t d).
Proof.
  intros t p hp cs tb d Jc g ND Hn Hg HT [A B C].
  assert (NDp : NoDup (ids (RNode p cs))) by (eapply is_subtree_wf; [eapply node_at_subtree; eauto | exact ND]).
  assert (HS : subtree (rid g) t = Some g) by (eapply child_of_subtree; eauto).
  assert (HF : find_parent t false (rid g) = Some (p, hp, cs)) by (eapply find_parent_complete; eauto).
  destruct (C g Hg) as (C1 & C2 & C3).
  assert (Esnap : hes_at (rid g) (hes d) = snap_of (rid g) g (Jc g)).
  { unfold snap_of. apply (C1 g (sub_here _)). }
  rewrite Esnap.
  destruct (combine_loop_inv t p hp cs (rid g) g tb ND HF HS (Jc g) [] d Jc eq_refl) as (Jfin & I1 & I2 & I3 & I4 & I5 & I6).
  - constructor; auto.
  - intros jf Hjf. apply (C3 g jf (sub_here _) Hjf).
  - constructor.
  - exists Jfin. cbv zeta. change (seen_of (rid g) g []) with (@nil (list nat * oid)) in *. destruct I1 as [D1 D2 D3 D4].
    destruct (cl_facts t p hp cs (rid g) g ND HF HS) as (_ & _ & NDr & Hpc).
    split; [exact D3|]. split; [|split; [|split; [exact I3|split; [|split; [|exact I6]]]]].
    + constructor; auto.
      * rewrite I4. exact B.
      * intros g' Hg'. unfold upd_J. destruct (Nat.eqb (rid g') (rid g)) eqn:E.
        -- apply Nat.eqb_eq in E. assert (g' = g) by (apply (rid_unique_in cs); auto). subst g'.
           rewrite (upd_J_tc t p hp cs (rid g) g ND HF HS) in D1, D2. split; [exact D2|]. split; [exact D1|].
           intros tx jf Hx Hjf. apply C3; auto.
        -- destruct (C g' Hg') as (E1 & E2 & E3). split; [|split; auto].
           apply (BaseBelow_ext (hes d)); auto. intros x Hx. apply I5.
           ++ intros Ex. subst x. eapply wf_root_notin_child; eauto.
           ++ intros Hxg. apply Nat.eqb_neq in E. apply E. f_equal. eapply (wf_children_eq p cs g' g x); eauto.
    + unfold Kept. rewrite (upd_J_tc t p hp cs (rid g) g ND HF HS). exact I2.
    + intros v Hv. apply I5; [intros E; subst; apply Hv; left; reflexivity|].
      intros Hvg. apply Hv. eapply in_child_ids; eauto.
    + intros g' Hg' Hne v Hv. apply I5.
      * intros E. subst v. eapply wf_root_notin_child; eauto.
      * intros Hvg. apply Hne. eapply (wf_children_eq p cs g' g v); eauto.
Qed.

(* ---- no two hyperedges of the frontier node agree on label and vertices ------------------------ *)
Lemma NoDup_map_implied : forall {A B C} (k1 : A -> B) (k2 : A -> C) l,
  (forall a b, In a l -> In b l -> k1 a = k1 b -> k2 a = k2 b) -> NoDup (map k2 l) -> NoDup (map k1 l).
Proof.
  intros A B C k1 k2 l. induction l as [|x l IH]; intros H ND; [constructor|]. cbn [map] in *.
  inversion ND as [|? ? Hn ND']; subst. constructor.
  - intros Hin. apply in_map_iff in Hin. destruct Hin as [y [E Hy]]. apply Hn. apply in_map_iff. exists y. split; auto.
    apply H; auto; [right; exact Hy | left; reflexivity].
  - apply IH; auto. intros a b Ha Hb. apply H; right; assumption.
Qed.

Definition key1 (h : he) : nat * list oid := (hlabel h, hverts h).

Lemma mid_R : forall t s tb p hp cs Jc, Mid t s tb p hp cs Jc -> NoDup (map key1 (hes_at p s)).
Proof.
  intros t s tb p hp cs Jc [A B C]. eapply NoDup_map_implied; [|exact B].
  intros h1 h2 Hh1 Hh2 E. unfold key1 in E. inversion E as [[EL EV]]. unfold key2. rewrite EV. f_equal.
  destruct (A h1 Hh1) as (f1 & a1 & L1 & Hs1 & CP1 & _ & Al1). destruct (A h2 Hh2) as (f2 & a2 & L2 & Hs2 & CP2 & _ & Al2).
  rewrite Hs1, Hs2. f_equal; [congruence|]. apply flat_map_ext_in. intros g Hg.
  destruct (Al1 g Hg) as (j1 & Hj1 & Ea1 & Ed1). destruct (Al2 g Hg) as (j2 & Hj2 & Ea2 & Ed2).
  rewrite <- Ed1, <- Ed2. f_equal. f_equal.
  destruct (C g Hg) as (_ & NDg & _). eapply (NoDup_map_inj fst (Jc g)); eauto. rewrite <- Ea1, <- Ea2.
  unfold child_part in CP1, CP2. rewrite EV in CP1. rewrite CP1 in CP2.
  clear - CP2 Hg. induction cs as [|k cs IH]; [destruct Hg|]. cbn [map] in CP2. inversion CP2. destruct Hg as [->|Hg]; auto.
Qed.

(* ====================================================================================== *)
(* 3. cut_and_optimise: what the step returns                                              *)
(* ====================================================================================== *)
Definition newV_of p hp cs c fr (reps : list he) (n : nat) (rs : list rpl) : list he :=
  map (fun j => match first_pl SV j rs with Some x => place_v p hp cs c fr (nth j reps dummy_he) x | None => dummy_he end) (seq 0 n)
  ++ map (fun x => place_v p hp cs c fr (nth (r_ix x) reps dummy_he) x) (filter (is_pl SV true) rs).
Definition newU_of c fr (us : list he) (m : nat) (rs : list rpl) : list he :=
  map (fun i => match first_pl SU i rs with Some x => place_u c fr (nth i us dummy_he) x | None => dummy_he end) (seq 0 m)
  ++ map (fun x => place_u c fr (nth (r_ix x) us dummy_he) x) (filter (is_pl SU true) rs).

Lemma cut_diagram_spec : forall p hp cs c fr d d' rs us reps nw, p <> c ->
  cut_diagram p hp cs c fr d = Some (d', rs, us, reps, nw) ->
  exists classes r,
    classify hp cs c (hes_at c (hes d)) (hes_at p (hes d)) = Some classes /\
    us = hes_at c (hes d) /\ reps = map (fun q : vclass => hd dummy_he (snd q)) classes /\
    B.mvc (B.mk_graph (length us) (length classes) (gedges (gamma hp cs c us classes) (length us) (length classes))) = Some r /\
    nw = length (new_vertices_pl (gamma hp cs c us classes) (length us) (length classes) (B.r_ucover r) (B.r_vcover r)) /\
    rs = resolve (fun i => hid (nth i us dummy_he)) (fun j => hid (nth j reps dummy_he)) c p
                 (number_pl 0 (new_vertices_pl (gamma hp cs c us classes) (length us) (length classes) (B.r_ucover r) (B.r_vcover r)))
                 [] [] (fr + nw) /\
    (forall i, i < length us -> exists x, first_pl SU i rs = Some x) /\
    (forall j, j < length classes -> exists x, first_pl SV j rs = Some x) /\
    hes_at p (hes d') = newV_of p hp cs c fr reps (length classes) rs /\
    hes_at c (hes d') = newU_of c fr us (length us) rs /\
    (forall v, v <> p -> v <> c -> hes_at v (hes d') = hes_at v (hes d)) /\
    (forall h, In h (hes d') -> In h (hes d) \/ In h (newV_of p hp cs c fr reps (length classes) rs)
                                \/ In h (newU_of c fr us (length us) rs)).
Proof.
  intros p hp cs c fr d d' rs us reps nw Hpc H. unfold cut_diagram in H.
  destruct (classify hp cs c (hes_at c (hes d)) (hes_at p (hes d))) as [classes|] eqn:Hcl; [|discriminate].
  set (us0 := hes_at c (hes d)) in *. set (m := length us0) in *. set (n := length classes) in *.
  set (G := gamma hp cs c us0 classes) in *.
  destruct (Nat.leb 1 m && Nat.leb 1 n); [|discriminate].
  destruct (B.mvc (B.mk_graph m n (gedges G m n))) as [r|] eqn:Hmvc; [|discriminate].
  destruct (B.r_assert r); [|discriminate].
  set (reps0 := map (fun q : vclass => hd dummy_he (snd q)) classes) in *.
  set (nv := new_vertices_pl G m n (B.r_ucover r) (B.r_vcover r)) in *.
  set (rs0 := resolve (fun i => hid (nth i us0 dummy_he)) (fun j => hid (nth j reps0 dummy_he)) c p
                      (number_pl 0 nv) [] [] (fr + length nv)) in *.
  destruct (forallb _ (seq 0 m) && forallb _ (seq 0 n)) eqn:Hguard; [|discriminate].
  apply andb_true_iff in Hguard. destruct Hguard as [HgU HgV]. rewrite forallb_forall in HgU, HgV.
  inversion H; subst d' rs us reps nw. clear H. cbn [hes].
  assert (HgU' : forall i, i < m -> exists x, first_pl SU i rs0 = Some x).
  { intros i Hi. assert (Hi' : In i (seq 0 m)) by (apply in_seq; lia). specialize (HgU i Hi').
    change (match first_pl SU i rs0 with Some _ => true | None => false end = true) in HgU.
    destruct (first_pl SU i rs0); [eauto | discriminate]. }
  assert (HgV' : forall j, j < n -> exists x, first_pl SV j rs0 = Some x).
  { intros j Hj. assert (Hj' : In j (seq 0 n)) by (apply in_seq; lia). specialize (HgV j Hj').
    change (match first_pl SV j rs0 with Some _ => true | None => false end = true) in HgV.
    destruct (first_pl SV j rs0); [eauto | discriminate]. }
  exists classes, r.
  fold (newV_of p hp cs c fr reps0 n rs0). fold (newU_of c fr us0 m rs0).
  set (newV := newV_of p hp cs c fr reps0 n rs0). set (newU := newU_of c fr us0 m rs0).
  set (rest := filter (fun h => negb (Nat.eqb (hnode h) p) && negb (Nat.eqb (hnode h) c)) (hes d)).
  assert (HnV : forall h, In h newV -> hnode h = p).
  { intros h Hh. unfold newV, newV_of in Hh. apply in_app_or in Hh. destruct Hh as [Hh|Hh]; apply in_map_iff in Hh; destruct Hh as [x [E Hx]]; subst h.
    - apply in_seq in Hx. destruct (HgV' x) as [y Hy]; [lia|]. rewrite Hy. reflexivity.
    - reflexivity. }
  assert (HnU : forall h, In h newU -> hnode h = c).
  { intros h Hh. unfold newU, newU_of in Hh. apply in_app_or in Hh. destruct Hh as [Hh|Hh]; apply in_map_iff in Hh; destruct Hh as [x [E Hx]]; subst h.
    - apply in_seq in Hx. destruct (HgU' x) as [y Hy]; [lia|]. rewrite Hy. reflexivity.
    - reflexivity. }
  assert (Hrest : forall v, hes_at v rest = if Nat.eqb v p || Nat.eqb v c then [] else hes_at v (hes d)).
  { intros v. unfold rest, hes_at. rewrite filter_filter_and.
    destruct (Nat.eqb v p) eqn:E1.
    { apply Nat.eqb_eq in E1. subst v. cbn [orb]. apply filter_none. intros x _.
      destruct (Nat.eqb (hnode x) p), (Nat.eqb (hnode x) c); reflexivity. }
    destruct (Nat.eqb v c) eqn:E2.
    { apply Nat.eqb_eq in E2. subst v. cbn [orb]. apply filter_none. intros x _.
      destruct (Nat.eqb (hnode x) p), (Nat.eqb (hnode x) c); reflexivity. }
    cbn [orb]. apply filter_ext. intros x. destruct (Nat.eqb (hnode x) v) eqn:E; [|apply andb_false_r].
    apply Nat.eqb_eq in E. rewrite E, E1, E2. reflexivity. }
  repeat (split; [first [reflexivity | assumption]|]).
  split.
  { rewrite (hes_at_app _ rest), (hes_at_app _ newV newU), Hrest, Nat.eqb_refl. cbn [orb]. rewrite app_nil_l.
    unfold hes_at at 1. rewrite filter_all by (intros x Hx; apply Nat.eqb_eq; apply HnV; exact Hx).
    unfold hes_at. rewrite filter_none; [apply app_nil_r|]. intros x Hx. apply Nat.eqb_neq. rewrite (HnU x Hx). auto. }
  split.
  { rewrite (hes_at_app _ rest), (hes_at_app _ newV newU), Hrest, Nat.eqb_refl, orb_true_r. rewrite app_nil_l.
    unfold hes_at at 1. rewrite filter_none by (intros x Hx; apply Nat.eqb_neq; rewrite (HnV x Hx); auto).
    unfold hes_at. rewrite app_nil_l. apply filter_all. intros x Hx. apply Nat.eqb_eq. apply HnU. exact Hx. }
  split.
  { intros v Hvp Hvc. rewrite (hes_at_app _ rest), (hes_at_app _ newV newU), Hrest.
    apply Nat.eqb_neq in Hvp. apply Nat.eqb_neq in Hvc. rewrite Hvp, Hvc. cbn [orb].
    unfold hes_at at 2 3. rewrite !filter_none; [rewrite !app_nil_r; reflexivity | |].
    - intros x Hx. apply Nat.eqb_neq. rewrite (HnU x Hx). apply Nat.eqb_neq in Hvc. auto.
    - intros x Hx. apply Nat.eqb_neq. rewrite (HnV x Hx). apply Nat.eqb_neq in Hvp. auto. }
  intros h Hh. apply in_app_or in Hh. destruct Hh as [Hh|Hh]; [left; unfold rest in Hh; apply filter_In in Hh; tauto|].
  apply in_app_or in Hh. tauto.
Qed.

(* ---- every vertex carries a hyperedge index at most once per side ------------------------------ *)
Definition pkey (a : placement) : side * nat := fst a.

Lemma number_pl_nodup : forall (L : list (list placement)) k,
  (forall l, In l L -> NoDup (map pkey l)) ->
  NoDup (map (fun a : nat * placement => (fst a, pkey (snd a))) (number_pl k L)).
Proof.
  induction L as [|l L IH]; intros k H; [constructor|]. cbn [number_pl]. rewrite map_app, map_map. cbn [fst snd].
  apply NoDup_app_intro.
  - assert (Hl : NoDup (map pkey l)) by (apply H; left; reflexivity).
    clear - Hl. induction l as [|a l IHl]; [constructor|]. cbn [map] in *. inversion Hl as [|? ? Hn Hl']; subst.
    constructor; auto. intros Hin. apply in_map_iff in Hin. destruct Hin as [b [E Hb]]. inversion E as [E']. apply Hn.
    rewrite <- E'. apply in_map. exact Hb.
  - apply IH. intros; apply H; right; assumption.
  - intros x Hx Hy. apply in_map_iff in Hx. destruct Hx as [a [E _]]. subst x.
    apply in_map_iff in Hy. destruct Hy as [[w b] [E Hb]]. cbn [fst snd] in E. inversion E. subst w.
    apply number_pl_ge in Hb. lia.
Qed.

Lemma seq_filter_nodup : forall (f : nat -> bool) k, NoDup (filter f (seq 0 k)).
Proof. intros. apply NoDup_filter. apply seq_NoDup. Qed.

Lemma row_pl_nodup : forall G n i, NoDup (map pkey (row_pl G n i)).
Proof.
  intros G n i. unfold row_pl. pose proof (seq_filter_nodup (gsupp G i) n) as ND.
  destruct (filter (gsupp G i) (seq 0 n)) as [|j0 js] eqn:E; [constructor|]. rewrite <- E in *. clear E.
  cbn [map]. rewrite map_map. unfold pkey at 1. cbn [fst]. constructor.
  - intros Hin. apply in_map_iff in Hin. destruct Hin as [j [E _]]. discriminate.
  - apply FinFun.Injective_map_NoDup; auto. intros a b E. inversion E. reflexivity.
Qed.
Lemma col_pl_nodup : forall G m Cu j, NoDup (map pkey (col_pl G m Cu j)).
Proof.
  intros G m Cu j. unfold col_pl. pose proof (seq_filter_nodup (fun i => gsupp G i j && negb (mem i Cu)) m) as ND.
  destruct (filter _ (seq 0 m)) as [|i0 r]; [constructor|]. cbn [map]. rewrite map_map. unfold pkey at 1 2. cbn [fst].
  inversion ND as [|? ? Hn ND']; subst. constructor; [|constructor].
  - intros [E|Hin]; [discriminate|]. apply in_map_iff in Hin. destruct Hin as [i [E Hi]]. inversion E. subst i. contradiction.
  - intros Hin. apply in_map_iff in Hin. destruct Hin as [i [E _]]. discriminate.
  - apply FinFun.Injective_map_NoDup; auto. intros a b E. inversion E. reflexivity.
Qed.

Lemma resolved_nodup : forall oU oV nU nV G m n Cu Cv q,
  NoDup (map (fun x => (r_w x, (r_side x, r_ix x))) (resolve oU oV nU nV (number_pl 0 (new_vertices_pl G m n Cu Cv)) [] [] q)).
Proof.
  intros. set (rs := resolve _ _ _ _ _ _ _ _).
  assert (E : map (fun x => (r_w x, (r_side x, r_ix x))) rs
              = map (fun a : nat * placement => (fst a, pkey (snd a))) (map rkey rs)) by (rewrite map_map; reflexivity).
  rewrite E. unfold rs. rewrite resolve_keys. apply number_pl_nodup.
  intros l Hl. unfold new_vertices_pl in Hl. apply filter_In in Hl. destruct Hl as [Hl _].
  apply in_app_or in Hl. destruct Hl as [Hl|Hl]; apply in_map_iff in Hl; destruct Hl as [k [El _]]; subst l;
    [apply row_pl_nodup | apply col_pl_nodup].
Qed.

(* ---- classify without conflicts: no re-hash, pairwise different keys ---------------------------- *)
Definition key_plain (q : vclass) : Prop := snd (fst q) = None.

Lemma ckey_eqb_refl : forall k, ckey_eqb k k = true.
Proof.
  intros [[l o] tg]. unfold ckey_eqb. cbn [fst snd]. rewrite Nat.eqb_refl. cbn [andb].
  assert (E : leqb oid_eqb o o = true) by (induction o as [|a o IH]; [reflexivity|]; cbn [leqb]; rewrite oid_eqb_refl; exact IH).
  rewrite E. destruct tg; cbn [oeqb andb]; [apply Nat.eqb_refl | reflexivity].
Qed.
Lemma ckey_eqb_eq : forall a b, ckey_eqb a b = true -> a = b.
Proof.
  intros [[la oa] ta] [[lb ob] tb] H. unfold ckey_eqb in H. cbn [fst snd] in H.
  apply andb_true_iff in H. destruct H as [H H3]. apply andb_true_iff in H. destruct H as [H1 H2].
  apply Nat.eqb_eq in H1. apply (leqb_eq oid_eqb oid_eqb_true) in H2. subst.
  destruct ta, tb; cbn [oeqb] in H3; try discriminate; [apply Nat.eqb_eq in H3; subst|]; reflexivity.
Qed.

Lemma add_to_class_keys : forall k e acc, NoDup (map fst acc) ->
  NoDup (map fst (add_to_class k e acc)) /\
  (forall q, In q (add_to_class k e acc) -> fst q = k \/ In (fst q) (map fst acc)).
Proof.
  intros k e acc. induction acc as [|q acc IH]; intros ND; cbn [add_to_class].
  - split; [constructor; [intros []|constructor]|]. intros q [E|[]]. subst. left. reflexivity.
  - cbn [map] in ND. inversion ND as [|? ? Hn ND']; subst. destruct (ckey_eqb (fst q) k) eqn:E.
    + split; [cbn [map fst]; constructor; auto|]. intros q' [E'|Hq']; [subst q'; right; left; reflexivity|].
      right. right. apply in_map. exact Hq'.
    + destruct (IH ND') as [I1 I2]. split.
      * cbn [map]. constructor; auto. intros Hin. apply in_map_iff in Hin. destruct Hin as [q' [E' Hq']].
        destruct (I2 q' Hq') as [Ek|Hk]; [|apply Hn; rewrite <- E'; exact Hk].
        rewrite <- E', Ek, ckey_eqb_refl in E. discriminate.
      * intros q' [E'|Hq']; [subst q'; right; left; reflexivity|]. destruct (I2 q' Hq') as [Ek|Hk]; [left; exact Ek | right; right; exact Hk].
Qed.

Lemma add_to_class_plain : forall k e acc, snd k = None -> Forall key_plain acc -> Forall key_plain (add_to_class k e acc).
Proof.
  intros k e acc Hk H. induction H as [|q acc Hq H IH]; cbn [add_to_class].
  - constructor; [exact Hk | constructor].
  - destruct (ckey_eqb (fst q) k); constructor; auto.
Qed.

Lemma class_elems_in : forall k acc e, In e (class_elems k acc) -> exists q, In q acc /\ In e (snd q).
Proof.
  intros k acc e H. unfold class_elems in H.
  match type of H with In _ (match ?X with _ => _ end) => destruct X as [q|] eqn:F end; [|destruct H].
  apply find_some in F. exists q. tauto.
Qed.

Lemma classify_loop_plain : forall hp cs c us vsl idx acc classes,
  classify_loop hp cs c us idx vsl acc = Some classes ->
  (forall e e2, In e vsl -> (exists q, In q acc /\ In e2 (snd q)) \/ In e2 vsl -> e <> e2 ->
                hlabel e2 = hlabel e -> p_others hp cs c e2 = p_others hp cs c e -> conflict hp cs c us e e2 = false) ->
  NoDup (concat (map snd acc) ++ vsl) ->
  NoDup (map fst acc) -> Forall key_plain acc -> Forall (class_ok hp cs c) acc ->
  NoDup (map fst classes) /\ Forall key_plain classes.
Proof.
  intros hp cs c us. induction vsl as [|e vsl IH]; intros idx acc classes H Hnc ND NDk Hpl Hok; cbn [classify_loop] in H.
  - inversion H; subst. auto.
  - assert (Hz : length (filter (conflict hp cs c us e) (class_elems (hlabel e, p_others hp cs c e, None) acc)) = 0).
    { rewrite filter_none; [reflexivity|]. intros e2 He2.
      destruct (class_elems_in _ _ _ He2) as [q [Hq Hin]].
      assert (Hkq : fst (fst q) = (hlabel e, p_others hp cs c e)).
      { unfold class_elems in He2.
        match type of He2 with In _ (match ?X with _ => _ end) => destruct X as [q'|] eqn:F end; [|destruct He2].
        apply find_some in F. destruct F as [Hq' Ek]. apply ckey_eqb_true in Ek. cbn [fst] in Ek.
        rewrite Forall_forall in Hok. destruct (Hok q' Hq') as [_ Hu']. destruct (Hok q Hq) as [_ Hu].
        destruct (Hu' e2 He2) as [A1 A2]. destruct (Hu e2 Hin) as [B1 B2].
        rewrite <- Ek. destruct (fst (fst q)) as [a b], (fst (fst q')) as [a' b']. cbn [fst snd] in *. congruence. }
      rewrite Forall_forall in Hok. destruct (Hok q Hq) as [_ Hu]. destruct (Hu e2 Hin) as [A1 A2].
      apply Hnc; [left; reflexivity | left; eauto | | rewrite A1, Hkq; reflexivity | rewrite A2, Hkq; reflexivity].
      intros E. subst e2.
      apply NoDup_remove_2 in ND. apply ND. apply in_or_app. left. apply in_concat. exists (snd q). split; auto. apply in_map. exact Hq. }
    rewrite Hz in H.
    destruct (add_to_class_keys (hlabel e, p_others hp cs c e, None) e acc NDk) as [K1 K2].
    apply (IH _ _ _ H); auto.
    + intros a b Ha Hb Hne. apply Hnc; [right; exact Ha | | exact Hne].
      destruct Hb as [[q [Hq Hb]]|Hb]; [|right; right; exact Hb].
      assert (Hbin : In b (concat (map snd (add_to_class (hlabel e, p_others hp cs c e, None) e acc)))).
      { apply in_concat. exists (snd q). split; auto. apply in_map. exact Hq. }
      apply (Permutation_in _ (add_to_class_perm _ e acc)) in Hbin. apply in_app_or in Hbin.
      destruct Hbin as [Hbin|[Eb|[]]]; [|right; left; exact Eb].
      left. apply in_concat in Hbin. destruct Hbin as [l [Hl Hbl]]. apply in_map_iff in Hl. destruct Hl as [q' [El Hq']].
      exists q'. subst l. auto.
    + eapply Permutation_NoDup; [|exact ND].
      eapply perm_trans; [|apply Permutation_app_tail; apply Permutation_sym; apply add_to_class_perm].
      rewrite <- app_assoc. apply Permutation_refl.
    + apply add_to_class_plain; auto.
    + apply add_to_class_ok. exact Hok.
Qed.

(* ---- the parent of the edges that are being cut -------------------------------------------------- *)
Record CutPar (s : list he) (p : nat) (hp : bool) (cs : list rtree) (Jc : rtree -> tlist) (todo : list rtree) : Prop := {
  cp_len : forall h, In h (hes_at p s) -> length (hverts h) = (if hp then 1 else 0) + length cs;
  cp_slot : forall h g, In h (hes_at p s) -> In g todo ->
              exists jf, In jf (Jc g) /\ slot_vertex cs (rid g) (child_part hp h) = Some (fst jf, rid g);
  cp_R : NoDup (map key1 (hes_at p s)) }.

Lemma slot_vertex_map : forall cs g (a : rtree -> nat), NoDup (map rid cs) -> In g cs ->
  slot_vertex cs (rid g) (map (fun k => (a k, rid k)) cs) = Some (a g, rid g).
Proof.
  induction cs as [|k cs IH]; intros g a ND Hg; [destruct Hg|]. cbn [map] in ND. inversion ND as [|? ? Hn ND']; subst.
  cbn [map slot_vertex]. destruct (Nat.eqb (rid k) (rid g)) eqn:E.
  - apply Nat.eqb_eq in E. destruct Hg as [Hg|Hg]; [subst; reflexivity|]. exfalso. apply Hn. rewrite E. apply in_map. exact Hg.
  - destruct Hg as [Hg|Hg]; [subst; rewrite Nat.eqb_refl in E; discriminate|]. apply IH; auto.
Qed.

Lemma mid_cutpar : forall t s tb p hp cs Jc, NoDup (map rid cs) -> Mid t s tb p hp cs Jc -> CutPar s p hp cs Jc cs.
Proof.
  intros t s tb p hp cs Jc NDr HM. pose proof (mid_R _ _ _ _ _ _ _ HM) as HR. destruct HM as [A B C]. constructor; auto.
  - intros h Hh. destruct (A h Hh) as (fo & a & _ & _ & CP & Hw & _). unfold child_part in CP. destruct hp.
    + destruct (Hw eq_refl) as [w [r Ew]]. rewrite Ew in *. cbn [tl length] in *. rewrite CP, map_length. reflexivity.
    + rewrite CP, map_length. reflexivity.
  - intros h g Hh Hg. destruct (A h Hh) as (fo & a & _ & _ & CP & _ & Al). destruct (Al g Hg) as (jf & Hjf & Ea & _).
    exists jf. split; auto. rewrite CP, <- Ea. apply slot_vertex_map; auto.
Qed.

Lemma nodup_oid_complete : forall l, NoDup l -> nodup_oid l = true.
Proof.
  induction l as [|x l IH]; intros H; [reflexivity|]. inversion H as [|? ? Hn H']; subst. cbn [nodup_oid].
  rewrite IH by auto. destruct (omem x l) eqn:E; auto. apply omem_In in E. contradiction.
Qed.

Lemma NoDup_concat_in : forall {A} (L : list (list A)) l, NoDup (concat L) -> In l L -> NoDup l.
Proof.
  intros A L. induction L as [|a L IH]; intros l ND Hl; [destruct Hl|]. cbn [concat] in ND.
  apply NoDup_app_inv in ND. destruct ND as [N1 [N2 _]]. destruct Hl as [->|Hl]; auto.
Qed.

Lemma NoDup_map_inj_on : forall {A B} (f : A -> B) l, NoDup l -> (forall a b, In a l -> In b l -> f a = f b -> a = b) -> NoDup (map f l).
Proof.
  intros A B f l ND H. induction ND as [|x l Hn ND IH]; [constructor|]. cbn [map]. constructor.
  - intros Hin. apply in_map_iff in Hin. destruct Hin as [y [E Hy]]. apply Hn.
    rewrite (H x y); auto; [left; reflexivity | right; exact Hy].
  - apply IH. intros a b Ha Hb. apply H; right; assumption.
Qed.

(* the vertices of a parent hyperedge are determined by the cut vertex and the others *)
Lemma verts_of_parts : forall cs c (vs vs' : list oid), length vs = length vs' ->
  drop_at cs c vs = drop_at cs c vs' -> slot_vertex cs c vs = slot_vertex cs c vs' ->
  In c (map rid cs) -> length vs = length cs -> vs = vs'.
Proof.
  induction cs as [|k cs IH]; intros c vs vs' L D S Hc Lc; [destruct Hc|].
  destruct vs as [|y vs], vs' as [|y' vs']; try discriminate; auto.
  cbn [drop_at slot_vertex] in D, S. destruct (Nat.eqb (rid k) c) eqn:E.
  - congruence.
  - inversion D. subst. f_equal. apply (IH c); auto.
    destruct Hc as [Hc|Hc]; auto. apply Nat.eqb_neq in E. contradiction.
Qed.
Lemma hverts_of_parts : forall (hp : bool) (cs : list rtree) (c : nat) (h h' : he), In c (map rid cs) ->
  length (hverts h) = (if hp then 1 else 0) + length cs -> length (hverts h') = (if hp then 1 else 0) + length cs ->
  p_others hp cs c h = p_others hp cs c h' -> p_cutv hp cs c h = p_cutv hp cs c h' -> hverts h = hverts h'.
Proof.
  intros hp cs c h h' Hc L L' O C. unfold p_others, p_cutv, child_part in *. destruct hp.
  - destruct (hverts h) as [|q r]; [discriminate|]. destruct (hverts h') as [|q' r']; [discriminate|].
    cbn [firstn app tl length] in *. inversion O. subst q'. f_equal. apply (verts_of_parts cs c); auto; lia.
  - cbn [app] in O. apply (verts_of_parts cs c); auto; lia.
Qed.

Lemma cut_distinct_holds : forall s p hp cs c ccs Jc todo classes,
  In (RNode c ccs) cs ->
  CutPar s p hp cs Jc todo ->
  classify hp cs c (hes_at c s) (hes_at p s) = Some classes ->
  cut_distinct hp cs c classes = true.
Proof.
  intros s p hp cs c ccs Jc todo classes Hc [L S R] Hcl.
  destruct (classify_spec hp cs c (hes_at c s) (hes_at p s) classes Hcl) as [Hok Hperm].
  assert (NDv : NoDup (hes_at p s)) by (eapply NoDup_map_inv; exact R).
  assert (Hcin : In c (map rid cs)) by (apply in_map_iff; exists (RNode c ccs); auto).
  unfold cut_distinct. apply forallb_forall. intros q Hq. apply nodup_oid_complete.
  assert (NDq : NoDup (snd q)).
  { apply (NoDup_concat_in (map snd classes)); [eapply Permutation_NoDup; [apply Permutation_sym; exact Hperm | exact NDv] | apply in_map; exact Hq]. }
  assert (Hin : forall e, In e (snd q) -> In e (hes_at p s)).
  { intros e He. eapply Permutation_in; [exact Hperm|]. apply in_concat. exists (snd q). split; auto. apply in_map. exact Hq. }
  rewrite Forall_forall in Hok. destruct (Hok q Hq) as [_ Hu].
  assert (Hsome : forall e, In e (snd q) -> exists y, p_cutv hp cs c e = Some y).
  { intros e He. unfold p_cutv. apply slot_vertex_some; auto. pose proof (L e (Hin e He)) as Le. unfold child_part.
    destruct hp; [destruct (hverts e); [discriminate|cbn [tl length] in *; lia] | exact Le]. }
  assert (Ef : flat_map (fun e => opt_list (p_cutv hp cs c e)) (snd q) = map (fun e => match p_cutv hp cs c e with Some y => y | None => (0,0) end) (snd q)).
  { clear - Hsome. induction (snd q) as [|e l IH]; [reflexivity|]. cbn [flat_map map].
    destruct (Hsome e (or_introl eq_refl)) as [y Ey]. rewrite Ey. cbn [opt_list app]. f_equal. apply IH. intros; apply Hsome; right; assumption. }
  rewrite Ef. apply NoDup_map_inj_on; auto. intros a b Ha Hb E.
  destruct (Hsome a Ha) as [ya Ea]. destruct (Hsome b Hb) as [yb Eb]. rewrite Ea, Eb in E. subst yb.
  destruct (Hu a Ha) as [La Oa]. destruct (Hu b Hb) as [Lb Ob].
  eapply (NoDup_map_inj key1 (hes_at p s)); eauto. unfold key1. f_equal; [congruence|].
  apply (hverts_of_parts hp cs c); auto; congruence.
Qed.

Lemma cut_pre_holds : forall t d p hp cs c ccs Jc todo J,
  NoDup (ids t) -> node_at t false p hp cs -> In (RNode c ccs) cs ->
  BaseAt (hes d) J (RNode c ccs) -> CutPar (hes d) p hp cs Jc todo ->
  (exists classes, classify hp cs c (hes_at c (hes d)) (hes_at p (hes d)) = Some classes) ->
  cut_pre t c d = true.
Proof.
  intros t d p hp cs c ccs Jc todo J ND Hn Hc HB HP [classes Hcl].
  unfold cut_pre. change c with (rid (RNode c ccs)) at 1 2.
  rewrite (find_parent_complete t false p hp cs (RNode c ccs) ND Hn Hc), (child_of_subtree t false p hp cs (RNode c ccs) ND Hn Hc).
  cbn [rid rchildren]. rewrite Hcl, (cut_distinct_holds _ _ _ _ _ _ _ _ _ Hc HP Hcl), andb_true_r.
  unfold BaseAt in HB. cbn [rid rchildren] in HB. destruct HP as [L _ _].
  apply andb_true_iff. split; [apply andb_true_iff; split|].
  - rewrite HB. apply forallb_forall. intros h Hh. apply in_map_iff in Hh. destruct Hh as [jf [E _]]. subst h.
    unfold bhe. cbn [hverts length]. rewrite map_length. apply Nat.eqb_refl.
  - apply forallb_forall. intros h Hh. rewrite (L h Hh). apply Nat.eqb_refl.
  - unfold cut_unit. rewrite HB. apply forallb_forall. intros h Hh. apply in_map_iff in Hh. destruct Hh as [jf [E _]]. subst h. reflexivity.
Qed.

Lemma us_on_base : forall (J : tlist) c ccs jf, NoDup (map fst J) -> In jf J ->
  us_on (map (fun a => bhe a c ccs) J) (Some (fst jf, c)) = [(fst jf, c)].
Proof.
  intros J c ccs jf ND Hjf. unfold us_on. rewrite filter_map_comm, map_map.
  rewrite (filter_ext _ (fun a => Nat.eqb (fst a) (fst jf))).
  - rewrite (filter_fst_unique J jf ND Hjf). reflexivity.
  - intros a. unfold head_vertex, bhe, oid_eqb. cbn [hverts fst snd]. rewrite Nat.eqb_refl, andb_true_r. reflexivity.
Qed.

Lemma classes_plain : forall s p hp cs c ccs Jc todo J classes,
  In (RNode c ccs) cs -> In (RNode c ccs) todo -> Jc (RNode c ccs) = J ->
  CutPar s p hp cs Jc todo -> BaseAt s J (RNode c ccs) -> NoDup (map fst J) ->
  classify hp cs c (hes_at c s) (hes_at p s) = Some classes ->
  NoDup (map fst classes) /\ Forall key_plain classes.
Proof.
  intros s p hp cs c ccs Jc todo J classes Hc Ht EJ [L S R] HB NDJ Hcl.
  unfold BaseAt in HB. cbn [rid rchildren] in HB.
  assert (Hcin : In c (map rid cs)) by (apply in_map_iff; exists (RNode c ccs); auto).
  apply (classify_loop_plain hp cs c (hes_at c s) (hes_at p s) 0 [] classes Hcl); auto; try constructor.
  - intros e e2 He [[q [[] _]]|He2] Hne EL EO.
    destruct (S e _ He Ht) as (jf & Hjf & Es). destruct (S e2 _ He2 Ht) as (jf2 & Hjf2 & Es2). cbn [rid] in Es, Es2.
    rewrite EJ in Hjf, Hjf2.
    unfold conflict, p_cutv. rewrite Es, Es2, HB, !us_on_base by auto. cbn [leqb]. unfold oid_eqb. cbn [fst snd].
    destruct (Nat.eqb (fst jf) (fst jf2)) eqn:E; [|cbn [andb]; apply andb_false_r].
    apply Nat.eqb_eq in E. exfalso. apply Hne. eapply (NoDup_map_inj key1 (hes_at p s)); eauto. unfold key1. f_equal; auto.
    apply (hverts_of_parts hp cs c); auto. unfold p_cutv. rewrite Es, Es2, E. reflexivity.
  - cbn [map concat app]. eapply NoDup_map_inv. exact R.
Qed.

Lemma rep_key : forall hp cs c us vsl classes j, classify hp cs c us vsl = Some classes -> Forall key_plain classes ->
  j < length classes ->
  fst (nth j classes dq) = (hlabel (hd dummy_he (snd (nth j classes dq))), p_others hp cs c (hd dummy_he (snd (nth j classes dq))), None).
Proof.
  intros hp cs c us vsl classes j Hcl Hpl Hj. destruct (classify_spec hp cs c us vsl classes Hcl) as [Hok _].
  rewrite Forall_forall in Hok, Hpl. assert (Hq : In (nth j classes dq) classes) by (apply nth_In; exact Hj).
  destruct (Hok _ Hq) as [Hne Hu]. specialize (Hpl _ Hq). unfold key_plain in Hpl.
  destruct (snd (nth j classes dq)) as [|e r] eqn:E; [contradiction|]. cbn [hd].
  destruct (Hu e (or_introl eq_refl)) as [A B]. destruct (fst (nth j classes dq)) as [[a b] tg]. cbn [fst snd] in *. congruence.
Qed.

(* ---- identifiers of the resolved placements, the hash table ------------------------------------- *)
Lemma resolve_ids : forall oU oV nU nV pl sU sV q,
  let rs := resolve oU oV nU nV pl sU sV q in
  (forall x, In x rs -> r_copy x = false -> r_id x = match r_side x with SU => oU (r_ix x) | SV => oV (r_ix x) end) /\
  (forall x, In x rs -> r_copy x = true -> q <= fst (r_id x) < q + length (filter r_copy rs)) /\
  NoDup (map r_id (filter r_copy rs)).
Proof.
  intros oU oV nU nV. induction pl as [|[w [[sd i] cf]] pl IH]; intros sU sV q rs.
  - subst rs. cbn [resolve filter map]. split; [intros x []|]. split; [intros x []|]. constructor.
  - subst rs. cbn [resolve]. destruct sd.
    + destruct (mem i sU).
      * destruct (IH sU sV (S q)) as (A1 & A2 & A3). cbn [filter r_copy map r_id length]. repeat split.
        -- intros x [E|Hx] Hc; [subst x; discriminate | apply A1; auto].
        -- destruct H as [E|Hx]; [subst x; cbn [r_id fst]; lia | destruct (A2 x Hx H0); lia].
        -- destruct H as [E|Hx]; [subst x; cbn [r_id fst]; lia | destruct (A2 x Hx H0); lia].
        -- constructor; auto. intros Hin. apply in_map_iff in Hin. destruct Hin as [y [E Hy]].
           apply filter_In in Hy. destruct Hy as [Hy Hc]. destruct (A2 y Hy Hc) as [B _]. rewrite E in B. cbn [fst] in B. lia.
      * destruct (IH (i :: sU) sV q) as (A1 & A2 & A3). cbn [filter r_copy]. repeat split; auto.
        -- intros x [E|Hx] Hc; [subst x; reflexivity | apply A1; auto].
        -- destruct H as [E|Hx]; [subst x; discriminate | apply A2; auto].
        -- destruct H as [E|Hx]; [subst x; discriminate | apply A2; auto].
    + destruct (mem i sV).
      * destruct (IH sU sV (S q)) as (A1 & A2 & A3). cbn [filter r_copy map r_id length]. repeat split.
        -- intros x [E|Hx] Hc; [subst x; discriminate | apply A1; auto].
        -- destruct H as [E|Hx]; [subst x; cbn [r_id fst]; lia | destruct (A2 x Hx H0); lia].
        -- destruct H as [E|Hx]; [subst x; cbn [r_id fst]; lia | destruct (A2 x Hx H0); lia].
        -- constructor; auto. intros Hin. apply in_map_iff in Hin. destruct Hin as [y [E Hy]].
           apply filter_In in Hy. destruct Hy as [Hy Hc]. destruct (A2 y Hy Hc) as [B _]. rewrite E in B. cbn [fst] in B. lia.
      * destruct (IH sU (i :: sV) q) as (A1 & A2 & A3). cbn [filter r_copy]. repeat split; auto.
        -- intros x [E|Hx] Hc; [subst x; reflexivity | apply A1; auto].
        -- destruct H as [E|Hx]; [subst x; discriminate | apply A2; auto].
        -- destruct H as [E|Hx]; [subst x; discriminate | apply A2; auto].
Qed.

Lemma find_app' : forall {A} (f : A -> bool) l1 l2, find f (l1 ++ l2) = match find f l1 with Some x => Some x | None => find f l2 end.
Proof. intros A f l1 l2. induction l1 as [|a l1 IH]; [reflexivity|]. cbn [app find]. destruct (f a); auto. Qed.
Lemma hash_of_app_old : forall tb ext k, (forall e, In e ext -> fst e <> k) -> hash_of (tb ++ ext) k = hash_of tb k.
Proof.
  intros tb ext k H. unfold hash_of. rewrite find_app'.
  destruct (find (fun e => oid_eqb (fst e) k) tb); [reflexivity|].
  destruct (find (fun e => oid_eqb (fst e) k) ext) as [e|] eqn:F; [|reflexivity].
  apply find_some in F. destruct F as [He Ek]. apply oid_eqb_true in Ek. exfalso. apply (H e He). exact Ek.
Qed.
Lemma hash_of_app_new : forall tb ext k v, (forall e, In e tb -> fst e <> k) -> NoDup (map fst ext) -> In (k, v) ext ->
  hash_of (tb ++ ext) k = v.
Proof.
  intros tb ext k v H ND Hin. unfold hash_of. rewrite find_app'.
  destruct (find (fun e => oid_eqb (fst e) k) tb) as [e|] eqn:F.
  - apply find_some in F. destruct F as [He Ek]. apply oid_eqb_true in Ek. exfalso. apply (H e He). exact Ek.
  - destruct (find (fun e => oid_eqb (fst e) k) ext) as [e|] eqn:F2.
    + apply find_some in F2. destruct F2 as [He Ek]. apply oid_eqb_true in Ek.
      assert (e = (k, v)) by (eapply (NoDup_map_inj fst ext); eauto). subst e. reflexivity.
    + exfalso. pose proof (find_none _ _ F2 (k, v) Hin) as Hf. cbn [fst] in Hf. rewrite oid_eqb_refl in Hf. discriminate.
Qed.

Definition IdsBelow (next : nat) (s : list he) : Prop := forall h, In h s -> fst (hid h) < next.
Definition TbBelow (next : nat) (tb : list (oid * list nat)) : Prop := forall e, In e tb -> fst (fst e) < next.

Lemma slot_set_at_other : forall cs c c' w vs, c' <> c -> slot_vertex cs c' (set_at cs c w vs) = slot_vertex cs c' vs.
Proof.
  induction cs as [|k cs IH]; intros c c' w vs Hne; destruct vs as [|y vs]; cbn [set_at slot_vertex]; auto.
  destruct (Nat.eqb (rid k) c) eqn:E; cbn [slot_vertex].
  - apply Nat.eqb_eq in E. replace (Nat.eqb (rid k) c') with false; [reflexivity|]. symmetry. apply Nat.eqb_neq. congruence.
  - destruct (Nat.eqb (rid k) c'); auto.
Qed.
Lemma set_at_in : forall cs c w vs y, In y (set_at cs c w vs) -> y = w \/ In y vs.
Proof.
  induction cs as [|k cs IH]; intros c w vs y H; destruct vs as [|z vs]; cbn [set_at] in H; auto.
  destruct (Nat.eqb (rid k) c).
  - destruct H as [H|H]; [left; auto | right; right; exact H].
  - destruct H as [H|H]; [right; left; exact H|]. destruct (IH _ _ _ _ H); [left; auto | right; right; auto].
Qed.
Lemma p_set_in : forall hp cs c w h y, In y (p_set hp cs c w h) -> y = w \/ In y (hverts h).
Proof.
  intros hp cs c w h y H. unfold p_set in H. destruct hp.
  - destruct (hverts h) as [|q r]; [destruct H|]. destruct H as [H|H]; [right; left; exact H|].
    destruct (set_at_in _ _ _ _ _ H); [left; auto | right; right; auto].
  - apply set_at_in in H. exact H.
Qed.
Lemma child_part_p_set : forall hp cs c w h, (hp = true -> hverts h <> []) ->
  child_part hp (mkHe (hid h) (hnode h) (hlabel h) (hlam h) (hgam h) (p_set hp cs c w h)) = set_at cs c w (child_part hp h).
Proof.
  intros hp cs c w h H. unfold child_part, p_set. cbn [hverts]. destruct hp; [|reflexivity].
  destruct (hverts h) as [|q r]; [exfalso; apply H; auto|]. reflexivity.
Qed.
Lemma down_node : forall f c ccs, down f (RNode c ccs) = f c :: flat_map (down f) ccs.
Proof. intros. unfold down. cbn [ids map]. rewrite map_flat_map. reflexivity. Qed.

Definition dj : nat * (nat -> nat) := (0, fun _ => 0).

Section CutEffect.
  Variables (t : rtree) (p : nat) (hp : bool) (cs : list rtree) (c : nat) (ccs : list rtree).
  Hypothesis ND : NoDup (ids t).
  Hypothesis Hn : node_at t false p hp cs.
  Hypothesis Hc : In (RNode c ccs) cs.
  Variables (s : list he) (tb : list (oid * list nat)) (fr : nat).
  Variables (Jc : rtree -> tlist) (todo : list rtree) (J : tlist).
  Hypothesis EJ : Jc (RNode c ccs) = J.
  Hypothesis Htodo : In (RNode c ccs) todo.
  Hypothesis HB : BaseBelow s J (RNode c ccs).
  Hypothesis NDJ : NoDup (map fst J).
  Hypothesis HK : NoDup (map (fun jf => down (snd jf) (RNode c ccs)) J).
  Hypothesis Htb : forall tx jf, is_subtree tx (RNode c ccs) -> In jf J -> hash_of tb (fst jf, rid tx) = down (snd jf) tx.
  Hypothesis HCP : CutPar s p hp cs Jc todo.
  Hypothesis HT : Typed t s.
  Hypothesis HI : IdsBelow fr s.
  Hypothesis HTB : TbBelow fr tb.
  (* what cut_diagram returned *)
  Variables (classes : list vclass) (r : B.mvc_result) (s' : list he).
  Hypothesis Hcl : classify hp cs c (hes_at c s) (hes_at p s) = Some classes.
  Let us := hes_at c s.
  Let reps := map (fun q : vclass => hd dummy_he (snd q)) classes.
  Let m := length us.
  Let n := length classes.
  Let G := gamma hp cs c us classes.
  Hypothesis Hmvc : B.mvc (B.mk_graph m n (gedges G m n)) = Some r.
  Let nv := new_vertices_pl G m n (B.r_ucover r) (B.r_vcover r).
  Let nw := length nv.
  Let rs := resolve (fun i => hid (nth i us dummy_he)) (fun j => hid (nth j reps dummy_he)) c p (number_pl 0 nv) [] [] (fr + nw).
  Hypothesis HgU : forall i, i < m -> exists x, first_pl SU i rs = Some x.
  Hypothesis HgV : forall j, j < n -> exists x, first_pl SV j rs = Some x.
  Hypothesis Ep : hes_at p s' = newV_of p hp cs c fr reps n rs.
  Hypothesis Ec : hes_at c s' = newU_of c fr us m rs.
  Hypothesis Eo : forall v, v <> p -> v <> c -> hes_at v s' = hes_at v s.
  Hypothesis Hall : forall h, In h s' -> In h s \/ In h (newV_of p hp cs c fr reps n rs) \/ In h (newU_of c fr us m rs).
  Let ext := map (fun x => (r_id x, hash_of tb (hid (nth (r_ix x) (match r_side x with SU => us | SV => reps end) dummy_he)))) (filter r_copy rs).
  Let tb' := tb ++ ext.
  Let fr' := fr + nw + length (filter r_copy rs).

  Lemma ce_tree : p <> c /\ NoDup (map rid cs) /\ parent_of c t = Some p /\
                  (forall gg v, In gg ccs -> In v (ids gg) -> v <> p /\ v <> c).
  Proof.
    assert (NDp : NoDup (ids (RNode p cs))) by (eapply is_subtree_wf; [eapply node_at_subtree; eauto | exact ND]).
    destruct (edge_tree_facts p cs c ccs NDp Hc) as (A & _ & B').
    split; [exact A|]. split; [eapply children_rid_nodup; eauto|]. split; [|exact B'].
    change c with (rid (RNode c ccs)). eapply find_parent_parent_of; eauto. eapply find_parent_complete; eauto.
  Qed.

  Lemma ce_us : us = map (fun jf => bhe jf c ccs) J.
  Proof. unfold us. apply (HB (RNode c ccs) (sub_here _)). Qed.
  Lemma ce_m : m = length J.
  Proof. unfold m. rewrite ce_us, map_length. reflexivity. Qed.
  Lemma ce_ui : forall i, i < m -> nth i us dummy_he = bhe (nth i J dj) c ccs /\ In (nth i J dj) J.
  Proof.
    intros i Hi. rewrite ce_m in Hi. split; [|apply nth_In; exact Hi].
    rewrite ce_us. apply (nth_map_lt (fun jf => bhe jf c ccs) J dj dummy_he i Hi).
  Qed.
  Lemma ce_rep : forall j, j < n -> In (nth j reps dummy_he) (hes_at p s).
  Proof. intros j Hj. apply (rep_in s p hp cs c classes Hcl j Hj). Qed.

  Lemma ce_cover : (NoDup (B.r_ucover r) /\ forall a, In a (B.r_ucover r) -> a < m) /\
                   (NoDup (B.r_vcover r) /\ forall b, In b (B.r_vcover r) -> b < n).
  Proof. destruct (mvc_cover_facts G m n r Hmvc) as (A1 & A2 & A3 & A4 & _). auto. Qed.

  Lemma ce_range : forall x, In x rs -> (r_side x = SU -> r_ix x < m) /\ (r_side x = SV -> r_ix x < n).
  Proof.
    destruct ce_tree as (Hpc & _). destruct ce_cover as [HCu HCv].
    intros x Hx. apply (rs_range s p hp cs c Hpc classes (B.r_ucover r) (B.r_vcover r) HCu HCv rs); auto.
    apply resolve_keys.
  Qed.

  (* the hyperedges of the two nodes after the step *)
  Lemma ce_newV : forall h, In h (newV_of p hp cs c fr reps n rs) ->
    exists x, In x rs /\ r_side x = SV /\ r_ix x < n /\ h = place_v p hp cs c fr (nth (r_ix x) reps dummy_he) x.
  Proof.
    intros h Hh. unfold newV_of in Hh. apply in_app_or in Hh. destruct Hh as [Hh|Hh]; apply in_map_iff in Hh; destruct Hh as [y [E Hy]].
    - apply in_seq in Hy. destruct (HgV y) as [x Hx]; [lia|]. rewrite Hx in E. unfold first_pl in Hx. apply find_some in Hx.
      destruct Hx as [Hin Hp]. apply andb_true_iff in Hp. destruct Hp as [Hp Hi]. apply Nat.eqb_eq in Hi.
      unfold is_pl in Hp. apply andb_true_iff in Hp. destruct Hp as [Hs _]. apply side_eqb_true in Hs.
      exists x. subst y. repeat split; auto; lia.
    - apply filter_In in Hy. destruct Hy as [Hin Hp]. unfold is_pl in Hp. apply andb_true_iff in Hp. destruct Hp as [Hs _].
      apply side_eqb_true in Hs. exists y. repeat split; auto. apply (ce_range y Hin). exact Hs.
  Qed.
  Lemma ce_newU : forall h, In h (newU_of c fr us m rs) ->
    exists x, In x rs /\ r_side x = SU /\ r_ix x < m /\ h = place_u c fr (nth (r_ix x) us dummy_he) x.
  Proof.
    intros h Hh. unfold newU_of in Hh. apply in_app_or in Hh. destruct Hh as [Hh|Hh]; apply in_map_iff in Hh; destruct Hh as [y [E Hy]].
    - apply in_seq in Hy. destruct (HgU y) as [x Hx]; [lia|]. rewrite Hx in E. unfold first_pl in Hx. apply find_some in Hx.
      destruct Hx as [Hin Hp]. apply andb_true_iff in Hp. destruct Hp as [Hp Hi]. apply Nat.eqb_eq in Hi.
      unfold is_pl in Hp. apply andb_true_iff in Hp. destruct Hp as [Hs _]. apply side_eqb_true in Hs.
      exists x. subst y. repeat split; auto; lia.
    - apply filter_In in Hy. destruct Hy as [Hin Hp]. unfold is_pl in Hp. apply andb_true_iff in Hp. destruct Hp as [Hs _].
      apply side_eqb_true in Hs. exists y. repeat split; auto. apply (ce_range y Hin). exact Hs.
  Qed.

  Lemma ce_typed : Typed t s'.
  Proof.
    destruct ce_tree as (Hpc & _ & Hpar & _).
    intros h y Hh Hy. destruct (Hall h Hh) as [Hs|[Hv|Hu]]; [apply (HT h y Hs Hy)| |].
    - destruct (ce_newV h Hv) as (x & _ & _ & Hx & E). subst h. unfold place_v in Hy |- *. cbn [hverts hnode] in *.
      apply p_set_in in Hy. destruct Hy as [Ey|Hy]; [subst y; right; exact Hpar|].
      pose proof (ce_rep _ Hx) as Hr. apply hes_at_in in Hr. destruct Hr as [Hr Hnr]. rewrite <- Hnr. apply (HT _ y Hr Hy).
    - destruct (ce_newU h Hu) as (x & _ & _ & Hx & E). subst h. unfold place_u in Hy |- *. cbn [hverts hnode] in *.
      destruct Hy as [Ey|Hy]; [subst y; left; reflexivity|].
      destruct (ce_ui _ Hx) as [Eu _]. rewrite Eu in Hy. unfold bhe in Hy. cbn [hverts tl] in Hy.
      apply in_map_iff in Hy. destruct Hy as [gg [E Hgg]]. subst y. right. cbn [snd].
      assert (NDp : NoDup (ids (RNode p cs))) by (eapply is_subtree_wf; [eapply node_at_subtree; eauto | exact ND]).
      apply parent_of_complete; auto. eapply edges_subtree; [eapply node_at_subtree; eauto|].
      eapply edges_child; [exact Hc|]. apply edges_root. exact Hgg.
  Qed.

  Lemma ce_rid : forall x, In x rs ->
    (r_copy x = false -> r_id x = hid (nth (r_ix x) (match r_side x with SU => us | SV => reps end) dummy_he)) /\
    (r_copy x = true -> fr + nw <= fst (r_id x) < fr').
  Proof.
    intros x Hx. destruct (resolve_ids (fun i => hid (nth i us dummy_he)) (fun j => hid (nth j reps dummy_he)) c p
                                       (number_pl 0 nv) [] [] (fr + nw)) as (A1 & A2 & _).
    fold rs in A1, A2. split.
    - intros Hc'. rewrite (A1 x Hx Hc'). destruct (r_side x); reflexivity.
    - intros Hc'. unfold fr'. apply (A2 x Hx Hc').
  Qed.
  Lemma ce_orig_in : forall x, In x rs -> In (nth (r_ix x) (match r_side x with SU => us | SV => reps end) dummy_he) s.
  Proof.
    intros x Hx. destruct (ce_range x Hx) as [RU RV]. destruct (r_side x).
    - assert (Hin : In (nth (r_ix x) us dummy_he) us) by (apply nth_In; apply RU; reflexivity).
      unfold us in Hin at 2. apply hes_at_in in Hin. tauto.
    - pose proof (ce_rep _ (RV eq_refl)) as Hin. apply hes_at_in in Hin. tauto.
  Qed.
  Lemma ce_id_lt : forall x, In x rs -> fst (r_id x) < fr'.
  Proof.
    intros x Hx. destruct (ce_rid x Hx) as [A1 A2]. destruct (r_copy x) eqn:E; [apply A2; reflexivity|].
    rewrite (A1 eq_refl). pose proof (HI _ (ce_orig_in x Hx)). unfold fr'. lia.
  Qed.

  Lemma ce_ids : IdsBelow fr' s'.
  Proof.
    intros h Hh. destruct (Hall h Hh) as [Hs|[Hv|Hu]].
    - pose proof (HI h Hs). unfold fr'. lia.
    - destruct (ce_newV h Hv) as (x & Hx & _ & _ & E). subst h. cbn [place_v hid]. apply ce_id_lt. exact Hx.
    - destruct (ce_newU h Hu) as (x & Hx & _ & _ & E). subst h. cbn [place_u hid]. apply ce_id_lt. exact Hx.
  Qed.
  Lemma ce_tb : TbBelow fr' tb'.
  Proof.
    intros e He. unfold tb' in He. apply in_app_or in He. destruct He as [He|He].
    - pose proof (HTB e He). unfold fr'. lia.
    - unfold ext in He. apply in_map_iff in He. destruct He as [x [E Hx]]. subst e. cbn [fst].
      apply filter_In in Hx. apply ce_id_lt. tauto.
  Qed.
  Lemma ce_ext_ge : forall e, In e ext -> fr <= fst (fst e).
  Proof.
    intros e He. unfold ext in He. apply in_map_iff in He. destruct He as [x [E Hx]]. subst e. cbn [fst].
    apply filter_In in Hx. destruct Hx as [Hx Hc']. destruct (ce_rid x Hx) as [_ A]. specialize (A Hc'). lia.
  Qed.
  Lemma ce_hash_old : forall k, fst k < fr -> hash_of tb' k = hash_of tb k.
  Proof.
    intros k Hk. unfold tb'. apply hash_of_app_old. intros e He E. pose proof (ce_ext_ge e He). rewrite E in H. lia.
  Qed.
  Lemma ce_hash_pl : forall x, In x rs ->
    hash_of tb' (r_id x) = hash_of tb (hid (nth (r_ix x) (match r_side x with SU => us | SV => reps end) dummy_he)).
  Proof.
    intros x Hx. destruct (ce_rid x Hx) as [A1 A2]. destruct (r_copy x) eqn:E.
    - unfold tb'. apply hash_of_app_new.
      + intros e He Ee. pose proof (HTB e He). rewrite Ee in H. specialize (A2 eq_refl). lia.
      + unfold ext. rewrite map_map. cbn [fst].
        destruct (resolve_ids (fun i => hid (nth i us dummy_he)) (fun j => hid (nth j reps dummy_he)) c p
                              (number_pl 0 nv) [] [] (fr + nw)) as (_ & _ & A3). exact A3.
      + unfold ext. apply in_map_iff. exists x. split; [reflexivity|]. apply filter_In. auto.
    - rewrite (A1 eq_refl). apply ce_hash_old. apply HI. apply ce_orig_in. exact Hx.
  Qed.

  (* injectivity of the resolved placements *)
  Lemma ce_rs_inj : forall x y, In x rs -> In y rs -> r_side x = r_side y -> r_w x = r_w y -> r_ix x = r_ix y -> x = y.
  Proof.
    intros x y Hx Hy E1 E2 E3.
    pose proof (resolved_nodup (fun i => hid (nth i us dummy_he)) (fun j => hid (nth j reps dummy_he)) c p G m n
                               (B.r_ucover r) (B.r_vcover r) (fr + nw)) as NDr. fold nv rs in NDr.
    eapply (NoDup_map_inj (fun x => (r_w x, (r_side x, r_ix x))) rs); eauto. cbv beta. congruence.
  Qed.
  Lemma ce_rs_nodup : NoDup rs.
  Proof.
    pose proof (resolved_nodup (fun i => hid (nth i us dummy_he)) (fun j => hid (nth j reps dummy_he)) c p G m n
                               (B.r_ucover r) (B.r_vcover r) (fr + nw)) as NDr. fold nv rs in NDr.
    eapply NoDup_map_inv. exact NDr.
  Qed.

  Lemma ce_lists : exists LV LU,
    hes_at p s' = map (fun x => place_v p hp cs c fr (nth (r_ix x) reps dummy_he) x) LV /\
    hes_at c s' = map (fun x => place_u c fr (nth (r_ix x) us dummy_he) x) LU /\
    NoDup LV /\ NoDup LU /\
    (forall x, In x LV -> In x rs /\ r_side x = SV /\ r_ix x < n) /\
    (forall x, In x LU -> In x rs /\ r_side x = SU /\ r_ix x < m).
  Proof.
    destruct ce_tree as (Hpc & _). destruct ce_cover as [HCu HCv].
    destruct (resolve_firsts (fun i => hid (nth i us dummy_he)) (fun j => hid (nth j reps dummy_he)) c p
                             (number_pl 0 nv) [] [] (fr + nw)) as (F1 & _ & F2 & _). fold rs in F1, F2.
    destruct (after_lists s p hp cs c fr Hpc classes (B.r_ucover r) (B.r_vcover r) HCu HCv rs
                          (resolve_keys _ _ _ _ _ _ _ _) F1 F2 HgU HgV s' Ep Ec) as (LV & LU & E1 & E2 & P1 & P2).
    exists LV, LU. split; [exact E1|]. split; [exact E2|].
    assert (NDf : forall sd_, NoDup (filter (fun x => side_eqb (r_side x) sd_) rs)) by (intros; apply NoDup_filter; apply ce_rs_nodup).
    split; [eapply Permutation_NoDup; [apply Permutation_sym; exact P1 | apply NDf]|].
    split; [eapply Permutation_NoDup; [apply Permutation_sym; exact P2 | apply NDf]|].
    split; intros x Hx.
    - apply (Permutation_in _ P1) in Hx. apply filter_In in Hx. destruct Hx as [Hx Hs]. apply side_eqb_true in Hs.
      repeat split; auto. apply (ce_range x Hx). exact Hs.
    - apply (Permutation_in _ P2) in Hx. apply filter_In in Hx. destruct Hx as [Hx Hs]. apply side_eqb_true in Hs.
      repeat split; auto. apply (ce_range x Hx). exact Hs.
  Qed.

  (* ---- the parent after the step ---- *)
  Lemma ce_rep_shape : forall j, j < n ->
    length (hverts (nth j reps dummy_he)) = (if hp then 1 else 0) + length cs /\
    (hp = true -> hverts (nth j reps dummy_he) <> []) /\
    exists y, slot_vertex cs c (child_part hp (nth j reps dummy_he)) = Some y.
  Proof.
    intros j Hj. pose proof (ce_rep j Hj) as Hr. destruct HCP as [L S R]. pose proof (L _ Hr) as Lr.
    split; [exact Lr|]. split.
    - intros E. subst hp. intros E. rewrite E in Lr. discriminate.
    - destruct (S _ _ Hr Htodo) as (jf & _ & Es). cbn [rid] in Es. eauto.
  Qed.

  Lemma ce_pv_parts : forall x, r_ix x < n ->
    let h := place_v p hp cs c fr (nth (r_ix x) reps dummy_he) x in
    hlabel h = hlabel (nth (r_ix x) reps dummy_he) /\
    length (hverts h) = (if hp then 1 else 0) + length cs /\
    child_part hp h = set_at cs c (vertex_name c fr (r_w x)) (child_part hp (nth (r_ix x) reps dummy_he)) /\
    p_cutv hp cs c h = Some (vertex_name c fr (r_w x)) /\
    p_others hp cs c h = p_others hp cs c (nth (r_ix x) reps dummy_he).
  Proof.
    intros x Hx h. destruct (ce_rep_shape _ Hx) as (Lr & Nr & y & Ey). set (v := nth (r_ix x) reps dummy_he) in *.
    assert (CPh : child_part hp h = set_at cs c (vertex_name c fr (r_w x)) (child_part hp v)).
    { unfold h, place_v. unfold child_part, p_set. cbn [hverts]. destruct hp; [|reflexivity].
      destruct (hverts v) as [|q rr]; [exfalso; apply Nr; auto|]. reflexivity. }
    split; [reflexivity|]. split.
    - unfold h, place_v, p_set. cbn [hverts]. destruct hp.
      + destruct (hverts v) as [|q rr]; [exfalso; apply Nr; auto|]. cbn [length] in *. rewrite set_at_length. exact Lr.
      + rewrite set_at_length. exact Lr.
    - split; [exact CPh|]. split.
      + unfold p_cutv. rewrite CPh. eapply slot_set_at; eauto.
      + unfold p_others. rewrite CPh, drop_set_at. f_equal. unfold h, place_v, p_set. cbn [hverts]. destruct hp; [|reflexivity].
        destruct (hverts v) as [|q rr]; [exfalso; apply Nr; auto|]. reflexivity.
  Qed.

  Lemma ce_cutpar : forall todo', (forall g', In g' todo' -> In g' todo /\ rid g' <> c) -> CutPar s' p hp cs Jc todo'.
  Proof.
    intros todo' Htd. destruct ce_lists as (LV & LU & E1 & E2 & N1 & N2 & RV & RU).
    destruct HCP as [L S R]. constructor.
    - intros h Hh. rewrite E1 in Hh. apply in_map_iff in Hh. destruct Hh as [x [E Hx]]. subst h.
      destruct (RV x Hx) as (_ & _ & Rx). apply (ce_pv_parts x Rx).
    - intros h g' Hh Hg'. rewrite E1 in Hh. apply in_map_iff in Hh. destruct Hh as [x [E Hx]]. subst h.
      destruct (RV x Hx) as (_ & _ & Rx). destruct (Htd g' Hg') as [Hg Hne].
      destruct (ce_pv_parts x Rx) as (_ & _ & CPh & _). rewrite CPh, slot_set_at_other by exact Hne.
      apply (S _ g' (ce_rep _ Rx) Hg).
    - rewrite E1, map_map. apply NoDup_map_inj_on; auto. intros x y Hx Hy E.
      destruct (RV x Hx) as (Rx1 & Rx2 & Rx3). destruct (RV y Hy) as (Ry1 & Ry2 & Ry3).
      destruct (ce_pv_parts x Rx3) as (A1 & A2 & _ & A4 & A5). destruct (ce_pv_parts y Ry3) as (B1 & B2 & _ & B4 & B5).
      unfold key1 in E. inversion E as [[EL EV]].
      assert (Ecut : Some (vertex_name c fr (r_w x)) = Some (vertex_name c fr (r_w y))).
      { rewrite <- A4, <- B4. unfold p_cutv, child_part, place_v. cbn [hverts]. rewrite EV. reflexivity. }
      assert (Eoth : p_others hp cs c (nth (r_ix x) reps dummy_he) = p_others hp cs c (nth (r_ix y) reps dummy_he)).
      { rewrite <- A5, <- B5. unfold p_others, child_part, place_v. cbn [hverts]. rewrite EV. reflexivity. }
      apply ce_rs_inj; auto; [congruence | inversion Ecut; lia|].
      (* equal class keys *)
      destruct (classes_plain s p hp cs c ccs Jc todo J classes Hc Htodo EJ (Build_CutPar _ _ _ _ _ _ L S R)
                              (HB _ (sub_here _)) NDJ Hcl) as [NDk Hpl].
      pose proof (rep_key hp cs c _ _ classes (r_ix x) Hcl Hpl Rx3) as Kx.
      pose proof (rep_key hp cs c _ _ classes (r_ix y) Hcl Hpl Ry3) as Ky.
      assert (Erx : nth (r_ix x) reps dummy_he = hd dummy_he (snd (nth (r_ix x) classes dq))).
      { unfold reps. apply (nth_map_lt (fun q : vclass => hd dummy_he (snd q)) classes dq dummy_he _ Rx3). }
      assert (Ery : nth (r_ix y) reps dummy_he = hd dummy_he (snd (nth (r_ix y) classes dq))).
      { unfold reps. apply (nth_map_lt (fun q : vclass => hd dummy_he (snd q)) classes dq dummy_he _ Ry3). }
      rewrite <- Erx in Kx. rewrite <- Ery in Ky.
      assert (Ek : nth (r_ix x) (map fst classes) (fst dq) = nth (r_ix y) (map fst classes) (fst dq)).
      { rewrite (nth_map_lt fst classes dq (fst dq) _ Rx3), (nth_map_lt fst classes dq (fst dq) _ Ry3).
        eapply eq_trans; [exact Kx|]. symmetry. eapply eq_trans; [exact Ky|].
        cbn [place_v hlabel] in EL. rewrite EL, Eoth. reflexivity. }
      apply (proj1 (NoDup_nth (map fst classes) (fst dq)) NDk); auto; rewrite map_length; auto.
  Qed.

  (* ---- the child becomes a frontier node ---- *)
  Lemma ce_pu_hash : forall x, In x rs -> r_side x = SU -> r_ix x < m ->
    hash_of tb' (r_id x) = down (snd (nth (r_ix x) J dj)) (RNode c ccs).
  Proof.
    intros x Hx Hs Hi. rewrite (ce_hash_pl x Hx), Hs. destruct (ce_ui _ Hi) as [Eu Hin]. rewrite Eu.
    unfold bhe. cbn [hid]. apply (Htb (RNode c ccs) _ (sub_here _) Hin).
  Qed.

  Lemma ce_mid : Mid t s' tb' c true ccs (fun _ => J).
  Proof.
    destruct ce_lists as (LV & LU & E1 & E2 & N1 & N2 & RV & RU). destruct ce_tree as (Hpc & NDr & Hpar & Htr2).
    constructor.
    - intros h Hh. rewrite E2 in Hh. apply in_map_iff in Hh. destruct Hh as [x [E Hx]]. subst h.
      destruct (RU x Hx) as (Rx1 & Rx2 & Rx3). destruct (ce_ui _ Rx3) as [Eu Hin].
      exists (snd (nth (r_ix x) J dj)), (fun _ => fst (nth (r_ix x) J dj)).
      unfold place_u. cbn [hlabel hid hverts]. rewrite Eu. unfold bhe at 1 2. cbn [hlabel hverts tl].
      split; [reflexivity|]. split; [rewrite (ce_pu_hash x Rx1 Rx2 Rx3); apply down_node|].
      split; [reflexivity|]. split; [intros _; unfold vertex_name; eauto|].
      intros gg Hgg. exists (nth (r_ix x) J dj). auto.
    - rewrite E2, map_map. apply NoDup_map_inj_on; auto. intros x y Hx Hy E.
      destruct (RU x Hx) as (Rx1 & Rx2 & Rx3). destruct (RU y Hy) as (Ry1 & Ry2 & Ry3).
      unfold key2, place_u in E. cbn [hverts hid hd_error] in E. inversion E as [[Ew Eh]].
      rewrite (ce_pu_hash x Rx1 Rx2 Rx3), (ce_pu_hash y Ry1 Ry2 Ry3) in Eh.
      apply ce_rs_inj; auto; [congruence | lia|].
      rewrite ce_m in Rx3, Ry3.
      apply (proj1 (NoDup_nth (map (fun jf => down (snd jf) (RNode c ccs)) J) (down (snd dj) (RNode c ccs))) HK);
        try (rewrite map_length; auto).
      rewrite (nth_map_lt (fun jf => down (snd jf) (RNode c ccs)) J dj _ _ Rx3),
              (nth_map_lt (fun jf => down (snd jf) (RNode c ccs)) J dj _ _ Ry3). exact Eh.
    - intros gg Hgg. split; [|split; [exact NDJ|]].
      + apply (BaseBelow_ext s); [|eapply BaseBelow_child; eauto].
        intros v Hv. destruct (Htr2 gg v Hgg Hv). apply Eo; auto.
      + intros tx jf Hx Hjf. rewrite ce_hash_old.
        * apply Htb; auto. eapply sub_child; eauto.
        * assert (Hat : BaseAt s J tx) by (apply HB; eapply sub_child; eauto).
          assert (Hin : In (bhe jf (rid tx) (rchildren tx)) s).
          { assert (H : In (bhe jf (rid tx) (rchildren tx)) (hes_at (rid tx) s)) by (rewrite Hat; apply in_map_iff; exists jf; split; [reflexivity | exact Hjf]).
            apply hes_at_in in H. tauto. }
          apply (HI _ Hin).
  Qed.
End CutEffect.

(* ---- one cut step of the run --------------------------------------------------------------------- *)
Lemma cut_effect : forall t p hp cs c ccs st st' Jc todo,
  NoDup (ids t) -> node_at t false p hp cs -> In (RNode c ccs) cs -> In (RNode c ccs) todo ->
  cut_step t c st = Some st' ->
  BaseBelow (hes (p_sd st)) (Jc (RNode c ccs)) (RNode c ccs) -> NoDup (map fst (Jc (RNode c ccs))) ->
  Kept Jc (RNode c ccs) ->
  (forall tx jf, is_subtree tx (RNode c ccs) -> In jf (Jc (RNode c ccs)) -> hash_of (p_hash st) (fst jf, rid tx) = down (snd jf) tx) ->
  CutPar (hes (p_sd st)) p hp cs Jc todo -> Typed t (hes (p_sd st)) ->
  IdsBelow (p_next st) (hes (p_sd st)) -> TbBelow (p_next st) (p_hash st) ->
  cut_pre t c (p_sd st) = true /\
  (forall v, v <> p -> v <> c -> hes_at v (hes (p_sd st')) = hes_at v (hes (p_sd st))) /\
  (forall k, fst k < p_next st -> hash_of (p_hash st') k = hash_of (p_hash st) k) /\
  p_next st <= p_next st' /\
  Typed t (hes (p_sd st')) /\ IdsBelow (p_next st') (hes (p_sd st')) /\ TbBelow (p_next st') (p_hash st') /\
  (forall todo', (forall g', In g' todo' -> In g' todo /\ rid g' <> c) -> CutPar (hes (p_sd st')) p hp cs Jc todo') /\
  Mid t (hes (p_sd st')) (p_hash st') c true ccs (fun _ => Jc (RNode c ccs)).
Proof.
  intros t p hp cs c ccs st st' Jc todo ND Hn Hc Htodo Hstep HB NDJ HK Htb HCP HT HI HTB.
  assert (NDp : NoDup (ids (RNode p cs))) by (eapply is_subtree_wf; [eapply node_at_subtree; eauto | exact ND]).
  destruct (edge_tree_facts p cs c ccs NDp Hc) as (Hpc & _).
  unfold cut_step in Hstep. change c with (rid (RNode c ccs)) in Hstep at 1.
  rewrite (find_parent_complete t false p hp cs (RNode c ccs) ND Hn Hc) in Hstep.
  destruct (cut_diagram p hp cs c (p_next st) (p_sd st)) as [[[[[d' rs] us] reps] nw]|] eqn:D; [|discriminate].
  inversion Hstep; subst st'. clear Hstep. cbn [p_sd p_hash p_next].
  destruct (cut_diagram_spec p hp cs c (p_next st) (p_sd st) d' rs us reps nw Hpc D)
    as (classes & r & Hcl & Eus & Ereps & Hmvc & Enw & Ers & HgU & HgV & Ep & Ec & Eo & Hall).
  subst us reps. rewrite Enw in Ers. subst rs. subst nw.
  split; [eapply cut_pre_holds; eauto; apply (HB _ (sub_here _))|].
  split; [exact Eo|].
  split; [intros k Hk; solve [first [eapply (ce_hash_old t) | eapply ce_hash_old]; eauto]|].
  split; [lia|].
  split; [solve [first [eapply (ce_typed t) | eapply ce_typed]; eauto]|].
  split; [solve [first [eapply (ce_ids t) | eapply ce_ids]; eauto]|].
  split; [solve [first [eapply (ce_tb t) | eapply ce_tb]; eauto]|].
  split; [intros todo' Htd; solve [eapply (ce_cutpar t); eauto; exact (p_hash st)]|].
  eapply (ce_mid t); eauto.
Qed.

(* ====================================================================================== *)
(* 4. the level induction                                                                  *)
(* ====================================================================================== *)
Lemma merge_hes_ids : forall t c x1 x2 s h, In h (merge_hes t c x1 x2 s) -> exists h0, In h0 s /\ hid h = hid h0.
Proof.
  intros t c x1 x2 s h H. unfold merge_hes in H. destruct (oid_eqb x1 x2); [eauto|].
  destruct (find_parent t false c) as [[[p hp] cs]|] eqn:F; [|eauto].
  unfold erase_hes in H. apply filter_In in H. destruct H as [H _]. unfold merge_redirect in H. rewrite F in H.
  apply in_map_iff in H. destruct H as [h0 [E Hh0]]. exists h0. split; auto. subst h.
  unfold redirect_he. destruct (Nat.eqb (hnode h0) p); reflexivity.
Qed.
Lemma combine_loop_ids : forall t c tb snap seen d h, In h (hes (combine_loop t c tb snap seen d)) ->
  exists h0, In h0 (hes d) /\ hid h = hid h0.
Proof.
  intros t c tb. induction snap as [|e2 r IH]; intros seen d h H; cbn [combine_loop] in H; [eauto|].
  destruct (find _ seen) as [e|]; [|eapply IH; eauto].
  destruct (IH _ _ _ H) as [h1 [H1 E1]]. unfold merge in H1. cbn [hes] in H1.
  destruct (merge_hes_ids _ _ _ _ _ _ H1) as [h0 [H0 E0]]. exists h0. split; auto. congruence.
Qed.

Lemma PH_tb : forall tb tb' p hp cs Jc h, hash_of tb' (hid h) = hash_of tb (hid h) -> PH tb p hp cs Jc h -> PH tb' p hp cs Jc h.
Proof. intros tb tb' p hp cs Jc h E (fo & a & L & Hs & R). exists fo, a. rewrite E. auto. Qed.

Lemma base_in : forall s J tv tx jf, BaseBelow s J tv -> is_subtree tx tv -> In jf J -> In (bhe jf (rid tx) (rchildren tx)) s.
Proof.
  intros s J tv tx jf HB Hx Hjf. assert (H : In (bhe jf (rid tx) (rchildren tx)) (hes_at (rid tx) s)).
  { rewrite (HB tx Hx). apply in_map_iff. exists jf. auto. }
  apply hes_at_in in H. tauto.
Qed.

(* a frontier node is not affected by steps elsewhere that extend the hash table *)
Lemma Mid_stable : forall t s s' tb tb' next p hp cs Jc,
  Mid t s tb p hp cs Jc -> IdsBelow next s ->
  (forall v, In v (ids (RNode p cs)) -> hes_at v s' = hes_at v s) ->
  (forall k, fst k < next -> hash_of tb' k = hash_of tb k) ->
  Mid t s' tb' p hp cs Jc.
Proof.
  intros t s s' tb tb' next p hp cs Jc HM HI Hf Hh. apply (Mid_frame t s s' tb' p hp cs Jc Hf).
  destruct HM as [A B C].
  assert (Hid : forall h, In h (hes_at p s) -> hash_of tb' (hid h) = hash_of tb (hid h)).
  { intros h Hh'. apply Hh. apply HI. apply hes_at_in in Hh'. tauto. }
  constructor.
  - intros h Hh'. eapply PH_tb; [apply Hid; exact Hh' | apply A; exact Hh'].
  - rewrite (map_ext_in (key2 tb' hp) (key2 tb hp)); [exact B|]. intros h Hh'. unfold key2. rewrite (Hid h Hh'). reflexivity.
  - intros g Hg. destruct (C g Hg) as (C1 & C2 & C3). split; [exact C1|]. split; [exact C2|].
    intros tx jf Hx Hjf. rewrite Hh; [apply C3; auto|].
    apply (HI _ (base_in s (Jc g) g tx jf C1 Hx Hjf)).
Qed.

Lemma combine_children : forall t p hp cs, NoDup (ids t) -> node_at t false p hp cs ->
  forall gs st Jc, incl gs cs -> NoDup (map rid gs) ->
    Typed t (hes (p_sd st)) -> Mid t (hes (p_sd st)) (p_hash st) p hp cs Jc ->
    exists Jc',
      Typed t (hes (p_sd (combine_pass t (map rid gs) st))) /\
      Mid t (hes (p_sd (combine_pass t (map rid gs) st))) (p_hash st) p hp cs Jc' /\
      (forall g, In g gs -> Kept Jc' g) /\
      (forall g, In g cs -> ~ In (rid g) (map rid gs) -> Jc' g = Jc g) /\
      p_hash (combine_pass t (map rid gs) st) = p_hash st /\ p_next (combine_pass t (map rid gs) st) = p_next st /\
      (forall h, In h (hes (p_sd (combine_pass t (map rid gs) st))) -> exists h0, In h0 (hes (p_sd st)) /\ hid h = hid h0) /\
      (forall v, ~ In v (ids (RNode p cs)) -> hes_at v (hes (p_sd (combine_pass t (map rid gs) st))) = hes_at v (hes (p_sd st))) /\
      peq (sd_denote t (p_sd (combine_pass t (map rid gs) st))) (sd_denote t (p_sd st)).
Proof.
  intros t p hp cs ND Hn. induction gs as [|g gs IH]; intros st Jc Hincl NDg HT HM.
  - exists Jc. unfold combine_pass. cbn [map fold_left].
    split; [exact HT|]. split; [exact HM|]. split; [intros g []|]. split; [auto|]. split; [reflexivity|]. split; [reflexivity|].
    split; [eauto|]. split; [auto | apply peq_refl].
  - cbn [map] in NDg. inversion NDg as [|? ? Hng NDg']; subst.
    assert (Hg : In g cs) by (apply Hincl; left; reflexivity).
    destruct (combine_child t p hp cs (p_hash st) (p_sd st) Jc g ND Hn Hg HT HM) as (J' & C1 & C2 & C3 & C4 & C5 & C6 & C7).
    cbv zeta in C1, C2, C5, C6, C7.
    set (st1 := combine_subtrees t (rid g) st).
    assert (Est1 : p_sd st1 = combine_loop t (rid g) (p_hash st) (hes_at (rid g) (hes (p_sd st))) [] (p_sd st)) by reflexivity.
    assert (Eh1 : p_hash st1 = p_hash st) by reflexivity. assert (En1 : p_next st1 = p_next st) by reflexivity.
    destruct (IH st1 (upd_J Jc (rid g) J')) as (Jc' & I1 & I2 & I3 & I4 & I5 & I6 & I7 & I8 & I9).
    + intros x Hx. apply Hincl. right. exact Hx.
    + exact NDg'.
    + rewrite Est1. exact C1.
    + rewrite Est1, Eh1. exact C2.
    + exists Jc'. unfold combine_pass in *. cbn [map fold_left]. fold st1. rewrite Eh1 in I2.
      split; [exact I1|]. split; [exact I2|]. split.
      { intros g' [E|Hg']; [subst g'|apply I3; exact Hg']. unfold Kept. rewrite (I4 g Hg Hng). exact C3. }
      split.
      { intros g' Hg' Hnot. rewrite I4; [|exact Hg'|intros Hin; apply Hnot; right; exact Hin].
        unfold upd_J. destruct (Nat.eqb (rid g') (rid g)) eqn:E; auto. apply Nat.eqb_eq in E. exfalso. apply Hnot. left. auto. }
      split; [rewrite I5; exact Eh1|]. split; [rewrite I6; exact En1|]. split.
      { intros h Hh. destruct (I7 h Hh) as [h1 [H1 E1]]. rewrite Est1 in H1.
        destruct (combine_loop_ids _ _ _ _ _ _ _ H1) as [h0 [H0 E0]]. exists h0. split; auto. congruence. }
      split; [intros v Hv; rewrite I8, Est1 by exact Hv; apply C5; exact Hv|].
      eapply peq_trans; [exact I9|]. rewrite Est1. exact C7.
Qed.

Definition ChildOK (s : list he) (tb : list (oid * list nat)) (Jc : rtree -> tlist) (g : rtree) : Prop :=
  BaseBelow s (Jc g) g /\ NoDup (map fst (Jc g)) /\ Kept Jc g /\
  (forall tx jf, is_subtree tx g -> In jf (Jc g) -> hash_of tb (fst jf, rid tx) = down (snd jf) tx).

Lemma cut_children : forall t p hp cs, NoDup (ids t) -> node_at t false p hp cs ->
  forall gs st st' Jc, incl gs cs -> NoDup (map rid gs) ->
    cut_pass t (map rid gs) (Some st) = Some st' ->
    Typed t (hes (p_sd st)) -> IdsBelow (p_next st) (hes (p_sd st)) -> TbBelow (p_next st) (p_hash st) ->
    CutPar (hes (p_sd st)) p hp cs Jc gs ->
    (forall g, In g gs -> ChildOK (hes (p_sd st)) (p_hash st) Jc g) ->
    Typed t (hes (p_sd st')) /\ IdsBelow (p_next st') (hes (p_sd st')) /\ TbBelow (p_next st') (p_hash st') /\
    (forall g, In g gs -> Mid t (hes (p_sd st')) (p_hash st') (rid g) true (rchildren g) (fun _ => Jc g)) /\
    (forall v, v <> p -> ~ In v (map rid gs) -> hes_at v (hes (p_sd st')) = hes_at v (hes (p_sd st))) /\
    (forall k, fst k < p_next st -> hash_of (p_hash st') k = hash_of (p_hash st) k) /\
    p_next st <= p_next st' /\
    peq (sd_denote t (p_sd st')) (sd_denote t (p_sd st)).
Proof.
  intros t p hp cs ND Hn.
  assert (NDp : NoDup (ids (RNode p cs))) by (eapply is_subtree_wf; [eapply node_at_subtree; eauto | exact ND]).
  induction gs as [|g gs IH]; intros st st' Jc Hincl NDg Hcut HT HI HTB HCP HCh.
  - unfold cut_pass in Hcut. cbn [map fold_left] in Hcut. inversion Hcut; subst st'.
    split; [exact HT|]. split; [exact HI|]. split; [exact HTB|]. split; [intros g []|]. split; [auto|]. split; [auto|].
    split; [lia | apply peq_refl].
  - cbn [map] in NDg. inversion NDg as [|? ? Hng NDg']; subst.
    assert (Hg : In g cs) by (apply Hincl; left; reflexivity).
    unfold cut_pass in Hcut. cbn [map fold_left] in Hcut. fold (cut_pass t (map rid gs) (cut_step t (rid g) st)) in Hcut.
    destruct (cut_step t (rid g) st) as [st1|] eqn:S1; [|rewrite cut_pass_none in Hcut; discriminate].
    destruct g as [c ccs]. cbn [rid] in *.
    destruct (HCh (RNode c ccs) (or_introl eq_refl)) as (B1 & B2 & B3 & B4).
    destruct (cut_effect t p hp cs c ccs st st1 Jc (RNode c ccs :: gs) ND Hn Hg (or_introl eq_refl) S1 B1 B2 B3 B4 HCP HT HI HTB)
      as (E1 & E2 & E3 & E4 & E5 & E6 & E7 & E8 & E9).
    assert (Hother : forall g', In g' gs -> rid g' <> c /\ In g' cs /\ forall x, In x (ids g') -> x <> p /\ x <> c).
    { intros g' Hg'. assert (Hg'c : In g' cs) by (apply Hincl; right; exact Hg').
      assert (Hr : rid g' <> c) by (intros E; apply Hng; rewrite <- E; apply in_map; exact Hg').
      split; [exact Hr|]. split; [exact Hg'c|]. intros x Hx. split.
      - intros E. subst x. eapply wf_root_notin_child; eauto.
      - intros E. subst x. apply Hr. assert (g' = RNode c ccs); [|subst g'; reflexivity].
        eapply (wf_children_eq p cs g' (RNode c ccs) c); eauto. left. reflexivity. }
    destruct (IH st1 st' Jc) as (I1 & I2 & I3 & I4 & I5 & I6 & I7 & I8); auto.
    + intros x Hx. apply Hincl. right. exact Hx.
    + apply E8. intros g' Hg'. split; [right; exact Hg' | destruct (Hother g' Hg') as [Hr _]; exact Hr].
    + intros g' Hg'. destruct (HCh g' (or_intror Hg')) as (C1 & C2 & C3 & C4). destruct (Hother g' Hg') as (Hr & Hgc & Hx).
      split; [|split; [exact C2|split; [exact C3|]]].
      * apply (BaseBelow_ext (hes (p_sd st))); auto. intros x Hxin. destruct (Hx x Hxin). apply E2; auto.
      * intros tx jf Htx Hjf. rewrite E3; [apply C4; auto|]. apply (HI _ (base_in _ _ _ _ _ C1 Htx Hjf)).
    + split; [exact I1|]. split; [exact I2|]. split; [exact I3|]. split.
      { intros g' [E|Hg']; [subst g'|apply I4; exact Hg']. cbn [rid rchildren].
        apply (Mid_stable t (hes (p_sd st1)) (hes (p_sd st')) (p_hash st1) (p_hash st') (p_next st1)); auto.
        intros v Hv. apply I5.
        - intros E. subst v. eapply (wf_root_notin_child p cs (RNode c ccs)); eauto.
        - intros Hin. apply in_map_iff in Hin. destruct Hin as [g' [Er Hg']]. destruct (Hother g' Hg') as (Hr & Hgc & _).
          apply Hr. assert (g' = RNode c ccs); [|subst g'; reflexivity].
          eapply (wf_children_eq p cs g' (RNode c ccs) v); eauto. rewrite <- Er. apply rid_in_ids. }
      split.
      { intros v Hvp Hv. rewrite I5; [apply E2; auto|exact Hvp|]; intros Hin; apply Hv; [left; symmetry; exact Hin | right; exact Hin]. }
      split; [intros k Hk; rewrite I6 by lia; apply E3; exact Hk|]. split; [lia|].
      eapply peq_trans; [exact I8|]. eapply cut_step_sound; eauto.
Qed.

Lemma node_at_child : forall t h0 p hp cs g, node_at t h0 p hp cs -> In g cs -> node_at t h0 (rid g) true (rchildren g).
Proof.
  intros t h0 p hp cs g Hn Hg. induction Hn as [v cs0 hp0|v cs' hp0 k p hp cs Hk Hn IH].
  - eapply na_child; [exact Hg|]. destruct g as [gv gcs]. apply na_here.
  - eapply na_child; [exact Hk|]. apply IH. exact Hg.
Qed.

Lemma combine_pass_app : forall t l1 l2 st, combine_pass t (l1 ++ l2) st = combine_pass t l2 (combine_pass t l1 st).
Proof. intros. unfold combine_pass. apply fold_left_app. Qed.
Lemma cut_pass_app : forall t l1 l2 st, cut_pass t (l1 ++ l2) st = cut_pass t l2 (cut_pass t l1 st).
Proof. intros. unfold cut_pass. apply fold_left_app. Qed.

Definition GI (t : rtree) (st : pst) : Prop :=
  Typed t (hes (p_sd st)) /\ IdsBelow (p_next st) (hes (p_sd st)) /\ TbBelow (p_next st) (p_hash st).
(* every node of the list is a frontier node; `kept` = its children have been combined *)
Definition FI (t : rtree) (kept : bool) (P : list rtree) (st : pst) : Prop :=
  forall tp, In tp P -> exists hp Jc, node_at t false (rid tp) hp (rchildren tp) /\
    Mid t (hes (p_sd st)) (p_hash st) (rid tp) hp (rchildren tp) Jc /\
    (kept = true -> forall g, In g (rchildren tp) -> Kept Jc g).

Lemma disjoint_cons : forall (tp : rtree) P v, NoDup (flat_map ids (tp :: P)) -> In v (ids tp) -> ~ In v (flat_map ids P).
Proof. intros tp P v ND Hv Hin. cbn [flat_map] in ND. apply NoDup_app_inv in ND. destruct ND as [_ [_ H]]. apply (H v Hv Hin). Qed.
Lemma disjoint_cons' : forall (tp : rtree) P tp' v, NoDup (flat_map ids (tp :: P)) -> In tp' P -> In v (ids tp') -> ~ In v (ids tp).
Proof. intros tp P tp' v ND Hp Hv Hin. apply (disjoint_cons tp P v ND Hin). apply in_flat_map. exists tp'. auto. Qed.

Lemma combine_level : forall t, NoDup (ids t) -> forall P st, NoDup (flat_map ids P) -> (forall tp, In tp P -> is_subtree tp t) ->
  Typed t (hes (p_sd st)) -> FI t false P st ->
  Typed t (hes (p_sd (combine_pass t (map rid (flat_map rchildren P)) st))) /\
  FI t true P (combine_pass t (map rid (flat_map rchildren P)) st) /\
  p_hash (combine_pass t (map rid (flat_map rchildren P)) st) = p_hash st /\
  p_next (combine_pass t (map rid (flat_map rchildren P)) st) = p_next st /\
  (forall h, In h (hes (p_sd (combine_pass t (map rid (flat_map rchildren P)) st))) -> exists h0, In h0 (hes (p_sd st)) /\ hid h = hid h0) /\
  (forall v, ~ In v (flat_map ids P) -> hes_at v (hes (p_sd (combine_pass t (map rid (flat_map rchildren P)) st))) = hes_at v (hes (p_sd st))) /\
  peq (sd_denote t (p_sd (combine_pass t (map rid (flat_map rchildren P)) st))) (sd_denote t (p_sd st)).
Proof.
  intros t ND. induction P as [|tp P IH]; intros st NDP Hsub HT HF.
  - unfold combine_pass. cbn [flat_map map fold_left]. split; [exact HT|]. split; [intros tp []|].
    split; [reflexivity|]. split; [reflexivity|]. split; [eauto|]. split; [auto | apply peq_refl].
  - cbn [flat_map]. rewrite map_app, combine_pass_app.
    destruct (HF tp (or_introl eq_refl)) as (hp & Jc & Hn & HM & _). destruct tp as [p cs]. cbn [rid rchildren] in *.
    assert (NDp : NoDup (ids (RNode p cs))) by (eapply is_subtree_wf; [apply Hsub; left; reflexivity | exact ND]).
    destruct (combine_children t p hp cs ND Hn cs st Jc (incl_refl _) (children_rid_nodup p cs NDp) HT HM)
      as (Jc' & C1 & C2 & C3 & C4 & C5 & C6 & C7 & C8 & C9).
    set (st1 := combine_pass t (map rid cs) st) in *.
    assert (NDP' : NoDup (flat_map ids P)) by (cbn [flat_map] in NDP; apply NoDup_app_inv in NDP; tauto).
    destruct (IH st1 NDP') as (I1 & I2 & I3 & I4 & I5 & I6 & I7); auto.
    + intros tp' Hp'. apply Hsub. right. exact Hp'.
    + intros tp' Hp'. destruct (HF tp' (or_intror Hp')) as (hp' & Jc2 & Hn' & HM' & _). exists hp', Jc2.
      split; [exact Hn'|]. split; [|discriminate]. rewrite C5.
      apply (Mid_frame t (hes (p_sd st))); auto. intros v Hv. apply C8.
      destruct tp' as [p' cs']. cbn [rid rchildren] in *. eapply (disjoint_cons' (RNode p cs) P (RNode p' cs')); eauto.
    + split; [exact I1|]. split.
      { intros tp' [E|Hp']; [subst tp'|apply I2; exact Hp']. cbn [rid rchildren]. exists hp, Jc'.
        split; [exact Hn|]. split; [|intros _; exact C3]. rewrite I3, C5.
        apply (Mid_frame t (hes (p_sd st1))); auto. intros v Hv. apply I6. eapply disjoint_cons; eauto. }
      split; [rewrite I3; exact C5|]. split; [rewrite I4; exact C6|]. split.
      { intros h Hh. destruct (I5 h Hh) as [h1 [H1 E1]]. destruct (C7 h1 H1) as [h0 [H0 E0]]. exists h0. split; auto. congruence. }
      split.
      { intros v Hv. rewrite I6, C8; auto; intros Hin; apply Hv; cbn [flat_map]; apply in_or_app; [left|right]; exact Hin. }
      eapply peq_trans; [exact I7 | exact C9].
Qed.

Lemma cut_level : forall t, NoDup (ids t) -> forall P st st', NoDup (flat_map ids P) -> (forall tp, In tp P -> is_subtree tp t) ->
  cut_pass t (map rid (flat_map rchildren P)) (Some st) = Some st' ->
  GI t st -> FI t true P st ->
  GI t st' /\ FI t false (flat_map rchildren P) st' /\
  (forall v, ~ In v (flat_map ids P) -> hes_at v (hes (p_sd st')) = hes_at v (hes (p_sd st))) /\
  (forall k, fst k < p_next st -> hash_of (p_hash st') k = hash_of (p_hash st) k) /\
  p_next st <= p_next st' /\
  peq (sd_denote t (p_sd st')) (sd_denote t (p_sd st)).
Proof.
  intros t ND. induction P as [|tp P IH]; intros st st' NDP Hsub Hcut HG HF.
  - unfold cut_pass in Hcut. cbn [flat_map map fold_left] in Hcut. inversion Hcut; subst st'.
    split; [exact HG|]. split; [intros tp []|]. split; [auto|]. split; [auto|]. split; [lia | apply peq_refl].
  - cbn [flat_map] in Hcut. rewrite map_app, cut_pass_app in Hcut.
    destruct (HF tp (or_introl eq_refl)) as (hp & Jc & Hn & HM & HK). specialize (HK eq_refl).
    destruct tp as [p cs]. cbn [rid rchildren] in *.
    assert (NDp : NoDup (ids (RNode p cs))) by (eapply is_subtree_wf; [apply Hsub; left; reflexivity | exact ND]).
    destruct (cut_pass t (map rid cs) (Some st)) as [st1|] eqn:C1; [|rewrite cut_pass_none in Hcut; discriminate].
    destruct HG as (G1 & G2 & G3).
    pose proof (children_rid_nodup p cs NDp) as NDr.
    destruct (cut_children t p hp cs ND Hn cs st st1 Jc (incl_refl _) NDr C1 G1 G2 G3 (mid_cutpar t _ _ p hp cs Jc NDr HM))
      as (D1 & D2 & D3 & D4 & D5 & D6 & D7 & D8).
    { intros g Hg. destruct (mid_base _ _ _ _ _ _ _ HM g Hg) as (M1 & M2 & M3). split; [exact M1|]. split; [exact M2|]. split; [apply HK; exact Hg | exact M3]. }
    assert (NDP' : NoDup (flat_map ids P)) by (cbn [flat_map] in NDP; apply NoDup_app_inv in NDP; tauto).
    assert (Hdis : forall tp' v, In tp' P -> In v (ids tp') -> v <> p /\ ~ In v (map rid cs)).
    { intros tp' v Hp' Hv. pose proof (disjoint_cons' (RNode p cs) P tp' v NDP Hp' Hv) as Hn'. split.
      - intros E. subst v. apply Hn'. left. reflexivity.
      - intros Hin. apply Hn'. apply in_map_iff in Hin. destruct Hin as [g [E Hg]]. subst v. eapply in_child_ids; eauto. apply rid_in_ids. }
    destruct (IH st1 st' NDP') as (I1 & I2 & I3 & I4 & I5 & I6); auto.
    + intros tp' Hp'. apply Hsub. right. exact Hp'.
    + split; [exact D1|]. split; [exact D2 | exact D3].
    + intros tp' Hp'. destruct (HF tp' (or_intror Hp')) as (hp' & Jc2 & Hn' & HM' & HK'). exists hp', Jc2.
      split; [exact Hn'|]. split; [|exact HK'].
      apply (Mid_stable t (hes (p_sd st)) (hes (p_sd st1)) (p_hash st) (p_hash st1) (p_next st)); auto.
      intros v Hv. destruct tp' as [p' cs']. cbn [rid rchildren] in *. destruct (Hdis (RNode p' cs') v Hp' Hv). apply D5; auto.
    + split; [exact I1|]. split.
      { intros g Hg. apply in_app_or in Hg. destruct Hg as [Hg|Hg]; [|apply I2; exact Hg].
        exists true, (fun _ => Jc g). split; [eapply node_at_child; eauto|]. split; [|discriminate].
        apply (Mid_stable t (hes (p_sd st1)) (hes (p_sd st')) (p_hash st1) (p_hash st') (p_next st1));
          [apply D4; exact Hg | exact D2 | | exact I4].
        intros v Hv. apply I3. intros Hin. apply in_flat_map in Hin. destruct Hin as [tp' [Hp' Hv']].
        apply (disjoint_cons' (RNode p cs) P tp' v NDP Hp' Hv'). destruct g as [gv gcs]. cbn [rid rchildren] in Hv. eapply in_child_ids; eauto. }
      split.
      { intros v Hv. rewrite I3, D5; auto.
        - intros E. subst v. apply Hv. cbn [flat_map ids]. left. reflexivity.
        - intros Hin. apply Hv. cbn [flat_map ids]. right. apply in_or_app. left. apply in_map_iff in Hin. destruct Hin as [g [E Hg]].
          apply in_flat_map. exists g. split; auto. rewrite <- E. apply rid_in_ids.
        - intros Hin. apply Hv. cbn [flat_map]. apply in_or_app. right. exact Hin. }
      split; [intros k Hk; rewrite I4 by lia; apply D6; exact Hk|]. split; [lia|].
      eapply peq_trans; [exact I6 | exact D8].
Qed.

Lemma children_ids_incl : forall P x, In x (flat_map ids (flat_map rchildren P)) -> In x (flat_map ids P).
Proof.
  intros P x H. apply in_flat_map in H. destruct H as [g [Hg Hx]]. apply in_flat_map in Hg. destruct Hg as [tp [Hp Hg]].
  apply in_flat_map. exists tp. split; auto. destruct tp as [p cs]. cbn [rchildren] in Hg. eapply in_child_ids; eauto.
Qed.
Lemma children_disjoint : forall P, NoDup (flat_map ids P) -> NoDup (flat_map ids (flat_map rchildren P)).
Proof.
  induction P as [|tp P IH]; intros ND; [constructor|]. cbn [flat_map] in *. rewrite flat_map_app.
  apply NoDup_app_inv in ND. destruct ND as [N1 [N2 N3]]. destruct tp as [p cs]. cbn [rchildren ids] in *.
  inversion N1 as [|? ? _ N1']; subst. apply NoDup_app_intro; auto.
  intros x Hx Hy. apply (N3 x); [right; exact Hx | apply children_ids_incl; exact Hy].
Qed.

Lemma run_inv : forall t, NoDup (ids t) -> forall fuel P st st',
  NoDup (flat_map ids P) -> (forall tp, In tp P -> is_subtree tp t) -> GI t st -> FI t false P st ->
  run_levels t (bfs_levels fuel (flat_map rchildren P)) st = Some st' ->
  peq (sd_denote t (p_sd st')) (sd_denote t (p_sd st)).
Proof.
  intros t ND. induction fuel as [|f IH]; intros P st st' NDP Hsub HG HF Hrun.
  - cbn [bfs_levels] in Hrun. inversion Hrun. apply peq_refl.
  - cbn [bfs_levels] in Hrun. destruct (flat_map rchildren P) as [|g0 lv0] eqn:El; [inversion Hrun; apply peq_refl|].
    rewrite <- El in *. clear El g0 lv0.
    unfold run_levels in Hrun. cbn [fold_left run_level] in Hrun.
    set (lv := map rid (flat_map rchildren P)) in *.
    destruct (cut_pass t lv (Some (combine_pass t lv st))) as [st2|] eqn:C; [|rewrite run_levels_none in Hrun; discriminate].
    destruct HG as (G1 & G2 & G3).
    destruct (combine_level t ND P st NDP Hsub G1 HF) as (A1 & A2 & A3 & A4 & A5 & A6 & A7). fold lv in A1, A2, A3, A4, A5, A6, A7.
    assert (HG1 : GI t (combine_pass t lv st)).
    { split; [exact A1|]. split.
      - intros h Hh. destruct (A5 h Hh) as [h0 [H0 E0]]. rewrite E0, A4. apply G2. exact H0.
      - rewrite A3, A4. exact G3. }
    destruct (cut_level t ND P _ st2 NDP Hsub C HG1 A2) as (B1 & B2 & _ & _ & _ & B6).
    eapply peq_trans; [|eapply peq_trans; [exact B6 | exact A7]].
    apply (IH (flat_map rchildren P) st2 st'); auto.
    + apply children_disjoint. exact NDP.
    + intros g Hg. apply in_flat_map in Hg. destruct Hg as [tp [Hp Hg]].
      eapply is_subtree_trans; [apply is_subtree_child; exact Hg | apply Hsub; exact Hp].
Qed.

(* ====================================================================================== *)
(* 5. the compound diagram satisfies the invariant                                         *)
(* ====================================================================================== *)
Lemma hes_at_flat_map : forall {A} (F : A -> list he) v l, hes_at v (flat_map F l) = flat_map (fun a => hes_at v (F a)) l.
Proof. intros A F v l. induction l as [|a l IH]; [reflexivity|]. cbn [flat_map]. rewrite hes_at_app, IH. reflexivity. Qed.

Lemma st_hes_at_out : forall j f t lam gam pv v, ~ In v (ids t) -> hes_at v (st_hes j f lam gam pv t) = [].
Proof.
  intros. unfold hes_at. apply filter_none. intros h Hh. apply Nat.eqb_neq. intros E. apply H. rewrite <- E.
  eapply st_hes_hnode; eauto.
Qed.

Definition the_he (j : nat) (f : nat -> nat) (lam : Q) (gam : nat) (pv : option oid) (troot : nat) (tx : rtree) : he :=
  mkHe (j, rid tx) (rid tx) (f (rid tx)) (if Nat.eqb (rid tx) troot then lam else 1%Q) (if Nat.eqb (rid tx) troot then gam else 0)
       ((if Nat.eqb (rid tx) troot then opt_list pv else [(j, rid tx)]) ++ map (fun c => (j, rid c)) (rchildren tx)).

Lemma st_hes_at : forall j f t, NoDup (ids t) -> forall lam gam pv tx, is_subtree tx t ->
  hes_at (rid tx) (st_hes j f lam gam pv t) = [the_he j f lam gam pv (rid t) tx].
Proof.
  intros j f. induction t as [v cs IH] using rtree_ind2. intros ND lam gam pv tx Hs. rewrite Forall_forall in IH.
  cbn [st_hes]. destruct (proper_subtree_root tx (RNode v cs) ND Hs) as [E|Hnr].
  - subst tx. cbn [rid]. unfold hes_at at 1. cbn [filter hnode]. rewrite Nat.eqb_refl. f_equal.
    + unfold the_he. cbn [rid rchildren]. rewrite Nat.eqb_refl. reflexivity.
    + fold (hes_at v (flat_map (fun c => st_hes j f 1%Q 0 (Some (j, rid c)) c) cs)). rewrite hes_at_flat_map.
      apply flat_map_nil_all. intros c Hc. apply st_hes_at_out. eapply wf_root_notin_child; eauto.
  - cbn [rid] in Hnr. inversion Hs as [|i cs0 k Hk Hsk]; subst; [exfalso; apply Hnr; left; reflexivity|].
    assert (Hne : rid tx <> v) by (intros E; apply Hnr; rewrite <- E; apply rid_in_ids).
    unfold hes_at at 1. cbn [filter hnode]. replace (Nat.eqb v (rid tx)) with false by (symmetry; apply Nat.eqb_neq; auto).
    fold (hes_at (rid tx) (flat_map (fun c => st_hes j f 1%Q 0 (Some (j, rid c)) c) cs)). rewrite hes_at_flat_map.
    destruct (in_split _ _ Hk) as [l1 [l2 El]]. rewrite El, flat_map_app. cbn [flat_map].
    assert (Hin : In (rid tx) (ids k)) by (eapply is_subtree_ids; eauto; apply rid_in_ids).
    rewrite (flat_map_nil_all _ l1), (flat_map_nil_all _ l2).
    + cbn [app]. rewrite app_nil_r, (IH k Hk (wf_child _ _ _ ND Hk) 1%Q 0 (Some (j, rid k)) tx Hsk).
      unfold the_he. cbn [rid]. replace (Nat.eqb (rid tx) v) with false by (symmetry; apply Nat.eqb_neq; auto).
      destruct (Nat.eqb (rid tx) (rid k)) eqn:E; [|reflexivity]. apply Nat.eqb_eq in E. rewrite E. reflexivity.
    + intros c Hc. apply st_hes_at_out. intros Hx. assert (c = k).
      { eapply (wf_children_eq v cs c k (rid tx)); eauto. rewrite El. apply in_or_app. right. right. exact Hc. }
      subst c. rewrite El in ND. cbn [ids] in ND. inversion ND as [|? ? _ ND']; subst. rewrite flat_map_app in ND'. cbn [flat_map] in ND'.
      apply NoDup_app_inv in ND'. destruct ND' as [_ [ND2 _]]. apply NoDup_app_inv in ND2. destruct ND2 as [_ [_ Hd]].
      apply (Hd (rid k)); [apply rid_in_ids | apply in_flat_map; exists k; split; auto; apply rid_in_ids].
    + intros c Hc. apply st_hes_at_out. intros Hx. assert (c = k).
      { eapply (wf_children_eq v cs c k (rid tx)); eauto. rewrite El. apply in_or_app. left. exact Hc. }
      subst c. rewrite El in ND. cbn [ids] in ND. inversion ND as [|? ? _ ND']; subst. rewrite flat_map_app in ND'. cbn [flat_map] in ND'.
      apply NoDup_app_inv in ND'. destruct ND' as [_ [_ Hd]].
      apply (Hd (rid k)); [apply in_flat_map; exists k; split; auto; apply rid_in_ids | apply in_or_app; left; apply rid_in_ids].
Qed.

(* terms with their index *)
Fixpoint indexed {A} (j : nat) (l : list A) : list (nat * A) :=
  match l with [] => [] | a :: r => (j, a) :: indexed (S j) r end.

Lemma hes_base_from : forall t H j acc,
  hes (sd_base_from j t H acc) = hes acc ++ flat_map (fun jt => hes (single_term (fst jt) t (snd jt))) (indexed j H).
Proof.
  intros t. induction H as [|tm H IH]; intros j acc; cbn [sd_base_from indexed flat_map]; [rewrite app_nil_r; reflexivity|].
  rewrite IH. cbn [sd_sum hes fst snd]. rewrite <- app_assoc. reflexivity.
Qed.
Lemma base_hashes_indexed : forall t H j,
  base_hashes j t H = flat_map (fun jt => st_hashes (fst jt) (snd (snd jt)) t) (indexed j H).
Proof.
  intros t. induction H as [|[[lam gam] f] H IH]; intros j; cbn [base_hashes indexed flat_map]; [reflexivity|].
  rewrite IH. reflexivity.
Qed.

Definition lab_of (jt : nat * pterm) : nat * (nat -> nat) := (fst jt, snd (snd jt)).

Lemma base_hes_at_proper : forall t H tx, NoDup (ids t) -> is_subtree tx t -> rid tx <> rid t ->
  hes_at (rid tx) (hes (sd_base t H)) = map (fun jf => bhe jf (rid tx) (rchildren tx)) (map lab_of (indexed 0 H)).
Proof.
  intros t H tx ND Hs Hne. unfold sd_base. rewrite hes_base_from. cbn [sd_empty hes app]. rewrite hes_at_flat_map.
  rewrite map_map. generalize (indexed 0 H). intros l. induction l as [|[j [[lam gam] f]] l IH]; [reflexivity|].
  cbn [flat_map map]. rewrite IH. cbn [single_term hes fst snd]. rewrite (st_hes_at j f t ND lam gam None tx Hs).
  cbn [app]. f_equal. unfold the_he, bhe, lab_of. cbn [fst snd].
  replace (Nat.eqb (rid tx) (rid t)) with false by (symmetry; apply Nat.eqb_neq; auto). reflexivity.
Qed.
Lemma base_hes_at_root : forall t H, NoDup (ids t) ->
  hes_at (rid t) (hes (sd_base t H))
  = map (fun jt : nat * pterm => mkHe (fst jt, rid t) (rid t) (snd (snd jt) (rid t)) (fst (fst (snd jt))) (snd (fst (snd jt)))
                                      (map (fun c => (fst jt, rid c)) (rchildren t))) (indexed 0 H).
Proof.
  intros t H ND. unfold sd_base. rewrite hes_base_from. cbn [sd_empty hes app]. rewrite hes_at_flat_map.
  generalize (indexed 0 H). intros l. induction l as [|[j [[lam gam] f]] l IH]; [reflexivity|].
  cbn [flat_map map]. rewrite IH. cbn [single_term hes fst snd]. rewrite (st_hes_at j f t ND lam gam None t (sub_here _)).
  cbn [app]. f_equal. unfold the_he. rewrite Nat.eqb_refl. reflexivity.
Qed.

(* the hash table of the compound diagram *)
Lemma st_hashes_keys : forall j f t e, In e (st_hashes j f t) -> fst (fst e) = j /\ In (snd (fst e)) (ids t).
Proof.
  intros j f. induction t as [v cs IH] using rtree_ind2. intros e He. rewrite Forall_forall in IH. cbn [st_hashes] in He.
  destruct He as [E|He]; [subst e; split; [reflexivity | left; reflexivity]|].
  apply in_flat_map in He. destruct He as [c [Hc He]]. destruct (IH c Hc e He) as [A B]. split; auto.
  right. apply in_flat_map. exists c. auto.
Qed.
Lemma hash_of_cons : forall k v tb x, hash_of ((k, v) :: tb) x = if oid_eqb k x then v else hash_of tb x.
Proof. intros. unfold hash_of. cbn [find fst snd]. destruct (oid_eqb k x); reflexivity. Qed.
Lemma hash_of_app_notin : forall tb1 tb2 x, (forall e, In e tb1 -> fst e <> x) -> hash_of (tb1 ++ tb2) x = hash_of tb2 x.
Proof.
  induction tb1 as [|[k v] tb1 IH]; intros tb2 x H; [reflexivity|]. cbn [app]. rewrite hash_of_cons.
  rewrite oid_eqb_false; [apply IH; intros; apply H; right; assumption|]. apply (H (k, v)). left. reflexivity.
Qed.
Lemma st_hashes_find : forall j f t, NoDup (ids t) -> forall tx rest, is_subtree tx t ->
  hash_of (st_hashes j f t ++ rest) (j, rid tx) = down f tx.
Proof.
  intros j f. induction t as [v cs IH] using rtree_ind2. intros ND tx rest Hs. rewrite Forall_forall in IH.
  cbn [st_hashes app]. rewrite hash_of_cons. destruct (proper_subtree_root tx (RNode v cs) ND Hs) as [E|Hnr].
  - subst tx. cbn [rid]. rewrite oid_eqb_refl. reflexivity.
  - cbn [rid] in Hnr. inversion Hs as [|i cs0 k Hk Hsk]; subst; [exfalso; apply Hnr; left; reflexivity|].
    assert (Hne : rid tx <> v) by (intros E; apply Hnr; rewrite <- E; apply rid_in_ids).
    rewrite oid_eqb_false by (intros E; inversion E; congruence).
    destruct (in_split _ _ Hk) as [l1 [l2 El]]. rewrite El, flat_map_app. cbn [flat_map]. rewrite <- !app_assoc.
    rewrite hash_of_app_notin.
    + apply IH; auto. eapply wf_child; eauto.
    + intros e He E. apply in_flat_map in He. destruct He as [c [Hc He]]. destruct (st_hashes_keys _ _ _ _ He) as [_ B].
      rewrite E in B. cbn [snd] in B.
      assert (c = k).
      { eapply (wf_children_eq v cs c k (rid tx)); eauto; [rewrite El; apply in_or_app; left; exact Hc|].
        eapply is_subtree_ids; eauto. apply rid_in_ids. }
      subst c. rewrite El in ND. cbn [ids] in ND. inversion ND as [|? ? _ ND']; subst. rewrite flat_map_app in ND'. cbn [flat_map] in ND'.
      apply NoDup_app_inv in ND'. destruct ND' as [_ [_ Hd]].
      apply (Hd (rid k)); [apply in_flat_map; exists k; split; auto; apply rid_in_ids | apply in_or_app; left; apply rid_in_ids].
Qed.

Lemma indexed_fst : forall {A} (l : list A) j, map fst (indexed j l) = seq j (length l).
Proof. intros A. induction l as [|a l IH]; intros j; [reflexivity|]. cbn [indexed map length seq fst]. rewrite IH. reflexivity. Qed.

Lemma base_hash_lookup : forall t H jt tx, NoDup (ids t) -> In jt (indexed 0 H) -> is_subtree tx t ->
  hash_of (base_hashes 0 t H) (fst jt, rid tx) = down (snd (snd jt)) tx.
Proof.
  intros t H jt tx ND Hin Hs. rewrite base_hashes_indexed.
  assert (NDi : NoDup (map fst (indexed 0 H))) by (rewrite indexed_fst; apply seq_NoDup).
  revert NDi Hin. generalize (indexed 0 H). intros l. induction l as [|a l IH]; intros NDi Hin; [destruct Hin|].
  cbn [map] in NDi. inversion NDi as [|? ? Hn NDi']; subst. cbn [flat_map]. destruct Hin as [E|Hin].
  - subst a. apply st_hashes_find; auto.
  - rewrite hash_of_app_notin; [apply IH; auto|]. intros e He E. destruct (st_hashes_keys _ _ _ _ He) as [A _].
    rewrite E in A. cbn [fst] in A. apply Hn. replace (fst a) with (fst jt) by congruence. apply in_map. exact Hin.
Qed.

Lemma indexed_snd : forall {A} (l : list A) j, map snd (indexed j l) = l.
Proof. intros A. induction l as [|a l IH]; intros j; [reflexivity|]. cbn [indexed map snd]. rewrite IH. reflexivity. Qed.
Lemma indexed_lt : forall {A} (l : list A) jt, In jt (indexed 0 l) -> fst jt < length l.
Proof.
  intros A l jt H. assert (Hin : In (fst jt) (map fst (indexed 0 l))) by (apply in_map; exact H).
  rewrite indexed_fst in Hin. apply in_seq in Hin. lia.
Qed.

Lemma base_hnode : forall t H h, In h (hes (sd_base t H)) -> In (hnode h) (ids t).
Proof.
  intros t H h Hh. unfold sd_base in Hh. rewrite hes_base_from in Hh. cbn [sd_empty hes app] in Hh.
  apply in_flat_map in Hh. destruct Hh as [[j [[lam gam] f]] [_ Hh]]. cbn [single_term hes fst snd] in Hh.
  eapply st_hes_hnode; eauto.
Qed.

(* what the hyperedges of the compound diagram look like *)
Lemma base_he_cases : forall t H h, NoDup (ids t) -> In h (hes (sd_base t H)) ->
  (exists jt, In jt (indexed 0 H) /\
     h = mkHe (fst jt, rid t) (rid t) (snd (snd jt) (rid t)) (fst (fst (snd jt))) (snd (fst (snd jt))) (map (fun c => (fst jt, rid c)) (rchildren t)))
  \/ (exists tx jt, is_subtree tx t /\ rid tx <> rid t /\ In jt (indexed 0 H) /\ h = bhe (lab_of jt) (rid tx) (rchildren tx)).
Proof.
  intros t H h ND Hh. pose proof (base_hnode t H h Hh) as Hn.
  destruct (proj1 (subtree_Some_iff (hnode h) t) Hn) as [tx Htx]. destruct (subtree_sound _ _ _ Htx) as [Er Hs].
  assert (Hat : In h (hes_at (rid tx) (hes (sd_base t H)))) by (apply hes_at_in; split; auto).
  destruct (Nat.eq_dec (rid tx) (rid t)) as [E|Hne].
  - left. rewrite E, base_hes_at_root in Hat by exact ND. apply in_map_iff in Hat. destruct Hat as [jt [Eh Hjt]]. eauto.
  - right. rewrite (base_hes_at_proper t H tx ND Hs Hne), map_map in Hat. apply in_map_iff in Hat. destruct Hat as [jt [Eh Hjt]].
    exists tx, jt. auto.
Qed.

Lemma init_GI : forall t H, NoDup (ids t) -> GI t (pipe_init t H).
Proof.
  intros t H ND. unfold GI, pipe_init. cbn [p_sd p_hash p_next]. split; [|split].
  - intros h y Hh Hy. destruct (base_he_cases t H h ND Hh) as [(jt & Hjt & E)|(tx & jt & Hs & Hne & Hjt & E)]; subst h; cbn [hverts hnode bhe] in *.
    + apply in_map_iff in Hy. destruct Hy as [c [E Hc]]. subst y. right. cbn [snd]. apply parent_of_complete; auto.
      destruct t as [r cs]. cbn [rid rchildren] in *. apply edges_root. exact Hc.
    + destruct Hy as [E|Hy]; [subst y; left; reflexivity|]. apply in_map_iff in Hy. destruct Hy as [c [E Hc]]. subst y. right. cbn [snd].
      apply parent_of_complete; auto. eapply edges_subtree; [exact Hs|]. destruct tx as [v vcs]. cbn [rid rchildren] in *. apply edges_root. exact Hc.
  - intros h Hh. destruct (base_he_cases t H h ND Hh) as [(jt & Hjt & E)|(tx & jt & Hs & Hne & Hjt & E)]; subst h; cbn [hid fst bhe lab_of];
      apply indexed_lt; exact Hjt.
  - intros e He. rewrite base_hashes_indexed in He. apply in_flat_map in He. destruct He as [jt [Hjt He]].
    destruct (st_hashes_keys _ _ _ _ He) as [A _]. rewrite A. apply indexed_lt. exact Hjt.
Qed.

Definition distinct_strings (t : rtree) (H : list pterm) : Prop := NoDup (map (fun tm : pterm => map (snd tm) (ids t)) H).

Lemma init_FI : forall t H, NoDup (ids t) -> distinct_strings t H -> FI t false [t] (pipe_init t H).
Proof.
  intros t H ND HD tp [E|[]]. subst tp. destruct t as [r cs]. cbn [rid rchildren].
  exists false, (fun _ => map lab_of (indexed 0 H)). split; [apply na_here|]. split; [|discriminate].
  unfold pipe_init. cbn [p_sd p_hash].
  pose proof (base_hes_at_root (RNode r cs) H ND) as Er. cbn [rid rchildren] in Er.
  constructor.
  - intros h Hh. rewrite Er in Hh. apply in_map_iff in Hh. destruct Hh as [jt [E Hjt]]. subst h.
    exists (snd (snd jt)), (fun _ => fst jt). cbn [hlabel hid hverts child_part].
    pose proof (base_hash_lookup (RNode r cs) H jt (RNode r cs) ND Hjt (sub_here _)) as Hl. cbn [rid] in Hl.
    split; [reflexivity|]. split; [rewrite Hl; apply down_node|].
    split; [reflexivity|]. split; [discriminate|].
    intros g Hg. exists (lab_of jt). split; [apply in_map; exact Hjt | split; reflexivity].
  - rewrite Er, map_map.
    rewrite (map_ext_in _ (fun jt : nat * pterm => (@None oid, down (snd (snd jt)) (RNode r cs)))).
    + unfold distinct_strings in HD. rewrite <- (indexed_snd H 0), map_map in HD.
      assert (E : map (fun jt : nat * pterm => (@None oid, down (snd (snd jt)) (RNode r cs))) (indexed 0 H)
                  = map (fun l => (@None oid, l)) (map (fun jt : nat * pterm => map (snd (snd jt)) (ids (RNode r cs))) (indexed 0 H)))
        by (rewrite map_map; reflexivity).
      rewrite E. apply FinFun.Injective_map_NoDup; auto. intros a b Eab. inversion Eab. reflexivity.
    + intros jt Hjt. unfold key2. cbn [hid]. pose proof (base_hash_lookup (RNode r cs) H jt (RNode r cs) ND Hjt (sub_here _)) as Hl.
      cbn [rid] in Hl. rewrite Hl. reflexivity.
  - intros g Hg.
    assert (Hsub : forall tx, is_subtree tx g -> is_subtree tx (RNode r cs) /\ rid tx <> r).
    { intros tx Hx. split; [eapply sub_child; eauto|]. intros E. eapply (wf_root_notin_child r cs g ND Hg).
      rewrite <- E. eapply is_subtree_ids; eauto. apply rid_in_ids. }
    split; [|split].
    + intros tx Hx. destruct (Hsub tx Hx) as [S1 S2]. unfold BaseAt. apply (base_hes_at_proper (RNode r cs) H tx ND S1). exact S2.
    + rewrite map_map. cbn [lab_of fst]. rewrite indexed_fst. apply seq_NoDup.
    + intros tx jf Hx Hjf. apply in_map_iff in Hjf. destruct Hjf as [jt [E Hjt]]. subst jf. destruct (Hsub tx Hx) as [S1 _].
      apply (base_hash_lookup (RNode r cs) H jt tx ND Hjt S1).
Qed.

(* ====================================================================================== *)
(* 6. BIPARTITE from_hamiltonian is exact for pairwise distinct operator strings            *)
(* ====================================================================================== *)
Lemma distinct_live : forall t H, distinct_strings t H -> distinct_strings t (live_terms H).
Proof. intros t H HD. unfold distinct_strings, live_terms. apply PTN.Bip.ModelProofs.NoDup_map_filter. exact HD. Qed.

Theorem bipartite_exact : forall t H d, NoDup (ids t) -> distinct_strings t H ->
  from_hamiltonian_bipartite t H = Some d -> peq (sd_denote t d) (ham_denote t H).
Proof.
  intros t H d ND HD E. unfold from_hamiltonian_bipartite, from_hamiltonian_bipartite_st in E.
  destruct (live_terms H) as [|tm H'] eqn:EL.
  - destruct H as [|tm0 H0]; [discriminate|]. cbn [option_map] in E. inversion E; subst d.
    unfold pipe_init. cbn [p_sd]. apply base_exact_peq. exact ND.
  - destruct (run_levels t (levels t) (pipe_init t (tm :: H'))) as [st'|] eqn:R; [|discriminate].
    cbn [option_map] in E. inversion E; subst d.
    eapply peq_trans; [|apply (ham_denote_live t H)]. rewrite EL.
    eapply peq_trans; [|unfold pipe_init; cbn [p_sd]; apply base_exact_peq; exact ND].
    change (sd_base t (tm :: H')) with (p_sd (pipe_init t (tm :: H'))).
    apply (run_inv t ND (size t) [t] (pipe_init t (tm :: H')) st').
    + cbn [flat_map]. rewrite app_nil_r. exact ND.
    + intros tp [Etp|[]]. subst. apply sub_here.
    + apply init_GI. exact ND.
    + apply init_FI; auto. rewrite <- EL. apply distinct_live. exact HD.
    + cbn [flat_map]. rewrite app_nil_r. exact R.
Qed.
