(* Rank certificates for coefficient matrices over Q (property C12).  Definitions only;
   proofs are in RankProofs.v.

   A matrix is a list of rows.  `min_cert M m n rs cs B` checks a lower-bound certificate for
   the rank of the m x n matrix M: row indices rs and column indices cs (r of each) and an
   r x r matrix B with  M[rs, cs] * B = identity.  RankProofs.min_cert_sound: then M has no
   factorisation X * Y through an inner dimension k < r.  `det` (Laplace expansion along the
   first row) is executable and used as a cross-check of the certificate's minor. *)
From Coq Require Import List Arith Bool QArith.
Import ListNotations.
Local Close Scope Q_scope.

Definition mat := list (list Q).
Definition entry (M : mat) (i j : nat) : Q := nth j (nth i M []) 0%Q.

Fixpoint sumn (n : nat) (f : nat -> Q) : Q :=
  match n with O => 0%Q | S n' => Qplus (sumn n' f) (f n') end.

Definition delta (i j : nat) : Q := if Nat.eqb i j then 1%Q else 0%Q.

Definition submat (M : mat) (rs cs : list nat) : mat :=
  map (fun i => map (fun j => entry M i j) cs) rs.

(* ---- determinant, Laplace expansion along the first row ------------------------------ *)
Definition drop_col (j : nat) (r : list Q) : list Q := firstn j r ++ skipn (S j) r.
Fixpoint det_fuel (fuel : nat) (M : mat) : Q :=
  match fuel, M with
  | S f, r :: rest =>
      fold_right Qplus 0%Q
        (map (fun j => Qmult (Qmult (if Nat.even j then 1%Q else (-1)%Q) (nth j r 0%Q))
                             (det_fuel f (map (drop_col j) rest)))
             (seq 0 (length r)))
  | _, _ => 1%Q
  end.
Definition det (M : mat) : Q := Qred (det_fuel (length M) M).

(* ---- the certificate ------------------------------------------------------------------ *)
Definition shape_ok (M : mat) (m n : nat) : bool :=
  Nat.eqb (length M) m && forallb (fun r => Nat.eqb (length r) n) M.

Definition min_cert (M : mat) (m n : nat) (rs cs : list nat) (B : mat) : bool :=
  let r := length rs in
  Nat.eqb (length cs) r &&
  forallb (fun i => Nat.ltb i m) rs && forallb (fun j => Nat.ltb j n) cs &&
  forallb (fun a => forallb (fun b =>
     Qeq_bool (sumn r (fun c => Qmult (entry M (nth a rs 0) (nth c cs 0)) (entry B c b))) (delta a b))
     (seq 0 r)) (seq 0 r).

(* what the harness evaluates per edge: certificate for rank >= r, determinant of the minor *)
Definition rank_case (M : mat) (m n : nat) (rs cs : list nat) (B : mat) : bool * bool * (Z * positive) :=
  let d := det (submat M rs cs) in (shape_ok M m n, min_cert M m n rs cs B, (Qnum d, Qden d)).
