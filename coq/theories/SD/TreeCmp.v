(* [ext-C01T] Literal model of the TREE method of pytreenet/ttno/state_diagram.py:
   StateDiagram.from_hamiltonian_tree_comparison (l.186-208), from_single_term / from_single_state_diagram
   (l.210-243), add_single_term (l.245-262), _mark_contained_vertices (l.264-283), _find_and_mark_new_vertex
   (l.285-298), _find_new_he (l.300-318), _add_hyperedges / _add_hyperedges_rec (l.320-354),
   _find_vertices_connecting_to_he (l.356-374), with the marker fields of vertex.py (contained, new,
   _already_checked, runtime_reset) and the marker queries of hyperedge.py / collections.py.
   Definitions only; proofs are in TreeCmpProofs.v.

   State: the hyperedges and vertices of SD/Model.v (flattened collections: the hyperedges of one node and the
   vertices of one edge keep their collection order as list order; an object appended to its collection is appended
   to the flat list) plus the three marker sets.  The markers are carried from one add_single_term to the next, as
   the Python objects do (the code's comment "all vertices have their marking reset already" is not assumed).
   `order` is the iteration order of the dict reference_tree.nodes (insertion order; get_leaves() filters it).
   Objects created for term j are named (j, node) (hyperedge) and (j, child end of the edge) (vertex), like
   single_term does.  `None` = the code raises (assert / ValueError / IndexError) or the fuel of the marking walk
   ran out (every recursive call of the walk follows a freshly marked vertex of an edge that had no contained
   vertex, so there are at most (number of edges) calls; the fuel is number of nodes + 1).

   The coefficient handling is the code's (finding C01-tree-coefficients), not repaired:
   - no completely contained hyperedge at a node: the new hyperedge gets the coefficient of the single-term
     diagram's hyperedge there (the term's (lambda, gamma) on the root, (1, "1") elsewhere);
   - otherwise the loop over the completely contained hyperedges: a hyperedge with the desired label ends the loop
     with "nothing to add" (the term's coefficient is dropped); every other one overwrites new_hyperedge with a
     hyperedge carrying the coefficient OF THAT EXISTING HYPEREDGE; the vertices are those of the last hyperedge
     looked at. *)
From Coq Require Import List Arith Bool QArith.
From PTN Require Import Tree.RTree SD.Model SD.Pipeline.
Import ListNotations.
Local Close Scope Q_scope.

Record tst := mkT { thes : list he; tvxs : list vx;
                    tcont : list oid;     (* Vertex.contained *)
                    tnew : list oid;      (* Vertex.new *)
                    tchk : list oid }.    (* Vertex._already_checked *)
Definition tsd (st : tst) : sd := mkSd (thes st) (tvxs st).

Definition tvx (st : tst) (x : oid) : option vx := find (fun v => oid_eqb (vxid v) x) (tvxs st).
Definition the (st : tst) (x : oid) : option he := find (fun h => oid_eqb (hid h) x) (thes st).
Definition contained (st : tst) (x : oid) : bool := omem x (tcont st).
Definition marked (st : tst) (x : oid) : bool := omem x (tcont st) || omem x (tnew st).
Definition oremove (x : oid) (l : list oid) : list oid := filter (fun y => negb (oid_eqb x y)) l.

(* Vertex.corr_edge = the two ends of the edge named by its child end *)
Definition edge_has (t : rtree) (v : vx) (node : nat) : bool :=
  Nat.eqb node (vedge v) || match parent_of (vedge v) t with Some p => Nat.eqb node p | None => false end.
(* Vertex.get_second_node_id (ValueError when node is not an end of the edge) *)
Definition second_node (t : rtree) (v : vx) (node : nat) : option nat :=
  match parent_of (vedge v) t with
  | Some p => if Nat.eqb node (vedge v) then Some p else if Nat.eqb node p then Some (vedge v) else None
  | None => None
  end.

(* HyperEdge.get_uncontained_vertices / all_but_one_vertex_contained / all_vertices_contained *)
Definition he_uncont (st : tst) (h : he) : list oid := filter (fun x => negb (contained st x)) (hverts h).
Definition all_but_one (st : tst) (h : he) : bool := Nat.eqb (length (he_uncont st h)) 1.
Definition all_cont (st : tst) (h : he) : bool := Nat.eqb (length (he_uncont st h)) 0.

(* Vertex.get_hyperedges_for_one_node_id: the hyperedges of v at `node`, in the order of v.hyperedges *)
Definition hes_of_vertex_at (st : tst) (v : vx) (node : nat) : list he :=
  filter (fun h => Nat.eqb (hnode h) node) (flat_map (fun x => opt_list (the st x)) (vhes v)).

(* _find_and_mark_new_vertex: Some (Some u) = u is to be marked contained (the caller does it), Some None = the
   function returns None, None = it raises *)
Definition find_and_mark (t : rtree) (st : tst) (h : he) : option (option oid) :=
  match he_uncont st h with
  | [u] =>                                              (* get_single_uncontained_vertex (assert) *)
      match tvx st u with
      | None => None
      | Some ux =>
          match second_node t ux (hnode h) with
          | None => None
          | Some next =>
              (* vertex_single_he(next): find_vertex(next) ... *)
              match filter (fun x => match tvx st x with Some xx => edge_has t xx next | None => false end) (hverts h) with
              | [w] =>
                  match tvx st w with
                  | None => None
                  | Some wx =>
                      if negb (edge_has t wx (hnode h)) then None            (* check_validity_of_node *)
                      else if negb (Nat.eqb (length (hes_of_vertex_at st wx (hnode h))) 1) then Some None
                      (* vertex_coll.contains_contained() on the edge (current, next) *)
                      else if existsb (fun v => Nat.eqb (vedge v) (vedge ux) && contained st (vxid v)) (tvxs st) then Some None
                      else Some (Some u)
                  end
              | _ => None
              end
          end
      end
  | _ => None
  end.

(* "for hyperedge in potential: next_vertex = _find_and_mark_new_vertex(hyperedge); break when not None" *)
Fixpoint first_mark (t : rtree) (st : tst) (l : list he) : option (option oid) :=
  match l with
  | [] => Some None
  | h :: r => match find_and_mark t st h with
              | None => None
              | Some (Some u) => Some (Some u)
              | Some None => first_mark t st r
              end
  end.
Definition mark (st : tst) (u : oid) : tst := mkT (thes st) (tvxs st) (u :: tcont st) (tnew st) (tchk st).

(* _find_new_he(current_vertex, node_id, single_term_diagram); f = labels of the term *)
Fixpoint find_new_he (fuel : nat) (t : rtree) (f : nat -> nat) (st : tst) (v : oid) (node : nat) : option tst :=
  match fuel with
  | O => None
  | S fuel' =>
      match tvx st v with
      | None => None
      | Some vv =>
          if negb (edge_has t vv node) then None else
          let pot := filter (fun h => all_but_one st h && Nat.eqb (hlabel h) (f node)) (hes_of_vertex_at st vv node) in
          match first_mark t st pot with
          | None => None
          | Some None => Some st
          | Some (Some u) =>
              let st' := mark st u in
              match tvx st' u with
              | None => None
              | Some ux => match second_node t ux node with
                           | Some nn => find_new_he fuel' t f st' u nn
                           | None => None
                           end
              end
          end
      end
  end.

(* _mark_contained_vertices: one walk per leaf, leaves in dict order *)
Definition mark_leaf (fuel : nat) (t : rtree) (f : nat -> nat) (st : tst) (leaf : nat) : option tst :=
  let pot := filter (fun h => Nat.eqb (hnode h) leaf && Nat.eqb (hlabel h) (f leaf) && all_but_one st h) (thes st) in
  match first_mark t st pot with
  | None => None
  | Some None => Some st
  | Some (Some u) =>
      let st' := mark st u in
      match tvx st' u with
      | None => None
      | Some ux => match second_node t ux leaf with
                   | Some nn => find_new_he fuel t f st' u nn
                   | None => None
                   end
      end
  end.
Fixpoint mark_leaves (fuel : nat) (t : rtree) (f : nat -> nat) (st : tst) (ls : list nat) : option tst :=
  match ls with
  | [] => Some st
  | l :: r => match mark_leaf fuel t f st l with Some st' => mark_leaves fuel t f st' r | None => None end
  end.
Definition mark_contained (t : rtree) (order : list nat) (f : nat -> nat) (st : tst) : option tst :=
  mark_leaves (S (length (ids t))) t f st (filter (is_leaf t) order).

(* _find_vertices_connecting_to_he: per neighbour (parent first, then the children) the marked vertex of the edge
   collection, a fresh vertex marked `new` appended to the collection when there is none; AssertionError for two *)
Fixpoint connect_vertices (j : nat) (st : tst) (es : list nat) : option (list oid * tst) :=
  match es with
  | [] => Some ([], st)
  | e :: r =>
      match filter (fun v => Nat.eqb (vedge v) e && marked st (vxid v)) (tvxs st) with
      | [] =>
          let st' := mkT (thes st) (tvxs st ++ [mkVx (j, e) e []]) (tcont st) ((j, e) :: tnew st) (tchk st) in
          match connect_vertices j st' r with Some (vs, st'') => Some ((j, e) :: vs, st'') | None => None end
      | [x] =>
          match connect_vertices j st r with Some (vs, st'') => Some (vxid x :: vs, st'') | None => None end
      | _ => None
      end
  end.

(* Vertex.runtime_reset *)
Definition runtime_reset (st : tst) (x : oid) : tst :=
  if omem x (tchk st) then mkT (thes st) (tvxs st) (oremove x (tcont st)) (oremove x (tnew st)) (oremove x (tchk st))
  else mkT (thes st) (tvxs st) (tcont st) (tnew st) (x :: tchk st).

(* the loop over the completely contained hyperedges: (vertices_to_connect_to_new_he, new_hyperedge) *)
Fixpoint contained_loop (nh : oid) (node desired : nat) (l : list he) (acc : list oid * option he) : list oid * option he :=
  match l with
  | [] => acc
  | h :: r =>
      if Nat.eqb (hlabel h) desired then (hverts h, None)
      else contained_loop nh node desired r (hverts h, Some (mkHe nh node desired (hlam h) (hgam h) (hverts h)))
  end.

(* _add_hyperedges_rec(node_id, single_term_diagram) for term number j = (lam, gam, f) *)
Definition add_rec (t : rtree) (j : nat) (tm : pterm) (st : tst) (node : nat) : option tst :=
  match tm with
  | (lam, gam, f) =>
      let cc := filter (fun h => Nat.eqb (hnode h) node && all_cont st h) (thes st) in
      let desired := f node in
      let r :=
        match cc with
        | [] =>
            match connect_vertices j st (incident t node) with
            | Some (vs, st') =>
                let c := if Nat.eqb node (rid t) then (lam, gam) else (1%Q, 0) in
                Some (vs, Some (mkHe (j, node) node desired (fst c) (snd c) vs), st')
            | None => None
            end
        | _ => let (vs, nh) := contained_loop (j, node) node desired cc ([], None) in Some (vs, nh, st)
        end in
      match r with
      | None => None
      | Some (vs, nh, st1) =>
          let st2 := fold_left runtime_reset vs st1 in
          match nh with
          | None => Some st2
          | Some h =>
              Some (mkT (thes st2 ++ [h])
                        (map (fun v => if omem (vxid v) vs then mkVx (vxid v) (vedge v) (vhes v ++ [hid h]) else v) (tvxs st2))
                        (tcont st2) (tnew st2) (tchk st2))
          end
      end
  end.
Fixpoint add_hyperedges (t : rtree) (j : nat) (tm : pterm) (st : tst) (nodes : list nat) : option tst :=
  match nodes with
  | [] => Some st
  | v :: r => match add_rec t j tm st v with Some st' => add_hyperedges t j tm st' r | None => None end
  end.

(* add_single_term *)
Definition tree_add (t : rtree) (order : list nat) (j : nat) (st : tst) (tm : pterm) : option tst :=
  match mark_contained t order (snd tm) st with
  | Some st1 => add_hyperedges t j tm st1 order
  | None => None
  end.

(* from_single_term / from_single_state_diagram *)
Definition tree_init (t : rtree) (tm : pterm) : tst :=
  let d := single_term 0 t tm in mkT (hes d) (vxs d) [] [] [].

Fixpoint tree_run (t : rtree) (order : list nat) (j : nat) (st : tst) (H : list pterm) : option tst :=
  match H with
  | [] => Some st
  | tm :: H' => match tree_add t order j st tm with Some st' => tree_run t order (S j) st' H' | None => None end
  end.
(* from_hamiltonian_tree_comparison: None also for the empty term list (the code returns None, which
   TTNO.from_hamiltonian cannot use) *)
Definition tree_final (t : rtree) (order : list nat) (H : list pterm) : option tst :=
  match H with
  | [] => None
  | tm :: H' => tree_run t order 1 (tree_init t tm) H'
  end.
Definition from_hamiltonian_tree (t : rtree) (order : list nat) (H : list pterm) : option sd :=
  option_map tsd (tree_final t order H).

(* the states after from_single_term and after every add_single_term, in call order *)
Fixpoint tree_trace_from (t : rtree) (order : list nat) (j : nat) (st : tst) (H : list pterm) : list (option tst) :=
  match H with
  | [] => []
  | tm :: H' => match tree_add t order j st tm with
                | Some st' => Some st' :: tree_trace_from t order (S j) st' H'
                | None => [None]
                end
  end.
Definition tree_trace (t : rtree) (order : list nat) (H : list pterm) : list (option tst) :=
  match H with
  | [] => []
  | tm :: H' => Some (tree_init t tm) :: tree_trace_from t order 1 (tree_init t tm) H'
  end.

(* number of vertices carrying a marker (Vertex.contained / new / _already_checked) *)
Definition nmarked (st : tst) : nat := length (tcont st) + length (tnew st) + length (tchk st).

(* ---- tie (harness/props/c01t.py) ------------------------------------------------------- *)
(* Vertex.hyperedges in list order, uuids renamed away: per edge (pre-order of the child end) and per vertex of its
   collection the list of (node, position in the node's hyperedge collection) *)
Fixpoint pos_in (x : oid) (v : nat) (l : list he) (n : nat) : nat :=
  match l with
  | [] => n
  | h :: r => if Nat.eqb (hnode h) v then (if oid_eqb (hid h) x then n else pos_in x v r (S n)) else pos_in x v r n
  end.
Definition he_pos (d : sd) (x : oid) : nat * nat :=
  match he_of d x with Some h => (hnode h, pos_in x (hnode h) (hes d) 0) | None => (0, 0) end.
Definition vcanon := list (nat * list (list (nat * nat))).
Definition sd_vcanon (t : rtree) (d : sd) : vcanon :=
  map (fun c => (c, map (fun v => map (he_pos d) (vhes v)) (filter (fun v => Nat.eqb (vedge v) c) (vxs d)))) (tl (ids t)).
Definition nn_eqb (a b : nat * nat) : bool := Nat.eqb (fst a) (fst b) && Nat.eqb (snd a) (snd b).
Definition vcanon_eqb (a b : vcanon) : bool :=
  leqb (fun x y => Nat.eqb (fst x) (fst y) && leqb (leqb nn_eqb) (snd x) (snd y)) a b.

(* per call: 0 = the model fails where the implementation returned a diagram, 1 = canonical forms differ (or the
   model returns a diagram where the implementation raised), 2 = equal but the model's state is not sd_wf,
   4 = the vertices' hyperedge lists differ, 5 = the number of markers left set differs, 3 = all equal *)
Definition tobs := (canon * vcanon * nat)%type.
Definition tree_step_verdict (t : rtree) (m : option tst) (o : option tobs) : nat :=
  match m, o with
  | None, None => 3
  | None, Some _ => 0
  | Some _, None => 1
  | Some st, Some (cn, vc, nm) =>
      if negb (canon_eqb (sd_canon t (tsd st)) cn) then 1
      else if negb (sd_wf t (tsd st)) then 2
      else if negb (vcanon_eqb (sd_vcanon t (tsd st)) vc) then 4
      else if negb (Nat.eqb (nmarked st) nm) then 5 else 3
  end.
Fixpoint tree_verdicts (t : rtree) (ms : list (option tst)) (os : list (option tobs)) : list nat :=
  match ms, os with
  | m :: ms', o :: os' => tree_step_verdict t m o :: tree_verdicts t ms' os'
  | _, _ => []
  end.

(* ---- per-instance step checks (hypothesis of TreeCmpProofs.tree_exact_checked) ------------ *)
(* after adding term tm to d the result d' is well-formed and denotes (denotation of d) + tm *)
Definition tree_step_ok (t : rtree) (d : sd) (tm : pterm) (d' : sd) : bool :=
  sd_wf t d' && poly_eqb (pnorm (sd_denote t d')) (pnorm (sd_denote t d ++ [term_poly t tm])).
Fixpoint tree_checks_from (t : rtree) (order : list nat) (j : nat) (st : tst) (H : list pterm) : list bool :=
  match H with
  | [] => []
  | tm :: H' => match tree_add t order j st tm with
                | Some st' => tree_step_ok t (tsd st) tm (tsd st') :: tree_checks_from t order (S j) st' H'
                | None => [false]
                end
  end.
Definition tree_checks (t : rtree) (order : list nat) (H : list pterm) : list bool :=
  match H with
  | [] => [false]
  | tm :: H' => sd_wf t (tsd (tree_init t tm)) :: tree_checks_from t order 1 (tree_init t tm) H'
  end.
Definition tree_ok (t : rtree) (order : list nat) (H : list pterm) : bool := forallb (fun b => b) (tree_checks t order H).

(* ---- finite enumerations for the bounded theorem (TreeCmpBounded.v) ----------------------- *)
(* all label tuples of length n over the labels 0..k-1 *)
Fixpoint tuples (k n : nat) : list (list nat) :=
  match n with
  | O => [[]]
  | S n' => flat_map (fun l => map (fun a => a :: l) (seq 0 k)) (tuples k n')
  end.
(* all lists of at most L pairwise different elements of pool (every order) *)
Fixpoint dlists (L : nat) (pool : list (list nat)) : list (list (list nat)) :=
  match L with
  | O => [[]]
  | S L' => [] :: flat_map (fun x => map (cons x) (filter (fun l => negb (existsb (leqb Nat.eqb x) l)) (dlists L' pool))) pool
  end.
Fixpoint inserts (x : nat) (l : list nat) : list (list nat) :=
  match l with
  | [] => [[x]]
  | y :: r => (x :: l) :: map (cons y) (inserts x r)
  end.
Fixpoint perms (l : list nat) : list (list nat) :=
  match l with
  | [] => [[]]
  | x :: r => flat_map (inserts x) (perms r)
  end.
(* dict orders TreeStructure can have: a node is inserted after its parent *)
Fixpoint parents_first (t : rtree) (seen : list nat) (order : list nat) : bool :=
  match order with
  | [] => true
  | v :: r => match parent_of v t with
              | Some p => mem p seen
              | None => true
              end && parents_first t (v :: seen) r
  end.
Definition topo_orders (t : rtree) : list (list nat) := filter (parents_first t []) (perms (ids t)).
(* unit-coefficient term with the labels of the tuple (node v carries the v-th entry; identifiers 0..n-1) *)
Definition unit_term (l : list nat) : pterm := (1%Q, 0, fun v => nth v l 0).
(* every rooted ordered tree with at most 4 nodes, identifiers in pre-order *)
Definition small_trees : list rtree :=
  [RNode 0 [];
   RNode 0 [RNode 1 []];
   RNode 0 [RNode 1 [RNode 2 []]]; RNode 0 [RNode 1 []; RNode 2 []];
   RNode 0 [RNode 1 [RNode 2 [RNode 3 []]]]; RNode 0 [RNode 1 [RNode 2 []; RNode 3 []]];
   RNode 0 [RNode 1 [RNode 2 []]; RNode 3 []]; RNode 0 [RNode 1 []; RNode 2 [RNode 3 []]];
   RNode 0 [RNode 1 []; RNode 2 []; RNode 3 []]].
(* term lists explored: at most 4 terms on trees with <= 3 nodes, at most 3 terms on 4 nodes, two labels *)
Definition max_terms (t : rtree) : nat := if Nat.leb (size t) 3 then 4 else 3.
Definition small_hams (t : rtree) : list (list (list nat)) :=
  filter (fun H => match H with [] => false | _ => true end) (dlists (max_terms t) (tuples 2 (size t))).
Definition tree_bounded_all : bool :=
  forallb (fun t => forallb (fun order => forallb (fun labs => tree_ok t order (map unit_term labs)) (small_hams t)) (topo_orders t)) small_trees.
