(* Proofs about the model of pytreenet/ttno/bipartite_graph.py (Bip/Model.v). *)
From Coq Require Import List Arith Bool ZArith Lia Permutation.
From PTN Require Import Bip.Model.
Import ListNotations.

(* ================================================================================== *)
(* 0. basics                                                                           *)
(* ================================================================================== *)
Lemma memn_In : forall x l, memn x l = true <-> In x l.
Proof.
  intros x l. unfold memn. rewrite existsb_exists. split.
  - intros [y [H1 H2]]. apply Nat.eqb_eq in H2. subst. assumption.
  - intros H. exists x. split; [assumption | apply Nat.eqb_refl].
Qed.

Lemma memn_nIn : forall x l, memn x l = false <-> ~ In x l.
Proof.
  intros x l. rewrite <- memn_In. destruct (memn x l); intuition congruence.
Qed.

Lemma memp_In : forall p l, memp p l = true <-> In p l.
Proof.
  intros [a b] l. unfold memp. rewrite existsb_exists. split.
  - intros [[c d] [H1 H2]]. simpl in H2. apply andb_true_iff in H2. destruct H2 as [H2 H3].
    apply Nat.eqb_eq in H2. apply Nat.eqb_eq in H3. subst. assumption.
  - intros H. exists (a, b). split; [assumption|]. simpl. now rewrite !Nat.eqb_refl.
Qed.

Lemma memp_nIn : forall p l, memp p l = false <-> ~ In p l.
Proof.
  intros p l. rewrite <- memp_In. destruct (memp p l); intuition congruence.
Qed.

Lemma upd_length : forall (A : Type) i (x : A) l, length (upd i x l) = length l.
Proof. intros A i x l. revert i. induction l; intros [|i]; simpl; auto. Qed.

Lemma nth_upd_same : forall (A : Type) i (x d : A) l, i < length l -> nth i (upd i x l) d = x.
Proof.
  intros A i x d l. revert i. induction l; intros [|i] H; simpl in *; try lia; auto.
  apply IHl. lia.
Qed.

Lemma nth_upd_other : forall (A : Type) i j (x d : A) l, i <> j -> nth i (upd j x l) d = nth i l d.
Proof.
  intros A i j x d l. revert i j. induction l; intros [|i] [|j] H; simpl; auto; try lia.
Qed.

Lemma nth_upd_oob : forall (A : Type) j (x : A) l, length l <= j -> upd j x l = l.
Proof.
  intros A j x l. revert j. induction l; intros [|j] H; simpl in *; auto; try lia.
  f_equal. apply IHl. lia.
Qed.

Lemma nth_upd : forall (A : Type) i j (x d : A) l,
  nth i (upd j x l) d = if (i =? j) && (j <? length l) then x else nth i l d.
Proof.
  intros. destruct (Nat.eqb_spec i j).
  - subst. destruct (Nat.ltb_spec j (length l)); simpl.
    + now apply nth_upd_same.
    + now rewrite nth_upd_oob.
  - simpl. now apply nth_upd_other.
Qed.

Lemma NoDup_snoc : forall (A : Type) (l : list A) x, NoDup l -> ~ In x l -> NoDup (l ++ [x]).
Proof.
  intros A l x. induction l as [|a l IH]; simpl; intros Hn Hx.
  - constructor; auto.
  - inversion Hn; subst. constructor.
    + intro Hin. apply in_app_or in Hin. destruct Hin as [Hin|[Hin|[]]]; [contradiction|].
      subst. apply Hx. now left.
    + apply IH; auto.
Qed.

(* soundness of the equality tests used by the correspondence *)
Lemma list_eqb_eq : forall (A : Type) (e : A -> A -> bool),
  (forall x y, e x y = true -> x = y) -> forall a b, list_eqb e a b = true -> a = b.
Proof.
  intros A e He a. induction a as [|x a IH]; intros [|y b] H; simpl in H; try discriminate; auto.
  apply andb_true_iff in H. destruct H as [H1 H2]. f_equal; auto.
Qed.

Lemma opt_eqb_eq : forall (A : Type) (e : A -> A -> bool),
  (forall x y, e x y = true -> x = y) -> forall a b, opt_eqb e a b = true -> a = b.
Proof. intros A e He [x|] [y|] H; simpl in H; try discriminate; auto. f_equal; auto. Qed.

Lemma pair_eqb_eq : forall (A B : Type) (ea : A -> A -> bool) (eb : B -> B -> bool),
  (forall x y, ea x y = true -> x = y) -> (forall x y, eb x y = true -> x = y) ->
  forall p q, pair_eqb ea eb p q = true -> p = q.
Proof.
  intros A B ea eb Ha Hb [a b] [c d] H. unfold pair_eqb in H. simpl in H.
  apply andb_true_iff in H. destruct H. f_equal; auto.
Qed.

Lemma Zeqb_eq' : forall x y, Z.eqb x y = true -> x = y.
Proof. intros. now apply Z.eqb_eq. Qed.

Lemma lz_eqb_eq : forall a b, lz_eqb a b = true -> a = b.
Proof. apply list_eqb_eq. exact Zeqb_eq'. Qed.

Lemma trace_eqb_eq : forall a b, trace_eqb a b = true -> a = b.
Proof.
  apply list_eqb_eq. apply pair_eqb_eq; [|exact lz_eqb_eq].
  apply pair_eqb_eq; [exact Zeqb_eq'|exact lz_eqb_eq].
Qed.

Lemma all_eqb_eq : forall a b, all_eqb a b = true -> a = b.
Proof.
  apply opt_eqb_eq. apply pair_eqb_eq.
  - apply pair_eqb_eq; apply list_eqb_eq; exact lz_eqb_eq.
  - apply opt_eqb_eq. apply pair_eqb_eq; [|exact trace_eqb_eq].
    apply pair_eqb_eq; [|exact eqb_prop].
    apply pair_eqb_eq; [|exact lz_eqb_eq].
    apply pair_eqb_eq; [|exact lz_eqb_eq].
    apply list_eqb_eq. apply pair_eqb_eq; exact Zeqb_eq'.
Qed.

Lemma koenig_eqb_eq : forall a b, koenig_eqb a b = true -> a = b.
Proof.
  apply opt_eqb_eq. apply opt_eqb_eq. apply pair_eqb_eq; [|exact trace_eqb_eq].
  apply pair_eqb_eq; exact lz_eqb_eq.
Qed.

(* ================================================================================== *)
(* 1. the constructor: adjacency lists = edge set                                      *)
(* ================================================================================== *)
Definition edges_ok (nu nv : nat) (edges : list (nat * nat)) : Prop :=
  forall u v, In (u, v) edges -> u < nu /\ v < nv.

Record wf (g : graph) : Prop := {
  wf_lu : length (adj_u g) = num_u g;
  wf_lv : length (adj_v g) = num_v g;
  wf_uv : forall u v, In v (adjU g u) <-> In u (adjV g v)
}.

Lemma adjU_range : forall g u v, wf g -> In v (adjU g u) -> u < num_u g /\ v < num_v g.
Proof.
  intros g u v W H. split.
  - destruct (Nat.lt_ge_cases u (num_u g)) as [|Hge]; auto.
    unfold adjU in H. rewrite nth_overflow in H; [destruct H|]. rewrite (wf_lu g W). lia.
  - apply (wf_uv g W) in H.
    destruct (Nat.lt_ge_cases v (num_v g)) as [|Hge]; auto.
    unfold adjV in H. rewrite nth_overflow in H; [destruct H|]. rewrite (wf_lv g W). lia.
Qed.

Lemma adjV_range : forall g u v, wf g -> In u (adjV g v) -> u < num_u g /\ v < num_v g.
Proof. intros g u v W H. apply (wf_uv g W) in H. now apply adjU_range. Qed.

Lemma add_edge_adjU : forall g u0 v0 u v, u0 < length (adj_u g) ->
  (In v (adjU (add_edge g (u0, v0)) u) <-> In v (adjU g u) \/ (u = u0 /\ v = v0)).
Proof.
  intros g u0 v0 u v Hu. unfold add_edge, adjU at 1. simpl.
  destruct (memn v0 (adjU g u0)) eqn:E.
  - apply memn_In in E. fold (adjU g u). split; [auto|]. intros [H|[-> ->]]; auto.
  - rewrite nth_upd. destruct (Nat.eqb_spec u u0) as [->|Hne]; simpl.
    + apply Nat.ltb_lt in Hu. rewrite Hu. rewrite in_app_iff. simpl. split.
      * intros [H|[H|[]]]; auto.
      * intros [H|[_ ->]]; auto.
    + fold (adjU g u). split; [auto|]. intros [H|[H _]]; [auto|contradiction].
Qed.

Lemma add_edge_adjV : forall g u0 v0 u v, v0 < length (adj_v g) ->
  (In u (adjV (add_edge g (u0, v0)) v) <-> In u (adjV g v) \/ (u = u0 /\ v = v0)).
Proof.
  intros g u0 v0 u v Hv. unfold add_edge, adjV at 1. simpl.
  destruct (memn u0 (adjV g v0)) eqn:E.
  - apply memn_In in E. fold (adjV g v). split; [auto|]. intros [H|[-> ->]]; auto.
  - rewrite nth_upd. destruct (Nat.eqb_spec v v0) as [->|Hne]; simpl.
    + apply Nat.ltb_lt in Hv. rewrite Hv. rewrite in_app_iff. simpl. split.
      * intros [H|[H|[]]]; auto.
      * intros [H|[-> _]]; auto.
    + fold (adjV g v). split; [auto|]. intros [H|[_ H]]; [auto|contradiction].
Qed.

Lemma add_edge_lengths : forall g e,
  length (adj_u (add_edge g e)) = length (adj_u g) /\ length (adj_v (add_edge g e)) = length (adj_v g) /\
  num_u (add_edge g e) = num_u g /\ num_v (add_edge g e) = num_v g.
Proof.
  intros g e. unfold add_edge. simpl.
  destruct (memn (snd e) (adjU g (fst e))); destruct (memn (fst e) (adjV g (snd e)));
    rewrite ?upd_length; auto.
Qed.

Lemma fold_add_edge : forall edges g,
  (forall u v, In (u, v) edges -> u < length (adj_u g) /\ v < length (adj_v g)) ->
  let g' := fold_left add_edge edges g in
  length (adj_u g') = length (adj_u g) /\ length (adj_v g') = length (adj_v g) /\
  num_u g' = num_u g /\ num_v g' = num_v g /\
  (forall u v, In v (adjU g' u) <-> In v (adjU g u) \/ In (u, v) edges) /\
  (forall u v, In u (adjV g' v) <-> In u (adjV g v) \/ In (u, v) edges).
Proof.
  induction edges as [|[u0 v0] edges IH]; intros g Hok; simpl.
  - repeat split; auto; intros; tauto.
  - destruct (add_edge_lengths g (u0, v0)) as (L1 & L2 & L3 & L4).
    destruct (Hok u0 v0 (or_introl eq_refl)) as [Hu0 Hv0].
    assert (Hok' : forall u v, In (u, v) edges ->
              u < length (adj_u (add_edge g (u0, v0))) /\ v < length (adj_v (add_edge g (u0, v0)))).
    { intros u v H. rewrite L1, L2. apply Hok. now right. }
    destruct (IH (add_edge g (u0, v0)) Hok') as (I1 & I2 & I3 & I4 & I5 & I6).
    repeat split; try congruence.
    + rewrite I5. rewrite add_edge_adjU by assumption. intros [[H|[-> ->]]|H]; auto.
    + rewrite I5. rewrite add_edge_adjU by assumption. intros [H|[H|H]]; auto.
      inversion H; subst. auto.
    + rewrite I6. rewrite add_edge_adjV by assumption. intros [[H|[-> ->]]|H]; auto.
    + rewrite I6. rewrite add_edge_adjV by assumption. intros [H|[H|H]]; auto.
      inversion H; subst. auto.
Qed.

Lemma nth_repeat_nil : forall (A : Type) n i, nth i (repeat (@nil A) n) [] = [].
Proof. intros A n. induction n; intros [|i]; simpl; auto. Qed.

Theorem mk_graph_spec : forall nu nv edges, edges_ok nu nv edges ->
  let g := mk_graph nu nv edges in
  num_u g = nu /\ num_v g = nv /\ wf g /\
  (forall u v, In v (adjU g u) <-> In (u, v) edges) /\
  (forall u v, In u (adjV g v) <-> In (u, v) edges).
Proof.
  intros nu nv edges Hok. unfold mk_graph.
  destruct (fold_add_edge edges (empty_graph nu nv)) as (I1 & I2 & I3 & I4 & I5 & I6).
  { simpl. rewrite !repeat_length. exact Hok. }
  simpl in *. rewrite repeat_length in *.
  assert (A5 : forall u v, In v (adjU (fold_left add_edge edges (empty_graph nu nv)) u) <-> In (u, v) edges).
  { intros u v. rewrite I5. unfold adjU at 1. simpl. rewrite nth_repeat_nil. simpl. tauto. }
  assert (A6 : forall u v, In u (adjV (fold_left add_edge edges (empty_graph nu nv)) v) <-> In (u, v) edges).
  { intros u v. rewrite I6. unfold adjV at 1. simpl. rewrite nth_repeat_nil. simpl. tauto. }
  repeat split; auto; try congruence.
  - intros H. apply A6. now apply A5.
  - intros H. apply A5. now apply A6.
  - apply A5. - apply A5. - apply A6. - apply A6.
Qed.

(* ================================================================================== *)
(* 2. matchings and covers: weak duality                                               *)
(* ================================================================================== *)
Definition is_matching (M : list (nat * nat)) : Prop := NoDup (map fst M) /\ NoDup (map snd M).
Definition covers (E : list (nat * nat)) (cu cv : list nat) : Prop :=
  forall u v, In (u, v) E -> In u cu \/ In v cv.

Lemma filter_split_length : forall (A : Type) (p : A -> bool) l,
  length l = length (filter p l) + length (filter (fun x => negb (p x)) l).
Proof. intros A p l. induction l; simpl; auto. destruct (p a); simpl; lia. Qed.

Lemma NoDup_map_filter : forall (A B : Type) (f : A -> B) (p : A -> bool) l,
  NoDup (map f l) -> NoDup (map f (filter p l)).
Proof.
  intros A B f p l. induction l; simpl; intros H; auto.
  inversion H; subst. destruct (p a); simpl; auto. constructor; auto.
  intros Hin. apply H2. apply in_map_iff in Hin. destruct Hin as [x [Hx Hin]].
  apply filter_In in Hin. apply in_map_iff. exists x. tauto.
Qed.

Theorem weak_duality : forall (M : list (nat * nat)) (cu cv : list nat),
  is_matching M -> covers M cu cv -> length M <= length cu + length cv.
Proof.
  intros M cu cv [HU HV] Hc.
  rewrite (filter_split_length _ (fun p => memn (fst p) cu) M).
  apply Nat.add_le_mono.
  - rewrite <- (map_length fst). apply NoDup_incl_length.
    + now apply NoDup_map_filter.
    + intros u Hu. apply in_map_iff in Hu. destruct Hu as [[a b] [<- Hin]].
      apply filter_In in Hin. simpl in *. now apply memn_In.
  - rewrite <- (map_length snd). apply NoDup_incl_length.
    + now apply NoDup_map_filter.
    + intros v Hv. apply in_map_iff in Hv. destruct Hv as [[a b] [<- Hin]].
      apply filter_In in Hin. simpl in *. destruct Hin as [Hin Hn].
      apply negb_true_iff in Hn. apply memn_nIn in Hn.
      destruct (Hc a b Hin); [contradiction|assumption].
Qed.

(* a cover of the graph covers every matching contained in the graph *)
Theorem cover_ge_matching : forall (E M : list (nat * nat)) (cu cv : list nat),
  is_matching M -> incl M E -> covers E cu cv -> length M <= length cu + length cv.
Proof.
  intros E M cu cv HM Hi Hc. apply weak_duality; auto.
  intros u v H. apply Hc. now apply Hi.
Qed.

Theorem equal_sizes_optimal : forall (E M : list (nat * nat)) (cu cv : list nat),
  is_matching M -> incl M E -> covers E cu cv -> length cu + length cv = length M ->
  (forall M', is_matching M' -> incl M' E -> length M' <= length M) /\
  (forall cu' cv', covers E cu' cv' -> length cu + length cv <= length cu' + length cv').
Proof.
  intros E M cu cv HM Hi Hc Heq. split.
  - intros M' HM' Hi'. rewrite <- Heq. now apply (cover_ge_matching E).
  - intros cu' cv' Hc'. rewrite Heq. now apply (cover_ge_matching E).
Qed.

(* ================================================================================== *)
(* 3. the Koenig construction: exploration closure, cover, range, fuel                 *)
(* ================================================================================== *)
Section Explore.
  Variable g : graph.
  Variable M : list (nat * nat).
  Hypothesis W : wf g.

  (* every non-matching edge at u leads into vv *)
  Definition closed (vv : list nat) (u : nat) : Prop :=
    forall v, In v (adjU g u) -> ~ In (u, v) M -> In v vv.
  Definition has_partner (vv : list nat) (u : nat) : Prop := exists v, In v vv /\ In (u, v) M.
  Definition mono (s s' : vis) : Prop :=
    incl (fst s) (fst s') /\ incl (snd s) (snd s') /\
    (forall v, In v (snd s') -> In v (snd s) \/ v < num_v g).

  Lemma closed_mono : forall vv vv' u, incl vv vv' -> closed vv u -> closed vv' u.
  Proof. intros vv vv' u Hi Hc v H1 H2. apply Hi. now apply Hc. Qed.
  Lemma has_partner_mono : forall vv vv' u, incl vv vv' -> has_partner vv u -> has_partner vv' u.
  Proof. intros vv vv' u Hi [v [H1 H2]]. exists v. split; auto. Qed.
  Lemma mono_refl : forall s, mono s s.
  Proof. intros s. repeat split; try apply incl_refl. auto. Qed.
  Lemma mono_trans : forall s1 s2 s3, mono s1 s2 -> mono s2 s3 -> mono s1 s3.
  Proof.
    intros s1 s2 s3 (A1 & A2 & A3) (B1 & B2 & B3). repeat split.
    - eapply incl_tran; eauto. - eapply incl_tran; eauto.
    - intros v Hv. destruct (B3 v Hv) as [H|H]; auto.
  Qed.

  (* what a call explore(w) guarantees *)
  Definition rec_spec (rec : nat -> vis -> option vis) : Prop :=
    forall w s s', rec w s = Some s' ->
      mono s s' /\ In w (fst s') /\
      (forall u, In u (fst s') -> In u (fst s) \/ (closed (snd s') u /\ (u = w \/ has_partner (snd s') u))).

  Lemma expl_u_spec : forall rec, rec_spec rec -> forall v ws s s',
    expl_u rec M v ws s = Some s' -> In v (snd s) ->
    mono s s' /\
    (forall u, In u (fst s') -> In u (fst s) \/ (closed (snd s') u /\ has_partner (snd s') u)).
  Proof.
    intros rec HR v ws. induction ws as [|w ws IH]; intros s s' H Hv; simpl in H.
    - inversion H; subst. split; [apply mono_refl|auto].
    - destruct (memp (w, v) M) eqn:E.
      + destruct (rec w s) as [s1|] eqn:E1; [|discriminate].
        destruct (HR _ _ _ E1) as (Hm1 & _ & Hn1).
        assert (Hv1 : In v (snd s1)) by (apply Hm1; assumption).
        destruct (IH _ _ H Hv1) as (Hm2 & Hn2). split; [eapply mono_trans; eauto|].
        intros u Hu. destruct (Hn2 u Hu) as [Hu1|]; auto.
        destruct (Hn1 u Hu1) as [|[Hc Hp]]; auto. right.
        destruct Hm2 as (_ & Hi & _). split; [eapply closed_mono; eauto|].
        destruct Hp as [->|Hp]; [|eapply has_partner_mono; eauto].
        exists v. split; [apply Hi; assumption|now apply memp_In].
      + eauto.
  Qed.

  Lemma expl_v_spec : forall rec, rec_spec rec -> forall us vs s s',
    expl_v rec g M us vs s = Some s' -> incl vs (adjU g us) ->
    mono s s' /\
    (forall u, In u (fst s') -> In u (fst s) \/ (closed (snd s') u /\ has_partner (snd s') u)) /\
    (forall v, In v vs -> ~ In (us, v) M -> In v (snd s')).
  Proof.
    intros rec HR us vs. induction vs as [|v vs IH]; intros s s' H Hin; simpl in H.
    - inversion H; subst. split; [apply mono_refl|]. split; [auto|]. intros v [].
    - assert (Hin' : incl vs (adjU g us)) by (intros x Hx; apply Hin; now right).
      destruct (memp (us, v) M) eqn:E.
      + destruct (IH _ _ H Hin') as (Hm & Hn & Hc). split; [exact Hm|split; [exact Hn|]].
        intros v' [<-|Hv'] Hnm; auto. apply memp_In in E. contradiction.
      + destruct (memn v (snd s)) eqn:E2.
        * destruct (IH _ _ H Hin') as (Hm & Hn & Hc). split; [exact Hm|split; [exact Hn|]].
          intros v' [<-|Hv'] Hnm; auto. apply memn_In in E2. now apply Hm.
        * destruct (expl_u rec M v (adjV g v) (fst s, snd s ++ [v])) as [s1|] eqn:E1; [|discriminate].
          apply expl_u_spec in E1; auto; [|simpl; apply in_or_app; right; now left].
          destruct E1 as (Hm1 & Hn1). simpl in Hn1.
          destruct (IH _ _ H Hin') as (Hm2 & Hn2 & Hc2).
          assert (Hm0 : mono s (fst s, snd s ++ [v])).
          { repeat split; simpl; try apply incl_refl; [apply incl_appl, incl_refl|].
            intros x Hx. apply in_app_or in Hx. destruct Hx as [|[<-|[]]]; auto.
            right. apply (adjU_range g us); auto. apply Hin. now left. }
          assert (Hm : mono s s') by (eapply mono_trans; [exact Hm0|eapply mono_trans; eauto]).
          split; [exact Hm|]. split.
          -- intros u Hu. destruct (Hn2 u Hu) as [Hu1|]; auto.
             destruct (Hn1 u Hu1) as [|[Hc Hp]]; auto. right.
             destruct Hm2 as (_ & Hi & _). split; [eapply closed_mono; eauto|eapply has_partner_mono; eauto].
          -- intros v' [<-|Hv'] Hnm; auto.
             destruct Hm2 as (_ & Hi & _). apply Hi. destruct Hm1 as (_ & Hi1 & _). apply Hi1.
             simpl. apply in_or_app. right. now left.
  Qed.

  Lemma explore_spec : forall f, rec_spec (explore f g M).
  Proof.
    induction f as [|f IH]; intros us s s' H; simpl in H; [discriminate|].
    destruct (memn us (fst s)) eqn:E.
    - inversion H; subst. apply memn_In in E. split; [apply mono_refl|]. split; auto.
    - apply expl_v_spec in H; auto; [|apply incl_refl]. simpl in H. destruct H as (Hm & Hn & Hc).
      assert (Hm0 : mono s (fst s ++ [us], snd s)).
      { repeat split; simpl; try apply incl_refl; [apply incl_appl, incl_refl|auto]. }
      split; [eapply mono_trans; eauto|]. split.
      + destruct Hm as (Hi & _). apply Hi. simpl. apply in_or_app. right. now left.
      + intros u Hu. destruct (Hn u Hu) as [Hu1|[Hc1 Hp1]]; auto.
        apply in_app_or in Hu1. destruct Hu1 as [Hu1|[<-|[]]]; [now left|].
        right. split; [|now left]. intros v Hv Hnm. now apply Hc.
  Qed.

  (* ---- fuel ---------------------------------------------------------------------- *)
  Lemma NoDup_range_length : forall l n, NoDup l -> (forall x, In x l -> x < n) -> length l <= n.
  Proof.
    intros l n Hn Hr. rewrite <- (seq_length n 0). apply NoDup_incl_length; auto.
    intros x Hx. apply in_seq. specialize (Hr x Hx). lia.
  Qed.

  Definition okvis (s : vis) : Prop := NoDup (fst s) /\ forall u, In u (fst s) -> u < num_u g.

  Definition rec_total (rec : nat -> vis -> option vis) (f : nat) : Prop :=
    forall us s, okvis s -> us < num_u g -> num_u g + 1 <= f + length (fst s) ->
      exists s', rec us s = Some s' /\ okvis s' /\ length (fst s) <= length (fst s').

  Lemma expl_u_total : forall rec f, rec_total rec f -> forall v ws s,
    (forall w, In w ws -> w < num_u g) -> okvis s -> num_u g + 1 <= f + length (fst s) ->
    exists s', expl_u rec M v ws s = Some s' /\ okvis s' /\ length (fst s) <= length (fst s').
  Proof.
    intros rec f HT v ws. induction ws as [|w ws IH]; intros s Hws Hok Hf; simpl.
    - exists s. auto.
    - assert (Hws' : forall w', In w' ws -> w' < num_u g) by (intros; apply Hws; now right).
      destruct (memp (w, v) M).
      + destruct (HT w s Hok (Hws w (or_introl eq_refl)) Hf) as (s1 & -> & Hok1 & Hl1).
        destruct (IH s1 Hws' Hok1) as (s' & E & Hok' & Hl'); [lia|].
        exists s'. repeat split; auto; try apply Hok'. lia.
      + apply IH; auto.
  Qed.

  Lemma expl_v_total : forall rec f, rec_total rec f -> forall us vs s,
    okvis s -> num_u g + 1 <= f + length (fst s) ->
    exists s', expl_v rec g M us vs s = Some s' /\ okvis s' /\ length (fst s) <= length (fst s').
  Proof.
    intros rec f HT us vs. induction vs as [|v vs IH]; intros s Hok Hf; simpl.
    - exists s. auto.
    - destruct (memp (us, v) M); [apply IH; auto|].
      destruct (memn v (snd s)); [apply IH; auto|].
      destruct (expl_u_total rec f HT v (adjV g v) (fst s, snd s ++ [v])) as (s1 & -> & Hok1 & Hl1); auto.
      { intros w Hw. apply (adjV_range g w v W Hw). }
      simpl in Hl1. destruct (IH s1 Hok1) as (s' & E & Hok' & Hl'); [lia|].
      exists s'. repeat split; auto; try apply Hok'. lia.
  Qed.

  Lemma explore_total : forall f, rec_total (explore f g M) f.
  Proof.
    induction f as [|f IH]; intros us s Hok Hus Hf.
    - exfalso. destruct Hok as [Hn Hr]. pose proof (NoDup_range_length _ _ Hn Hr). lia.
    - simpl. destruct (memn us (fst s)) eqn:E.
      + exists s. auto.
      + apply memn_nIn in E. destruct Hok as [Hn Hr].
        destruct (expl_v_total _ f IH us (adjU g us) (fst s ++ [us], snd s)) as (s' & E' & Hok' & Hl').
        * split; simpl.
          -- now apply NoDup_snoc.
          -- intros u Hu. apply in_app_or in Hu. destruct Hu as [|[<-|[]]]; auto.
        * simpl. rewrite app_length. simpl. lia.
        * exists s'. split; auto. split; auto. simpl in Hl'. rewrite app_length in Hl'. simpl in Hl'. lia.
  Qed.
End Explore.

Lemma In_sort_dedup : forall l x, In x (sort_dedup l) <-> In x l.
Proof.
  intros l x. unfold sort_dedup. rewrite filter_In, memn_In, in_seq. split; [tauto|].
  intros H. split; auto. split; [lia|]. simpl.
  assert (Hle : list_max l <= list_max l) by lia. apply list_max_le in Hle.
  rewrite Forall_forall in Hle. specialize (Hle x H). lia.
Qed.

Lemma NoDup_sort_dedup : forall l, NoDup (sort_dedup l).
Proof. intros l. unfold sort_dedup. apply NoDup_filter. apply seq_NoDup. Qed.

Section Koenig.
  Variable g : graph.
  Variable M : list (nat * nat).
  Hypothesis W : wf g.

  Definition kinv (acc : list nat * list nat * trace) : Prop :=
    let '(zu, zv, _) := acc in
    (forall u, In u zu -> closed g M zv u /\ (~ In u (map fst M) \/ has_partner M zv u)) /\
    (forall v, In v zv -> v < num_v g).

  Lemma koenig_fold : forall starts acc,
    (forall r, In r starts -> r < num_u g /\ ~ In r (map fst M)) -> kinv acc ->
    exists acc', fold_left (koenig_step g M) starts (Some acc) = Some acc' /\ kinv acc' /\
      (forall u, In u (fst (fst acc)) \/ In u starts -> In u (fst (fst acc'))).
  Proof.
    induction starts as [|r starts IH]; intros [[zu zv] tr] Hs Hk; simpl.
    - exists (zu, zv, tr). split; [reflexivity|]. split; [exact Hk|]. simpl. tauto.
    - destruct (Hs r (or_introl eq_refl)) as [Hr Hnm].
      destruct (explore_total g M W (explore_fuel g) r ([], [])) as (s & E & _ & _).
      { split; simpl; [constructor|tauto]. } { assumption. } { unfold explore_fuel. simpl. lia. }
      rewrite E. destruct (explore_spec g M W _ _ _ _ E) as (Hm & Hin & Hn). simpl in *.
      destruct (IH (zu ++ fst s, zv ++ snd s, tr ++ [(r, s)])) as (acc' & E' & Hk' & Hi').
      { intros r' Hr'. apply Hs. now right. }
      { destruct Hk as [K1 K2]. split.
        - intros u Hu. apply in_app_or in Hu. destruct Hu as [Hu|Hu].
          + destruct (K1 u Hu) as [Hc Hp]. split.
            * eapply closed_mono; [|exact Hc]. apply incl_appl, incl_refl.
            * destruct Hp; [now left|right]. eapply has_partner_mono; [|eassumption]. apply incl_appl, incl_refl.
          + destruct (Hn u Hu) as [[]|[Hc Hp]]. split.
            * eapply closed_mono; [|exact Hc]. apply incl_appr, incl_refl.
            * destruct Hp as [->|Hp]; [now left|right].
              eapply has_partner_mono; [|eassumption]. apply incl_appr, incl_refl.
        - intros v Hv. apply in_app_or in Hv. destruct Hv as [Hv|Hv]; auto.
          destruct Hm as (_ & _ & Hrng). destruct (Hrng v Hv) as [[]|]; auto. }
      exists acc'. split; [exact E'|]. split; [exact Hk'|].
      intros u Hu. apply Hi'. simpl. destruct Hu as [Hu|[<-|Hu]]; auto.
      + left. apply in_or_app. now left.
      + left. apply in_or_app. now right.
  Qed.

  Lemma unmatched_u_spec : forall r, In r (unmatched_u g M) <-> r < num_u g /\ ~ In r (map fst M).
  Proof.
    intros r. unfold unmatched_u. rewrite filter_In, in_seq, negb_true_iff, memn_nIn. split.
    - intros [[_ H] H']. split; auto.
    - intros [H H']. split; auto. lia.
  Qed.

  Lemma koenig_visit_spec : exists zu zv tr, koenig_visit g M = Some (zu, zv, tr) /\ kinv (zu, zv, tr) /\
    (forall u, u < num_u g -> ~ In u (map fst M) -> In u zu).
  Proof.
    destruct (koenig_fold (unmatched_u g M) ([], [], [])) as ([[zu zv] tr] & E & Hk & Hi).
    - intros r Hr. now apply unmatched_u_spec.
    - split; simpl; intros ? [].
    - exists zu, zv, tr. split; [exact E|]. split; [exact Hk|].
      intros u Hu Hn. apply Hi. right. now apply unmatched_u_spec.
  Qed.

  Theorem koenig_total : exists cu cv, koenig g M = Some (cu, cv).
  Proof.
    destruct koenig_visit_spec as (zu & zv & tr & E & _). unfold koenig. rewrite E. eauto.
  Qed.

  Theorem koenig_range : forall cu cv, koenig g M = Some (cu, cv) ->
    (forall u, In u cu -> u < num_u g) /\ (forall v, In v cv -> v < num_v g) /\ NoDup cu /\ NoDup cv.
  Proof.
    intros cu cv H. destruct koenig_visit_spec as (zu & zv & tr & E & [K1 K2] & _).
    unfold koenig in H. rewrite E in H. inversion H; subst. split; [|split; [|split]].
    - intros u Hu. apply filter_In in Hu. destruct Hu as [Hu _]. apply in_seq in Hu. lia.
    - intros v Hv. rewrite In_sort_dedup in Hv. auto.
    - apply NoDup_filter, seq_NoDup.
    - apply NoDup_sort_dedup.
  Qed.

  (* the matching is only required to use every U vertex at most once *)
  Theorem koenig_cover : (forall u v v', In (u, v) M -> In (u, v') M -> v = v') ->
    forall cu cv, koenig g M = Some (cu, cv) ->
    forall u v, In v (adjU g u) -> In u cu \/ In v cv.
  Proof.
    intros HF cu cv H u v He. destruct koenig_visit_spec as (zu & zv & tr & E & [K1 K2] & _).
    unfold koenig in H. rewrite E in H. inversion H; subst. clear H.
    destruct (adjU_range g u v W He) as [Hu Hv].
    destruct (memn u zu) eqn:Ez.
    - right. rewrite In_sort_dedup. apply memn_In in Ez. destruct (K1 u Ez) as [Hc Hp].
      destruct (memp (u, v) M) eqn:Em.
      + apply memp_In in Em. destruct Hp as [Hp|[v' [Hv' Hm']]].
        * exfalso. apply Hp. apply in_map_iff. exists (u, v). auto.
        * now rewrite (HF u v v' Em Hm').
      + apply memp_nIn in Em. now apply Hc.
    - left. apply filter_In. split; [apply in_seq; lia|]. now rewrite Ez.
  Qed.
End Koenig.

(* ================================================================================== *)
(* 4. Hopcroft-Karp: state invariants, DFS augmentation                                *)
(* ================================================================================== *)
Lemma didx_inj : forall x y, didx x = didx y -> x = y.
Proof. intros [x|] [y|] H; simpl in H; congruence. Qed.

Lemma dset_length : forall d x k, length (dset d x k) = length d.
Proof. intros. unfold dset. apply upd_length. Qed.

Lemma dget_dset_same : forall d x k, didx x < length d -> dget (dset d x k) x = k.
Proof. intros. unfold dget, dset. now apply nth_upd_same. Qed.

Lemma dget_dset_other : forall d x y k, x <> y -> dget (dset d x k) y = dget d y.
Proof.
  intros. unfold dget, dset. apply nth_upd_other. intro E. apply H. symmetry. now apply didx_inj.
Qed.

Lemma dget_dset_cases : forall d x y k,
  (x = y /\ dget (dset d x k) y = k) \/ dget (dset d x k) y = dget d y.
Proof.
  intros d x y k. destruct (Nat.eq_dec (didx x) (didx y)) as [E|E].
  - apply didx_inj in E. subst. destruct (Nat.lt_ge_cases (didx y) (length d)).
    + left. split; auto. now apply dget_dset_same.
    + right. unfold dset. now rewrite nth_upd_oob.
  - right. apply dget_dset_other. congruence.
Qed.

Lemma mget_upd_same : forall m i x, i < length m -> mget (upd i x m) i = x.
Proof. intros. unfold mget. now apply nth_upd_same. Qed.

Lemma mget_upd_other : forall m i j x, j <> i -> mget (upd i x m) j = mget m j.
Proof. intros. unfold mget. now apply nth_upd_other. Qed.

Lemma mget_Some_lt : forall m i x, mget m i = Some x -> i < length m.
Proof.
  intros m i x H. destruct (Nat.lt_ge_cases i (length m)); auto.
  unfold mget in H. rewrite nth_overflow in H; [discriminate|lia].
Qed.

Section HK.
  Variable g : graph.
  Hypothesis W : wf g.

  Definition SW (st : hk) : Prop :=
    length (mu st) = num_u g /\ length (mv st) = num_v g /\ length (dist st) = num_u g + 1.
  (* matched_pairs_u determines the matching; matched_pairs_v mirrors it *)
  Definition invA (st : hk) : Prop :=
    forall u v, mget (mu st) u = Some v -> mget (mv st) v = Some u /\ In v (adjU g u).
  Definition invB (st : hk) : Prop :=
    forall u v, mget (mv st) v = Some u -> mget (mu st) u = Some v.
  Definition DB (st : hk) : Prop := forall x, dget (dist st) x <= num_u g + 1.
  (* vertices of distance below d are not touched *)
  Definition FR (d : nat) (st st' : hk) : Prop :=
    (forall y, dget (dist st) (Some y) < d ->
       mget (mu st') y = mget (mu st) y /\ dget (dist st') (Some y) = dget (dist st) (Some y)) /\
    dget (dist st') None = dget (dist st) None.
  (* consistent except that V vertex h (the old partner of the vertex being re-matched) is dangling *)
  Definition K (st : hk) (h : option nat) : Prop :=
    invA st /\
    (forall u v, mget (mv st) v = Some u -> Some v <> h -> mget (mu st) u = Some v) /\
    (forall y v, h = Some v -> mget (mu st) y <> Some v).

  Definition dpost (x : option nat) (st : hk) (r : bool) (st' : hk) : Prop :=
    SW st' /\ DB st' /\ FR (dget (dist st) x) st st' /\
    (forall y, mget (mu st) y <> None -> mget (mu st') y <> None) /\
    (r = false -> mu st' = mu st /\ mv st' = mv st) /\
    (r = true -> match x with
                 | None => st' = st
                 | Some u => K st' (mget (mu st) u) /\ mget (mu st') u <> None
                 end).

  Definition dpre (x : option nat) (st : hk) (f : nat) : Prop :=
    SW st /\ invA st /\ invB st /\ DB st /\
    match x with
    | None => 1 <= f
    | Some u => u < num_u g /\ num_u g + 3 <= f + dget (dist st) (Some u)
    end.

  Lemma FR_refl : forall d st, FR d st st.
  Proof. intros d st. split; auto. Qed.

  Lemma FR_weaken : forall d d' st st', d' <= d -> FR d st st' -> FR d' st st'.
  Proof. intros d d' st st' Hle [H1 H2]. split; auto. intros y Hy. apply H1. lia. Qed.

  Lemma FR_trans : forall d st1 st2 st3, FR d st1 st2 -> FR d st2 st3 -> FR d st1 st3.
  Proof.
    intros d st1 st2 st3 [A1 A2] [B1 B2]. split; [|congruence].
    intros y Hy. destruct (A1 y Hy) as [E1 E2]. rewrite <- E2 in Hy. destruct (B1 y Hy) as [E3 E4].
    split; congruence.
  Qed.

  Lemma K_None : forall st, invA st -> invB st -> K st None.
  Proof. intros st HA HB. split; [exact HA|]. split; [|discriminate]. intros u v H _. now apply HB. Qed.

  Lemma K_None_inv : forall st, K st None -> invA st /\ invB st.
  Proof. intros st (HA & HB & _). split; auto. intros u v H. apply HB; auto. discriminate. Qed.

  (* `matched_pairs_v[v] = u; matched_pairs_u[u] = v` after the recursive call succeeded *)
  Lemma K_assign : forall st u v, SW st -> K st (Some v) -> In v (adjU g u) ->
    K {| mu := upd u (Some v) (mu st); mv := upd v (Some u) (mv st); dist := dist st |} (mget (mu st) u).
  Proof.
    intros st u v (L1 & L2 & L3) (HA & HB & HC) He.
    destruct (adjU_range g u v W He) as [Hu Hv].
    assert (Hu' : u < length (mu st)) by lia. assert (Hv' : v < length (mv st)) by lia.
    unfold K, invA. cbn [mu mv dist]. split; [|split].
    - intros y v' H. destruct (Nat.eq_dec y u) as [->|Hne].
      + rewrite mget_upd_same in H by assumption. inversion H; subst. split; [|assumption].
        now apply mget_upd_same.
      + rewrite mget_upd_other in H by assumption. destruct (HA y v' H) as [H1 H2]. split; [|assumption].
        rewrite mget_upd_other; auto. intros ->. exact (HC y v eq_refl H).
    - intros y v' H Hh. destruct (Nat.eq_dec v' v) as [->|Hne].
      + rewrite mget_upd_same in H by assumption. inversion H; subst. now apply mget_upd_same.
      + rewrite mget_upd_other in H by assumption.
        assert (H1 : mget (mu st) y = Some v') by (apply HB; auto; congruence).
        destruct (Nat.eq_dec y u) as [->|Hne'].
        * congruence.
        * now rewrite mget_upd_other.
    - intros y v0 Hh. destruct (Nat.eq_dec y u) as [->|Hne].
      + rewrite mget_upd_same by assumption. intros E. inversion E; subst.
        eapply (HC u); [reflexivity|]. congruence.
      + rewrite mget_upd_other by assumption. intros E.
        assert (Hh' : mget (mu st) u = Some v0) by congruence.
        destruct (HA _ _ E) as [E1 _]. destruct (HA _ _ Hh') as [E2 _]. congruence.
  Qed.

  Lemma dpost_compose : forall u w st st1 r st',
    dget (dist st) w = dget (dist st) (Some u) + 1 ->
    dpost w st false st1 -> dpost (Some u) st1 r st' -> dpost (Some u) st r st'.
  Proof.
    intros u w st st1 r st' Hd (S1 & D1 & F1 & M1 & E1 & _) (S2 & D2 & F2 & M2 & E2 & T2).
    destruct (E1 eq_refl) as [Emu Emv]. rewrite Hd in F1.
    assert (Hdu : dget (dist st1) (Some u) = dget (dist st) (Some u)).
    { destruct F1 as [F1 _]. apply F1. lia. }
    rewrite Hdu in F2.
    split; [exact S2|]. split; [exact D2|]. split.
    { eapply FR_trans; [|exact F2]. eapply FR_weaken; [|exact F1]. lia. }
    split; [auto|]. split.
    - intros Hr. destruct (E2 Hr). split; congruence.
    - intros Hr. specialize (T2 Hr). now rewrite Emu in T2.
  Qed.

  Lemma dfs_loop_main : forall f,
    (forall x st, dpre x st f -> exists r st', dfs f g x st = Some (r, st') /\ dpost x st r st') ->
    forall u vs st, incl vs (adjU g u) -> dpre (Some u) st (S f) ->
      exists r st', dfs_loop (dfs f g) (num_u g + 1) u vs st = Some (r, st') /\ dpost (Some u) st r st'.
  Proof.
    intros f IHf u vs. induction vs as [|v vs IH]; intros st Hin (HS & HA & HB & HD & Hu & Hf); simpl.
    - eexists. eexists. split; [reflexivity|].
      destruct HS as (L1 & L2 & L3).
      split; [unfold SW; cbn [mu mv dist]; rewrite ?upd_length, ?dset_length; auto|]. split.
      { intros x. simpl. destruct (dget_dset_cases (dist st) (Some u) x (num_u g + 1)) as [[_ ->]| ->]; auto. }
      split.
      { split; simpl.
        - intros y Hy. split; auto. apply dget_dset_other. intros E. inversion E; subst. lia.
        - apply dget_dset_other. discriminate. }
      split; [auto|]. split; [auto|discriminate].
    - assert (Hin' : incl vs (adjU g u)) by (intros x Hx; apply Hin; now right).
      assert (Hev : In v (adjU g u)) by (apply Hin; now left).
      destruct (Nat.eqb_spec (dget (dist st) (mget (mv st) v)) (dget (dist st) (Some u) + 1)) as [Hd|Hd].
      + destruct (IHf (mget (mv st) v) st) as (r1 & st1 & E1 & P1).
        { split; [exact HS|]. split; [exact HA|]. split; [exact HB|]. split; [exact HD|].
          destruct (mget (mv st) v) as [x|] eqn:Ew.
          - split; [|lia]. apply HB in Ew. apply mget_Some_lt in Ew. destruct HS as (L1 & _). lia.
          - specialize (HD (Some u)). lia. }
        rewrite E1. destruct r1.
        * (* the recursive call found an augmenting path *)
          eexists. eexists. split; [reflexivity|].
          destruct P1 as (S1 & D1 & F1 & M1 & _ & T1). specialize (T1 eq_refl). rewrite Hd in F1.
          assert (Hk : K st1 (Some v) /\ SW st1).
          { destruct (mget (mv st) v) as [x|] eqn:Ew.
            - destruct T1 as [T1 _]. apply HB in Ew. rewrite Ew in T1. auto.
            - subst st1. split; [|exact HS]. split; [exact HA|]. split.
              + intros y v' H _. now apply HB.
              + intros y v' E H. inversion E; subst. apply HA in H. destruct H as [H _]. congruence. }
          destruct Hk as [Hk _].
          assert (Emu : mget (mu st1) u = mget (mu st) u) by (apply F1; lia).
          pose proof (K_assign st1 u v S1 Hk Hev) as Hk'. rewrite Emu in Hk'.
          destruct S1 as (L1 & L2 & L3).
          split; [unfold SW; cbn [mu mv dist]; rewrite ?upd_length, ?dset_length; auto|]. split; [exact D1|]. split.
          { destruct F1 as [F1 F1']. split; simpl; [|exact F1'].
            intros y Hy. destruct (F1 y) as [G1 G2]; [lia|]. split; [|exact G2].
            rewrite mget_upd_other; auto. intros ->. lia. }
          split.
          { intros y Hy. simpl. destruct (Nat.eq_dec y u) as [->|Hne].
            - rewrite mget_upd_same by lia. discriminate.
            - rewrite mget_upd_other by assumption. auto. }
          split; [discriminate|]. intros _. split; [exact Hk'|]. simpl.
          rewrite mget_upd_same by lia. discriminate.
        * (* the recursive call failed: next neighbour *)
          pose proof P1 as (S1 & D1 & F1 & M1 & E1' & _). destruct (E1' eq_refl) as [Emu Emv].
          rewrite Hd in F1.
          assert (Hdu : dget (dist st1) (Some u) = dget (dist st) (Some u)) by (apply F1; lia).
          destruct (IH st1 Hin') as (r & st' & E' & P').
          { split; [exact S1|]. split; [unfold invA; rewrite Emu, Emv; exact HA|].
            split; [unfold invB; rewrite Emu, Emv; exact HB|]. split; [exact D1|]. split; [exact Hu|]. lia. }
          exists r, st'. split; [exact E'|]. eapply dpost_compose; eauto.
      + apply IH; auto. split; [exact HS|]. split; [exact HA|]. split; [exact HB|]. split; [exact HD|]. split; assumption.
  Qed.

  Theorem dfs_main : forall f x st, dpre x st f ->
    exists r st', dfs f g x st = Some (r, st') /\ dpost x st r st'.
  Proof.
    induction f as [|f IH]; intros x st Hp.
    - exfalso. destruct Hp as (_ & _ & _ & HD & Hx). destruct x as [u|]; [|lia].
      specialize (HD (Some u)). lia.
    - destruct x as [u|]; simpl.
      + apply dfs_loop_main; auto. apply incl_refl.
      + destruct Hp as (HS & HA & HB & HD & _). exists true, st. split; [reflexivity|].
        split; [exact HS|]. split; [exact HD|]. split; [apply FR_refl|]. split; [auto|].
        split; [discriminate|reflexivity].
  Qed.
End HK.

(* ================================================================================== *)
(* 5. BFS layering                                                                     *)
(* ================================================================================== *)
(* layered path x -> y: every step u -v- matched_pairs_v[v] raises dist by exactly one *)
Inductive lpath (g : graph) (mvl : list (option nat)) (d : list nat) : option nat -> option nat -> Prop :=
| lpath_refl : forall x, lpath g mvl d x x
| lpath_step : forall u v y, In v (adjU g u) -> dget d (mget mvl v) = dget d (Some u) + 1 ->
    lpath g mvl d (mget mvl v) y -> lpath g mvl d (Some u) y.

Lemma lpath_le : forall g mvl d x y, lpath g mvl d x y -> dget d x <= dget d y.
Proof. intros g mvl d x y H. induction H; lia. Qed.

Lemma lpath_snoc : forall g mvl d x u v, lpath g mvl d x (Some u) -> In v (adjU g u) ->
  dget d (mget mvl v) = dget d (Some u) + 1 -> lpath g mvl d x (mget mvl v).
Proof.
  intros g mvl d x u v H. remember (Some u) as y eqn:E. revert u E.
  induction H; intros u0 E Hv Hd; subst.
  - eapply lpath_step; eauto. apply lpath_refl.
  - eapply lpath_step; eauto.
Qed.

Lemma lpath_ext : forall g mvl d d' x y,
  (forall z, dget d z <= dget d y -> dget d' z = dget d z) -> lpath g mvl d x y -> lpath g mvl d' x y.
Proof.
  intros g mvl d d' x y He H. induction H.
  - apply lpath_refl.
  - pose proof (lpath_le _ _ _ _ _ H1) as Hle.
    eapply lpath_step; eauto. rewrite !He; auto; lia.
Qed.

Lemma count_occ_upd_dec : forall (d : list nat) i k a, i < length d -> nth i d 0 = a -> k <> a ->
  S (count_occ Nat.eq_dec (upd i k d) a) = count_occ Nat.eq_dec d a.
Proof.
  induction d as [|h t IH]; intros [|i] k a Hi Hn Hk; simpl in *; try lia.
  - subst. destruct (Nat.eq_dec k a); [contradiction|]. destruct (Nat.eq_dec a a); [reflexivity|contradiction].
  - destruct (Nat.eq_dec h a); rewrite <- (IH i k a); auto; lia.
Qed.

Section BFS.
  Variable g : graph.
  Hypothesis W : wf g.
  Variables mul mvl : list (option nat).
  Hypothesis Lmu : length mul = num_u g.
  Hypothesis MVR : forall v x, mget mvl v = Some x -> x < num_u g.

  Definition valid (x : option nat) : Prop := match x with None => True | Some u => u < num_u g end.
  Definition fin (d : list nat) (x : option nat) : Prop := dget d x < num_u g + 1.
  Definition ext (d d' : list nat) : Prop := forall y, fin d y -> dget d' y = dget d y.
  Definition bmeasure (d : list nat) (q : list (option nat)) : nat :=
    length q + count_occ Nat.eq_dec d (num_u g + 1).

  Record Jw (d : list nat) (q : list (option nat)) : Prop := {
    j_len : length d = num_u g + 1;
    j_db : forall x, dget d x <= num_u g + 1;
    j_q : forall x, In x q -> valid x /\ fin d x;
    j_chain : forall x, valid x -> fin d x ->
       exists l, NoDup l /\ length l = dget d x /\ forall y, In y l -> y < num_u g /\ dget d (Some y) < dget d x;
    j_back : forall x, valid x -> fin d x ->
       exists u0, u0 < num_u g /\ is_free mul u0 = true /\ dget d (Some u0) = 0 /\ lpath g mvl d (Some u0) x;
    j_free : forall u, u < num_u g -> is_free mul u = true -> dget d (Some u) = 0
  }.

  Lemma chain_bound : forall d q u, Jw d q -> u < num_u g -> fin d (Some u) -> dget d (Some u) + 1 <= num_u g.
  Proof.
    intros d q u HJ Hu Hf. destruct (j_chain d q HJ (Some u) Hu Hf) as (l & Hn & Hl & Hy).
    rewrite <- Hl. replace (length l + 1) with (length (l ++ [u])) by (rewrite app_length; simpl; lia).
    apply NoDup_range_length.
    - apply NoDup_snoc; auto. intros Hin. apply Hy in Hin. lia.
    - intros y Hin. apply in_app_or in Hin. destruct Hin as [Hin|[<-|[]]]; auto. now apply Hy.
  Qed.

  Lemma valid_mvl : forall v, valid (mget mvl v).
  Proof. intros v. destruct (mget mvl v) eqn:E; simpl; auto. eapply MVR; eauto. Qed.

  Lemma valid_idx : forall (d : list nat) x, length d = num_u g + 1 -> valid x -> didx x < length d.
  Proof. intros d [u|] Hl Hv; simpl in *; lia. Qed.

  Lemma relax_step : forall u d q v, Jw d q -> u < num_u g -> fin d (Some u) -> In v (adjU g u) ->
    let dq' := bfs_relax (num_u g + 1) mvl (Some u) (d, q) v in
    Jw (fst dq') (snd dq') /\ ext d (fst dq') /\ incl q (snd dq') /\ fin (fst dq') (mget mvl v) /\
    (forall y, fin (fst dq') y -> fin d y \/ In y (snd dq')) /\
    bmeasure (fst dq') (snd dq') = bmeasure d q.
  Proof.
    intros u d q v HJ Hu Hfu Hv. unfold bfs_relax. cbn [fst snd].
    set (w := mget mvl v). destruct (Nat.eqb_spec (dget d w) (num_u g + 1)) as [Hinf|Hfin]; cbn [fst snd].
    2:{ split; [exact HJ|]. split; [intros y Hy; reflexivity|]. split; [apply incl_refl|].
        split; [pose proof (j_db d q HJ w); unfold fin; lia|]. split; [auto|reflexivity]. }
    pose proof (chain_bound d q u HJ Hu Hfu) as Hcb.
    pose proof (valid_mvl v) as Hvw. fold w in Hvw.
    pose proof (valid_idx d w (j_len d q HJ) Hvw) as Hiw.
    set (k := dget d (Some u) + 1). set (d' := dset d w k).
    assert (Hsame : dget d' w = k) by (apply dget_dset_same; exact Hiw).
    assert (Hoth : forall y, fin d y -> dget d' y = dget d y).
    { intros y Hy. apply dget_dset_other. intros <-. unfold fin in Hy. lia. }
    assert (Huw : Some u <> w) by (intros <-; unfold fin in Hfu; lia).
    split; [|split; [exact Hoth|split; [apply incl_appl, incl_refl|split]]].
    - constructor.
      + unfold d'. rewrite dset_length. apply (j_len d q HJ).
      + intros x. unfold d'. destruct (dget_dset_cases d w x k) as [[_ ->]| ->]; [unfold k; lia|apply (j_db d q HJ)].
      + intros x Hx. apply in_app_or in Hx. destruct Hx as [Hx|[<-|[]]].
        * destruct (j_q d q HJ x Hx) as [V F]. split; auto. unfold fin. rewrite Hoth; auto.
        * split; auto. unfold fin. rewrite Hsame. unfold k. lia.
      + intros x Vx Fx. destruct (dget_dset_cases d w x k) as [[<- E]|E].
        * destruct (j_chain d q HJ (Some u) Hu Hfu) as (l & Hn & Hl & Hy).
          exists (l ++ [u]). split; [|split].
          -- apply NoDup_snoc; auto. intros Hin. apply Hy in Hin. lia.
          -- rewrite app_length. simpl. fold d'. rewrite Hsame. unfold k. lia.
          -- intros y Hin. fold d'. rewrite Hsame. apply in_app_or in Hin. destruct Hin as [Hin|[<-|[]]].
             ++ destruct (Hy y Hin) as [Hy1 Hy2]. split; auto. rewrite Hoth; [unfold k; lia|unfold fin in *; lia].
             ++ split; auto. rewrite Hoth; auto. unfold k. lia.
        * fold d' in E. assert (Fx' : fin d x) by (unfold fin in *; lia).
          destruct (j_chain d q HJ x Vx Fx') as (l & Hn & Hl & Hy).
          exists l. split; auto. split; [congruence|]. intros y Hin. destruct (Hy y Hin) as [Hy1 Hy2].
          split; auto. rewrite E. rewrite Hoth; auto. unfold fin in *. lia.
      + intros x Vx Fx. destruct (dget_dset_cases d w x k) as [[<- E]|E].
        * destruct (j_back d q HJ (Some u) Hu Hfu) as (u0 & H1 & H2 & H3 & H4).
          exists u0. split; auto. split; auto. split.
          -- rewrite Hoth; auto. unfold fin. lia.
          -- unfold w. apply (lpath_snoc g mvl _ _ u v); auto.
             ++ apply (lpath_ext g mvl d); auto. intros z Hz. apply Hoth. unfold fin in *. lia.
             ++ fold w. rewrite Hsame. rewrite Hoth; auto.
        * fold d' in E. assert (Fx' : fin d x) by (unfold fin in *; lia).
          destruct (j_back d q HJ x Vx Fx') as (u0 & H1 & H2 & H3 & H4).
          exists u0. split; auto. split; auto. split.
          -- rewrite Hoth; auto. unfold fin. lia.
          -- apply (lpath_ext g mvl d); auto. intros z Hz. apply Hoth. unfold fin in *. lia.
      + intros u' Hu' Hf'. rewrite Hoth; [apply (j_free d q HJ); auto|].
        unfold fin. rewrite (j_free d q HJ); auto. lia.
    - fold w. unfold fin. rewrite Hsame. unfold k. lia.
    - split.
      + intros y Fy. destruct (dget_dset_cases d w y k) as [[<- E]|E].
        * right. apply in_or_app. right. now left.
        * left. fold d' in E. unfold fin in *. lia.
      + unfold bmeasure. rewrite app_length. simpl. unfold d', dset.
        rewrite <- (count_occ_upd_dec d (didx w) k (num_u g + 1)); auto; [lia|unfold k; lia].
  Qed.

  Lemma relax_fold : forall u vs d q, Jw d q -> u < num_u g -> fin d (Some u) -> incl vs (adjU g u) ->
    let dq' := fold_left (bfs_relax (num_u g + 1) mvl (Some u)) vs (d, q) in
    Jw (fst dq') (snd dq') /\ ext d (fst dq') /\ incl q (snd dq') /\
    (forall v, In v vs -> fin (fst dq') (mget mvl v)) /\
    (forall y, fin (fst dq') y -> fin d y \/ In y (snd dq')) /\
    bmeasure (fst dq') (snd dq') = bmeasure d q.
  Proof.
    intros u vs. induction vs as [|v vs IH]; intros d q HJ Hu Hfu Hin; cbn [fold_left].
    - cbn [fst snd]. split; [exact HJ|]. split; [intros y Hy; reflexivity|]. split; [apply incl_refl|].
      split; [intros v []|]. split; [auto|reflexivity].
    - assert (Hv : In v (adjU g u)) by (apply Hin; now left).
      assert (Hin' : incl vs (adjU g u)) by (intros x Hx; apply Hin; now right).
      pose proof (relax_step u d q v HJ Hu Hfu Hv) as R. cbv zeta in R.
      destruct (bfs_relax (num_u g + 1) mvl (Some u) (d, q) v) as [d1 q1]. cbn [fst snd] in R.
      destruct R as (J1 & E1 & I1 & F1 & N1 & M1).
      assert (Hfu1 : fin d1 (Some u)) by (unfold fin; rewrite E1; auto).
      specialize (IH d1 q1 J1 Hu Hfu1 Hin'). cbv zeta in IH.
      destruct (fold_left (bfs_relax (num_u g + 1) mvl (Some u)) vs (d1, q1)) as [d2 q2]. cbn [fst snd] in *.
      destruct IH as (J2 & E2 & I2 & F2 & N2 & M2).
      split; [exact J2|]. split.
      { intros y Hy. rewrite E2; [apply E1; auto|]. unfold fin. rewrite E1; auto. }
      split; [eapply incl_tran; eauto|]. split.
      { intros v' [<-|Hv']; auto. unfold fin. rewrite E2; auto. }
      split; [|congruence].
      intros y Fy. destruct (N2 y Fy) as [Fy1|]; auto. destruct (N1 y Fy1); auto.
  Qed.

  Record Jfull (d : list nat) (q : list (option nat)) : Prop := {
    jf_w : Jw d q;
    jf_done : forall u, u < num_u g -> fin d (Some u) ->
       In (Some u) q \/ dget d None <= dget d (Some u) \/ (forall v, In v (adjU g u) -> fin d (mget mvl v))
  }.

  Lemma Jw_tail : forall d x q, Jw d (x :: q) -> Jw d q.
  Proof.
    intros d x q HJ. constructor; try apply HJ. intros y Hy. apply (j_q _ _ HJ). now right.
  Qed.

  Lemma bfs_loop_main : forall f d q, Jfull d q -> bmeasure d q <= f ->
    exists d', bfs_loop f g mvl d q = Some d' /\ Jfull d' [].
  Proof.
    induction f as [|f IH]; intros d q HJ Hm.
    - destruct q as [|x q]; simpl; [eauto|]. unfold bmeasure in Hm. simpl in Hm. lia.
    - destruct q as [|x q]; [simpl; eauto|]. cbn [bfs_loop].
      destruct HJ as [HJ HD].
      assert (Hm' : bmeasure d q <= f) by (unfold bmeasure in *; simpl in Hm; lia).
      assert (Hskip : (forall u, x = Some u -> dget d None <= dget d (Some u)) ->
                exists d', bfs_loop f g mvl d q = Some d' /\ Jfull d' []).
      { intros Hx. apply IH; auto. constructor; [eapply Jw_tail; eauto|].
        intros u Hu Fu. destruct (HD u Hu Fu) as [[E|Hin]|H]; auto. }
      destruct (Nat.ltb_spec (dget d x) (dget d None)) as [Hlt|Hge].
      + destruct x as [u|]; [|lia].
        destruct (j_q _ _ HJ (Some u) (or_introl eq_refl)) as [Vu Fu]. simpl in Vu.
        pose proof (relax_fold u (adjU g u) d q (Jw_tail _ _ _ HJ) Vu Fu (incl_refl _)) as R. cbv zeta in R.
        destruct (fold_left (bfs_relax (num_u g + 1) mvl (Some u)) (adjU g u) (d, q)) as [d1 q1].
        cbn [fst snd] in *. destruct R as (J1 & E1 & I1 & F1 & N1 & M1).
        apply IH; [|lia]. constructor; [exact J1|].
        intros y Hy Fy. destruct (N1 _ Fy) as [Fy0|]; auto.
        destruct (HD y Hy Fy0) as [[E|Hin]|[Hle|Hall]].
        * inversion E; subst. right. right. exact F1.
        * left. auto.
        * right. left. rewrite (E1 _ Fy0).
          destruct (Nat.lt_ge_cases (dget d None) (num_u g + 1)) as [Fn|Fn].
          -- rewrite (E1 None Fn). exact Hle.
          -- unfold fin in Fy0. lia.
        * right. right. intros v Hv. unfold fin. rewrite E1; apply Hall; auto.
      + apply Hskip. intros u ->. exact Hge.
  Qed.

  (* ---- initialisation --------------------------------------------------------------- *)
  Lemma dget_init_nil : dget (fst (bfs_init (num_u g) mul)) None = num_u g + 1.
  Proof. reflexivity. Qed.

  Lemma dget_init_some : forall u, u < num_u g ->
    dget (fst (bfs_init (num_u g) mul)) (Some u) = if is_free mul u then 0 else num_u g + 1.
  Proof.
    intros u Hu. unfold bfs_init, dget. cbn [fst didx nth].
    set (F := fun u => if is_free mul u then 0 else num_u g + 1).
    rewrite (nth_indep _ 0 (F 0)) by (rewrite map_length, seq_length; exact Hu).
    rewrite (map_nth F). rewrite seq_nth by exact Hu. reflexivity.
  Qed.

  Lemma dget_init_oob : forall u, num_u g <= u -> dget (fst (bfs_init (num_u g) mul)) (Some u) = 0.
  Proof.
    intros u Hu. unfold bfs_init, dget. cbn [fst didx nth]. apply nth_overflow.
    rewrite map_length, seq_length. exact Hu.
  Qed.

  Lemma bfs_init_J : let dq := bfs_init (num_u g) mul in
    Jfull (fst dq) (snd dq) /\ bmeasure (fst dq) (snd dq) <= bfs_fuel g.
  Proof.
    cbv zeta. split.
    - assert (HQ : forall x, In x (snd (bfs_init (num_u g) mul)) ->
                exists u, x = Some u /\ u < num_u g /\ is_free mul u = true).
      { intros x Hx. unfold bfs_init in Hx. cbn [snd] in Hx. apply in_map_iff in Hx.
        destruct Hx as [u [<- Hu]]. apply filter_In in Hu. destruct Hu as [Hu Hf]. apply in_seq in Hu.
        exists u. repeat split; auto. lia. }
      assert (HF : forall x, valid x -> fin (fst (bfs_init (num_u g) mul)) x ->
                exists u, x = Some u /\ u < num_u g /\ is_free mul u = true /\
                          dget (fst (bfs_init (num_u g) mul)) x = 0).
      { intros [u|] Vx Fx; unfold fin in Fx.
        - simpl in Vx. rewrite dget_init_some in * by assumption. exists u.
          destruct (is_free mul u); [auto|lia].
        - rewrite dget_init_nil in Fx. lia. }
      constructor; [constructor|].
      + unfold bfs_init. cbn [fst]. simpl. rewrite map_length, seq_length. lia.
      + intros [u|]; [|rewrite dget_init_nil; lia].
        destruct (Nat.lt_ge_cases u (num_u g)).
        * rewrite dget_init_some by assumption. destruct (is_free mul u); lia.
        * rewrite dget_init_oob by assumption. lia.
      + intros x Hx. destruct (HQ x Hx) as (u & -> & Hu & Hf). split; [exact Hu|].
        unfold fin. rewrite dget_init_some by assumption. rewrite Hf. lia.
      + intros x Vx Fx. destruct (HF x Vx Fx) as (u & -> & Hu & Hf & E). exists []. rewrite E.
        split; [constructor|]. split; [reflexivity|]. intros y [].
      + intros x Vx Fx. destruct (HF x Vx Fx) as (u & -> & Hu & Hf & E). exists u.
        split; auto. split; auto. split; auto. apply lpath_refl.
      + intros u Hu Hf. rewrite dget_init_some by assumption. now rewrite Hf.
      + intros u Hu Fu. left. destruct (HF (Some u) Hu Fu) as (u' & E & _ & Hf & _). inversion E; subst u'.
        unfold bfs_init. cbn [snd]. apply in_map. apply filter_In. split; auto. apply in_seq. lia.
    - unfold bmeasure, bfs_fuel, bfs_init. cbn [fst snd]. rewrite map_length.
      pose proof (filter_split_length _ (is_free mul) (seq 0 (num_u g))) as H1. rewrite seq_length in H1.
      pose proof (count_occ_bound Nat.eq_dec (num_u g + 1)
                    ((num_u g + 1) :: map (fun u => if is_free mul u then 0 else num_u g + 1) (seq 0 (num_u g)))) as H2.
      simpl length in H2. rewrite map_length, seq_length in H2. lia.
  Qed.

  Theorem bfs_loop_init : exists d',
    bfs_loop (bfs_fuel g) g mvl (fst (bfs_init (num_u g) mul)) (snd (bfs_init (num_u g) mul)) = Some d' /\
    Jfull d' [].
  Proof. destruct bfs_init_J as [HJ Hm]. now apply bfs_loop_main. Qed.
End BFS.

(* ================================================================================== *)
(* 6. a failed DFS proves that no layered path to NIL exists                           *)
(* ================================================================================== *)
Section LP.
  Variable g : graph.

  Definition lp (st : hk) (x : option nat) : Prop := lpath g (mv st) (dist st) x None.

  Lemma lp_bound : forall st x, lp st x -> dget (dist st) x <= dget (dist st) None.
  Proof. intros st x H. now apply lpath_le in H. Qed.

  (* st' = st with some vertices that have no layered path marked as visited (dist = inf) *)
  Definition RR (st st' : hk) : Prop :=
    mv st' = mv st /\ dget (dist st') None = dget (dist st) None /\
    forall y, dget (dist st') (Some y) = dget (dist st) (Some y) \/
              (dget (dist st') (Some y) = num_u g + 1 /\ ~ lp st (Some y)).

  Lemma RR_refl : forall st, RR st st.
  Proof. intros st. split; auto. Qed.

  Lemma RR_same : forall st st' x, RR st st' -> lp st x -> dget (dist st') x = dget (dist st) x.
  Proof.
    intros st st' [y|] (E1 & E2 & E3) H; auto. destruct (E3 y) as [|[_ Hn]]; auto. contradiction.
  Qed.

  Lemma RR_lp_fwd : forall st st' x, RR st st' -> lp st x -> lp st' x.
  Proof.
    intros st st' x HR H. unfold lp in *. remember None as t eqn:Et. induction H.
    - apply lpath_refl.
    - subst y. specialize (IHlpath eq_refl).
      assert (Hu : lp st (Some u)) by (eapply lpath_step; eauto).
      pose proof (RR_same st st' _ HR H1) as S1. pose proof (RR_same st st' _ HR Hu) as S2.
      destruct HR as (E1 & _). rewrite E1 in *.
      apply (lpath_step g (mv st) (dist st') u v None); auto. congruence.
  Qed.

  Lemma RR_lp_bwd : forall st st' x, RR st st' -> dget (dist st) None < num_u g + 1 ->
    lp st' x -> lp st x /\ dget (dist st') x = dget (dist st) x.
  Proof.
    intros st st' x HR Hn H. unfold lp in *. remember None as t eqn:Et. induction H.
    - subst x. split; [apply lpath_refl|apply HR].
    - subst y. destruct (IHlpath eq_refl Hn) as [I1 I2].
      assert (Hu : lp st' (Some u)) by (eapply lpath_step; eauto).
      apply lp_bound in Hu. destruct HR as (E1 & E2 & E3). rewrite E1 in *.
      assert (S2 : dget (dist st') (Some u) = dget (dist st) (Some u)).
      { destruct (E3 u) as [|[E _]]; auto. lia. }
      split; [|exact S2]. apply (lpath_step g (mv st) (dist st) u v None); auto. congruence.
  Qed.

  Lemma RR_lp : forall st st' x, RR st st' -> dget (dist st) None < num_u g + 1 -> (lp st x <-> lp st' x).
  Proof.
    intros st st' x HR Hn. split; [now apply RR_lp_fwd|]. intros H. now apply (RR_lp_bwd st st' x HR Hn).
  Qed.

  Lemma RR_trans : forall st1 st2 st3, dget (dist st1) None < num_u g + 1 ->
    RR st1 st2 -> RR st2 st3 -> RR st1 st3.
  Proof.
    intros st1 st2 st3 Hn HR1 HR2. pose proof HR1 as (A1 & A2 & A3). pose proof HR2 as (B1 & B2 & B3).
    split; [congruence|]. split; [congruence|]. intros y.
    destruct (B3 y) as [E|[E Hl]].
    - rewrite E. apply A3.
    - right. split; auto. intros Hl1. apply Hl. now apply (RR_lp st1 st2).
  Qed.

  Definition viable (st : hk) (u v : nat) : Prop :=
    dget (dist st) (mget (mv st) v) = dget (dist st) (Some u) + 1 /\ lp st (mget (mv st) v).

  Lemma dfs_loop_false : forall (rec : option nat -> hk -> option (bool * hk)),
    (forall w st st', dget (dist st) None < num_u g + 1 -> rec w st = Some (false, st') ->
       RR st st' /\ ~ lp st w) ->
    forall u vs st st', dget (dist st) None < num_u g + 1 ->
      (lp st (Some u) -> exists v, In v vs /\ viable st u v) ->
      dfs_loop rec (num_u g + 1) u vs st = Some (false, st') -> RR st st' /\ ~ lp st (Some u).
  Proof.
    intros rec HR u vs. induction vs as [|v vs IH]; intros st st' Hn Hv H; simpl in H.
    - inversion H; subst. clear H.
      assert (Hl : ~ lp st (Some u)) by (intros Hl; destruct (Hv Hl) as [v [[] _]]).
      split; [|exact Hl]. split; [reflexivity|]. cbn [dist mv]. split.
      + apply dget_dset_other. discriminate.
      + intros y. destruct (dget_dset_cases (dist st) (Some u) (Some y) (num_u g + 1)) as [[E1 E2]|E]; auto.
        inversion E1; subst. auto.
    - destruct (Nat.eqb_spec (dget (dist st) (mget (mv st) v)) (dget (dist st) (Some u) + 1)) as [Hd|Hd].
      + destruct (rec (mget (mv st) v) st) as [[[|] st1]|] eqn:E1; try discriminate.
        destruct (HR _ _ _ Hn E1) as [R1 Hl1].
        assert (Hn1 : dget (dist st1) None < num_u g + 1) by (destruct R1 as (_ & -> & _); exact Hn).
        destruct (IH st1 st' Hn1) as [R2 Hl2]; auto.
        * intros Hu1. apply (RR_lp st st1 _ R1 Hn) in Hu1. destruct (Hv Hu1) as [v' [[<-|Hin] [V1 V2]]].
          -- contradiction.
          -- exists v'. split; auto. pose proof R1 as (E & _). unfold viable. rewrite E.
             rewrite (RR_same st st1 _ R1 V2). rewrite (RR_same st st1 _ R1 Hu1).
             split; [exact V1|]. now apply (RR_lp_fwd st st1 _ R1).
        * split; [eapply RR_trans; eauto|]. intros Hu. apply Hl2. now apply (RR_lp st st1 _ R1 Hn).
      + apply IH; auto. intros Hu. destruct (Hv Hu) as [v' [[<-|Hin] [V1 V2]]]; [contradiction|].
        exists v'. split; [assumption|split; assumption].
  Qed.

  Theorem dfs_false : forall f x st st', dget (dist st) None < num_u g + 1 ->
    dfs f g x st = Some (false, st') -> RR st st' /\ ~ lp st x.
  Proof.
    induction f as [|f IH]; intros x st st' Hn H; simpl in H; [discriminate|].
    destruct x as [u|]; [|discriminate].
    eapply dfs_loop_false; eauto.
    intros Hl. unfold lp in Hl. inversion Hl; subst. exists v. split; auto. split; auto.
  Qed.
End LP.

(* ================================================================================== *)
(* 7. phases, the outer loop, the returned matching                                    *)
(* ================================================================================== *)
Definition is_some (o : option nat) : bool := match o with Some _ => true | None => false end.
Definition cnt (m : list (option nat)) : nat := length (filter is_some m).

Lemma cnt_le : forall m, cnt m <= length m.
Proof.
  intros m. unfold cnt. pose proof (filter_split_length _ is_some m). lia.
Qed.

Lemma cnt_mono : forall m m', length m = length m' ->
  (forall y, mget m y <> None -> mget m' y <> None) ->
  cnt m <= cnt m' /\ (forall u, mget m u = None -> mget m' u <> None -> cnt m < cnt m').
Proof.
  induction m as [|a m IH]; intros [|a' m'] Hl Hy; simpl in Hl; try discriminate.
  - split; auto. intros [|u] H1 H2; simpl in H2; congruence.
  - destruct (IH m') as [I1 I2]; [lia|intros y; apply (Hy (S y))|].
    pose proof (Hy 0) as H0. unfold mget in H0. simpl in H0. unfold cnt in *. simpl.
    split.
    + destruct a, a'; simpl; try lia. exfalso. apply H0; congruence.
    + intros [|u] H1 H2; unfold mget in H1, H2; simpl in H1, H2.
      * subst a. destruct a'; [simpl; lia|congruence].
      * specialize (I2 u H1 H2). destruct a, a'; simpl; try lia. exfalso. apply H0; congruence.
Qed.

Section Loop.
  Variable g : graph.
  Hypothesis W : wf g.

  (* invariant between phases: matched_pairs_u and matched_pairs_v describe the same matching of g *)
  Definition TI (st : hk) : Prop :=
    length (mu st) = num_u g /\ length (mv st) = num_v g /\ invA g st /\ invB st.

  Lemma is_free_None : forall m u, is_free m u = true <-> mget m u = None.
  Proof. intros m u. unfold is_free. destruct (mget m u); split; congruence. Qed.

  Lemma phase_fold : forall us st, (forall u, In u us -> u < num_u g) -> TI st -> SW g st -> DB g st ->
    exists st', fold_left (phase_step g) us (Some st) = Some st' /\ TI st' /\ SW g st' /\ DB g st' /\
      cnt (mu st) <= cnt (mu st') /\
      (forall u0, In u0 us -> is_free (mu st) u0 = true -> dget (dist st) None < num_u g + 1 ->
                  lp g st (Some u0) -> cnt (mu st) < cnt (mu st')).
  Proof.
    induction us as [|u us IH]; intros st Hus HT HS HD; cbn [fold_left].
    - exists st. split; [reflexivity|]. split; [exact HT|]. split; [exact HS|]. split; [exact HD|].
      split; [lia|]. intros u0 [].
    - assert (Hus' : forall u', In u' us -> u' < num_u g) by (intros; apply Hus; now right).
      unfold phase_step at 2. destruct (is_free (mu st) u) eqn:Ef.
      + destruct HT as (L1 & L2 & HA & HB).
        destruct (dfs_main g W (dfs_fuel g) (Some u) st) as (r & st1 & E1 & P1).
        { split; [exact HS|]. split; [exact HA|]. split; [exact HB|]. split; [exact HD|].
          split; [apply Hus; now left|]. unfold dfs_fuel. lia. }
        rewrite E1. destruct P1 as (S1 & D1 & F1 & M1 & R0 & R1).
        assert (Lm : length (mu st) = length (mu st1)) by (destruct S1 as (-> & _); exact L1).
        destruct (cnt_mono (mu st) (mu st1) Lm M1) as [C1 C2].
        apply is_free_None in Ef.
        assert (T1 : TI st1).
        { destruct S1 as (K1 & K2 & _). split; [exact K1|]. split; [exact K2|]. destruct r.
          - destruct (R1 eq_refl) as [Hk _]. rewrite Ef in Hk. now apply K_None_inv.
          - destruct (R0 eq_refl) as [Emu Emv]. unfold invA, invB. rewrite Emu, Emv. split; assumption. }
        destruct (IH st1 Hus' T1 S1 D1) as (st' & E' & T' & S' & D' & C' & P').
        exists st'. split; [exact E'|]. split; [exact T'|]. split; [exact S'|]. split; [exact D'|].
        split; [lia|]. intros u0 Hin Hf0 Hn Hl. destruct r.
        * destruct (R1 eq_refl) as [_ Hm]. specialize (C2 u Ef Hm). lia.
        * destruct (R0 eq_refl) as [Emu Emv].
          destruct (dfs_false g _ _ _ _ Hn E1) as [RR1 Hnl].
          destruct Hin as [<-|Hin]; [contradiction|].
          assert (cnt (mu st1) < cnt (mu st')); [|lia].
          apply (P' u0 Hin).
          -- now rewrite Emu.
          -- destruct RR1 as (_ & -> & _). exact Hn.
          -- now apply (RR_lp_fwd g st st1).
      + destruct (IH st Hus' HT HS HD) as (st' & E' & T' & S' & D' & C' & P').
        exists st'. split; [exact E'|]. split; [exact T'|]. split; [exact S'|]. split; [exact D'|].
        split; [exact C'|]. intros u1 [<-|Hin] Hf0; [congruence|]. now apply P'.
  Qed.

  Lemma phase_main : forall st, TI st -> SW g st -> DB g st ->
    exists st', phase g st = Some st' /\ TI st' /\ cnt (mu st) <= cnt (mu st') /\
      (forall u0, u0 < num_u g -> is_free (mu st) u0 = true -> dget (dist st) None < num_u g + 1 ->
                  lp g st (Some u0) -> cnt (mu st) < cnt (mu st')).
  Proof.
    intros st HT HS HD. destruct (phase_fold (seq 0 (num_u g)) st) as (st' & E & T' & _ & _ & C & P); auto.
    - intros u Hu. apply in_seq in Hu. lia.
    - exists st'. split; [exact E|]. split; [exact T'|]. split; [exact C|].
      intros u0 Hu0. apply P. apply in_seq. lia.
  Qed.

  (* what BFS returning False establishes *)
  Definition bfs_done (st : hk) : Prop :=
    dget (dist st) None = num_u g + 1 /\ Jfull g (mu st) (mv st) (dist st) [].

  Lemma bfs_main : forall st, TI st ->
    exists b st1, bfs g st = Some (b, st1) /\ mu st1 = mu st /\ mv st1 = mv st /\ SW g st1 /\ DB g st1 /\
      (b = true -> dget (dist st1) None < num_u g + 1 /\
                   exists u0, u0 < num_u g /\ is_free (mu st) u0 = true /\ lp g st1 (Some u0)) /\
      (b = false -> bfs_done st1).
  Proof.
    intros st (L1 & L2 & HA & HB).
    assert (MVR : forall v x, mget (mv st) v = Some x -> x < num_u g).
    { intros v x H. apply HB in H. apply mget_Some_lt in H. lia. }
    destruct (bfs_loop_init g (mu st) (mv st) L1 MVR) as (d & E & [HJ HDn]).
    unfold bfs. rewrite E. eexists. eexists. split; [reflexivity|]. cbn [mu mv dist].
    split; [reflexivity|]. split; [reflexivity|]. split.
    { split; [exact L1|]. split; [exact L2|]. apply (j_len _ _ _ _ _ HJ). }
    split; [exact (j_db _ _ _ _ _ HJ)|]. split.
    - intros Hb. apply negb_true_iff in Hb. apply Nat.eqb_neq in Hb.
      pose proof (j_db _ _ _ _ _ HJ None) as Hle.
      assert (Fn : fin g d None) by (unfold fin; lia). split; [exact Fn|].
      destruct (j_back _ _ _ _ _ HJ None I Fn) as (u0 & H1 & H2 & _ & H4). exists u0. auto.
    - intros Hb. apply negb_false_iff in Hb. apply Nat.eqb_eq in Hb. split; [exact Hb|].
      cbn [mu mv dist]. constructor; assumption.
  Qed.

  Lemma hk_loop_main : forall f st, TI st -> num_u g - cnt (mu st) + 1 <= f ->
    exists st', hk_loop f g st = Some st' /\ TI st' /\ bfs_done st'.
  Proof.
    induction f as [|f IH]; intros st HT Hf; [lia|]. cbn [hk_loop].
    destruct (bfs_main st HT) as (b & st1 & E & Emu & Emv & S1 & D1 & Ht & Hf').
    rewrite E.
    assert (T1 : TI st1).
    { destruct HT as (L1 & L2 & HA & HB). split; [congruence|]. split; [congruence|].
      unfold invA, invB. rewrite Emu, Emv. split; assumption. }
    destruct b.
    - destruct (Ht eq_refl) as (Hn & u0 & Hu0 & Hfree & Hl).
      destruct (phase_main st1 T1 S1 D1) as (st2 & E2 & T2 & C2 & P2). rewrite E2.
      assert (Hlt : cnt (mu st1) < cnt (mu st2)).
      { apply (P2 u0); auto. now rewrite Emu. }
      pose proof (cnt_le (mu st2)) as Hc. destruct T2 as (L1' & L2' & HA' & HB'). rewrite L1' in Hc.
      apply IH; [split; [exact L1'|split; [exact L2'|split; assumption]]|]. rewrite Emu in Hlt. lia.
    - exists st1. split; [reflexivity|]. split; [exact T1|]. now apply Hf'.
  Qed.

  Lemma mget_repeat_None : forall n i, mget (repeat None n) i = None.
  Proof. intros n. unfold mget. induction n; intros [|i]; simpl; auto. Qed.

  Theorem hk_run_spec : exists st, hk_run g = Some st /\ TI st /\ bfs_done st.
  Proof.
    unfold hk_run. apply hk_loop_main.
    - unfold hk_init, TI, invA, invB. cbn [mu mv]. rewrite !repeat_length.
      split; [reflexivity|]. split; [reflexivity|]. split; intros u v H; rewrite mget_repeat_None in H; discriminate.
    - unfold hk_fuel. lia.
  Qed.

  (* ---- the collected matching ------------------------------------------------------ *)
  Lemma collect_In : forall nu m u v, In (u, v) (collect nu m) <-> u < nu /\ mget m u = Some v.
  Proof.
    intros nu m u v. unfold collect. rewrite in_flat_map. split.
    - intros [u' [Hu' Hin]]. apply in_seq in Hu'. destruct (mget m u') eqn:E; [|destruct Hin].
      destruct Hin as [Hin|[]]. inversion Hin; subst. split; [lia|assumption].
    - intros [Hu Hm]. exists u. split; [apply in_seq; lia|]. rewrite Hm. now left.
  Qed.

  Lemma collect_fst : forall m l, NoDup l ->
    NoDup (map fst (flat_map (fun u => match mget m u with Some v => [(u, v)] | None => [] end) l)) /\
    (forall u, In u (map fst (flat_map (fun u => match mget m u with Some v => [(u, v)] | None => [] end) l)) -> In u l).
  Proof.
    intros m l. induction l as [|a l IH]; intros Hn; simpl.
    - split; [constructor|auto].
    - inversion Hn; subst. destruct (IH H2) as [I1 I2]. destruct (mget m a); simpl.
      + split; [constructor; auto|]. intros u [<-|H]; auto.
      + split; auto.
  Qed.

  Lemma collect_snd : forall st l, invA g st -> NoDup l ->
    NoDup (map snd (flat_map (fun u => match mget (mu st) u with Some v => [(u, v)] | None => [] end) l)).
  Proof.
    intros st l HA. induction l as [|a l IH]; intros Hn; simpl; [constructor|].
    inversion Hn; subst. specialize (IH H2). destruct (mget (mu st) a) as [v|] eqn:E; simpl; auto.
    constructor; auto. intros Hin. apply in_map_iff in Hin. destruct Hin as [[u' v'] [Ev Hin]].
    simpl in Ev. subst v'. apply in_flat_map in Hin. destruct Hin as [u'' [Hu'' Hin]].
    destruct (mget (mu st) u'') as [v''|] eqn:E''; [|destruct Hin]. destruct Hin as [Hin|[]].
    inversion Hin; subst. destruct (HA _ _ E) as [E1 _]. destruct (HA _ _ E'') as [E2 _].
    assert (a = u') by congruence. subst. contradiction.
  Qed.

  Theorem hopcroft_karp_spec : exists st M, hk_run g = Some st /\ hopcroft_karp g = Some M /\
    M = collect (num_u g) (mu st) /\ TI st /\ bfs_done st /\
    is_matching M /\ (forall u v, In (u, v) M -> In v (adjU g u)).
  Proof.
    destruct hk_run_spec as (st & E & HT & HD). exists st, (collect (num_u g) (mu st)).
    unfold hopcroft_karp. rewrite E. cbn [option_map].
    split; [reflexivity|]. split; [reflexivity|]. split; [reflexivity|]. split; [exact HT|]. split; [exact HD|].
    destruct HT as (L1 & L2 & HA & HB). split; [split|].
    - apply collect_fst. apply seq_NoDup.
    - apply collect_snd; auto. apply seq_NoDup.
    - intros u v H. apply collect_In in H. destruct H as [_ H]. now apply HA in H.
  Qed.
End Loop.

(* ================================================================================== *)
(* 8. Koenig: a second exploration invariant (soundness w.r.t. a closed pair of         *)
(*    vertex predicates, closure on the V side)                                        *)
(* ================================================================================== *)
Section Explore2.
  Variable g : graph.
  Variable M : list (nat * nat).
  Hypothesis W : wf g.
  Variable P Q : nat -> Prop.
  Hypothesis HPQ : forall u v, P u -> In v (adjU g u) -> Q v.
  Hypothesis HQP : forall u v, Q v -> In (u, v) M -> P u.

  Definition vclosed (uu : list nat) (v : nat) : Prop :=
    forall u, In u (adjV g v) -> In (u, v) M -> In u uu.
  Definition invs (s : vis) : Prop := (forall u, In u (fst s) -> P u) /\ (forall v, In v (snd s) -> Q v).
  Definition post2 (s s' : vis) : Prop :=
    invs s' /\ (forall v, In v (snd s') -> In v (snd s) \/ vclosed (fst s') v).

  Definition rec_spec2 (rec : nat -> vis -> option vis) : Prop :=
    forall w s s', rec w s = Some s' -> P w -> invs s -> post2 s s'.

  Lemma vclosed_mono : forall uu uu' v, incl uu uu' -> vclosed uu v -> vclosed uu' v.
  Proof. intros uu uu' v Hi Hc u H1 H2. apply Hi. now apply Hc. Qed.

  Lemma expl_u_spec2 : forall rec, rec_spec g M rec -> rec_spec2 rec -> forall v ws s s',
    expl_u rec M v ws s = Some s' -> In v (snd s) -> Q v -> invs s ->
    post2 s s' /\ (forall w, In w ws -> In (w, v) M -> In w (fst s')).
  Proof.
    intros rec HR1 HR2 v ws. induction ws as [|w ws IH]; intros s s' H Hv Hq Hi; simpl in H.
    - inversion H; subst. split; [split; auto|]. intros w [].
    - destruct (memp (w, v) M) eqn:E.
      + destruct (rec w s) as [s1|] eqn:E1; [|discriminate]. apply memp_In in E.
        destruct (HR1 _ _ _ E1) as (Hm1 & Hw1 & _).
        assert (Hv1 : In v (snd s1)) by (apply Hm1; exact Hv).
        destruct (HR2 _ _ _ E1 (HQP _ _ Hq E) Hi) as (Hi1 & Hc1).
        destruct (IH _ _ H Hv1 Hq Hi1) as ((Hi2 & Hc2) & Hw2).
        destruct (expl_u_spec g M rec HR1 v ws s1 s' H Hv1) as ((Hm2 & _ & _) & _).
        split; [split; [exact Hi2|]|].
        * intros v' Hv'. destruct (Hc2 v' Hv') as [Hv1'|]; auto. destruct (Hc1 v' Hv1') as [|Hc]; auto.
          right. eapply vclosed_mono; eauto.
        * intros w' [<-|Hw'] Hm'; auto.
      + destruct (IH _ _ H Hv Hq Hi) as (Hp & Hw2). split; auto.
        intros w' [<-|Hw'] Hm'; auto. apply memp_nIn in E. contradiction.
  Qed.

  Lemma expl_v_spec2 : forall rec, rec_spec g M rec -> rec_spec2 rec -> forall us vs s s',
    expl_v rec g M us vs s = Some s' -> incl vs (adjU g us) -> P us -> invs s -> post2 s s'.
  Proof.
    intros rec HR1 HR2 us vs. induction vs as [|v vs IH]; intros s s' H Hin Hp Hi; simpl in H.
    - inversion H; subst. split; auto.
    - assert (Hin' : incl vs (adjU g us)) by (intros x Hx; apply Hin; now right).
      destruct (memp (us, v) M); [eauto|]. destruct (memn v (snd s)); [eauto|].
      destruct (expl_u rec M v (adjV g v) (fst s, snd s ++ [v])) as [s1|] eqn:E1; [|discriminate].
      assert (Hq : Q v) by (apply (HPQ us); auto; apply Hin; now left).
      assert (Hi0 : invs (fst s, snd s ++ [v])).
      { destruct Hi as [I1 I2]. split; simpl; auto. intros v' Hv'. apply in_app_or in Hv'.
        destruct Hv' as [|[<-|[]]]; auto. }
      assert (Hv0 : In v (snd (fst s, snd s ++ [v]))) by (simpl; apply in_or_app; right; now left).
      destruct (expl_u_spec2 rec HR1 HR2 v _ _ _ E1 Hv0 Hq Hi0) as ((Hi1 & Hc1) & Hw1).
      destruct (IH _ _ H Hin' Hp Hi1) as (Hi2 & Hc2).
      destruct (expl_v_spec g M W rec HR1 us vs s1 s' H Hin') as ((Hm2 & _ & _) & _).
      split; [exact Hi2|]. intros v' Hv'. destruct (Hc2 v' Hv') as [Hv1|]; auto.
      destruct (Hc1 v' Hv1) as [Hv2|Hc].
      + simpl in Hv2. apply in_app_or in Hv2. destruct Hv2 as [|[<-|[]]]; auto.
        right. intros u Hu Hm. apply Hm2. now apply Hw1.
      + right. eapply vclosed_mono; eauto.
  Qed.

  Lemma explore_spec2 : forall f, rec_spec2 (explore f g M).
  Proof.
    induction f as [|f IH]; intros us s s' H Hp Hi; simpl in H; [discriminate|].
    destruct (memn us (fst s)) eqn:E.
    - inversion H; subst. split; auto.
    - assert (Hi0 : invs (fst s ++ [us], snd s)).
      { destruct Hi as [I1 I2]. split; simpl; auto. intros u Hu. apply in_app_or in Hu.
        destruct Hu as [|[<-|[]]]; auto. }
      destruct (expl_v_spec2 _ (explore_spec g M W f) IH us _ _ _ H (incl_refl _) Hp Hi0) as (Hi1 & Hc1).
      split; auto.
  Qed.
End Explore2.

(* ================================================================================== *)
(* 9. Koenig size: when BFS finds no augmenting layer, |cover| = |matching|            *)
(* ================================================================================== *)
Lemma koenig_fold_None : forall g M l, fold_left (koenig_step g M) l None = None.
Proof. intros g M l. induction l; simpl; auto. Qed.

(* U vertices reachable from an unmatched U vertex by alternating walks
   (a graph edge out of U, then the matched edge back into U) *)
Inductive areach (g : graph) (M : list (nat * nat)) : nat -> Prop :=
| ar_free : forall u, u < num_u g -> ~ In u (map fst M) -> areach g M u
| ar_step : forall u v u', areach g M u -> In v (adjU g u) -> In (u', v) M -> areach g M u'.

Section KoenigSize.
  Variable g : graph.
  Hypothesis W : wf g.
  Variable st : hk.
  Hypothesis HT : TI g st.
  Hypothesis HD : bfs_done g st.
  Let M := collect (num_u g) (mu st).

  Let P (u : nat) : Prop := u < num_u g /\ fin g (dist st) (Some u).
  Let Q (v : nat) : Prop := fin g (dist st) (mget (mv st) v).

  Lemma ks_PQ : forall u v, P u -> In v (adjU g u) -> Q v.
  Proof.
    intros u v [Hu Fu] Hv. destruct HD as [Hn [_ Hdone]].
    destruct (Hdone u Hu Fu) as [[]|[Hle|Hall]]; [|now apply Hall].
    unfold fin in Fu. lia.
  Qed.

  Lemma ks_M : forall u v, In (u, v) M <-> u < num_u g /\ mget (mu st) u = Some v.
  Proof. intros. apply collect_In. Qed.

  Lemma ks_QP : forall u v, Q v -> In (u, v) M -> P u.
  Proof.
    intros u v Hq Hm. apply ks_M in Hm. destruct Hm as [Hu Hm]. split; auto.
    destruct HT as (_ & _ & HA & _). destruct (HA _ _ Hm) as [E _]. unfold Q in Hq. now rewrite E in Hq.
  Qed.

  Lemma ks_fun : forall u v v', In (u, v) M -> In (u, v') M -> v = v'.
  Proof. intros u v v' H1 H2. apply ks_M in H1. apply ks_M in H2. destruct H1, H2. congruence. Qed.

  Lemma ks_unmatched : forall r, r < num_u g -> ~ In r (map fst M) -> P r.
  Proof.
    intros r Hr Hn. split; auto. destruct HD as [_ [HJ _]].
    unfold fin. rewrite (j_free _ _ _ _ _ HJ r Hr); [lia|].
    apply is_free_None. destruct (mget (mu st) r) as [v|] eqn:E; auto.
    exfalso. apply Hn. apply in_map_iff. exists (r, v). split; auto. apply ks_M. auto.
  Qed.

  Definition kinv2 (acc : list nat * list nat * trace) : Prop :=
    let '(zu, zv, _) := acc in
    (forall u, In u zu -> P u) /\ (forall v, In v zv -> Q v /\ vclosed g M zu v).

  Lemma koenig_fold2 : forall starts acc acc', (forall r, In r starts -> P r) -> kinv2 acc ->
    fold_left (koenig_step g M) starts (Some acc) = Some acc' -> kinv2 acc'.
  Proof.
    induction starts as [|r starts IH]; intros [[zu zv] tr] acc' Hs Hk H; simpl in H.
    - inversion H; subst. exact Hk.
    - destruct (explore (explore_fuel g) g M r ([], [])) as [s|] eqn:E;
        [|rewrite koenig_fold_None in H; discriminate].
      apply (IH _ _ (fun r' Hr' => Hs r' (or_intror Hr'))) in H; auto.
      destruct (explore_spec2 g M W P Q ks_PQ ks_QP _ _ _ _ E (Hs r (or_introl eq_refl))) as ([I1 I2] & Hc).
      { split; intros ? []. }
      destruct Hk as [K1 K2]. split.
      + intros u Hu. apply in_app_or in Hu. destruct Hu; auto.
      + intros v Hv. apply in_app_or in Hv. destruct Hv as [Hv|Hv].
        * destruct (K2 v Hv) as [Hq Hc']. split; auto. eapply vclosed_mono; [|exact Hc']. apply incl_appl, incl_refl.
        * split; auto. destruct (Hc v Hv) as [[]|Hc']. eapply vclosed_mono; [|exact Hc']. apply incl_appr, incl_refl.
  Qed.

  Lemma bool_eq_iff : forall a b : bool, (a = true <-> b = true) -> a = b.
  Proof. intros [|] [|] [H1 H2]; auto. - symmetry; auto. Qed.

  Theorem koenig_size : forall cu cv, koenig g M = Some (cu, cv) -> length cu + length cv = length M.
  Proof.
    intros cu cv H.
    destruct (koenig_visit_spec g M W) as (zu & zv & tr & E & [K1 K2] & Hall).
    assert (Hk2 : kinv2 (zu, zv, tr)).
    { unfold koenig_visit in E. eapply koenig_fold2; [| |exact E].
      - intros r Hr. apply unmatched_u_spec in Hr. destruct Hr. now apply ks_unmatched.
      - split; intros ? []. }
    destruct Hk2 as [Z1 Z2].
    unfold koenig in H. rewrite E in H. inversion H; subst cu cv. clear H.
    pose proof HT as (L1 & L2 & HA & HB). pose proof HD as [Hn _].
    assert (NM1 : NoDup (map fst M)) by (apply collect_fst, seq_NoDup).
    assert (NM2 : NoDup (map snd M)) by (apply (collect_snd g st); auto; apply seq_NoDup).
    (* every visited V vertex is matched *)
    assert (F1 : forall v, In v zv -> exists u, In (u, v) M).
    { intros v Hv. destruct (Z2 v Hv) as [Hq _]. unfold Q, fin in Hq.
      destruct (mget (mv st) v) as [u|] eqn:Ev; [|lia].
      exists u. apply ks_M. pose proof (HB _ _ Ev) as Hm. split; auto. apply mget_Some_lt in Hm. lia. }
    (* a matched edge has its U end visited iff its V end is visited *)
    assert (F2 : forall u v, In (u, v) M -> (In u zu <-> In v zv)).
    { intros u v Hm. split.
      - intros Hu. destruct (K1 u Hu) as [_ [Hnm|[v' [Hv' Hm']]]].
        + exfalso. apply Hnm. apply in_map_iff. exists (u, v). auto.
        + now rewrite (ks_fun u v v' Hm Hm').
      - intros Hv. destruct (Z2 v Hv) as [_ Hc]. apply Hc; auto.
        apply ks_M in Hm. destruct Hm as [_ Hm]. destruct (HA _ _ Hm) as [_ He]. now apply (wf_uv g W). }
    assert (F3 : length (filter (fun u => negb (memn u zu)) (seq 0 (num_u g))) =
                 length (filter (fun p => negb (memn (fst p) zu)) M)).
    { rewrite <- (map_length fst (filter _ M)). apply Permutation_length. apply NoDup_Permutation.
      - apply NoDup_filter, seq_NoDup.
      - now apply NoDup_map_filter.
      - intros x. rewrite filter_In, in_seq, in_map_iff. split.
        + intros [Hx Hz]. destruct (memn x (map fst M)) eqn:Em.
          * apply memn_In in Em. apply in_map_iff in Em. destruct Em as [[x' v] [Ex Hm]]. simpl in Ex. subst x'.
            exists (x, v). split; auto. apply filter_In. auto.
          * apply memn_nIn in Em. apply negb_true_iff in Hz. apply memn_nIn in Hz.
            exfalso. apply Hz. apply Hall; auto. lia.
        + intros [[x' v] [Ex Hm]]. simpl in Ex. subst x'. apply filter_In in Hm. destruct Hm as [Hm Hz].
          simpl in Hz. split; auto. apply ks_M in Hm. lia. }
    assert (F4 : length (sort_dedup zv) = length (filter (fun p => memn (snd p) zv) M)).
    { rewrite <- (map_length snd (filter _ M)). apply Permutation_length. apply NoDup_Permutation.
      - apply NoDup_sort_dedup.
      - now apply NoDup_map_filter.
      - intros x. rewrite In_sort_dedup, in_map_iff. split.
        + intros Hx. destruct (F1 x Hx) as [u Hm]. exists (u, x). split; auto.
          apply filter_In. split; auto. simpl. now apply memn_In.
        + intros [[u x'] [Ex Hm]]. simpl in Ex. subst x'. apply filter_In in Hm. destruct Hm as [_ Hz].
          simpl in Hz. now apply memn_In. }
    assert (F5 : filter (fun p => memn (snd p) zv) M = filter (fun p => memn (fst p) zu) M).
    { apply filter_ext_in. intros [u v] Hm. simpl. apply bool_eq_iff. rewrite !memn_In.
      symmetry. now apply F2. }
    rewrite F3, F4, F5. rewrite (filter_split_length _ (fun p => memn (fst p) zu) M). lia.
  Qed.

  Theorem no_augmenting_path : forall u v, areach g M u -> In v (adjU g u) -> exists u', In (u', v) M.
  Proof.
    intros u v Hr Hv. assert (Hp : P u).
    { clear Hv. induction Hr as [u Hu Hn|u v0 u' Hr IH Hv0 Hm].
      - now apply ks_unmatched.
      - apply (ks_QP u' v0); [apply (ks_PQ u v0); assumption|assumption]. }
    pose proof (ks_PQ u v Hp Hv) as Hq. unfold Q, fin in Hq.
    pose proof HT as (_ & _ & _ & HB). pose proof HD as [Hn _].
    destruct (mget (mv st) v) as [u'|] eqn:Ev; [|lia].
    exists u'. apply ks_M. pose proof (HB _ _ Ev) as Hm. split; auto. apply mget_Some_lt in Hm.
    destruct HT as (L1 & _). lia.
  Qed.
End KoenigSize.

(* ================================================================================== *)
(* 10. minimum_vertex_cover: the complete result                                       *)
(* ================================================================================== *)
Theorem mvc_spec : forall g, wf g -> exists r, mvc g = Some r /\
  r_assert r = true /\
  is_matching (r_matching r) /\ (forall u v, In (u, v) (r_matching r) -> In v (adjU g u)) /\
  (forall u, In u (r_ucover r) -> u < num_u g) /\ (forall v, In v (r_vcover r) -> v < num_v g) /\
  NoDup (r_ucover r) /\ NoDup (r_vcover r) /\
  (forall u v, In v (adjU g u) -> In u (r_ucover r) \/ In v (r_vcover r)) /\
  length (r_ucover r) + length (r_vcover r) = length (r_matching r).
Proof.
  intros g W. destruct (hopcroft_karp_spec g W) as (st & M & E1 & E2 & EM & HT & HD & HM & HE).
  destruct (koenig_total g M W) as (cu & cv & Ek).
  unfold mvc. rewrite E2, Ek. eexists. split; [reflexivity|]. cbn [r_matching r_ucover r_vcover r_assert].
  assert (Hsz : length cu + length cv = length M).
  { subst M. now apply (koenig_size g W st HT HD). }
  destruct (koenig_range g M W cu cv Ek) as (R1 & R2 & R3 & R4).
  split; [now apply Nat.eqb_eq|]. split; [exact HM|]. split; [exact HE|].
  split; [exact R1|]. split; [exact R2|]. split; [exact R3|]. split; [exact R4|]. split; [|exact Hsz].
  apply (koenig_cover g M W); auto.
  intros u v v' H1 H2. subst M. apply collect_In in H1. apply collect_In in H2. destruct H1, H2. congruence.
Qed.

(* when the outer loop stops, no alternating walk from an unmatched U vertex reaches an unmatched V vertex *)
Theorem hk_no_augmenting_path : forall g, wf g -> forall M, hopcroft_karp g = Some M ->
  forall u v, areach g M u -> In v (adjU g u) -> exists u', In (u', v) M.
Proof.
  intros g W M H. destruct (hopcroft_karp_spec g W) as (st & M' & E1 & E2 & EM & HT & HD & _).
  rewrite E2 in H. inversion H; subst M'. subst M. apply (no_augmenting_path g st HT HD).
Qed.

(* ---- statements in terms of the constructor's arguments ------------------------------ *)
Theorem mvc_main : forall nu nv edges, edges_ok nu nv edges ->
  exists r, mvc (mk_graph nu nv edges) = Some r /\ r_assert r = true /\
    is_matching (r_matching r) /\ incl (r_matching r) edges /\
    (forall u, In u (r_ucover r) -> u < nu) /\ (forall v, In v (r_vcover r) -> v < nv) /\
    NoDup (r_ucover r) /\ NoDup (r_vcover r) /\
    covers edges (r_ucover r) (r_vcover r) /\
    length (r_ucover r) + length (r_vcover r) = length (r_matching r) /\
    (forall M', is_matching M' -> incl M' edges -> length M' <= length (r_matching r)) /\
    (forall cu' cv', covers edges cu' cv' ->
       length (r_ucover r) + length (r_vcover r) <= length cu' + length cv').
Proof.
  intros nu nv edges Hok. destruct (mk_graph_spec nu nv edges Hok) as (N1 & N2 & W & AU & AV).
  destruct (mvc_spec _ W) as (r & E & Ha & HM & HE & R1 & R2 & R3 & R4 & HC & Hsz).
  rewrite N1 in R1. rewrite N2 in R2.
  assert (Hi : incl (r_matching r) edges) by (intros [u v] H; apply AU; now apply HE).
  assert (Hc : covers edges (r_ucover r) (r_vcover r)) by (intros u v H; apply HC; now apply AU).
  destruct (equal_sizes_optimal edges _ _ _ HM Hi Hc Hsz) as [O1 O2].
  exists r. repeat (split; [assumption|]). assumption.
Qed.

(* the constructor accepts exactly the inputs satisfying its asserts *)
Theorem build_spec : forall nu nv edges,
  let nedges := map (fun e => (Z.to_nat (fst e), Z.to_nat (snd e))) edges in
  ((1 <= nu)%Z /\ (1 <= nv)%Z /\
   (forall e, In e edges -> (0 <= fst e < nu)%Z /\ (0 <= snd e < nv)%Z)) ->
  build nu nv edges = Some (mk_graph (Z.to_nat nu) (Z.to_nat nv) nedges) /\
  edges_ok (Z.to_nat nu) (Z.to_nat nv) nedges.
Proof.
  intros nu nv edges nedges (H1 & H2 & H3). split.
  - unfold build. replace (1 <=? nu)%Z with true by (symmetry; now apply Z.leb_le).
    replace (1 <=? nv)%Z with true by (symmetry; now apply Z.leb_le).
    replace (forallb (edge_okZ nu nv) edges) with true; [reflexivity|].
    symmetry. apply forallb_forall. intros e He. destruct (H3 e He) as [[A B] [C D]].
    unfold edge_okZ. apply Z.leb_le in A, C. apply Z.ltb_lt in B, D. now rewrite A, B, C, D.
  - intros u v H. unfold nedges in H. apply in_map_iff in H. destruct H as [e [E He]].
    inversion E; subst. destruct (H3 e He) as [[A B] [C D]]. split; apply Z2Nat.inj_lt; lia.
Qed.

Theorem build_reject : forall nu nv edges,
  ~ ((1 <= nu)%Z /\ (1 <= nv)%Z /\
     (forall e, In e edges -> (0 <= fst e < nu)%Z /\ (0 <= snd e < nv)%Z)) ->
  build nu nv edges = None.
Proof.
  intros nu nv edges H. unfold build.
  destruct ((1 <=? nu)%Z && (1 <=? nv)%Z && forallb (edge_okZ nu nv) edges) eqn:E; [|reflexivity].
  exfalso. apply H. apply andb_true_iff in E. destruct E as [E E3]. apply andb_true_iff in E. destruct E as [E1 E2].
  apply Z.leb_le in E1, E2. split; auto. split; auto. intros e He.
  rewrite forallb_forall in E3. specialize (E3 e He). unfold edge_okZ in E3.
  apply andb_true_iff in E3. destruct E3 as [E3 D]. apply andb_true_iff in E3. destruct E3 as [E3 C].
  apply andb_true_iff in E3. destruct E3 as [A B].
  apply Z.leb_le in A, C. apply Z.ltb_lt in B, D. lia.
Qed.

(* ---- the individual statements, in terms of the constructor's arguments --------------- *)
Definition functional_on_u (M : list (nat * nat)) : Prop :=
  forall u v v', In (u, v) M -> In (u, v') M -> v = v'.

Theorem koenig_fuel_suffices : forall nu nv edges M, edges_ok nu nv edges ->
  exists cu cv, koenig (mk_graph nu nv edges) M = Some (cu, cv).
Proof.
  intros nu nv edges M Hok. destruct (mk_graph_spec nu nv edges Hok) as (_ & _ & W & _).
  now apply koenig_total.
Qed.

Theorem mvc_in_range : forall nu nv edges M cu cv, edges_ok nu nv edges ->
  koenig (mk_graph nu nv edges) M = Some (cu, cv) ->
  (forall u, In u cu -> u < nu) /\ (forall v, In v cv -> v < nv) /\ NoDup cu /\ NoDup cv.
Proof.
  intros nu nv edges M cu cv Hok H. destruct (mk_graph_spec nu nv edges Hok) as (N1 & N2 & W & _).
  pose proof (koenig_range _ M W cu cv H) as R. now rewrite N1, N2 in R.
Qed.

Theorem mvc_is_cover : forall nu nv edges M cu cv, edges_ok nu nv edges -> functional_on_u M ->
  koenig (mk_graph nu nv edges) M = Some (cu, cv) -> covers edges cu cv.
Proof.
  intros nu nv edges M cu cv Hok HF H. destruct (mk_graph_spec nu nv edges Hok) as (_ & _ & W & AU & _).
  intros u v He. apply (koenig_cover _ M W HF cu cv H). now apply AU.
Qed.

Theorem hk_fuel_suffices : forall nu nv edges, edges_ok nu nv edges ->
  exists M, hopcroft_karp (mk_graph nu nv edges) = Some M.
Proof.
  intros nu nv edges Hok. destruct (mk_graph_spec nu nv edges Hok) as (_ & _ & W & _).
  destruct (hopcroft_karp_spec _ W) as (st & M & _ & E & _). eauto.
Qed.

Theorem hk_valid_matching : forall nu nv edges M, edges_ok nu nv edges ->
  hopcroft_karp (mk_graph nu nv edges) = Some M -> is_matching M /\ incl M edges.
Proof.
  intros nu nv edges M Hok H. destruct (mk_graph_spec nu nv edges Hok) as (_ & _ & W & AU & _).
  destruct (hopcroft_karp_spec _ W) as (st & M' & _ & E & _ & _ & _ & HM & HE).
  rewrite E in H. inversion H; subst M'. split; auto. intros [u v] Hin. apply AU. now apply HE.
Qed.

Theorem hk_no_augmenting_path_edges : forall nu nv edges M, edges_ok nu nv edges ->
  hopcroft_karp (mk_graph nu nv edges) = Some M ->
  forall u v, areach (mk_graph nu nv edges) M u -> In (u, v) edges -> exists u', In (u', v) M.
Proof.
  intros nu nv edges M Hok H u v Hr He. destruct (mk_graph_spec nu nv edges Hok) as (_ & _ & W & AU & _).
  apply (hk_no_augmenting_path _ W M H u v Hr). now apply AU.
Qed.

Theorem mvc_size_eq_matching : forall nu nv edges r, edges_ok nu nv edges ->
  mvc (mk_graph nu nv edges) = Some r ->
  r_assert r = true /\ length (r_ucover r) + length (r_vcover r) = length (r_matching r).
Proof.
  intros nu nv edges r Hok H. destruct (mvc_main nu nv edges Hok) as (r' & E & Ha & _ & _ & _ & _ & _ & _ & _ & Hs & _).
  rewrite E in H. inversion H; subst. auto.
Qed.
