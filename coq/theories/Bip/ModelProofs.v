(* Proofs about the model of pytreenet/ttno/bipartite_graph.py (Bip/Model.v). *)
From Coq Require Import List Arith Bool ZArith Lia Permutation.
From PTN Require Import Bip.Model.
Import ListNotations.

(* ================================================================================== *)
(* 0. basics                                                                           *)
(* ================================================================================== *)
Lemma memn_In : forall x l, memn x l = true <-> In x l.
Proof.
  intros x l. unfold memn. rewrite existsb_exists. split.
  - intros [y [H1 H2]]. apply Nat.eqb_eq in H2. subst. assumption.
  - intros H. exists x. split; [assumption | apply Nat.eqb_refl].
Qed.

Lemma memn_nIn : forall x l, memn x l = false <-> ~ In x l.
Proof.
  intros x l. rewrite <- memn_In. destruct (memn x l); intuition congruence.
Qed.

Lemma memp_In : forall p l, memp p l = true <-> In p l.
Proof.
  intros [a b] l. unfold memp. rewrite existsb_exists. split.
  - intros [[c d] [H1 H2]]. simpl in H2. apply andb_true_iff in H2. destruct H2 as [H2 H3].
    apply Nat.eqb_eq in H2. apply Nat.eqb_eq in H3. subst. assumption.
  - intros H. exists (a, b). split; [assumption|]. simpl. now rewrite !Nat.eqb_refl.
Qed.

Lemma memp_nIn : forall p l, memp p l = false <-> ~ In p l.
Proof.
  intros p l. rewrite <- memp_In. destruct (memp p l); intuition congruence.
Qed.

Lemma upd_length : forall (A : Type) i (x : A) l, length (upd i x l) = length l.
Proof. intros A i x l. revert i. induction l; intros [|i]; simpl; auto. Qed.

Lemma nth_upd_same : forall (A : Type) i (x d : A) l, i < length l -> nth i (upd i x l) d = x.
Proof.
  intros A i x d l. revert i. induction l; intros [|i] H; simpl in *; try lia; auto.
  apply IHl. lia.
Qed.

Lemma nth_upd_other : forall (A : Type) i j (x d : A) l, i <> j -> nth i (upd j x l) d = nth i l d.
Proof.
  intros A i j x d l. revert i j. induction l; intros [|i] [|j] H; simpl; auto; try lia.
Qed.

Lemma nth_upd_oob : forall (A : Type) j (x : A) l, length l <= j -> upd j x l = l.
Proof.
  intros A j x l. revert j. induction l; intros [|j] H; simpl in *; auto; try lia.
  f_equal. apply IHl. lia.
Qed.

Lemma nth_upd : forall (A : Type) i j (x d : A) l,
  nth i (upd j x l) d = if (i =? j) && (j <? length l) then x else nth i l d.
Proof.
  intros. destruct (Nat.eqb_spec i j).
  - subst. destruct (Nat.ltb_spec j (length l)); simpl.
    + now apply nth_upd_same.
    + now rewrite nth_upd_oob.
  - simpl. now apply nth_upd_other.
Qed.

Lemma NoDup_snoc : forall (A : Type) (l : list A) x, NoDup l -> ~ In x l -> NoDup (l ++ [x]).
Proof.
  intros A l x. induction l as [|a l IH]; simpl; intros Hn Hx.
  - constructor; auto.
  - inversion Hn; subst. constructor.
    + intro Hin. apply in_app_or in Hin. destruct Hin as [Hin|[Hin|[]]]; [contradiction|].
      subst. apply Hx. now left.
    + apply IH; auto.
Qed.

(* soundness of the equality tests used by the correspondence *)
Lemma list_eqb_eq : forall (A : Type) (e : A -> A -> bool),
  (forall x y, e x y = true -> x = y) -> forall a b, list_eqb e a b = true -> a = b.
Proof.
  intros A e He a. induction a as [|x a IH]; intros [|y b] H; simpl in H; try discriminate; auto.
  apply andb_true_iff in H. destruct H as [H1 H2]. f_equal; auto.
Qed.

Lemma opt_eqb_eq : forall (A : Type) (e : A -> A -> bool),
  (forall x y, e x y = true -> x = y) -> forall a b, opt_eqb e a b = true -> a = b.
Proof. intros A e He [x|] [y|] H; simpl in H; try discriminate; auto. f_equal; auto. Qed.

Lemma pair_eqb_eq : forall (A B : Type) (ea : A -> A -> bool) (eb : B -> B -> bool),
  (forall x y, ea x y = true -> x = y) -> (forall x y, eb x y = true -> x = y) ->
  forall p q, pair_eqb ea eb p q = true -> p = q.
Proof.
  intros A B ea eb Ha Hb [a b] [c d] H. unfold pair_eqb in H. simpl in H.
  apply andb_true_iff in H. destruct H. f_equal; auto.
Qed.

Lemma Zeqb_eq' : forall x y, Z.eqb x y = true -> x = y.
Proof. intros. now apply Z.eqb_eq. Qed.

Lemma lz_eqb_eq : forall a b, lz_eqb a b = true -> a = b.
Proof. apply list_eqb_eq. exact Zeqb_eq'. Qed.

Lemma trace_eqb_eq : forall a b, trace_eqb a b = true -> a = b.
Proof.
  apply list_eqb_eq. apply pair_eqb_eq; [|exact lz_eqb_eq].
  apply pair_eqb_eq; [exact Zeqb_eq'|exact lz_eqb_eq].
Qed.

Lemma all_eqb_eq : forall a b, all_eqb a b = true -> a = b.
Proof.
  apply opt_eqb_eq. apply pair_eqb_eq.
  - apply pair_eqb_eq; apply list_eqb_eq; exact lz_eqb_eq.
  - apply opt_eqb_eq. apply pair_eqb_eq; [|exact trace_eqb_eq].
    apply pair_eqb_eq; [|exact eqb_prop].
    apply pair_eqb_eq; [|exact lz_eqb_eq].
    apply pair_eqb_eq; [|exact lz_eqb_eq].
    apply list_eqb_eq. apply pair_eqb_eq; exact Zeqb_eq'.
Qed.

Lemma koenig_eqb_eq : forall a b, koenig_eqb a b = true -> a = b.
Proof.
  apply opt_eqb_eq. apply opt_eqb_eq. apply pair_eqb_eq; [|exact trace_eqb_eq].
  apply pair_eqb_eq; exact lz_eqb_eq.
Qed.

(* ================================================================================== *)
(* 1. the constructor: adjacency lists = edge set                                      *)
(* ================================================================================== *)
Definition edges_ok (nu nv : nat) (edges : list (nat * nat)) : Prop :=
  forall u v, In (u, v) edges -> u < nu /\ v < nv.

Record wf (g : graph) : Prop := {
  wf_lu : length (adj_u g) = num_u g;
  wf_lv : length (adj_v g) = num_v g;
  wf_uv : forall u v, In v (adjU g u) <-> In u (adjV g v)
}.

Lemma adjU_range : forall g u v, wf g -> In v (adjU g u) -> u < num_u g /\ v < num_v g.
Proof.
  intros g u v W H. split.
  - destruct (Nat.lt_ge_cases u (num_u g)) as [|Hge]; auto.
    unfold adjU in H. rewrite nth_overflow in H; [destruct H|]. rewrite (wf_lu g W). lia.
  - apply (wf_uv g W) in H.
    destruct (Nat.lt_ge_cases v (num_v g)) as [|Hge]; auto.
    unfold adjV in H. rewrite nth_overflow in H; [destruct H|]. rewrite (wf_lv g W). lia.
Qed.

Lemma adjV_range : forall g u v, wf g -> In u (adjV g v) -> u < num_u g /\ v < num_v g.
Proof. intros g u v W H. apply (wf_uv g W) in H. now apply adjU_range. Qed.

Lemma add_edge_adjU : forall g u0 v0 u v, u0 < length (adj_u g) ->
  (In v (adjU (add_edge g (u0, v0)) u) <-> In v (adjU g u) \/ (u = u0 /\ v = v0)).
Proof.
  intros g u0 v0 u v Hu. unfold add_edge, adjU at 1. simpl.
  destruct (memn v0 (adjU g u0)) eqn:E.
  - apply memn_In in E. fold (adjU g u). split; [auto|]. intros [H|[-> ->]]; auto.
  - rewrite nth_upd. destruct (Nat.eqb_spec u u0) as [->|Hne]; simpl.
    + apply Nat.ltb_lt in Hu. rewrite Hu. rewrite in_app_iff. simpl. split.
      * intros [H|[H|[]]]; auto.
      * intros [H|[_ ->]]; auto.
    + fold (adjU g u). split; [auto|]. intros [H|[H _]]; [auto|contradiction].
Qed.

Lemma add_edge_adjV : forall g u0 v0 u v, v0 < length (adj_v g) ->
  (In u (adjV (add_edge g (u0, v0)) v) <-> In u (adjV g v) \/ (u = u0 /\ v = v0)).
Proof.
  intros g u0 v0 u v Hv. unfold add_edge, adjV at 1. simpl.
  destruct (memn u0 (adjV g v0)) eqn:E.
  - apply memn_In in E. fold (adjV g v). split; [auto|]. intros [H|[-> ->]]; auto.
  - rewrite nth_upd. destruct (Nat.eqb_spec v v0) as [->|Hne]; simpl.
    + apply Nat.ltb_lt in Hv. rewrite Hv. rewrite in_app_iff. simpl. split.
      * intros [H|[H|[]]]; auto.
      * intros [H|[-> _]]; auto.
    + fold (adjV g v). split; [auto|]. intros [H|[_ H]]; [auto|contradiction].
Qed.

Lemma add_edge_lengths : forall g e,
  length (adj_u (add_edge g e)) = length (adj_u g) /\ length (adj_v (add_edge g e)) = length (adj_v g) /\
  num_u (add_edge g e) = num_u g /\ num_v (add_edge g e) = num_v g.
Proof.
  intros g e. unfold add_edge. simpl.
  destruct (memn (snd e) (adjU g (fst e))); destruct (memn (fst e) (adjV g (snd e)));
    rewrite ?upd_length; auto.
Qed.

Lemma fold_add_edge : forall edges g,
  (forall u v, In (u, v) edges -> u < length (adj_u g) /\ v < length (adj_v g)) ->
  let g' := fold_left add_edge edges g in
  length (adj_u g') = length (adj_u g) /\ length (adj_v g') = length (adj_v g) /\
  num_u g' = num_u g /\ num_v g' = num_v g /\
  (forall u v, In v (adjU g' u) <-> In v (adjU g u) \/ In (u, v) edges) /\
  (forall u v, In u (adjV g' v) <-> In u (adjV g v) \/ In (u, v) edges).
Proof.
  induction edges as [|[u0 v0] edges IH]; intros g Hok; simpl.
  - repeat split; auto; intros; tauto.
  - destruct (add_edge_lengths g (u0, v0)) as (L1 & L2 & L3 & L4).
    destruct (Hok u0 v0 (or_introl eq_refl)) as [Hu0 Hv0].
    assert (Hok' : forall u v, In (u, v) edges ->
              u < length (adj_u (add_edge g (u0, v0))) /\ v < length (adj_v (add_edge g (u0, v0)))).
    { intros u v H. rewrite L1, L2. apply Hok. now right. }
    destruct (IH (add_edge g (u0, v0)) Hok') as (I1 & I2 & I3 & I4 & I5 & I6).
    repeat split; try congruence.
    + rewrite I5. rewrite add_edge_adjU by assumption. intros [[H|[-> ->]]|H]; auto.
    + rewrite I5. rewrite add_edge_adjU by assumption. intros [H|[H|H]]; auto.
      inversion H; subst. auto.
    + rewrite I6. rewrite add_edge_adjV by assumption. intros [[H|[-> ->]]|H]; auto.
    + rewrite I6. rewrite add_edge_adjV by assumption. intros [H|[H|H]]; auto.
      inversion H; subst. auto.
Qed.

Lemma nth_repeat_nil : forall (A : Type) n i, nth i (repeat (@nil A) n) [] = [].
Proof. intros A n. induction n; intros [|i]; simpl; auto. Qed.

Theorem mk_graph_spec : forall nu nv edges, edges_ok nu nv edges ->
  let g := mk_graph nu nv edges in
  num_u g = nu /\ num_v g = nv /\ wf g /\
  (forall u v, In v (adjU g u) <-> In (u, v) edges) /\
  (forall u v, In u (adjV g v) <-> In (u, v) edges).
Proof.
  intros nu nv edges Hok. unfold mk_graph.
  destruct (fold_add_edge edges (empty_graph nu nv)) as (I1 & I2 & I3 & I4 & I5 & I6).
  { simpl. rewrite !repeat_length. exact Hok. }
  simpl in *. rewrite repeat_length in *.
  assert (A5 : forall u v, In v (adjU (fold_left add_edge edges (empty_graph nu nv)) u) <-> In (u, v) edges).
  { intros u v. rewrite I5. unfold adjU at 1. simpl. rewrite nth_repeat_nil. simpl. tauto. }
  assert (A6 : forall u v, In u (adjV (fold_left add_edge edges (empty_graph nu nv)) v) <-> In (u, v) edges).
  { intros u v. rewrite I6. unfold adjV at 1. simpl. rewrite nth_repeat_nil. simpl. tauto. }
  repeat split; auto; try congruence.
  - intros H. apply A6. now apply A5.
  - intros H. apply A5. now apply A6.
  - apply A5. - apply A5. - apply A6. - apply A6.
Qed.

(* ================================================================================== *)
(* 2. matchings and covers: weak duality                                               *)
(* ================================================================================== *)
Definition is_matching (M : list (nat * nat)) : Prop := NoDup (map fst M) /\ NoDup (map snd M).
Definition covers (E : list (nat * nat)) (cu cv : list nat) : Prop :=
  forall u v, In (u, v) E -> In u cu \/ In v cv.

Lemma filter_split_length : forall (A : Type) (p : A -> bool) l,
  length l = length (filter p l) + length (filter (fun x => negb (p x)) l).
Proof. intros A p l. induction l; simpl; auto. destruct (p a); simpl; lia. Qed.

Lemma NoDup_map_filter : forall (A B : Type) (f : A -> B) (p : A -> bool) l,
  NoDup (map f l) -> NoDup (map f (filter p l)).
Proof.
  intros A B f p l. induction l; simpl; intros H; auto.
  inversion H; subst. destruct (p a); simpl; auto. constructor; auto.
  intros Hin. apply H2. apply in_map_iff in Hin. destruct Hin as [x [Hx Hin]].
  apply filter_In in Hin. apply in_map_iff. exists x. tauto.
Qed.

Theorem weak_duality : forall (M : list (nat * nat)) (cu cv : list nat),
  is_matching M -> covers M cu cv -> length M <= length cu + length cv.
Proof.
  intros M cu cv [HU HV] Hc.
  rewrite (filter_split_length _ (fun p => memn (fst p) cu) M).
  apply Nat.add_le_mono.
  - rewrite <- (map_length fst). apply NoDup_incl_length.
    + now apply NoDup_map_filter.
    + intros u Hu. apply in_map_iff in Hu. destruct Hu as [[a b] [<- Hin]].
      apply filter_In in Hin. simpl in *. now apply memn_In.
  - rewrite <- (map_length snd). apply NoDup_incl_length.
    + now apply NoDup_map_filter.
    + intros v Hv. apply in_map_iff in Hv. destruct Hv as [[a b] [<- Hin]].
      apply filter_In in Hin. simpl in *. destruct Hin as [Hin Hn].
      apply negb_true_iff in Hn. apply memn_nIn in Hn.
      destruct (Hc a b Hin); [contradiction|assumption].
Qed.

(* a cover of the graph covers every matching contained in the graph *)
Theorem cover_ge_matching : forall (E M : list (nat * nat)) (cu cv : list nat),
  is_matching M -> incl M E -> covers E cu cv -> length M <= length cu + length cv.
Proof.
  intros E M cu cv HM Hi Hc. apply weak_duality; auto.
  intros u v H. apply Hc. now apply Hi.
Qed.

Theorem equal_sizes_optimal : forall (E M : list (nat * nat)) (cu cv : list nat),
  is_matching M -> incl M E -> covers E cu cv -> length cu + length cv = length M ->
  (forall M', is_matching M' -> incl M' E -> length M' <= length M) /\
  (forall cu' cv', covers E cu' cv' -> length cu + length cv <= length cu' + length cv').
Proof.
  intros E M cu cv HM Hi Hc Heq. split.
  - intros M' HM' Hi'. rewrite <- Heq. now apply (cover_ge_matching E).
  - intros cu' cv' Hc'. rewrite Heq. now apply (cover_ge_matching E).
Qed.

(* ================================================================================== *)
(* 3. the Koenig construction: exploration closure, cover, range, fuel                 *)
(* ================================================================================== *)
Section Explore.
  Variable g : graph.
  Variable M : list (nat * nat).
  Hypothesis W : wf g.

  (* every non-matching edge at u leads into vv *)
  Definition closed (vv : list nat) (u : nat) : Prop :=
    forall v, In v (adjU g u) -> ~ In (u, v) M -> In v vv.
  Definition has_partner (vv : list nat) (u : nat) : Prop := exists v, In v vv /\ In (u, v) M.
  Definition mono (s s' : vis) : Prop :=
    incl (fst s) (fst s') /\ incl (snd s) (snd s') /\
    (forall v, In v (snd s') -> In v (snd s) \/ v < num_v g).

  Lemma closed_mono : forall vv vv' u, incl vv vv' -> closed vv u -> closed vv' u.
  Proof. intros vv vv' u Hi Hc v H1 H2. apply Hi. now apply Hc. Qed.
  Lemma has_partner_mono : forall vv vv' u, incl vv vv' -> has_partner vv u -> has_partner vv' u.
  Proof. intros vv vv' u Hi [v [H1 H2]]. exists v. split; auto. Qed.
  Lemma mono_refl : forall s, mono s s.
  Proof. intros s. repeat split; try apply incl_refl. auto. Qed.
  Lemma mono_trans : forall s1 s2 s3, mono s1 s2 -> mono s2 s3 -> mono s1 s3.
  Proof.
    intros s1 s2 s3 (A1 & A2 & A3) (B1 & B2 & B3). repeat split.
    - eapply incl_tran; eauto. - eapply incl_tran; eauto.
    - intros v Hv. destruct (B3 v Hv) as [H|H]; auto.
  Qed.

  (* what a call explore(w) guarantees *)
  Definition rec_spec (rec : nat -> vis -> option vis) : Prop :=
    forall w s s', rec w s = Some s' ->
      mono s s' /\ In w (fst s') /\
      (forall u, In u (fst s') -> In u (fst s) \/ (closed (snd s') u /\ (u = w \/ has_partner (snd s') u))).

  Lemma expl_u_spec : forall rec, rec_spec rec -> forall v ws s s',
    expl_u rec M v ws s = Some s' -> In v (snd s) ->
    mono s s' /\
    (forall u, In u (fst s') -> In u (fst s) \/ (closed (snd s') u /\ has_partner (snd s') u)).
  Proof.
    intros rec HR v ws. induction ws as [|w ws IH]; intros s s' H Hv; simpl in H.
    - inversion H; subst. split; [apply mono_refl|auto].
    - destruct (memp (w, v) M) eqn:E.
      + destruct (rec w s) as [s1|] eqn:E1; [|discriminate].
        destruct (HR _ _ _ E1) as (Hm1 & _ & Hn1).
        assert (Hv1 : In v (snd s1)) by (apply Hm1; assumption).
        destruct (IH _ _ H Hv1) as (Hm2 & Hn2). split; [eapply mono_trans; eauto|].
        intros u Hu. destruct (Hn2 u Hu) as [Hu1|]; auto.
        destruct (Hn1 u Hu1) as [|[Hc Hp]]; auto. right.
        destruct Hm2 as (_ & Hi & _). split; [eapply closed_mono; eauto|].
        destruct Hp as [->|Hp]; [|eapply has_partner_mono; eauto].
        exists v. split; [apply Hi; assumption|now apply memp_In].
      + eauto.
  Qed.

  Lemma expl_v_spec : forall rec, rec_spec rec -> forall us vs s s',
    expl_v rec g M us vs s = Some s' -> incl vs (adjU g us) ->
    mono s s' /\
    (forall u, In u (fst s') -> In u (fst s) \/ (closed (snd s') u /\ has_partner (snd s') u)) /\
    (forall v, In v vs -> ~ In (us, v) M -> In v (snd s')).
  Proof.
    intros rec HR us vs. induction vs as [|v vs IH]; intros s s' H Hin; simpl in H.
    - inversion H; subst. split; [apply mono_refl|]. split; [auto|]. intros v [].
    - assert (Hin' : incl vs (adjU g us)) by (intros x Hx; apply Hin; now right).
      destruct (memp (us, v) M) eqn:E.
      + destruct (IH _ _ H Hin') as (Hm & Hn & Hc). split; [exact Hm|split; [exact Hn|]].
        intros v' [<-|Hv'] Hnm; auto. apply memp_In in E. contradiction.
      + destruct (memn v (snd s)) eqn:E2.
        * destruct (IH _ _ H Hin') as (Hm & Hn & Hc). split; [exact Hm|split; [exact Hn|]].
          intros v' [<-|Hv'] Hnm; auto. apply memn_In in E2. now apply Hm.
        * destruct (expl_u rec M v (adjV g v) (fst s, snd s ++ [v])) as [s1|] eqn:E1; [|discriminate].
          apply expl_u_spec in E1; auto; [|simpl; apply in_or_app; right; now left].
          destruct E1 as (Hm1 & Hn1). simpl in Hn1.
          destruct (IH _ _ H Hin') as (Hm2 & Hn2 & Hc2).
          assert (Hm0 : mono s (fst s, snd s ++ [v])).
          { repeat split; simpl; try apply incl_refl; [apply incl_appl, incl_refl|].
            intros x Hx. apply in_app_or in Hx. destruct Hx as [|[<-|[]]]; auto.
            right. apply (adjU_range g us); auto. apply Hin. now left. }
          assert (Hm : mono s s') by (eapply mono_trans; [exact Hm0|eapply mono_trans; eauto]).
          split; [exact Hm|]. split.
          -- intros u Hu. destruct (Hn2 u Hu) as [Hu1|]; auto.
             destruct (Hn1 u Hu1) as [|[Hc Hp]]; auto. right.
             destruct Hm2 as (_ & Hi & _). split; [eapply closed_mono; eauto|eapply has_partner_mono; eauto].
          -- intros v' [<-|Hv'] Hnm; auto.
             destruct Hm2 as (_ & Hi & _). apply Hi. destruct Hm1 as (_ & Hi1 & _). apply Hi1.
             simpl. apply in_or_app. right. now left.
  Qed.

  Lemma explore_spec : forall f, rec_spec (explore f g M).
  Proof.
    induction f as [|f IH]; intros us s s' H; simpl in H; [discriminate|].
    destruct (memn us (fst s)) eqn:E.
    - inversion H; subst. apply memn_In in E. split; [apply mono_refl|]. split; auto.
    - apply expl_v_spec in H; auto; [|apply incl_refl]. simpl in H. destruct H as (Hm & Hn & Hc).
      assert (Hm0 : mono s (fst s ++ [us], snd s)).
      { repeat split; simpl; try apply incl_refl; [apply incl_appl, incl_refl|auto]. }
      split; [eapply mono_trans; eauto|]. split.
      + destruct Hm as (Hi & _). apply Hi. simpl. apply in_or_app. right. now left.
      + intros u Hu. destruct (Hn u Hu) as [Hu1|[Hc1 Hp1]]; auto.
        apply in_app_or in Hu1. destruct Hu1 as [Hu1|[<-|[]]]; [now left|].
        right. split; [|now left]. intros v Hv Hnm. now apply Hc.
  Qed.

  (* ---- fuel ---------------------------------------------------------------------- *)
  Lemma NoDup_range_length : forall l n, NoDup l -> (forall x, In x l -> x < n) -> length l <= n.
  Proof.
    intros l n Hn Hr. rewrite <- (seq_length n 0). apply NoDup_incl_length; auto.
    intros x Hx. apply in_seq. specialize (Hr x Hx). lia.
  Qed.

  Definition okvis (s : vis) : Prop := NoDup (fst s) /\ forall u, In u (fst s) -> u < num_u g.

  Definition rec_total (rec : nat -> vis -> option vis) (f : nat) : Prop :=
    forall us s, okvis s -> us < num_u g -> num_u g + 1 <= f + length (fst s) ->
      exists s', rec us s = Some s' /\ okvis s' /\ length (fst s) <= length (fst s').

  Lemma expl_u_total : forall rec f, rec_total rec f -> forall v ws s,
    (forall w, In w ws -> w < num_u g) -> okvis s -> num_u g + 1 <= f + length (fst s) ->
    exists s', expl_u rec M v ws s = Some s' /\ okvis s' /\ length (fst s) <= length (fst s').
  Proof.
    intros rec f HT v ws. induction ws as [|w ws IH]; intros s Hws Hok Hf; simpl.
    - exists s. auto.
    - assert (Hws' : forall w', In w' ws -> w' < num_u g) by (intros; apply Hws; now right).
      destruct (memp (w, v) M).
      + destruct (HT w s Hok (Hws w (or_introl eq_refl)) Hf) as (s1 & -> & Hok1 & Hl1).
        destruct (IH s1 Hws' Hok1) as (s' & E & Hok' & Hl'); [lia|].
        exists s'. repeat split; auto; try apply Hok'. lia.
      + apply IH; auto.
  Qed.

  Lemma expl_v_total : forall rec f, rec_total rec f -> forall us vs s,
    okvis s -> num_u g + 1 <= f + length (fst s) ->
    exists s', expl_v rec g M us vs s = Some s' /\ okvis s' /\ length (fst s) <= length (fst s').
  Proof.
    intros rec f HT us vs. induction vs as [|v vs IH]; intros s Hok Hf; simpl.
    - exists s. auto.
    - destruct (memp (us, v) M); [apply IH; auto|].
      destruct (memn v (snd s)); [apply IH; auto|].
      destruct (expl_u_total rec f HT v (adjV g v) (fst s, snd s ++ [v])) as (s1 & -> & Hok1 & Hl1); auto.
      { intros w Hw. apply (adjV_range g w v W Hw). }
      simpl in Hl1. destruct (IH s1 Hok1) as (s' & E & Hok' & Hl'); [lia|].
      exists s'. repeat split; auto; try apply Hok'. lia.
  Qed.

  Lemma explore_total : forall f, rec_total (explore f g M) f.
  Proof.
    induction f as [|f IH]; intros us s Hok Hus Hf.
    - exfalso. destruct Hok as [Hn Hr]. pose proof (NoDup_range_length _ _ Hn Hr). lia.
    - simpl. destruct (memn us (fst s)) eqn:E.
      + exists s. auto.
      + apply memn_nIn in E. destruct Hok as [Hn Hr].
        destruct (expl_v_total _ f IH us (adjU g us) (fst s ++ [us], snd s)) as (s' & E' & Hok' & Hl').
        * split; simpl.
          -- now apply NoDup_snoc.
          -- intros u Hu. apply in_app_or in Hu. destruct Hu as [|[<-|[]]]; auto.
        * simpl. rewrite app_length. simpl. lia.
        * exists s'. split; auto. split; auto. simpl in Hl'. rewrite app_length in Hl'. simpl in Hl'. lia.
  Qed.
End Explore.

Lemma In_sort_dedup : forall l x, In x (sort_dedup l) <-> In x l.
Proof.
  intros l x. unfold sort_dedup. rewrite filter_In, memn_In, in_seq. split; [tauto|].
  intros H. split; auto. split; [lia|]. simpl.
  assert (Hle : list_max l <= list_max l) by lia. apply list_max_le in Hle.
  rewrite Forall_forall in Hle. specialize (Hle x H). lia.
Qed.

Lemma NoDup_sort_dedup : forall l, NoDup (sort_dedup l).
Proof. intros l. unfold sort_dedup. apply NoDup_filter. apply seq_NoDup. Qed.

Section Koenig.
  Variable g : graph.
  Variable M : list (nat * nat).
  Hypothesis W : wf g.

  Definition kinv (acc : list nat * list nat * trace) : Prop :=
    let '(zu, zv, _) := acc in
    (forall u, In u zu -> closed g M zv u /\ (~ In u (map fst M) \/ has_partner M zv u)) /\
    (forall v, In v zv -> v < num_v g).

  Lemma koenig_fold : forall starts acc,
    (forall r, In r starts -> r < num_u g /\ ~ In r (map fst M)) -> kinv acc ->
    exists acc', fold_left (koenig_step g M) starts (Some acc) = Some acc' /\ kinv acc' /\
      (forall u, In u (fst (fst acc)) \/ In u starts -> In u (fst (fst acc'))).
  Proof.
    induction starts as [|r starts IH]; intros [[zu zv] tr] Hs Hk; simpl.
    - exists (zu, zv, tr). split; [reflexivity|]. split; [exact Hk|]. simpl. tauto.
    - destruct (Hs r (or_introl eq_refl)) as [Hr Hnm].
      destruct (explore_total g M W (explore_fuel g) r ([], [])) as (s & E & _ & _).
      { split; simpl; [constructor|tauto]. } { assumption. } { unfold explore_fuel. simpl. lia. }
      rewrite E. destruct (explore_spec g M W _ _ _ _ E) as (Hm & Hin & Hn). simpl in *.
      destruct (IH (zu ++ fst s, zv ++ snd s, tr ++ [(r, s)])) as (acc' & E' & Hk' & Hi').
      { intros r' Hr'. apply Hs. now right. }
      { destruct Hk as [K1 K2]. split.
        - intros u Hu. apply in_app_or in Hu. destruct Hu as [Hu|Hu].
          + destruct (K1 u Hu) as [Hc Hp]. split.
            * eapply closed_mono; [|exact Hc]. apply incl_appl, incl_refl.
            * destruct Hp; [now left|right]. eapply has_partner_mono; [|eassumption]. apply incl_appl, incl_refl.
          + destruct (Hn u Hu) as [[]|[Hc Hp]]. split.
            * eapply closed_mono; [|exact Hc]. apply incl_appr, incl_refl.
            * destruct Hp as [->|Hp]; [now left|right].
              eapply has_partner_mono; [|eassumption]. apply incl_appr, incl_refl.
        - intros v Hv. apply in_app_or in Hv. destruct Hv as [Hv|Hv]; auto.
          destruct Hm as (_ & _ & Hrng). destruct (Hrng v Hv) as [[]|]; auto. }
      exists acc'. split; [exact E'|]. split; [exact Hk'|].
      intros u Hu. apply Hi'. simpl. destruct Hu as [Hu|[<-|Hu]]; auto.
      + left. apply in_or_app. now left.
      + left. apply in_or_app. now right.
  Qed.

  Lemma unmatched_u_spec : forall r, In r (unmatched_u g M) <-> r < num_u g /\ ~ In r (map fst M).
  Proof.
    intros r. unfold unmatched_u. rewrite filter_In, in_seq, negb_true_iff, memn_nIn. split.
    - intros [[_ H] H']. split; auto.
    - intros [H H']. split; auto. lia.
  Qed.

  Lemma koenig_visit_spec : exists zu zv tr, koenig_visit g M = Some (zu, zv, tr) /\ kinv (zu, zv, tr) /\
    (forall u, u < num_u g -> ~ In u (map fst M) -> In u zu).
  Proof.
    destruct (koenig_fold (unmatched_u g M) ([], [], [])) as ([[zu zv] tr] & E & Hk & Hi).
    - intros r Hr. now apply unmatched_u_spec.
    - split; simpl; intros ? [].
    - exists zu, zv, tr. split; [exact E|]. split; [exact Hk|].
      intros u Hu Hn. apply Hi. right. now apply unmatched_u_spec.
  Qed.

  Theorem koenig_total : exists cu cv, koenig g M = Some (cu, cv).
  Proof.
    destruct koenig_visit_spec as (zu & zv & tr & E & _). unfold koenig. rewrite E. eauto.
  Qed.

  Theorem koenig_range : forall cu cv, koenig g M = Some (cu, cv) ->
    (forall u, In u cu -> u < num_u g) /\ (forall v, In v cv -> v < num_v g) /\ NoDup cu /\ NoDup cv.
  Proof.
    intros cu cv H. destruct koenig_visit_spec as (zu & zv & tr & E & [K1 K2] & _).
    unfold koenig in H. rewrite E in H. inversion H; subst. split; [|split; [|split]].
    - intros u Hu. apply filter_In in Hu. destruct Hu as [Hu _]. apply in_seq in Hu. lia.
    - intros v Hv. rewrite In_sort_dedup in Hv. auto.
    - apply NoDup_filter, seq_NoDup.
    - apply NoDup_sort_dedup.
  Qed.

  (* the matching is only required to use every U vertex at most once *)
  Theorem koenig_cover : (forall u v v', In (u, v) M -> In (u, v') M -> v = v') ->
    forall cu cv, koenig g M = Some (cu, cv) ->
    forall u v, In v (adjU g u) -> In u cu \/ In v cv.
  Proof.
    intros HF cu cv H u v He. destruct koenig_visit_spec as (zu & zv & tr & E & [K1 K2] & _).
    unfold koenig in H. rewrite E in H. inversion H; subst. clear H.
    destruct (adjU_range g u v W He) as [Hu Hv].
    destruct (memn u zu) eqn:Ez.
    - right. rewrite In_sort_dedup. apply memn_In in Ez. destruct (K1 u Ez) as [Hc Hp].
      destruct (memp (u, v) M) eqn:Em.
      + apply memp_In in Em. destruct Hp as [Hp|[v' [Hv' Hm']]].
        * exfalso. apply Hp. apply in_map_iff. exists (u, v). auto.
        * now rewrite (HF u v v' Em Hm').
      + apply memp_nIn in Em. now apply Hc.
    - left. apply filter_In. split; [apply in_seq; lia|]. now rewrite Ez.
  Qed.
End Koenig.
