(* Proofs about the model of pytreenet/ttno/bipartite_graph.py (Bip/Model.v). *)
From Coq Require Import List Arith Bool ZArith Lia Permutation.
From PTN Require Import Bip.Model.
Import ListNotations.

(* ================================================================================== *)
(* 0. basics                                                                           *)
(* ================================================================================== *)
Lemma memn_In : forall x l, memn x l = true <-> In x l.
Proof.
  intros x l. unfold memn. rewrite existsb_exists. split.
  - intros [y [H1 H2]]. apply Nat.eqb_eq in H2. subst. assumption.
  - intros H. exists x. split; [assumption | apply Nat.eqb_refl].
Qed.

Lemma memn_nIn : forall x l, memn x l = false <-> ~ In x l.
Proof.
  intros x l. rewrite <- memn_In. destruct (memn x l); intuition congruence.
Qed.

Lemma memp_In : forall p l, memp p l = true <-> In p l.
Proof.
  intros [a b] l. unfold memp. rewrite existsb_exists. split.
  - intros [[c d] [H1 H2]]. simpl in H2. apply andb_true_iff in H2. destruct H2 as [H2 H3].
    apply Nat.eqb_eq in H2. apply Nat.eqb_eq in H3. subst. assumption.
  - intros H. exists (a, b). split; [assumption|]. simpl. now rewrite !Nat.eqb_refl.
Qed.

Lemma memp_nIn : forall p l, memp p l = false <-> ~ In p l.
Proof.
  intros p l. rewrite <- memp_In. destruct (memp p l); intuition congruence.
Qed.

Lemma upd_length : forall (A : Type) i (x : A) l, length (upd i x l) = length l.
Proof. intros A i x l. revert i. induction l; intros [|i]; simpl; auto. Qed.

Lemma nth_upd_same : forall (A : Type) i (x d : A) l, i < length l -> nth i (upd i x l) d = x.
Proof.
  intros A i x d l. revert i. induction l; intros [|i] H; simpl in *; try lia; auto.
  apply IHl. lia.
Qed.

Lemma nth_upd_other : forall (A : Type) i j (x d : A) l, i <> j -> nth i (upd j x l) d = nth i l d.
Proof.
  intros A i j x d l. revert i j. induction l; intros [|i] [|j] H; simpl; auto; try lia.
Qed.

Lemma nth_upd_oob : forall (A : Type) j (x : A) l, length l <= j -> upd j x l = l.
Proof.
  intros A j x l. revert j. induction l; intros [|j] H; simpl in *; auto; try lia.
  f_equal. apply IHl. lia.
Qed.

Lemma nth_upd : forall (A : Type) i j (x d : A) l,
  nth i (upd j x l) d = if (i =? j) && (j <? length l) then x else nth i l d.
Proof.
  intros. destruct (Nat.eqb_spec i j).
  - subst. destruct (Nat.ltb_spec j (length l)); simpl.
    + now apply nth_upd_same.
    + now rewrite nth_upd_oob.
  - simpl. now apply nth_upd_other.
Qed.

(* soundness of the equality tests used by the correspondence *)
Lemma list_eqb_eq : forall (A : Type) (e : A -> A -> bool),
  (forall x y, e x y = true -> x = y) -> forall a b, list_eqb e a b = true -> a = b.
Proof.
  intros A e He a. induction a as [|x a IH]; intros [|y b] H; simpl in H; try discriminate; auto.
  apply andb_true_iff in H. destruct H as [H1 H2]. f_equal; auto.
Qed.

Lemma opt_eqb_eq : forall (A : Type) (e : A -> A -> bool),
  (forall x y, e x y = true -> x = y) -> forall a b, opt_eqb e a b = true -> a = b.
Proof. intros A e He [x|] [y|] H; simpl in H; try discriminate; auto. f_equal; auto. Qed.

Lemma pair_eqb_eq : forall (A B : Type) (ea : A -> A -> bool) (eb : B -> B -> bool),
  (forall x y, ea x y = true -> x = y) -> (forall x y, eb x y = true -> x = y) ->
  forall p q, pair_eqb ea eb p q = true -> p = q.
Proof.
  intros A B ea eb Ha Hb [a b] [c d] H. unfold pair_eqb in H. simpl in H.
  apply andb_true_iff in H. destruct H. f_equal; auto.
Qed.

Lemma Zeqb_eq' : forall x y, Z.eqb x y = true -> x = y.
Proof. intros. now apply Z.eqb_eq. Qed.

Lemma lz_eqb_eq : forall a b, lz_eqb a b = true -> a = b.
Proof. apply list_eqb_eq. exact Zeqb_eq'. Qed.

Lemma trace_eqb_eq : forall a b, trace_eqb a b = true -> a = b.
Proof.
  apply list_eqb_eq. apply pair_eqb_eq; [|exact lz_eqb_eq].
  apply pair_eqb_eq; [exact Zeqb_eq'|exact lz_eqb_eq].
Qed.

Lemma all_eqb_eq : forall a b, all_eqb a b = true -> a = b.
Proof.
  apply opt_eqb_eq. apply pair_eqb_eq.
  - apply pair_eqb_eq; apply list_eqb_eq; exact lz_eqb_eq.
  - apply opt_eqb_eq. apply pair_eqb_eq; [|exact trace_eqb_eq].
    apply pair_eqb_eq; [|exact eqb_prop].
    apply pair_eqb_eq; [|exact lz_eqb_eq].
    apply pair_eqb_eq; [|exact lz_eqb_eq].
    apply list_eqb_eq. apply pair_eqb_eq; exact Zeqb_eq'.
Qed.

Lemma koenig_eqb_eq : forall a b, koenig_eqb a b = true -> a = b.
Proof.
  apply opt_eqb_eq. apply opt_eqb_eq. apply pair_eqb_eq; [|exact trace_eqb_eq].
  apply pair_eqb_eq; exact lz_eqb_eq.
Qed.

(* ================================================================================== *)
(* 1. the constructor: adjacency lists = edge set                                      *)
(* ================================================================================== *)
Definition edges_ok (nu nv : nat) (edges : list (nat * nat)) : Prop :=
  forall u v, In (u, v) edges -> u < nu /\ v < nv.

Record wf (g : graph) : Prop := {
  wf_lu : length (adj_u g) = num_u g;
  wf_lv : length (adj_v g) = num_v g;
  wf_uv : forall u v, In v (adjU g u) <-> In u (adjV g v)
}.

Lemma adjU_range : forall g u v, wf g -> In v (adjU g u) -> u < num_u g /\ v < num_v g.
Proof.
  intros g u v W H. split.
  - destruct (Nat.lt_ge_cases u (num_u g)) as [|Hge]; auto.
    unfold adjU in H. rewrite nth_overflow in H; [destruct H|]. rewrite (wf_lu g W). lia.
  - apply (wf_uv g W) in H.
    destruct (Nat.lt_ge_cases v (num_v g)) as [|Hge]; auto.
    unfold adjV in H. rewrite nth_overflow in H; [destruct H|]. rewrite (wf_lv g W). lia.
Qed.

Lemma adjV_range : forall g u v, wf g -> In u (adjV g v) -> u < num_u g /\ v < num_v g.
Proof. intros g u v W H. apply (wf_uv g W) in H. now apply adjU_range. Qed.

Lemma add_edge_adjU : forall g u0 v0 u v, u0 < length (adj_u g) ->
  (In v (adjU (add_edge g (u0, v0)) u) <-> In v (adjU g u) \/ (u = u0 /\ v = v0)).
Proof.
  intros g u0 v0 u v Hu. unfold add_edge, adjU at 1. simpl.
  destruct (memn v0 (adjU g u0)) eqn:E.
  - apply memn_In in E. fold (adjU g u). split; [auto|]. intros [H|[-> ->]]; auto.
  - rewrite nth_upd. destruct (Nat.eqb_spec u u0) as [->|Hne]; simpl.
    + apply Nat.ltb_lt in Hu. rewrite Hu. rewrite in_app_iff. simpl. split.
      * intros [H|[H|[]]]; auto.
      * intros [H|[_ ->]]; auto.
    + fold (adjU g u). split; [auto|]. intros [H|[H _]]; [auto|contradiction].
Qed.

Lemma add_edge_adjV : forall g u0 v0 u v, v0 < length (adj_v g) ->
  (In u (adjV (add_edge g (u0, v0)) v) <-> In u (adjV g v) \/ (u = u0 /\ v = v0)).
Proof.
  intros g u0 v0 u v Hv. unfold add_edge, adjV at 1. simpl.
  destruct (memn u0 (adjV g v0)) eqn:E.
  - apply memn_In in E. fold (adjV g v). split; [auto|]. intros [H|[-> ->]]; auto.
  - rewrite nth_upd. destruct (Nat.eqb_spec v v0) as [->|Hne]; simpl.
    + apply Nat.ltb_lt in Hv. rewrite Hv. rewrite in_app_iff. simpl. split.
      * intros [H|[H|[]]]; auto.
      * intros [H|[-> _]]; auto.
    + fold (adjV g v). split; [auto|]. intros [H|[_ H]]; [auto|contradiction].
Qed.

Lemma add_edge_lengths : forall g e,
  length (adj_u (add_edge g e)) = length (adj_u g) /\ length (adj_v (add_edge g e)) = length (adj_v g) /\
  num_u (add_edge g e) = num_u g /\ num_v (add_edge g e) = num_v g.
Proof.
  intros g e. unfold add_edge. simpl.
  destruct (memn (snd e) (adjU g (fst e))); destruct (memn (fst e) (adjV g (snd e)));
    rewrite ?upd_length; auto.
Qed.

Lemma fold_add_edge : forall edges g,
  (forall u v, In (u, v) edges -> u < length (adj_u g) /\ v < length (adj_v g)) ->
  let g' := fold_left add_edge edges g in
  length (adj_u g') = length (adj_u g) /\ length (adj_v g') = length (adj_v g) /\
  num_u g' = num_u g /\ num_v g' = num_v g /\
  (forall u v, In v (adjU g' u) <-> In v (adjU g u) \/ In (u, v) edges) /\
  (forall u v, In u (adjV g' v) <-> In u (adjV g v) \/ In (u, v) edges).
Proof.
  induction edges as [|[u0 v0] edges IH]; intros g Hok; simpl.
  - repeat split; auto; intros; tauto.
  - destruct (add_edge_lengths g (u0, v0)) as (L1 & L2 & L3 & L4).
    destruct (Hok u0 v0 (or_introl eq_refl)) as [Hu0 Hv0].
    assert (Hok' : forall u v, In (u, v) edges ->
              u < length (adj_u (add_edge g (u0, v0))) /\ v < length (adj_v (add_edge g (u0, v0)))).
    { intros u v H. rewrite L1, L2. apply Hok. now right. }
    destruct (IH (add_edge g (u0, v0)) Hok') as (I1 & I2 & I3 & I4 & I5 & I6).
    repeat split; try congruence.
    + rewrite I5. rewrite add_edge_adjU by assumption. intros [[H|[-> ->]]|H]; auto.
    + rewrite I5. rewrite add_edge_adjU by assumption. intros [H|[H|H]]; auto.
      inversion H; subst. auto.
    + rewrite I6. rewrite add_edge_adjV by assumption. intros [[H|[-> ->]]|H]; auto.
    + rewrite I6. rewrite add_edge_adjV by assumption. intros [H|[H|H]]; auto.
      inversion H; subst. auto.
Qed.

Lemma nth_repeat_nil : forall (A : Type) n i, nth i (repeat (@nil A) n) [] = [].
Proof. intros A n. induction n; intros [|i]; simpl; auto. Qed.

Theorem mk_graph_spec : forall nu nv edges, edges_ok nu nv edges ->
  let g := mk_graph nu nv edges in
  num_u g = nu /\ num_v g = nv /\ wf g /\
  (forall u v, In v (adjU g u) <-> In (u, v) edges) /\
  (forall u v, In u (adjV g v) <-> In (u, v) edges).
Proof.
  intros nu nv edges Hok. unfold mk_graph.
  destruct (fold_add_edge edges (empty_graph nu nv)) as (I1 & I2 & I3 & I4 & I5 & I6).
  { simpl. rewrite !repeat_length. exact Hok. }
  simpl in *. rewrite repeat_length in *.
  assert (A5 : forall u v, In v (adjU (fold_left add_edge edges (empty_graph nu nv)) u) <-> In (u, v) edges).
  { intros u v. rewrite I5. unfold adjU at 1. simpl. rewrite nth_repeat_nil. simpl. tauto. }
  assert (A6 : forall u v, In u (adjV (fold_left add_edge edges (empty_graph nu nv)) v) <-> In (u, v) edges).
  { intros u v. rewrite I6. unfold adjV at 1. simpl. rewrite nth_repeat_nil. simpl. tauto. }
  repeat split; auto; try congruence.
  - intros H. apply A6. now apply A5.
  - intros H. apply A5. now apply A6.
  - apply A5. - apply A5. - apply A6. - apply A6.
Qed.

(* ================================================================================== *)
(* 2. matchings and covers: weak duality                                               *)
(* ================================================================================== *)
Definition is_matching (M : list (nat * nat)) : Prop := NoDup (map fst M) /\ NoDup (map snd M).
Definition covers (E : list (nat * nat)) (cu cv : list nat) : Prop :=
  forall u v, In (u, v) E -> In u cu \/ In v cv.

Lemma filter_split_length : forall (A : Type) (p : A -> bool) l,
  length l = length (filter p l) + length (filter (fun x => negb (p x)) l).
Proof. intros A p l. induction l; simpl; auto. destruct (p a); simpl; lia. Qed.

Lemma NoDup_map_filter : forall (A B : Type) (f : A -> B) (p : A -> bool) l,
  NoDup (map f l) -> NoDup (map f (filter p l)).
Proof.
  intros A B f p l. induction l; simpl; intros H; auto.
  inversion H; subst. destruct (p a); simpl; auto. constructor; auto.
  intros Hin. apply H2. apply in_map_iff in Hin. destruct Hin as [x [Hx Hin]].
  apply filter_In in Hin. apply in_map_iff. exists x. tauto.
Qed.

Theorem weak_duality : forall (M : list (nat * nat)) (cu cv : list nat),
  is_matching M -> covers M cu cv -> length M <= length cu + length cv.
Proof.
  intros M cu cv [HU HV] Hc.
  rewrite (filter_split_length _ (fun p => memn (fst p) cu) M).
  apply Nat.add_le_mono.
  - rewrite <- (map_length fst). apply NoDup_incl_length.
    + now apply NoDup_map_filter.
    + intros u Hu. apply in_map_iff in Hu. destruct Hu as [[a b] [<- Hin]].
      apply filter_In in Hin. simpl in *. now apply memn_In.
  - rewrite <- (map_length snd). apply NoDup_incl_length.
    + now apply NoDup_map_filter.
    + intros v Hv. apply in_map_iff in Hv. destruct Hv as [[a b] [<- Hin]].
      apply filter_In in Hin. simpl in *. destruct Hin as [Hin Hn].
      apply negb_true_iff in Hn. apply memn_nIn in Hn.
      destruct (Hc a b Hin); [contradiction|assumption].
Qed.

(* a cover of the graph covers every matching contained in the graph *)
Theorem cover_ge_matching : forall (E M : list (nat * nat)) (cu cv : list nat),
  is_matching M -> incl M E -> covers E cu cv -> length M <= length cu + length cv.
Proof.
  intros E M cu cv HM Hi Hc. apply weak_duality; auto.
  intros u v H. apply Hc. now apply Hi.
Qed.

Theorem equal_sizes_optimal : forall (E M : list (nat * nat)) (cu cv : list nat),
  is_matching M -> incl M E -> covers E cu cv -> length cu + length cv = length M ->
  (forall M', is_matching M' -> incl M' E -> length M' <= length M) /\
  (forall cu' cv', covers E cu' cv' -> length cu + length cv <= length cu' + length cv').
Proof.
  intros E M cu cv HM Hi Hc Heq. split.
  - intros M' HM' Hi'. rewrite <- Heq. now apply (cover_ge_matching E).
  - intros cu' cv' Hc'. rewrite Heq. now apply (cover_ge_matching E).
Qed.
