(* Model of pytreenet/ttno/bipartite_graph.py:
     BipartiteGraph.__init__ (adjacency lists with duplicate-edge suppression),
     HopcroftKarp (BFS layering with the NIL vertex, DFS augmentation, outer loop),
     minimum_vertex_cover and _explore_alternating_paths (Koenig construction).
   Definitions only; proofs are in ModelProofs.v.

   Conventions.  Vertices of U and V are naturals 0,1,...  The NIL vertex (index -1 in
   the code) is `None`, a proper U vertex u is `Some u`; `matched_pairs_u/v` are lists of
   `option nat`.  The dict `dist` (keys -1,0,..,num_u-1) is a total list of length
   num_u+1: NIL at position 0, vertex u at position u+1.  The FIFO queue is a list (get
   from the head, put at the tail).  All loops follow the iteration order of the code;
   recursion (DFS, exploration) and the two `while` loops run on explicit fuel and return
   `None` on exhaustion; ModelProofs shows that the fuel supplied below always suffices. *)
From Coq Require Import List Arith Bool ZArith.
Import ListNotations.

Definition memn (x : nat) (l : list nat) : bool := existsb (Nat.eqb x) l.
Definition memp (p : nat * nat) (l : list (nat * nat)) : bool :=
  existsb (fun q => Nat.eqb (fst p) (fst q) && Nat.eqb (snd p) (snd q)) l.

Fixpoint upd {A : Type} (i : nat) (x : A) (l : list A) : list A :=
  match l, i with
  | [], _ => []
  | _ :: t, O => x :: t
  | h :: t, S i' => h :: upd i' x t
  end.

(* ---- BipartiteGraph ------------------------------------------------------------- *)
Record graph := { num_u : nat; num_v : nat; adj_u : list (list nat); adj_v : list (list nat) }.

Definition adjU (g : graph) (u : nat) : list nat := nth u (adj_u g) [].
Definition adjV (g : graph) (v : nat) : list nat := nth v (adj_v g) [].

(* one iteration of `for (u, v) in edges` (the range asserts are in `build`) *)
Definition add_edge (g : graph) (e : nat * nat) : graph :=
  {| num_u := num_u g; num_v := num_v g;
     adj_u := if memn (snd e) (adjU g (fst e)) then adj_u g
              else upd (fst e) (adjU g (fst e) ++ [snd e]) (adj_u g);
     adj_v := if memn (fst e) (adjV g (snd e)) then adj_v g
              else upd (snd e) (adjV g (snd e) ++ [fst e]) (adj_v g) |}.

Definition empty_graph (nu nv : nat) : graph :=
  {| num_u := nu; num_v := nv; adj_u := repeat [] nu; adj_v := repeat [] nv |}.

Definition mk_graph (nu nv : nat) (edges : list (nat * nat)) : graph :=
  fold_left add_edge edges (empty_graph nu nv).

(* the constructor with its asserts, on the integers the code receives: None = AssertionError *)
Definition edge_okZ (nu nv : Z) (e : Z * Z) : bool :=
  ((0 <=? fst e) && (fst e <? nu) && (0 <=? snd e) && (snd e <? nv))%Z.

Definition build (nu nv : Z) (edges : list (Z * Z)) : option graph :=
  if ((1 <=? nu)%Z && (1 <=? nv)%Z && forallb (edge_okZ nu nv) edges)%bool
  then Some (mk_graph (Z.to_nat nu) (Z.to_nat nv)
               (map (fun e => (Z.to_nat (fst e), Z.to_nat (snd e))) edges))
  else None.

(* ---- HopcroftKarp --------------------------------------------------------------- *)
Record hk := { mu : list (option nat); mv : list (option nat); dist : list nat }.

Definition didx (x : option nat) : nat := match x with None => 0 | Some u => S u end.
Definition dget (d : list nat) (x : option nat) : nat := nth (didx x) d 0.
Definition dset (d : list nat) (x : option nat) (k : nat) : list nat := upd (didx x) k d.
Definition mget (m : list (option nat)) (i : nat) : option nat := nth i m None.
Definition is_free (m : list (option nat)) (u : nat) : bool :=
  match mget m u with None => true | Some _ => false end.

(* __connect_unmatched_vertices: initialisation loop, then dist[-1] = inf *)
Definition bfs_init (nu : nat) (m : list (option nat)) : list nat * list (option nat) :=
  ((nu + 1) :: map (fun u => if is_free m u then 0 else nu + 1) (seq 0 nu),
   map Some (filter (is_free m) (seq 0 nu))).

(* body of `for v in adj_u[u]` *)
Definition bfs_relax (inf : nat) (mvl : list (option nat)) (x : option nat)
           (dq : list nat * list (option nat)) (v : nat) : list nat * list (option nat) :=
  let w := mget mvl v in
  if dget (fst dq) w =? inf then (dset (fst dq) w (dget (fst dq) x + 1), snd dq ++ [w]) else dq.

(* `while not queue.empty()` *)
Fixpoint bfs_loop (fuel : nat) (g : graph) (mvl : list (option nat)) (d : list nat)
         (q : list (option nat)) : option (list nat) :=
  match q with
  | [] => Some d
  | x :: q' =>
    match fuel with
    | O => None
    | S f =>
      if dget d x <? dget d None then
        match x with
        | Some u =>
            let dq := fold_left (bfs_relax (num_u g + 1) mvl x) (adjU g u) (d, q') in
            bfs_loop f g mvl (fst dq) (snd dq)
        | None => bfs_loop f g mvl d q'       (* not reachable: dist[-1] < dist[-1] is false *)
        end
      else bfs_loop f g mvl d q'
    end
  end.

Definition bfs_fuel (g : graph) : nat := 2 * num_u g + 2.

Definition bfs (g : graph) (st : hk) : option (bool * hk) :=
  let dq := bfs_init (num_u g) (mu st) in
  match bfs_loop (bfs_fuel g) g (mv st) (fst dq) (snd dq) with
  | None => None
  | Some d => Some (negb (dget d None =? num_u g + 1), {| mu := mu st; mv := mv st; dist := d |})
  end.

(* __add_augmenting_path: the `for v in adj_u[u]` loop with the recursive call abstracted *)
Fixpoint dfs_loop (rec : option nat -> hk -> option (bool * hk)) (inf : nat) (u : nat)
         (vs : list nat) (st : hk) : option (bool * hk) :=
  match vs with
  | [] => Some (false, {| mu := mu st; mv := mv st; dist := dset (dist st) (Some u) inf |})
  | v :: vs' =>
      let w := mget (mv st) v in
      if dget (dist st) w =? dget (dist st) (Some u) + 1 then
        match rec w st with
        | None => None
        | Some (true, st') =>
            Some (true, {| mu := upd u (Some v) (mu st'); mv := upd v (Some u) (mv st'); dist := dist st' |})
        | Some (false, st') => dfs_loop rec inf u vs' st'
        end
      else dfs_loop rec inf u vs' st
  end.

Fixpoint dfs (fuel : nat) (g : graph) (x : option nat) (st : hk) : option (bool * hk) :=
  match fuel with
  | O => None
  | S f =>
    match x with
    | None => Some (true, st)
    | Some u => dfs_loop (dfs f g) (num_u g + 1) u (adjU g u) st
    end
  end.

Definition dfs_fuel (g : graph) : nat := num_u g + 3.

(* `for u in range(num_u): if matched_pairs_u[u] == -1: __add_augmenting_path(u)` *)
Definition phase_step (g : graph) (acc : option hk) (u : nat) : option hk :=
  match acc with
  | None => None
  | Some st =>
      if is_free (mu st) u then
        match dfs (dfs_fuel g) g (Some u) st with
        | None => None
        | Some (_, st') => Some st'
        end
      else Some st
  end.

Definition phase (g : graph) (st : hk) : option hk :=
  fold_left (phase_step g) (seq 0 (num_u g)) (Some st).

(* `while self.__connect_unmatched_vertices(): ...` *)
Fixpoint hk_loop (fuel : nat) (g : graph) (st : hk) : option hk :=
  match fuel with
  | O => None
  | S f =>
    match bfs g st with
    | None => None
    | Some (true, st1) =>
        match phase g st1 with
        | None => None
        | Some st2 => hk_loop f g st2
        end
    | Some (false, st1) => Some st1
    end
  end.

Definition hk_init (g : graph) : hk :=
  {| mu := repeat None (num_u g); mv := repeat None (num_v g); dist := [] |}.

Definition collect (nu : nat) (m : list (option nat)) : list (nat * nat) :=
  flat_map (fun u => match mget m u with Some v => [(u, v)] | None => [] end) (seq 0 nu).

Definition hk_fuel (g : graph) : nat := num_u g + 1.

Definition hk_run (g : graph) : option hk := hk_loop (hk_fuel g) g (hk_init g).

Definition hopcroft_karp (g : graph) : option (list (nat * nat)) :=
  option_map (fun st => collect (num_u g) (mu st)) (hk_run g).

(* ---- minimum_vertex_cover ------------------------------------------------------- *)
Definition vis := (list nat * list nat)%type.     (* (u_visited, v_visited), append order *)

(* `for u in graph.adj_v[v]: if (u, v) in matching: explore(u)` *)
Fixpoint expl_u (rec : nat -> vis -> option vis) (M : list (nat * nat)) (v : nat)
         (ws : list nat) (s : vis) : option vis :=
  match ws with
  | [] => Some s
  | w :: ws' =>
      if memp (w, v) M then
        match rec w s with
        | None => None
        | Some s' => expl_u rec M v ws' s'
        end
      else expl_u rec M v ws' s
  end.

(* `for v in graph.adj_u[u_start]` *)
Fixpoint expl_v (rec : nat -> vis -> option vis) (g : graph) (M : list (nat * nat)) (us : nat)
         (vs : list nat) (s : vis) : option vis :=
  match vs with
  | [] => Some s
  | v :: vs' =>
      if memp (us, v) M then expl_v rec g M us vs' s
      else if memn v (snd s) then expl_v rec g M us vs' s
      else
        match expl_u rec M v (adjV g v) (fst s, snd s ++ [v]) with
        | None => None
        | Some s' => expl_v rec g M us vs' s'
        end
  end.

Fixpoint explore (fuel : nat) (g : graph) (M : list (nat * nat)) (us : nat) (s : vis) : option vis :=
  match fuel with
  | O => None
  | S f =>
      if memn us (fst s) then Some s
      else expl_v (explore f g M) g M us (adjU g us) (fst s ++ [us], snd s)
  end.

Definition explore_fuel (g : graph) : nat := num_u g + 1.

(* sorted(list(set(l))) for a list of naturals *)
Definition sort_dedup (l : list nat) : list nat :=
  filter (fun x => memn x l) (seq 0 (S (list_max l))).

Definition trace := list (nat * vis).

(* `for u in alist:` fresh visited lists per start vertex; accumulate what is removed from
   u_cover / added to v_cover.  The per-start visited lists are kept for the correspondence. *)
Definition koenig_step (g : graph) (M : list (nat * nat))
           (acc : option (list nat * list nat * trace)) (u : nat) : option (list nat * list nat * trace) :=
  match acc with
  | None => None
  | Some (zu, zv, tr) =>
      match explore (explore_fuel g) g M u ([], []) with
      | None => None
      | Some s => Some (zu ++ fst s, zv ++ snd s, tr ++ [(u, s)])
      end
  end.

Definition unmatched_u (g : graph) (M : list (nat * nat)) : list nat :=
  filter (fun u => negb (memn u (map fst M))) (seq 0 (num_u g)).

Definition koenig_visit (g : graph) (M : list (nat * nat)) : option (list nat * list nat * trace) :=
  fold_left (koenig_step g M) (unmatched_u g M) (Some ([], [], [])).

(* (sorted u_cover, sorted v_cover) *)
Definition koenig (g : graph) (M : list (nat * nat)) : option (list nat * list nat) :=
  match koenig_visit g M with
  | None => None
  | Some (zu, zv, _) =>
      Some (filter (fun u => negb (memn u zu)) (seq 0 (num_u g)), sort_dedup zv)
  end.

Record mvc_result := { r_matching : list (nat * nat); r_ucover : list nat; r_vcover : list nat;
                       r_assert : bool }.

(* minimum_vertex_cover; r_assert = false is the AssertionError of the code's own size check *)
Definition mvc (g : graph) : option mvc_result :=
  match hopcroft_karp g with
  | None => None
  | Some M =>
      match koenig g M with
      | None => None
      | Some (cu, cv) =>
          Some {| r_matching := M; r_ucover := cu; r_vcover := cv;
                  r_assert := length cu + length cv =? length M |}
      end
  end.

(* ---- output for the correspondence (integers; NIL = -1) ---------------------------- *)
Definition zl (l : list nat) : list Z := map Z.of_nat l.
Definition zp (l : list (nat * nat)) : list (Z * Z) := map (fun p => (Z.of_nat (fst p), Z.of_nat (snd p))) l.

(* (adj_u, adj_v, matching, (u_cover, v_cover, assert ok), exploration traces) ; None = AssertionError
   of the constructor; inner None = fuel exhausted (never: see ModelProofs) *)
Definition run_all (nu nv : Z) (edges : list (Z * Z)) :=
  match build nu nv edges with
  | None => None
  | Some g =>
      Some (map zl (adj_u g), map zl (adj_v g),
            match mvc g with
            | None => None
            | Some r =>
                Some (zp (r_matching r), zl (r_ucover r), zl (r_vcover r), r_assert r,
                      match koenig_visit g (r_matching r) with
                      | Some (_, _, tr) => map (fun t => (Z.of_nat (fst t), zl (fst (snd t)), zl (snd (snd t)))) tr
                      | None => []
                      end)
            end)
  end.

(* Koenig construction applied to an arbitrary caller-supplied matching list:
   ((u_cover, v_cover), exploration traces) *)
Definition ztrace (tr : trace) := map (fun t => (Z.of_nat (fst t), zl (fst (snd t)), zl (snd (snd t)))) tr.

Definition run_koenig_traces (nu nv : Z) (edges : list (Z * Z)) (M : list (Z * Z)) :=
  match build nu nv edges with
  | None => None
  | Some g =>
      let M' := map (fun e => (Z.to_nat (fst e), Z.to_nat (snd e))) M in
      Some (match koenig g M', koenig_visit g M' with
            | Some (cu, cv), Some (_, _, tr) => Some ((zl cu, zl cv), ztrace tr)
            | _, _ => None
            end)
  end.

(* ---- equality tests used by the correspondence (sound: ModelProofs.all_eqb_eq) ------- *)
Fixpoint list_eqb {A : Type} (e : A -> A -> bool) (a b : list A) : bool :=
  match a, b with
  | [], [] => true
  | x :: a', y :: b' => e x y && list_eqb e a' b'
  | _, _ => false
  end.
Definition opt_eqb {A : Type} (e : A -> A -> bool) (a b : option A) : bool :=
  match a, b with
  | None, None => true
  | Some x, Some y => e x y
  | _, _ => false
  end.
Definition pair_eqb {A B : Type} (ea : A -> A -> bool) (eb : B -> B -> bool) (p q : A * B) : bool :=
  ea (fst p) (fst q) && eb (snd p) (snd q).
Definition lz_eqb := list_eqb Z.eqb.
Definition trace_eqb := list_eqb (pair_eqb (pair_eqb Z.eqb lz_eqb) lz_eqb).
Definition all_eqb :=
  opt_eqb (pair_eqb (pair_eqb (list_eqb lz_eqb) (list_eqb lz_eqb))
     (opt_eqb (pair_eqb (pair_eqb (pair_eqb (pair_eqb (list_eqb (pair_eqb Z.eqb Z.eqb)) lz_eqb) lz_eqb) Bool.eqb)
                        trace_eqb))).
Definition koenig_eqb := opt_eqb (opt_eqb (pair_eqb (pair_eqb lz_eqb lz_eqb) trace_eqb)).
