(* Universal theorems about the symbolic model TTNDO/Contr.v of ttndo_contractions.py.

   DIAGRAM LEVEL (proved here, for every tree, every child order of the bra side and of the operator,
   every dimension assignment and hence every bond dimension of the artificial root):
     trace_ttndo_closed        : trace_ttndo succeeds and returns the closed network in which, for every node m
                                 of the state's tree, the open leg of the ket node is glued to the open leg of the
                                 bra node, all edges of the doubled tree and the root's open leg are summed, and
                                 every tensor of the network occurs exactly once (the root tensor included);
     ttndo_expectation_closed  : ttndo_ttno_expectation succeeds and returns the closed network with, at every node,
                                 ket open leg -- operator input leg and operator output leg -- bra open leg.
   Proof: induction over the tree through the literal loop over the contraction order with its dictionary
   (section B: any block function that is locally correct yields one entry per finished subtree), the leg
   arithmetic of every tensordot being reduced to ClosedProofs.all_but_one_axes / node_contract_e /
   sandwich_leaf_axes.  The decidable hypotheses wf_ttndo / wf_ttndo3 are checked per instance (ttndo_wfb,
   ttndo_wf3b, proved sound below); so are the results (ttndo_trace_ok, ttndo_expect_ok).

   Together with the structural theorems of TTNDO/SymProofs.v (C16_doubled_tree_structure: ket and bra
   branches are images of the state's tree; C16_calls; C16_contraction_order) the diagram of trace() is the
   diagram of <psi|psi> with the artificial root inserted between the two root tensors, and the diagram of
   ttno_expectation_value() is that of <psi|O|psi>.

   VALUE LEVEL (NOT theorems here; checked exactly by the C16 build tie on every explored case, and once
   more numerically by the einsum of the model diagram against the library's number):
     - the bra atoms are the entrywise conjugates of the ket atoms (np.conj at construction);
     - the artificial root atom is eye(k).reshape(k,k,1), and the padded leading leg of the ket / bra root
       tensors is non-zero only in slice 0, so that the sum over the two root wires contributes the factor 1
       (C16_root_bond_dimension proves exactly this arithmetic: root_weight k = 1 for every k >= 1);
     - NumPy's tensordot / transpose / matmul / [0] implement the diagram operations (Wire/Sem*.v proves the
       tensordot and transpose clauses for the store model; the trusted base lists the rest).
   What remains per instance (I): that the store program of from_ttns satisfies wf_ttndo (ttndo_wfb = true) is
   evaluated on every explored instance, not proved for all trees. *)
From Coq Require Import List Arith Bool Lia Permutation.
From PTN Require Import TTN.Store Contr.Blocks Contr.BlocksProofs Contr.Closed Contr.ClosedProofs TTNDO.Contr.
From PTN Require TTNDO.Sym Tree.RTree.
Import ListNotations.

(* ==== A. the cache ================================================================================== *)
Lemma key_eqb_true a b : key_eqb a b = true <-> a = b.
Proof.
  destruct a as [a1 a2], b as [b1 b2]. unfold key_eqb. cbn. rewrite andb_true_iff, !Nat.eqb_eq. split.
  - intros [-> ->]. reflexivity.
  - intros [= -> ->]. auto.
Qed.

Lemma key_eqb_false a b : key_eqb a b = false <-> a <> b.
Proof. rewrite <- key_eqb_true. destruct (key_eqb a b); split; intros; congruence. Qed.

(* the helpers' view of the dictionary is get_entry(neighbour, n) *)
Lemma cview_get nb n c : aget nb (cview n c) = cget (nb, n) c.
Proof.
  induction c as [|[[a b] g] t IH]; [reflexivity|]. unfold cview in *. cbn [filter fst snd cget].
  unfold key_eqb. cbn [fst snd]. destruct (Nat.eqb_spec b n) as [->|Hne].
  - cbn [map fst snd aget]. rewrite Nat.eqb_refl, andb_true_r. destruct (Nat.eqb nb a); [reflexivity|exact IH].
  - rewrite IH. destruct (Nat.eqb_spec n b) as [E|_]; [congruence|]. rewrite andb_false_r. reflexivity.
Qed.

Lemma cview_app n A B : cview n (A ++ B) = cview n A ++ cview n B.
Proof. unfold cview. rewrite filter_app, map_app. reflexivity. Qed.

Lemma cview_entries n ids (gs : list garr) :
  cview n (combine (map (fun c : id => (c, n)) ids) gs) = combine ids gs.
Proof.
  revert gs. induction ids as [|a t IH]; intros [|g gs]; try reflexivity.
  unfold cview in *. cbn [map combine filter fst snd]. rewrite Nat.eqb_refl. cbn [map fst snd]. f_equal. apply IH.
Qed.

Lemma cview_keys n C a : In a (akeys (cview n C)) -> exists e, In e C /\ fst (fst e) = a.
Proof.
  unfold akeys, cview. rewrite map_map. intros H. apply in_map_iff in H. destruct H as (e & <- & He).
  apply filter_In in He. exists e. split; [apply He|reflexivity].
Qed.

Lemma aget_app_notin {V} k (A B : list (nat * V)) : ~ In k (akeys A) -> aget k (A ++ B) = aget k B.
Proof.
  induction A as [|[k' v] t IH]; intros H; [reflexivity|]. cbn. destruct (Nat.eqb_spec k k') as [->|_].
  - exfalso. apply H. left. reflexivity.
  - apply IH. intros Hin. apply H. right. exact Hin.
Qed.

Definition cfresh (ns : list id) (C : cache) : Prop := forall e, In e C -> ~ In (fst (fst e)) ns.

Lemma cset_fresh k g (C : cache) : (forall e, In e C -> fst e <> k) -> cset k g C = C ++ [(k, g)].
Proof.
  induction C as [|[k' g'] t IH]; intros H; [reflexivity|]. cbn.
  assert (E : key_eqb k k' = false). { apply key_eqb_false. intros ->. apply (H (k', g')); [left|]; reflexivity. }
  rewrite E. f_equal. apply IH. intros e He. apply H. right. exact He.
Qed.

Lemma cdel_app_fresh k g (C T : cache) : (forall e, In e C -> fst e <> k) -> cdel k (C ++ (k, g) :: T) = Some (C ++ T).
Proof.
  induction C as [|[k' g'] t IH]; intros H; cbn.
  - assert (E : key_eqb k k = true) by (apply key_eqb_true; reflexivity). rewrite E. reflexivity.
  - assert (E : key_eqb k k' = false). { apply key_eqb_false. intros ->. apply (H (k', g')); [left|]; reflexivity. }
    rewrite E, IH by (intros e He; apply H; right; exact He). reflexivity.
Qed.

Lemma del_children_entries n ids : forall (gs : list garr) (C T : cache),
  length gs = length ids -> (forall e, In e C -> ~ In (fst (fst e)) ids) ->
  del_children ids n (C ++ combine (map (fun c : id => (c, n)) ids) gs ++ T) = Some (C ++ T).
Proof.
  induction ids as [|a t IH]; intros gs C T Hlen HC.
  - destruct gs; [reflexivity|discriminate].
  - destruct gs as [|g gs]; [discriminate|]. cbn [map combine app]. unfold del_children. cbn [fold_left].
    rewrite cdel_app_fresh.
    + apply IH; [cbn in Hlen; lia|]. intros e He Hin. apply (HC e He). right. exact Hin.
    + intros e He E. apply (HC e He). left. rewrite E. reflexivity.
Qed.

(* ==== B. the loop over the contraction order, for any block function ============================= *)
Lemma rnodes_rid t : In (rid t) (rnodes t).
Proof. destruct t. left. reflexivity. Qed.

Lemma NoDup_app_l {A} (a b : list A) : NoDup (a ++ b) -> NoDup a.
Proof. induction a as [|x t IH]; intros H; [constructor|]. inversion H; subst. constructor; [|apply IH; assumption].
  intros Hin. apply H2. apply in_or_app. left. exact Hin. Qed.
Lemma NoDup_app_r {A} (a b : list A) : NoDup (a ++ b) -> NoDup b.
Proof. induction a as [|x t IH]; intros H; [exact H|]. inversion H; subst. apply IH. assumption. Qed.
Lemma NoDup_app_disj {A} (a b : list A) x : NoDup (a ++ b) -> In x a -> In x b -> False.
Proof.
  induction a as [|y t IH]; intros H Ha Hb; [destruct Ha|]. inversion H; subst. destruct Ha as [->|Ha].
  - apply H2. apply in_or_app. right. exact Hb.
  - apply IH; assumption.
Qed.

Lemma NoDup_flat_map_in {A B} (f : A -> list B) l a : NoDup (flat_map f l) -> In a l -> NoDup (f a).
Proof.
  induction l as [|b t IH]; intros H Hin; [destruct Hin|]. cbn in H. destruct Hin as [->|Hin].
  - eapply NoDup_app_l; eassumption.
  - apply IH; [eapply NoDup_app_r; eassumption|exact Hin].
Qed.

Lemma NoDup_flat_map_rid cs : NoDup (flat_map rnodes cs) -> NoDup (map rid cs).
Proof.
  induction cs as [|c t IH]; intros H; cbn in *; [constructor|]. constructor.
  - intros Hin. apply in_map_iff in Hin. destruct Hin as (c' & E & Hc').
    apply (NoDup_app_disj _ _ (rid c) H); [apply rnodes_rid|]. apply in_flat_map. exists c'. split; [exact Hc'|]. rewrite <- E. apply rnodes_rid.
  - apply IH. eapply NoDup_app_r; eassumption.
Qed.

Lemma forall2_aget (P : rt -> garr -> Prop) cs gs :
  NoDup (map rid cs) -> Forall2 P cs gs ->
  forall c, In c cs -> exists g, aget (rid c) (combine (map rid cs) gs) = Some g /\ P c g.
Proof.
  intros Hnd HF. induction HF as [|c0 g0 cs gs H0 HF IH]; intros c Hc; [destruct Hc|].
  cbn [map combine aget]. cbn in Hnd. inversion Hnd as [|? ? Hni Hnd']; subst. destruct Hc as [->|Hc].
  - rewrite Nat.eqb_refl. eauto.
  - destruct (Nat.eqb_spec (rid c) (rid c0)) as [E|_].
    + exfalso. apply Hni. rewrite <- E. apply in_map. exact Hc.
    + apply IH; assumption.
Qed.

Lemma forall2_length {A B} (P : A -> B -> Prop) l1 l2 : Forall2 P l1 l2 -> length l1 = length l2.
Proof. induction 1; cbn; congruence. Qed.

Section Loop.
  Variable blockf : id -> list (id * garr) -> option (id * list id * garr).
  Variable Good : rt -> garr -> Prop.

  (* local correctness of the block function at one node: whenever the dictionary view offers a good block
     for every child, the block function returns (parent, children, a good block) *)
  Definition node_spec (p : id) (t : rt) : Prop :=
    forall blocks, (forall c, In c (rcs t) -> exists g, aget (rid c) blocks = Some g /\ Good c g) ->
      exists g, blockf (rid t) blocks = Some (p, map rid (rcs t), g) /\ Good t g.

  Inductive tree_spec : id -> rt -> Prop :=
  | tree_spec_intro p n cs : node_spec p (RN n cs) -> (forall c, In c cs -> tree_spec n c) -> tree_spec p (RN n cs).

  (* running the loop over the post-order of a subtree adds exactly one entry, (subtree root, its parent) *)
  Definition sub_ok (p : id) (t : rt) : Prop :=
    forall C, cfresh (rnodes t) C ->
      exists g, fold_left (loop_step blockf) (rpost t) (Some C) = Some (C ++ [((rid t, p), g)]) /\ Good t g.

  Lemma kids_loop n cs :
    (forall c, In c cs -> sub_ok n c) -> NoDup (flat_map rnodes cs) ->
    forall C, cfresh (flat_map rnodes cs) C ->
    exists gs, Forall2 Good cs gs /\
      fold_left (loop_step blockf) (flat_map rpost cs) (Some C) = Some (C ++ combine (map (fun c => (rid c, n)) cs) gs).
  Proof.
    induction cs as [|c cs IH]; intros Hsub Hnd C HC.
    - exists []. split; [constructor|]. cbn. rewrite app_nil_r. reflexivity.
    - cbn [flat_map] in *. rewrite fold_left_app.
      destruct (Hsub c (or_introl eq_refl) C) as (g & Hg & HG).
      { intros e He Hin. apply (HC e He). apply in_or_app. left. exact Hin. }
      rewrite Hg.
      destruct (IH (fun c' Hc' => Hsub c' (or_intror Hc')) (NoDup_app_r _ _ Hnd) (C ++ [((rid c, n), g)])) as (gs & HF & Hgs).
      { intros e He Hin. apply in_app_or in He. destruct He as [He|[<-|[]]].
        - apply (HC e He). apply in_or_app. right. exact Hin.
        - cbn in Hin. apply (NoDup_app_disj _ _ (rid c) Hnd); [apply rnodes_rid|exact Hin]. }
      exists (g :: gs). split; [constructor; assumption|]. etransitivity; [exact Hgs|]. f_equal. cbn [map combine]. rewrite <- app_assoc. reflexivity.
  Qed.

  Lemma sub_loop p t : tree_spec p t -> NoDup (rnodes t) -> sub_ok p t.
  Proof.
    induction 1 as [p n cs Hnode Hcs IH]. intros Hnd C HC. cbn [rnodes] in Hnd, HC. cbn [rpost rid].
    inversion Hnd as [|? ? Hn Hnd']; subst.
    rewrite fold_left_app.
    destruct (kids_loop n cs) with (C := C) as (gs & HF & Hgs).
    { intros c Hc. apply IH; [exact Hc|]. eapply NoDup_flat_map_in; eassumption. }
    { exact Hnd'. }
    { intros e He Hin. apply (HC e He). right. exact Hin. }
    rewrite Hgs. cbn [fold_left]. unfold loop_step.
    set (E := combine (map (fun c => (rid c, n)) cs) gs).
    assert (Hlen : length gs = length cs) by (symmetry; eapply forall2_length; eassumption).
    assert (HE : E = combine (map (fun c : id => (c, n)) (map rid cs)) gs) by (unfold E; rewrite map_map; reflexivity).
    destruct (Hnode (cview n (C ++ E))) as (g & Hg & HG).
    { cbn [rcs]. intros c Hc. rewrite cview_app, aget_app_notin.
      - rewrite HE, cview_entries. apply forall2_aget; [apply NoDup_flat_map_rid; exact Hnd'|exact HF|exact Hc].
      - intros Hin. apply cview_keys in Hin. destruct Hin as (e & He & Ee). apply (HC e He). right. rewrite Ee.
        apply in_flat_map. exists c. split; [exact Hc|apply rnodes_rid]. }
    cbn [rid rcs] in Hg. rewrite Hg.
    rewrite cset_fresh.
    - rewrite <- app_assoc, HE. rewrite del_children_entries.
      + exists g. split; [reflexivity|exact HG].
      + rewrite map_length. exact Hlen.
      + intros e He Hin. apply (HC e He). right. apply in_map_iff in Hin. destruct Hin as (c & <- & Hc).
        apply in_flat_map. exists c. split; [exact Hc|apply rnodes_rid].
    - intros e He E1. apply in_app_or in He. destruct He as [He|He].
      + apply (HC e He). left. rewrite E1. reflexivity.
      + unfold E in He. destruct e as [ek eg]. apply in_combine_l in He. apply in_map_iff in He. destruct He as (c & Ec & Hc).
        cbn [fst] in E1. rewrite <- Ec in E1. injection E1 as E1 _. apply Hn. rewrite <- E1. apply in_flat_map. exists c. split; [exact Hc|apply rnodes_rid].
  Qed.
End Loop.

(* ==== C. local lemmas: contractions with identifier transformations ============================== *)
Lemma node_positions_tr (tr : id -> id) nd (L : list id) : (forall a, In a L -> In (tr a) (neighbouring_nodes nd)) ->
  all_some (map (fun nb => neighbour_index nd (tr nb)) L) = Some (map (pos_in (neighbouring_nodes nd)) (map tr L)).
Proof.
  intros H. rewrite map_map. apply all_some_total. intros a Ha. rewrite neighbour_index_nbs. apply pos_in_spec. apply H. exact Ha.
Qed.

Lemma legs_block_seq a b :
  map (fun ki => ki + 1 + (if Nat.ltb ki a then 1 else 0)) (seq 0 a ++ seq (S a) b) = seq 2 (a + b).
Proof.
  rewrite map_app, seq_app. f_equal.
  - rewrite <- (map_add_seq 2 0). apply map_ext_in. intros i Hi. apply in_seq in Hi. destruct (Nat.ltb_spec i a); lia.
  - replace (2 + a) with (S a + 1) by lia. rewrite <- map_add_seq. apply map_ext_in. intros i Hi. apply in_seq in Hi.
    destruct (Nat.ltb_spec i a); lia.
Qed.

Lemma equivalent_legs_tr_ignore (tr : id -> id) kn nd next pre post :
  neighbouring_nodes kn = pre ++ next :: post -> NoDup (pre ++ next :: post) ->
  (forall a, In a (pre ++ post) -> In (tr a) (neighbouring_nodes nd)) ->
  equivalent_legs_tr tr kn nd (Some next) =
  Some (seq 0 (length pre) ++ seq (S (length pre)) (length post), map (pos_in (neighbouring_nodes nd)) (map tr (pre ++ post))).
Proof.
  intros Hnbs Hnd H. destruct (NoDup_mid_notin _ _ _ Hnd) as (Hnpre & Hnpost & _).
  unfold equivalent_legs_tr. rewrite Hnbs, filter_neq_mid by assumption.
  pose proof (ket_positions kn pre next post Hnbs Hnd) as E1. pose proof (node_positions_tr tr nd _ H) as E2.
  unfold id, wire in *. rewrite E1, E2. reflexivity.
Qed.

(* contract_bra_to_ket_and_blocks_ignore_one_leg with id_trafo: the bra node's neighbours are its own
   `bnext` (never looked up) and the images of the ket's other neighbours, in any order *)
Theorem bra_to_ket_ignore_tr_axes (tr : id -> id) bt kb bn kn next bnext (x : id -> wire) wj o p pre post :
  neighbouring_nodes kn = pre ++ next :: post ->
  NoDup (pre ++ next :: post) ->
  NoDup (neighbouring_nodes bn) ->
  Permutation (neighbouring_nodes bn) (bnext :: map tr (pre ++ post)) ->
  gaxes kb = wj :: o :: map x (map tr (pre ++ post)) ->
  gaxes bt = map x (neighbouring_nodes bn) ++ [p] ->
  o <> p ->
  bra_to_ket_ignore_tr tr bt kb bn kn next =
  Some {| gaxes := [wj; x bnext]; gatoms := gatoms kb ++ gatoms bt;
          gbnd := map x (map tr (pre ++ post)) ++ gbnd kb ++ gbnd bt; gglue := (o, p) :: gglue kb ++ gglue bt |}.
Proof.
  intros Hnbs Hnd HndB Hperm Hkb Hbt Hop.
  destruct (NoDup_mid_notin _ _ _ Hnd) as (Hnpre & Hnpost & Hnd').
  set (L := pre ++ post) in *. set (LB := map tr L) in *. set (B := neighbouring_nodes bn) in *.
  assert (HLB : forall a, In a LB -> In a B).
  { intros a Ha. apply (Permutation_in _ (Permutation_sym Hperm)). right. exact Ha. }
  assert (HndLB : NoDup LB).
  { assert (H : NoDup (bnext :: LB)) by (eapply Permutation_NoDup; eassumption). inversion H; assumption. }
  assert (HlenL : length LB = length pre + length post) by (unfold LB, L; rewrite map_length, app_length; reflexivity).
  unfold bra_to_ket_ignore_tr.
  rewrite neighbour_index_nbs, Hnbs, idx_mid by exact Hnpre.
  rewrite filter_neq_mid by assumption. fold L.
  pose proof (ket_positions kn pre next post Hnbs Hnd) as E1. fold L in E1.
  assert (E2 : all_some (map (fun nb => neighbour_index bn (tr nb)) L) = Some (map (pos_in B) LB)).
  { apply node_positions_tr. intros a Ha. apply HLB. apply in_map. exact Ha. }
  unfold id, wire in *. fold L. rewrite E1, E2, legs_block_seq, nvirt_nbs. fold B. rewrite <- HlenL.
  etransitivity.
  { apply (node_contract_e kb bt x B LB (seq 2 (length LB) ++ [1]) o [p] 0 p (length B) (eq_sym (Nat.add_0_r _)) HndB HLB HndLB Hbt).
    - cbn. lia.
    - reflexivity.
    - exact Hop.
    - rewrite app_length, seq_length. cbn. rewrite Nat.add_1_r. reflexivity.
    - apply NoDup_app_one; [apply seq_NoDup|]. intros Hin. apply in_seq in Hin. lia.
    - intros i Hi. rewrite Hkb. cbn [length]. rewrite map_length. apply in_app_or in Hi.
      destruct Hi as [Hi|[<-|[]]]; [apply in_seq in Hi|]; nlia.
    - rewrite Hkb, map_app. cbn [map nth]. f_equal.
      pose proof (nth_seq_block 0 [wj; o] (map x LB) []) as H. rewrite app_nil_r, map_length in H. exact H. }
  rewrite (filter_rest_one B LB bnext HndB Hperm). f_equal. f_equal.
  rewrite Hkb. rewrite (dropfrom_one 0 0 _ (wj :: o :: map x LB) 0).
  2:{ cbn. lia. }
  2:{ intros i Hi. cbn [length] in Hi. rewrite map_length in Hi. cbn [Nat.add]. rewrite in_app_iff, in_seq. cbn [In]. nlia. }
  cbn. reflexivity.
Qed.

(* ==== D. trace_ttndo: every node of the loop ======================================================== *)

Section TraceG.
  Variables (im : idmaps) (d : store).
  Let k2b := im_k2b im.
  Let kw (m : id) := up_wire d m. Let bw (m : id) := up_wire d (k2b m).
  Let ko (m : id) := open_wire d m. Let bo (m : id) := open_wire d (k2b m).
  Let AT (m : id) : list nat := t_atoms d m ++ t_atoms d (k2b m).
  Let EB (m : id) : list wire := [kw m; bw m] ++ t_bnd d m ++ t_bnd d (k2b m).
  Let OP (m : id) : list (wire * wire) := [(ko m, bo m)].

  (* a block of the trace loop: two legs (the ket's and the bra's wire to the parent), the two subtrees closed *)
  Definition GoodT (t : rt) (g : garr) : Prop :=
    gaxes g = [kw (rid t); bw (rid t)] /\
    Permutation (gatoms g) (flat_map AT (rnodes t)) /\
    Permutation ([kw (rid t); bw (rid t)] ++ gbnd g) (flat_map EB (rnodes t)) /\
    Permutation (gglue g) (flat_map OP (rnodes t)).

  Lemma trace_node_spec p n cs :
    dnode_ok im d p n (map rid cs) -> node_spec (trace_block im d) GoodT p (RN n cs).
  Proof.
    intros Hok blocks Hblocks. cbn [rid rcs] in *.
    destruct Hok as (kn & bn & bp & Hk & Hb & Hpk & Hpb & Hck & Hcb & Hnd & HndB & Hkax & Hbax & Hop & _ & _).
    fold k2b in Hb, Hcb, Hbax, Hop.
    destruct (tensor_of_view d n kn Hk) as (kt & Hkt & Hkt1 & Hkt2 & Hkt3 & Hkt4 & Hkt5).
    { rewrite Hkax. discriminate. }
    destruct (tensor_of_view d (k2b n) bn Hb) as (bt & Hbt & Hbt1 & Hbt2 & Hbt3 & Hbt4 & Hbt5).
    { rewrite Hbax. discriminate. }
    fold (kw n) (ko n) in Hkax, Hop. fold (bw n) (bo n) in Hbax, Hop.
    unfold trace_block. fold k2b. rewrite Hk, Hkt, Hb, Hbt, Hpk. unfold contract_any_nodes_tr. rewrite Hck.
    unfold GoodT. cbn [rid rnodes flat_map].
    destruct cs as [|c0 cs'].
    - (* leaf *)
      cbn [map] in *. apply Permutation_sym, Permutation_nil in Hcb. rewrite Hcb in Hbax. cbn [map app] in *.
      assert (Hvk : nvirt kn = 1) by (unfold nvirt, nparents; rewrite Hpk, Hck; reflexivity).
      assert (Hvb : nvirt bn = 1) by (unfold nvirt, nparents; rewrite Hpb, Hcb; reflexivity).
      unfold contract_leafs. rewrite Hck, Hcb. cbn [length Nat.eqb andb negb].
      assert (Hok1 : nopen kn = 1) by (unfold nopen; rewrite <- Hkt5, Hkt1, Hkax, Hvk; reflexivity).
      assert (Hob1 : nopen bn = 1) by (unfold nopen; rewrite <- Hbt5, Hbt1, Hbax, Hvb; reflexivity).
      rewrite Hok1, Hob1. cbn [Nat.eqb andb negb]. rewrite Hvk, Hvb. rewrite g_tensordot_ok.
      2:{ reflexivity. }
      2:{ intros i [<-|[]]. rewrite Hkt1, Hkax. cbn. lia. }
      2:{ intros i [<-|[]]. rewrite Hbt1, Hbax. cbn. lia. }
      2,3: constructor; [intros []|constructor].
      eexists. split; [reflexivity|]. cbn [gaxes gatoms gbnd gglue]. rewrite Hkt1, Hbt1, Hkax, Hbax.
      cbn [map nth combine filter fst snd dropfrom memb existsb Nat.eqb orb app].
      destruct (Nat.eqb_spec (ko n) (bo n)) as [E|_]; [contradiction|]. cbn [negb map app].
      rewrite Hkt2, Hkt3, Hkt4, Hbt2, Hbt3, Hbt4. unfold AT, EB, OP. cbn [flat_map app]. rewrite !app_nil_r.
      repeat split; reflexivity.
    - (* inner node *)
      set (cs := c0 :: cs') in *. set (ids := map rid cs) in *.
      assert (Hnbk : neighbouring_nodes kn = [] ++ p :: ids) by (unfold neighbouring_nodes; rewrite Hpk, Hck; reflexivity).
      assert (Hnbb : neighbouring_nodes bn = bp :: children bn) by (unfold neighbouring_nodes; rewrite Hpb; reflexivity).
      rewrite Hnbk in Hnd. cbn [app] in Hnd. rewrite Hnbb in HndB.
      assert (Hpn : ~ In p ids) by (inversion Hnd; assumption).
      assert (Hbpn : ~ In bp (children bn)) by (inversion HndB; assumption).
      assert (Hbpn' : ~ In bp (map k2b ids)) by (intros Hin; apply Hbpn; eapply Permutation_in; [symmetry; exact Hcb|exact Hin]).
      set (blk := fun nb : id => match aget nb blocks with Some g => g | None => kt end).
      assert (Hsub : forall c, In c cs -> aget (rid c) blocks = Some (blk (rid c)) /\ GoodT c (blk (rid c))).
      { intros c Hc. destruct (Hblocks c Hc) as (g & Hg & HG). unfold blk. rewrite Hg. split; [reflexivity|exact HG]. }
      assert (Hids : forall a, In a ids -> exists c, In c cs /\ rid c = a).
      { intros a Ha. apply in_map_iff in Ha. destruct Ha as (c & E & Hc). eauto. }
      replace (match ids with [] => contract_leafs kn bn kt bt | _ :: _ =>
                 match all_but_one_to_ket kt kn p blocks with Some kb => bra_to_ket_ignore_tr k2b bt kb bn kn p | None => None end end)
        with (match all_but_one_to_ket kt kn p blocks with Some kb => bra_to_ket_ignore_tr k2b bt kb bn kn p | None => None end)
        by reflexivity.
      destruct (all_but_one_axes kt kn p blocks kw (fun nb => [bw nb]) blk (kw n) [ko n] [] ids Hnbk)
        as (kb & Hkb & K1 & K2 & K3 & K4).
      { exact Hnd. }
      { rewrite Hkt1, Hkax. reflexivity. }
      { intros nb Hnb. cbn [app] in Hnb. destruct (Hids nb Hnb) as (c & Hc & <-). destruct (Hsub c Hc) as (H1 & H2 & _).
        split; assumption. }
      rewrite Hkb. cbn [app] in K1, K2, K3, K4.
      set (x := fun nb : id => if Nat.eqb nb bp then bw n else up_wire d nb).
      assert (Hx : forall l : list id, ~ In bp l -> map x l = map (up_wire d) l).
      { intros l Hl. apply map_ext_in. intros a Ha. unfold x. destruct (Nat.eqb_spec a bp) as [->|_]; [contradiction|reflexivity]. }
      rewrite (bra_to_ket_ignore_tr_axes k2b bt kb bn kn p bp x (kw n) (ko n) (bo n) [] ids Hnbk).
      2:{ exact Hnd. }
      2:{ rewrite Hnbb. exact HndB. }
      2:{ rewrite Hnbb. cbn [app]. apply perm_skip. exact Hcb. }
      2:{ rewrite K1. cbn [app]. rewrite flat_map_single, (Hx _ Hbpn'), map_map. reflexivity. }
      2:{ rewrite Hnbb, Hbt1, Hbax. cbn [map]. rewrite (Hx _ Hbpn). unfold x. rewrite Nat.eqb_refl. reflexivity. }
      2:{ exact Hop. }
      eexists. split; [reflexivity|]. cbn [gaxes gatoms gbnd gglue app].
      split; [unfold x; rewrite Nat.eqb_refl; reflexivity|].
      rewrite K2, K3, K4, Hkt2, Hkt3, Hkt4, Hbt2, Hbt3, Hbt4, (Hx _ Hbpn'), map_map.
      pose proof (perm_children (fun c => gatoms (blk c)) AT cs (fun c Hc => proj1 (proj2 (proj2 (Hsub c Hc))))) as P1.
      pose proof (perm_children (fun c => [kw c; bw c] ++ gbnd (blk c)) EB cs
                    (fun c Hc => proj1 (proj2 (proj2 (proj2 (Hsub c Hc)))))) as P2.
      pose proof (perm_children (fun c => gglue (blk c)) OP cs (fun c Hc => proj2 (proj2 (proj2 (proj2 (Hsub c Hc)))))) as P3.
      fold ids in P1, P2, P3. rewrite <- (perm_edge_sum kw bw (fun c => gbnd (blk c)) ids) in P2.
      rewrite <- P1, <- P2, <- P3. unfold AT at 1. unfold EB at 1. unfold OP at 1.
      split; [|split]; perm_solve.
  Qed.

  Lemma wf_subD_tree_spec p t : wf_subD im d p t -> tree_spec (trace_block im d) GoodT p t.
  Proof.
    induction 1 as [p n cs Hok Hcs IH]. constructor; [apply trace_node_spec; exact Hok|exact IH].
  Qed.
End TraceG.

(* ==== E. linearise and the contraction order ========================================================= *)
Lemma all_some_exists {A B} (f : A -> option B) (P : B -> Prop) l :
  (forall a, In a l -> exists b, f a = Some b /\ P b) -> exists bs, all_some (map f l) = Some bs /\ Forall P bs.
Proof.
  induction l as [|a t IH]; intros H; cbn.
  - exists []. split; [reflexivity|constructor].
  - destruct (H a (or_introl eq_refl)) as (b & -> & Hb).
    destruct (IH (fun a' Ha' => H a' (or_intror Ha'))) as (bs & -> & Hbs).
    exists (b :: bs). split; [reflexivity|constructor; assumption].
Qed.

Lemma filter_concat_nil {A} (f : A -> bool) bs : Forall (fun l => filter f l = []) bs -> filter f (concat bs) = [].
Proof. induction 1 as [|l bs Hl _ IH]; cbn; [reflexivity|]. rewrite filter_app, Hl, IH. reflexivity. Qed.

Lemma filter_all {A} (f : A -> bool) l : (forall x, In x l -> f x = true) -> filter f l = l.
Proof.
  induction l as [|x t IH]; intros H; cbn; [reflexivity|]. rewrite (H x (or_introl eq_refl)). f_equal.
  apply IH. intros y Hy. apply H. right. exact Hy.
Qed.

Lemma rpost_in t : forall m, In m (rpost t) -> In m (rnodes t).
Proof.
  induction t as [n cs IH] using rt_rect'. intros m Hm. cbn [rpost rnodes] in *. apply in_app_or in Hm.
  destruct Hm as [Hm|[<-|[]]]; [|left; reflexivity]. right. apply in_flat_map in Hm. destruct Hm as (c & Hc & Hm).
  apply in_flat_map. exists c. split; [exact Hc|apply IH; assumption].
Qed.

Lemma last_rpost t : last (rpost t) 0 = rid t.
Proof. destruct t as [n cs]. cbn [rpost rid]. apply last_app_single. Qed.

Lemma rpost_removelast t : removelast (rpost t) = flat_map rpost (rcs t).
Proof. destruct t as [n cs]. cbn [rpost rcs]. apply removelast_last. Qed.

Section Order.
  Variables (im : idmaps) (d : store).
  Let k2b := im_k2b im.

  Lemma wf_subD_nodes p t : wf_subD im d p t -> forall m, In m (rnodes t) -> In m (akeys (nodes d)).
  Proof.
    induction 1 as [p n cs Hok Hcs IH]. intros m Hm. cbn [rnodes] in Hm. destruct Hm as [<-|Hm].
    - destruct Hok as (kn & bn & bp & Hk & _). eapply aget_akeys; eassumption.
    - apply in_flat_map in Hm. destruct Hm as (c & Hc & Hm). eapply IH; eassumption.
  Qed.

  Lemma wf_subD_isket p t : wf_subD im d p t -> forall m, In m (rnodes t) -> im_isket im m = true /\ im_isket im (k2b m) = false.
  Proof.
    induction 1 as [p n cs Hok Hcs IH]. intros m Hm. cbn [rnodes] in Hm. destruct Hm as [<-|Hm].
    - destruct Hok as (kn & bn & bp & _ & _ & _ & _ & _ & _ & _ & _ & _ & _ & _ & H1 & H2). split; assumption.
    - apply in_flat_map in Hm. destruct Hm as (c & Hc & Hm). eapply IH; eassumption.
  Qed.

  Lemma lin_ket p t : wf_subD im d p t -> forall f, length (rnodes t) <= f -> lin f d (rid t) = Some (rpost t).
  Proof.
    induction 1 as [p n cs Hok Hcs IH]. intros f Hf. destruct f as [|f]; [cbn in Hf; lia|].
    destruct Hok as (kn & bn & bp & Hk & _ & _ & _ & Hck & _).
    cbn [lin rid rpost]. rewrite Hk, Hck, map_map.
    rewrite (all_some_total (fun c => lin f d (rid c)) rpost cs).
    - cbn [option_map]. rewrite <- flat_map_concat_map. reflexivity.
    - intros c Hc. apply IH; [exact Hc|]. cbn [rnodes length] in Hf. pose proof (flat_map_length_in rnodes cs c Hc). lia.
  Qed.

  Lemma lin_bra p t : wf_subD im d p t -> forall f, length (rnodes t) <= f ->
    exists l, lin f d (k2b (rid t)) = Some l /\ filter (im_isket im) l = [].
  Proof.
    induction 1 as [p n cs Hok Hcs IH]. intros f Hf. destruct f as [|f]; [cbn in Hf; lia|].
    destruct Hok as (kn & bn & bp & _ & Hb & _ & _ & _ & Hcb & _ & _ & _ & _ & _ & _ & Hnk).
    fold k2b in Hb, Hcb, Hnk. cbn [lin rid]. rewrite Hb.
    destruct (all_some_exists (lin f d) (fun l => filter (im_isket im) l = []) (children bn)) as (bs & -> & Hbs).
    { intros c' Hc'. apply (Permutation_in _ Hcb) in Hc'. rewrite map_map in Hc'. apply in_map_iff in Hc'.
      destruct Hc' as (c & <- & Hc). apply (IH c Hc). cbn [rnodes length] in Hf. pose proof (flat_map_length_in rnodes cs c Hc). lia. }
    cbn [option_map]. eexists. split; [reflexivity|]. rewrite filter_app, (filter_concat_nil _ _ Hbs). cbn. rewrite Hnk. reflexivity.
  Qed.

  Lemma length_two_keys {V} (l : list (nat * V)) a b va vb : aget a l = Some va -> aget b l = Some vb -> a <> b -> 2 <= length l.
  Proof.
    intros Ha Hb Hne. destruct l as [|[k1 v1] [|[k2 v2] t]]; cbn in *; try discriminate; [|lia].
    destruct (Nat.eqb_spec a k1), (Nat.eqb_spec b k1); try discriminate. congruence.
  Qed.

  Lemma contraction_order_wf r0 t : wf_ttndo im d r0 t -> ttndo_contraction_order im d = Some (rpost t).
  Proof.
    intros (Hroot & Hnodup & Hwf & rn & Hr0 & Hpr & Hch & Hnk0 & _).
    assert (Hsize : length (rnodes t) <= length (nodes d)).
    { replace (length (nodes d)) with (length (akeys (nodes d))) by apply map_length.
      apply NoDup_incl_length; [exact Hnodup|]. intros m Hm. eapply wf_subD_nodes; eassumption. }
    unfold ttndo_contraction_order, linearise. rewrite Hroot. cbn [lin]. rewrite Hr0.
    pose proof (lin_ket r0 t Hwf _ Hsize) as Hk. destruct (lin_bra r0 t Hwf _ Hsize) as (lb & Hb & Hlb). fold k2b in Hch.
    assert (Hall : filter (im_isket im) (rpost t) = rpost t).
    { apply filter_all. intros m Hm. eapply wf_subD_isket; [exact Hwf|apply rpost_in; exact Hm]. }
    destruct Hch as [-> | ->]; cbn [map all_some]; rewrite Hk, Hb; cbn [option_map concat]; rewrite !filter_app, Hall, Hlb;
      cbn [filter]; rewrite Hnk0, ?app_nil_r; reflexivity.
  Qed.
End Order.

(* ==== F. the final contraction with the artificial root ============================================= *)
Lemma final_block_axes im d r0 kr fb :
  root d = Some r0 -> droot_ok im d r0 kr ->
  im_isket im kr = true -> im_isket im (im_k2b im kr) = false ->
  gaxes fb = [up_wire d kr; up_wire d (im_k2b im kr)] ->
  contract_final_block im d fb =
  Some {| gaxes := []; gatoms := t_atoms d r0 ++ gatoms fb;
          gbnd := open_wire d r0 :: [up_wire d kr; up_wire d (im_k2b im kr)] ++ t_bnd d r0 ++ gbnd fb;
          gglue := gglue fb |}.
Proof.
  intros Hroot (rn & Hr0 & Hpr & Hch & Hnk0 & Hax & Hdim) Hk1 Hk2 Hfb.
  set (br := im_k2b im kr) in *.
  assert (Hne : kr <> br) by (intros E; rewrite <- E in Hk2; congruence).
  destruct (tensor_of_view d r0 rn Hr0) as (rt & Hrt & Hrt1 & Hrt2 & Hrt3 & Hrt4 & _).
  { rewrite Hax. intros E. apply (f_equal (@length _)) in E. rewrite app_length in E. cbn in E. lia. }
  unfold contract_final_block. rewrite Hroot, Hr0, Hrt.
  assert (Hv : nvirt rn = 2) by (unfold nvirt, nparents; rewrite Hpr; destruct Hch as [-> | ->]; reflexivity).
  rewrite Hv. cbn [Nat.eqb negb]. fold br.
  assert (Hidx : exists i1 i2, filter (im_isket im) (children rn) = [kr] /\
            neighbour_index rn kr = Some i1 /\ neighbour_index rn br = Some i2 /\
            i1 < 3 /\ i2 < 3 /\ i1 <> i2 /\
            nth i1 (gaxes rt) 0 = up_wire d kr /\ nth i2 (gaxes rt) 0 = up_wire d br /\
            dropfrom 0 [i1; i2] (gaxes rt) = [open_wire d r0]).
  { rewrite Hrt1, Hax. unfold neighbour_index. rewrite Hpr.
    destruct Hch as [-> | ->]; cbn [filter map app index_of]; rewrite Hk1, Hk2, !Nat.eqb_refl.
    - destruct (Nat.eqb_spec br kr) as [E|_]; [congruence|]. exists 0, 1. cbn. repeat split; (lia || reflexivity).
    - destruct (Nat.eqb_spec kr br) as [E|_]; [congruence|]. exists 1, 0. cbn. repeat split; (lia || reflexivity). }
  destruct Hidx as (i1 & i2 & Hf & Hx1 & Hx2 & Hi1 & Hi2 & Hi12 & Hn1 & Hn2 & Hdrop).
  rewrite Hf. fold br. rewrite Hx1, Hx2.
  assert (Hlen : length (gaxes rt) = 3) by (rewrite Hrt1, Hax, app_length, map_length; destruct Hch as [-> | ->]; reflexivity).
  rewrite g_tensordot_ok.
  2:{ reflexivity. }
  2:{ intros i [<-|[<-|[]]]; lia. }
  2:{ intros i [<-|[<-|[]]]; rewrite Hfb; cbn; lia. }
  2:{ constructor; [intros [E|[]]; congruence|constructor; [intros []|constructor]]. }
  2:{ constructor; [intros [E|[]]; congruence|constructor; [intros []|constructor]]. }
  cbn [map]. rewrite Hn1, Hn2, Hdrop, Hfb. cbn [nth combine filter fst snd]. rewrite !Nat.eqb_refl. cbn [negb map app].
  cbn [dropfrom memb existsb Nat.eqb orb app].
  unfold g_index0. cbn [gaxes]. rewrite Hdim. cbn [Nat.eqb gatoms gbnd gglue].
  rewrite Hrt2, Hrt3, Hrt4. reflexivity.
Qed.

(* ==== G. trace_ttndo closes the network =============================================================== *)
(* DIAGRAM THEOREM (trace).  For every density-operator network that is consistent over a tree t of ket
   identifiers (any tree, any child orders on the bra side, any dimensions: in particular any bond dimension
   of the artificial root), trace_ttndo succeeds and its result is the closed network: no open axis; the atoms
   are the root atom and every ket and bra atom, each exactly once; the bound wires are the root's open wire
   (dimension 1) and the parent wire of every ket and every bra node; the glued pairs are exactly
   (open wire of ket node m, open wire of bra node m).  No conjugation occurs. *)
Theorem trace_ttndo_closed im d r0 t :
  wf_ttndo im d r0 t ->
  exists g, trace_ttndo im d = Some g /\ gaxes g = [] /\
    Permutation (gatoms g) (tr_atoms im d r0 (rnodes t)) /\
    Permutation (gbnd g) (tr_bnd im d r0 (rnodes t)) /\
    Permutation (gglue g) (tr_glue im d (rnodes t)).
Proof.
  intros Hwf. pose proof (contraction_order_wf im d r0 t Hwf) as Hord.
  destruct Hwf as (Hroot & Hnodup & Hsub & Hrootok).
  assert (Hkr : im_isket im (rid t) = true /\ im_isket im (im_k2b im (rid t)) = false).
  { eapply wf_subD_isket; [exact Hsub|apply rnodes_rid]. }
  assert (Hlen : Nat.eqb (length (nodes d)) 1 = false).
  { apply Nat.eqb_neq. destruct Hrootok as (rn & Hr0 & _ & _ & Hnk0 & _).
    inversion Hsub as [p n cs Hok _ E1 E2]. subst. destruct Hok as (kn & _ & _ & Hk & _). cbn [rid] in Hkr.
    assert (2 <= length (nodes d)); [|lia]. eapply length_two_keys; [exact Hr0|exact Hk|]. intros E. rewrite E in Hnk0. destruct Hkr. congruence. }
  unfold trace_ttndo. rewrite Hroot, Hlen, Hord.
  destruct (sub_loop (trace_block im d) (GoodT im d) r0 t (wf_subD_tree_spec im d r0 t Hsub) Hnodup []) as (g & Hg & HG).
  { intros e []. }
  unfold cache in *. rewrite Hg. cbn [app].
  assert (Hne : rpost t <> []) by (destruct t as [n cs]; cbn [rpost]; intros E; apply app_eq_nil in E; destruct E; discriminate).
  destruct (rpost t) as [|x l] eqn:Ep; [congruence|]. rewrite <- Ep, last_rpost. cbn [cget].
  assert (E : key_eqb (rid t, r0) (rid t, r0) = true) by (apply key_eqb_true; reflexivity). rewrite E.
  destruct HG as (G1 & G2 & G3 & G4).
  rewrite (final_block_axes im d r0 (rid t) g Hroot Hrootok (proj1 Hkr) (proj2 Hkr) G1).
  eexists. split; [reflexivity|]. cbn [gaxes gatoms gbnd gglue]. split; [reflexivity|].
  unfold tr_atoms, tr_bnd, tr_glue. split; [|split].
  - apply Permutation_app_head. exact G2.
  - apply perm_skip. rewrite perm_flat_map_split in G3.
    transitivity (t_bnd d r0 ++ ([up_wire d (rid t); up_wire d (im_k2b im (rid t))] ++ gbnd g)); [perm_solve|].
    rewrite G3. perm_solve.
  - rewrite G4. rewrite flat_map_single. reflexivity.
Qed.

(* ---- the hypothesis checker is sound -------------------------------------------------------------- *)
Lemma dnode_okb_sound im d p n cs : dnode_okb im d p n cs = true -> dnode_ok im d p n cs.
Proof.
  unfold dnode_okb. destruct (aget n (nodes d)) as [kn|] eqn:Hk; [|discriminate].
  destruct (aget (im_k2b im n) (nodes d)) as [bn|] eqn:Hb; [|discriminate].
  intros H. repeat (apply andb_prop in H; let H' := fresh "H" in destruct H as [H H']).
  destruct (parent bn) as [bp|] eqn:Hpb; [|discriminate].
  exists kn, bn, bp. repeat split; auto using opt_eqb_true, cl_list_eqb, perm_of_nodupb_sound.
  - apply cl_nodupb. assumption.
  - apply cl_nodupb. assumption.
  - apply negb_true_iff, Nat.eqb_neq in H2. exact H2.
  - apply negb_true_iff in H0. exact H0.
Qed.

Lemma wf_subDb_sound im d t : forall p, wf_subDb im d p t = true -> wf_subD im d p t.
Proof.
  induction t as [n cs IH] using rt_rect'. intros p H. cbn [wf_subDb] in H. apply andb_prop in H. destruct H as [H1 H2].
  constructor; [apply dnode_okb_sound; exact H1|].
  intros c Hc. apply IH; [exact Hc|]. rewrite forallb_forall in H2. apply H2. exact Hc.
Qed.

Lemma droot_okb_sound im d r0 kr : droot_okb im d r0 kr = true -> droot_ok im d r0 kr.
Proof.
  unfold droot_okb. destruct (aget r0 (nodes d)) as [rn|] eqn:Hr; [|discriminate].
  intros H. repeat (apply andb_prop in H; let H' := fresh "H" in destruct H as [H H']).
  exists rn. split; [exact Hr|]. split; [destruct (parent rn); [discriminate|reflexivity]|].
  split; [apply orb_prop in H3; destruct H3 as [E|E]; [left|right]; apply cl_list_eqb; exact E|].
  split; [apply negb_true_iff in H2; exact H2|]. split; [apply cl_list_eqb; exact H1|apply Nat.eqb_eq; exact H0].
Qed.

Lemma ttndo_tree_root im d r0 t : ttndo_tree im d = Some (r0, t) -> root d = Some r0.
Proof.
  unfold ttndo_tree. destruct (root d) as [r|]; [|discriminate]. destruct (aget r (nodes d)); [|discriminate].
  destruct (filter _ _); [discriminate|]. destruct (tree_of _ _ _); [|discriminate]. cbn. intros [= <- _]. reflexivity.
Qed.

Lemma ttndo_wfb_sound im d : ttndo_wfb im d = true -> exists r0 t, ttndo_tree im d = Some (r0, t) /\ wf_ttndo im d r0 t.
Proof.
  unfold ttndo_wfb. destruct (ttndo_tree im d) as [[r0 t]|] eqn:Ht; [|discriminate]. intros H.
  repeat (apply andb_prop in H; let H' := fresh "H" in destruct H as [H H']).
  exists r0, t. split; [reflexivity|]. split; [eapply ttndo_tree_root; exact Ht|].
  split; [apply cl_nodupb; exact H|]. split; [apply wf_subDb_sound; exact H1|apply droot_okb_sound; exact H0].
Qed.

(* the universal theorem with a decidable hypothesis *)
Theorem ttndo_wfb_trace_closed im d :
  ttndo_wfb im d = true ->
  exists r0 t g, ttndo_tree im d = Some (r0, t) /\ trace_ttndo im d = Some g /\ gaxes g = [] /\
    Permutation (gatoms g) (tr_atoms im d r0 (rnodes t)) /\
    Permutation (gbnd g) (tr_bnd im d r0 (rnodes t)) /\
    Permutation (gglue g) (tr_glue im d (rnodes t)).
Proof.
  intros H. destruct (ttndo_wfb_sound im d H) as (r0 & t & Ht & Hwf).
  destruct (trace_ttndo_closed im d r0 t Hwf) as (g & Hg). exists r0, t, g. split; [exact Ht|exact Hg].
Qed.

(* ==== H. three layers: local lemmas ================================================================== *)
Lemma flat_map_ext_in' {A B} (f g : A -> list B) l : (forall a, In a l -> f a = g a) -> flat_map f l = flat_map g l.
Proof.
  induction l as [|a t IH]; intros H; cbn; [reflexivity|]. rewrite (H a (or_introl eq_refl)), IH; [reflexivity|].
  intros b Hb. apply H. right. exact Hb.
Qed.

(* contract_operator_tensor_ignoring_one_leg with id_trafo.  restO: the operator node's neighbours that are not
   images of the ket's contracted neighbours (its parent, or nothing for the operator's root) *)
Lemma op_ignoring_axes (tr : id -> id) t1 kn ot on next (y x' : id -> wire) wj o oo oi pre post restO :
  neighbouring_nodes kn = pre ++ next :: post -> NoDup (pre ++ next :: post) ->
  NoDup (neighbouring_nodes on) ->
  (forall a, In a (map tr (pre ++ post)) -> In a (neighbouring_nodes on)) ->
  NoDup (map tr (pre ++ post)) ->
  filter (fun b => negb (memb b (map tr (pre ++ post)))) (neighbouring_nodes on) = restO ->
  gaxes t1 = wj :: o :: flat_map (fun nb => [y (tr nb); x' nb]) (pre ++ post) ->
  gaxes ot = map y (neighbouring_nodes on) ++ [oo; oi] ->
  o <> oi ->
  op_ignoring_one_leg tr t1 kn ot on next =
  Some {| gaxes := [wj] ++ map x' (pre ++ post) ++ map y restO ++ [oo];
          gatoms := gatoms t1 ++ gatoms ot;
          gbnd := map y (map tr (pre ++ post)) ++ gbnd t1 ++ gbnd ot;
          gglue := (o, oi) :: gglue t1 ++ gglue ot |}.
Proof.
  intros Hnbs Hnd HndO HLO HndL Hrest Ht1 Hot Hooi.
  set (L := pre ++ post) in *. set (LB := map tr L) in *. set (BO := neighbouring_nodes on) in *. set (n := length L).
  assert (Hk : nvirt kn = S n). { rewrite nvirt_nbs, Hnbs. unfold n, L. rewrite !app_length. cbn. nlia. }
  assert (HlenLB : length LB = n) by (unfold LB; apply map_length).
  unfold op_ignoring_one_leg.
  rewrite (equivalent_legs_tr_ignore tr kn on next pre post Hnbs Hnd).
  2:{ intros a Ha. apply HLO. apply in_map. exact Ha. }
  fold L LB BO. rewrite Hk. replace (S n - 1) with n by nlia. rewrite nvirt_nbs. fold BO.
  assert (Hlegs : map (fun j => 2 * j) (seq 1 n) = map (fun m => 2 + 2 * m) (seq 0 n)).
  { rewrite <- seq_shift, map_map. apply map_ext. intros m. nlia. }
  rewrite Hlegs.
  etransitivity.
  { apply (node_contract_e t1 ot y BO LB (map (fun m => 2 + 2 * m) (seq 0 n) ++ [1]) o [oo; oi] 1 oi (length BO + 1) eq_refl HndO HLO HndL Hot).
    - cbn. nlia.
    - reflexivity.
    - exact Hooi.
    - rewrite app_length, map_length, seq_length, HlenLB. cbn. nlia.
    - apply NoDup_app_one; [apply NoDup_map_affine|]. intros Hin. apply in_map_iff in Hin. destruct Hin as (m & E & _). nlia.
    - intros i Hi. rewrite Ht1. cbn [length]. rewrite il_length. fold n. apply in_app_or in Hi. destruct Hi as [Hi|[<-|[]]]; [|nlia].
      apply in_map_iff in Hi. destruct Hi as (m & <- & Hm). apply in_seq in Hm. nlia.
    - rewrite Ht1, map_app, map_map. cbn [map nth]. f_equal. unfold LB. rewrite map_map.
      exact (il_nth_even (fun nb => y (tr nb)) x' L [wj; o]). }
  rewrite Hrest. f_equal. f_equal.
  rewrite Ht1. change (wj :: o :: flat_map (fun nb => [y (tr nb); x' nb]) L)
    with ([wj] ++ [o] ++ flat_map (fun nb => [y (tr nb); x' nb]) L).
  rewrite !dropfrom_app. cbn [length]. change (0 + 1 + 1) with 2. change (0 + 1) with 1.
  rewrite dropfrom_keep.
  2:{ intros i Hi Hin. cbn in Hi. apply in_app_or in Hin. destruct Hin as [Hin|[Hin|[]]]; [|nlia].
      apply in_map_iff in Hin. destruct Hin as (m & E & _). nlia. }
  rewrite dropfrom_all.
  2:{ intros i Hi. cbn in Hi. apply in_or_app. right. left. nlia. }
  unfold id, wire in *. rewrite (il_drop_idx 2 n [1] (fun nb => y (tr nb)) x' L eq_refl) by (intros e [<-|[]]; nlia).
  cbn [dropfrom memb existsb Nat.eqb orb map app]. reflexivity.
Qed.

(* the bra tensor against ket-and-operator block: legs 1..|LB| carry the bra's wires to the images of the
   contracted neighbours, Y are legs that stay, the last leg is the operator's output leg *)
Lemma bra_contract_axes t2 bt (x : id -> wire) (B LB : list id) ia wj Y oo bo bnext :
  NoDup B -> Permutation B (bnext :: LB) ->
  gaxes t2 = [wj] ++ map x LB ++ Y ++ [oo] ->
  ia = seq 1 (length LB) ++ [1 + length LB + length Y] ->
  gaxes bt = map x B ++ [bo] -> oo <> bo ->
  g_tensordot t2 bt ia (map (pos_in B) LB ++ [length B]) =
  Some {| gaxes := [wj] ++ Y ++ [x bnext]; gatoms := gatoms t2 ++ gatoms bt;
          gbnd := map x LB ++ gbnd t2 ++ gbnd bt; gglue := (oo, bo) :: gglue t2 ++ gglue bt |}.
Proof.
  intros HndB Hperm Ht2 -> Hbt Hne.
  assert (HLB : forall a, In a LB -> In a B).
  { intros a Ha. apply (Permutation_in _ (Permutation_sym Hperm)). right. exact Ha. }
  assert (HndLB : NoDup LB).
  { assert (H : NoDup (bnext :: LB)) by (eapply Permutation_NoDup; eassumption). inversion H; assumption. }
  set (n := length LB). set (k := length Y).
  assert (Hlen2 : length (gaxes t2) = 1 + n + k + 1).
  { rewrite Ht2, !app_length, map_length. cbn. fold n k. nlia. }
  etransitivity.
  { apply (node_contract_e t2 bt x B LB (seq 1 n ++ [1 + n + k]) oo [bo] 0 bo (length B) (eq_sym (Nat.add_0_r _)) HndB HLB HndLB Hbt).
    - cbn. nlia.
    - reflexivity.
    - exact Hne.
    - rewrite app_length, seq_length. cbn. fold n. nlia.
    - apply NoDup_app_one; [apply seq_NoDup|]. intros Hin. apply in_seq in Hin. nlia.
    - intros i Hi. rewrite Hlen2. apply in_app_or in Hi. destruct Hi as [Hi|[<-|[]]]; [apply in_seq in Hi|]; nlia.
    - rewrite Ht2, map_app. cbn [map]. f_equal.
      + pose proof (nth_seq_block 0 [wj] (map x LB) (Y ++ [oo])) as H. rewrite map_length in H. exact H.
      + f_equal. assert (E : [wj] ++ map x LB ++ Y ++ [oo] = ([wj] ++ map x LB ++ Y) ++ oo :: []).
        { rewrite <- !app_assoc. reflexivity. }
        rewrite E. replace (1 + n + k) with (length ([wj] ++ map x LB ++ Y)) by (rewrite !app_length, map_length; cbn; fold n k; nlia).
        apply nth_mid. }
  rewrite (filter_rest_one B LB bnext HndB Hperm). f_equal. f_equal.
  rewrite Ht2, !dropfrom_app. cbn [length Nat.add]. rewrite map_length. fold n.
  rewrite (dropfrom_keep 0 _ [wj]).
  2:{ intros i Hi Hin. cbn in Hi. apply in_app_or in Hin. destruct Hin as [Hin|[Hin|[]]]; [apply in_seq in Hin|]; nlia. }
  rewrite (dropfrom_all 1 _ (map x LB)).
  2:{ intros i Hi. rewrite map_length in Hi. fold n in Hi. apply in_or_app. left. apply in_seq. nlia. }
  rewrite (dropfrom_keep _ _ Y).
  2:{ intros i Hi Hin. fold k in Hi. apply in_app_or in Hin. destruct Hin as [Hin|[Hin|[]]]; [apply in_seq in Hin|]; nlia. }
  rewrite (dropfrom_all _ _ [oo]).
  2:{ intros i Hi. cbn in Hi. apply in_or_app. right. left. fold k. nlia. }
  cbn [dropfrom memb existsb Nat.eqb orb map app]. rewrite app_nil_r. reflexivity.
Qed.

(* ==== I. ttndo_ttno_expectation_value: every node of the loop ========================================= *)
Lemma perm_EB3_split {A} (a b c : id -> A) (h : id -> list A) l :
  Permutation (flat_map (fun m => [a m; b m; c m] ++ h m) l) (flat_map (fun m => [a m; c m]) l ++ map b l ++ flat_map h l).
Proof. induction l as [|m t IH]; cbn; [constructor|]. rewrite IH. perm_solve. Qed.

Lemma norm_pair_swap a b : norm_pair (a, b) = norm_pair (b, a).
Proof.
  unfold norm_pair. cbn [fst snd]. destruct (Nat.leb_spec a b), (Nat.leb_spec b a); try reflexivity; try lia.
  assert (a = b) by lia. subst. reflexivity.
Qed.

Section ExpectG.
  Variables (im : idmaps) (d op : store).
  Let k2b := im_k2b im. Let rev := im_rev im.
  Let kw (m : id) := up_wire d m. Let bw (m : id) := up_wire d (k2b m). Let ow (m : id) := up_wire op (rev m).
  Let ko (m : id) := open_wire d m. Let bo (m : id) := open_wire d (k2b m).
  Let oo (m : id) := out_wire op (rev m). Let oi (m : id) := in_wire op (rev m).
  Let AT (m : id) : list nat := t_atoms d m ++ t_atoms op (rev m) ++ t_atoms d (k2b m).
  Let IB (m : id) : list wire := t_bnd d m ++ t_bnd op (rev m) ++ t_bnd d (k2b m).
  Let EB (m : id) : list wire := [kw m; ow m; bw m] ++ IB m.
  Let OP (m : id) : list (wire * wire) := [(ko m, oi m); (oo m, bo m)].

  (* a block of the expectation-value loop: three legs (ket, operator, bra towards the parent), the three
     subtrees closed *)
  Definition Good3 (t : rt) (g : garr) : Prop :=
    gaxes g = [kw (rid t); ow (rid t); bw (rid t)] /\
    Permutation (gatoms g) (flat_map AT (rnodes t)) /\
    Permutation ([kw (rid t); ow (rid t); bw (rid t)] ++ gbnd g) (flat_map EB (rnodes t)) /\
    Permutation (gglue g) (flat_map OP (rnodes t)).

  Lemma expect_node_spec p n cs :
    dnode_ok3 im d op true p n (map rid cs) -> node_spec (expect_block im d op) Good3 p (RN n cs).
  Proof.
    intros (Hok & on & Ho & (po & Hpo) & Hco & HndO & Hoax & Hop1 & Hop2) blocks Hblocks. cbn [rid rcs] in *.
    destruct Hok as (kn & bn & bp & Hk & Hb & Hpk & Hpb & Hck & Hcb & Hnd & HndB & Hkax & Hbax & _ & _ & _).
    fold k2b in Hb, Hcb, Hbax, Hop2. fold rev in Ho, Hco, Hoax, Hop1, Hop2.
    rewrite Hpo in Hoax. cbn [opt_list] in Hoax.
    destruct (tensor_of_view d n kn Hk) as (kt & Hkt & Hkt1 & Hkt2 & Hkt3 & Hkt4 & Hkt5).
    { rewrite Hkax. discriminate. }
    destruct (tensor_of_view d (k2b n) bn Hb) as (bt & Hbt & Hbt1 & Hbt2 & Hbt3 & Hbt4 & Hbt5).
    { rewrite Hbax. discriminate. }
    destruct (tensor_of_view op (rev n) on Ho) as (ot & Hot & Hot1 & Hot2 & Hot3 & Hot4 & Hot5).
    { rewrite Hoax. discriminate. }
    fold (kw n) (ko n) in Hkax, Hop1. fold (bw n) (bo n) in Hbax, Hop2. fold (ow n) (oo n) (oi n) in Hoax, Hop1, Hop2.
    unfold expect_block. fold k2b rev. rewrite Hk, Hkt, Hb, Hbt, Ho, Hot, Hpk. unfold env_but_one. rewrite Hck. fold k2b rev.
    unfold Good3. cbn [rid rnodes flat_map].
    destruct cs as [|c0 cs'].
    - (* leaf *)
      cbn [map] in *. apply Permutation_sym, Permutation_nil in Hcb. apply Permutation_sym, Permutation_nil in Hco.
      rewrite Hcb in Hbax. rewrite Hco in Hoax. cbn [map app] in *.
      assert (Hvk : nvirt kn = 1) by (unfold nvirt, nparents; rewrite Hpk, Hck; reflexivity).
      assert (Hvb : nvirt bn = 1) by (unfold nvirt, nparents; rewrite Hpb, Hcb; reflexivity).
      assert (Hvo : nvirt on = 1) by (unfold nvirt, nparents; rewrite Hpo, Hco; reflexivity).
      rewrite (sandwich_leaf_axes kt ot bt kn on bn (kw n) (ow n) (bw n) (ko n) (oo n) (oi n) (bo n) Hvk Hvo Hvb).
      2:{ rewrite Hkt1. exact Hkax. }
      2:{ rewrite Hot1. exact Hoax. }
      2:{ rewrite Hbt1. exact Hbax. }
      2:{ exact Hop1. }
      2:{ exact Hop2. }
      eexists. split; [reflexivity|]. cbn [gaxes gatoms gbnd gglue].
      rewrite Hkt2, Hkt3, Hkt4, Hot2, Hot3, Hot4, Hbt2, Hbt3, Hbt4. unfold AT, EB, IB, OP. cbn [flat_map app]. rewrite !app_nil_r.
      repeat split; reflexivity.
    - (* inner node *)
      set (cs := c0 :: cs') in *. set (ids := map rid cs) in *.
      assert (Hnbk : neighbouring_nodes kn = [] ++ p :: ids) by (unfold neighbouring_nodes; rewrite Hpk, Hck; reflexivity).
      assert (Hnbb : neighbouring_nodes bn = bp :: children bn) by (unfold neighbouring_nodes; rewrite Hpb; reflexivity).
      assert (Hnbo : neighbouring_nodes on = po :: children on) by (unfold neighbouring_nodes; rewrite Hpo; reflexivity).
      rewrite Hnbk in Hnd. cbn [app] in Hnd. rewrite Hnbb in HndB. rewrite Hnbo in HndO.
      assert (Hpn : ~ In p ids) by (inversion Hnd; assumption).
      assert (Hbpn : ~ In bp (children bn)) by (inversion HndB; assumption).
      assert (Hbpn' : ~ In bp (map k2b ids)) by (intros Hin; apply Hbpn; eapply Permutation_in; [symmetry; exact Hcb|exact Hin]).
      assert (Hpon : ~ In po (children on)) by (inversion HndO; assumption).
      assert (Hpon' : ~ In po (map rev ids)) by (intros Hin; apply Hpon; eapply Permutation_in; [symmetry; exact Hco|exact Hin]).
      set (blk := fun nb : id => match aget nb blocks with Some g => g | None => kt end).
      assert (Hsub : forall c, In c cs -> aget (rid c) blocks = Some (blk (rid c)) /\ Good3 c (blk (rid c))).
      { intros c Hc. destruct (Hblocks c Hc) as (g & Hg & HG). unfold blk. rewrite Hg. split; [reflexivity|exact HG]. }
      assert (Hids : forall a, In a ids -> exists c, In c cs /\ rid c = a).
      { intros a Ha. apply in_map_iff in Ha. destruct Ha as (c & E & Hc). eauto. }
      match goal with |- context [match ids with [] => ?A | _ :: _ => ?B end] =>
        replace (match ids with [] => A | _ :: _ => B end) with B by reflexivity end.
      destruct (all_but_one_axes kt kn p blocks kw (fun nb => [ow nb; bw nb]) blk (kw n) [ko n] [] ids Hnbk)
        as (t1 & Ht1 & K1 & K2 & K3 & K4).
      { exact Hnd. }
      { rewrite Hkt1, Hkax. reflexivity. }
      { intros nb Hnb. cbn [app] in Hnb. destruct (Hids nb Hnb) as (c & Hc & <-). destruct (Hsub c Hc) as (H1 & H2 & _).
        split; assumption. }
      rewrite Ht1. cbn [app] in K1, K2, K3, K4.
      set (y := fun a : id => if Nat.eqb a po then ow n else up_wire op a).
      set (x := fun a : id => if Nat.eqb a bp then bw n else up_wire d a).
      assert (Hy : forall l : list id, ~ In po l -> map y l = map (up_wire op) l).
      { intros l Hl. apply map_ext_in. intros a Ha. unfold y. destruct (Nat.eqb_spec a po) as [->|_]; [contradiction|reflexivity]. }
      assert (Hx : forall l : list id, ~ In bp l -> map x l = map (up_wire d) l).
      { intros l Hl. apply map_ext_in. intros a Ha. unfold x. destruct (Nat.eqb_spec a bp) as [->|_]; [contradiction|reflexivity]. }
      assert (HLOperm : Permutation (po :: children on) (po :: map rev ids)) by (apply perm_skip; exact Hco).
      rewrite (op_ignoring_axes rev t1 kn ot on p y bw (kw n) (ko n) (oo n) (oi n) [] ids [po] Hnbk).
      2:{ exact Hnd. }
      2:{ rewrite Hnbo. exact HndO. }
      2:{ rewrite Hnbo. cbn [app]. intros a Ha. right. eapply Permutation_in; [symmetry; exact Hco|exact Ha]. }
      2:{ cbn [app]. assert (H : NoDup (po :: map rev ids)) by (eapply Permutation_NoDup; [exact HLOperm|exact HndO]). inversion H; assumption. }
      2:{ rewrite Hnbo. cbn [app]. apply filter_rest_one; [exact HndO|exact HLOperm]. }
      2:{ rewrite K1. cbn [app]. f_equal. f_equal. apply flat_map_ext_in'. intros a Ha. unfold y.
          destruct (Nat.eqb_spec (rev a) po) as [E|_]; [exfalso; apply Hpon'; rewrite <- E; apply in_map; exact Ha|reflexivity]. }
      2:{ rewrite Hnbo, Hot1, Hoax. cbn [map]. rewrite (Hy _ Hpon). unfold y. rewrite Nat.eqb_refl. reflexivity. }
      2:{ exact Hop1. }
      cbn [app map].
      unfold bra_ignore_one_leg.
      rewrite (equivalent_legs_tr_ignore k2b kn bn p [] ids Hnbk Hnd).
      2:{ cbn [app]. intros a Ha. rewrite Hnbb. right. eapply Permutation_in; [symmetry; exact Hcb|apply in_map; exact Ha]. }
      cbn [app]. rewrite !nvirt_nbs, Hnbk, Hnbb. cbn [app length].
      rewrite (bra_contract_axes _ bt x (bp :: children bn) (map k2b ids) _ (kw n) [y po] (oo n) (bo n) bp HndB).
      2:{ apply perm_skip. exact Hcb. }
      2:{ cbn [gaxes app]. rewrite (Hx _ Hbpn'), map_map. reflexivity. }
      2:{ rewrite !map_length. cbn [length]. replace (S (length ids) - 1) with (length ids) by nlia.
          replace (S (length ids) + 1) with (1 + length ids + 1) by nlia. reflexivity. }
      2:{ rewrite Hbt1, Hbax. cbn [map]. rewrite (Hx _ Hbpn). unfold x. rewrite Nat.eqb_refl. reflexivity. }
      2:{ exact Hop2. }
      eexists. split; [reflexivity|]. cbn [gaxes gatoms gbnd gglue app].
      split; [unfold x, y; rewrite !Nat.eqb_refl; reflexivity|].
      rewrite K2, K3, K4, Hkt2, Hkt3, Hkt4, Hot2, Hot3, Hot4, Hbt2, Hbt3, Hbt4, (Hx _ Hbpn'), (Hy _ Hpon'), !map_map.
      pose proof (perm_children (fun c => gatoms (blk c)) AT cs (fun c Hc => proj1 (proj2 (proj2 (Hsub c Hc))))) as P1.
      pose proof (perm_children (fun c => [kw c; ow c; bw c] ++ gbnd (blk c)) EB cs
                    (fun c Hc => proj1 (proj2 (proj2 (proj2 (Hsub c Hc)))))) as P2.
      pose proof (perm_children (fun c => gglue (blk c)) OP cs (fun c Hc => proj2 (proj2 (proj2 (proj2 (Hsub c Hc)))))) as P3.
      fold ids in P1, P2, P3. rewrite <- (perm_edge_sum3 kw ow bw (fun c => gbnd (blk c)) ids) in P2.
      rewrite <- P1, <- P2, <- P3. unfold AT at 1. unfold EB at 1. unfold IB at 1. unfold OP at 1.
      split; [|split]; perm_solve.
  Qed.

  Lemma wf_subD3_tree_spec p t : wf_subD3 im d op p t -> tree_spec (expect_block im d op) Good3 p t.
  Proof.
    induction 1 as [p n cs Hok Hcs IH]. constructor; [apply expect_node_spec; exact Hok|exact IH].
  Qed.

  Lemma wf_subD3_wf_subD p t : wf_subD3 im d op p t -> wf_subD im d p t.
  Proof. induction 1 as [p n cs Hok Hcs IH]. constructor; [apply Hok|exact IH]. Qed.
End ExpectG.

(* ==== J. the operator's root and the main theorem ==================================================== *)
Lemma single_site_axes kt rt bt wj ko oo oi wb bo :
  gaxes kt = [wj; ko] -> gaxes rt = [oo; oi] -> gaxes bt = [wb; bo] -> oi <> ko -> bo <> oo ->
  single_site_contraction kt rt bt =
  Some {| gaxes := [wj; wb]; gatoms := (gatoms bt ++ gatoms rt) ++ gatoms kt;
          gbnd := (gbnd bt ++ gbnd rt) ++ gbnd kt;
          gglue := (oi, ko) :: ((bo, oo) :: gglue bt ++ gglue rt) ++ gglue kt |}.
Proof.
  intros Hkt Hrt Hbt H1 H2. unfold single_site_contraction. rewrite Hkt, Hrt, Hbt. cbn [length Nat.eqb andb negb].
  rewrite g_tensordot_ok.
  2:{ reflexivity. }
  2:{ intros i [<-|[]]. rewrite Hbt. cbn. lia. }
  2:{ intros i [<-|[]]. rewrite Hrt. cbn. lia. }
  2,3: constructor; [intros []|constructor].
  rewrite Hbt, Hrt. cbn [map nth combine filter fst snd dropfrom memb existsb Nat.eqb orb app].
  destruct (Nat.eqb_spec bo oo) as [E|_]; [contradiction|]. cbn [negb map app].
  rewrite g_tensordot_ok.
  2:{ reflexivity. }
  2:{ intros i [<-|[]]. cbn. lia. }
  2:{ intros i [<-|[]]. unfold g_transpose. cbn [gaxes]. rewrite Hkt. cbn. lia. }
  2,3: constructor; [intros []|constructor].
  unfold g_transpose. cbn [gaxes gatoms gbnd gglue]. rewrite Hkt. unfold permute.
  cbn [map nth combine filter fst snd dropfrom memb existsb Nat.eqb orb app].
  destruct (Nat.eqb_spec oi ko) as [E|_]; [contradiction|]. cbn [negb map app nth]. reflexivity.
Qed.

(* DIAGRAM THEOREM (expectation value).  For every consistent density-operator network over a tree t of ket
   identifiers and every operator network over the same tree with its own, independent child orders,
   ttndo_ttno_expectation succeeds and returns the closed network: no open axis; atoms = root atom, every ket,
   operator and bra atom exactly once; bound = root's open wire, both parent wires of every ket/bra pair and the
   parent wire of every operator node below the operator's root; glued (as unordered pairs) = exactly
   (ket open m, operator input m) and (operator output m, bra open m).  No conjugation occurs. *)
Theorem ttndo_expectation_closed im d op r0 t :
  wf_ttndo3 im d op r0 t ->
  exists g, ttndo_ttno_expectation im d op = Some g /\ gaxes g = [] /\
    Permutation (gatoms g) (ex_atoms im d op r0 (rnodes t)) /\
    Permutation (gbnd g) (ex_bnd im d op r0 (rnodes t) (rdesc t)) /\
    Permutation (map norm_pair (gglue g)) (map norm_pair (ex_glue im d op (rnodes t))).
Proof.
  intros (Hroot & Hnodup & Hrootok & Hok3 & Hkids & Hroot_op & Hkid & Hbid & Hsingle).
  destruct t as [n cs]. cbn [rid rcs rdesc rnodes] in *.
  set (k2b := im_k2b im) in *. set (rev := im_rev im) in *.
  assert (Hwf : wf_ttndo im d r0 (RN n cs)).
  { split; [exact Hroot|]. split; [exact Hnodup|]. split; [|exact Hrootok].
    constructor; [apply Hok3|]. intros c Hc. eapply wf_subD3_wf_subD. apply Hkids. exact Hc. }
  pose proof (contraction_order_wf im d r0 _ Hwf) as Hord.
  assert (Hkr : im_isket im n = true /\ im_isket im (k2b n) = false).
  { destruct Hwf as (_ & _ & Hsub & _). apply (wf_subD_isket im d r0 _ Hsub n). left. reflexivity. }
  unfold ttndo_ttno_expectation. rewrite Hroot, Hord, rpost_removelast. cbn [rcs].
  inversion Hnodup as [|? ? Hn Hnd']; subst.
  destruct (kids_loop (expect_block im d op) (Good3 im d op) n cs) with (C := @nil (id * id * garr)) as (gs & HF & Hgs).
  { intros c Hc. apply sub_loop; [apply wf_subD3_tree_spec; apply Hkids; exact Hc|]. eapply NoDup_flat_map_in; eassumption. }
  { exact Hnd'. }
  { intros e []. }
  unfold cache in *. rewrite Hgs. cbn [app].
  destruct Hok3 as (Hok & on & Ho & Hpo & Hco & HndO & Hoax & Hop1 & Hop2).
  destruct Hok as (kn & bn & bp & Hk & Hb & Hpk & Hpb & Hck & Hcb & Hnd & HndB & Hkax & Hbax & _ & _ & _).
  fold k2b in Hb, Hcb, Hbax, Hop2. fold rev in Ho, Hco, Hoax, Hop1, Hop2, Hroot_op, Hkid, Hbid.
  rewrite Hpo in Hoax. cbn [opt_list app] in Hoax.
  destruct (tensor_of_view d n kn Hk) as (kt & Hkt & Hkt1 & Hkt2 & Hkt3 & Hkt4 & Hkt5).
  { rewrite Hkax. discriminate. }
  destruct (tensor_of_view d (k2b n) bn Hb) as (bt & Hbt & Hbt1 & Hbt2 & Hbt3 & Hbt4 & Hbt5).
  { rewrite Hbax. discriminate. }
  destruct (tensor_of_view op (rev n) on Ho) as (ot & Hot & Hot1 & Hot2 & Hot3 & Hot4 & Hot5).
  { rewrite Hoax. intros E. apply (f_equal (@length _)) in E. rewrite app_length in E. cbn in E. lia. }
  set (kw := fun m : id => up_wire d m). set (bw := fun m : id => up_wire d (k2b m)). set (ow := fun m : id => up_wire op (rev m)).
  set (AT := fun m : id => t_atoms d m ++ t_atoms op (rev m) ++ t_atoms d (k2b m)).
  set (IB := fun m : id => t_bnd d m ++ t_bnd op (rev m) ++ t_bnd d (k2b m)).
  set (EB := fun m : id => [kw m; ow m; bw m] ++ IB m).
  set (OP := fun m : id => [(open_wire d m, in_wire op (rev m)); (out_wire op (rev m), open_wire d (k2b m))]).
  unfold contract_ttno_root. rewrite Hroot_op, Hroot. fold rev k2b. rewrite Hkid, Hbid, Ho, Hot, Hk, Hkt, Hb, Hbt.
  assert (Hfinal : forall fb,
            gaxes fb = [kw n; bw n] ->
            Permutation (gatoms fb) (AT n ++ flat_map AT (flat_map rnodes cs)) ->
            Permutation (gbnd fb) (IB n ++ flat_map EB (flat_map rnodes cs)) ->
            Permutation (map norm_pair (gglue fb)) (map norm_pair (OP n ++ flat_map OP (flat_map rnodes cs))) ->
            exists g, contract_final_block im d fb = Some g /\ gaxes g = [] /\
              Permutation (gatoms g) (ex_atoms im d op r0 (n :: flat_map rnodes cs)) /\
              Permutation (gbnd g) (ex_bnd im d op r0 (n :: flat_map rnodes cs) (flat_map rnodes cs)) /\
              Permutation (map norm_pair (gglue g)) (map norm_pair (ex_glue im d op (n :: flat_map rnodes cs)))).
  { intros fb F1 F2 F3 F4.
    rewrite (final_block_axes im d r0 n fb Hroot Hrootok (proj1 Hkr) (proj2 Hkr) F1).
    eexists. split; [reflexivity|]. cbn [gaxes gatoms gbnd gglue]. split; [reflexivity|].
    unfold ex_atoms, ex_bnd, ex_glue. fold k2b rev. cbn [flat_map]. split; [|split].
    - apply Permutation_app_head. exact F2.
    - apply perm_skip. rewrite F3. unfold EB. rewrite (perm_EB3_split kw ow bw IB). fold kw bw ow. unfold IB. perm_solve.
    - exact F4. }
  destruct cs as [|c0 cs'].
  - (* the operator is a single node: _single_site_contraction *)
    rewrite (proj2 Hsingle eq_refl). cbn [Nat.eqb]. inversion HF; subst. cbn [map combine].
    cbn [map] in *. apply Permutation_sym, Permutation_nil in Hcb. apply Permutation_sym, Permutation_nil in Hco.
    rewrite Hcb in Hbax. rewrite Hco in Hoax. cbn [map app] in *.
    rewrite (single_site_axes kt ot bt (kw n) (open_wire d n) (out_wire op (rev n)) (in_wire op (rev n)) (bw n) (open_wire d (k2b n))).
    2:{ rewrite Hkt1. exact Hkax. }
    2:{ rewrite Hot1. exact Hoax. }
    2:{ rewrite Hbt1. exact Hbax. }
    2:{ intros E. apply Hop1. symmetry. exact E. }
    2:{ intros E. apply Hop2. symmetry. exact E. }
    apply Hfinal; cbn [gaxes gatoms gbnd gglue flat_map]; rewrite ?app_nil_r.
    + reflexivity.
    + rewrite Hkt2, Hot2, Hbt2. unfold AT. perm_solve.
    + rewrite Hkt3, Hot3, Hbt3. unfold IB. perm_solve.
    + rewrite Hkt4, Hot4, Hbt4. unfold OP. cbn [app map].
      rewrite (norm_pair_swap (in_wire op (rev n))), (norm_pair_swap (open_wire d (k2b n))). reflexivity.
  - (* the general case *)
    set (cs := c0 :: cs') in *. set (ids := map rid cs) in *.
    assert (Hlen1 : Nat.eqb (length (nodes op)) 1 = false).
    { apply Nat.eqb_neq. intros E. apply Hsingle in E. discriminate. }
    rewrite Hlen1.
    assert (Hnbk : neighbouring_nodes kn = [] ++ r0 :: ids) by (unfold neighbouring_nodes; rewrite Hpk, Hck; reflexivity).
    assert (Hnbb : neighbouring_nodes bn = bp :: children bn) by (unfold neighbouring_nodes; rewrite Hpb; reflexivity).
    assert (Hnbo : neighbouring_nodes on = children on) by (unfold neighbouring_nodes; rewrite Hpo; reflexivity).
    rewrite Hnbk in Hnd. cbn [app] in Hnd. rewrite Hnbb in HndB. rewrite Hnbo in HndO.
    assert (Hbpn : ~ In bp (children bn)) by (inversion HndB; assumption).
    assert (Hbpn' : ~ In bp (map k2b ids)) by (intros Hin; apply Hbpn; eapply Permutation_in; [symmetry; exact Hcb|exact Hin]).
    set (blocks := cview n (combine (map (fun c : rt => (rid c, n)) cs) gs)).
    assert (Hblocks : blocks = combine ids gs).
    { unfold blocks. rewrite <- (cview_entries n ids gs). unfold ids. rewrite map_map. reflexivity. }
    set (blk := fun nb : id => match aget nb blocks with Some g => g | None => kt end).
    assert (Hsub : forall c, In c cs -> aget (rid c) blocks = Some (blk (rid c)) /\ Good3 im d op c (blk (rid c))).
    { intros c Hc. destruct (forall2_aget (Good3 im d op) cs gs (NoDup_flat_map_rid _ Hnd') HF c Hc) as (g & Hg & HG).
      fold ids in Hg. rewrite <- Hblocks in Hg. unfold blk. rewrite Hg. split; [reflexivity|exact HG]. }
    assert (Hids : forall a, In a ids -> exists c, In c cs /\ rid c = a).
    { intros a Ha. apply in_map_iff in Ha. destruct Ha as (c & E & Hc). eauto. }
    destruct (all_but_one_axes kt kn r0 blocks kw (fun nb => [ow nb; bw nb]) blk (kw n) [open_wire d n] [] ids Hnbk)
      as (t1 & Ht1 & K1 & K2 & K3 & K4).
    { exact Hnd. }
    { rewrite Hkt1, Hkax. reflexivity. }
    { intros nb Hnb. cbn [app] in Hnb. destruct (Hids nb Hnb) as (c & Hc & <-). destruct (Hsub c Hc) as (H1 & H2 & _).
      split; [exact H1|exact H2]. }
    rewrite Ht1. cbn [app] in K1, K2, K3, K4.
    set (x := fun a : id => if Nat.eqb a bp then bw n else up_wire d a).
    assert (Hx : forall l : list id, ~ In bp l -> map x l = map (up_wire d) l).
    { intros l Hl. apply map_ext_in. intros a Ha. unfold x. destruct (Nat.eqb_spec a bp) as [->|_]; [contradiction|reflexivity]. }
    rewrite (op_ignoring_axes rev t1 kn ot on r0 (up_wire op) bw (kw n) (open_wire d n) (out_wire op (rev n)) (in_wire op (rev n)) [] ids [] Hnbk).
    2:{ exact Hnd. }
    2:{ rewrite Hnbo. exact HndO. }
    2:{ rewrite Hnbo. cbn [app]. intros a Ha. eapply Permutation_in; [symmetry; exact Hco|exact Ha]. }
    2:{ cbn [app]. eapply Permutation_NoDup; [exact Hco|exact HndO]. }
    2:{ rewrite Hnbo. cbn [app]. apply filter_rest_none. exact Hco. }
    2:{ rewrite K1. reflexivity. }
    2:{ rewrite Hnbo, Hot1, Hoax. reflexivity. }
    2:{ exact Hop1. }
    cbn [app map].
    rewrite (equivalent_legs_tr_ignore k2b kn bn r0 [] ids Hnbk Hnd).
    2:{ cbn [app]. intros a Ha. rewrite Hnbb. right. eapply Permutation_in; [symmetry; exact Hcb|apply in_map; exact Ha]. }
    cbn [app]. rewrite !nvirt_nbs, Hnbk, Hnbb. cbn [app length].
    rewrite (bra_contract_axes _ bt x (bp :: children bn) (map k2b ids) _ (kw n) [] (out_wire op (rev n)) (open_wire d (k2b n)) bp HndB).
    2:{ apply perm_skip. exact Hcb. }
    2:{ cbn [gaxes app]. rewrite (Hx _ Hbpn'), map_map. reflexivity. }
    2:{ rewrite !map_length. cbn [length]. rewrite seq_S. f_equal. f_equal. nlia. }
    2:{ rewrite Hbt1, Hbax. cbn [map]. rewrite (Hx _ Hbpn). unfold x. rewrite Nat.eqb_refl. reflexivity. }
    2:{ exact Hop2. }
    pose proof (perm_children (fun c => gatoms (blk c)) AT cs (fun c Hc => proj1 (proj2 (proj2 (Hsub c Hc))))) as P1.
    pose proof (perm_children (fun c => [kw c; ow c; bw c] ++ gbnd (blk c)) EB cs
                  (fun c Hc => proj1 (proj2 (proj2 (proj2 (Hsub c Hc)))))) as P2.
    pose proof (perm_children (fun c => gglue (blk c)) OP cs (fun c Hc => proj2 (proj2 (proj2 (proj2 (Hsub c Hc)))))) as P3.
    fold ids in P1, P2, P3. rewrite <- (perm_edge_sum3 kw ow bw (fun c => gbnd (blk c)) ids) in P2.
    apply Hfinal; cbn [gaxes gatoms gbnd gglue app].
    + unfold x. rewrite Nat.eqb_refl. reflexivity.
    + rewrite K2, Hkt2, Hot2, Hbt2, <- P1. unfold AT at 1. perm_solve.
    + rewrite K3, Hkt3, Hot3, Hbt3, (Hx _ Hbpn'), !map_map, <- P2. unfold IB at 1. perm_solve.
    + apply Permutation_map. rewrite K4, Hkt4, Hot4, Hbt4, <- P3. unfold OP at 1. perm_solve.
Qed.

(* ---- the hypothesis checker of the expectation-value theorem is sound ------------------------------ *)
Lemma dnode_ok3b_sound im d op b p n cs :
  dnode_okb im d p n cs = true -> onode_okb im d op b n cs = true -> dnode_ok3 im d op b p n cs.
Proof.
  intros H1 H2. split; [apply dnode_okb_sound; exact H1|]. revert H2. unfold onode_okb.
  destruct (aget (im_rev im n) (nodes op)) as [on|] eqn:Ho; [|discriminate].
  intros H. repeat (apply andb_prop in H; let H' := fresh "H" in destruct H as [H H']).
  exists on. split; [reflexivity|]. split.
  { apply eqb_prop in H. destruct b; destruct (parent on) as [po|]; try discriminate; [exists po|]; reflexivity. }
  split; [apply perm_of_nodupb_sound; exact H5|]. split; [apply cl_nodupb; exact H4|].
  split; [apply cl_list_eqb; exact H3|]. split.
  - apply negb_true_iff, Nat.eqb_neq in H2. exact H2.
  - apply negb_true_iff, Nat.eqb_neq in H0. exact H0.
Qed.

Lemma wf_subD3b_sound im d op t : forall p, wf_subD3b im d op p t = true -> wf_subD3 im d op p t.
Proof.
  induction t as [n cs IH] using rt_rect'. intros p H. cbn [wf_subD3b] in H.
  apply andb_prop in H. destruct H as [H H3]. apply andb_prop in H. destruct H as [H1 H2].
  constructor; [apply dnode_ok3b_sound; assumption|].
  intros c Hc. apply IH; [exact Hc|]. rewrite forallb_forall in H3. apply H3. exact Hc.
Qed.

Lemma ttndo_wf3b_sound im d op :
  ttndo_wf3b im d op = true -> exists r0 t, ttndo_tree im d = Some (r0, t) /\ wf_ttndo3 im d op r0 t.
Proof.
  unfold ttndo_wf3b. destruct (ttndo_tree im d) as [[r0 t]|] eqn:Ht; [|discriminate]. intros H.
  repeat (apply andb_prop in H; let H' := fresh "H" in destruct H as [H H']).
  exists r0, t. split; [reflexivity|]. split; [eapply ttndo_tree_root; exact Ht|].
  split; [apply cl_nodupb; exact H|]. split; [apply droot_okb_sound; exact H7|].
  split; [apply dnode_ok3b_sound; assumption|].
  split; [intros c Hc; apply wf_subD3b_sound; rewrite forallb_forall in H4; apply H4; exact Hc|].
  split; [apply opt_eqb_true; exact H3|]. split; [apply Nat.eqb_eq; exact H2|]. split; [apply Nat.eqb_eq; exact H1|].
  apply eqb_prop in H0. destruct (rcs t); destruct (Nat.eqb_spec (length (nodes op)) 1); try discriminate; split; intros; congruence.
Qed.

Theorem ttndo_wf3b_expectation_closed im d op :
  ttndo_wf3b im d op = true ->
  exists r0 t g, ttndo_tree im d = Some (r0, t) /\ ttndo_ttno_expectation im d op = Some g /\ gaxes g = [] /\
    Permutation (gatoms g) (ex_atoms im d op r0 (rnodes t)) /\
    Permutation (gbnd g) (ex_bnd im d op r0 (rnodes t) (rdesc t)) /\
    Permutation (map norm_pair (gglue g)) (map norm_pair (ex_glue im d op (rnodes t))).
Proof.
  intros H. destruct (ttndo_wf3b_sound im d op H) as (r0 & t & Ht & Hwf).
  destruct (ttndo_expectation_closed im d op r0 t Hwf) as (g & Hg). exists r0, t, g. split; [exact Ht|exact Hg].
Qed.

(* ==== K. the result checkers are sound ================================================================ *)
Lemma sort_insert_perm x l : Permutation (sort_insert x l) (x :: l).
Proof.
  induction l as [|y t IH]; cbn; [reflexivity|]. destruct (Nat.leb x y); [reflexivity|]. rewrite IH. apply perm_swap.
Qed.
Lemma sort_nat_perm l : Permutation (sort_nat l) l.
Proof. induction l as [|x t IH]; cbn; [constructor|]. rewrite sort_insert_perm, IH. reflexivity. Qed.
Lemma psort_insert_perm x l : Permutation (psort_insert x l) (x :: l).
Proof.
  induction l as [|y t IH]; cbn; [reflexivity|]. destruct (pair_leb x y); [reflexivity|]. rewrite IH. apply perm_swap.
Qed.
Lemma sort_pairs_perm l : Permutation (sort_pairs l) l.
Proof. induction l as [|x t IH]; cbn; [constructor|]. rewrite psort_insert_perm, IH. reflexivity. Qed.

Lemma pairs_eqb_true a : forall b, pairs_eqb a b = true -> a = b.
Proof.
  induction a as [|[x1 x2] a IH]; intros [|[y1 y2] b]; cbn; try discriminate; [reflexivity|].
  unfold pair_eqb. cbn [fst snd]. intros H. apply andb_prop in H. destruct H as [H1 H2]. apply andb_prop in H1. destruct H1 as [E1 E2].
  apply Nat.eqb_eq in E1, E2. subst. f_equal. apply IH. exact H2.
Qed.

Lemma diagram_is_sound g A B G :
  diagram_is g A B G = true ->
  gaxes g = [] /\ Permutation (gatoms g) A /\ NoDup (gatoms g) /\ Permutation (gbnd g) B /\ NoDup (gbnd g) /\
  Permutation (map norm_pair (gglue g)) (map norm_pair G).
Proof.
  unfold diagram_is. intros H. repeat (apply andb_prop in H; let H' := fresh "H" in destruct H as [H H']).
  split; [destruct (gaxes g); [reflexivity|discriminate]|].
  split; [rewrite <- (sort_nat_perm (gatoms g)), <- (sort_nat_perm A); rewrite (cl_list_eqb _ _ H4); reflexivity|].
  split; [apply cl_nodupb; exact H3|].
  split; [rewrite <- (sort_nat_perm (gbnd g)), <- (sort_nat_perm B); rewrite (cl_list_eqb _ _ H2); reflexivity|].
  split; [apply cl_nodupb; exact H1|].
  rewrite <- (sort_pairs_perm (map norm_pair (gglue g))), <- (sort_pairs_perm (map norm_pair G)).
  rewrite (pairs_eqb_true _ _ H0). reflexivity.
Qed.

(* per instance: whenever the result checker answers true, the program has produced the expected closed
   diagram, with every atom and every bound wire occurring exactly once *)
Theorem ttndo_trace_ok_sound im d :
  ttndo_trace_ok im d = true ->
  exists r0 t g, ttndo_tree im d = Some (r0, t) /\ trace_ttndo im d = Some g /\ gaxes g = [] /\
    Permutation (gatoms g) (tr_atoms im d r0 (rnodes t)) /\ NoDup (gatoms g) /\
    Permutation (gbnd g) (tr_bnd im d r0 (rnodes t)) /\ NoDup (gbnd g) /\
    Permutation (map norm_pair (gglue g)) (map norm_pair (tr_glue im d (rnodes t))).
Proof.
  unfold ttndo_trace_ok. destruct (ttndo_tree im d) as [[r0 t]|]; [|discriminate].
  destruct (trace_ttndo im d) as [g|]; [|discriminate]. intros H. exists r0, t, g.
  split; [reflexivity|]. split; [reflexivity|]. apply diagram_is_sound. exact H.
Qed.

Theorem ttndo_expect_ok_sound im d op :
  ttndo_expect_ok im d op = true ->
  exists r0 t g, ttndo_tree im d = Some (r0, t) /\ ttndo_ttno_expectation im d op = Some g /\ gaxes g = [] /\
    Permutation (gatoms g) (ex_atoms im d op r0 (rnodes t)) /\ NoDup (gatoms g) /\
    Permutation (gbnd g) (ex_bnd im d op r0 (rnodes t) (rdesc t)) /\ NoDup (gbnd g) /\
    Permutation (map norm_pair (gglue g)) (map norm_pair (ex_glue im d op (rnodes t))).
Proof.
  unfold ttndo_expect_ok. destruct (ttndo_tree im d) as [[r0 t]|]; [|discriminate].
  destruct (ttndo_ttno_expectation im d op) as [g|]; [|discriminate]. intros H. exists r0, t, g.
  split; [reflexivity|]. split; [reflexivity|]. apply diagram_is_sound. exact H.
Qed.

(* ==== L. the identifier functions on the encoding of TTNDO/Sym.v ====================================== *)
Lemma code_maps_spec :
  (forall n, im_kid code_maps n = Sym.code (Sym.ket_id n)) /\
  (forall n, im_bid code_maps n = Sym.code (Sym.bra_id n)) /\
  (forall a b, Sym.ket_to_bra_id a = Some b -> Sym.code b = im_k2b code_maps (Sym.code a)) /\
  (forall a n, Sym.reverse_ket_id a = Some n -> im_rev code_maps (Sym.code a) = n) /\
  (forall a, im_isket code_maps (Sym.code a) = Sym.is_ket a).
Proof.
  split; [intros n; cbn; lia|]. split; [intros n; cbn; lia|]. split; [|split].
  - intros [|n [|]] b; cbn; try discriminate. intros [= <-]. cbn. lia.
  - intros [|m [|]] n; cbn -[Nat.div2 Nat.mul]; try discriminate. intros [= <-].
    replace (2 * m + 1 - 1) with (2 * m) by lia. apply Nat.div2_double.
  - intros [|m [|]]; cbn -[Nat.odd Nat.mul]; [reflexivity| |].
    + replace (2 * m + 1) with (S (2 * m)) by lia. rewrite Nat.odd_succ. apply Nat.even_spec. exists m. lia.
    + replace (2 * m + 2) with (2 * (S m)) by lia. rewrite <- Nat.negb_even.
      assert (E : Nat.even (2 * S m) = true) by (apply Nat.even_spec; exists (S m); lia). rewrite E. reflexivity.
Qed.

(* non-vacuity: the network from_ttns builds for a four-node tree with mixed dimensions and root bond dimension
   2, and an operator over the same tree with other child orders, satisfy both hypothesis checkers; the two
   programs return the expected diagrams *)
Example ttndo_contr_example :
  let t := RTree.RNode 0 [RTree.RNode 2 []; RTree.RNode 1 [RTree.RNode 3 []]] in
  let bond := fun n => nth n [0; 3; 3; 1] 0 in
  let phys := fun n => nth n [2; 2; 3; 3] 0 in
  let d := fst (Sym.from_ttns_store bond phys 2 t) in
  let o := fst (run (store_at 1000 100)
                    [AddRoot 0 [2; 2; 2; 2]; AddChild 1 [2; 2; 2; 2] 0 0 0; AddChild 2 [2; 3; 3] 0 0 1; AddChild 3 [2; 3; 3] 0 1 1]) in
  ttndo_wfb code_maps d = true /\ ttndo_trace_ok code_maps d = true /\
  ttndo_wf3b code_maps d o = true /\ ttndo_expect_ok code_maps d o = true /\
  option_map summary (trace_ttndo code_maps d) =
    Some ([], [0; 1; 2; 3; 4; 5; 6; 7; 8], [0; 1; 2; 4; 5; 8; 9; 16; 19], [(6, 10); (12, 14); (17, 20); (22, 24)]).
Proof. vm_compute. repeat split; reflexivity. Qed.
