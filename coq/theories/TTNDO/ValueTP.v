(* Property C16, value level, single-site operator on the density-operator network (partial results, see Props/C16.v):
     - S_value_tp1: the <psi|O_c|psi> diagram of C04 (tp_expectation with one factor on ANY node c of ANY tree) has the
       value SUM over (both copies of every edge wire, every ket-side open wire, the operator's output wire) of
       (product over the nodes of node tensor . conjugate copy's node tensor) . operator entry  -- C04's fused form, flat;
     - absorb_facts / wf_ttndo_absorbed / absorbed_trace_closed: absorb_into_open_legs at the ket node of c keeps the
       network a well-formed density-operator network (wf_ttndo), so trace_ttndo closes it for every tree and k.
   Missing for "ttndo single-site expectation = pure-state value": the renaming step of ValueProofs.v redone with the
   operator atom and the redirected glue at c. *)
From Coq Require Import List Arith Bool Lia Permutation ZArith.
From PTN Require Import TTN.Store TTN.StoreProofs TTN.Inv TTN.InvProofs Wire.Sem Wire.SemProofs TTN.InvSem TTN.InvSemProofs
  TEBD.Trotter Contr.Blocks Contr.Closed Contr.ClosedProofs Contr.TensorProd Contr.TensorProdProofs Contr.TensorProdSem
  Contr.TensorProdBridge Contr.TensorProdBridgeProofs Contr.TensorProdBridgeStore TTNDO.Contr TTNDO.ContrProofs TTNDO.Value TTNDO.ValueProofs.
Import ListNotations.



Lemma kop_swap_perm (kop op : id -> wire) (c : id) (co oc : wire) : forall l, NoDup l -> In c l ->
  kop c = co -> op c = oc -> (forall m, m <> c -> kop m = op m) ->
  Permutation (map kop l ++ [oc]) (map op l ++ [co]).
Proof.
  intros l Hnd Hc Ec Eo Hoff. apply in_split in Hc. destruct Hc as (l1 & l2 & ->).
  apply NoDup_remove_2 in Hnd.
  assert (E1 : map kop l1 = map op l1).
  { apply map_ext_in. intros m Hm. apply Hoff. intros ->. apply Hnd. apply in_or_app. left. exact Hm. }
  assert (E2 : map kop l2 = map op l2).
  { apply map_ext_in. intros m Hm. apply Hoff. intros ->. apply Hnd. apply in_or_app. right. exact Hm. }
  rewrite !map_app. cbn [map]. rewrite E1, E2, Ec, Eo. perm_solve.
Qed.

Section STP1.
  Variable R : Type.
  Variables (zero one : R) (add mul : R -> R -> R).
  Hypothesis SR : comm_semiring zero one add mul.
  Variables (woff aoff : nat) (s : store) (tbl : nat -> list nat -> R).
  Hypothesis WS : wfs s.
  Hypothesis H1 : one_open s.
  Hypothesis Hw2 : next_wire s + 2 <= woff.
  Hypothesis Ha2 : next_atom s < aoff.
  Variable ts : rt.
  Hypothesis WT : wf_two s (conj_store woff aoff s) ts.
  Hypothesis HP : Permutation (rnodes ts) (akeys (nodes s)).
  Variable c : id.
  Hypothesis Hc : In c (rnodes ts).

  Local Notation bra := (conj_store woff aoff s).
  Local Notation W1 := (tp1_wiresS woff aoff s c).
  Local Notation D1 := (tp1_dimS woff aoff s c).
  Local Notation val1 := (value R zero one add mul W1 D1 tbl).
  Local Notation aval1 := (atoms_val R one mul W1 tbl).
  Local Notation na := (next_atom s).
  Local Notation co := (next_wire s).
  Local Notation oc := (open_wire s c).
  Local Notation OPT1 := (glue_pairs woff s c (next_wire s) (akeys (nodes s))).

  Definition prodS1 (r : assignment) : R :=
    prod_over R one mul (fun n => mul (val1 (tens s n) r) (val1 (conj_sarr woff aoff (tens s n)) (glue_asg OPT1 r))) (rnodes ts).

  Lemma prodS1_ext : ext R prodS1.
  Proof.
    intros r r' E. unfold prodS1. apply (prod_over_ext R one mul). intros n _. f_equal.
    - apply (value_ext R zero one add mul). exact E.
    - apply (value_ext R zero one add mul). apply glue_asg_ext. exact E.
  Qed.

  Let Hw0 : 0 < woff. Proof. lia. Qed.
  Let Hw : next_wire s <= woff. Proof. lia. Qed.
  Let Ha : next_atom s <= aoff. Proof. lia. Qed.

  Lemma c_mem : amem c (nodes s) = true.
  Proof. destruct (keys_aget _ _ (Permutation_in _ HP Hc)) as [v E]. unfold amem. rewrite E. reflexivity. Qed.

  Lemma W1_ket a : In a (total_atoms s) -> W1 a = atom_wires s a.
  Proof.
    intros Hin. unfold tp1_wiresS, ext_wires. pose proof (ws_atoms_lt s WS a Hin) as Hlt.
    destruct (Nat.eqb_spec a (next_atom s)) as [E|_]; [lia|]. apply (pw_ket woff aoff s WS a Hin).
  Qed.
  Lemma W1_bra a : a < next_atom s -> W1 (aoff + a) = map (Nat.add woff) (atom_wires s a).
  Proof.
    intros Hlt. unfold tp1_wiresS, ext_wires. destruct (Nat.eqb_spec (aoff + a) (next_atom s)) as [E|_]; [lia|].
    apply (pw_bra woff aoff s WS Hw Ha a Hlt).
  Qed.
  Lemma W1_na : W1 (next_atom s) = [next_wire s; open_wire s c].
  Proof. unfold tp1_wiresS, ext_wires. rewrite Nat.eqb_refl. reflexivity. Qed.

  Lemma S_value_tp1 dd : dd = wdim s (open_wire s c) ->
    exists g, tp_expectation woff aoff s [(c, [dd; dd])] = Some g /\ gaxes g = [] /\
    forall rho, gvalue R zero one add mul W1 D1 tbl g rho
                = sum_bnd R zero add D1 (restS woff s ts ++ [next_wire s]) (fun r => mul (prodS1 r) (aval1 [next_atom s] r)) rho.
  Proof.
    intros Edd. pose proof c_mem as Hcm.
    assert (Hco : co = open_wire s c \/ next_wire s <= co < woff) by (right; lia).
    destruct (tp_expectation_closed woff aoff s [(c, [dd; dd])] ts (ws_wf s WS) WT) as (ket & g & _ & Hg & Hax & PA & PB & PG & _).
    { cbn. constructor; [intros []|constructor]. }
    { intros o0 [<-|[]]. exact Hc. }
    { cbn [length]. lia. }
    { intros o0 [<-|[]]. cbn [fst snd]. rewrite Edd. reflexivity. }
    exists g. split; [exact Hg|]. split; [exact Hax|]. intros rho. cbn [length seq map fst] in PA, PB.
    assert (Hpairs : map (tp_pair woff s [(c, [dd; dd])]) (rnodes ts) = map (fun m => (ket_open s c co m, woff + open_wire s m)) (rnodes ts))
      by (apply map_ext; intros m; apply (tp_pair_kop woff s c co eq_refl)).
    rewrite Hpairs in PG.
    set (T := centre_tree s c).
    set (NA := flat_map (fun m => atoms (tens s m) ++ map (Nat.add aoff) (atoms (tens s m))) (rnodes T)).
    set (NB := flat_map (fun m => bnd (tens s m) ++ map (Nat.add woff) (bnd (tens s m))) (rnodes T)).
    set (WSB := wires_sub (bond_u woff s c) (bond_u' woff s c) (fun m => [ket_open s c co m]) T).
    pose proof (perm_T_t s WS ts HP c Hcm) as PT. fold T in PT.
    rewrite (gvalue_norm R zero one add mul SR W1 D1 tbl g (NA ++ [na]) ((WSB ++ NB) ++ [oc]) OPT1 rho).
    - rewrite (sum_bnd_perm R zero one add mul SR D1 _ _ ((WSB ++ [oc]) ++ NB) (aval_glue_ext R one mul W1 tbl _ OPT1)) by perm_solve.
      rewrite sum_bnd_app.
      transitivity (sum_bnd R zero add D1 (WSB ++ [oc]) (fun r => mul (prodS1 r) (aval1 [na] r)) rho).
      + apply sum_bnd_ext_F. intros r1.
        rewrite (sum_bnd_ext_F R zero add D1 NB _ (fun r => mul (aval1 NA (glue_asg OPT1 r)) (aval1 [na] r))).
        2:{ intros r. rewrite (atoms_val_app R zero one add mul SR).
            rewrite (opv_glue R one mul woff aoff s tbl WS Hw0 Hw Ha W1 ts WT HP c Hcm co Hco eq_refl Hw2 Ha2 W1_na). reflexivity. }
        rewrite (sum_bnd_mul_r R zero one add mul SR D1 NB (aval1 [na]) _
                   (opv_indep_NB R one mul woff aoff s tbl WS Hw0 Hw Ha W1 ts WT HP c Hcm co Hco eq_refl Hw2 Ha2 W1_na)).
        f_equal. unfold NA, NB, T.
        rewrite (fused_value R zero one add mul SR woff aoff s tbl WS Hw0 Hw Ha W1 D1 W1_ket W1_bra ts WT HP c Hcm co Hco r1).
        unfold prodS1. apply (prod_over_perm R zero one add mul SR). exact PT.
      + apply (sum_bnd_perm R zero one add mul SR D1).
        * intros r r' E. rewrite (prodS1_ext r r' E). f_equal. apply (atoms_val_ext R one mul W1 tbl). exact E.
        * unfold WSB. rewrite (wires_sub_perm _ _ _ T). unfold restS. rewrite <- !app_assoc. apply Permutation_app.
          -- rewrite (flat_map_double (bond_u woff s c) (bond_u' woff s c) woff (rdesc T)).
             ++ unfold T. rewrite <- (Permutation_flat_map _ (perm_edges woff aoff s WS Hw0 Hw Ha ts WT HP c Hcm _ Hco)).
                rewrite flat_map_map. reflexivity.
             ++ intros m Hm. destruct (u_rdesc_T woff aoff s WS Hw0 Hw Ha c Hcm _ Hco m Hm) as (kn & p & _ & _ & _ & U1 & U2).
                rewrite U1, U2. reflexivity.
          -- rewrite flat_map_single. rewrite (Permutation_map (ket_open s c co) PT).
             destruct WT as (_ & _ & Hnd & _).
             apply (kop_swap_perm (ket_open s c co) (open_wire s) c co oc (rnodes ts) Hnd Hc).
             ++ unfold ket_open. rewrite Nat.eqb_refl. reflexivity.
             ++ reflexivity.
             ++ intros m Hne. unfold ket_open. destruct (Nat.eqb_spec m c); [contradiction|reflexivity].
    - rewrite PA. apply Permutation_app; [|apply Permutation_refl]. unfold NA, T. exact (perm_atoms_T woff aoff s WS ts WT HP c Hcm).
    - rewrite PB, (Permutation_map fst PG), map_map. cbn [fst].
      assert (PW : Permutation ((edge_wires s bra (rdesc ts) ++ inner_bnd s bra (rnodes ts)) ++ map (ket_open s c co) (rnodes ts)) (WSB ++ NB))
        by exact (perm_wires_T woff aoff s WS Hw0 Hw Ha ts WT HP c Hcm co Hco).
      rewrite <- PW. perm_solve.
    - rewrite PG. unfold glue_pairs. apply Permutation_map. exact HP.
    - exact (OPT_nodup woff aoff s WS Hw0 Hw Ha ts WT HP c co Hco).
  Qed.
End STP1.

(* ================================================================================================================ *)
(* the network after absorbing a single-site operator into the ket node of c                                          *)
(* ================================================================================================================ *)
Lemma wdim_snoc_other (s s' : store) (nw dd : nat) w : dims s' = dims s ++ [(nw, dd)] -> w <> nw -> wdim s' w = wdim s w.
Proof.
  intros E Hne. unfold wdim. rewrite E. rewrite aget_app. destruct (aget w (dims s)); [reflexivity|].
  cbn [aget]. destruct (Nat.eqb_spec w nw); [contradiction|reflexivity].
Qed.

Lemma wdim_snoc_new (s s' : store) (nw dd : nat) : dims s' = dims s ++ [(nw, dd)] -> ~ In nw (akeys (dims s)) -> wdim s' nw = dd.
Proof.
  intros E Hni. unfold wdim. rewrite E. rewrite aget_app. apply aget_None in Hni. rewrite Hni. cbn [aget]. rewrite Nat.eqb_refl. reflexivity.
Qed.

Lemma t_of_tensor_of s s' m m' : tensor_of s' m' = tensor_of s m ->
  t_axes s' m' = t_axes s m /\ t_atoms s' m' = t_atoms s m /\ t_bnd s' m' = t_bnd s m.
Proof. intros E. unfold t_axes, t_atoms, t_bnd. rewrite E. auto. Qed.

Lemma nodup_map_inj {A B} (f : A -> B) : forall l, NoDup (map f l) -> forall x y, In x l -> In y l -> f x = f y -> x = y.
Proof.
  induction l as [|z t IH]; intros Hnd x y Hx Hy E; [destruct Hx|]. cbn [map] in Hnd. inversion Hnd as [|? ? Hni Hnd']; subst.
  destruct Hx as [->|Hx], Hy as [->|Hy]; [reflexivity| | |apply IH; assumption].
  - exfalso. apply Hni. rewrite E. apply in_map. exact Hy.
  - exfalso. apply Hni. rewrite <- E. apply in_map. exact Hx.
Qed.

Lemma flat_map_update {A B} (f g : A -> list B) (c : A) (extra : list B) : forall l, NoDup l -> In c l ->
  (forall m, In m l -> m <> c -> g m = f m) -> Permutation (g c) (f c ++ extra) ->
  Permutation (flat_map g l) (flat_map f l ++ extra).
Proof.
  intros l Hnd Hc Hoff Pc. apply in_split in Hc. destruct Hc as (l1 & l2 & ->). pose proof (NoDup_remove_2 _ _ _ Hnd) as Hni.
  rewrite !flat_map_app. cbn [flat_map].
  rewrite (flat_map_ext_in' g f l1), (flat_map_ext_in' g f l2), Pc.
  - perm_solve.
  - intros m Hm. apply Hoff; [apply in_or_app; right; right; exact Hm|]. intros ->. apply Hni. apply in_or_app. right. exact Hm.
  - intros m Hm. apply Hoff; [apply in_or_app; left; exact Hm|]. intros ->. apply Hni. apply in_or_app. left. exact Hm.
Qed.

Section DTP1.
  Variables (woff aoff : nat) (im : idmaps) (d s : store) (r0 : id) (ts : rt) (k : nat).
  Hypothesis WS : wfs s.
  Hypothesis TO : ttndo_of im d s r0 ts k.
  Variable c : id.
  Hypothesis Hc : In c (rnodes ts).
  Variable D' : store.
  Local Notation dd := (wdim s (open_wire s c)).
  Hypothesis HD' : absorb_open d (im_kid im c) [dd; dd] = Some D'.

  Local Notation kid := (im_kid im).
  Local Notation k2b := (im_k2b im).
  Local Notation a := (im_kid im c).
  Local Notation upD := (up_wire d).
  Local Notation opD := (open_wire d).

  Let WD' : wfs d := to_wfs _ _ _ _ _ _ TO.
  Let Wfd : wf d := ws_wf d WD'.

  (* the ket node of c in d *)
  Lemma a_entry : exists q cs, In (q, c, cs) (tlist None ts).
  Proof. apply in_tlist. exact Hc. Qed.

  Lemma a_isket : im_isket im a = true.
  Proof. destruct a_entry as (q & cs & He). destruct (d_node im d s r0 ts k TO q c cs He) as (_ & _ & _ & _ & _ & _ & _ & _ & _ & _ & K1 & _). exact K1. Qed.

  Lemma absorb_facts : exists kn p cs,
    aget a (nodes d) = Some kn /\ parent kn = Some p /\ children kn = map kid cs /\
    aget a (nodes D') = Some (reset_permutation kn) /\
    (forall m, m <> a -> aget m (nodes D') = aget m (nodes d) /\ tensor_of D' m = tensor_of d m) /\
    t_axes d a = upD a :: map upD (map kid cs) ++ [opD a] /\
    t_axes D' a = upD a :: map upD (map kid cs) ++ [next_wire d] /\
    t_atoms D' a = t_atoms d a ++ [next_atom d] /\
    t_bnd D' a = opD a :: t_bnd d a /\
    root D' = root d /\
    dims D' = dims d ++ [(next_wire d, dd)] /\
    atab D' = atab d ++ [(next_atom d, [next_wire d; opD a])].
  Proof.
    destruct a_entry as (q & cs & He).
    destruct (d_node im d s r0 ts k TO q c cs He) as (kn & bn & p & bp & E1 & _ & P1 & _ & AK & _).
    destruct (wf_two_of_wf 1 0 d Wfd (to_open _ _ _ _ _ _ TO) Nat.lt_0_1) as (tD & _ & WTD & HPD).
    assert (HaD : In a (rnodes tD)) by (apply (Permutation_in _ (Permutation_sym HPD)); apply (aget_Some_keys _ _ _ E1)).
    destruct (in_tlist tD a HaD) as (q' & cs' & He').
    destruct WTD as (_ & _ & _ & Hsub). pose proof (wf_sub_tlist d _ tD None Hsub q' a cs' He') as Hok.
    destruct (absorb_site d _ q' a cs' [dd; dd] D' Hok HD') as (kn' & F1 & F2 & F3 & F4 & F5 & F6 & F7 & F8 & F9 & _ & F11).
    rewrite E1 in F1. injection F1 as <-.
    destruct Hok as (kn2 & bn2 & G1 & _ & G3 & _ & G5 & _ & _ & G8 & _). rewrite E1 in G1. injection G1 as <-.
    rewrite P1 in G3. subst q'. cbn [opt_list app] in F4, G8.
    assert (Ecs : cs' = map kid cs).
    { destruct (wf_subD_tlist im d r0 kid ts None (proj1 (proj2 (proj2 (to_wf _ _ _ _ _ _ TO)))) q c cs He) as (kn3 & _ & _ & H3 & _ & _ & _ & C3 & _).
      rewrite E1 in H3. injection H3 as <-. rewrite <- G5. exact C3. }
    rewrite Ecs in F4, G5.
    destruct (absorb_effect d a [dd; dd] D' HD') as (nd0 & t0 & B1 & _ & Hlen & _ & _ & _ & _ & _ & _ & _ & _ & Bd & _).
    rewrite E1 in B1. injection B1 as <-. cbn [length] in Hlen.
    assert (Hk1 : nopen kn = 1) by lia. rewrite Hk1 in Bd. cbn [seq firstn combine] in Bd.
    exists kn, p, cs. exact (conj E1 (conj P1 (conj G5 (conj F2 (conj F3 (conj AK (conj F4 (conj F5 (conj F6 (conj F7 (conj Bd F11))))))))))).
  Qed.

  (* ---- what the network looks like after the absorption ------------------------------------------------------------ *)
  Lemma view_other m : m <> a ->
    aget m (nodes D') = aget m (nodes d) /\ t_axes D' m = t_axes d m /\ t_atoms D' m = t_atoms d m /\ t_bnd D' m = t_bnd d m /\
    up_wire D' m = upD m /\ open_wire D' m = opD m.
  Proof.
    intros Hne. destruct absorb_facts as (kn & p & cs & _ & _ & _ & _ & Hoth & _). destruct (Hoth m Hne) as (N & T).
    destruct (t_of_tensor_of d D' m m T) as (T1 & T2 & T3). unfold up_wire, open_wire. rewrite T1. repeat split; auto.
  Qed.

  Lemma view_a : up_wire D' a = upD a /\ open_wire D' a = next_wire d.
  Proof.
    destruct absorb_facts as (kn & p & cs & _ & _ & _ & _ & _ & _ & AX & _). unfold up_wire, open_wire. rewrite AX. split; [reflexivity|].
    rewrite app_comm_cons. apply last_last.
  Qed.

  Lemma up_same m : up_wire D' m = upD m.
  Proof. destruct (Nat.eq_dec m a) as [->|Hne]; [apply view_a|apply (view_other m Hne)]. Qed.

  Lemma d_keys_nw m : In m (akeys (nodes d)) -> opD m < next_wire d.
  Proof.
    intros Hm. destruct (wf_two_of_wf 1 0 d Wfd (to_open _ _ _ _ _ _ TO) Nat.lt_0_1) as (tD & _ & WTD & HPD).
    exact (open_wire_nw 1 0 d WD' tD WTD HPD m Hm).
  Qed.

  Lemma dnode_transfer p m cs : dnode_ok im d p m cs -> dnode_ok im D' p m cs.
  Proof.
    intros (kn & bn & bp & E1 & E2 & P1 & P2 & C1 & PC & N1 & N2 & A1 & A2 & NE & K1 & K2).
    assert (Hb : k2b m <> a) by (intros E; pose proof a_isket as Ka; rewrite <- E in Ka; congruence).
    destruct (view_other (k2b m) Hb) as (Vn & Va & _ & _ & _ & Vo).
    destruct (Nat.eq_dec m a) as [Ema|Hne].
    - subst m. destruct absorb_facts as (kn0 & p0 & cs0 & F1 & _ & F3 & F4 & _ & _ & AX & _).
      rewrite E1 in F1. injection F1 as <-. destruct view_a as (_ & Vop).
      exists (reset_permutation kn), bn, bp. rewrite Vn, Va, Vo, Vop.
      rewrite !(map_ext (up_wire D') upD up_same), (up_same (k2b a)), (up_same a).
      repeat split; auto.
      + rewrite AX. rewrite <- F3, C1. reflexivity.
      + intros Hx. pose proof (d_keys_nw (k2b a) (aget_Some_keys _ _ _ E2)) as Hlt. rewrite <- Hx in Hlt. exact (Nat.lt_irrefl _ Hlt).
    - destruct (view_other m Hne) as (Wn & Wa & _ & _ & _ & Wo).
      exists kn, bn, bp. rewrite Vn, Va, Vo, Wn, Wa, Wo.
      rewrite !(map_ext (up_wire D') upD up_same), (up_same (k2b m)), (up_same m).
      repeat split; auto.
  Qed.

  Lemma wf_subD_transfer t : forall p, wf_subD im d p t -> wf_subD im D' p t.
  Proof.
    induction t as [n cs IH] using rt_rect'. intros p H. inversion H as [? ? ? Hok Hsub]; subst. constructor.
    - apply dnode_transfer. exact Hok.
    - intros x Hx. apply (IH x Hx). apply Hsub. exact Hx.
  Qed.

  Lemma r0_not_a : r0 <> a.
  Proof.
    destruct (d_root im d s r0 ts k TO) as (rn & _ & _ & _ & K & _). intros E. pose proof a_isket as Ka. rewrite <- E in Ka. congruence.
  Qed.

  Lemma wdim_old w : w <> next_wire d -> wdim D' w = wdim d w.
  Proof. destruct absorb_facts as (kn & p & cs & _ & _ & _ & _ & _ & _ & _ & _ & _ & _ & Dm & _). apply (wdim_snoc_other d D' _ _ w Dm). Qed.

  Lemma wdim_new : wdim D' (next_wire d) = dd.
  Proof.
    destruct absorb_facts as (kn & p & cs & _ & _ & _ & _ & _ & _ & _ & _ & _ & _ & Dm & _). apply (wdim_snoc_new d D' _ _ Dm).
    intros Hin. pose proof (wf_dims d Wfd _ Hin). lia.
  Qed.

  Lemma wf_ttndo_absorbed : wf_ttndo im D' r0 (rmap kid ts).
  Proof.
    destruct (to_wf _ _ _ _ _ _ TO) as (Hr & Hnd & Hsub & (rn & E & P & C & K & A & Dm)).
    destruct absorb_facts as (kn & p & cs & _ & _ & _ & _ & _ & _ & _ & _ & _ & Hroot & _).
    split; [rewrite Hroot; exact Hr|]. split; [exact Hnd|]. split; [apply wf_subD_transfer; exact Hsub|].
    destruct (view_other r0 r0_not_a) as (Vn & Va & _ & _ & _ & Vo).
    exists rn. rewrite Vn, Va, Vo, (map_ext (up_wire D') upD up_same). repeat split; auto.
    rewrite wdim_old; [exact Dm|]. intros Hx. pose proof (d_keys_nw r0 (aget_Some_keys _ _ _ E)) as Hlt. rewrite Hx in Hlt. exact (Nat.lt_irrefl _ Hlt).
  Qed.


  (* trace_ttndo on the absorbed network: succeeds and closes it (C16_trace_closed applies to D') *)
  Lemma absorbed_trace_closed : exists g, trace_ttndo im D' = Some g /\ gaxes g = [] /\
    Permutation (gatoms g) (tr_atoms im D' r0 (rnodes (rmap kid ts))) /\
    Permutation (gbnd g) (tr_bnd im D' r0 (rnodes (rmap kid ts))) /\
    Permutation (gglue g) (tr_glue im D' (rnodes (rmap kid ts))).
  Proof. exact (trace_ttndo_closed im D' r0 _ wf_ttndo_absorbed). Qed.
End DTP1.
