(* Property C16, value level, TTNO path: TTNDO.ttno_expectation_value(operator) on the network from_ttns builds from a
   state against C04's three-layer <psi|H|psi>.  Vocabulary of the statements (definitions only; proofs in
   TTNDO/ValueTTNOGen.v -- generic -- and TTNDO/ValueTTNOProofs.v).

   The model of the code is TTNDO/Contr.v (ttndo_ttno_expectation: ttndo_contraction_order, the loop with the cache
   dictionary, contract_any_node_environment_but_one with id_trafo, _contract_ttno_root, _contract_final_block) and, on the
   pure-state side, Contr/Blocks.expectation_value (C04).  The operator store op lives on the identifiers of the STATE's
   tree (im_rev (im_kid n) = n); the SAME store is read in both worlds. *)
From Coq Require Import List Arith Bool ZArith.
From PTN Require Import TTN.Store TTN.Inv Wire.Sem TTN.InvSem Contr.Blocks Contr.Closed Contr.TensorProd
  Contr.TensorProdBridge Contr.ThreeLayerValue TTNDO.Contr TTNDO.Value.
Import ListNotations.

Section Flat.
  Variables (im : idmaps) (d op : store) (r0 : id) (ts : rt).

  (* the glued pairs of the network's diagram, one orientation for every node: (ket open wire, operator input wire) and
     (operator output wire, bra open wire) *)
  Definition glueD3 : list (wire * wire) :=
    flat_map (fun n => [(open_wire d (im_kid im n), in_wire op n); (out_wire op n, open_wire d (bid im n))]) (rnodes ts).
  (* the three wires of the artificial root *)
  Definition rootD3 : list wire := [open_wire d r0; up_wire d (im_kid im (rid ts)); up_wire d (bid im (rid ts))].
  (* the three copies (ket image, operator, bra image) of every tree edge *)
  Definition edgeD3 : list wire :=
    flat_map (fun n => [up_wire d (im_kid im n); up_wire op n; up_wire d (bid im n)]) (rdesc ts).
  (* the tensors of the network's diagram: layer 0 = ket image, 1 = operator, 2 = bra image, 3 = the artificial root *)
  Definition tensD3 (lm : nat * id) : sarr :=
    match fst lm with
    | 0 => tens d (im_kid im (snd lm))
    | 1 => tens op (snd lm)
    | 2 => tens d (bid im (snd lm))
    | _ => tens d r0
    end.
  Definition itemsD3 : list (nat * id) := (3, r0) :: layer_items (rnodes ts).
End Flat.

Section FlatValue.
  Variable R : Type.
  Variables (zero one : R) (add mul : R -> R -> R).
  Variable Wr : nat -> list wire.
  Variable Dm : wire -> nat.
  Variable tbl : nat -> list nat -> R.
  Variables (im : idmaps) (d op : store) (r0 : id) (ts : rt).

  (* THE FLAT FORM of the diagram of ttndo_ttno_expectation: SUM over the three wires of the artificial root, the three
     copies of every tree edge and one index per glued pair of physical wires of the PRODUCT of the artificial root's
     tensor and, over the nodes, (ket image tensor)(operator tensor)(bra image tensor), every tensor read through the gluing *)
  Definition ttndo_three_flat (rho : wire -> nat) : R :=
    sum_bnd R zero add Dm (rootD3 im d r0 ts ++ edgeD3 im d op ts ++ map fst (glueD3 im d op ts))
      (fun r => prod_over R one mul
                  (fun i => value R zero one add mul Wr Dm tbl (tensD3 im d op r0 i) (glue_asg (glueD3 im d op ts) r))
                  (itemsD3 r0 ts)) rho.
End FlatValue.

(* the world of the network side: atoms and dimensions of the network d, then of the operator store *)
Definition d3_world (d op : store) (a : nat) : list wire :=
  match aget a (atab d) with Some ws => ws | None => atom_wires op a end.
Definition d3_dim (d op : store) (w : wire) : nat :=
  match aget w (dims d) with Some x => x | None => wdim op w end.

(* the pairing of summed wires: (wire of C04's three-layer flat form, wire of the network's flat form) *)
Definition wire_pairs3 (woff : nat) (im : idmaps) (d s op : store) (ts : rt) : list (wire * wire) :=
  flat_map (fun n => [(up_wire s n, up_wire d (im_kid im n)); (up_wire op n, up_wire op n);
                      (woff + up_wire s n, up_wire d (bid im n))]) (rdesc ts)
  ++ [(open_wire s (rid ts), open_wire d (im_kid im (rid ts))); (woff + open_wire s (rid ts), out_wire op (rid ts))]
  ++ flat_map (fun m => [(open_wire s m, open_wire d (im_kid im m)); (out_wire op m, out_wire op m)]) (rdesc ts).

(* ---- example data: a three-node state (root 0 with the leaves 1 and 2; bond dimensions 2, 2; physical dimensions 2, 2, 3)
   built like TTNDO/Value.vx_s, its network for root bond dimension k, an operator on the same tree with the root's children
   in the OTHER order (operator bond dimensions 2 and 1), wires from 40 and atoms from 20 (above the network's, below
   woff = 1000 / aoff = 100) ------------------------------------------------------------------------------------------- *)
Definition tx_t : RTree.rtree := RTree.RNode 0 [RTree.RNode 1 []; RTree.RNode 2 []].
Definition tx_bond (n : nat) : nat := nth n [0; 2; 2] 0.
Definition tx_phys (n : nat) : nat := nth n [2; 2; 3] 0.
Definition tx_s : store := fst (run empty_store (ttns_ops tx_bond tx_phys tx_t)).
Definition tx_d (k : nat) : store := fst (Sym.from_ttns_store tx_bond tx_phys k tx_t).
Definition tx_ts : rt := RN 0 [RN 1 []; RN 2 []].
Definition tx_o : store :=
  fst (run (store_at 40 20)
           [AddRoot 0 [1; 2; 2; 2]; AddChild 2 [1; 3; 3] 0 0 0; AddChild 1 [2; 2; 2] 0 0 1]).
(* the network's table (vx_tblD: eye(k), padded root, twins of the state's atoms), extended by the operator's atoms: the
   same (non-symmetric) integer entries as on the state side *)
Definition tx_tblD (a : nat) (idx : list nat) : Z :=
  if Nat.leb 20 a && Nat.ltb a 23 then vx_tblS a idx else vx_tblD a idx.
Definition tx_D (k : nat) : option Z :=
  option_map (fun g => gvalue Z 0%Z 1%Z Z.add Z.mul (d3_world (tx_d k) tx_o) (d3_dim (tx_d k) tx_o) tx_tblD g (fun _ => 0))
             (ttndo_ttno_expectation code_maps (tx_d k) tx_o).
Definition tx_S : option Z :=
  option_map (fun g => gvalue Z 0%Z 1%Z Z.add Z.mul (three_world 1000 100 tx_s tx_o) (three_dim 1000 100 tx_s tx_o) vx_tblS g (fun _ => 0))
             (expectation_value 1000 100 tx_s tx_o).
(* the executable hypotheses: the structural ones of both sides, the separation of the wire ranges, the build contracts, the
   bra open legs' dimensions, the operator's physical dimensions, reverse_ket_id o ket_id = id *)
Definition tx_hyp (k : nat) : bool :=
  value_hyp 1000 100 code_maps (tx_d k) tx_s 0 k
  && ttndo_wf3b code_maps (tx_d k) tx_o && three_ok 1000 tx_s tx_o && wfsb tx_o
  && op_aboveb (next_wire (tx_d k)) tx_o && op_aboveb (next_wire tx_s) tx_o && Nat.leb (next_wire tx_o) 1000
  && build_contractsb 1000 100 code_maps (tx_d k) tx_s 0 tx_ts k tx_tblD vx_tblS
  && forallb (fun n => Nat.eqb (wdim (tx_d k) (open_wire (tx_d k) (bid code_maps n))) (wdim tx_s (open_wire tx_s n))
                       && Nat.eqb (wdim tx_o (in_wire tx_o n)) (wdim tx_s (open_wire tx_s n))
                       && Nat.eqb (wdim tx_o (out_wire tx_o n)) (wdim tx_s (open_wire tx_s n))
                       && Nat.eqb (im_rev code_maps (im_kid code_maps n)) n) (rnodes tx_ts).
