(* Property C16, value level: the single-site operator expectation value on the density-operator network equals the
   pure-state value (joins the two halves of TTNDO/ValueTP.v). *)
From Coq Require Import List Arith Bool Lia Permutation ZArith.
From PTN Require Import TTN.Store TTN.StoreProofs TTN.Inv TTN.InvProofs Wire.Sem Wire.SemProofs TTN.InvSem TTN.InvSemProofs
  TEBD.Trotter Contr.Blocks Contr.Closed Contr.ClosedProofs Contr.TensorProd Contr.TensorProdProofs Contr.TensorProdSem
  Contr.TensorProdBridge Contr.TensorProdBridgeProofs Contr.TensorProdBridgeStore TTNDO.Contr TTNDO.ContrProofs TTNDO.Value TTNDO.ValueProofs
  TTNDO.ValueTP.
Import ListNotations.

(* ==== the code path: TTNDO.tensor_product_expectation_value ======================================================== *)
(* for node_id, single_site_operator in operator.items(): ttn.absorb_into_open_legs(self.ket_id(node_id), operator);
   return ttn.trace()  (pytreenet/ttns/ttndo.py; the empty product returns self.trace(), which is the same expression) *)
Definition ttndo_tp_apply (im : idmaps) (d : store) (ops : list (id * list nat)) : option store :=
  tp_apply d (map (fun o => (im_kid im (fst o), snd o)) ops).
Definition ttndo_tp_expectation (im : idmaps) (d : store) (ops : list (id * list nat)) : option garr :=
  match ttndo_tp_apply im d ops with Some D' => trace_ttndo im D' | None => None end.

Section DN1.
  Variables (im : idmaps) (d s : store) (r0 : id) (ts : rt) (k : nat).
  Hypothesis TO : ttndo_of im d s r0 ts k.
  Variable c : id.
  Hypothesis Hc : In c (rnodes ts).
  Variable D' : store.
  Local Notation dd := (wdim s (open_wire s c)).
  Hypothesis HD' : absorb_open d (im_kid im c) [dd; dd] = Some D'.

  Local Notation kid := (im_kid im).
  Local Notation k2b := (im_k2b im).
  Local Notation a := (im_kid im c).
  Local Notation upD := (up_wire d).
  Local Notation opD := (open_wire d).

  Local Notation absorb_facts := (absorb_facts im d s r0 ts k TO c Hc D' HD').
  Local Notation view_other := (view_other im d s r0 ts k TO c Hc D' HD').
  Local Notation view_a := (view_a im d s r0 ts k TO c Hc D' HD').
  Local Notation up_same := (up_same im d s r0 ts k TO c Hc D' HD').
  Local Notation a_isket := (a_isket im d s r0 ts k TO c Hc).
  Local Notation r0_not_a := (r0_not_a im d s r0 ts k TO c Hc).
  Local Notation wf_ttndo_absorbed := (wf_ttndo_absorbed im d s r0 ts k TO c Hc D' HD').

  (* ---- the diagram of the trace of the absorbed network, in the order of the proof ------------------------------------- *)
  Definition kopD (n : id) : wire := if Nat.eqb n c then next_wire d else opD (kid n).
  Definition G1 : list (wire * wire) := map (fun n => (kopD n, opD (bid im n))) (rnodes ts).
  Definition L1 : list wire := LD im d r0 ts ++ [next_wire d].
  Definition A1 : list nat := AD im d r0 ts ++ [next_atom d].

  Lemma kid_inj n n' : In n (rnodes ts) -> In n' (rnodes ts) -> kid n = kid n' -> n = n'.
  Proof.
    destruct (to_wf _ _ _ _ _ _ TO) as (_ & Hnd & _). rewrite rnodes_rmap in Hnd. apply (nodup_map_inj kid _ Hnd).
  Qed.

  Lemma bid_not_a n : In n (rnodes ts) -> bid im n <> a.
  Proof.
    intros Hn E. destruct (in_tlist ts n Hn) as (q & cs & He).
    destruct (d_node im d s r0 ts k TO q n cs He) as (_ & _ & _ & _ & _ & _ & _ & _ & _ & _ & _ & K2). pose proof a_isket as Ka. rewrite <- E in Ka. congruence.
  Qed.

  Lemma open_D'_ket n : In n (rnodes ts) -> open_wire D' (kid n) = kopD n.
  Proof.
    intros Hn. unfold kopD. destruct (Nat.eqb_spec n c) as [->|Hne]; [apply view_a|].
    apply (view_other (kid n)). intros E. apply Hne. apply (kid_inj n c Hn Hc E).
  Qed.

  Lemma G1_snd : map snd G1 = map snd (GD im d ts).
  Proof. unfold G1, GD. rewrite !map_map. reflexivity. Qed.

  Section Norm.
    Variable R : Type.
    Variables (zero one : R) (add mul : R -> R -> R).
    Hypothesis SR : comm_semiring zero one add mul.
    Variable tblD : nat -> list nat -> R.

    Lemma D_norm_tp1 : exists g, trace_ttndo im D' = Some g /\ gaxes g = [] /\
      forall rho, gvalue R zero one add mul (atom_wires D') (wdim D') tblD g rho
                  = sum_bnd R zero add (wdim D') L1 (fun r => atoms_val R one mul (atom_wires D') tblD A1 (glue_asg G1 r)) rho.
    Proof.
      destruct (trace_ttndo_closed im D' r0 _ wf_ttndo_absorbed) as (g & Hg & Hax & PA & PB & PG).
      exists g. split; [exact Hg|]. split; [exact Hax|]. intros rho. rewrite rnodes_rmap in PA, PB, PG.
      assert (Hnd : NoDup (rnodes ts)) by (destruct (to_wf _ _ _ _ _ _ TO) as (_ & Hn & _); rewrite rnodes_rmap in Hn; apply (NoDup_map_inv _ _ Hn)).
      assert (Pl : forall m, In m (all_ids im r0 ts) -> t_atoms d m = [datom d m] /\ t_bnd d m = []).
      { intros m Hm. destruct (to_plain _ _ _ _ _ _ TO m Hm) as (P1 & P2 & _). auto. }
      assert (Ik : forall n, In n (rnodes ts) -> In (kid n) (all_ids im r0 ts)) by (intros n Hn; right; apply in_or_app; left; apply in_map; exact Hn).
      assert (Ib : forall n, In n (rnodes ts) -> In (bid im n) (all_ids im r0 ts)) by (intros n Hn; right; apply in_or_app; right; apply in_map; exact Hn).
      destruct (view_other r0 r0_not_a) as (_ & _ & R2 & R3 & _ & R5).
      destruct absorb_facts as (kn & p & cs & _ & _ & _ & _ & _ & _ & _ & AT & BN & _).
      apply (gvalue_norm R zero one add mul SR (atom_wires D') (wdim D') tblD g A1 L1 G1 rho).
      - rewrite PA. unfold tr_atoms, A1, AD. cbv zeta. rewrite R2, (proj1 (Pl r0 (or_introl eq_refl))). cbn [app]. apply perm_skip.
        rewrite flat_map_map.
        apply (flat_map_update (fun n => [datom d (kid n); datom d (bid im n)]) (fun n => t_atoms D' (kid n) ++ t_atoms D' (k2b (kid n))) c
                 [next_atom d] (rnodes ts) Hnd Hc).
        + intros n Hn Hne. change (k2b (kid n)) with (bid im n).
          destruct (view_other (kid n)) as (_ & _ & V2 & _); [intros E; apply Hne; apply (kid_inj n c Hn Hc E)|].
          destruct (view_other (bid im n) (bid_not_a n Hn)) as (_ & _ & W2 & _).
          rewrite V2, W2, (proj1 (Pl _ (Ik n Hn))), (proj1 (Pl _ (Ib n Hn))). reflexivity.
        + change (k2b (kid c)) with (bid im c). destruct (view_other (bid im c) (bid_not_a c Hc)) as (_ & _ & W2 & _).
          rewrite AT, W2, (proj1 (Pl _ (Ik c Hc))), (proj1 (Pl _ (Ib c Hc))). cbn [app]. perm_solve.
      - rewrite PB, (Permutation_map fst PG). unfold tr_bnd, tr_glue, L1, LD, restD. cbv zeta. fold (@app wire).
        rewrite R5, R3, (proj2 (Pl r0 (or_introl eq_refl))). rewrite !map_map. cbn [fst app].
        rewrite !flat_map_map.
        rewrite (flat_map_ext_in' (fun n => [up_wire D' (kid n); up_wire D' (k2b (kid n))]) (fun n => [upD (kid n); upD (bid im n)]))
          by (intros n _; rewrite !up_same; reflexivity).
        assert (PBn : Permutation (flat_map (fun n => t_bnd D' (kid n) ++ t_bnd D' (k2b (kid n))) (rnodes ts)) [opD a]).
        { rewrite (flat_map_update (fun _ => []) (fun n => t_bnd D' (kid n) ++ t_bnd D' (k2b (kid n))) c [opD a] (rnodes ts) Hnd Hc).
          - rewrite (flat_map_nil (fun _ : id => @nil wire)) by reflexivity. reflexivity.
          - intros n Hn Hne. change (k2b (kid n)) with (bid im n).
            destruct (view_other (kid n)) as (_ & _ & _ & V3 & _); [intros E; apply Hne; apply (kid_inj n c Hn Hc E)|].
            destruct (view_other (bid im n) (bid_not_a n Hn)) as (_ & _ & _ & W3 & _).
            rewrite V3, W3, (proj2 (Pl _ (Ik n Hn))), (proj2 (Pl _ (Ib n Hn))). reflexivity.
          - change (k2b (kid c)) with (bid im c). destruct (view_other (bid im c) (bid_not_a c Hc)) as (_ & _ & _ & W3 & _).
            rewrite BN, W3, (proj2 (Pl _ (Ik c Hc))), (proj2 (Pl _ (Ib c Hc))). reflexivity. }
        rewrite PBn.
        rewrite (map_ext_in (fun n => open_wire D' (kid n)) kopD) by (intros n Hn; apply open_D'_ket; exact Hn).
        pose proof (kop_swap_perm kopD (fun n => opD (kid n)) c (next_wire d) (opD a) (rnodes ts) Hnd Hc) as PK.
        rewrite (rnodes_desc ts) at 1. cbn [flat_map app].
        assert (PK' : Permutation (map kopD (rnodes ts) ++ [opD a]) (map (fun n => opD (kid n)) (rnodes ts) ++ [next_wire d])).
        { apply PK; [unfold kopD; rewrite Nat.eqb_refl; reflexivity|reflexivity|].
          intros m Hne. unfold kopD. destruct (Nat.eqb_spec m c); [contradiction|reflexivity]. }
        apply perm_skip. apply perm_skip. apply perm_skip. rewrite <- !app_assoc. apply Permutation_app_head.
        cbn [app]. rewrite <- PK'. perm_solve.
      - rewrite PG. apply Permutation_refl'.
        change (map (fun m => (open_wire D' m, open_wire D' (k2b m))) (map kid (rnodes ts)) = G1). unfold G1. rewrite map_map.
        apply map_ext_in. intros n Hn. rewrite (open_D'_ket n Hn).
        change (k2b (kid n)) with (bid im n). destruct (view_other (bid im n) (bid_not_a n Hn)) as (_ & _ & _ & _ & _ & W5). rewrite W5. reflexivity.
      - rewrite G1_snd. exact (GD_nodup im d s r0 ts k TO).
    Qed.
  End Norm.
End DN1.

(* ================================================================================================================ *)
(* a diagram value depends on the world only through the atoms and summed wires of the diagram                        *)
(* ================================================================================================================ *)
Lemma value_world (R : Type) (zero one : R) (add mul : R -> R -> R) (W W' : nat -> list wire) (D D' : wire -> nat)
    (tbl : nat -> list nat -> R) (t : sarr) (r : assignment) :
  (forall a, In a (atoms t) -> W a = W' a) -> (forall w, In w (bnd t) -> D w = D' w) ->
  value R zero one add mul W D tbl t r = value R zero one add mul W' D' tbl t r.
Proof.
  intros HW HD. unfold value. rewrite (sum_bnd_dim_ext zero add D D' (bnd t) HD).
  apply sum_bnd_ext_F. intros r1. unfold atoms_val. apply (prod_over_ext R one mul). intros a Ha. unfold atom_val.
  rewrite (HW a Ha). reflexivity.
Qed.

Lemma memb_single_false w x : w <> x -> memb w [x] = false.
Proof. intros H. unfold memb. cbn [existsb]. destruct (Nat.eqb_spec w x); [contradiction|reflexivity]. Qed.

(* ================================================================================================================ *)
(* the single-site expectation value on the network = the pure-state value                                            *)
(* ================================================================================================================ *)
Section Join1.
  Variable R : Type.
  Variables (zero one : R) (add mul : R -> R -> R).
  Hypothesis SR : comm_semiring zero one add mul.
  Variables (woff aoff : nat) (im : idmaps) (d s : store) (r0 : id) (ts : rt) (k : nat).
  Variables (tblD tblS : nat -> list nat -> R).
  Hypothesis WS : wfs s.
  Hypothesis H1 : one_open s.
  Hypothesis Hw2 : next_wire s + 2 <= woff.
  Hypothesis Ha2 : next_atom s < aoff.
  Hypothesis WT : wf_two s (conj_store woff aoff s) ts.
  Hypothesis HP : Permutation (rnodes ts) (akeys (nodes s)).
  Hypothesis Hk : 1 <= k.
  Hypothesis TO : ttndo_of im d s r0 ts k.
  Hypothesis BC : build_contracts R zero one add mul woff aoff im d s r0 ts k tblD tblS.
  Variable c : id.
  Hypothesis Hc : In c (rnodes ts).
  Variable D' : store.
  Local Notation dd := (wdim s (open_wire s c)).
  Hypothesis HD' : absorb_open d (im_kid im c) [dd; dd] = Some D'.
  (* the operator atom holds the same matrix in both worlds *)
  Hypothesis OC : forall i j, i < dd -> j < dd -> tblD (next_atom d) [i; j] = tblS (next_atom s) [i; j].

  Let Hw0 : 0 < woff. Proof. lia. Qed.
  Let Hw : next_wire s <= woff. Proof. lia. Qed.
  Let Ha : next_atom s <= aoff. Proof. lia. Qed.

  Local Notation bra := (conj_store woff aoff s).
  Local Notation kid := (im_kid im).
  Local Notation k2b := (im_k2b im).
  Local Notation a := (im_kid im c).
  Local Notation WrS := (pair_wires s bra).
  Local Notation DmS := (pair_dim s bra).
  Local Notation W1 := (tp1_wiresS woff aoff s c).
  Local Notation D1 := (tp1_dimS woff aoff s c).
  Local Notation valS := (value R zero one add mul WrS DmS tblS).
  Local Notation val1 := (value R zero one add mul W1 D1 tblS).
  Local Notation upS := (up_wire s).
  Local Notation opS := (open_wire s).
  Local Notation upD := (up_wire d).
  Local Notation opD := (open_wire d).
  Local Notation nwS := (next_wire s).
  Local Notation nwD := (next_wire d).
  Local Notation naS := (next_atom s).
  Local Notation naD := (next_atom d).
  Local Notation LD0 := (LD im d r0 ts).
  Local Notation GD0 := (GD im d ts).
  Local Notation G1' := (G1 im d ts c).
  Local Notation OPT1 := (glue_pairs woff s c (next_wire s) (akeys (nodes s))).
  Local Notation kopD1 := (kopD im d c).
  Local Notation kopS1 := (ket_open s c (next_wire s)).
  Local Notation gS1 := (fun (r : assignment) (w : wire) => glue_asg OPT1 r (woff + w)).
  Local Notation kentry := (ket_entry R zero one add mul woff aoff s tblS).
  Local Notation bentry := (bra_entry R zero one add mul woff aoff s tblS).
  Local Notation avalD' := (atoms_val R one mul (atom_wires D') tblD).
  Local Notation aval1 := (atoms_val R one mul W1 tblS).

  Let WD_ : wfs d := to_wfs _ _ _ _ _ _ TO.
  Let Hco : nwS = opS c \/ nwS <= nwS < woff. Proof. right. lia. Qed.

  (* ---- ranges of the wires of the network ------------------------------------------------------------------------ *)
  Lemma d_up_nw m nd p : aget m (nodes d) = Some nd -> parent nd = Some p -> upD m < nwD.
  Proof.
    intros E P. destruct (wf_two_of_wf 1 0 d (ws_wf d WD_) (to_open _ _ _ _ _ _ TO) Nat.lt_0_1) as (tD & _ & WTD & HPD).
    exact (up_wire_nw 1 0 d WD_ tD WTD HPD m nd p E P).
  Qed.

  Lemma WD_lt w : In w (WD im d r0 ts) -> w < nwD.
  Proof.
    unfold WD. intros Hin. apply in_app_or in Hin. destruct Hin as [Hin|Hin]; apply in_map_iff in Hin; destruct Hin as (m & <- & Hm).
    - apply (d_keys_nw im d s r0 ts k TO). apply (ids_keys im d s r0 ts k TO). exact Hm.
    - apply in_app_or in Hm. destruct Hm as [Hm|Hm]; apply in_map_iff in Hm; destruct Hm as (n & <- & Hn);
        destruct (in_tlist ts n Hn) as (q & cs & He); destruct (d_node im d s r0 ts k TO q n cs He) as (kn & bn & p & bp & E1 & E2 & P1 & P2 & _).
      + exact (d_up_nw _ kn p E1 P1).
      + exact (d_up_nw _ bn bp E2 P2).
  Qed.

  Lemma LDG_lt w : In w (LD0 ++ map snd GD0) -> w < nwD.
  Proof. intros Hin. apply WD_lt. apply (Permutation_in _ (LD_perm im d r0 ts)). exact Hin. Qed.

  Lemma LD_lt w : In w LD0 -> w < nwD.
  Proof. intros Hin. apply LDG_lt. apply in_or_app. left. exact Hin. Qed.

  Lemma G1_snd' : map snd G1' = map snd GD0.
  Proof. apply G1_snd. Qed.

  Lemma glue1_LD r w : In w LD0 -> glue_asg G1' r w = r w.
  Proof.
    intros Hin. apply glue_asg_out. rewrite G1_snd'. intros Hx.
    exact (NoDup_app_disj _ _ w (LD_GD_nodup im d s r0 ts k TO) Hin Hx).
  Qed.

  Lemma glue1_nw r : glue_asg G1' r nwD = r nwD.
  Proof.
    apply glue_asg_out. rewrite G1_snd'. intros Hx. assert (Hlt : nwD < nwD) by (apply LDG_lt; apply in_or_app; right; exact Hx). lia.
  Qed.

  Lemma glue1_bra_open r n : In n (rnodes ts) -> glue_asg G1' r (opD (bid im n)) = r (kopD1 n).
  Proof.
    intros Hn. apply (glue_asg_in G1' r (kopD1 n, opD (bid im n))).
    - rewrite G1_snd'. exact (GD_nodup im d s r0 ts k TO).
    - unfold G1. apply (in_map (fun n => (kopD im d c n, opD (bid im n)))). exact Hn.
  Qed.

  (* ---- the wires of the state ------------------------------------------------------------------------------------ *)
  Lemma s1_open_nw n : In n (rnodes ts) -> opS n < nwS.
  Proof. intros Hn. exact (open_wire_nw woff aoff s WS ts WT HP n (s_keys s ts HP n Hn)). Qed.

  Lemma s1_up_nw n : In n (rdesc ts) -> upS n < nwS.
  Proof.
    intros Hn. destruct (s_desc_node woff aoff s ts WS WT n Hn) as (kn & p & E & P).
    exact (up_wire_nw woff aoff s WS ts WT HP n kn p E P).
  Qed.

  Lemma restS_not_nw : ~ In nwS (restS woff s ts).
  Proof.
    unfold restS. intros Hin. apply in_app_or in Hin. destruct Hin as [Hin|Hin].
    - apply in_flat_map in Hin. destruct Hin as (n & Hn & Hin). pose proof (s1_up_nw n Hn).
      destruct Hin as [E|[E|[]]]; lia.
    - apply in_map_iff in Hin. destruct Hin as (n & E & Hn). pose proof (s1_open_nw n Hn). lia.
  Qed.

  Lemma D1_old w : w <> nwS -> D1 w = DmS w.
  Proof. intros Hne. unfold tp1_dimS, ext_dim. rewrite (memb_single_false w nwS Hne). reflexivity. Qed.

  Lemma D1_new : D1 nwS = dd.
  Proof. unfold tp1_dimS, ext_dim, memb. cbn [existsb]. rewrite Nat.eqb_refl. reflexivity. Qed.

  Lemma s1_glue_open r n : In n (rnodes ts) -> glue_asg OPT1 r (woff + opS n) = r (kopS1 n).
  Proof. intros Hn. exact (glue_open woff aoff s WS Hw0 Hw Ha ts WT HP c nwS Hco r n (s_keys s ts HP n Hn)). Qed.

  Lemma s1_glue_up r n : In n (rdesc ts) -> glue_asg OPT1 r (woff + upS n) = r (woff + upS n).
  Proof.
    intros Hn. apply (glue_other woff aoff s Hw0 Hw Ha c nwS Hco r (upS n)). intros x Hx.
    destruct (wires_distinct s WS H1) as (_ & _ & I3). destruct (s_desc_node woff aoff s ts WS WT n Hn) as (nd & p & En & Pn).
    exact (I3 n x nd p En Pn Hx).
  Qed.

  (* ---- the summed wires, pairwise; related assignments ------------------------------------------------------------- *)
  Definition P1 : list (wire * wire) := wire_pairs woff im d s ts ++ [(nwS, nwD)].

  Definition related1 (r r' : assignment) : Prop :=
    forall p, In p P1 -> r (fst p) < D1 (fst p) /\ r' (snd p) = r (fst p).

  Lemma P1_fst : map fst P1 = restS woff s ts ++ [nwS].
  Proof. unfold P1. rewrite map_app, wire_pairs_fst. reflexivity. Qed.
  Lemma P1_snd : map snd P1 = restD im d ts ++ [nwD].
  Proof. unfold P1. rewrite map_app, wire_pairs_snd. reflexivity. Qed.

  Lemma rel1_old r r' : related1 r r' -> related woff aoff im d s ts r r'.
  Proof.
    intros H p Hp. destruct (H p (in_or_app _ _ _ (or_introl Hp))) as (B & E). split; [|exact E].
    rewrite D1_old in B; [exact B|]. intros Ex. apply restS_not_nw. rewrite <- Ex, <- (wire_pairs_fst woff im d s ts).
    apply in_map. exact Hp.
  Qed.

  Lemma rel1_new r r' : related1 r r' -> r' nwD = r nwS /\ r nwS < dd.
  Proof.
    intros H. destruct (H (nwS, nwD)) as (B & E); [unfold P1; apply in_or_app; right; left; reflexivity|].
    cbn [fst snd] in *. rewrite D1_new in B. auto.
  Qed.

  Local Notation rel_up' := (rel_up woff aoff im d s ts WS Hw0 Hw Ha WT HP).
  Local Notation rel_open' := (rel_open woff aoff im d s ts WS Hw0 Hw Ha WT HP).

  Lemma rel1_kop r r' n : related1 r r' -> In n (rnodes ts) -> r' (kopD1 n) = r (kopS1 n) /\ r (kopS1 n) < wdim s (opS n).
  Proof.
    intros Hr Hn. unfold kopD, ket_open. destruct (Nat.eqb_spec n c) as [->|Hne].
    - apply (rel1_new r r' Hr).
    - apply (rel_open' r r' n (rel1_old r r' Hr) Hn).
  Qed.

  (* the indices the ket / bra atom of node n is read at (all legs but the parent leg) *)
  Lemma idx_ket1 q n cs r r' : In (q, n, cs) (tlist None ts) -> related1 r r' ->
    map (glue_asg G1' r') (map upD (map kid cs) ++ [opD (kid n)]) = map r (map upS cs ++ [opS n]) /\
    (forall w, In w (map upS cs ++ [opS n]) -> r w < wdim s w).
  Proof.
    intros He Hr.
    assert (Hn : In n (rnodes ts)) by (rewrite <- (tlist_nodes ts None); apply (in_map (fun e => snd (fst e)) _ _ He)).
    pose proof (tlist_children ts None q n cs He) as Hcs.
    destruct (idx_ket woff aoff im d s r0 ts k WS Hw0 Hw Ha WT HP TO q n cs r r' He (rel1_old r r' Hr)) as (IK & BK).
    split; [|exact BK]. rewrite <- IK. apply map_ext_in. intros w Hin.
    assert (HL : In w LD0).
    { apply in_app_or in Hin. destruct Hin as [Hin|[<-|[]]].
      - rewrite map_map in Hin. apply in_map_iff in Hin. destruct Hin as (x & <- & Hx). apply in_LD_upK. apply Hcs. exact Hx.
      - apply in_LD_open. exact Hn. }
    rewrite (glue1_LD r' w HL), (glue_LD im d s r0 ts k TO r' w HL). reflexivity.
  Qed.

  Lemma idx_bra1 q n cs r r' : In (q, n, cs) (tlist None ts) -> related1 r r' ->
    map (glue_asg G1' r') (map upD (map k2b (map kid cs)) ++ [opD (bid im n)]) = map (gS1 r) (map upS cs ++ [opS n]) /\
    (forall w, In w (map upS cs ++ [opS n]) -> gS1 r w < wdim s w).
  Proof.
    intros He Hr. pose proof (rel1_old r r' Hr) as Hr0.
    assert (Hn : In n (rnodes ts)) by (rewrite <- (tlist_nodes ts None); apply (in_map (fun e => snd (fst e)) _ _ He)).
    pose proof (tlist_children ts None q n cs He) as Hcs. split.
    - rewrite !map_app, !map_map. cbn [map]. f_equal.
      + apply map_ext_in. intros x Hx. change (k2b (kid x)) with (bid im x).
        rewrite (glue1_LD r' _ (in_LD_upB im d r0 ts x (Hcs x Hx))), (s1_glue_up r x (Hcs x Hx)). apply (rel_up' r r' x Hr0 (Hcs x Hx)).
      + rewrite (glue1_bra_open r' n Hn), (s1_glue_open r n Hn). f_equal. apply (rel1_kop r r' n Hr Hn).
    - intros w Hin. apply in_app_or in Hin. destruct Hin as [Hin|[<-|[]]].
      + apply in_map_iff in Hin. destruct Hin as (x & <- & Hx). rewrite (s1_glue_up r x (Hcs x Hx)). apply (rel_up' r r' x Hr0 (Hcs x Hx)).
      + rewrite (s1_glue_open r n Hn). apply (rel1_kop r r' n Hr Hn).
  Qed.

  (* ---- the contracts read at an assignment, in the world extended by the operator ---------------------------------- *)
  Lemma W1_old x : x <> naS -> W1 x = WrS x.
  Proof. intros Hne. unfold tp1_wiresS, ext_wires. destruct (Nat.eqb_spec x naS); [contradiction|reflexivity]. Qed.

  Lemma ket_val1 q n cs r : In (q, n, cs) (tlist None ts) -> kentry n (map r (t_axes s n)) = val1 (tens s n) r.
  Proof.
    intros He. rewrite (ket_entry_val R zero one add mul woff aoff s ts tblS WS WT q n cs r He). unfold FKS.
    destruct (s_node woff aoff s ts WS WT q n cs He) as (kn & tm & E1 & E2 & V4 & _). rewrite V4.
    apply value_world.
    - intros x Hx. symmetry. apply W1_old. pose proof (ws_atoms_lt s WS x (F_atom_in s n tm x E2 Hx)). lia.
    - intros w Hw'. symmetry. apply D1_old. pose proof (F_bnd_nw s WS n tm w E2 Hw'). lia.
  Qed.

  Lemma bra_val1 q n cs r : In (q, n, cs) (tlist None ts) ->
    bentry n (map (gS1 r) (t_axes s n)) = val1 (conj_sarr woff aoff (tens s n)) (glue_asg OPT1 r).
  Proof.
    intros He. destruct (s_node woff aoff s ts WS WT q n cs He) as (kn & tm & E1 & E2 & V4 & _ & _ & PX).
    unfold bra_entry. rewrite V4.
    transitivity (valS (conj_sarr woff aoff tm) (glue_asg OPT1 r)).
    - apply (val_conj_dep R zero one add mul woff aoff s tblS WS WrS DmS (pw_bra woff aoff s WS Hw Ha) tm n E2).
      intros w Hin. rewrite <- (map_map (Nat.add woff) (glue_asg OPT1 r)). apply assign_map_in.
      apply in_map_iff in Hin. destruct Hin as (x & <- & Hx). apply in_map. apply (Permutation_in _ (Permutation_sym PX)). exact Hx.
    - apply value_world.
      + intros x Hx. cbn [conj_sarr atoms] in Hx. apply in_map_iff in Hx. destruct Hx as (y & <- & Hy). symmetry. apply W1_old. lia.
      + intros w Hw'. cbn [conj_sarr bnd] in Hw'. apply in_map_iff in Hw'. destruct Hw' as (y & <- & Hy). symmetry. apply D1_old. lia.
  Qed.

  (* ---- the atoms of the network in the world after the absorption --------------------------------------------------- *)
  Local Notation absorb_facts' := (absorb_facts im d s r0 ts k TO c Hc D' HD').

  Lemma aw_old x ws : atom_wires d x = ws -> ws <> [] -> atom_wires D' x = ws.
  Proof.
    intros E Hne. destruct absorb_facts' as (kn & p & cs & _ & _ & _ & _ & _ & _ & _ & _ & _ & _ & _ & AT).
    unfold atom_wires in *. rewrite AT, aget_app. destruct (aget x (atab d)); [exact E|]. congruence.
  Qed.

  Lemma aw_new : atom_wires D' naD = [nwD; opD a].
  Proof.
    destruct absorb_facts' as (kn & p & cs & _ & _ & _ & _ & _ & _ & _ & _ & _ & _ & _ & AT).
    unfold atom_wires. rewrite AT, aget_app.
    destruct (aget naD (atab d)) eqn:E.
    - apply aget_Some_keys in E. pose proof (ws_atab_lt d WD_ _ E). lia.
    - cbn [aget]. rewrite Nat.eqb_refl. reflexivity.
  Qed.

  Local Notation fk1 := (fun n r => val1 (tens s n) r).
  Local Notation fb1 := (fun n r => val1 (conj_sarr woff aoff (tens s n)) (glue_asg OPT1 r)).

  Lemma node_term_desc1 p n cs r r' : In (Some p, n, cs) (tlist None ts) -> related1 r r' ->
    avalD' [datom d (kid n); datom d (bid im n)] (glue_asg G1' r') = mul (fk1 n r) (fb1 n r).
  Proof.
    intros He Hr. pose proof (rel1_old r r' Hr) as Hr0.
    pose proof (tlist_some_desc ts p n cs He) as Hnd. pose proof (s_desc_in ts n Hnd) as Hn.
    destruct (s_node woff aoff s ts WS WT _ n cs He) as (kn & tm & _ & _ & _ & _ & AS & _). cbn [opt_list] in AS.
    destruct (d_node im d s r0 ts k TO _ n cs He) as (dk & db & dp & dbp & _ & _ & _ & _ & AK & AB & _).
    destruct (plain_ket im d s r0 ts k TO n Hn) as (_ & _ & WK). destruct (plain_bra im d s r0 ts k TO n Hn) as (_ & _ & WB).
    destruct (idx_ket1 _ n cs r r' He Hr) as (IK & BK). destruct (idx_bra1 _ n cs r r' He Hr) as (IB & BB).
    destruct (rel_up' r r' n Hr0 Hnd) as (U1 & U2 & U3 & U4).
    unfold atoms_val. cbn [prod_over]. unfold atom_val.
    rewrite (aw_old _ _ WK) by (rewrite AK; discriminate). rewrite (aw_old _ _ WB) by (rewrite AB; discriminate).
    rewrite AK, AB. cbn [map]. rewrite IK, IB.
    rewrite (glue1_LD r' _ (in_LD_upK im d r0 ts n Hnd)), (glue1_LD r' _ (in_LD_upB im d r0 ts n Hnd)), U1, U3.
    destruct (bc_desc _ _ _ _ _ _ _ _ _ _ _ _ _ _ _ BC n Hnd (map r (t_axes s n))) as (C1 & _).
    { apply forall2_map_r. rewrite AS. intros w [<-|Hin]; [exact U2|apply BK; exact Hin]. }
    destruct (bc_desc _ _ _ _ _ _ _ _ _ _ _ _ _ _ _ BC n Hnd (map (gS1 r) (t_axes s n))) as (_ & C2).
    { apply forall2_map_r. rewrite AS. intros w [<-|Hin]; [rewrite (s1_glue_up r n Hnd); exact U4|apply BB; exact Hin]. }
    pose proof (eq_trans C1 (ket_val1 _ n cs r He)) as C1'. pose proof (eq_trans C2 (bra_val1 _ n cs r He)) as C2'.
    rewrite AS in C1', C2'. cbn [map app] in C1', C2'. rewrite (s1_glue_up r n Hnd) in C2'.
    rewrite C1', C2'. rewrite (mul_1_r R zero one add mul SR). reflexivity.
  Qed.

  Lemma node_term_root1 r r' i j : related1 r r' -> r' (upD (kid (rid ts))) = i -> r' (upD (bid im (rid ts))) = j -> i < k -> j < k ->
    avalD' [datom d (kid (rid ts)); datom d (bid im (rid ts))] (glue_asg G1' r')
    = mul (mul (pad R zero one i) (pad R zero one j)) (mul (fk1 (rid ts) r) (fb1 (rid ts) r)).
  Proof.
    intros Hr Ei Ej Hi Hj. pose proof (in_tlist_root ts) as He. set (n := rid ts) in *. set (cs := map rid (rcs ts)) in *.
    assert (Hn : In n (rnodes ts)) by apply rnodes_rid.
    destruct (s_node woff aoff s ts WS WT _ n cs He) as (kn & tm & _ & _ & _ & _ & AS & _). cbn [opt_list app] in AS.
    destruct (d_node im d s r0 ts k TO _ n cs He) as (dk & db & dp & dbp & _ & _ & _ & _ & AK & AB & _).
    destruct (plain_ket im d s r0 ts k TO n Hn) as (_ & _ & WK). destruct (plain_bra im d s r0 ts k TO n Hn) as (_ & _ & WB).
    destruct (idx_ket1 _ n cs r r' He Hr) as (IK & BK). destruct (idx_bra1 _ n cs r r' He Hr) as (IB & BB).
    assert (LK : In (upD (kid n)) LD0) by (unfold LD; right; left; reflexivity).
    assert (LB : In (upD (bid im n)) LD0) by (unfold LD; right; right; left; reflexivity).
    unfold atoms_val. cbn [prod_over]. unfold atom_val.
    rewrite (aw_old _ _ WK) by (rewrite AK; discriminate). rewrite (aw_old _ _ WB) by (rewrite AB; discriminate).
    rewrite AK, AB. cbn [map]. rewrite IK, IB.
    rewrite (glue1_LD r' _ LK), (glue1_LD r' _ LB), Ei, Ej.
    destruct (bc_root _ _ _ _ _ _ _ _ _ _ _ _ _ _ _ BC i (map r (t_axes s n)) Hi) as (C1 & _).
    { apply forall2_map_r. rewrite AS. exact BK. }
    destruct (bc_root _ _ _ _ _ _ _ _ _ _ _ _ _ _ _ BC j (map (gS1 r) (t_axes s n)) Hj) as (_ & C2).
    { apply forall2_map_r. rewrite AS. exact BB. }
    fold n in C1, C2. rewrite (ket_val1 _ n cs r He) in C1. rewrite (bra_val1 _ n cs r He) in C2.
    rewrite AS in C1, C2. rewrite C1, C2.
    apply (pad_terms R zero one add mul SR).
  Qed.

  (* the operator atom: the same entry in both worlds *)
  Lemma op_term r r' : related1 r r' -> avalD' [naD] (glue_asg G1' r') = aval1 [naS] r.
  Proof.
    intros Hr. unfold atoms_val. cbn [prod_over]. unfold atom_val. rewrite aw_new, (W1_na woff aoff s c). cbn [map].
    rewrite glue1_nw, (glue1_LD r' _ (in_LD_open im d r0 ts c Hc)).
    destruct (rel1_new r r' Hr) as (E1 & B1). destruct (rel_open' r r' c (rel1_old r r' Hr) Hc) as (E2 & B2).
    rewrite E1, E2. f_equal. apply OC; assumption.
  Qed.

  (* ---- the summand of the trace diagram of the absorbed network at related assignments -------------------------- *)
  Local Notation prods1 := (prodS1 R zero one add mul woff aoff s tblS ts c).
  Local Notation A1' := (A1 im d r0 ts).

  Lemma leaf1 r r' o i j : related1 r r' -> r' (opD r0) = o -> o < 1 ->
    r' (upD (kid (rid ts))) = i -> r' (upD (bid im (rid ts))) = j -> i < k -> j < k ->
    avalD' A1' (glue_asg G1' r')
    = mul (mul (delta R zero one i j) (mul (pad R zero one i) (pad R zero one j))) (mul (prods1 r) (aval1 [naS] r)).
  Proof.
    intros Hr Eo Ho Ei Ej Hi Hj. unfold A1, AD. rewrite (atoms_val_app R zero one add mul SR). rewrite (op_term r r' Hr).
    rewrite (csr_mul_assoc _ _ _ _ SR). f_equal.
    change (avalD' (datom d r0 :: ?l) ?x) with (mul (atom_val R (atom_wires D') tblD x (datom d r0)) (avalD' l x)).
    rewrite (atoms_val_flat_map R zero one add mul SR). unfold prodS1. rewrite (rnodes_desc ts). cbn [prod_over].
    rewrite (node_term_root1 r r' i j Hr Ei Ej Hi Hj).
    rewrite (prod_over_ext R one mul _ (fun n => mul (fk1 n r) (fb1 n r)) (rdesc ts)).
    2:{ intros n Hn. destruct (in_tlist_desc ts n Hn) as (p & cs & He). apply (node_term_desc1 p n cs r r' He Hr). }
    assert (Er : atom_val R (atom_wires D') tblD (glue_asg G1' r') (datom d r0) = delta R zero one i j).
    { destruct (d_root im d s r0 ts k TO) as (rn & _ & _ & Hch & _ & Ax & _).
      destruct (to_plain _ _ _ _ _ _ TO r0 (or_introl eq_refl)) as (_ & _ & W0).
      assert (L0 : In (opD r0) LD0) by (unfold LD; left; reflexivity).
      assert (LK : In (upD (kid (rid ts))) LD0) by (unfold LD; right; left; reflexivity).
      assert (LB : In (upD (bid im (rid ts))) LD0) by (unfold LD; right; right; left; reflexivity).
      assert (E0 : o = 0) by lia. rewrite E0 in Eo.
      unfold atom_val. rewrite (aw_old _ _ W0) by (rewrite Ax; destruct (map upD (children rn)); discriminate).
      rewrite Ax. destruct Hch as [-> | ->]; cbn [map app];
        rewrite (glue1_LD r' _ L0), (glue1_LD r' _ LK), (glue1_LD r' _ LB), Eo, Ei, Ej.
      - rewrite (bc_eye _ _ _ _ _ _ _ _ _ _ _ _ _ _ _ BC i j Hi Hj). reflexivity.
      - rewrite (bc_eye _ _ _ _ _ _ _ _ _ _ _ _ _ _ _ BC j i Hj Hi). unfold delta. rewrite Nat.eqb_sym. reflexivity. }
    rewrite Er. rewrite <- (csr_mul_assoc _ _ _ _ SR (mul (pad R zero one i) (pad R zero one j))).
    apply (csr_mul_assoc _ _ _ _ SR).
  Qed.

  (* ---- dimensions, wire by wire --------------------------------------------------------------------------------------- *)
  Local Notation wdim_old' := (wdim_old im d s r0 ts k TO c Hc D' HD').
  Local Notation wdim_new' := (wdim_new im d s r0 ts k TO c Hc D' HD').

  Lemma restD_lt w : In w (restD im d ts) -> w < nwD.
  Proof. intros Hin. apply LD_lt. unfold LD. apply in_or_app. right. exact Hin. Qed.

  Lemma P1_dims p : In p P1 -> D1 (fst p) = wdim D' (snd p).
  Proof.
    unfold P1. intros Hp. apply in_app_or in Hp. destruct Hp as [Hp|[<-|[]]].
    - rewrite D1_old.
      + rewrite (pairs_dims woff aoff im d s r0 ts k WS Hw0 Hw Ha WT HP TO p Hp). symmetry. apply wdim_old'.
        assert (Hlt : snd p < nwD) by (apply restD_lt; rewrite <- (wire_pairs_snd woff im d s ts); apply in_map; exact Hp). lia.
      + intros Ex. apply restS_not_nw. rewrite <- Ex, <- (wire_pairs_fst woff im d s ts). apply in_map. exact Hp.
    - cbn [fst snd]. rewrite D1_new. symmetry. apply wdim_new'.
  Qed.

  Lemma P1_fst_nodup : NoDup (map fst P1).
  Proof.
    rewrite P1_fst. apply NoDup_app_iff. split; [exact (restS_nodup woff aoff s ts WS H1 Hw0 Hw Ha WT HP)|]. split; [constructor; [intros []|constructor]|].
    intros w Hin [<-|[]]. exact (restS_not_nw Hin).
  Qed.

  Lemma P1_snd_nodup : NoDup (map snd P1).
  Proof.
    rewrite P1_snd. apply NoDup_app_iff. split; [exact (restD_nodup im d s r0 ts k TO)|]. split; [constructor; [intros []|constructor]|].
    intros w Hin [<-|[]]. pose proof (restD_lt _ Hin). lia.
  Qed.

  (* for fixed indices (o, i, j) on the three wires of the artificial root, the rest of the trace diagram of the absorbed
     network is the <psi|O_c|psi> sum, times the entry of the identity and the two padding indicators *)
  Lemma inner_sum1 rho rhoS o i j : o < 1 -> i < k -> j < k ->
    sum_bnd R zero add (wdim D') (restD im d ts ++ [nwD]) (fun r => avalD' A1' (glue_asg G1' r))
            (upd (upd (upd rho (opD r0) o) (upD (kid (rid ts))) i) (upD (bid im (rid ts))) j)
    = mul (mul (delta R zero one i j) (mul (pad R zero one i) (pad R zero one j)))
          (sum_bnd R zero add D1 (restS woff s ts ++ [nwS]) (fun r => mul (prods1 r) (aval1 [naS] r)) rhoS).
  Proof.
    intros Ho Hi Hj. destruct (root_wires_distinct im d s r0 ts k TO) as (X1 & X2 & X3 & N1 & N2 & N3).
    assert (M1 : ~ In (opD r0) (restD im d ts ++ [nwD])).
    { intros Hin. apply in_app_or in Hin. destruct Hin as [Hin|[E|[]]]; [exact (N1 Hin)|].
      assert (Hlt : opD r0 < nwD) by (apply LD_lt; unfold LD; left; reflexivity). lia. }
    assert (M2 : ~ In (upD (kid (rid ts))) (restD im d ts ++ [nwD])).
    { intros Hin. apply in_app_or in Hin. destruct Hin as [Hin|[E|[]]]; [exact (N2 Hin)|].
      assert (Hlt : upD (kid (rid ts)) < nwD) by (apply LD_lt; unfold LD; right; left; reflexivity). lia. }
    assert (M3 : ~ In (upD (bid im (rid ts))) (restD im d ts ++ [nwD])).
    { intros Hin. apply in_app_or in Hin. destruct Hin as [Hin|[E|[]]]; [exact (N3 Hin)|].
      assert (Hlt : upD (bid im (rid ts)) < nwD) by (apply LD_lt; unfold LD; right; right; left; reflexivity). lia. }
    set (cf := mul (delta R zero one i j) (mul (pad R zero one i) (pad R zero one j))).
    rewrite <- (sum_bnd_mul_l R zero one add mul SR D1 (restS woff s ts ++ [nwS]) (fun _ => cf) (fun r => mul (prods1 r) (aval1 [naS] r)))
      by (intros r1 r2 _; reflexivity).
    symmetry. rewrite <- P1_fst, <- P1_snd.
    apply sum_bnd_rename.
    - exact P1_fst_nodup.
    - exact P1_snd_nodup.
    - exact P1_dims.
    - intros r r' Hrel _ Hout. rewrite P1_snd in Hout. symmetry. apply (leaf1 r r' o i j Hrel); try assumption.
      + rewrite (Hout _ M1). unfold upd. destruct (Nat.eqb_spec (opD r0) (upD (bid im (rid ts)))) as [E|_]; [contradiction|].
        destruct (Nat.eqb_spec (opD r0) (upD (kid (rid ts)))) as [E|_]; [contradiction|]. rewrite Nat.eqb_refl. reflexivity.
      + rewrite (Hout _ M2). unfold upd. destruct (Nat.eqb_spec (upD (kid (rid ts))) (upD (bid im (rid ts)))) as [E|_]; [contradiction|].
        rewrite Nat.eqb_refl. reflexivity.
      + rewrite (Hout _ M3). unfold upd. rewrite Nat.eqb_refl. reflexivity.
  Qed.

  Theorem tp1_value_main : exists gD gS,
    trace_ttndo im D' = Some gD /\ tp_expectation woff aoff s [(c, [dd; dd])] = Some gS /\
    gaxes gD = [] /\ gaxes gS = [] /\
    forall rho rho', gvalue R zero one add mul (atom_wires D') (wdim D') tblD gD rho
                     = gvalue R zero one add mul W1 D1 tblS gS rho'.
  Proof.
    destruct (D_norm_tp1 im d s r0 ts k TO c Hc D' HD' R zero one add mul SR tblD) as (gD & HgD & AxD & HvD).
    destruct (S_value_tp1 R zero one add mul SR woff aoff s tblS WS Hw2 Ha2 ts WT HP c Hc dd eq_refl) as (gS & HgS & AxS & HvS).
    exists gD, gS. split; [exact HgD|]. split; [exact HgS|]. split; [exact AxD|]. split; [exact AxS|].
    intros rho rho'. rewrite HvD, HvS.
    destruct (d_root im d s r0 ts k TO) as (rn & _ & _ & _ & _ & _ & D0). destruct (to_dim_root _ _ _ _ _ _ TO) as (DK & DB).
    unfold L1, LD. rewrite <- app_assoc. rewrite sum_bnd_app. cbn [sum_bnd].
    rewrite !wdim_old'.
    2:{ assert (Hlt : upD (bid im (rid ts)) < nwD) by (apply LD_lt; unfold LD; right; right; left; reflexivity). lia. }
    2:{ assert (Hlt : upD (kid (rid ts)) < nwD) by (apply LD_lt; unfold LD; right; left; reflexivity). lia. }
    2:{ assert (Hlt : opD r0 < nwD) by (apply LD_lt; unfold LD; left; reflexivity). lia. }
    rewrite D0, DK, DB.
    rewrite <- (root_sums R zero one add mul SR k (sum_bnd R zero add D1 (restS woff s ts ++ [nwS]) (fun r => mul (prods1 r) (aval1 [naS] r)) rho') Hk) at 1.
    apply sum_upto_ext. intros o Ho. apply sum_upto_ext. intros i Hi. apply sum_upto_ext. intros j Hj.
    apply (inner_sum1 rho rho' o i j Ho Hi Hj).
  Qed.
End Join1.

(* ================================================================================================================ *)
(* the statement with the tree read off the state and the absorption performed by the model of the code path          *)
(* ================================================================================================================ *)
Lemma absorb_ket_succeeds im d s r0 ts k : ttndo_of im d s r0 ts k -> forall c, In c (rnodes ts) ->
  exists D', absorb_open d (im_kid im c) [wdim s (open_wire s c); wdim s (open_wire s c)] = Some D'.
Proof.
  intros TO c Hc. pose proof (to_wfs _ _ _ _ _ _ TO) as WD.
  destruct (in_tlist ts c Hc) as (q & cs & He).
  destruct (d_node im d s r0 ts k TO q c cs He) as (kn & bn & p & bp & E1 & _).
  destruct (wf_two_of_wf 1 0 d (ws_wf d WD) (to_open _ _ _ _ _ _ TO) Nat.lt_0_1) as (tD & _ & WTD & HPD).
  assert (HaD : In (im_kid im c) (rnodes tD)) by (apply (Permutation_in _ (Permutation_sym HPD)); apply (aget_Some_keys _ _ _ E1)).
  destruct (in_tlist tD _ HaD) as (q' & cs' & He').
  destruct WTD as (_ & _ & _ & Hsub). pose proof (wf_sub_tlist d _ tD None Hsub q' _ cs' He') as Hok.
  apply (absorb_site_succeeds d _ q' _ cs' _ Hok). symmetry. exact (to_dim_open _ _ _ _ _ _ TO c Hc).
Qed.

Theorem tp1_value (R : Type) (zero one : R) (add mul : R -> R -> R) :
  comm_semiring zero one add mul ->
  forall (woff aoff : nat) (im : idmaps) (d s : store) (r0 : id) (ts : rt) (k : nat) (tblD tblS : nat -> list nat -> R),
  wfs s -> one_open s -> next_wire s + 2 <= woff -> next_atom s < aoff ->
  ket_tree s = Some ts -> 1 <= k ->
  ttndo_of im d s r0 ts k ->
  build_contracts R zero one add mul woff aoff im d s r0 ts k tblD tblS ->
  forall (c : id) (dd : nat), In c (rnodes ts) -> dd = wdim s (open_wire s c) ->
  (forall i j, i < dd -> j < dd -> tblD (next_atom d) [i; j] = tblS (next_atom s) [i; j]) ->
  exists D' gD gS,
    ttndo_tp_apply im d [(c, [dd; dd])] = Some D' /\
    ttndo_tp_expectation im d [(c, [dd; dd])] = Some gD /\ tp_expectation woff aoff s [(c, [dd; dd])] = Some gS /\
    gaxes gD = [] /\ gaxes gS = [] /\
    forall rho rho', gvalue R zero one add mul (atom_wires D') (wdim D') tblD gD rho
                     = gvalue R zero one add mul (tp1_wiresS woff aoff s c) (tp1_dimS woff aoff s c) tblS gS rho'.
Proof.
  intros SR woff aoff im d s r0 ts k tblD tblS WS H1 Hw2 Ha2 Hts Hk TO BC c dd Hc -> OC.
  assert (Hw0 : 0 < woff) by lia.
  destruct (wf_two_of_wf woff aoff s (ws_wf s WS) H1 Hw0) as (t & Ht & WT & HP). rewrite Hts in Ht. injection Ht as <-.
  destruct (absorb_ket_succeeds im d s r0 ts k TO c Hc) as (D' & HD').
  destruct (tp1_value_main R zero one add mul SR woff aoff im d s r0 ts k tblD tblS WS H1 Hw2 Ha2 WT HP Hk TO BC c Hc D' HD' OC)
    as (gD & gS & E1 & E2 & A1 & A2 & HV).
  exists D', gD, gS.
  assert (EA : ttndo_tp_apply im d [(c, [wdim s (open_wire s c); wdim s (open_wire s c)])] = Some D').
  { unfold ttndo_tp_apply. cbn [map fst snd tp_apply]. rewrite HD'. reflexivity. }
  split; [exact EA|]. split; [unfold ttndo_tp_expectation; rewrite EA; exact E1|]. auto.
Qed.

(* the same with every structural hypothesis in executable form *)
Theorem tp1_value_b (R : Type) (zero one : R) (add mul : R -> R -> R) :
  comm_semiring zero one add mul ->
  forall (woff aoff : nat) (im : idmaps) (d s : store) (r0 : id) (k : nat) (tblD tblS : nat -> list nat -> R),
  value_hyp woff aoff im d s r0 k = true -> next_wire s + 2 <= woff -> next_atom s < aoff ->
  (forall ts, ket_tree s = Some ts -> build_contracts R zero one add mul woff aoff im d s r0 ts k tblD tblS) ->
  forall (c : id) (dd : nat), In c (akeys (nodes s)) -> dd = wdim s (open_wire s c) ->
  (forall i j, i < dd -> j < dd -> tblD (next_atom d) [i; j] = tblS (next_atom s) [i; j]) ->
  exists D' gD gS,
    ttndo_tp_apply im d [(c, [dd; dd])] = Some D' /\
    ttndo_tp_expectation im d [(c, [dd; dd])] = Some gD /\ tp_expectation woff aoff s [(c, [dd; dd])] = Some gS /\
    gaxes gD = [] /\ gaxes gS = [] /\
    forall rho rho', gvalue R zero one add mul (atom_wires D') (wdim D') tblD gD rho
                     = gvalue R zero one add mul (tp1_wiresS woff aoff s c) (tp1_dimS woff aoff s c) tblS gS rho'.
Proof.
  intros SR woff aoff im d s r0 k tblD tblS H Hw2 Ha2 BC c dd Hc Edd OC. unfold value_hyp in H.
  do 6 (apply andb_prop in H; let H' := fresh "H" in destruct H as [H H']).
  destruct (ket_tree s) as [ts|] eqn:Ets; [|discriminate].
  pose proof (wfsb_wfs s H) as WS.
  pose proof (one_openb_sound s (ws_wf s WS) H5) as HO.
  assert (Hw0 : 0 < woff) by lia.
  destruct (wf_two_of_wf woff aoff s (ws_wf s WS) HO Hw0) as (t & Ht & WT & HP). rewrite Ets in Ht. injection Ht as <-.
  apply (tp1_value R zero one add mul SR woff aoff im d s r0 ts k tblD tblS WS HO Hw2 Ha2 Ets); auto.
  - apply Nat.leb_le. exact H1.
  - apply ttndo_ofb_sound. exact H0.
  - apply (Permutation_in _ (Permutation_sym HP)). exact Hc.
Qed.

(* ================================================================================================================ *)
(* example: the four-node tree of Value.v, a non-symmetric operator on each of its nodes, k = 1, 2, 3                 *)
(* ================================================================================================================ *)
(* the operator atom: next_atom vx_s = 4 in the world of the state, next_atom (vx_d k) = 9 in the world of the network;
   vx_tblD 9 = vx_tblS 4 by the definition of vx_tblD *)
Definition vx_opdim (c : id) : nat := wdim vx_s (open_wire vx_s c).
Definition vx_tp1_D (k : nat) (c : id) : option Z :=
  match ttndo_tp_apply code_maps (vx_d k) [(c, [vx_opdim c; vx_opdim c])] with
  | Some D' => option_map (fun g => gvalue Z 0%Z 1%Z Z.add Z.mul (atom_wires D') (wdim D') vx_tblD g (fun _ => 0))
                          (ttndo_tp_expectation code_maps (vx_d k) [(c, [vx_opdim c; vx_opdim c])])
  | None => None
  end.
Definition vx_tp1_S (c : id) : option Z :=
  option_map (fun g => gvalue Z 0%Z 1%Z Z.add Z.mul (tp1_wiresS 1000 100 vx_s c) (tp1_dimS 1000 100 vx_s c) vx_tblS g (fun _ => 0))
             (tp_expectation 1000 100 vx_s [(c, [vx_opdim c; vx_opdim c])]).
Definition vx_op_same (k : nat) (c : id) : bool :=
  forallb (fun i => forallb (fun j => Z.eqb (vx_tblD (next_atom (vx_d k)) [i; j]) (vx_tblS (next_atom vx_s) [i; j])) (seq 0 (vx_opdim c))) (seq 0 (vx_opdim c)).

Lemma tp1_example_numbers :
  (next_atom vx_s, next_atom (vx_d 2)) = (4, 9) /\ map vx_opdim [0; 1; 2; 3] = [2; 2; 3; 3] /\
  (* the operator is not symmetric *)
  (vx_tblS 4 [0; 1], vx_tblS 4 [1; 0]) = (-3, -1)%Z /\
  forallb (fun kc => vx_op_same (fst kc) (snd kc)) [(1, 0); (2, 1); (3, 2); (2, 3)] = true /\
  (* node 1 (inner node, physical dimension 2) with k = 2; node 2 (leaf, physical dimension 3) with k = 1 *)
  vx_tp1_S 1 = Some (-164)%Z /\ vx_tp1_D 2 1 = Some (-164)%Z /\
  vx_tp1_S 2 = Some 2428%Z /\ vx_tp1_D 1 2 = Some 2428%Z.
Proof. vm_compute. repeat split; reflexivity. Qed.

(* the theorem applies to the example (k = 3: one more than any bond of the state needs), on every node *)
Lemma tp1_example_thm : forall c, In c [0; 1; 2; 3] -> exists D' gD gS,
  ttndo_tp_apply code_maps (vx_d 3) [(c, [vx_opdim c; vx_opdim c])] = Some D' /\
  ttndo_tp_expectation code_maps (vx_d 3) [(c, [vx_opdim c; vx_opdim c])] = Some gD /\
  tp_expectation 1000 100 vx_s [(c, [vx_opdim c; vx_opdim c])] = Some gS /\
  forall rho rho',
    gvalue Z 0%Z 1%Z Z.add Z.mul (atom_wires D') (wdim D') vx_tblD gD rho
    = gvalue Z 0%Z 1%Z Z.add Z.mul (tp1_wiresS 1000 100 vx_s c) (tp1_dimS 1000 100 vx_s c) vx_tblS gS rho'.
Proof.
  intros c Hc. destruct value_example_hyp as (Et & _ & _ & H3 & _ & _ & C3).
  assert (Hk : In c (akeys (nodes vx_s))).
  { destruct Hc as [<-|[<-|[<-|[<-|[]]]]]; vm_compute; auto. }
  pose proof (tp1_value_b Z 0%Z 1%Z Z.add Z.mul Z_semiring 1000 100 code_maps (vx_d 3) vx_s 0 3 vx_tblD vx_tblS H3) as T.
  assert (G1 : next_wire vx_s + 2 <= 1000) by (vm_compute; lia).
  assert (G2 : next_atom vx_s < 100) by (vm_compute; lia).
  assert (G3 : forall ts, ket_tree vx_s = Some ts -> build_contracts Z 0%Z 1%Z Z.add Z.mul 1000 100 code_maps (vx_d 3) vx_s 0 ts 3 vx_tblD vx_tblS).
  { intros ts Hts. rewrite Et in Hts. injection Hts as <-. apply build_contractsb_sound. exact C3. }
  assert (G5 : vx_opdim c = wdim vx_s (open_wire vx_s c)) by (unfold vx_opdim; reflexivity).
  specialize (T G1 G2 G3 c (vx_opdim c) Hk G5).
  assert (G4 : forall i j, i < vx_opdim c -> j < vx_opdim c -> vx_tblD (next_atom (vx_d 3)) [i; j] = vx_tblS (next_atom vx_s) [i; j]).
  { intros i j _ _. assert (E9 : next_atom (vx_d 3) = 9) by (vm_compute; reflexivity). assert (E4 : next_atom vx_s = 4) by (vm_compute; reflexivity).
    rewrite E9, E4. reflexivity. }
  destruct (T G4) as (D' & gD & gS & E0 & E1 & E2 & _ & _ & HV).
  exists D', gD, gS. exact (conj E0 (conj E1 (conj E2 HV))).
Qed.
