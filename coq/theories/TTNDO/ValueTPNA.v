(* Property C16, value level, tensor products on several sites, part A (general; no density-operator network here):
     - lists of factors: indices of the sites, a duplicate-free node list is the sites followed by the rest;
     - tp_apply_views: what TreeTensorNetworkState.apply_operator (Contr/TensorProd.tp_apply) leaves, node by node;
     - a generic gluing (ket-side wire of node m = its open wire or a fresh wire): C04's fused form of the state side for
       any such gluing (fused_value of Contr/TensorProdBridgeStore.v is the instance with one redirected node);
     - S_value_tpN: the value of C04's <psi| (x)_i O_i |psi> diagram as a flat sum. *)
From Coq Require Import List Arith Bool Lia Permutation ZArith.
From PTN Require Import TTN.Store TTN.StoreProofs TTN.Inv TTN.InvProofs TTN.InvNode Wire.Sem Wire.SemProofs TTN.InvSem TTN.InvSemProofs
  TEBD.Trotter Contr.Blocks Contr.Closed Contr.ClosedProofs Contr.TensorProd Contr.TensorProdProofs Contr.TensorProdSem
  Contr.TensorProdBridge Contr.TensorProdBridgeProofs Contr.TensorProdBridgeStore TTNDO.Value TTNDO.ValueProofs TTNDO.ValueTP.
Import ListNotations.

(* ================================================================================================================ *)
(* 1. lists                                                                                                           *)
(* ================================================================================================================ *)
Lemma incl_split (sites : list nat) : forall l, NoDup sites -> NoDup l -> incl sites l ->
  exists l', Permutation l (sites ++ l') /\ forall m, In m l' -> ~ In m sites.
Proof.
  induction sites as [|a t IH]; intros l Hs Hl Hi.
  - exists l. split; [reflexivity|]. intros m _ [].
  - inversion Hs as [|? ? Hna Hs']; subst.
    assert (Ha : In a l) by (apply Hi; left; reflexivity).
    apply in_split in Ha. destruct Ha as (l1 & l2 & ->).
    pose proof (NoDup_remove_1 _ _ _ Hl) as Hl'. pose proof (NoDup_remove_2 _ _ _ Hl) as Hnl.
    destruct (IH (l1 ++ l2) Hs' Hl') as (l' & P & Hd).
    { intros x Hx. assert (Hx' : In x (l1 ++ a :: l2)) by (apply Hi; right; exact Hx).
      apply in_app_or in Hx'. apply in_or_app. destruct Hx' as [H|[E|H]]; [left; exact H| |right; exact H].
      subst x. contradiction. }
    exists l'. split.
    + rewrite <- Permutation_middle. cbn [app]. apply perm_skip. exact P.
    + intros m Hm [E|Hin]; [|exact (Hd m Hm Hin)]. subst m. apply Hnl. apply (Permutation_in _ (Permutation_sym P)).
      apply in_or_app. right. exact Hm.
Qed.

Lemma flat_map_indexed {A B} (g : A -> list B) (x : nat -> list B) : forall (l : list A) a,
  (forall i c, nth_error l i = Some c -> g c = x (a + i)) -> flat_map g l = flat_map x (seq a (length l)).
Proof.
  induction l as [|c t IH]; intros a H; [reflexivity|]. cbn [flat_map length seq].
  rewrite (H 0 c eq_refl), Nat.add_0_r. f_equal. apply IH. intros i c' Hi. rewrite (H (S i) c' Hi). f_equal. lia.
Qed.

Lemma map_indexed {A B} (g : A -> B) (x : nat -> B) : forall (l : list A) a,
  (forall i c, nth_error l i = Some c -> g c = x (a + i)) -> map g l = map x (seq a (length l)).
Proof.
  induction l as [|c t IH]; intros a H; [reflexivity|]. cbn [map length seq].
  rewrite (H 0 c eq_refl), Nat.add_0_r. f_equal. apply IH. intros i c' Hi. rewrite (H (S i) c' Hi). f_equal. lia.
Qed.

Lemma index_of_nth_error x l j : index_of x l = Some j -> nth_error l j = Some x.
Proof.
  intros H. destruct (index_of_Some x l j H) as (Hlt & E). rewrite <- E. apply nth_error_nth'. exact Hlt.
Qed.

Lemma nth_error_index_of x l j : NoDup l -> nth_error l j = Some x -> index_of x l = Some j.
Proof.
  intros Hnd H. assert (Hlt : j < length l) by (apply nth_error_Some; congruence).
  rewrite <- (index_of_nth l j Hnd Hlt). f_equal. symmetry. apply (nth_error_nth l j 0 H).
Qed.

(* the rows of dimensions apply_operator appends: the output wire of factor i has the factor's (first) dimension *)
Definition tp_dims (s : store) (ops : list (id * list nat)) : list (wire * nat) :=
  map (fun io => (next_wire s + fst io, hd 0 (snd (snd io)))) (combine (seq 0 (length ops)) ops).

Lemma aget_rows {V} (b : nat) (F : nat * (id * list nat) -> V) : forall (ops : list (id * list nat)) a i o,
  nth_error ops i = Some o ->
  aget (b + (a + i)) (map (fun io => (b + fst io, F io)) (combine (seq a (length ops)) ops)) = Some (F (a + i, o)).
Proof.
  induction ops as [|o0 t IH]; intros a i o H; [destruct i; discriminate|].
  cbn [length seq combine map aget fst]. destruct i as [|i].
  - cbn in H. injection H as <-. rewrite Nat.add_0_r, Nat.eqb_refl. reflexivity.
  - cbn in H. destruct (Nat.eqb_spec (b + (a + S i)) (b + a)) as [E|_]; [lia|].
    replace (a + S i) with (S a + i) by lia. apply IH. exact H.
Qed.

Lemma akeys_rows {V} (b : nat) (F : nat * (id * list nat) -> V) : forall (ops : list (id * list nat)) a,
  akeys (map (fun io => (b + fst io, F io)) (combine (seq a (length ops)) ops)) = map (Nat.add b) (seq a (length ops)).
Proof.
  induction ops as [|o0 t IH]; intros a; [reflexivity|]. cbn [length seq combine map akeys fst]. unfold akeys in *. cbn [map fst]. f_equal. apply IH.
Qed.

Lemma aget_rows_none {V} (b : nat) (F : nat * (id * list nat) -> V) (ops : list (id * list nat)) x :
  (x < b \/ b + length ops <= x) -> aget x (map (fun io => (b + fst io, F io)) (combine (seq 0 (length ops)) ops)) = None.
Proof.
  intros H. apply aget_None. rewrite akeys_rows. intros Hin. apply in_map_iff in Hin. destruct Hin as (i & E & Hi). apply in_seq in Hi. lia.
Qed.

(* ================================================================================================================ *)
(* 2. apply_operator, node by node                                                                                    *)
(* ================================================================================================================ *)
Lemma absorb_dims ket bra p a cs dd ket' : node_ok ket bra p a cs -> absorb_open ket a [dd; dd] = Some ket' ->
  dims ket' = dims ket ++ [(next_wire ket, dd)].
Proof.
  intros Hok H. destruct (absorb_site ket bra p a cs _ ket' Hok H) as (kn & E1 & _).
  destruct (absorb_effect ket a _ ket' H) as (nd0 & t0 & B1 & _ & Hlen & _ & _ & _ & _ & _ & _ & _ & _ & Bd & _).
  rewrite E1 in B1. injection B1 as <-. cbn [length] in Hlen. assert (Hk1 : nopen kn = 1) by lia. rewrite Hk1 in Bd. exact Bd.
Qed.

Lemma tp_apply_views bra t : forall ops ket ket',
  wf_two ket bra t ->
  NoDup (map fst ops) -> (forall o, In o ops -> In (fst o) (rnodes t)) ->
  (forall i m, i < length ops -> In m (rnodes t) -> next_wire ket + i <> open_wire bra m) ->
  (forall o, In o ops -> exists dd, snd o = [dd; dd]) ->
  tp_apply ket ops = Some ket' ->
  (forall m, factor_index ops m = None -> aget m (nodes ket') = aget m (nodes ket) /\ tensor_of ket' m = tensor_of ket m) /\
  (forall m i, factor_index ops m = Some i -> exists kn pre,
      aget m (nodes ket) = Some kn /\ aget m (nodes ket') = Some (reset_permutation kn) /\
      t_axes ket m = pre ++ [open_wire ket m] /\ t_axes ket' m = pre ++ [next_wire ket + i] /\
      t_atoms ket' m = t_atoms ket m ++ [next_atom ket + i] /\ t_bnd ket' m = open_wire ket m :: t_bnd ket m) /\
  root ket' = root ket /\ next_wire ket' = next_wire ket + length ops /\ next_atom ket' = next_atom ket + length ops /\
  dims ket' = dims ket ++ tp_dims ket ops.
Proof.
  induction ops as [|[a shp] rest IH]; intros ket ket' Hwf Hnd Hin Hfresh Hshp Happ.
  - cbn [tp_apply] in Happ. injection Happ as <-. unfold tp_dims. cbn [length seq combine map]. rewrite !Nat.add_0_r, app_nil_r.
    split; [intros m _; split; reflexivity|]. split; [intros m i H; discriminate|]. repeat split; reflexivity.
  - cbn [tp_apply] in Happ. destruct (absorb_open ket a shp) as [k1|] eqn:E1; [|discriminate].
    destruct Hwf as (Hr1 & Hr2 & Hndt & Hsub).
    assert (Ha : In a (rnodes t)) by (apply (Hin (a, shp)); left; reflexivity).
    destruct (wf_sub_node ket bra t None Hsub a Ha) as (q & cs & Hok).
    destruct (Hshp (a, shp) (or_introl eq_refl)) as (dd & Es). cbn [snd] in Es. subst shp.
    destruct (absorb_site ket bra q a cs _ k1 Hok E1) as (kn & Ekn & Ekn1 & Hoth & Hax1 & Hat1 & Hbn1 & Hroot1 & Hnw1 & Hna1 & _ & _).
    pose proof (absorb_dims ket bra q a cs dd k1 Hok E1) as Hd1.
    assert (Hfr0 : next_wire ket <> open_wire bra a).
    { pose proof (Hfresh 0 a) as H0. rewrite Nat.add_0_r in H0. apply H0; [cbn; lia|exact Ha]. }
    assert (Hwf1 : wf_two k1 bra t).
    { split; [congruence|]. split; [exact Hr2|]. split; [exact Hndt|]. apply (absorb_wf_sub ket bra a _ k1 E1 Hfr0). exact Hsub. }
    inversion Hnd as [|? ? Hnotin Hnd']; subst.
    destruct (IH k1 ket' Hwf1 Hnd') as (IN & IS & IR & IW & IA & ID).
    { intros o Ho. apply Hin. right. exact Ho. }
    { intros i m Hi Hm. rewrite Hnw1. replace (S (next_wire ket) + i) with (next_wire ket + S i) by lia. apply Hfresh; [cbn; lia|exact Hm]. }
    { intros o Ho. apply Hshp. right. exact Ho. }
    { exact Happ. }
    assert (Hnone : index_of a (map fst rest) = None) by (apply index_of_None; exact Hnotin).
    destruct Hok as (kn0 & bn0 & Ekn0 & _ & _ & _ & _ & _ & _ & Hax0 & _). rewrite Ekn in Ekn0. injection Ekn0 as <-.
    split; [|split; [|split; [|split; [|split]]]].
    + intros m Hm. unfold factor_index in Hm. cbn [map fst index_of] in Hm.
      destruct (Nat.eqb_spec m a) as [Ema|Hma]; [discriminate|].
      destruct (index_of m (map fst rest)) as [j|] eqn:Ej; [discriminate|].
      destruct (IN m Ej) as (N1 & N2). destruct (Hoth m Hma) as (O1 & O2). split; congruence.
    + intros m i Hm. unfold factor_index in Hm. cbn [map fst index_of] in Hm.
      destruct (Nat.eqb_spec m a) as [Ema|Hma].
      * subst m. injection Hm as <-. destruct (IN a Hnone) as (N1 & N2).
        exists kn, (opt_list q (up_wire ket a) ++ map (up_wire ket) cs). rewrite ?Nat.add_0_r.
        split; [exact Ekn|]. split; [rewrite N1; exact Ekn1|]. split; [rewrite Hax0, app_assoc; reflexivity|].
        destruct (t_of_tensor_of k1 ket' a a N2) as (T1 & T2 & T3). rewrite T1, T2, T3, Hax1, Hat1, Hbn1, app_assoc. auto.
      * destruct (index_of m (map fst rest)) as [j|] eqn:Ej; [|discriminate]. cbn [option_map] in Hm. injection Hm as <-.
        destruct (IS m j Ej) as (kn' & pre & S1 & S2 & S3 & S4 & S5 & S6).
        destruct (absorb_other ket bra a _ k1 E1 m Hma) as (O1 & O2 & O3 & O4 & _ & O6).
        exists kn', pre. rewrite <- O1, <- O2, <- O3, <- O4, <- O6.
        split; [exact S1|]. split; [exact S2|]. split; [exact S3|].
        split; [rewrite S4, Hnw1; f_equal; f_equal; lia|]. split; [rewrite S5, Hna1; f_equal; f_equal; lia|exact S6].
    + congruence.
    + rewrite IW, Hnw1. cbn [length]. lia.
    + rewrite IA, Hna1. cbn [length]. lia.
    + rewrite ID, Hd1, <- app_assoc. f_equal. unfold tp_dims. cbn [length seq combine map fst snd app hd]. rewrite !Nat.add_0_r.
      f_equal. rewrite <- seq_shift, combine_map_l_local, map_map. apply map_ext_in. intros [i o] Hio. cbn [fst snd].
      rewrite Hnw1. f_equal. lia.
Qed.

Lemma map_add_seq a n : map (Nat.add a) (seq 0 n) = seq a n.
Proof.
  revert a. induction n as [|n IH]; intros a; [reflexivity|]. cbn [seq map]. rewrite Nat.add_0_r. f_equal.
  rewrite <- seq_shift, map_map. rewrite <- (IH (S a)). apply map_ext. intros x. lia.
Qed.

(* the ket-side wires of the glued pairs: at a site the factor's output wire replaces the open wire *)
Lemma swap_sites (opw : id -> wire) (neww : nat -> wire) (l sites : list id) : NoDup l -> NoDup sites -> incl sites l ->
  Permutation (map opw sites ++ map (fun m => match index_of m sites with Some i => neww i | None => opw m end) l)
              (map opw l ++ map neww (seq 0 (length sites))).
Proof.
  intros Hl Hs Hi. destruct (incl_split sites l Hs Hl Hi) as (l' & P & Hd).
  rewrite (Permutation_map _ P), (Permutation_map opw P), !map_app.
  rewrite (map_indexed (fun m => match index_of m sites with Some i => neww i | None => opw m end) neww sites 0).
  2:{ intros i c Hc. rewrite (nth_error_index_of c sites i Hs Hc). reflexivity. }
  rewrite (map_ext_in (fun m => match index_of m sites with Some i => neww i | None => opw m end) opw l').
  2:{ intros m Hm. rewrite (proj2 (index_of_None m sites) (Hd m Hm)). reflexivity. }
  perm_solve.
Qed.

(* ================================================================================================================ *)
(* 3. a generic gluing of the conjugate copy: the ket-side wire of node m is its open wire or a fresh wire            *)
(* ================================================================================================================ *)
Section GenGlue.
  Variable R : Type.
  Variables (zero one : R) (add mul : R -> R -> R).
  Hypothesis SR : comm_semiring zero one add mul.
  Variables (woff aoff : nat) (s : store) (tbl : nat -> list nat -> R).
  Hypothesis WS : wfs s.
  Hypothesis Hw0 : 0 < woff.
  Hypothesis Hw : next_wire s <= woff.
  Hypothesis Ha : next_atom s <= aoff.
  Variable Wr : nat -> list wire.
  Variable Dm : wire -> nat.
  Hypothesis Wr_ket : forall a, In a (total_atoms s) -> Wr a = atom_wires s a.
  Hypothesis Wr_bra : forall a, a < next_atom s -> Wr (aoff + a) = map (Nat.add woff) (atom_wires s a).
  Variable ts : rt.
  Hypothesis WT : wf_two s (conj_store woff aoff s) ts.
  Hypothesis HP : Permutation (rnodes ts) (akeys (nodes s)).
  Variable kop : id -> wire.
  Hypothesis Hkop : forall m, In m (akeys (nodes s)) -> kop m = open_wire s m \/ (next_wire s <= kop m /\ kop m < woff).

  Local Notation bra := (conj_store woff aoff s).
  Local Notation sumb := (sum_bnd R zero add Dm).
  Local Notation aval := (atoms_val R one mul Wr tbl).
  Local Notation val := (value R zero one add mul Wr Dm tbl).
  Local Notation keys := (akeys (nodes s)).

  Definition OPTg : list (wire * wire) := map (fun m => (kop m, woff + open_wire s m)) keys.

  Let c0 := rid ts.
  Let Hco0 : open_wire s c0 = open_wire s c0 \/ next_wire s <= open_wire s c0 < woff. Proof. left. reflexivity. Qed.

  Lemma g_open_lt m : In m keys -> open_wire s m < woff.
  Proof. intros Hm. exact (open_wire_lt woff aoff s WS Hw0 Hw Ha ts WT HP c0 _ Hco0 m Hm). Qed.

  Lemma g_node m : In m keys -> exists kn tm, aget m (nodes s) = Some kn /\ aget m (tensors s) = Some tm /\ tens s m = tm /\
    In (open_wire s m) (axes tm).
  Proof.
    intros Hm. destruct (node_view woff aoff s WS ts WT HP m Hm) as (kn & tm & E1 & E2 & _).
    exists kn, tm. split; [exact E1|]. split; [exact E2|]. split; [unfold tens; rewrite E2; reflexivity|].
    exact (open_wire_in woff aoff s WS ts WT HP m kn tm E1 E2).
  Qed.

  Lemma kopg_lt m : In m keys -> kop m < woff.
  Proof. intros Hm. destruct (Hkop m Hm) as [E|[_ H]]; [rewrite E; apply g_open_lt; exact Hm|exact H]. Qed.

  Lemma kopg_not_bnd x m tm : In x keys -> aget m (tensors s) = Some tm -> ~ In (kop x) (bnd tm).
  Proof.
    intros Hx E Hb. destruct (Hkop x Hx) as [E0|[H _]].
    - rewrite E0 in Hb. destruct (g_node x Hx) as (kx & tx & _ & X2 & _ & Hin). exact (F_bnd_axes s WS m tm x tx _ E X2 Hb Hin).
    - pose proof (F_bnd_nw s WS m tm _ E Hb). lia.
  Qed.

  Lemma OPTg_in x : In x keys -> In (kop x, woff + open_wire s x) OPTg.
  Proof. intros H. unfold OPTg. apply (in_map (fun m => (kop m, woff + open_wire s m))). exact H. Qed.

  Lemma OPTg_inv p : In p OPTg -> exists x, In x keys /\ p = (kop x, woff + open_wire s x).
  Proof. intros H. unfold OPTg in H. apply in_map_iff in H. destruct H as (x & E & Hx). exists x. auto. Qed.

  Lemma OPTg_nodup : NoDup (map snd OPTg).
  Proof.
    unfold OPTg. rewrite map_map. cbn [snd]. apply NoDup_map_inj_in; [|apply (wf_nd s (ws_wf s WS))].
    intros a b Hia Hib E. apply (open_wire_inj woff aoff s WS ts WT HP a b Hia Hib). lia.
  Qed.

  Lemma OPTg_ok m tm : aget m (tensors s) = Some tm -> gl_ok woff OPTg tm.
  Proof.
    intros E p Hp. destruct (OPTg_inv p Hp) as (x & Hx & ->). cbn [fst snd].
    destruct (g_node x Hx) as (kx & tx & _ & X2 & _ & Hin).
    split; [lia|]. split; [apply (kopg_lt x Hx)|]. split.
    - apply (kopg_not_bnd x m tm Hx E).
    - intros Hb. apply in_map_iff in Hb. destruct Hb as (b & Eb & Hb). assert (b = open_wire s x) by lia. subst b.
      apply (F_bnd_axes s WS m tm x tx _ E X2 Hb Hin).
  Qed.

  Lemma glueg_open r x : In x keys -> glue_asg OPTg r (woff + open_wire s x) = r (kop x).
  Proof. intros Hx. apply (glue_asg_in OPTg r (kop x, woff + open_wire s x) OPTg_nodup (OPTg_in x Hx)). Qed.

  Lemma glueg_other r w : (forall x, In x keys -> w <> open_wire s x) -> glue_asg OPTg r (woff + w) = r (woff + w).
  Proof.
    intros H. apply glue_asg_out. intros Hcc. apply in_map_iff in Hcc. destruct Hcc as (p & E & Hp).
    destruct (OPTg_inv p Hp) as (x & Hx & ->). cbn [snd] in E. apply (H x Hx). lia.
  Qed.

  Lemma glueg_ket r y : y < woff -> glue_asg OPTg r y = r y.
  Proof.
    intros Hy. apply glue_asg_out. intros Hcc. apply in_map_iff in Hcc. destruct Hcc as (p & E & Hp).
    destruct (OPTg_inv p Hp) as (x & Hx & ->). cbn [snd] in E. lia.
  Qed.

  Local Notation NAf := (fun m : id => atoms (tens s m) ++ map (Nat.add aoff) (atoms (tens s m))).
  Local Notation NBf := (fun m : id => bnd (tens s m) ++ map (Nat.add woff) (bnd (tens s m))).

  Lemma node_indepg m m' tm tm' : aget m (tensors s) = Some tm -> aget m' (tensors s) = Some tm' -> m <> m' ->
    indep R (fun r => aval (atoms tm ++ map (Nat.add aoff) (atoms tm)) (glue_asg OPTg r)) (bnd tm' ++ map (Nat.add woff) (bnd tm')).
  Proof.
    intros E E' Hne r r' Hag.
    assert (Hout : forall w, (In w (axes tm) \/ In w (bnd tm)) -> ~ In w (bnd tm')).
    { intros w [H|H] Hb; [exact (F_bnd_axes s WS m' tm' m tm w E' E Hb H)|exact (F_bnd_disj s WS m tm m' tm' w E E' Hne H Hb)]. }
    assert (Hlt : forall w, (In w (axes tm) \/ In w (bnd tm)) -> w < woff).
    { intros w [H|H]; [exact (F_axes_lt woff aoff s WS Hw0 Hw Ha m tm w E H)|exact (F_bnd_lt woff aoff s WS Hw0 Hw Ha m tm w E H)]. }
    assert (Hlow : forall w, w < woff -> ~ In w (bnd tm') -> r w = r' w).
    { intros w H1 H2. apply Hag. intros Hcc. apply in_app_or in Hcc. destruct Hcc as [Hcc|Hcc]; [contradiction|].
      apply in_map_iff in Hcc. destruct Hcc as (b & Eb & _). lia. }
    apply aval_agree. intros a y Hia Hy. apply in_app_or in Hia. destruct Hia as [Hia|Hia].
    - rewrite (F_Wr_ket s Wr Wr_ket m tm a E Hia) in Hy. pose proof (F_closed s WS m tm a y E Hia Hy) as Hcl.
      rewrite !glueg_ket by (apply Hlt; exact Hcl). apply Hlow; [apply Hlt|apply Hout]; exact Hcl.
    - apply in_map_iff in Hia. destruct Hia as (a0 & <- & Hia). rewrite (F_Wr_bra woff aoff s WS Wr Wr_bra m tm a0 E Hia) in Hy.
      apply in_map_iff in Hy. destruct Hy as (w & <- & Hw'). pose proof (F_closed s WS m tm a0 w E Hia Hw') as Hcl.
      destruct (in_dec Nat.eq_dec w (map (open_wire s) keys)) as [Hop|Hnop].
      + apply in_map_iff in Hop. destruct Hop as (x & <- & Hx). rewrite !glueg_open by exact Hx.
        apply Hlow; [apply kopg_lt; exact Hx|apply (kopg_not_bnd x m' tm' Hx E')].
      + rewrite !glueg_other by (intros x Hx Ex; apply Hnop; rewrite Ex; apply in_map; exact Hx).
        apply Hag. intros Hcc. apply in_app_or in Hcc. destruct Hcc as [Hcc|Hcc].
        * pose proof (F_bnd_lt woff aoff s WS Hw0 Hw Ha m' tm' _ E' Hcc). lia.
        * apply in_map_iff in Hcc. destruct Hcc as (b & Eb & Hb). assert (b = w) by lia. subst b. exact (Hout w Hcl Hb).
  Qed.

  (* the sums inside the tensors fuse: what is left is the product over the nodes of (tensor).(conjugate copy) *)
  Lemma fusedg ns r0 : NoDup ns -> (forall m, In m ns -> In m keys) ->
    sumb (flat_map NBf ns) (fun r => aval (flat_map NAf ns) (glue_asg OPTg r)) r0
    = prod_over R one mul (fun m => mul (val (tens s m) r0) (val (conj_sarr woff aoff (tens s m)) (glue_asg OPTg r0))) ns.
  Proof.
    intros Hnd Hk.
    rewrite (sum_bnd_ext_F R zero add Dm _ _ (fun r => prod_over R one mul (fun m => aval (NAf m) (glue_asg OPTg r)) ns))
      by (intros r; apply (atoms_val_flat_map R zero one add mul SR)).
    rewrite (sum_fuse R zero one add mul SR Dm (fun m r => aval (NAf m) (glue_asg OPTg r)) NBf ns).
    - apply (prod_over_ext R one mul). intros m Hm. destruct (g_node m (Hk m Hm)) as (kn & tm & A1 & A2 & V4 & _).
      rewrite V4. apply (node_pair_sum R zero one add mul SR woff aoff s tbl WS Hw0 Hw Ha Wr Dm Wr_ket Wr_bra m tm OPTg r0 A2 (OPTg_ok m tm A2)).
    - intros m _. apply aval_glue_ext.
    - intros m m' Hm Hm' Hne. destruct (g_node m (Hk m Hm)) as (kn & tm & A1 & A2 & V4 & _).
      destruct (g_node m' (Hk m' Hm')) as (kn' & tm' & B1 & B2 & W4 & _). rewrite V4, W4. apply (node_indepg m m' tm tm' A2 B2 Hne).
    - exact Hnd.
  Qed.
End GenGlue.

(* ================================================================================================================ *)
(* 4. the pure-state diagram <psi| (x)_i O_i |psi> of C04 (tp_expectation, any number of factors on distinct sites)   *)
(*    as a flat sum over both copies of every edge wire, every ket-side open wire and the factors' output wires        *)
(* ================================================================================================================ *)
(* the ket-side wire of the glued pair at node m *)
Definition kopN (s : store) (ops : list (id * list nat)) (m : id) : wire :=
  match factor_index ops m with Some i => next_wire s + i | None => open_wire s m end.
Definition OPTN (woff : nat) (s : store) (ops : list (id * list nat)) : list (wire * wire) :=
  map (fun m => (kopN s ops m, woff + open_wire s m)) (akeys (nodes s)).
(* the factors' output wires and atoms *)
Definition new_wires (s : store) (ops : list (id * list nat)) : list wire := map (Nat.add (next_wire s)) (seq 0 (length ops)).
Definition new_atoms (s : store) (ops : list (id * list nat)) : list nat := map (Nat.add (next_atom s)) (seq 0 (length ops)).

Section STPN.
  Variable R : Type.
  Variables (zero one : R) (add mul : R -> R -> R).
  Hypothesis SR : comm_semiring zero one add mul.
  Variables (woff aoff : nat) (s : store) (tbl : nat -> list nat -> R).
  Hypothesis WS : wfs s.
  Hypothesis H1 : one_open s.
  Variable ops : list (id * list nat).
  Hypothesis Hwn : next_wire s + length ops <= woff.
  Hypothesis Han : next_atom s + length ops <= aoff.
  Hypothesis Hw0 : 0 < woff.
  Variable ts : rt.
  Hypothesis WT : wf_two s (conj_store woff aoff s) ts.
  Hypothesis HP : Permutation (rnodes ts) (akeys (nodes s)).
  Hypothesis Hnd : NoDup (map fst ops).
  Hypothesis Hin : forall o, In o ops -> In (fst o) (rnodes ts).
  Hypothesis Hshp : forall o, In o ops -> snd o = [wdim s (open_wire s (fst o)); wdim s (open_wire s (fst o))].
  (* the world: the state, its conjugate copy, and factor i as the atom next_atom s + i on (output wire, the site's open wire) *)
  Variable Wr : nat -> list wire.
  Variable Dm : wire -> nat.
  Hypothesis Wr_ket : forall a, In a (total_atoms s) -> Wr a = atom_wires s a.
  Hypothesis Wr_bra : forall a, a < next_atom s -> Wr (aoff + a) = map (Nat.add woff) (atom_wires s a).
  Hypothesis Wr_op : forall i o, nth_error ops i = Some o -> Wr (next_atom s + i) = [next_wire s + i; open_wire s (fst o)].

  Let Hw : next_wire s <= woff. Proof. lia. Qed.
  Let Ha : next_atom s <= aoff. Proof. lia. Qed.

  Local Notation bra := (conj_store woff aoff s).
  Local Notation sumb := (sum_bnd R zero add Dm).
  Local Notation aval := (atoms_val R one mul Wr tbl).
  Local Notation val := (value R zero one add mul Wr Dm tbl).
  Local Notation keys := (akeys (nodes s)).
  Local Notation sites := (map fst ops).
  Local Notation kop := (kopN s ops).
  Local Notation OPT := (OPTN woff s ops).
  Local Notation newW := (new_wires s ops).
  Local Notation newA := (new_atoms s ops).
  Local Notation opS := (open_wire s).

  Definition prodSN (r : assignment) : R :=
    prod_over R one mul (fun n => mul (val (tens s n) r) (val (conj_sarr woff aoff (tens s n)) (glue_asg OPT r))) (rnodes ts).

  Lemma prodSN_ext : ext R prodSN.
  Proof.
    intros r r' E. unfold prodSN. apply (prod_over_ext R one mul). intros n _. f_equal.
    - apply (value_ext R zero one add mul). exact E.
    - apply (value_ext R zero one add mul). apply glue_asg_ext. exact E.
  Qed.

  Lemma kopN_range m : In m keys -> kop m = opS m \/ (next_wire s <= kop m /\ kop m < woff).
  Proof.
    intros _. unfold kopN, factor_index. destruct (index_of m sites) as [i|] eqn:E; [|left; reflexivity].
    right. apply index_of_Some in E. destruct E as [Hlt _]. rewrite map_length in Hlt. lia.
  Qed.

  Lemma OPTN_eq : OPT = OPTg woff s kop.
  Proof. reflexivity. Qed.

  Lemma tp_pair_kopN m : tp_pair woff s ops m = (kop m, woff + opS m).
  Proof. unfold tp_pair, kopN. destruct (factor_index ops m); reflexivity. Qed.

  Let c0 := rid ts.
  Let Hc0 : amem c0 (nodes s) = true := root_mem woff aoff s ts WT HP.
  Let Hco0 : opS c0 = opS c0 \/ next_wire s <= opS c0 < woff. Proof. left. reflexivity. Qed.

  Lemma sites_keys o : In o ops -> In (fst o) keys.
  Proof. intros Ho. exact (Permutation_in _ HP (Hin o Ho)). Qed.

  (* the factor atoms read only wires below woff that no tensor sums over *)
  Lemma op_wires a y : In a newA -> In y (Wr a) -> y < woff /\ forall m tm, aget m (tensors s) = Some tm -> ~ In y (bnd tm).
  Proof.
    intros Hia Hy. unfold new_atoms in Hia. apply in_map_iff in Hia. destruct Hia as (i & <- & Hi). apply in_seq in Hi.
    destruct (nth_error ops i) as [o|] eqn:Eo; [|apply nth_error_None in Eo; lia].
    rewrite (Wr_op i o Eo) in Hy. pose proof (sites_keys o (nth_error_In _ _ Eo)) as Hk.
    destruct Hy as [<-|[<-|[]]].
    - split; [lia|]. intros m tm E Hb. pose proof (F_bnd_nw s WS m tm _ E Hb). lia.
    - split; [exact (g_open_lt woff aoff s WS Hw0 Hw Ha ts WT HP _ Hk)|].
      intros m tm E Hb. destruct (g_node woff aoff s WS ts WT HP _ Hk) as (kx & tx & _ & X2 & _ & Hax).
      exact (F_bnd_axes s WS m tm _ tx _ E X2 Hb Hax).
  Qed.

  Lemma S_value_tpN : exists ketS g, tp_apply s ops = Some ketS /\ tp_expectation woff aoff s ops = Some g /\ gaxes g = [] /\
    atab ketS = atab s ++ tp_rows s ops /\
    forall rho, gvalue R zero one add mul Wr Dm tbl g rho
                = sumb (restS woff s ts ++ newW) (fun r => mul (prodSN r) (aval newA r)) rho.
  Proof.
    destruct (tp_expectation_closed woff aoff s ops ts (ws_wf s WS) WT Hnd Hin Hwn Hshp) as (ket & g & Eap & Hg & Hax & PA & PB & PG & Tab).
    exists ket, g. split; [exact Eap|]. split; [exact Hg|]. split; [exact Hax|]. split; [exact Tab|]. intros rho.
    set (T := centre_tree s c0).
    set (NA := flat_map (fun m => atoms (tens s m) ++ map (Nat.add aoff) (atoms (tens s m))) (rnodes T)).
    set (NB := flat_map (fun m => bnd (tens s m) ++ map (Nat.add woff) (bnd (tens s m))) (rnodes T)).
    pose proof (perm_T_t s WS ts HP c0 Hc0) as PT. fold T in PT.
    destruct (T_ok s WS c0 Hc0) as (_ & _ & HndT & HPT). fold T in HndT, HPT.
    assert (HndS : NoDup (rnodes ts)) by (pose proof WT as (_ & _ & Hn & _); exact Hn).
    (* the summed wires *)
    assert (PW : Permutation (gbnd g ++ map fst (gglue g)) ((restS woff s ts ++ newW) ++ NB)).
    { rewrite PB, (Permutation_map fst PG), map_map.
      rewrite (map_ext (fun m => fst (tp_pair woff s ops m)) kop) by (intros m; rewrite tp_pair_kopN; reflexivity).
      assert (SW : Permutation (map (fun o : id * list nat => opS (fst o)) ops ++ map kop (rnodes ts)) (map opS (rnodes ts) ++ newW)).
      { rewrite <- (map_map fst opS). unfold new_wires. rewrite <- (map_length fst ops).
        apply (swap_sites opS (Nat.add (next_wire s)) (rnodes ts) sites HndS Hnd).
        intros x Hx. apply in_map_iff in Hx. destruct Hx as (o & <- & Ho). apply Hin. exact Ho. }
      pose proof (perm_wires_T woff aoff s WS Hw0 Hw Ha ts WT HP c0 Hc0 (opS c0) Hco0) as PWT. fold T NB in PWT.
      rewrite (map_ext (ket_open s c0 (opS c0)) opS) in PWT by (intros m; apply (kop_norm s c0 _ eq_refl)).
      assert (PR : Permutation (wires_sub (bond_u woff s c0) (bond_u' woff s c0) (fun m => [ket_open s c0 (opS c0) m]) T) (restS woff s ts)).
      { rewrite (wires_sub_perm _ _ _ T). unfold restS. apply Permutation_app.
        - rewrite (flat_map_double (bond_u woff s c0) (bond_u' woff s c0) woff (rdesc T)).
          + unfold T. rewrite <- (Permutation_flat_map _ (perm_edges woff aoff s WS Hw0 Hw Ha ts WT HP c0 Hc0 _ Hco0)).
            rewrite flat_map_map. reflexivity.
          + intros m Hm. destruct (u_rdesc_T woff aoff s WS Hw0 Hw Ha c0 Hc0 _ Hco0 m Hm) as (kn & p & _ & _ & _ & U1 & U2).
            rewrite U1, U2. reflexivity.
        - rewrite flat_map_single. rewrite (map_ext _ opS) by (intros m; apply (kop_norm s c0 _ eq_refl)).
          apply Permutation_map. exact PT. }
      rewrite PR in PWT.
      transitivity (((edge_wires s bra (rdesc ts) ++ inner_bnd s bra (rnodes ts)) ++ map opS (rnodes ts)) ++ newW).
      - rewrite <- !app_assoc. do 2 apply Permutation_app_head. exact SW.
      - rewrite PWT. perm_solve. }
    rewrite (gvalue_norm R zero one add mul SR Wr Dm tbl g (NA ++ newA) ((restS woff s ts ++ newW) ++ NB) OPT rho).
    - rewrite sum_bnd_app. apply sum_bnd_ext_F. intros r1.
      rewrite (sum_bnd_ext_F R zero add Dm NB _ (fun r => mul (aval NA (glue_asg OPT r)) (aval newA r))).
      2:{ intros r. rewrite (atoms_val_app R zero one add mul SR). f_equal.
          apply aval_agree. intros a y Hia Hy. apply (glueg_ket woff aoff s Hw0 Hw Ha ts kop). apply (op_wires a y Hia Hy). }
      rewrite (sum_bnd_mul_r R zero one add mul SR Dm NB (aval newA)).
      2:{ intros r r' Hag. apply aval_agree. intros a y Hia Hy. apply Hag. destruct (op_wires a y Hia Hy) as (Hlt & Hnb).
          unfold NB. intros Hx. apply in_flat_map in Hx. destruct Hx as (m & Hm & Hx).
          destruct (g_node woff aoff s WS ts WT HP m (Permutation_in _ HPT Hm)) as (kn & tm & _ & A2 & V4 & _). rewrite V4 in Hx.
          apply in_app_or in Hx. destruct Hx as [Hx|Hx]; [exact (Hnb m tm A2 Hx)|].
          apply in_map_iff in Hx. destruct Hx as (b & Eb & _). lia. }
      f_equal. unfold NA, NB, prodSN. change (OPTN woff s ops) with (OPTg woff s kop).
      rewrite (fusedg R zero one add mul SR woff aoff s tbl WS Hw0 Hw Ha Wr Dm Wr_ket Wr_bra ts WT HP kop kopN_range (rnodes T) r1 HndT
                 (fun m Hm => Permutation_in _ HPT Hm)).
      apply (prod_over_perm R zero one add mul SR). exact PT.
    - rewrite PA. apply Permutation_app.
      + unfold NA, T. exact (perm_atoms_T woff aoff s WS ts WT HP c0 Hc0).
      + unfold new_atoms. rewrite map_add_seq. reflexivity.
    - exact PW.
    - rewrite PG. unfold OPTN. rewrite (Permutation_map _ HP). apply Permutation_refl'. apply map_ext. intros m. apply tp_pair_kopN.
    - exact (OPTg_nodup woff aoff s WS Hw0 Hw Ha ts WT HP kop).
  Qed.
End STPN.

(* ================================================================================================================ *)
(* 5. the world of the state side: the pair world of C04 extended by the rows apply_operator appends                  *)
(* ================================================================================================================ *)
Definition tpN_wiresS (woff aoff : nat) (s : store) (ops : list (id * list nat)) : nat -> list wire :=
  fun a => match aget a (tp_rows s ops) with Some ws => ws | None => pair_wires s (conj_store woff aoff s) a end.
Definition tpN_dimS (woff aoff : nat) (s : store) (ops : list (id * list nat)) : wire -> nat :=
  fun w => match aget w (tp_dims s ops) with Some dd => dd | None => pair_dim s (conj_store woff aoff s) w end.

Lemma tpN_W_old woff aoff s ops a : (a < next_atom s \/ next_atom s + length ops <= a) ->
  tpN_wiresS woff aoff s ops a = pair_wires s (conj_store woff aoff s) a.
Proof. intros H. unfold tpN_wiresS, tp_rows. rewrite aget_rows_none by exact H. reflexivity. Qed.

Lemma tpN_W_op woff aoff s ops i o : nth_error ops i = Some o ->
  tpN_wiresS woff aoff s ops (next_atom s + i) = [next_wire s + i; open_wire s (fst o)].
Proof.
  intros Ho. unfold tpN_wiresS, tp_rows.
  pose proof (aget_rows (next_atom s) (fun io : nat * (id * list nat) => [next_wire s + fst io; open_wire s (fst (snd io))]) ops 0 i o Ho) as Hr.
  cbn [Nat.add] in Hr. unfold wire, id in *. rewrite Hr. reflexivity.
Qed.

Lemma tpN_D_old woff aoff s ops w : (w < next_wire s \/ next_wire s + length ops <= w) ->
  tpN_dimS woff aoff s ops w = pair_dim s (conj_store woff aoff s) w.
Proof. intros H. unfold tpN_dimS, tp_dims. rewrite aget_rows_none by exact H. reflexivity. Qed.

Lemma tpN_D_op woff aoff s ops i o : nth_error ops i = Some o -> tpN_dimS woff aoff s ops (next_wire s + i) = hd 0 (snd o).
Proof.
  intros Ho. unfold tpN_dimS, tp_dims.
  pose proof (aget_rows (next_wire s) (fun io : nat * (id * list nat) => hd 0 (snd (snd io))) ops 0 i o Ho) as Hr.
  cbn [Nat.add] in Hr. unfold wire, id in *. rewrite Hr. reflexivity.
Qed.

(* ================================================================================================================ *)
(* 5. the same in C04's own world of the state side: the pair world of (the state after apply_operator, the conjugate   *)
(*    copy of the ORIGINAL state)                                                                                       *)
(* ================================================================================================================ *)
Lemma tpS_dims woff aoff s ops ts ketS : wf s -> wf_two s (conj_store woff aoff s) ts ->
  NoDup (map fst ops) -> (forall o, In o ops -> In (fst o) (rnodes ts)) -> next_wire s + length ops <= woff ->
  (forall o, In o ops -> snd o = [wdim s (open_wire s (fst o)); wdim s (open_wire s (fst o))]) ->
  tp_apply s ops = Some ketS -> dims ketS = dims s ++ tp_dims s ops.
Proof.
  intros W Hwf Hnd Hin Hoff Hshp Happ. set (bra := conj_store woff aoff s) in *.
  assert (Hnode : forall m, In m (rnodes ts) -> exists nd, aget m (nodes s) = Some nd /\ t_axes s m <> []).
  { intros m Hm. destruct Hwf as (_ & _ & _ & Hsub). destruct (wf_sub_node s bra ts None Hsub m Hm) as (q & cs & Hok).
    destruct Hok as (kn & bn & Ekn & _ & _ & _ & _ & _ & _ & Hax & _). exists kn. split; [exact Ekn|].
    rewrite Hax. destruct (opt_list q (up_wire s m)), (map (up_wire s) cs); discriminate. }
  assert (Hbra_open : forall m, In m (rnodes ts) -> open_wire bra m = woff + open_wire s m).
  { intros m Hm. destruct (Hnode m Hm) as (nd & End & Hne). apply (conj_store_views woff aoff s m nd W End). exact Hne. }
  destruct (tp_apply_views bra ts ops s ketS Hwf Hnd Hin) as (_ & _ & _ & _ & _ & V6); auto.
  - intros i m Hi Hm. rewrite (Hbra_open m Hm). lia.
  - intros o Ho. rewrite (Hshp o Ho). eauto.
Qed.

Section PairWorldN.
  Variables (woff aoff : nat) (s ketS : store) (ops : list (id * list nat)).
  Hypothesis WS : wfs s.
  Hypothesis Tab : atab ketS = atab s ++ tp_rows s ops.
  Hypothesis Dms : dims ketS = dims s ++ tp_dims s ops.
  Local Notation bra := (conj_store woff aoff s).

  Lemma pairK_W_old a : (a < next_atom s \/ next_atom s + length ops <= a) -> pair_wires ketS bra a = pair_wires s bra a.
  Proof.
    intros H. unfold pair_wires. rewrite Tab, aget_app. destruct (aget a (atab s)); [reflexivity|].
    unfold tp_rows. rewrite aget_rows_none by exact H. reflexivity.
  Qed.

  Lemma pairK_W_op i o : nth_error ops i = Some o -> pair_wires ketS bra (next_atom s + i) = [next_wire s + i; open_wire s (fst o)].
  Proof.
    intros Ho. unfold pair_wires. rewrite Tab, aget_app. destruct (aget (next_atom s + i) (atab s)) eqn:E.
    - apply aget_Some_keys in E. pose proof (ws_atab_lt s WS _ E). lia.
    - unfold tp_rows.
      pose proof (aget_rows (next_atom s) (fun io : nat * (id * list nat) => [next_wire s + fst io; open_wire s (fst (snd io))]) ops 0 i o Ho) as Hr.
      cbn [Nat.add] in Hr. unfold wire, id in *. rewrite Hr. reflexivity.
  Qed.

  Lemma pairK_D_old w : (w < next_wire s \/ next_wire s + length ops <= w) -> pair_dim ketS bra w = pair_dim s bra w.
  Proof.
    intros H. unfold pair_dim. rewrite Dms, aget_app. destruct (aget w (dims s)); [reflexivity|].
    unfold tp_dims. rewrite aget_rows_none by exact H. reflexivity.
  Qed.

  Lemma pairK_D_op i o : nth_error ops i = Some o -> pair_dim ketS bra (next_wire s + i) = hd 0 (snd o).
  Proof.
    intros Ho. unfold pair_dim. rewrite Dms, aget_app. destruct (aget (next_wire s + i) (dims s)) eqn:E.
    - apply aget_Some_keys in E. pose proof (wf_dims s (ws_wf s WS) _ E). lia.
    - unfold tp_dims.
      pose proof (aget_rows (next_wire s) (fun io : nat * (id * list nat) => hd 0 (snd (snd io))) ops 0 i o Ho) as Hr.
      cbn [Nat.add] in Hr. unfold wire, id in *. rewrite Hr. reflexivity.
  Qed.
End PairWorldN.
