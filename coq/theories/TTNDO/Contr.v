(* Symbolic model of pytreenet/contractions/ttndo_contractions.py (trace_ttndo,
   ttndo_ttno_expectation_value, _contract_ttno_root, _single_site_contraction,
   _contract_final_block, ttndo_contraction_order) and of the helpers they call with identifier
   transformations: state_state_contraction.contract_any_nodes(..., id_trafo=...) and
   state_operator_contraction.contract_any_node_environment_but_one(..., bra_node=..., bra_tensor=...,
   id_trafo_op=..., id_trafo_bra=...), contraction_util.get_equivalent_legs(..., id_trafo=...).

   ONE store holds the whole density-operator network (artificial root + ket nodes + bra nodes: what
   TTNDO/Sym.from_ttns_ops builds); a second store (disjoint wires and atoms, Blocks.store_at) holds the TTNO.
   Arrays are the symbolic arrays of Contr/Blocks.v: one wire per axis; a tensordot over equal wires binds
   the wire, over different wires it records the glued pair.  There is NO conjugation anywhere in this
   file: the bra tensors are stored conjugated when the network is built (TTNDO/Sym.v, C16 build tie).

   The Python control flow is followed literally: TreeStructure.linearise (post-order), the filter
   by the ket suffix, the loop over that order with the PartialTreeCachDict (keys (node, next node),
   add_entry / delete_entry / get_entry), per ket node the bra node through ket_to_bra_id and the
   operator node through reverse_ket_id, the leaf / subtree branch, the final root contraction and the
   `[0]` on its result.

   What is abstracted, and nothing else:
   - ttndo[id] / ttno[id] (TensorDict.__getitem__ transposes the stored array) is the non-mutating logical
     view Blocks.tensor_of, as in Contr/Blocks.v;
   - identifiers are naturals; the five identifier functions of SymmetricTTNDO are the fields of `idmaps`
     (`code_maps` is the instance for the encoding TTNDO/Sym.code; ContrProofs.code_maps_spec relates it to
     Sym.ket_id / bra_id / ket_to_bra_id / reverse_ket_id / is_ket);
   - `contraction_result[0]`: the model insists that the result has exactly one axis of dimension 1 (the open
     leg of the artificial root, shape (k,k,1)) and binds its wire (a sum over a one-element index = entry 0);
     for any other shape the model has no value (None) although NumPy would return a slice;
   - return values that are plain numbers (0 for an empty network) and raised errors are None.
   Definitions only; proofs are in ContrProofs.v. *)
From Coq Require Import List Arith Bool.
From PTN Require Import TTN.Store Contr.Blocks Contr.Closed.
Import ListNotations.

(* ================================================================================================== *)
(* A. identifier functions of SymmetricTTNDO                                                          *)
(* ================================================================================================== *)
Record idmaps := {
  im_isket : id -> bool;      (* node_id.endswith(ket_suffix) *)
  im_k2b : id -> id;          (* ket_to_bra_id *)
  im_rev : id -> id;          (* reverse_ket_id: identifier of the state / operator node *)
  im_kid : id -> id;          (* ket_id *)
  im_bid : id -> id           (* bra_id *)
}.

(* the encoding of TTNDO/Sym.code: root 0, ket image of n = 2n+1, bra image of n = 2n+2 *)
Definition code_maps : idmaps :=
  {| im_isket := Nat.odd; im_k2b := S; im_rev := fun c => Nat.div2 (c - 1);
     im_kid := fun n => 2 * n + 1; im_bid := fun n => 2 * n + 2 |}.

(* ================================================================================================== *)
(* B. TreeStructure.linearise and ttndo_contraction_order                                             *)
(* ================================================================================================== *)
(* _linearised_rec: the children in order, then the node *)
Fixpoint lin (fuel : nat) (s : store) (n : id) : option (list id) :=
  match fuel with
  | O => None
  | S f => match aget n (nodes s) with
           | Some nd => option_map (fun ls => concat ls ++ [n]) (all_some (map (lin f s) (children nd)))
           | None => None
           end
  end.

Definition linearise (s : store) : option (list id) :=
  match root s with Some r => lin (S (length (nodes s))) s r | None => Some [] end.

Definition ttndo_contraction_order (im : idmaps) (d : store) : option (list id) :=
  option_map (filter (im_isket im)) (linearise d).

(* ================================================================================================== *)
(* C. PartialTreeCachDict: a Python dict with keys (node_id, next_node_id)                            *)
(* ================================================================================================== *)
Definition cache := list (id * id * garr).

Definition key_eqb (a b : id * id) : bool := Nat.eqb (fst a) (fst b) && Nat.eqb (snd a) (snd b).

(* get_entry: self[node_id, next_node_id] (KeyError = None) *)
Fixpoint cget (k : id * id) (c : cache) : option garr :=
  match c with [] => None | (k', g) :: t => if key_eqb k k' then Some g else cget k t end.
(* add_entry: self[node_id, next_node_id] = tensor *)
Fixpoint cset (k : id * id) (g : garr) (c : cache) : cache :=
  match c with
  | [] => [(k, g)]
  | (k', g') :: t => if key_eqb k k' then (k, g) :: t else (k', g') :: cset k g t
  end.
(* delete_entry: del self[node_id, next_node_id] (KeyError = None) *)
Fixpoint cdel (k : id * id) (c : cache) : option cache :=
  match c with
  | [] => None
  | (k', g') :: t => if key_eqb k k' then Some t else option_map (cons (k', g')) (cdel k t)
  end.

(* what the helpers of contraction_util see of the dictionary when they work on node n: they only call
   get_entry(neighbour_id, n).  ContrProofs.cview_get: aget nb (cview n c) = cget (nb, n) c *)
Definition cview (n : id) (c : cache) : list (id * garr) :=
  map (fun e => (fst (fst e), snd e)) (filter (fun e => Nat.eqb (snd (fst e)) n) c).

(* for child_id in ket_children: block_cache.delete_entry(child_id, ket_id) *)
Definition del_children (cs : list id) (n : id) (c : cache) : option cache :=
  fold_left (fun acc ch => match acc with Some c' => cdel (ch, n) c' | None => None end) cs (Some c).

(* one pass of `for ket_id in contraction_order:`; blockf does everything up to the block, and reports the
   next node and the children whose entries are deleted *)
Definition loop_step (blockf : id -> list (id * garr) -> option (id * list id * garr))
                     (acc : option cache) (k : id) : option cache :=
  match acc with
  | None => None
  | Some c =>
      match blockf k (cview k c) with
      | Some (next, chs, blk) => del_children chs k (cset (k, next) blk c)
      | None => None
      end
  end.

(* ================================================================================================== *)
(* D. helpers with identifier transformations                                                         *)
(* ================================================================================================== *)
Definition g_transpose (p : list nat) (g : garr) : garr :=
  {| gaxes := permute 0 p (gaxes g); gatoms := gatoms g; gbnd := gbnd g; gglue := gglue g |}.

(* get_equivalent_legs(node1, node2, ignore_legs, id_trafo) *)
Definition equivalent_legs_tr (tr : id -> id) (n1 n2 : node) (ignore : option id) : option (list nat * list nat) :=
  let nbs := filter (fun nb => match ignore with Some x => negb (Nat.eqb nb x) | None => true end) (neighbouring_nodes n1) in
  match all_some (map (neighbour_index n1) nbs), all_some (map (fun nb => neighbour_index n2 (tr nb)) nbs) with
  | Some l1, Some l2 => Some (l1, l2)
  | _, _ => None
  end.

(* state_state_contraction.contract_leafs *)
Definition contract_leafs (kn bn : node) (kt bt : garr) : option garr :=
  if negb (Nat.eqb (length (children kn)) 0 && Nat.eqb (length (children bn)) 0) then None else
  if negb (Nat.eqb (nopen kn) 1 && Nat.eqb (nopen bn) 1) then None else
  g_tensordot kt bt [nvirt kn] [nvirt bn].

(* state_state_contraction.contract_bra_to_ket_and_blocks_ignore_one_leg(..., id_trafo) *)
Definition bra_to_ket_ignore_tr (tr : id -> id) (bt ketblock : garr) (bn kn : node) (next : id) : option garr :=
  match neighbour_index kn next with
  | None => None
  | Some inext =>
      let nbs := filter (fun nb => negb (Nat.eqb nb next)) (neighbouring_nodes kn) in
      match all_some (map (neighbour_index kn) nbs), all_some (map (fun nb => neighbour_index bn (tr nb)) nbs) with
      | Some kis, Some bis =>
          let legs_block := map (fun ki => ki + 1 + (if Nat.ltb ki inext then 1 else 0)) kis ++ [1] in
          let legs_bra := bis ++ [nvirt bn] in
          g_tensordot ketblock bt legs_block legs_bra
      | _, _ => None
      end
  end.

(* state_state_contraction.contract_any_nodes(next, node1, node2, tensor1, tensor2, dictionary, id_trafo) *)
Definition contract_any_nodes_tr (tr : id -> id) (next : id) (kn bn : node) (kt bt : garr) (blocks : list (id * garr)) : option garr :=
  match children kn with
  | [] => contract_leafs kn bn kt bt
  | _ => match all_but_one_to_ket kt kn next blocks with
         | Some kb => bra_to_ket_ignore_tr tr bt kb bn kn next
         | None => None
         end
  end.

(* state_operator_contraction.contract_operator_tensor_ignoring_one_leg(..., id_trafo) *)
Definition op_ignoring_one_leg (tr : id -> id) (cur : garr) (kn : node) (ot : garr) (on : node) (ign : id) : option garr :=
  match equivalent_legs_tr tr kn on (Some ign) with
  | Some (_, op_legs) =>
      let tensor_legs := map (fun j => 2 * j) (seq 1 (nvirt kn - 1)) ++ [1] in       (* range(2, 2*nn, 2) + [1] *)
      g_tensordot cur ot tensor_legs (op_legs ++ [nvirt on + 1])
  | None => None
  end.

(* state_operator_contraction.contract_bra_tensor_ignore_one_leg(..., id_trafo) *)
Definition bra_ignore_one_leg (tr : id -> id) (bt : garr) (bn : node) (kob : garr) (kn : node) (ign : id) : option garr :=
  let k := nvirt kn in
  match equivalent_legs_tr tr kn bn (Some ign) with
  | Some (_, bra_legs) => g_tensordot kob bt (seq 1 (k - 1) ++ [k + 1]) (bra_legs ++ [nvirt bn])   (* range(1, nn) + [nn+1] *)
  | None => None
  end.

(* state_operator_contraction.contract_any_node_environment_but_one with bra_node / bra_tensor given:
   contract_leaf resp. contract_subtrees_using_dictionary (Blocks.sandwich_leaf is contract_leaf) *)
Definition env_but_one (im : idmaps) (next : id) (kn : node) (kt : garr) (on : node) (ot : garr)
                       (bn : node) (bt : garr) (blocks : list (id * garr)) : option garr :=
  match children kn with
  | [] => sandwich_leaf kt ot bt kn on bn
  | _ => match all_but_one_to_ket kt kn next blocks with
         | Some t1 =>
             match op_ignoring_one_leg (im_rev im) t1 kn ot on next with
             | Some t2 => bra_ignore_one_leg (im_k2b im) bt bn t2 kn next
             | None => None
             end
         | None => None
         end
  end.

(* ================================================================================================== *)
(* E. trace_ttndo                                                                                     *)
(* ================================================================================================== *)
(* the body of the loop up to the block: ttndo[ket_id], next_ket_id = ket_node.parent,
   ttndo[id_trafo(ket_id)], contract_any_nodes(..., id_trafo=id_trafo) *)
Definition trace_block (im : idmaps) (d : store) (k : id) (blocks : list (id * garr)) : option (id * list id * garr) :=
  match aget k (nodes d), tensor_of d k, aget (im_k2b im k) (nodes d), tensor_of d (im_k2b im k) with
  | Some kn, Some kt, Some bn, Some bt =>
      match parent kn with
      | Some next =>
          match contract_any_nodes_tr (im_k2b im) next kn bn kt bt blocks with
          | Some blk => Some (next, children kn, blk)
          | None => None
          end
      | None => None        (* a node of the contraction order is never the root *)
      end
  | _, _, _, _ => None
  end.

(* contraction_result[0] *)
Definition g_index0 (d : store) (g : garr) : option garr :=
  match gaxes g with
  | [w] => if Nat.eqb (wdim d w) 1
           then Some {| gaxes := []; gatoms := gatoms g; gbnd := w :: gbnd g; gglue := gglue g |}
           else None
  | _ => None
  end.

(* _contract_final_block *)
Definition contract_final_block (im : idmaps) (d : store) (fb : garr) : option garr :=
  match root d with
  | None => None
  | Some r =>
      match aget r (nodes d), tensor_of d r with
      | Some rn, Some rt =>
          if negb (Nat.eqb (nvirt rn) 2) then None else                      (* assert nneighbours() == 2 *)
          match filter (im_isket im) (children rn) with
          | [] => None                                                       (* [...][0]: IndexError *)
          | fk :: _ =>
              match neighbour_index rn fk, neighbour_index rn (im_k2b im fk) with
              | Some i1, Some i2 =>
                  match g_tensordot rt fb [i1; i2] [0; 1] with
                  | Some res => g_index0 d res
                  | None => None
                  end
              | _, _ => None
              end
          end
      | _, _ => None
      end
  end.

Definition trace_ttndo (im : idmaps) (d : store) : option garr :=
  match root d with
  | None => None                                          (* returns the number 0 *)
  | Some r =>
      if Nat.eqb (length (nodes d)) 1 then None else      (* ValueError *)
      match ttndo_contraction_order im d with
      | None => None
      | Some order =>
          match fold_left (loop_step (trace_block im d)) order (Some []) with
          | None => None
          | Some c =>
              match order with
              | [] => None                                (* contraction_order[-1]: IndexError *)
              | _ => match cget (last order 0, r) c with
                     | Some fb => contract_final_block im d fb
                     | None => None
                     end
              end
          end
      end
  end.

(* ================================================================================================== *)
(* F. ttndo_ttno_expectation_value                                                                    *)
(* ================================================================================================== *)
Definition expect_block (im : idmaps) (d op : store) (k : id) (blocks : list (id * garr)) : option (id * list id * garr) :=
  match aget k (nodes d), tensor_of d k, aget (im_k2b im k) (nodes d), tensor_of d (im_k2b im k),
        aget (im_rev im k) (nodes op), tensor_of op (im_rev im k) with
  | Some kn, Some kt, Some bn, Some bt, Some on, Some ot =>
      match parent kn with
      | Some next =>
          match env_but_one im next kn kt on ot bn bt blocks with
          | Some blk => Some (next, children kn, blk)
          | None => None
          end
      | None => None
      end
  | _, _, _, _, _, _ => None
  end.

(* _single_site_contraction: (bra @ op @ ket.T).T with the three ndim == 2 assertions *)
Definition single_site_contraction (kt rt bt : garr) : option garr :=
  if negb (Nat.eqb (length (gaxes kt)) 2 && Nat.eqb (length (gaxes rt)) 2 && Nat.eqb (length (gaxes bt)) 2) then None else
  match g_tensordot bt rt [1] [0] with
  | Some br =>
      match g_tensordot br (g_transpose [1; 0] kt) [1] [0] with
      | Some blk => Some (g_transpose [1; 0] blk)
      | None => None
      end
  | None => None
  end.

(* _contract_ttno_root *)
Definition contract_ttno_root (im : idmaps) (d op : store) (c : cache) : option garr :=
  match root op, root d with
  | Some ro, Some rd =>
      match aget ro (nodes op), tensor_of op ro,
            aget (im_kid im ro) (nodes d), tensor_of d (im_kid im ro),
            aget (im_bid im ro) (nodes d), tensor_of d (im_bid im ro) with
      | Some rn, Some rtens, Some kn, Some kt, Some bn, Some bt =>
          if Nat.eqb (length (nodes op)) 1 then
            match c with [] => single_site_contraction kt rtens bt | _ => None end     (* assert len(block_cache) == 0 *)
          else
            match all_but_one_to_ket kt kn rd (cview (im_kid im ro) c) with
            | Some kb =>
                match op_ignoring_one_leg (im_rev im) kb kn rtens rn rd with
                | Some kob =>
                    match equivalent_legs_tr (im_k2b im) kn bn (Some rd) with
                    | Some (_, lb) => g_tensordot kob bt (seq 1 (nvirt kn)) (lb ++ [nvirt bn])   (* range(1, nn+1) *)
                    | None => None
                    end
                | None => None
                end
            | None => None
            end
      | _, _, _, _, _, _ => None
      end
  | _, _ => None
  end.

Definition ttndo_ttno_expectation (im : idmaps) (d op : store) : option garr :=
  match root d, root op with
  | None, None => None                                   (* returns the number 0 *)
  | _, _ =>
      match ttndo_contraction_order im d with
      | None => None
      | Some order =>
          match fold_left (loop_step (expect_block im d op)) (removelast order) (Some []) with   (* [:-1] *)
          | Some c =>
              match contract_ttno_root im d op c with
              | Some fb => contract_final_block im d fb
              | None => None
              end
          | None => None
          end
      end
  end.

(* ================================================================================================== *)
(* G. what a consistent density-operator network (and operator) is                                    *)
(* ================================================================================================== *)
(* post-order of a rose tree of identifiers *)
Fixpoint rpost (t : rt) : list id := match t with RN n cs => flat_map rpost cs ++ [n] end.

Section WFD.
  Variables (im : idmaps) (d : store).
  Let k2b := im_k2b im.

  (* ket node n with parent p and children cs (ket identifiers, in the ket node's order); its bra
     partner k2b n has SOME parent and the images of cs as children in ANY order; both logical tensors
     have the legs (parent, children in the node's own order, one open leg); the wire on the leg to a
     child is the wire on that child's parent leg; the two open wires differ; the ket filter accepts
     n and rejects its partner *)
  Definition dnode_ok (p n : id) (cs : list id) : Prop :=
    exists kn bn bp,
      aget n (nodes d) = Some kn /\ aget (k2b n) (nodes d) = Some bn /\
      parent kn = Some p /\ parent bn = Some bp /\
      children kn = cs /\ Permutation.Permutation (children bn) (map k2b cs) /\
      NoDup (neighbouring_nodes kn) /\ NoDup (neighbouring_nodes bn) /\
      t_axes d n = up_wire d n :: map (up_wire d) cs ++ [open_wire d n] /\
      t_axes d (k2b n) = up_wire d (k2b n) :: map (up_wire d) (children bn) ++ [open_wire d (k2b n)] /\
      open_wire d n <> open_wire d (k2b n) /\
      im_isket im n = true /\ im_isket im (k2b n) = false.

  Inductive wf_subD : id -> rt -> Prop :=
  | wf_subD_intro p n cs :
      dnode_ok p n (map rid cs) ->
      (forall c, In c cs -> wf_subD n c) ->
      wf_subD p (RN n cs).

  (* the artificial root r0: no parent, exactly the two children (ket root, bra root) in either order,
     rejected by the ket filter, legs (children in order, one open leg of dimension 1) *)
  Definition droot_ok (r0 : id) (kr : id) : Prop :=
    exists rn,
      aget r0 (nodes d) = Some rn /\ parent rn = None /\
      (children rn = [kr; k2b kr] \/ children rn = [k2b kr; kr]) /\
      im_isket im r0 = false /\
      t_axes d r0 = map (up_wire d) (children rn) ++ [open_wire d r0] /\
      wdim d (open_wire d r0) = 1.

  (* t: the tree of KET identifiers below the artificial root r0 *)
  Definition wf_ttndo (r0 : id) (t : rt) : Prop :=
    root d = Some r0 /\ NoDup (rnodes t) /\ wf_subD r0 t /\ droot_ok r0 (rid t).
End WFD.

Section WFD3.
  Variables (im : idmaps) (d op : store).
  Let k2b := im_k2b im.
  Let rev := im_rev im.

  (* additionally the operator node rev n: parent po (None exactly for the operator's root), the images of
     cs as children in ANY order, legs (parent, children in its own order, output, input); the ket's open
     wire differs from the input wire and the output wire from the bra's open wire *)
  Definition dnode_ok3 (po_some : bool) (p n : id) (cs : list id) : Prop :=
    dnode_ok im d p n cs /\
    exists on,
      aget (rev n) (nodes op) = Some on /\
      (if po_some then exists po, parent on = Some po else parent on = None) /\
      Permutation.Permutation (children on) (map rev cs) /\
      NoDup (neighbouring_nodes on) /\
      t_axes op (rev n) = opt_list (parent on) (up_wire op (rev n)) ++ map (up_wire op) (children on)
                          ++ [out_wire op (rev n); in_wire op (rev n)] /\
      open_wire d n <> in_wire op (rev n) /\
      out_wire op (rev n) <> open_wire d (k2b n).

  Inductive wf_subD3 : id -> rt -> Prop :=
  | wf_subD3_intro p n cs :
      dnode_ok3 true p n (map rid cs) ->
      (forall c, In c cs -> wf_subD3 n c) ->
      wf_subD3 p (RN n cs).

  Definition wf_ttndo3 (r0 : id) (t : rt) : Prop :=
    root d = Some r0 /\ NoDup (rnodes t) /\ droot_ok im d r0 (rid t) /\
    dnode_ok3 false r0 (rid t) (map rid (rcs t)) /\
    (forall c, In c (rcs t) -> wf_subD3 (rid t) c) /\
    root op = Some (rev (rid t)) /\
    im_kid im (rev (rid t)) = rid t /\ im_bid im (rev (rid t)) = k2b (rid t) /\
    (* len(ttno.nodes) == 1 exactly when the operator's root is a leaf *)
    (length (nodes op) = 1 <-> rcs t = []).
End WFD3.

(* ---- the expected closed diagrams ------------------------------------------------------------- *)
Section Expected.
  Variables (im : idmaps) (d op : store).
  Let k2b := im_k2b im.
  Let rev := im_rev im.

  (* trace: atoms = the root atom and every ket and bra atom; bound = the root's open wire and both parent
     wires of every ket / bra pair; glued = (ket open wire of m, bra open wire of m) *)
  Definition tr_atoms (r0 : id) (ns : list id) : list nat :=
    t_atoms d r0 ++ flat_map (fun m => t_atoms d m ++ t_atoms d (k2b m)) ns.
  Definition tr_bnd (r0 : id) (ns : list id) : list wire :=
    open_wire d r0 :: flat_map (fun m => [up_wire d m; up_wire d (k2b m)]) ns
    ++ t_bnd d r0 ++ flat_map (fun m => t_bnd d m ++ t_bnd d (k2b m)) ns.
  Definition tr_glue (ns : list id) : list (wire * wire) :=
    map (fun m => (open_wire d m, open_wire d (k2b m))) ns.

  (* expectation value: additionally every operator atom, the operator's edge wires (one per node below
     its root); glued = (ket open m, operator input m) and (operator output m, bra open m) *)
  Definition ex_atoms (r0 : id) (ns : list id) : list nat :=
    t_atoms d r0 ++ flat_map (fun m => t_atoms d m ++ t_atoms op (rev m) ++ t_atoms d (k2b m)) ns.
  Definition ex_bnd (r0 : id) (ns desc : list id) : list wire :=
    open_wire d r0 :: flat_map (fun m => [up_wire d m; up_wire d (k2b m)]) ns
    ++ map (fun m => up_wire op (rev m)) desc
    ++ t_bnd d r0 ++ flat_map (fun m => t_bnd d m ++ t_bnd op (rev m) ++ t_bnd d (k2b m)) ns.
  Definition ex_glue (ns : list id) : list (wire * wire) :=
    flat_map (fun m => [(open_wire d m, in_wire op (rev m)); (out_wire op (rev m), open_wire d (k2b m))]) ns.
End Expected.

(* ================================================================================================== *)
(* H. executable checkers                                                                             *)
(* ================================================================================================== *)
(* the artificial root, and the tree of ket identifiers read off the store *)
Definition ttndo_tree (im : idmaps) (d : store) : option (id * rt) :=
  match root d with
  | Some r0 =>
      match aget r0 (nodes d) with
      | Some rn =>
          match filter (im_isket im) (children rn) with
          | kr :: _ => option_map (fun t => (r0, t)) (tree_of (S (length (nodes d))) d kr)
          | [] => None
          end
      | None => None
      end
  | None => None
  end.

Definition dnode_okb (im : idmaps) (d : store) (p n : id) (cs : list id) : bool :=
  let k2b := im_k2b im in
  match aget n (nodes d), aget (k2b n) (nodes d) with
  | Some kn, Some bn =>
      opt_eqb (parent kn) (Some p) && (match parent bn with Some _ => true | None => false end) &&
      list_eqb (children kn) cs && perm_of_nodupb (children bn) (map k2b cs) &&
      nodupb (neighbouring_nodes kn) && nodupb (neighbouring_nodes bn) &&
      list_eqb (t_axes d n) (up_wire d n :: map (up_wire d) cs ++ [open_wire d n]) &&
      list_eqb (t_axes d (k2b n)) (up_wire d (k2b n) :: map (up_wire d) (children bn) ++ [open_wire d (k2b n)]) &&
      negb (Nat.eqb (open_wire d n) (open_wire d (k2b n))) &&
      im_isket im n && negb (im_isket im (k2b n))
  | _, _ => false
  end.

Fixpoint wf_subDb (im : idmaps) (d : store) (p : id) (t : rt) : bool :=
  match t with RN n cs => dnode_okb im d p n (map rid cs) && forallb (wf_subDb im d n) cs end.

Definition droot_okb (im : idmaps) (d : store) (r0 kr : id) : bool :=
  let k2b := im_k2b im in
  match aget r0 (nodes d) with
  | Some rn =>
      (match parent rn with None => true | Some _ => false end) &&
      (list_eqb (children rn) [kr; k2b kr] || list_eqb (children rn) [k2b kr; kr]) &&
      negb (im_isket im r0) &&
      list_eqb (t_axes d r0) (map (up_wire d) (children rn) ++ [open_wire d r0]) &&
      Nat.eqb (wdim d (open_wire d r0)) 1
  | None => false
  end.

(* hypothesis checker of the universal trace theorem *)
Definition ttndo_wfb (im : idmaps) (d : store) : bool :=
  match ttndo_tree im d with
  | Some (r0, t) => nodupb (rnodes t) && wf_subDb im d r0 t && droot_okb im d r0 (rid t)
  | None => false
  end.

Definition onode_okb (im : idmaps) (d op : store) (po_some : bool) (n : id) (cs : list id) : bool :=
  let k2b := im_k2b im in let rev := im_rev im in
  match aget (rev n) (nodes op) with
  | Some on =>
      Bool.eqb (match parent on with Some _ => true | None => false end) po_some &&
      perm_of_nodupb (children on) (map rev cs) &&
      nodupb (neighbouring_nodes on) &&
      list_eqb (t_axes op (rev n))
               (opt_list (parent on) (up_wire op (rev n)) ++ map (up_wire op) (children on) ++ [out_wire op (rev n); in_wire op (rev n)]) &&
      negb (Nat.eqb (open_wire d n) (in_wire op (rev n))) &&
      negb (Nat.eqb (out_wire op (rev n)) (open_wire d (k2b n)))
  | None => false
  end.

Fixpoint wf_subD3b (im : idmaps) (d op : store) (p : id) (t : rt) : bool :=
  match t with
  | RN n cs => dnode_okb im d p n (map rid cs) && onode_okb im d op true n (map rid cs) && forallb (wf_subD3b im d op n) cs
  end.

(* hypothesis checker of the universal expectation-value theorem *)
Definition ttndo_wf3b (im : idmaps) (d op : store) : bool :=
  match ttndo_tree im d with
  | Some (r0, t) =>
      nodupb (rnodes t) && droot_okb im d r0 (rid t) &&
      dnode_okb im d r0 (rid t) (map rid (rcs t)) && onode_okb im d op false (rid t) (map rid (rcs t)) &&
      forallb (wf_subD3b im d op (rid t)) (rcs t) &&
      opt_eqb (root op) (Some (im_rev im (rid t))) &&
      Nat.eqb (im_kid im (im_rev im (rid t))) (rid t) && Nat.eqb (im_bid im (im_rev im (rid t))) (im_k2b im (rid t)) &&
      Bool.eqb (Nat.eqb (length (nodes op)) 1) (match rcs t with [] => true | _ => false end)
  | None => false
  end.

(* ---- result checkers: the program's diagram IS the expected closed diagram -------------------- *)
Definition pair_eqb (a b : nat * nat) : bool := Nat.eqb (fst a) (fst b) && Nat.eqb (snd a) (snd b).
Fixpoint pairs_eqb (a b : list (nat * nat)) : bool :=
  match a, b with
  | [], [] => true
  | x :: a', y :: b' => pair_eqb x y && pairs_eqb a' b'
  | _, _ => false
  end.

(* same multiset of atoms, of bound wires, of (unordered) glued pairs; no open axis *)
Definition diagram_is (g : garr) (atoms_e : list nat) (bnd_e : list wire) (glue_e : list (wire * wire)) : bool :=
  match gaxes g with [] => true | _ => false end &&
  list_eqb (sort_nat (gatoms g)) (sort_nat atoms_e) && nodupb (gatoms g) &&
  list_eqb (sort_nat (gbnd g)) (sort_nat bnd_e) && nodupb (gbnd g) &&
  pairs_eqb (sort_pairs (map norm_pair (gglue g))) (sort_pairs (map norm_pair glue_e)).

Definition ttndo_trace_ok (im : idmaps) (d : store) : bool :=
  match ttndo_tree im d, trace_ttndo im d with
  | Some (r0, t), Some g => diagram_is g (tr_atoms im d r0 (rnodes t)) (tr_bnd im d r0 (rnodes t)) (tr_glue im d (rnodes t))
  | _, _ => false
  end.

Definition ttndo_expect_ok (im : idmaps) (d op : store) : bool :=
  match ttndo_tree im d, ttndo_ttno_expectation im d op with
  | Some (r0, t), Some g =>
      diagram_is g (ex_atoms im d op r0 (rnodes t)) (ex_bnd im d op r0 (rnodes t) (rdesc t)) (ex_glue im d op (rnodes t))
  | _, _ => false
  end.

(* ---- what the harness evaluates per instance --------------------------------------------------- *)
(* d: the density-operator network, built by a store program (TTNDO/Sym.from_ttns_ops); the operator: a store
   program run from Blocks.store_at so that its wires and atoms are disjoint from d's *)
Definition ttndo_case (im : idmaps) (dops oops : list op) (ooff oaoff : nat) :=
  let d := fst (run empty_store dops) in
  let o := fst (run (store_at ooff oaoff) oops) in
  (observe o,
   (ttndo_wfb im d, ttndo_trace_ok im d, ttndo_wf3b im d o, ttndo_expect_ok im d o),
   (option_map summary (trace_ttndo im d), option_map summary (ttndo_ttno_expectation im d o))).
