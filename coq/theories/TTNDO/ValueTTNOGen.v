(* Property C16, value level, TTNO path -- generic lemmas about the denotation of glued diagrams (proofs only, no model):
     1. the value of a tensor in two worlds that agree on its atoms and on the dimensions of its summed wires;
     2. the value of a closed glued diagram does not depend on the ORIENTATION of its glued pairs (which of the two wires
        of a pair carries the summation index), provided both wires of every pair have the same dimension and all wires
        are distinct: gvalue_norm_unoriented.  C16_expectation_closed determines the glued pairs of the diagram of
        ttndo_ttno_expectation as unordered pairs only. *)
From Coq Require Import List Arith Bool Lia Permutation.
From PTN Require Import TTN.Store Wire.Sem Wire.SemProofs TTN.InvProofs TTN.InvSemProofs Contr.Blocks Contr.TensorProdSem
  Contr.TensorProdBridge Contr.TensorProdBridgeProofs TTNDO.ContrProofs TTNDO.ValueProofs.
Import ListNotations.

Section Worlds.
  Variable R : Type.
  Variables (zero one : R) (add mul : R -> R -> R).

  Lemma sum_bnd_worlds (dim dim' : wire -> nat) ws (F F' : assignment -> R) :
    (forall w, In w ws -> dim w = dim' w) -> (forall r, F r = F' r) ->
    forall rho, sum_bnd R zero add dim ws F rho = sum_bnd R zero add dim' ws F' rho.
  Proof.
    induction ws as [|w t IH]; intros Hd HF rho; cbn [sum_bnd]; [apply HF|].
    rewrite <- (Hd w (or_introl eq_refl)). apply sum_upto_ext. intros k _. apply IH; [|exact HF].
    intros x Hx. apply Hd. right. exact Hx.
  Qed.

  Lemma value_worlds (Wr Wr' : nat -> list wire) (Dm Dm' : wire -> nat) (tbl tbl' : nat -> list nat -> R) (t : sarr) :
    (forall a, In a (atoms t) -> Wr a = Wr' a /\ forall idx, tbl a idx = tbl' a idx) ->
    (forall w, In w (bnd t) -> Dm w = Dm' w) ->
    forall rho, value R zero one add mul Wr Dm tbl t rho = value R zero one add mul Wr' Dm' tbl' t rho.
  Proof.
    intros HA HB rho. unfold value. apply sum_bnd_worlds; [exact HB|]. intros r. unfold atoms_val.
    apply (prod_over_ext R one mul). intros a Ha. unfold atom_val. destruct (HA a Ha) as [E1 E2]. rewrite E1. apply E2.
  Qed.
End Worlds.

(* ---- norm_pair --------------------------------------------------------------------------------------------------- *)
Lemma np_cases (p : nat * nat) : norm_pair p = p \/ norm_pair p = (snd p, fst p).
Proof. unfold norm_pair. destruct (Nat.leb (fst p) (snd p)); auto. Qed.

Lemma np_eq (p q : nat * nat) : norm_pair p = norm_pair q -> q = p \/ q = (snd p, fst p).
Proof.
  destruct p as [a b], q as [c e]. unfold norm_pair. cbn [fst snd].
  destruct (Nat.leb a b), (Nat.leb c e); intros E; injection E; intros; subst; auto.
Qed.

Lemma np_perm (G : list (nat * nat)) :
  Permutation (map fst (map norm_pair G) ++ map snd (map norm_pair G)) (map fst G ++ map snd G).
Proof.
  induction G as [|p t IH]; [reflexivity|]. cbn [map app].
  destruct (np_cases p) as [E|E]; rewrite E; cbn [fst snd].
  - apply perm_skip. rewrite <- !Permutation_middle. apply perm_skip. exact IH.
  - rewrite <- !Permutation_middle. rewrite perm_swap. do 2 apply perm_skip. exact IH.
Qed.

Section Unoriented.
  Variable R : Type.
  Variables (zero one : R) (add mul : R -> R -> R).
  Hypothesis SR : comm_semiring zero one add mul.
  Variable wires_of : nat -> list wire.
  Variable dim : wire -> nat.
  Variable tbl : nat -> list nat -> R.

  Local Notation sumb := (sum_bnd R zero add dim).
  Local Notation aval := (atoms_val R one mul wires_of tbl).
  Local Notation gval := (gvalue R zero one add mul wires_of dim tbl).
  Local Notation N := (map norm_pair).

  Lemma nodup_np L (G : list (wire * wire)) : NoDup (L ++ map fst G ++ map snd G) -> NoDup (L ++ map fst (N G) ++ map snd (N G)).
  Proof. intros H. apply (Permutation_NoDup (Permutation_app_head L (Permutation_sym (np_perm G))) H). Qed.

  Lemma nodup_snd L (G : list (wire * wire)) : NoDup (L ++ map fst G ++ map snd G) -> NoDup (map snd G).
  Proof. intros H. apply NoDup_app_r in H. apply NoDup_app_r in H. exact H. Qed.

  Lemma fst_not_snd L (G : list (wire * wire)) w : NoDup (L ++ map fst G ++ map snd G) -> In w (map fst G) -> ~ In w (map snd G).
  Proof. intros H H1 H2. apply NoDup_app_r in H. exact (NoDup_app_disj _ _ w H H1 H2). Qed.

  (* reading any wire through the gluing and through the normalised gluing, at related assignments *)
  Lemma glue_np_read L (G : list (wire * wire)) (r r' rho : assignment) :
    NoDup (L ++ map fst G ++ map snd G) ->
    (forall w, In w L -> r' w = r w) ->
    (forall p, In p G -> r' (fst (norm_pair p)) = r (fst p)) ->
    (forall w, ~ In w (L ++ map fst G) -> r w = rho w) ->
    (forall w, ~ In w (L ++ map fst (N G)) -> r' w = rho w) ->
    forall w, glue_asg G r w = glue_asg (N G) r' w.
  Proof.
    intros ND HL HG Ho Ho' w. pose proof (nodup_np L G ND) as ND'.
    pose proof (nodup_snd L G ND) as S1. pose proof (nodup_snd L (N G) ND') as S2.
    destruct (in_dec Nat.eq_dec w (map snd G)) as [Hs|Hns].
    - apply in_map_iff in Hs. destruct Hs as (p & <- & Hp). rewrite (glue_asg_in G r p S1 Hp).
      assert (Hp' : In (norm_pair p) (N G)) by (apply in_map; exact Hp).
      pose proof (HG p Hp) as Hy.
      destruct (np_cases p) as [E|E].
      + pose proof (glue_asg_in (N G) r' _ S2 Hp') as Hx. rewrite E in Hx, Hy. exact (eq_trans (eq_sym Hy) (eq_sym Hx)).
      + assert (Hnot : ~ In (fst (norm_pair p)) (map snd (N G))).
        { apply (fst_not_snd L (N G) _ ND'). apply in_map. exact Hp'. }
        pose proof (glue_asg_out (N G) r' _ Hnot) as Hx. rewrite E in Hx, Hy. cbn [fst snd] in Hx, Hy. exact (eq_trans (eq_sym Hy) (eq_sym Hx)).
    - rewrite (glue_asg_out G r w Hns).
      destruct (in_dec Nat.eq_dec w (map fst G)) as [Hf|Hnf].
      + apply in_map_iff in Hf. destruct Hf as (p & <- & Hp).
        assert (Hp' : In (norm_pair p) (N G)) by (apply in_map; exact Hp).
        pose proof (HG p Hp) as Hy.
        destruct (np_cases p) as [E|E].
        * assert (Hnot : ~ In (fst (norm_pair p)) (map snd (N G))).
          { apply (fst_not_snd L (N G) _ ND'). apply in_map. exact Hp'. }
          pose proof (glue_asg_out (N G) r' _ Hnot) as Hx. rewrite E in Hx, Hy. exact (eq_trans (eq_sym Hy) (eq_sym Hx)).
        * pose proof (glue_asg_in (N G) r' _ S2 Hp') as Hx. rewrite E in Hx, Hy. cbn [fst snd] in Hx, Hy. exact (eq_trans (eq_sym Hy) (eq_sym Hx)).
      + assert (Hn' : ~ In w (map fst (N G) ++ map snd (N G))).
        { intros Hc. apply (Permutation_in _ (np_perm G)) in Hc. apply in_app_or in Hc. tauto. }
        rewrite glue_asg_out by (intros Hc; apply Hn'; apply in_or_app; right; exact Hc).
        destruct (in_dec Nat.eq_dec w L) as [Hl|Hnl]; [symmetry; apply HL; exact Hl|].
        rewrite Ho, Ho'; [reflexivity| |].
        * intros Hc. apply in_app_or in Hc. destruct Hc as [Hc|Hc]; [contradiction|]. apply Hn'. apply in_or_app. left. exact Hc.
        * intros Hc. apply in_app_or in Hc. tauto.
  Qed.

  Lemma sum_np L (G : list (wire * wire)) A rho :
    NoDup (L ++ map fst G ++ map snd G) -> (forall p, In p G -> dim (fst p) = dim (snd p)) ->
    sumb (L ++ map fst G) (fun r => aval A (glue_asg G r)) rho
    = sumb (L ++ map fst (N G)) (fun r => aval A (glue_asg (N G) r)) rho.
  Proof.
    intros ND HD. pose proof (nodup_np L G ND) as ND'.
    set (ps := map (fun w : wire => (w, w)) L ++ map (fun p : wire * wire => (fst p, fst (norm_pair p))) G).
    assert (E1 : map fst ps = L ++ map fst G).
    { unfold ps. rewrite map_app, !map_map. cbn [fst]. rewrite map_id. reflexivity. }
    assert (E2 : map snd ps = L ++ map fst (N G)).
    { unfold ps. rewrite map_app, !map_map. cbn [snd]. rewrite map_id. reflexivity. }
    rewrite <- E1, <- E2. apply (sum_bnd_rename R zero add dim dim).
    - rewrite E1. rewrite app_assoc in ND. exact (NoDup_app_l _ _ ND).
    - rewrite E2. rewrite app_assoc in ND'. exact (NoDup_app_l _ _ ND').
    - intros q Hq. unfold ps in Hq. apply in_app_or in Hq. destruct Hq as [Hq|Hq]; apply in_map_iff in Hq; destruct Hq as (x & <- & Hx); cbn [fst snd].
      + reflexivity.
      + destruct (np_cases x) as [E|E]; rewrite E; cbn [fst]; [reflexivity|apply HD; exact Hx].
    - intros r r' Hrel Ho Ho'. rewrite E1 in Ho. rewrite E2 in Ho'.
      apply (atoms_val_ext R one mul wires_of tbl A). intros w.
      apply (glue_np_read L G r r' rho ND).
      + intros x Hx. apply (Hrel (x, x)). unfold ps. apply in_or_app. left. apply (in_map (fun w : wire => (w, w))). exact Hx.
      + intros p Hp. apply (Hrel (fst p, fst (norm_pair p))). unfold ps. apply in_or_app. right.
        apply (in_map (fun p : wire * wire => (fst p, fst (norm_pair p)))). exact Hp.
      + exact Ho.
      + exact Ho'.
  Qed.

  (* no condition on the other summed wires: they are summed outside *)
  Lemma sum_np_any L (G : list (wire * wire)) A rho :
    NoDup (map fst G ++ map snd G) -> (forall p, In p G -> dim (fst p) = dim (snd p)) ->
    sumb (L ++ map fst G) (fun r => aval A (glue_asg G r)) rho
    = sumb (L ++ map fst (N G)) (fun r => aval A (glue_asg (N G) r)) rho.
  Proof.
    intros ND HD. rewrite !sum_bnd_app. apply sum_bnd_ext_F. intros r1.
    exact (sum_np [] G A r1 ND HD).
  Qed.

  (* the value of a diagram whose glued pairs are known as UNORDERED pairs *)
  Theorem gvalue_norm_unoriented g A L (G : list (wire * wire)) rho :
    Permutation (gatoms g) A -> Permutation (gbnd g) L ->
    Permutation (map norm_pair (gglue g)) (map norm_pair G) ->
    NoDup (map fst G ++ map snd G) ->
    (forall p, In p G -> dim (fst p) = dim (snd p)) ->
    gval g rho = sumb (L ++ map fst G) (fun r => aval A (glue_asg G r)) rho.
  Proof.
    intros PA PL PG ND HD.
    destruct (Permutation_map_inv norm_pair G PG) as (G3 & E3 & P3).
    assert (ND3 : NoDup (map fst G3 ++ map snd G3)).
    { apply (Permutation_NoDup (l := map fst G ++ map snd G)); [|exact ND].
      apply Permutation_app; apply Permutation_map; exact P3. }
    assert (HD3 : forall p, In p G3 -> dim (fst p) = dim (snd p)).
    { intros p Hp. apply HD. apply (Permutation_in _ (Permutation_sym P3)). exact Hp. }
    assert (NDg : NoDup (map fst (gglue g) ++ map snd (gglue g))).
    { apply (Permutation_NoDup (l := map fst G3 ++ map snd G3)); [|exact ND3].
      rewrite <- (np_perm G3), <- (np_perm (gglue g)), E3. reflexivity. }
    assert (HDg : forall p, In p (gglue g) -> dim (fst p) = dim (snd p)).
    { intros p Hp. assert (Hn : In (norm_pair p) (N G3)) by (rewrite <- E3; apply in_map; exact Hp).
      apply in_map_iff in Hn. destruct Hn as (q & Eq & Hq). destruct (np_eq q p Eq) as [->| ->].
      - apply HD3. exact Hq.
      - cbn [fst snd]. symmetry. apply HD3. exact Hq. }
    unfold gvalue. rewrite (sum_np_any (gbnd g) (gglue g) (gatoms g) rho NDg HDg). rewrite E3.
    rewrite <- (sum_np_any (gbnd g) G3 (gatoms g) rho ND3 HD3).
    set (g3 := {| gaxes := []; gatoms := gatoms g; gbnd := gbnd g; gglue := G3 |}).
    change (gval g3 rho = sumb (L ++ map fst G) (fun r => aval A (glue_asg G r)) rho).
    apply (gvalue_norm R zero one add mul SR wires_of dim tbl g3 A (L ++ map fst G) G rho).
    - exact PA.
    - cbn [gbnd gglue g3]. apply Permutation_app; [exact PL|]. apply Permutation_map. symmetry. exact P3.
    - cbn [gglue g3]. symmetry. exact P3.
    - exact (NoDup_app_r _ _ ND).
  Qed.
End Unoriented.
